/-
C20 — generated tie.  `Otel.Gen.C20` is regenerated from /repo's current source by tools/go2lean on every run of
bin/check (checks/gentie.json); the theorems below are re-checked against the regenerated text.
Sites: every default the C20 model falls back to when neither an option nor an environment variable decides:
batch span processor (sdk/trace/batch_span_processor.go), log batch processor (sdk/log/batch.go), span limits
(sdk/trace/span_limits.go), log record limits (sdk/log/provider.go), OTLP endpoints/paths/timeouts
(otlpconfig/options.go, oconf/options.go, otlploghttp/config.go, otlploggrpc/config.go).
The theorems state that these are the constants of `Otel.C20` (Model.lean) and that the model's resolvers return
them on the empty configuration.  Also the four resolvers of sdk/log/setting.go (`getenv`, `fallback`,
`clearLessThanOne`, `clampMax`; closures, skeleton from the closure's first statement, leaves = effects on the
setting) tied to the model's `getenvInt`, `fallback`, `clearLT1`, `clampMax` (a setting is `Option Int`).
-/
import Otel.Gen.C20
import Otel.C20.Model

namespace Otel.C20.GenTie
open Otel Otel.C20

/-- bytes of an ASCII string literal (kernel-reducible) -/
def strBytes (s : String) : Bytes := s.toList.map (fun c => UInt8.ofNat c.toNat)

/-! ### sdk/trace batch span processor -/

theorem gen_bsp_defaults_eq_model :
    Otel.Gen.C20.DefaultMaxQueueSize = dfltQueue ∧ Otel.Gen.C20.DefaultMaxExportBatchSize = dfltBatch ∧
    Otel.Gen.C20.DefaultScheduleDelay = dfltDelayMs ∧ Otel.Gen.C20.DefaultExportTimeout = dfltTimeoutMs := by decide

/-- `NewBatchSpanProcessor(e)` with no option and no OTEL_BSP_* variable resolves to the generated defaults
(durations in ns) -/
theorem gen_bsp_empty_config :
    newBSP { oq := none, ob := none, od := none, ot := none, eq := none, eb := none, ed := none, et := none } =
      { q := Otel.Gen.C20.DefaultMaxQueueSize, b := Otel.Gen.C20.DefaultMaxExportBatchSize,
        d := Otel.Gen.C20.DefaultScheduleDelay * 1000000, t := Otel.Gen.C20.DefaultExportTimeout * 1000000 } := by decide

/-- the reconciliation `batch ≤ queue` is a no-op on the defaults, and negative-size repair never fires on them -/
theorem gen_bsp_defaults_consistent :
    0 ≤ Otel.Gen.C20.DefaultMaxExportBatchSize ∧ Otel.Gen.C20.DefaultMaxExportBatchSize ≤ Otel.Gen.C20.DefaultMaxQueueSize := by
  decide

/-! ### sdk/log batch processor -/

/-- `newBatchConfig` with no option and no OTEL_BLRP_* variable resolves to the generated defaults -/
theorem gen_blrp_empty_config :
    newBatchConfig { oq := none, oi := none, ot := none, ob := none, obuf := none, eq := none, ei := none, et := none, eb := none } =
      { q := Otel.Gen.C20.dfltMaxQSize, i := Otel.Gen.C20.dfltExpInterval, t := Otel.Gen.C20.dfltExpTimeout,
        b := Otel.Gen.C20.dfltExpMaxBatchSize, buf := Otel.Gen.C20.dfltExpBufferSize } := by decide

/-- every default survives `clearLessThanOne` and `clampMax(queue)` (so `fallback` is the only source of them) -/
theorem gen_blrp_defaults_consistent :
    1 ≤ Otel.Gen.C20.dfltMaxQSize ∧ 1 ≤ Otel.Gen.C20.dfltExpInterval ∧ 1 ≤ Otel.Gen.C20.dfltExpTimeout ∧
    1 ≤ Otel.Gen.C20.dfltExpMaxBatchSize ∧ 1 ≤ Otel.Gen.C20.dfltExpBufferSize ∧
    Otel.Gen.C20.dfltExpMaxBatchSize ≤ Otel.Gen.C20.dfltMaxQSize := by decide

theorem gen_blrp_env_names :
    Otel.Gen.C20.envarMaxQSize = "OTEL_BLRP_MAX_QUEUE_SIZE" ∧ Otel.Gen.C20.envarExpInterval = "OTEL_BLRP_SCHEDULE_DELAY" ∧
    Otel.Gen.C20.envarExpTimeout = "OTEL_BLRP_EXPORT_TIMEOUT" ∧
    Otel.Gen.C20.envarExpMaxBatchSize = "OTEL_BLRP_MAX_EXPORT_BATCH_SIZE" := by decide

/-! ### span limits / log record limits -/

/-- the exported defaults, in the model's field order, are `slDefaults` -/
theorem gen_span_limit_defaults_eq_model :
    [Otel.Gen.C20.DefaultAttributeValueLengthLimit, Otel.Gen.C20.DefaultAttributeCountLimit,
     Otel.Gen.C20.DefaultEventCountLimit, Otel.Gen.C20.DefaultLinkCountLimit,
     Otel.Gen.C20.DefaultAttributePerEventCountLimit, Otel.Gen.C20.DefaultAttributePerLinkCountLimit] = slDefaults := by decide

/-- `NewSpanLimits()` with an empty environment returns the generated defaults -/
theorem gen_span_limits_empty_env :
    newSpanLimits { gvl := none, gcnt := none, svl := none, scnt := none, ev := none, evattr := none, ln := none, lnattr := none } =
      [Otel.Gen.C20.DefaultAttributeValueLengthLimit, Otel.Gen.C20.DefaultAttributeCountLimit,
       Otel.Gen.C20.DefaultEventCountLimit, Otel.Gen.C20.DefaultLinkCountLimit,
       Otel.Gen.C20.DefaultAttributePerEventCountLimit, Otel.Gen.C20.DefaultAttributePerLinkCountLimit] := by decide

/-- `newProviderConfig` of sdk/log with no option and no variable returns the generated defaults -/
theorem gen_log_limits_empty_config :
    logLimits none none none none = (Otel.Gen.C20.defaultAttrCntLim, Otel.Gen.C20.defaultAttrValLenLim) := by decide

theorem gen_log_limit_env_names :
    Otel.Gen.C20.envarAttrCntLim = "OTEL_LOGRECORD_ATTRIBUTE_COUNT_LIMIT" ∧
    Otel.Gen.C20.envarAttrValLenLim = "OTEL_LOGRECORD_ATTRIBUTE_VALUE_LENGTH_LIMIT" := by decide

/-! ### OTLP exporter defaults -/

/-- signal paths and default endpoints of the model are the strings in the source -/
theorem gen_otlp_paths_eq_model :
    strBytes Otel.Gen.C20.traceHttp_DefaultTracesPath = sTraces ∧
    strBytes Otel.Gen.C20.metricHttp_DefaultMetricsPath = sMetrics ∧
    strBytes Otel.Gen.C20.logHttp_defaultPath = sLogs ∧
    strBytes Otel.Gen.C20.logHttp_defaultEndpoint = sHost4318 ∧
    strBytes Otel.Gen.C20.logGrpc_defaultEndpoint = sHost4317 := by decide

/-- the default export timeout (10 s, in ns) is the same in the four packages and is the model's -/
theorem gen_otlp_timeouts_eq_model :
    Otel.Gen.C20.traceHttp_DefaultTimeout = dfltTimeoutNs ∧ Otel.Gen.C20.metricHttp_DefaultTimeout = dfltTimeoutNs ∧
    Otel.Gen.C20.logHttp_defaultTimeout = dfltTimeoutNs ∧ Otel.Gen.C20.logGrpc_defaultTimeout = dfltTimeoutNs := by decide

/-! ### sdk/log/setting.go resolvers -/

theorem gen_getenv_table (isSet atoiFails : Bool) (env : String) :
    Otel.Gen.C20.getenv isSet atoiFails env =
      (if isSet = false ∧ env ≠ "" then
         (if atoiFails then ("s", ["handleError"]) else ("s", ["value=env(ms-if-duration)", "set"]))
       else ("s", [])) := by
  unfold Otel.Gen.C20.getenv
  by_cases h : env = "" <;> cases isSet <;> cases atoiFails <;> simp [h]

/-- a Go string that is empty exactly when the modelled variable is -/
def envStr (empty : Bool) : String := if empty then "" else "x"

/-- `getenv` as written today is the model's `getenvInt` (`conv` = identity, or ×1ms for a Duration setting) -/
theorem gen_getenv_eq_model (v : Env) (conv : Int → Int) (s : Option Int) :
    getenvInt v conv s =
      (if Otel.Gen.C20.getenv s.isSome (match v with | some b => (atoi b).isNone | none => true)
            (envStr (match v with | some b => b.isEmpty | none => true)) = ("s", ["value=env(ms-if-duration)", "set"])
       then (match v with | some b => (atoi b).map conv | none => none) else s) := by
  rw [gen_getenv_table]
  unfold getenvInt envStr
  cases s <;> cases v <;> simp
  next b => cases hb : b.isEmpty <;> cases ha : atoi b <;> simp

/-- `fallback` -/
theorem gen_fallback_eq_model (d : Int) (s : Option Int) :
    fallback d s = (if Otel.Gen.C20.fallback s.isSome = ("s", ["value=default", "set"]) then d else s.getD 0) := by
  cases s <;> simp [fallback, Otel.Gen.C20.fallback] <;> (repeat' split) <;> simp_all

/-- `clearLessThanOne`: the setting is cleared (value 0, not set) iff its value is below 1 -/
theorem gen_clear_lt1_eq_model (v : Int) :
    clearLT1 (some v) = (if Otel.Gen.C20.clearLessThanOne v = ("s", ["value=0", "unset"]) then none else some v) ∧
    (Otel.Gen.C20.clearLessThanOne v = ("s", ["value=0", "unset"]) ↔ v < 1) := by
  have h : Otel.Gen.C20.clearLessThanOne v = (if v < 1 then ("s", ["value=0", "unset"]) else ("s", [])) := by
    unfold Otel.Gen.C20.clearLessThanOne
    by_cases h1 : v < 1 <;> simp [h1] <;> (try omega) <;> (repeat' split) <;> (try simp_all) <;> omega
  rw [h]; unfold clearLT1
  by_cases h1 : v < 1 <;> simp [h1]

/-- `clampMax(n)`: the value is replaced by n iff it exceeds n -/
theorem gen_clamp_max_eq_model (n v : Int) :
    clampMax n (some v) = some (if Otel.Gen.C20.clampMax v n = ("s", ["value=n"]) then n else v) := by
  have h : Otel.Gen.C20.clampMax v n = (if v > n then ("s", ["value=n"]) else ("s", [])) := by
    unfold Otel.Gen.C20.clampMax
    by_cases h1 : v > n <;> simp [h1] <;> (try omega) <;> (repeat' split) <;> (try simp_all) <;> omega
  rw [h]; unfold clampMax
  by_cases h1 : v > n <;> simp [h1]

/-! ### sdk/log newBatchConfig: the resolver chains -/

/-- `newBatchConfig` applies the options, then resolves the five settings with exactly these resolver chains, in
this order (queue size before batch size, which is clamped to it) — the compositions `Otel.C20.newBatchConfig`
writes as `fallback d (clearLT1 (getenvInt e conv (clearLT1 o)))` resp. `fallback d (clampMax q (clearLT1 (getenvInt …)))`
and `fallback d (clearLT1 o)`.  A statement that no longer has this exact shape drops out of the list (or shows up
as `otherAssignment`) and the theorem fails. -/
theorem gen_blrp_resolver_chains :
    Otel.Gen.C20.newBatchConfig =
      ("c", ["applyOptions",
             "maxQSize:clear>getenv(envarMaxQSize)>clear>fallback(dfltMaxQSize)",
             "expInterval:clear>getenv(envarExpInterval)>clear>fallback(dfltExpInterval)",
             "expTimeout:clear>getenv(envarExpTimeout)>clear>fallback(dfltExpTimeout)",
             "expMaxBatchSize:clear>getenv(envarExpMaxBatchSize)>clear>clampMax(maxQSize)>fallback(dfltExpMaxBatchSize)",
             "expBufferSize:clear>fallback(dfltExpBufferSize)"]) := by
  decide

/-! ### getOptionsFromEnv: the order in which the environment readers are applied -/

/-- the readers the model's `envOpts` concatenates, in its order, for signal prefix `sig` ("TRACES" / "METRICS") -/
def modelledReaders (sig : String) : List String :=
  ["envconfig.WithURL(ENDPOINT)", "envconfig.WithURL(" ++ sig ++ "_ENDPOINT)",
   "envconfig.WithBool(INSECURE)", "envconfig.WithBool(" ++ sig ++ "_INSECURE)",
   "envconfig.WithHeaders(HEADERS)", "envconfig.WithHeaders(" ++ sig ++ "_HEADERS)",
   "WithEnvCompression(COMPRESSION)", "WithEnvCompression(" ++ sig ++ "_COMPRESSION)",
   "envconfig.WithDuration(TIMEOUT)", "envconfig.WithDuration(" ++ sig ++ "_TIMEOUT)"]

/-- in the four trace/metric `getOptionsFromEnv` the readers of the settings the model covers are applied in exactly
the order `Otel.C20.envOpts` concatenates them — endpoint (and with it `withEndpointScheme`) before INSECURE, the
generic variable before the signal-specific one for every setting — whatever other readers sit in between -/
theorem gen_env_reader_order :
    Otel.Gen.C20.traceHttpEnvReaders.filter (modelledReaders "TRACES").contains = modelledReaders "TRACES" ∧
    Otel.Gen.C20.traceGrpcEnvReaders.filter (modelledReaders "TRACES").contains = modelledReaders "TRACES" ∧
    Otel.Gen.C20.metricHttpEnvReaders.filter (modelledReaders "METRICS").contains = modelledReaders "METRICS" ∧
    Otel.Gen.C20.metricGrpcEnvReaders.filter (modelledReaders "METRICS").contains = modelledReaders "METRICS" := by
  decide

/-! ### client constructors: every literal sets the export timeout -/

/-- every `http.Client{…}` literal of the three HTTP client files sets `Timeout`, and every `client{…}` literal of the
three gRPC `newClient` functions sets `exportTimeout` (a construction branch that forgets the field — seeded
C14-12 / C20-11 — silently exports without a deadline) -/
theorem gen_client_literals_set_timeout :
    (∀ l ∈ Otel.Gen.C20.traceHttpClientLiterals ++ Otel.Gen.C20.metricHttpClientLiterals ++ Otel.Gen.C20.logHttpClientLiterals,
        (l.map (·.1)).contains "Timeout" = true) ∧
    (∀ l ∈ Otel.Gen.C20.traceGrpcClientLiterals ++ Otel.Gen.C20.metricGrpcClientLiterals ++ Otel.Gen.C20.logGrpcClientLiterals,
        (l.map (·.1)).contains "exportTimeout" = true) := by decide

/-- the model side of the same fact: every branch of `newClientM` carries the configured timeout -/
theorem gen_model_clients_carry_timeout (exp : Exp) (b : Build) (c : Cfg) : (newClientM exp b c).timeout = c.timeout := by
  unfold newClientM
  cases exp.isHttp <;> cases b.tls <;> cases b.proxy <;> cases exp.isLog <;> simp

end Otel.C20.GenTie
