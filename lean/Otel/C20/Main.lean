/-
C20 driver: reads the trace lines of the four harness families, runs the model, evaluates the Spec oracle on the
implementation's observed result.
-/
import Otel.C20.Spec
open Otel Otel.Wire Otel.C20

namespace Otel.C20.Drv

def envTok (s : String) : Option Env :=
  if s == "-" then some none else (parseHex s).map some

def optTok (s : String) : Option (Option Int) :=
  if s == "-" then some none else (parseInt s).map some

def intList (s : String) : Option (List Int) := (s.splitOn ",").mapM parseInt

def renderInts (l : List Int) : String := ",".intercalate (l.map toString)

def b2s (b : Bool) : String := if b then "1" else "0"

def hdrTok (s : String) : Option Hdrs :=
  if s == "{}" then some []
  else (s.splitOn ",").mapM (fun kv =>
    match kv.splitOn ":" with
    | [k, v] => do
      let kb ← parseHex k
      let vb ← parseHex v
      pure (kb, vb)
    | _ => none)

def renderHdrs (m : Hdrs) : String :=
  if m.isEmpty then "{}" else ",".intercalate (m.map (fun kv => hexOf kv.1 ++ ":" ++ hexOf kv.2))

def expTok : String → Option Exp
  | "th" => some .th | "tg" => some .tg | "mh" => some .mh | "mg" => some .mg
  | "lh" => some .lh | "lg" => some .lg | _ => none

def optItem (s : String) : Option UOpt :=
  match s.toList with
  | 'E' :: r => (parseHex (String.ofList r)).map .endpoint
  | 'U' :: r => (parseHex (String.ofList r)).map .endpointURL
  | 'P' :: r => (parseHex (String.ofList r)).map .urlPath
  | ['I'] => some .insecure
  | ['S'] => some .secure
  | 'H' :: r => (hdrTok (String.ofList r)).map (fun m => .headers (m.foldl (fun a kv => hInsert kv.1 kv.2 a) []))
  | ['C', '0'] => some (.compression false)
  | ['C', '1'] => some (.compression true)
  | 'W' :: r => (parseHex (String.ofList r)).map .compressor
  | 'T' :: r => (parseInt (String.ofList r)).map .timeout
  | _ => none

def optsTok (s : String) : Option (List UOpt) :=
  if s == "-" then some [] else (s.splitOn ";").mapM optItem

/-- `xraw=e` or `xraw=xscheme,xhost,xpath` entries separated by `;` -/
def tableTok (s : String) : Option (List (Bytes × Option Url)) :=
  if s == "-" then some []
  else (s.splitOn ";").mapM (fun ent =>
    match ent.splitOn "=" with
    | [k, v] => do
      let kb ← parseHex k
      if v == "e" then pure (kb, none)
      else match v.splitOn "," with
        | [a, b, c] => do
          let sa ← parseHex a
          let sb ← parseHex b
          let sc ← parseHex c
          pure (kb, some { scheme := sa, host := sb, path := sc })
        | _ => none
    | _ => none)

/-- `url.Parse` restricted to the strings of this line (the harness prints what the real parser returned) -/
def tableParse (t : List (Bytes × Option Url)) : Parse := fun s =>
  match t.find? (fun e => e.1 == s) with
  | some e => e.2
  | none => none

def srcTag (name : String) (o s g : Bool) : String :=
  name ++ ":" ++ (if o then "opt" else if s then "spec" else if g then "gen" else "dflt")

/-! ### end-to-end lines (harness/bb/otlpe2e)

The REAL exporter is built through the public API from the options and variables of the line and exports one batch;
in-process collectors listen on distinct loopback ports (placeholders `127.0.0.1:1000K`, K = 1..3 HTTP, 4..6 gRPC,
each accepting clear text and TLS). What the receiving collector saw is compared with the configuration
`newConfig` resolves (agree) and judged clause by clause with the Spec functions `expectedEndpoint`, `pathOK`,
`expectedHeaders`, `expectedComp`, `expectedTimeout` (spec). -/

def strBytes (s : String) : Bytes := s.toUTF8.toList

def e2eCols (exp : Exp) : List Bytes :=
  (if exp.isHttp then ["1", "2", "3"] else ["4", "5", "6"]).map (fun k => strBytes ("127.0.0.1:1000" ++ k))

/-- gRPC: the "path" is the full method of the signal's collector service -/
def e2eMethod (exp : Exp) : Bytes :=
  strBytes (match exp with
    | .th | .tg => "/opentelemetry.proto.collector.trace.v1.TraceService/Export"
    | .mh | .mg => "/opentelemetry.proto.collector.metrics.v1.MetricsService/Export"
    | .lh | .lg => "/opentelemetry.proto.collector.logs.v1.LogsService/Export")

def e2eContentType (exp : Exp) : Bytes :=
  strBytes (if exp.isHttp then "application/x-protobuf" else "application/grpc")

/-- product token of the User-Agent (up to the version) -/
def e2eUserAgent (exp : Exp) : Bytes :=
  strBytes (match exp with
    | .th | .tg => "OTel OTLP Exporter Go"
    | .mh | .lh => "OTel Go OTLP over HTTP"
    | .mg => "OTel Go OTLP over gRPC metrics exporter"
    | .lg => "OTel Go OTLP over gRPC logs exporter")

/-- headers as HTTP/2 and gRPC metadata deliver them (and as the harness prints HTTP/1 headers): keys in lower case -/
def wireHdrs (h : Hdrs) : Hdrs := h.map (fun kv => (toLower kv.1, kv.2))

/-- the request path a URL with this `Path` produces (net/url: an empty path is sent as `/`, a relative one is rooted) -/
def wirePath (p : Bytes) : Bytes :=
  match p with
  | [] => sSlash
  | b :: _ => if b == 0x2f then p else 0x2f :: p

/-- the configured paths an observed request path can stem from -/
def wirePathSources (obs : Bytes) : List Bytes := [obs, obs.drop 1].filter (fun c => wirePath c == obs)

/-- transport security as the clients wire it up (not part of the C20 statement; needed to predict what a collector
can see). HTTP: the scheme follows `insecure`. gRPC trace/metric: credentials built from the certificate variable
take priority over `insecure` ("Prioritize GRPCCredentials over Insecure"). -/
def e2eUsesTLS (exp : Exp) (certVar : Bool) (insecure : Bool) : Bool :=
  if exp.isHttp || exp.isLog then !insecure else (certVar || !insecure)

/-- does the exporter trust the harness CA? Through OTEL_EXPORTER_OTLP_[<SIGNAL>_]CERTIFICATE, for each of the six
exporters (otlploggrpc since the F39 repair, /repo b14f3c7: the loaded TLS config is handed to the dial options). -/
def e2eTrustsCA (_exp : Exp) (certVar : Bool) : Bool := certVar

structure E2EObs where
  who : String
  path : String
  plain : String
  hdrs : String
  gz : String
  ct : String
  ua : String
  dl : String
  st : String

/-- the timeout clauses: gRPC — the server saw a deadline consistent with `t` (bounds `lo:hi` in ns; `n` = none);
stall — the export gave up before the stalled answer iff `0 < t < stall` -/
def e2eTimeoutOK (lenient : Bool) (exp : Exp) (stallNs : Int) (t : Int) (o : E2EObs) : Bool :=
  (if exp.isHttp then o.dl == "-"
   else if t ≤ 0 then o.dl == "n"
   else match o.dl.splitOn ":" with
     | [lo, hi] => (match lo.toInt?, hi.toInt? with
       | some lo, some hi => decide (lo ≤ t) && decide (t ≤ hi)
       | _, _ => false)
     | _ => false) &&
  (if stallNs == 0 then o.st == "-"
   else
     let want := if 0 < t && t < stallNs then "T" else "D"
     -- `D` only says that no give-up was OBSERVED before the stalled answer was due: under load an export that did
     -- time out can look like that (seen once in a thorough run on a loaded machine, not reproducible on replay), so
     -- for the ORACLE `D` instead of `T` is not a failure by itself — it stays a disagreement with the model, which a
     -- `timing` leg must reproduce on three re-executions. `T` instead of `D` (gave up although the timeout is far
     -- beyond the stall) cannot be caused by load and fails the oracle.
     o.st == want || (lenient && want == "T" && o.st == "D"))

/-- all clauses for a request that got through: `pathOK` decides the path clause -/
def e2eRequestOK (lenient : Bool) (exp : Exp) (stallNs : Int) (pathOK : Bytes → Bool) (hd : Hdrs) (co : Bool) (t : Int) (o : E2EObs) : Bool × Bool :=
  let rest :=
    (match hdrTok o.hdrs with
     | some h => h.isPerm (wireHdrs hd)
     | none => false) &&
    o.gz == b2s co && e2eTimeoutOK lenient exp stallNs t o
  let p := match parseHex o.path with
    | some p => if exp.isHttp then (wirePathSources p).any pathOK else p == e2eMethod exp
    | none => false
  (rest, p)

def e2eLine (inp obs : List String) : Option Verdict :=
  match inp with
  | _ :: _ :: ex :: _ :: opts :: epS :: epG :: insS :: insG :: hdS :: hdG :: coS :: coG :: toS :: toG :: table :: _ :: _ ::
      stall :: tls :: _ => do
    let exp ← expTok ex
    let os ← optsTok opts
    let e : OtlpEnv := { epS := ← envTok epS, epG := ← envTok epG, insS := ← envTok insS, insG := ← envTok insG,
                          hdS := ← envTok hdS, hdG := ← envTok hdG, coS := ← envTok coS, coG := ← envTok coG,
                          toS := ← envTok toS, toG := ← envTok toG }
    let parse := tableParse (← tableTok table)
    let stallNs : Int := (← stall.toNat?) * 1000000
    let certVar := tls == "1"
    let m := newConfig exp parse e os
    let reach (ep : Bytes) : Bool := (e2eCols exp).contains ep
    let usesTLS := e2eUsesTLS exp certVar m.insecure
    let through := !usesTLS || e2eTrustsCA exp certVar
    let modelStr := s!"{hexOf m.endpoint} {if exp.isHttp then hexOf m.path else "-"} tls={b2s usesTLS} through={b2s through} {renderHdrs (wireHdrs m.headers)} {b2s m.comp} {m.timeout}"
    let f20 := Spec.F20_applies exp parse e os
    let epX := Spec.expectedEndpoint exp parse e os
    let (agree, spec) : Bool × String :=
      match obs with
      | [who, path, plain, hdrs, gz, ct, ua, dl, st] =>
        let o : E2EObs := { who, path, plain, hdrs, gz, ct, ua, dl, st }
        -- (1) who received it
        let agreeWho := if reach m.endpoint then who == hexOf m.endpoint else who == "-"
        let specWho := if reach epX then who == hexOf epX else who == "-"
        if who == "-" || who == "multi" || path == "?" then
          -- nothing got through: at most a TLS handshake was seen. The model says whether that is expected.
          let agree := agreeWho && (who == "-" || (who != "multi" && plain == "0" && usesTLS && !through))
          -- a failed handshake although the certificate variable names the collector's CA is a failure for every
          -- exporter (F39 repaired); without the variable the CA is not trusted and nothing can get through
          (agree, if !specWho then "FAIL"
                  else if who == "-" then "ok"
                  else if certVar then "FAIL" else "ok")
        else
          let (mRest, mPath) := e2eRequestOK false exp stallNs (· == m.path) m.headers m.comp m.timeout o
          let agree := agreeWho && mRest && mPath && plain == b2s (!usesTLS) && through &&
            ct == hexOf (e2eContentType exp) && ua == hexOf (e2eUserAgent exp)
          let (sRest, sPath) := e2eRequestOK true exp stallNs (Spec.pathOK exp (Spec.pathSource exp parse e os))
            (Spec.expectedHeaders exp e os) (Spec.expectedComp exp e os) (Spec.expectedTimeout exp e os) o
          (agree, if specWho && sRest && sPath then "ok"
                  else if specWho && sRest && f20 then "KNOWN:F20" else "FAIL")
      | ["err"] =>
        -- the constructor returned an error (e.g. otlploghttp with a white-space-only signal-specific endpoint:
        -- a URL without host): nothing can have been received; acceptable only for an unreachable endpoint
        (!reach m.endpoint, if reach epX then "FAIL" else "ok")
      | _ => (false, "FAIL")   -- constructor panic / malformed observation
    let pathTag := match Spec.pathSource exp parse e os with
      | .opt _ => "path:opt" | .specific _ => "path:spec" | .generic _ => "path:gen" | .dflt => "path:dflt"
    let tags := [ srcTag "ep" (Spec.lastSome (Spec.optHost parse) os).isSome (Spec.provUrl exp parse e.epS).isSome
                    (Spec.provUrl exp parse e.epG).isSome,
                  srcTag "hd" (Spec.lastSome Spec.optHeaders os).isSome (Spec.provHeaders exp e.hdS).isSome
                    (Spec.provHeaders exp e.hdG).isSome,
                  srcTag "co" (Spec.lastSome (Spec.optComp exp) os).isSome (Spec.provComp exp e.coS).isSome
                    (Spec.provComp exp e.coG).isSome,
                  srcTag "to" (Spec.lastSome Spec.optTimeout os).isSome (Spec.provTimeout exp e.toS).isSome
                    (Spec.provTimeout exp e.toG).isSome ]
      ++ (if exp.isHttp then [pathTag] else [])
      ++ (if f20 then ["F20"] else [])
      ++ (if usesTLS then [if through then "tls" else "tls-untrusted"] else ["clear"])
      ++ (if m.comp then ["gzip"] else [])
      ++ (if stallNs != 0 then [if 0 < m.timeout && m.timeout < stallNs then "timeout-fires" else "stall-outlived"] else [])
      ++ (if !reach m.endpoint then ["unreachable"] else [])
      ++ (if obs == ["err"] then ["ctor-error"] else [])
    pure { agree := agree, spec := spec, nontrivial := true,
           branches := ex ++ "," ++ ",".intercalate tags, model := modelStr }
  | _ => none

/-! ### slow collector × construction path (`tmo`, harness/bb/otlpe2e/c14_tmo_test.go; shared with C14)

`tmo <gen> <exp> <path> <opt> <envs> <envg> <M ms> <k|inf> => <res> n<requests> f<band> e<band>`: the REAL exporter,
built through the public API on the given construction path (HTTP: def | proxy | tls | tlsproxy | envcert | gz;
gRPC: def | tls | dial | conn | svc | envcert | gz) with the timeout from option / signal-specific / generic variable
(`-` absent, `a` = 120 ms, `b` = 900 ms, `x` = `abc`), against a collector that never answers the first requests.
`f` = when the collector saw the first request abandoned, counted from the start of the export: `A` = [120, 720] ms,
`B` = [900, 1500] ms — a timer never fires early, so the band names the timeout the client REALLY ran with. agree:
that band is the band of `effectiveTimeout` (model) and the call came back (`e` at most that band). spec: the
observation contradicts `Spec.expectedTimeout` in a way load cannot explain — the export never came back (`stuck`,
reproduced three times by the harness: no timeout was in effect at all) or the first request was abandoned EARLIER
than the expected timeout. -/
def tmoSrc (tok : String) : Env :=
  match tok with
  | "a" => some (strBytes "120")
  | "b" => some (strBytes "900")
  | "x" => some (strBytes "abc")
  | _ => none

def tmoLine (inp obs : List String) : Option Verdict :=
  match inp, obs with
  | [_, _, ex, path, opt, envs, envg, _, k], [res, _, fTok, eTok] => do
    let exp ← expTok ex
    let os : List UOpt := match opt with
      | "a" => [.timeout 120000000]
      | "b" => [.timeout 900000000]
      | _ => []
    let e : OtlpEnv := { epS := none, epG := none, insS := none, insG := none, hdS := none, hdG := none,
                          coS := none, coG := none, toS := tmoSrc envs, toG := tmoSrc envg }
    let b : Build := { tls := path == "tls" || path == "tlsproxy" || path == "envcert",
                       proxy := path == "proxy" || path == "tlsproxy", suppliedConn := path == "conn" }
    let bandOf (t : Int) : String := if t == 120000000 then "A" else if t == 900000000 then "B" else "gt"
    let m := effectiveTimeout exp (fun _ => none) e os b
    let want := Spec.expectedTimeout exp e os
    let mBand := bandOf m
    let wBand := bandOf want
    let agree := res != "stuck" && fTok == "f" ++ mBand && (eTok == "eA" || eTok == "e" ++ mBand)
    let early := fTok == "flt" || (wBand != "A" && (fTok == "fA" || fTok == "fmid"))
    let spec := if res == "stuck" || early then "FAIL" else "ok"
    pure { agree := agree, spec := spec, nontrivial := true,
           branches := ex ++ "," ++ path ++ "," ++
             srcTag "to" (Spec.lastSome Spec.optTimeout os).isSome (Spec.provTimeout exp e.toS).isSome
               (Spec.provTimeout exp e.toG).isSome ++
             (if [e.toS, e.toG].any (fun v => (Spec.envVal exp v).any (fun s => (atoi s).isNone)) then ",to-invalid" else "") ++
             (if k == "inf" then ",alwaysslow" else ",slowthenok"),
           model := s!"f{mBand} {m}" }
  | _, _ => none

/-- `eff <gen> <exp> <path> <opt ns|-> <toS> <toG> => <timeout ns> <own 0|1>` (white box, five client packages): the
timeout the client returned by the package's constructor runs with (`http.Client.Timeout` / `exportTimeout`) and
whether it uses the package-level transport itself / dials its own connection — against `newClientM` over
`newConfig` (agree) and `Spec.expectedTimeout` (spec). -/
def effLine (inp obs : List String) : Option Verdict :=
  match inp, obs with
  | [_, _, ex, path, opt, toS, toG], [to, own] => do
    let exp ← expTok ex
    let o ← optTok opt
    let os : List UOpt := match o with
      | some n => [.timeout n]
      | none => []
    let e : OtlpEnv := { epS := none, epG := none, insS := none, insG := none, hdS := none, hdG := none,
                          coS := none, coG := none, toS := ← envTok toS, toG := ← envTok toG }
    let b : Build := { tls := path == "tls" || path == "tlsproxy", proxy := path == "proxy" || path == "tlsproxy",
                       suppliedConn := path == "conn" }
    let m := newClientM exp b (newConfig exp (fun _ => none) e os)
    let t ← parseInt to
    pure { agree := m.timeout == t && b2s m.own == own,
           spec := if t == Spec.expectedTimeout exp e os then "ok" else "FAIL",
           nontrivial := o.isSome || (Spec.envVal exp e.toS).isSome || (Spec.envVal exp e.toG).isSome,
           branches := ex ++ "," ++ path ++ "," ++
             srcTag "to" o.isSome (Spec.provTimeout exp e.toS).isSome (Spec.provTimeout exp e.toG).isSome ++
             (if [e.toS, e.toG].any (fun v => (Spec.envVal exp v).any (fun s => (atoi s).isNone)) then ",to-invalid" else "") ++
             (if m.own then ",own" else ",notown"),
           model := s!"{m.timeout} {b2s m.own}" }
  | _, _ => none

def stepLine (_ : Unit) (toks : List String) : Unit × Option Verdict :=
  let (inp, obs) := splitObs toks
  let obsS := " ".intercalate obs
  let r : Option Verdict :=
    if inp.head? == some "e2e20" then e2eLine inp obs else
    if inp.head? == some "tmo" then tmoLine inp obs else
    if inp.head? == some "eff" then effLine inp obs else
    match inp with
    | ["bsp", _, oq, ob, od, ot, eq, eb, ed, et] => do
      let i : BspIn := { oq := ← optTok oq, ob := ← optTok ob, od := ← optTok od, ot := ← optTok ot,
                          eq := ← envTok eq, eb := ← envTok eb, ed := ← envTok ed, et := ← envTok et }
      let mc := bspConstruct i
      let ms := match mc with
        | none => "panic"
        | some m => s!"{m.q} {m.b} {m.d} {m.t} {m.q} {m.b}"
      let f31 := Spec.F31_applies i
      let spec :=
        if obs == ["panic"] then
          -- a panic violates "never causing a panic"; it is a known finding only in exactly the F31 way
          (if f31 && mc.isNone then "KNOWN:F31" else "FAIL")
        else match obs.mapM parseInt with
          | some [q, b, d, t, cq, cb] =>
            let o : BspOut := { q := q, b := b, d := d, t := t }
            if Spec.bspOK i o && Spec.bspSafe o && cq == q && cb == b
              && (!(i.oq.isNone && i.ob.isNone) || decide (b ≤ q)) then "ok" else "FAIL"
          | _ => "FAIL"
      let tags := [ srcTag "q" i.oq.isSome (Spec.envInt i.eq != .absent) false,
                    srcTag "b" i.ob.isSome (Spec.envInt i.eb != .absent) false,
                    srcTag "d" i.od.isSome (Spec.envInt i.ed != .absent) false,
                    srcTag "t" i.ot.isSome (Spec.envInt i.et != .absent) false ]
        ++ (if (bspEnvSizes i.eq i.eb).2 != intEnvOr i.eb dfltBatch then ["reconciled"] else [])
        ++ (if i.oq.any (· < 0) || i.ob.any (· < 0) then ["optneg"] else [])
        ++ (if [i.eq, i.eb, i.ed, i.et].any (fun e => Spec.envInt e == .invalid) then ["envinvalid"] else [])
        ++ (if intEnvOr i.eq 0 < 0 || intEnvOr i.eb 0 < 0 then ["envneg"] else [])
        ++ (if f31 then ["F31"] else [])
        ++ (if [i.ed, i.et].any (fun e => match Spec.envInt e with | .val n => mulMs n != n * msNs | _ => false)
            then ["ms-overflow"] else [])
        ++ (if (newBSP i).d < 1 || (newBSP i).t < 1 then ["nonpositive-duration"] else [])
        ++ (if !f31 && ([i.oq, i.ob].any (fun o => o.any (makeLimit ≤ ·)) || makeLimit ≤ intEnvOr i.eq 0
                         || makeLimit ≤ intEnvOr i.eb 0) then ["huge-not-reaching-make"] else [])
      let nt := i.oq.isSome || i.ob.isSome || i.od.isSome || i.ot.isSome
                || [i.eq, i.eb, i.ed, i.et].any (fun e => Spec.envInt e != .absent)
      pure { agree := ms == obsS, spec := spec, nontrivial := nt,
             branches := ",".intercalate tags, model := ms }
    | ["slim", _, mode, o, gvl, gcnt, svl, scnt, ev, evattr, ln, lnattr] => do
      let m ← (match mode with
        | "none" => some SlMode.none | "lim" => some SlMode.lim | "raw" => some SlMode.raw | _ => none)
      let ol ← intList o
      if ol.length != 6 then none
      let e : SlEnv := { gvl := ← envTok gvl, gcnt := ← envTok gcnt, svl := ← envTok svl, scnt := ← envTok scnt,
                          ev := ← envTok ev, evattr := ← envTok evattr, ln := ← envTok ln, lnattr := ← envTok lnattr }
      let r := providerSpanLimits m ol e
      let ms := renderInts r
      let spec := match obs with
        | [x] => (match intList x with | some l => Spec.slimOK m ol e l | none => false)
        | _ => false
      let srcs := Spec.slEnvSrc e
      let tags := [mode] ++ (if srcs.any (· == .invalid) then ["envinvalid"] else [])
        ++ (if srcs.any (fun s => match s with | .val _ => true | _ => false) then ["envval"] else [])
        ++ (if Spec.envInt e.svl == .invalid && Spec.envInt e.gvl != .absent then ["spec-invalid-gen-set"] else [])
        ++ (if Spec.envInt e.scnt == .invalid && Spec.envInt e.gcnt != .absent then ["spec-invalid-gen-set"] else [])
        ++ (if Spec.envInt e.svl == .absent && Spec.envInt e.gvl != .absent then ["generic-used"] else [])
        ++ (if Spec.envInt e.scnt == .absent && Spec.envInt e.gcnt != .absent then ["generic-used"] else [])
      pure { agree := ms == obsS, spec := if spec then "ok" else "FAIL",
             nontrivial := m != .none || srcs.any (· != .absent),
             branches := ",".intercalate tags, model := ms }
    | ["blrp", _, oq, oi, ot, ob, obuf, eq, ei, et, eb, live] => do
      let x : BlrpIn := { oq := ← optTok oq, oi := ← optTok oi, ot := ← optTok ot, ob := ← optTok ob,
                           obuf := ← optTok obuf, eq := ← envTok eq, ei := ← envTok ei, et := ← envTok et,
                           eb := ← envTok eb }
      let m := newBatchConfig x
      -- `live` = L: the harness really builds (and shuts down) the processor: ticker, queue ring, goroutine
      let ms := s!"{m.q} {m.i} {m.t} {m.b} {m.buf} {if live == "L" then "ok" else "-"}"
      let spec := match obs with
        | [q, i, t, b, buf, lv] =>
          (match [q, i, t, b, buf].mapM parseInt with
           | some [q, i, t, b, buf] =>
             let o : BlrpOut := { q := q, i := i, t := t, b := b, buf := buf }
             Spec.blrpOK x o && Spec.blrpSafe o && (lv == "ok" || (lv == "-" && live != "L"))
           | _ => false)
        | _ => false
      let tags := [ srcTag "q" (clearLT1 x.oq).isSome (Spec.envInt x.eq != .absent) false,
                    srcTag "i" (clearLT1 x.oi).isSome (Spec.envInt x.ei != .absent) false,
                    srcTag "t" (clearLT1 x.ot).isSome (Spec.envInt x.et != .absent) false,
                    srcTag "b" (clearLT1 x.ob).isSome (Spec.envInt x.eb != .absent) false ]
        ++ (if [x.oq, x.oi, x.ot, x.ob, x.obuf].any (fun o => o.any (· < 1)) then ["opt<1"] else [])
        ++ (if [x.eq, x.ei, x.et, x.eb].any (fun e => Spec.envInt e == .invalid) then ["envinvalid"] else [])
        ++ (if [x.eq, x.ei, x.et, x.eb].any (fun e => (intEnvOr e 1) < 1) then ["env<1"] else [])
        ++ (if m.b == m.q && m.b != 512 then ["clamped"] else [])
        ++ (if m.b > m.q then ["batch>queue"] else [])
        ++ (if live == "L" then ["live"] else [])
        ++ (if [x.ei, x.et].any (fun e => match Spec.envInt e with | .val n => mulMs n != n * msNs | _ => false)
            then ["ms-overflow"] else [])
        ++ (if [x.ei, x.et].any (fun e => match Spec.envInt e with | .val n => mulMs n != n * msNs && mulMs n ≥ 1 | _ => false)
            then ["ms-overflow-wrapped-positive"] else [])
      let nt := [x.oq, x.oi, x.ot, x.ob, x.obuf].any Option.isSome
                || [x.eq, x.ei, x.et, x.eb].any (fun e => Spec.envInt e != .absent)
      pure { agree := ms == obsS, spec := if spec then "ok" else "FAIL", nontrivial := nt,
             branches := ",".intercalate tags, model := ms }
    | ["llim", _, ocnt, olen, ecnt, elen] => do
      let oc ← optTok ocnt
      let ol ← optTok olen
      let ec ← envTok ecnt
      let el ← envTok elen
      let m := logLimits oc ol ec el
      let ms := s!"{m.1} {m.2}"
      let spec := match obs.mapM parseInt with
        | some [a, b] => Spec.llimOK oc ol ec el (a, b)
        | _ => false
      let tags := [ srcTag "cnt" oc.isSome (Spec.envInt ec != .absent) false,
                    srcTag "len" ol.isSome (Spec.envInt el != .absent) false ]
        ++ (if Spec.envInt ec == .invalid || Spec.envInt el == .invalid then ["envinvalid"] else [])
      pure { agree := ms == obsS, spec := if spec then "ok" else "FAIL",
             nontrivial := oc.isSome || ol.isSome || Spec.envInt ec != .absent || Spec.envInt el != .absent,
             branches := ",".intercalate tags, model := ms }
    | ["cl", _, p, d] => do
      let pb ← parseHex p
      let db ← parseHex d
      let m := cleanPath pb db
      let ms := hexOf m
      pure { agree := ms == obsS, spec := "na", nontrivial := m != pb,
             branches := if m == db then "default" else if m == pb then "unchanged" else "cleaned", model := ms }
    | ["cfg", _, ex, opts, epS, epG, insS, insG, hdS, hdG, coS, coG, toS, toG, table] => do
      let exp ← expTok ex
      let os ← optsTok opts
      let e : OtlpEnv := { epS := ← envTok epS, epG := ← envTok epG, insS := ← envTok insS, insG := ← envTok insG,
                            hdS := ← envTok hdS, hdG := ← envTok hdG, coS := ← envTok coS, coG := ← envTok coG,
                            toS := ← envTok toS, toG := ← envTok toG }
      let parse := tableParse (← tableTok table)
      let m := newConfig exp parse e os
      let render (c : Cfg) : String :=
        s!"{hexOf c.endpoint} {if exp.isHttp then hexOf c.path else "-"} {b2s c.insecure} {renderHdrs c.headers} {b2s c.comp} {c.timeout}"
      let ms := render m
      let observed : Option Cfg :=
        match obs with
        | [ep, pa, ins, hd, co, to] => do
          let epb ← parseHex ep
          let pab ← if pa == "-" then some [] else parseHex pa
          let h ← hdrTok hd
          let t ← parseInt to
          pure { endpoint := epb, path := pab, insecure := ins == "1", headers := h, comp := co == "1", timeout := t }
        | _ => none
      let f20 := Spec.F20_applies exp parse e os
      let spec := match observed with
        | none => "FAIL"
        | some c =>
          -- transport security of the trace/metric exporters: the decision table (tm_insecure_decision_table)
          let insOK := exp.isLog || c.insecure == Spec.expectedInsecureTM parse e os
          if Spec.otlpOK exp parse e os c && insOK then "ok"
          else if f20 && Spec.otlpOKNoPath exp parse e os c && insOK then "KNOWN:F20"
          else "FAIL"
      let pathTag := match Spec.pathSource exp parse e os with
        | .opt _ => "path:opt" | .specific _ => "path:spec" | .generic _ => "path:gen" | .dflt => "path:dflt"
      let tags := [ srcTag "ep" (Spec.lastSome (Spec.optHost parse) os).isSome (Spec.provUrl exp parse e.epS).isSome
                      (Spec.provUrl exp parse e.epG).isSome,
                    srcTag "hd" (Spec.lastSome Spec.optHeaders os).isSome (Spec.provHeaders exp e.hdS).isSome
                      (Spec.provHeaders exp e.hdG).isSome,
                    srcTag "co" (Spec.lastSome (Spec.optComp exp) os).isSome (Spec.provComp exp e.coS).isSome
                      (Spec.provComp exp e.coG).isSome,
                    srcTag "to" (Spec.lastSome Spec.optTimeout os).isSome (Spec.provTimeout exp e.toS).isSome
                      (Spec.provTimeout exp e.toG).isSome ]
        ++ (if exp.isHttp then [pathTag] else [])
        ++ (if f20 then ["F20"] else [])
        ++ (if [e.epS, e.epG].any (fun v => (Spec.envVal exp v).isSome && (Spec.provUrl exp parse v).isNone) then ["url-invalid"] else [])
        ++ (if [e.hdS, e.hdG].any (fun v => (Spec.envVal exp v).any (fun s => (convHeaders s).isNone)) then ["hdr-invalid-pair"] else [])
        ++ (if [e.coS, e.coG].any (fun v => (Spec.envVal exp v).any (fun s => (convCompression s).isNone)) then ["comp-unknown-word"] else [])
        ++ (if [e.toS, e.toG].any (fun v => (Spec.envVal exp v).any (fun s => (atoi s).isNone)) then ["to-invalid"] else [])
        ++ (if [e.toS, e.toG].any (fun v => (Spec.envVal exp v).any (fun s => (atoi s).any (fun n => mulMs n != n * msNs)))
            then ["to-ms-overflow"] else [])
      let nt := !os.isEmpty || [e.epS, e.epG, e.insS, e.insG, e.hdS, e.hdG, e.coS, e.coG, e.toS, e.toG].any
        (fun v => (Spec.envVal exp v).isSome)
      pure { agree := ms == obsS, spec := spec, nontrivial := nt,
             branches := ex ++ "," ++ ",".intercalate tags, model := ms }
    | _ => none
  ((), r)

end Otel.C20.Drv

def main : IO Unit := Wire.run () Otel.C20.Drv.stepLine
