/-
C19 — generated tie.  `Otel.Gen.C19` is regenerated from /repo's current source by tools/go2lean on every run of
bin/check (checks/gentie.json); the theorems below are re-checked against the regenerated text.
Site: the decision skeleton of `resource.Merge` (sdk/resource/resource.go): nil handling and the schema-URL choice,
over the atoms `a == nil`, `b == nil`, `a.schemaURL == ""`, `b.schemaURL == ""`, `a.schemaURL == b.schemaURL`.
The theorems state that it is the decision the model's `Otel.C19.merge` makes.
Also the detector tables: the arguments each built-in `With…()` option of config.go hands to `WithDetectors` (tied to
`builtinDetectors`) and the detector list literal of `resource.Default()` (tied to the order of `defaultDetectors`).
-/
import Otel.Gen.C19
import Otel.C19.Model

namespace Otel.C19.GenTie
open Otel Otel.C19 Otel.C05

/-- what each arm of `Merge` returns (`combine` = the merged attribute list) -/
def interpMerge (tag : String) (a b : Res) (combine : List KV) : Res × Bool :=
  if tag = "empty" then (Res.empty, false)
  else if tag = "b" then (b, false)
  else if tag = "a" then (a, false)
  else if tag = "merged@b.schemaURL" then (newWithAttributes b.schema combine, false)
  else if tag = "merged@a.schemaURL" then (newWithAttributes a.schema combine, false)
  else (newSchemaless combine, true)

/-- the decision table of `Merge`, exhaustively -/
theorem gen_merge_table :
    ∀ aNil bNil aNo bNo same : Bool,
      Otel.Gen.C19.mergeDecision aNil bNil aNo bNo same =
        (match aNil, bNil with
         | true, true => "empty"
         | true, false => "b"
         | false, true => "a"
         | false, false =>
           if aNo then "merged@b.schemaURL"
           else if bNo || same then "merged@a.schemaURL"
           else "schemaless+conflict") := by
  intro a b c d e; cases a <;> cases b <;> cases c <;> cases d <;> cases e <;> rfl

/-- a schema-URL conflict is reported exactly when both resources exist, both have a schema URL and the URLs differ -/
theorem gen_merge_conflict_iff (aNil bNil aNo bNo same : Bool) :
    Otel.Gen.C19.mergeDecision aNil bNil aNo bNo same = "schemaless+conflict" ↔
      (aNil = false ∧ bNil = false ∧ aNo = false ∧ bNo = false ∧ same = false) := by
  cases aNil <;> cases bNil <;> cases aNo <;> cases bNo <;> cases same <;> decide

/-- two non-nil resources: the model's `merge` is the arm the Go code takes today -/
theorem gen_merge_eq_model_some (a b : Res) :
    merge (some a) (some b) =
      interpMerge (Otel.Gen.C19.mergeDecision false false (decide (a.schema = [])) (decide (b.schema = []))
                    (decide (a.schema = b.schema))) a b (mergeIter b.attrs a.attrs) := by
  rw [gen_merge_table]
  simp only [merge]
  by_cases ha : a.schema = []
  · simp [ha, interpMerge]
  · have ha' : ¬ a.schema.length = 0 := by simpa using ha
    by_cases hb : b.schema = []
    · simp [ha, ha', hb, interpMerge]
    · have hb' : ¬ b.schema.length = 0 := by simpa using hb
      by_cases hs : a.schema = b.schema
      · simp [hb, hb', hs, interpMerge]
      · simp [ha, ha', hb, hb', hs, interpMerge]

/-- nil handling: the model's `merge` agrees with the Go code on every nil combination -/
theorem gen_merge_eq_model_nil (a b : Res) (x y z : Bool) (c : List KV) :
    merge none none = interpMerge (Otel.Gen.C19.mergeDecision true true x y z) a b c ∧
    merge none (some b) = interpMerge (Otel.Gen.C19.mergeDecision true false x y z) a b c ∧
    merge (some a) none = interpMerge (Otel.Gen.C19.mergeDecision false true x y z) a b c := by
  simp only [gen_merge_table]
  refine ⟨rfl, rfl, rfl⟩

/-! ### detector tables -/

/-- the Go detector type behind a model built-in detector -/
def detName : BDet → String
  | .host => "host{}" | .hostID => "hostIDDetector{}" | .telemetrySDK => "telemetrySDK{}"
  | .osType => "osTypeDetector{}" | .osDescription => "osDescriptionDetector{}"
  | .processPID => "processPIDDetector{}" | .processExecutableName => "processExecutableNameDetector{}"
  | .processExecutablePath => "processExecutablePathDetector{}" | .processCommandArgs => "processCommandArgsDetector{}"
  | .processOwner => "processOwnerDetector{}" | .processRuntimeName => "processRuntimeNameDetector{}"
  | .processRuntimeVersion => "processRuntimeVersionDetector{}"
  | .processRuntimeDescription => "processRuntimeDescriptionDetector{}"
  | .containerID => "cgroupContainerIDDetector{}" | .defaultServiceName => "defaultServiceNameDetector{}"

/-- the generated argument list of the `With…()` option a model `BOpt` stands for -/
def genDetectors : BOpt → List String
  | .host => Otel.Gen.C19.withHost | .hostID => Otel.Gen.C19.withHostID | .telemetrySDK => Otel.Gen.C19.withTelemetrySDK
  | .os => Otel.Gen.C19.withOS | .osType => Otel.Gen.C19.withOSType | .osDescription => Otel.Gen.C19.withOSDescription
  | .process => Otel.Gen.C19.withProcess | .processPID => Otel.Gen.C19.withProcessPID
  | .processExecutableName => Otel.Gen.C19.withProcessExecutableName
  | .processExecutablePath => Otel.Gen.C19.withProcessExecutablePath
  | .processCommandArgs => Otel.Gen.C19.withProcessCommandArgs | .processOwner => Otel.Gen.C19.withProcessOwner
  | .processRuntimeName => Otel.Gen.C19.withProcessRuntimeName
  | .processRuntimeVersion => Otel.Gen.C19.withProcessRuntimeVersion
  | .processRuntimeDescription => Otel.Gen.C19.withProcessRuntimeDescription
  | .container => Otel.Gen.C19.withContainer | .containerID => Otel.Gen.C19.withContainerID

/-- every built-in option hands `WithDetectors` exactly the detectors of the model's `builtinDetectors`, in order -/
theorem gen_builtin_detectors_eq_model (o : BOpt) : genDetectors o = (builtinDetectors o).map detName := by
  cases o <;> decide

/-- `WithFromEnv()` installs the environment detector and nothing else -/
theorem gen_with_from_env : Otel.Gen.C19.withFromEnv = ["fromEnv{}"] := by decide

/-- `Default()` detects with service-name default, environment, telemetry SDK — the order of the model's
`defaultDetectors` (later detectors win on conflicts) — and the only other detector literal in the function is the
experimental service-instance-id detector that is prepended behind its feature flag -/
theorem gen_default_detector_list :
    Otel.Gen.C19.defaultDetectorLiterals.map (fun l => l.map (·.2)) =
      [[detName .defaultServiceName, "fromEnv{}", detName .telemetrySDK], ["defaultServiceInstanceIDDetector{}"]] := by
  decide

/-! ### auto.go: the detection loop -/

/-- one iteration of the loop of `detect` (skeleton from `if detector == nil`): a nil detector is skipped; a detector
error is joined and — unless it is a partial-resource error — ends the iteration without merging; otherwise the
detected resource is merged INTO the accumulated one (`Merge(res, r)`: the new one wins), a merge error is joined,
and the result is stored even then -/
theorem gen_detect_step_table (nilDet e1 e2 isPartial : Bool) :
    Otel.Gen.C19.detectStep nilDet e1 e2 isPartial =
      (if nilDet then ("<continue>", [])
       else if e1 && !isPartial then ("<continue>", ["detect", "joinErr"])
       else ("<end>", ["detect"] ++ (if e1 then ["joinErr"] else []) ++ ["merge(res,r)"] ++
                      (if e2 then ["joinErr"] else []) ++ ["store"])) := by
  cases nilDet <;> cases e1 <;> cases e2 <;> cases isPartial <;> rfl

/-- the guard of the model's `detectStep` (`d.err.any (!·.isPartial)` ⇒ no merge) is the source's: the merged
resource is stored iff the detector is present and its error, if any, is partial -/
theorem gen_detect_step_stores_iff (nilDet e1 e2 isPartial : Bool) :
    "store" ∈ (Otel.Gen.C19.detectStep nilDet e1 e2 isPartial).2 ↔ (nilDet = false ∧ (e1 = false ∨ isPartial = true)) := by
  rw [gen_detect_step_table]
  cases nilDet <;> cases e1 <;> cases e2 <;> cases isPartial <;> decide

/-- after the loop: any error is wrapped; the schema URL is cleared exactly when an error was collected AND it is a
schema-URL conflict — the final `if st.anyErr && st.conflictSeen` of the model's `detect` -/
theorem gen_detect_tail_table (anyErr conflict : Bool) :
    Otel.Gen.C19.detectTail anyErr conflict =
      ("err", (if anyErr && conflict then ["clearSchema"] else []) ++ (if anyErr then ["wrap"] else [])) := by
  cases anyErr <;> cases conflict <;> rfl

end Otel.C19.GenTie
