/-
C19 — generated tie.  `Otel.Gen.C19` is regenerated from /repo's current source by tools/go2lean on every run of
bin/check (checks/gentie.json); the theorems below are re-checked against the regenerated text.
Site: the decision skeleton of `resource.Merge` (sdk/resource/resource.go): nil handling and the schema-URL choice,
over the atoms `a == nil`, `b == nil`, `a.schemaURL == ""`, `b.schemaURL == ""`, `a.schemaURL == b.schemaURL`.
The theorems state that it is the decision the model's `Otel.C19.merge` makes.
-/
import Otel.Gen.C19
import Otel.C19.Model

namespace Otel.C19.GenTie
open Otel Otel.C19 Otel.C05

/-- what each arm of `Merge` returns (`combine` = the merged attribute list) -/
def interpMerge (tag : String) (a b : Res) (combine : List KV) : Res × Bool :=
  if tag = "empty" then (Res.empty, false)
  else if tag = "b" then (b, false)
  else if tag = "a" then (a, false)
  else if tag = "merged@b.schemaURL" then (newWithAttributes b.schema combine, false)
  else if tag = "merged@a.schemaURL" then (newWithAttributes a.schema combine, false)
  else (newSchemaless combine, true)

/-- the decision table of `Merge`, exhaustively -/
theorem gen_merge_table :
    ∀ aNil bNil aNo bNo same : Bool,
      Otel.Gen.C19.mergeDecision aNil bNil aNo bNo same =
        (match aNil, bNil with
         | true, true => "empty"
         | true, false => "b"
         | false, true => "a"
         | false, false =>
           if aNo then "merged@b.schemaURL"
           else if bNo || same then "merged@a.schemaURL"
           else "schemaless+conflict") := by
  intro a b c d e; cases a <;> cases b <;> cases c <;> cases d <;> cases e <;> rfl

/-- a schema-URL conflict is reported exactly when both resources exist, both have a schema URL and the URLs differ -/
theorem gen_merge_conflict_iff (aNil bNil aNo bNo same : Bool) :
    Otel.Gen.C19.mergeDecision aNil bNil aNo bNo same = "schemaless+conflict" ↔
      (aNil = false ∧ bNil = false ∧ aNo = false ∧ bNo = false ∧ same = false) := by
  cases aNil <;> cases bNil <;> cases aNo <;> cases bNo <;> cases same <;> decide

/-- two non-nil resources: the model's `merge` is the arm the Go code takes today -/
theorem gen_merge_eq_model_some (a b : Res) :
    merge (some a) (some b) =
      interpMerge (Otel.Gen.C19.mergeDecision false false (decide (a.schema = [])) (decide (b.schema = []))
                    (decide (a.schema = b.schema))) a b (mergeIter b.attrs a.attrs) := by
  rw [gen_merge_table]
  simp only [merge]
  by_cases ha : a.schema = []
  · simp [ha, interpMerge]
  · have ha' : ¬ a.schema.length = 0 := by simpa using ha
    by_cases hb : b.schema = []
    · simp [ha, ha', hb, interpMerge]
    · have hb' : ¬ b.schema.length = 0 := by simpa using hb
      by_cases hs : a.schema = b.schema
      · simp [hb, hb', hs, interpMerge]
      · simp [ha, ha', hb, hb', hs, interpMerge]

/-- nil handling: the model's `merge` agrees with the Go code on every nil combination -/
theorem gen_merge_eq_model_nil (a b : Res) (x y z : Bool) (c : List KV) :
    merge none none = interpMerge (Otel.Gen.C19.mergeDecision true true x y z) a b c ∧
    merge none (some b) = interpMerge (Otel.Gen.C19.mergeDecision true false x y z) a b c ∧
    merge (some a) none = interpMerge (Otel.Gen.C19.mergeDecision false true x y z) a b c := by
  simp only [gen_merge_table]
  refine ⟨rfl, rfl, rfl⟩

end Otel.C19.GenTie
