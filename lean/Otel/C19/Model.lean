/-
C19 — executable model of sdk/resource: `NewSchemaless`/`NewWithAttributes`, `Merge`, the
OTEL_RESOURCE_ATTRIBUTES / OTEL_SERVICE_NAME detector (`fromEnv`, `constructOTResources`) and
`Detect`/`detect` (auto.go), on top of C05's model of `attribute.Set`.  Core Lean only.

External calls modelled as written in the Go standard library: `strings.TrimSpace` (ASCII fast
path + `unicode.IsSpace` on both ends), `strings.Split(s, ",")`, `strings.Cut(p, "=")`,
`url.PathUnescape`.  Errors are modelled by what `errors.Is` can tell about them.
-/
import Otel.C05.Model
namespace Otel
namespace C19
open Otel.C05

/-- `*Resource` = `Option Res`; `none` is the nil pointer -/
structure Res where
  attrs : List KV
  schema : Bytes
deriving DecidableEq, Repr, Inhabited

def Res.empty : Res := ⟨[], []⟩

/-- `KeyValue.Valid()`: key defined (non-empty) and value type not INVALID -/
def valid (kv : KV) : Bool := kv.key.length != 0 && kv.val != .invalid

/-- `NewSchemaless(attrs...)` -/
def newSchemaless (attrs : List KV) : Res :=
  if attrs.length = 0 then Res.empty
  else
    let s := (newSetWithFiltered attrs (some valid)).set
    if s.length = 0 then Res.empty else ⟨s, []⟩

/-- `NewWithAttributes(schemaURL, attrs...)` -/
def newWithAttributes (schema : Bytes) (attrs : List KV) : Res :=
  { newSchemaless attrs with schema := schema }

/-- `Merge(a, b)`: (result, returned an error wrapping ErrSchemaURLConflict) -/
def merge : Option Res → Option Res → Res × Bool
  | none, none => (Res.empty, false)
  | none, some b => (b, false)
  | some a, none => (a, false)
  | some a, some b =>
    let combine := mergeIter b.attrs a.attrs
    if a.schema.length = 0 then (newWithAttributes b.schema combine, false)
    else if b.schema.length = 0 then (newWithAttributes a.schema combine, false)
    else if a.schema = b.schema then (newWithAttributes a.schema combine, false)
    else (newSchemaless combine, true)

/-! ### accessors (nil receivers stand for the empty resource) -/

/-- `(*Resource).Attributes()` -/
def resAttributes : Option Res → List KV
  | none => []
  | some r => r.attrs
/-- `(*Resource).SchemaURL()` -/
def resSchemaURL : Option Res → Bytes
  | none => []
  | some r => r.schema
/-- `(*Resource).Len()`, and the number of steps of `Iter()` -/
def resLen (r : Option Res) : Nat := (resAttributes r).length
/-- `(*Resource).Equal(o)`: `==` of the `Equivalent()`s -/
def resEqual (a b : Option Res) : Bool := equal (resAttributes a) (resAttributes b)
/-- `(*Resource).String()` / `Encoded(DefaultEncoder())`; `emit` = `Value.Emit` -/
def resString (emit : Value → Bytes) : Option Res → Bytes
  | none => []
  | some r => encode emit r.attrs

/-! ### strings.TrimSpace -/

def asciiSpace (b : UInt8) : Bool :=
  b == 0x09 || b == 0x0A || b == 0x0B || b == 0x0C || b == 0x0D || b == 0x20

/-- UTF-8 encodings of the non-ASCII runes for which `unicode.IsSpace` holds
(U+0085, U+00A0, U+1680, U+2000–U+200A, U+2028, U+2029, U+202F, U+205F, U+3000) -/
def uniSpaces : List Bytes :=
  [[0xC2, 0x85], [0xC2, 0xA0], [0xE1, 0x9A, 0x80],
   [0xE2, 0x80, 0x80], [0xE2, 0x80, 0x81], [0xE2, 0x80, 0x82], [0xE2, 0x80, 0x83], [0xE2, 0x80, 0x84],
   [0xE2, 0x80, 0x85], [0xE2, 0x80, 0x86], [0xE2, 0x80, 0x87], [0xE2, 0x80, 0x88], [0xE2, 0x80, 0x89],
   [0xE2, 0x80, 0x8A], [0xE2, 0x80, 0xA8], [0xE2, 0x80, 0xA9], [0xE2, 0x80, 0xAF], [0xE2, 0x81, 0x9F],
   [0xE3, 0x80, 0x80]]

/-- remove one leading white-space rune, given the encodings of the non-ASCII ones -/
def stripSpace (toks : List Bytes) (s : Bytes) : Option Bytes :=
  match s with
  | [] => none
  | b :: r =>
    if asciiSpace b then some r
    else toks.findSome? (fun t => if t.isPrefixOf s then some (s.drop t.length) else none)

def trimLeftAux (toks : List Bytes) : Nat → Bytes → Bytes
  | 0, s => s
  | f + 1, s =>
    match stripSpace toks s with
    | none => s
    | some r => trimLeftAux toks f r

def trimLeft (s : Bytes) : Bytes := trimLeftAux uniSpaces s.length s
/-- trailing white space: the same on the reversed string with reversed encodings -/
def trimRight (s : Bytes) : Bytes :=
  (trimLeftAux (uniSpaces.map List.reverse) s.length s.reverse).reverse
def trimSpace (s : Bytes) : Bytes := trimRight (trimLeft s)

/-! ### strings.Split / strings.Cut / url.PathUnescape -/

/-- `strings.Split(s, sep)` for a one-byte separator -/
def splitOn (sep : UInt8) : Bytes → List Bytes
  | [] => [[]]
  | b :: r =>
    if b == sep then [] :: splitOn sep r
    else match splitOn sep r with
      | [] => [[b]]
      | h :: t => (b :: h) :: t

/-- `strings.Cut(s, sep)` for a one-byte separator: `none` = not found -/
def cut (sep : UInt8) : Bytes → Option (Bytes × Bytes)
  | [] => none
  | b :: r =>
    if b == sep then some ([], r)
    else match cut sep r with
      | none => none
      | some (k, v) => some (b :: k, v)

def isHex (c : UInt8) : Bool :=
  (0x30 ≤ c.toNat && c.toNat ≤ 0x39) || (0x61 ≤ c.toNat && c.toNat ≤ 0x66) || (0x41 ≤ c.toNat && c.toNat ≤ 0x46)
def unhex (c : UInt8) : Nat :=
  if 0x30 ≤ c.toNat && c.toNat ≤ 0x39 then c.toNat - 0x30
  else if 0x61 ≤ c.toNat && c.toNat ≤ 0x66 then c.toNat - 0x61 + 10
  else if 0x41 ≤ c.toNat && c.toNat ≤ 0x46 then c.toNat - 0x41 + 10
  else 0

/-- `url.PathUnescape`: `none` = EscapeError (a `%` not followed by two hex digits); `+` stays `+` -/
def pathUnescape : Bytes → Option Bytes
  | [] => some []
  | b :: r =>
    if b == 0x25 then
      match r with
      | h1 :: h2 :: r' =>
        if isHex h1 && isHex h2 then
          match pathUnescape r' with
          | some t => some (UInt8.ofNat (unhex h1 * 16 + unhex h2) :: t)
          | none => none
        else none
      | _ => none
    else
      match pathUnescape r with
      | some t => some (b :: t)
      | none => none

/-! ### constructOTResources / fromEnv.Detect -/

/-- `semconv.ServiceNameKey` = "service.name" -/
def serviceNameKey : Bytes := [0x73, 0x65, 0x72, 0x76, 0x69, 0x63, 0x65, 0x2e, 0x6e, 0x61, 0x6d, 0x65]

structure PairsOut where
  attrs : List KV := []
  invalid : Nat := 0       -- len(invalid): pairs without `=`
  handled : Nat := 0       -- calls of otel.Handle (undecodable values, kept raw)
deriving DecidableEq, Repr

/-- the loop over `pairs` -/
def parsePairs : List Bytes → PairsOut → PairsOut
  | [], acc => acc
  | p :: ps, acc =>
    match cut 0x3D p with
    | none => parsePairs ps { acc with invalid := acc.invalid + 1 }
    | some (k, v) =>
      let key := trimSpace k
      match pathUnescape (trimSpace v) with
      | some val => parsePairs ps { acc with attrs := acc.attrs ++ [⟨key, .str val⟩] }
      | none =>
        -- "Retain original value if decoding fails": the raw, *untrimmed* `v`
        parsePairs ps { acc with attrs := acc.attrs ++ [⟨key, .str v⟩], handled := acc.handled + 1 }

/-- `constructOTResources(s)`: (resource, error wraps ErrPartialResource, otel.Handle calls) -/
def constructOT (s : Bytes) : Res × Bool × Nat :=
  if s.length = 0 then (Res.empty, false, 0)
  else
    let o := parsePairs (splitOn 0x2C s) {}
    (newSchemaless o.attrs, decide (o.invalid > 0), o.handled)

/-- what `errors.Is` can tell about an error value -/
structure Err where
  isPartial : Bool     -- errors.Is(err, ErrPartialResource)
  isConflict : Bool    -- errors.Is(err, ErrSchemaURLConflict)
deriving DecidableEq, Repr

/-- `fromEnv{}.Detect`: given the two environment values: (resource, error, otel.Handle calls) -/
def fromEnv (attrsEnv svcEnv : Bytes) : Res × Option Err × Nat :=
  let attrs := trimSpace attrsEnv
  let svcName := trimSpace svcEnv
  if attrs.length = 0 ∧ svcName.length = 0 then (Res.empty, none, 0)
  else
    let res : Option Res := if svcName.length ≠ 0 then some (newSchemaless [⟨serviceNameKey, .str svcName⟩]) else none
    let c := constructOT attrs
    let m := merge (some c.1) res
    let err : Option Err :=
      if !c.2.1 then (if m.2 then some ⟨false, true⟩ else none)
      else if m.2 then some ⟨false, false⟩   -- fmt.Errorf("… %s", …): wraps nothing
      else some ⟨true, false⟩
    (m.1, err, c.2.2)

/-! ### Detect -/

/-- one scripted detector: `none` = a nil Detector; otherwise what `Detect` returns -/
structure DetOut where
  res : Option Res
  err : Option Err
deriving DecidableEq, Repr

structure DetState where
  res : Res
  anyErr : Bool := false
  partialSeen : Bool := false    -- errors.Is(joined, ErrPartialResource)
  conflictSeen : Bool := false   -- errors.Is(joined, ErrSchemaURLConflict)
deriving DecidableEq, Repr

def joinErr (st : DetState) (e : Err) : DetState :=
  { st with anyErr := true, partialSeen := st.partialSeen || e.isPartial, conflictSeen := st.conflictSeen || e.isConflict }

/-- one iteration of the loop in `detect` -/
def detectStep (st : DetState) : Option DetOut → DetState
  | none => st
  | some d =>
    let st1 := match d.err with | some e => joinErr st e | none => st
    if d.err.any (fun e => !e.isPartial) then st1
    else
      let m := merge (some st1.res) d.res
      let st2 := if m.2 then joinErr st1 ⟨false, true⟩ else st1
      { st2 with res := m.1 }

/-- `detect(ctx, res, detectors)` started from `&Resource{schemaURL: init}`:
(final resource, error present, error Is ErrPartialResource, error Is ErrSchemaURLConflict) -/
def detect (init : Bytes) (ds : List (Option DetOut)) : DetState :=
  let st := ds.foldl detectStep { res := ⟨[], init⟩ }
  if st.anyErr && st.conflictSeen then { st with res := { st.res with schema := [] } } else st

/-! ### resource.New(ctx, opts…) (config.go, resource.go) -/

/-- `StringDetector(schemaURL, k, f).Detect` (builtin.go): `f = none` = `f()` returned an error.
An error of `f` and an invalid attribute (empty key) both give `(nil, non-partial error)`. -/
def stringDetector (schema k : Bytes) (f : Option Bytes) : DetOut :=
  match f with
  | none => ⟨none, some ⟨false, false⟩⟩
  | some v =>
    if !valid ⟨k, .str v⟩ then ⟨none, some ⟨false, false⟩⟩
    else ⟨some (newWithAttributes schema [⟨k, .str v⟩]), none⟩

/-- the built-in detector types (builtin.go, os.go, process.go, host_id.go, container.go); what
their `Detect` returns depends on the machine and is a parameter (`Env.builtin`) -/
inductive BDet where
  | host | hostID | telemetrySDK | osType | osDescription
  | processPID | processExecutableName | processExecutablePath | processCommandArgs | processOwner
  | processRuntimeName | processRuntimeVersion | processRuntimeDescription
  | containerID | defaultServiceName
deriving DecidableEq, Repr

/-- the built-in `With…()` options of config.go -/
inductive BOpt where
  | host | hostID | telemetrySDK | os | osType | osDescription
  | process | processPID | processExecutableName | processExecutablePath | processCommandArgs | processOwner
  | processRuntimeName | processRuntimeVersion | processRuntimeDescription
  | container | containerID
deriving DecidableEq, Repr

/-- config.go: the detectors each built-in option hands to `WithDetectors`, in order -/
def builtinDetectors : BOpt → List BDet
  | .host => [.host]
  | .hostID => [.hostID]
  | .telemetrySDK => [.telemetrySDK]
  | .os => [.osType, .osDescription]
  | .osType => [.osType]
  | .osDescription => [.osDescription]
  | .process => [.processPID, .processExecutableName, .processExecutablePath, .processCommandArgs,
      .processOwner, .processRuntimeName, .processRuntimeVersion, .processRuntimeDescription]
  | .processPID => [.processPID]
  | .processExecutableName => [.processExecutableName]
  | .processExecutablePath => [.processExecutablePath]
  | .processCommandArgs => [.processCommandArgs]
  | .processOwner => [.processOwner]
  | .processRuntimeName => [.processRuntimeName]
  | .processRuntimeVersion => [.processRuntimeVersion]
  | .processRuntimeDescription => [.processRuntimeDescription]
  | .container => [.containerID]
  | .containerID => [.containerID]

/-- the two environment values the `fromEnv` detector reads, and what every built-in detector
returns in this process -/
structure Env where
  attrs : Bytes
  svc : Bytes
  builtin : BDet → DetOut := fun _ => ⟨none, none⟩

/-- the options of config.go -/
inductive Opt where
  | withSchemaURL (s : Bytes)
  | withDetectors (ds : List (Option DetOut))   -- what each detector's `Detect` returns; `none` = nil Detector
  | withAttributes (kvs : List KV)              -- WithDetectors(detectAttributes{kvs})
  | withFromEnv                                 -- WithDetectors(fromEnv{})
  | withBuiltin (o : BOpt)                      -- WithHost(), WithOS(), WithProcess(), …

structure Cfg where
  detectors : List (Option DetOut) := []
  schemaURL : Bytes := []

/-- the detectors an option appends (`detectorsOption.apply`: every one of them, in order) -/
def optDetectors (env : Env) : Opt → List (Option DetOut)
  | .withSchemaURL _ => []
  | .withDetectors ds => ds
  | .withAttributes kvs => [some ⟨some (newSchemaless kvs), none⟩]
  | .withFromEnv => [some ⟨some (fromEnv env.attrs env.svc).1, (fromEnv env.attrs env.svc).2.1⟩]
  | .withBuiltin o => (builtinDetectors o).map (fun d => some (env.builtin d))

/-- `opt.apply(cfg)` -/
def applyOpt (env : Env) (cfg : Cfg) : Opt → Cfg
  | .withSchemaURL s => { cfg with schemaURL := s }
  | o => { cfg with detectors := cfg.detectors ++ optDetectors env o }

/-- `New(ctx, opts...)`: options applied in order, then `detect` from `&Resource{schemaURL: cfg.schemaURL}` -/
def newResource (env : Env) (opts : List Opt) : DetState :=
  let cfg := opts.foldl (applyOpt env) {}
  detect cfg.schemaURL cfg.detectors

/-! ### resource.Default() (resource.go): `sync.Once` + package variable -/

/-- the detector list of `Default()` (the experimental service-instance-id detector is off) -/
def defaultDetectors (env : Env) : List (Option DetOut) :=
  [some (env.builtin .defaultServiceName),
   some ⟨some (fromEnv env.attrs env.svc).1, (fromEnv env.attrs env.svc).2.1⟩,
   some (env.builtin .telemetrySDK)]

/-- one call of `Default()`. `cache` = `defaultResource` once `defaultResourceOnce` has fired.
Result: (the resource returned, calls of `otel.Handle` made by this call, the cache afterwards). -/
def defaultCall (cache : Option Res) (env : Env) : Res × Nat × Option Res :=
  match cache with
  | some r => (r, 0, some r)
  | none =>
    let st := detect [] (defaultDetectors env)
    (st.res, (fromEnv env.attrs env.svc).2.2 + (if st.anyErr then 1 else 0), some st.res)

/-- successive calls of `Default()` under (possibly changing) environments -/
def defaultSeq (cache : Option Res) : List Env → List Res
  | [] => []
  | e :: es => (defaultCall cache e).1 :: defaultSeq (defaultCall cache e).2.2 es

end C19
end Otel
