/-
C19 — specification of resource construction, merging, environment parsing and detection, as
executable predicates on *results* (they are the conclusions of the theorems in Props.lean and the
oracle evaluated on what the real code returned).  Reference semantics: a resource is the
canonical (C05) last-wins mapping of its valid attributes plus a schema URL; merge is a
right-biased union of mappings; a sequence of merges is the last-wins mapping of the concatenation.
-/
import Otel.C05.Spec
import Otel.C19.Model
namespace Otel
namespace C19
namespace Spec
open Otel.C05 Otel.C05.Spec

/-- the attributes a resource built from `attrs` must hold: last value per key, then only valid items -/
def contents (attrs : List KV) : List KV := (canon attrs).filter valid

/-- well-formed resource contents: strictly sorted by key, valid items only -/
def wf (l : List KV) : Bool := strictSorted l && l.all valid

/-- `out` is the union of `a` and `b` with `b`'s value on shared keys -/
def unionOK (a b out : List KV) : Bool :=
  wf out && (keys a ++ keys b ++ keys out).all (fun k => lookup out k == (lookup b k).or (lookup a k))

/-- schema URL rule of the OpenTelemetry specification: (schema, conflict) -/
def schemaRef (a b : Bytes) : Bytes × Bool :=
  if a = [] then (b, false) else if b = [] then (a, false) else if a = b then (a, false) else ([], true)

/-- `Merge(a, b) = (out, conflict error?)` -/
def resMergeOK (a b : Option Res) (out : Res) (conflict : Bool) : Bool :=
  match a, b with
  | none, none => out == Res.empty && !conflict
  | none, some b => out == b && !conflict
  | some a, none => out == a && !conflict
  | some a, some b =>
    unionOK a.attrs b.attrs out.attrs && (out.schema, conflict) == schemaRef a.schema b.schema

/-- one `key=value` pair: key and value trimmed, value percent-decoded (kept raw when it cannot be);
`none` when there is no `=` -/
def pairKV (p : Bytes) : Option KV :=
  (cut 0x3D p).map (fun kv => ⟨trimSpace kv.1, .str ((pathUnescape (trimSpace kv.2)).getD kv.2)⟩)

/-- the pairs of an already trimmed OTEL_RESOURCE_ATTRIBUTES value, in order, and whether some
pair had no `=` -/
def pairsOf (s : Bytes) : List KV × Bool :=
  let pairs := if s = [] then [] else splitOn 0x2C s
  (pairs.filterMap pairKV, pairs.any (fun p => (cut 0x3D p).isNone))

def envPairs (attrsEnv : Bytes) : List KV × Bool := pairsOf (trimSpace attrsEnv)

/-- reference for `fromEnv`: the environment pairs, then `service.name` = OTEL_SERVICE_NAME (if
set) supplied LAST, reduced to resource contents; partial error iff a pair was malformed -/
def envRef (attrsEnv svcEnv : Bytes) : List KV × Bool :=
  let svc := trimSpace svcEnv
  let ps := envPairs attrsEnv
  (contents (ps.1 ++ (if svc = [] then [] else [⟨serviceNameKey, .str svc⟩])), ps.2)

/-! #### rendering a list of pairs as an OTEL_RESOURCE_ATTRIBUTES value (for the round-trip theorem) -/

def hexDigitU (n : Nat) : UInt8 := if n < 10 then UInt8.ofNat (0x30 + n) else UInt8.ofNat (0x37 + n)
/-- percent-encode every byte (`%XX`, upper-case hex) -/
def pctEncode (v : Bytes) : Bytes :=
  v.flatMap (fun b => [0x25, hexDigitU (b.toNat / 16), hexDigitU (b.toNat % 16)])
/-- key bytes that need no escaping: graphic ASCII except `,` and `=` -/
def cleanKeyByte (b : UInt8) : Bool :=
  decide (0x21 ≤ b.toNat) && decide (b.toNat ≤ 0x7E) && decide (b.toNat ≠ 0x2C) && decide (b.toNat ≠ 0x3D)
def cleanKey (k : Bytes) : Bool := !k.isEmpty && k.all cleanKeyByte
/-- the exact well-formedness predicate of a key for the round trip: unchanged by `strings.TrimSpace`
on either side (any bytes otherwise, incl. the empty key and non-UTF-8), no `,`, no `=` -/
def keyOK (k : Bytes) : Bool := trimLeft k == k && trimRight k == k && !k.contains 0x2C && !k.contains 0x3D
def renderPair (p : Bytes × Bytes) : Bytes := p.1 ++ 0x3D :: pctEncode p.2
def renderEnv (ps : List (Bytes × Bytes)) : Bytes := ((ps.map renderPair).intersperse [0x2C]).flatten

/-- is this detector's result merged? (not nil, no error or only a partial one) -/
def keptRes : Option DetOut → Option Res
  | none => none
  | some d => if d.err.any (fun e => !e.isPartial) then none else d.res

def detErr : Option DetOut → Option Err
  | none => none
  | some d => d.err

/-- schema rule along a sequence of merges: (schema so far, some merge conflicted) -/
def schemaStep (acc : Bytes × Bool) (r : Res) : Bytes × Bool :=
  ((schemaRef acc.1 r.schema).1, acc.2 || (schemaRef acc.1 r.schema).2)

/-- reference for `Detect`: attributes = last-wins mapping of the concatenation of the kept
detectors' attributes (later detectors win, failed ones contribute nothing, the rest is kept);
schema = left fold of the schema rule; flags as `errors.Is` sees the joined error -/
def detectRef (init : Bytes) (ds : List (Option DetOut)) : DetState :=
  let kept := ds.filterMap keptRes
  let attrs := contents (kept.flatMap (·.attrs))
  let sch := kept.foldl schemaStep (init, false)
  let errs := ds.filterMap detErr
  let anyErr := !errs.isEmpty || sch.2
  let conflict := errs.any (·.isConflict) || sch.2
  { res := ⟨attrs, if anyErr && conflict then [] else sch.1⟩, anyErr := anyErr,
    partialSeen := errs.any (·.isPartial), conflictSeen := conflict }

/-! #### `detect` as a left fold of `Merge` -/

/-- which detectors reach `Merge`, and with which argument (nil detectors and detectors failing
with a non-partial error do not; a nil *resource* does) -/
def mergedArg : Option DetOut → Option (Option Res)
  | none => none
  | some d => if d.err.any (fun e => !e.isPartial) then none else some d.res

/-- left fold of `Merge` over a list of `*Resource`, or-ing the conflict flags -/
def mergeFold (acc : Res × Bool) (rs : List (Option Res)) : Res × Bool :=
  rs.foldl (fun acc r => ((merge (some acc.1) r).1, acc.2 || (merge (some acc.1) r).2)) acc

/-! #### resource.New -/

/-- the schema URL option that counts: the last one -/
def schemaOf (opts : List Opt) : Bytes :=
  opts.foldl (fun s o => match o with | .withSchemaURL x => x | _ => s) []

/-- reference for `StringDetector`: one attribute `k = v` under the schema URL, provided `f`
succeeded and the key is not empty; otherwise nothing and a (non-partial) error -/
def stringDetRef (schema k : Bytes) (f : Option Bytes) : DetOut :=
  match f with
  | some v => if k = [] then ⟨none, some ⟨false, false⟩⟩ else ⟨some ⟨[⟨k, .str v⟩], schema⟩, none⟩
  | none => ⟨none, some ⟨false, false⟩⟩

/-- a composite built-in option stands for these single-detector options, in this order
(documentation of `WithOS`, `WithProcess`, `WithContainer`); a single option stands for itself -/
def optSingles : BOpt → List BOpt
  | .os => [.osType, .osDescription]
  | .process => [.processPID, .processExecutableName, .processExecutablePath, .processCommandArgs,
      .processOwner, .processRuntimeName, .processRuntimeVersion, .processRuntimeDescription]
  | .container => [.containerID]
  | o => [o]

/-- the detector behind a single built-in option -/
def singleDet : BOpt → Option BDet
  | .host => some .host | .hostID => some .hostID | .telemetrySDK => some .telemetrySDK
  | .osType => some .osType | .osDescription => some .osDescription
  | .processPID => some .processPID | .processExecutableName => some .processExecutableName
  | .processExecutablePath => some .processExecutablePath | .processCommandArgs => some .processCommandArgs
  | .processOwner => some .processOwner | .processRuntimeName => some .processRuntimeName
  | .processRuntimeVersion => some .processRuntimeVersion
  | .processRuntimeDescription => some .processRuntimeDescription
  | .containerID => some .containerID
  | .os => none | .process => none | .container => none

/-- the reference environment detector -/
def envDetRef (env : Env) : Option DetOut :=
  some ⟨some ⟨(envRef env.attrs env.svc).1, []⟩, if (envRef env.attrs env.svc).2 then some ⟨true, false⟩ else none⟩

/-- what an option contributes to the detector sequence, by the reference semantics -/
def optDetRef (env : Env) : Opt → List (Option DetOut)
  | .withSchemaURL _ => []
  | .withDetectors ds => ds
  | .withAttributes kvs => [some ⟨some ⟨contents kvs, []⟩, none⟩]
  | .withFromEnv => [envDetRef env]
  | .withBuiltin o => (optSingles o).filterMap (fun s => (singleDet s).map (fun d => some (env.builtin d)))

/-- reference for `New`: every option's detectors, in option order (an option or detector given
again counts again, at its later position), folded by the `Detect` reference from the last
schema URL option -/
def newRef (env : Env) (opts : List Opt) : DetState :=
  detectRef (schemaOf opts) (opts.flatMap (optDetRef env))

/-! #### resource.Default -/

/-- reference for the first `Default()` call: default service name, then the environment, then the
telemetry SDK attributes — later ones win — from an empty schema URL -/
def defaultRef (env : Env) : DetState :=
  detectRef [] [some (env.builtin .defaultServiceName), envDetRef env, some (env.builtin .telemetrySDK)]

/-- a sequence of `Default()` calls under changing environments: every call returns what the FIRST
one computed -/
def defaultSeqOK (envs : List Env) (results : List Res) : Bool :=
  match envs with
  | [] => results.isEmpty
  | e :: _ => results == envs.map (fun _ => (defaultRef e).res)

end Spec
end C19
end Otel
