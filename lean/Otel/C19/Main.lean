/-
C19 driver: one self-contained case per line.

  schemaless <gen> <kvs>                 => <kvs>
  merge   <gen> <A> <B>                  => <res> <err>
  merge3  <gen> <A> <B> <C>              => <(AB)C> <errAB> <err(AB)C> <A(BC)> <errBC> <errA(BC)>
  env     <gen> x<OTEL_RESOURCE_ATTRIBUTES> x<OTEL_SERVICE_NAME> => <res> <err> <otel.Handle calls>
  detect  <gen> x<initial schema> <det>… => <res> <err>
  requal  <gen> <A> <B>                  => <A.Equal(B)> <B's Equivalent() found in map{A}>
  new     <gen> x<OTEL_RESOURCE_ATTRIBUTES> x<OTEL_SERVICE_NAME> <opt>… => <res> <err>     (resource.New(ctx, opts…))
          opt = sch:x<schema> | attrs:<kvs> | env | tsdk:<resource the telemetrySDK detector returns> |
                dets:<d>;<d>;… with d = nild | <P|S|F><id>/<det> (P pointer, S comparable struct, F
                non-comparable detector; the same kind+id is the SAME detector value given again)

resource = nil | <kvs>@x<schemahex> (inputs: the attribute list handed to NewWithAttributes; outputs:
Attributes() and SchemaURL()); kvs as in the C05 driver; err = ok | err:<p?><c?> (p: errors.Is
ErrPartialResource, c: errors.Is ErrSchemaURLConflict); det = nild | <ok|p|f|c|pc>:<resource>.
-/
import Otel.C05.Drv
import Otel.C19.Spec
open Otel Otel.Wire Otel.C05 Otel.C05.Drv Otel.C19

namespace Otel.C19.Drv

/-- a resource token as *input*: the arguments of NewWithAttributes -/
def parseResArgs (s : String) : Option (Option (List KV × Bytes)) :=
  if s = "nil" then some none
  else match s.splitOn "@" with
    | [k, sc] => do
      let kvs ← parseKVs k
      let sch ← parseHex sc
      pure (some (kvs, sch))
    | _ => none

def showRes (r : Res) : String := s!"{showKVs r.attrs}@{hexOf r.schema}"

def parseErr (s : String) : Option (Option Err) :=
  if s = "ok" then some none
  else match s.splitOn ":" with
    | ["err", fl] => some (some ⟨fl.toList.contains 'p', fl.toList.contains 'c'⟩)
    | _ => none

def showErr : Option Err → String
  | none => "ok"
  | some e => "err:" ++ (if e.isPartial then "p" else "") ++ (if e.isConflict then "c" else "")

def conflictErr (b : Bool) : Option Err := if b then some ⟨false, true⟩ else none

/-- model resource / reference resource built from NewWithAttributes arguments -/
def mkModel (a : Option (List KV × Bytes)) : Option Res := a.map (fun p => newWithAttributes p.2 p.1)
def mkRef (a : Option (List KV × Bytes)) : Option Res := a.map (fun p => ⟨Spec.contents p.1, p.2⟩)

def parseDet (s : String) : Option (Option (Option Err × Option (List KV × Bytes))) :=
  if s = "nild" then some none
  else match s.splitOn ":" with
    | [cls, r] => do
      let e ← (match cls with
        | "ok" => some none
        | "p" => some (some (⟨true, false⟩ : Err))
        | "f" => some (some ⟨false, false⟩)
        | "c" => some (some ⟨false, true⟩)
        | "pc" => some (some ⟨true, true⟩)
        | _ => none)
      let ra ← parseResArgs r
      pure (some (e, ra))
    | _ => none

/-- rest of a token after its first `:` -/
def afterColon (s : String) : String := ":".intercalate ((s.splitOn ":").drop 1)

def toDetOut (mk : Option (List KV × Bytes) → Option Res)
    (d : Option (Option Err × Option (List KV × Bytes))) : Option DetOut :=
  d.map (fun p => ⟨mk p.2, p.1⟩)

/-- an option token ↦ (model option, reference option) -/
def parseOpt (s : String) : Option (Opt × Opt) :=
  if s = "env" then some (.withFromEnv, .withFromEnv)
  else match (s.splitOn ":").head? with
    | some "sch" => (parseHex (afterColon s)).map (fun b => (.withSchemaURL b, .withSchemaURL b))
    | some "attrs" => (parseKVs (afterColon s)).map (fun k => (.withAttributes k, .withAttributes k))
    | some "tsdk" => do
      let ra ← parseResArgs (afterColon s)
      pure (.withDetectors [some ⟨mkModel ra, none⟩], .withDetectors [some ⟨mkRef ra, none⟩])
    | some "dets" => do
      let body := afterColon s
      let toks := if body = "" then [] else body.splitOn ";"
      let ds ← toks.mapM (fun t =>
        if t = "nild" then parseDet t
        else match t.splitOn "/" with
          | [_, d] => parseDet d
          | _ => none)
      pure (.withDetectors (ds.map (toDetOut mkModel)), .withDetectors (ds.map (toDetOut mkRef)))
    | _ => none

/-- identity of the detectors on a `new` line (kind+id, `env`, `tsdk`), in option order -/
def detIds (optToks : List String) : List String :=
  optToks.flatMap (fun s =>
    if s = "env" then ["env"]
    else match (s.splitOn ":").head? with
      | some "tsdk" => ["tsdk"]
      | some "dets" => ((afterColon s).splitOn ";").filterMap (fun t => (t.splitOn "/").head?.filter (fun h => h != "nild" && h != ""))
      | _ => [])

def stepLine (_ : Unit) (toks : List String) : Unit × Option Verdict :=
  let (inp, obs) := splitObs toks
  ((), match inp, obs with
  | ["schemaless", _, kS], [oS] => do
    let kvs ← parseKVs kS
    let o ← parseKVs oS
    let m := (newSchemaless kvs).attrs
    let br := tags [(kvs.isEmpty, "empty"), (!kvs.isEmpty && m.isEmpty, "allinvalid"),
      (kvs.any (fun kv => !valid kv), "hasinvalid"), (hasDupKey kvs, "dup")]
    pure { agree := m == o, spec := okFail (o == Spec.contents kvs), nontrivial := kvs.length ≥ 2, branches := br,
           model := showKVs m }
  | ["merge", _, aS, bS], [rS, eS] => do
    let a ← parseResArgs aS
    let b ← parseResArgs bS
    let ro ← parseResArgs rS
    let (okvs, osch) ← ro
    let eo ← parseErr eS
    let m := merge (mkModel a) (mkModel b)
    let obsRes : Res := ⟨okvs, osch⟩
    let spec := Spec.resMergeOK (mkRef a) (mkRef b) obsRes (eo.any (·.isConflict)) && (eo.all (fun e => e == ⟨false, true⟩))
    let br := tags [(a.isNone && b.isNone, "nilnil"), (a.isNone && b.isSome, "nila"), (a.isSome && b.isNone, "nilb"),
      (a.isSome && b.isSome && m.2, "conflict"),
      (a.any (fun x => x.2.isEmpty) && b.isSome, "aschema-empty"), (b.any (fun x => x.2.isEmpty) && a.isSome, "bschema-empty"),
      ((mkModel a).any (fun x => (mkModel b).any (fun y => x.attrs.any (fun p => y.attrs.any (fun q => p.key == q.key)))), "shared")]
    pure { agree := m.1 == obsRes && conflictErr m.2 == eo, spec := okFail spec,
           nontrivial := a.isSome && b.isSome, branches := br, model := s!"{showRes m.1} {showErr (conflictErr m.2)}" }
  | ["merge3", _, aS, bS, cS], [lS, e1S, e2S, rS, e3S, e4S] => do
    let a ← parseResArgs aS
    let b ← parseResArgs bS
    let c ← parseResArgs cS
    let lo ← parseResArgs lS
    let (lkvs, lsch) ← lo
    let ro ← parseResArgs rS
    let (rkvs, rsch) ← ro
    let e1 ← parseErr e1S
    let e2 ← parseErr e2S
    let e3 ← parseErr e3S
    let e4 ← parseErr e4S
    let mab := merge (mkModel a) (mkModel b)
    let ml := merge (some mab.1) (mkModel c)
    let mbc := merge (mkModel b) (mkModel c)
    let mr := merge (mkModel a) (some mbc.1)
    let agree := ml.1 == ⟨lkvs, lsch⟩ && mr.1 == ⟨rkvs, rsch⟩ && conflictErr mab.2 == e1 && conflictErr ml.2 == e2
      && conflictErr mbc.2 == e3 && conflictErr mr.2 == e4
    -- associativity on attributes: two calls of the real code compared with each other, and with the reference union
    let all3 := [a, b, c].filterMap mkRef
    let spec := lkvs == rkvs && lkvs == Spec.contents (all3.flatMap (·.attrs))
    let br := tags [(mab.2 || ml.2, "conflictL"), (mbc.2 || mr.2, "conflictR"), (lsch != rsch, "schema-differs"),
      (a.isNone || b.isNone || c.isNone, "somenil")]
    pure { agree, spec := okFail spec, nontrivial := all3.length == 3, branches := br,
           model := s!"{showRes ml.1} {showRes mr.1}" }
  | ["env", _, aS, sS], [rS, eS, hS] => do
    let ae ← parseHex aS
    let se ← parseHex sS
    let ro ← parseResArgs rS
    let (okvs, osch) ← ro
    let eo ← parseErr eS
    let h ← hS.toNat?
    let m := fromEnv ae se
    let ref := Spec.envRef ae se
    let spec := okvs == ref.1 && osch.isEmpty && eo == (if ref.2 then some ⟨true, false⟩ else none)
    let svc := !(trimSpace se).isEmpty
    let br := tags [((trimSpace ae).isEmpty && !svc, "bothempty"), (svc, "svc"), (ref.2, "missing-eq"), (m.2.2 > 0, "badescape"),
      (ae.contains 0x25 && m.2.2 == 0, "unescaped"), (trimSpace ae != ae, "outer-trim"),
      (svc && (Spec.envPairs ae).1.any (fun kv => kv.key == serviceNameKey), "svc-override")]
    pure { agree := m.1 == ⟨okvs, osch⟩ && m.2.1 == eo && m.2.2 == h, spec := okFail spec,
           nontrivial := !(trimSpace ae).isEmpty, branches := br, model := s!"{showRes m.1} {showErr m.2.1} {m.2.2}" }
  | "detect" :: _ :: iS :: dS, [rS, eS] => do
    let init ← parseHex iS
    let ds ← dS.mapM parseDet
    let ro ← parseResArgs rS
    let (okvs, osch) ← ro
    let eo ← parseErr eS
    let mds : List (Option DetOut) := ds.map (fun d => d.map (fun p => ⟨mkModel p.2, p.1⟩))
    let rds : List (Option DetOut) := ds.map (fun d => d.map (fun p => ⟨mkRef p.2, p.1⟩))
    let m := detect init mds
    let ref := Spec.detectRef init rds
    let errOf (st : DetState) : Option Err := if st.anyErr then some ⟨st.partialSeen, st.conflictSeen⟩ else none
    let spec := ref.res == ⟨okvs, osch⟩ && errOf ref == eo
    let br := tags [(ds.any (·.isNone), "nildet"), (ds.any (fun d => d.any (fun p => p.2.isNone)), "nilres"),
      (ds.any (fun d => d.any (fun p => p.1.any (fun e => !e.isPartial))), "fatal"),
      (ds.any (fun d => d.any (fun p => p.1.any (fun e => e.isPartial))), "partial"),
      (m.conflictSeen, "conflict"), (m.anyErr, "err"), (!m.anyErr, "noerr")]
    pure { agree := m.res == ⟨okvs, osch⟩ && errOf m == eo, spec := okFail spec, nontrivial := ds.length ≥ 2,
           branches := br, model := s!"{showRes m.res} {showErr (errOf m)}" }
  | "new" :: _ :: aS :: sS :: optS, [rS, eS] => do
    let ae ← parseHex aS
    let se ← parseHex sS
    let opts ← optS.mapM parseOpt
    let ro ← parseResArgs rS
    let (okvs, osch) ← ro
    let eo ← parseErr eS
    let env : Env := ⟨ae, se⟩
    let m := newResource env (opts.map (·.1))
    let ref := Spec.newRef env (opts.map (·.2))
    let errOf (st : DetState) : Option Err := if st.anyErr then some ⟨st.partialSeen, st.conflictSeen⟩ else none
    let spec := ref.res == ⟨okvs, osch⟩ && errOf ref == eo
    let ids := detIds optS
    let schemas := (optS.filter (fun t => t.startsWith "sch:")).length
    let br := tags [(ids.eraseDups.length != ids.length, "repeated-detector"), (optS.contains "env", "env"),
      (optS.any (fun t => t.startsWith "attrs:"), "attrs"), (optS.any (fun t => t.startsWith "tsdk:"), "tsdk"),
      (decide (schemas ≥ 1), "schema"), (decide (schemas ≥ 2), "schema-twice"), (m.conflictSeen, "conflict"),
      (m.anyErr, "err"), (!m.anyErr, "noerr"), (optS.isEmpty, "noopts")]
    pure { agree := m.res == ⟨okvs, osch⟩ && errOf m == eo, spec := okFail spec,
           nontrivial := decide (optS.length ≥ 2) || decide (ids.length ≥ 2),
           branches := br, model := s!"{showRes m.res} {showErr (errOf m)}" }
  | ["requal", _, aS, bS], [eqS, fS] => do
    let a ← parseResArgs aS
    let b ← parseResArgs bS
    let oeq ← b01 eqS
    let of ← b01 fS
    let attrsOf (r : Option Res) : List KV := (r.map (·.attrs)).getD []
    let ma := attrsOf (mkModel a)
    let mb := attrsOf (mkModel b)
    let meq := equal ma mb
    let sa := attrsOf (mkRef a)
    let sb := attrsOf (mkRef b)
    let same := C05.Spec.sameMapping goEq sa sb
    -- equal resources have equal map identities: Equal and the map lookup must say the same thing
    let spec :=
      if oeq != of || oeq != same then "FAIL"
      else if sa == sb && !oeq then (if F9_applies sa then "KNOWN:F9" else "FAIL")
      else "ok"
    let br := tags [(meq, "eq"), (!meq, "neq"), (a.isNone || b.isNone, "nil"), (F9_applies ma || F9_applies mb, "nan")]
    pure { agree := meq == oeq && meq == of, spec, nontrivial := !ma.isEmpty && !mb.isEmpty, branches := br,
           model := s!"{show01 meq} {show01 meq}" }
  | _, _ => none)

end Otel.C19.Drv

def main : IO Unit := Wire.run () Otel.C19.Drv.stepLine
