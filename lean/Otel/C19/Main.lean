/-
C19 driver: one self-contained case per line.

  schemaless <gen> <kvs>                 => <kvs>
  merge   <gen> <A> <B>                  => <res> <err>
  merge3  <gen> <A> <B> <C>              => <(AB)C> <errAB> <err(AB)C> <A(BC)> <errBC> <errA(BC)>
  env     <gen> x<OTEL_RESOURCE_ATTRIBUTES> x<OTEL_SERVICE_NAME> => <res> <err> <otel.Handle calls>
  envrt   <gen> <hexkey=hexvalue;…|-> x<the pairs rendered as k=%XX…,k=…> => <res> <err> <otel.Handle calls>
  detect  <gen> x<initial schema> <det>… => <res> <err>
  requal  <gen> <A> <B>                  => <A.Equal(B)> <B's Equivalent() found in map{A}>
  racc    <gen> <A> <B>                  => <A.Attributes()> x<A.SchemaURL()> <A.Len()> <steps of A.Iter()> x<A.String()> x<A.Encoded(DefaultEncoder())> <A.Equal(B)> <B.Equal(A)>
          (A, B also `empty` = resource.Empty(); values restricted to STRING/BOOL/INT64 so that Value.Emit is modelled)
  default <gen> x<ATTRS at 1st call> x<SVC at 1st call> x<ATTRS at 2nd call> x<SVC at 2nd call> <det: defaultServiceNameDetector> <det: telemetrySDK>
                                         => <Default() #1> <otel.Handle calls #1> <Default() #2> <otel.Handle calls #2> <same pointer>
  new     <gen> x<OTEL_RESOURCE_ATTRIBUTES> x<OTEL_SERVICE_NAME> <opt>… => <res> <err>     (resource.New(ctx, opts…))
          opt = sch:x<schema> | attrs:<kvs> | env | tsdk:<resource the telemetrySDK detector returns> |
                bi:<Host|HostID|TelemetrySDK|OS|OSType|…|Process|ProcessPID|…|Container|ContainerID>:<builtin detector>/<det>;… (the
                built-in option of that name; what each of its detectors returns in this process is an input) |
                dets:<d>;<d>;… with d = nild | <P|S|F><id>/<det> (P pointer, S comparable struct, F
                non-comparable detector; the same kind+id is the SAME detector value given again)

resource = nil | <kvs>@x<schemahex> (inputs: the attribute list handed to NewWithAttributes; outputs:
Attributes() and SchemaURL()); kvs as in the C05 driver; err = ok | err:<p?><c?> (p: errors.Is
ErrPartialResource, c: errors.Is ErrSchemaURLConflict); det = nild | <ok|p|f|c|pc>:<resource> |
sd:x<schema>:x<key>:<x<value>|err> (StringDetector(schema, key, f) with f returning the value / an error).
An observed part `UNSTABLE:…` (an operand or result read differently after the argument table was
overwritten and later calls were made) is unparsable on purpose: the runner reports it.
-/
import Otel.C05.Drv
import Otel.C19.Spec
open Otel Otel.Wire Otel.C05 Otel.C05.Drv Otel.C19

namespace Otel.C19.Drv

/-- a resource token as *input*: the arguments of NewWithAttributes -/
def parseResArgs (s : String) : Option (Option (List KV × Bytes)) :=
  if s = "nil" then some none
  else match s.splitOn "@" with
    | [k, sc] => do
      let kvs ← parseKVs k
      let sch ← parseHex sc
      pure (some (kvs, sch))
    | _ => none

def showRes (r : Res) : String := s!"{showKVs r.attrs}@{hexOf r.schema}"

def parseErr (s : String) : Option (Option Err) :=
  if s = "ok" then some none
  else match s.splitOn ":" with
    | ["err", fl] => some (some ⟨fl.toList.contains 'p', fl.toList.contains 'c'⟩)
    | _ => none

def showErr : Option Err → String
  | none => "ok"
  | some e => "err:" ++ (if e.isPartial then "p" else "") ++ (if e.isConflict then "c" else "")

def conflictErr (b : Bool) : Option Err := if b then some ⟨false, true⟩ else none

/-- model resource / reference resource built from NewWithAttributes arguments -/
def mkModel (a : Option (List KV × Bytes)) : Option Res := a.map (fun p => newWithAttributes p.2 p.1)
def mkRef (a : Option (List KV × Bytes)) : Option Res := a.map (fun p => ⟨Spec.contents p.1, p.2⟩)

def parseDet (s : String) : Option (Option (Option Err × Option (List KV × Bytes))) :=
  if s = "nild" then some none
  else match s.splitOn ":" with
    | [cls, r] => do
      let e ← (match cls with
        | "ok" => some none
        | "p" => some (some (⟨true, false⟩ : Err))
        | "f" => some (some ⟨false, false⟩)
        | "c" => some (some ⟨false, true⟩)
        | "pc" => some (some ⟨true, true⟩)
        | _ => none)
      let ra ← parseResArgs r
      pure (some (e, ra))
    | _ => none

def parseBDet : String → Option BDet
  | "host" => some .host | "hostID" => some .hostID | "telemetrySDK" => some .telemetrySDK
  | "osType" => some .osType | "osDescription" => some .osDescription
  | "processPID" => some .processPID | "processExecutableName" => some .processExecutableName
  | "processExecutablePath" => some .processExecutablePath | "processCommandArgs" => some .processCommandArgs
  | "processOwner" => some .processOwner | "processRuntimeName" => some .processRuntimeName
  | "processRuntimeVersion" => some .processRuntimeVersion
  | "processRuntimeDescription" => some .processRuntimeDescription
  | "containerID" => some .containerID | "defaultServiceName" => some .defaultServiceName
  | _ => none

def parseBOpt : String → Option BOpt
  | "Host" => some .host | "HostID" => some .hostID | "TelemetrySDK" => some .telemetrySDK
  | "OS" => some .os | "OSType" => some .osType | "OSDescription" => some .osDescription
  | "Process" => some .process | "ProcessPID" => some .processPID
  | "ProcessExecutableName" => some .processExecutableName | "ProcessExecutablePath" => some .processExecutablePath
  | "ProcessCommandArgs" => some .processCommandArgs | "ProcessOwner" => some .processOwner
  | "ProcessRuntimeName" => some .processRuntimeName | "ProcessRuntimeVersion" => some .processRuntimeVersion
  | "ProcessRuntimeDescription" => some .processRuntimeDescription
  | "Container" => some .container | "ContainerID" => some .containerID
  | _ => none

/-- a detector token ↦ (what the model says it returns, what the reference says): scripted
detectors, or `sd:x<schema>:x<key>:<x<value>|err>` = `StringDetector(schema, key, f)` -/
def parseDet2 (s : String) : Option (Option DetOut × Option DetOut) :=
  match s.splitOn ":" with
  | ["sd", sc, k, f] => do
    let sch ← parseHex sc
    let key ← parseHex k
    let fv ← (if f = "err" then some none else (parseHex f).map some)
    pure (some (stringDetector sch key fv), some (Spec.stringDetRef sch key fv))
  | _ => (parseDet s).map (fun d => (d.map (fun p => ⟨mkModel p.2, p.1⟩), d.map (fun p => ⟨mkRef p.2, p.1⟩)))

/-- `bi:<Option>:<det>/<what it returned>;…` ↦ the option and the built-in detectors' outputs (model, reference).
The detectors listed must be exactly the ones the model says the option stands for. -/
def parseBuiltin (s : String) : Option (BOpt × List (BDet × DetOut × DetOut)) :=
  match s.splitOn ":" with
  | "bi" :: name :: rest => do
    let o ← parseBOpt name
    let body := ":".intercalate rest
    let ents ← (body.splitOn ";").mapM (fun t => match t.splitOn "/" with
      | [dn, d] => do
        let bd ← parseBDet dn
        let dd ← parseDet2 d
        let m ← dd.1
        let r ← dd.2
        pure (bd, m, r)
      | _ => none)
    if ents.map (·.1) == builtinDetectors o then pure (o, ents) else none
  | _ => none

def envOf (ae se : Bytes) (tbl : List (BDet × DetOut)) : Env :=
  { attrs := ae, svc := se, builtin := fun d => ((tbl.find? (fun p => p.1 == d)).map (·.2)).getD ⟨none, none⟩ }

/-- rest of a token after its first `:` -/
def afterColon (s : String) : String := ":".intercalate ((s.splitOn ":").drop 1)

def toDetOut (mk : Option (List KV × Bytes) → Option Res)
    (d : Option (Option Err × Option (List KV × Bytes))) : Option DetOut :=
  d.map (fun p => ⟨mk p.2, p.1⟩)

/-- an option token ↦ (model option, reference option) -/
def parseOpt (s : String) : Option (Opt × Opt) :=
  if s = "env" then some (.withFromEnv, .withFromEnv)
  else match (s.splitOn ":").head? with
    | some "sch" => (parseHex (afterColon s)).map (fun b => (.withSchemaURL b, .withSchemaURL b))
    | some "attrs" => (parseKVs (afterColon s)).map (fun k => (.withAttributes k, .withAttributes k))
    | some "tsdk" => do
      let ra ← parseResArgs (afterColon s)
      pure (.withDetectors [some ⟨mkModel ra, none⟩], .withDetectors [some ⟨mkRef ra, none⟩])
    | some "bi" => (parseBuiltin s).map (fun p => (.withBuiltin p.1, .withBuiltin p.1))
    | some "dets" => do
      let body := afterColon s
      let toks := if body = "" then [] else body.splitOn ";"
      let ds ← toks.mapM (fun t =>
        if t = "nild" then parseDet2 t
        else match t.splitOn "/" with
          | [_, d] => parseDet2 d
          | _ => none)
      pure (.withDetectors (ds.map (·.1)), .withDetectors (ds.map (·.2)))
    | _ => none

/-- identity of the detectors on a `new` line (kind+id, `env`, `tsdk`), in option order -/
def detIds (optToks : List String) : List String :=
  optToks.flatMap (fun s =>
    if s = "env" then ["env"]
    else match (s.splitOn ":").head? with
      | some "tsdk" => ["tsdk"]
      | some "bi" => (((parseBuiltin s).map (fun p => p.2.map (fun e => reprStr e.1))).getD [])
      | some "dets" => ((afterColon s).splitOn ";").filterMap (fun t => (t.splitOn "/").head?.filter (fun h => h != "nild" && h != ""))
      | _ => [])

def stepLine (_ : Unit) (toks : List String) : Unit × Option Verdict :=
  let (inp, obs) := splitObs toks
  ((), match inp, obs with
  | ["schemaless", _, kS], [oS] => do
    let kvs ← parseKVs kS
    let o ← parseKVs oS
    let m := (newSchemaless kvs).attrs
    let br := tags [(kvs.isEmpty, "empty"), (!kvs.isEmpty && m.isEmpty, "allinvalid"),
      (kvs.any (fun kv => !valid kv), "hasinvalid"), (hasDupKey kvs, "dup")]
    pure { agree := m == o, spec := okFail (o == Spec.contents kvs), nontrivial := kvs.length ≥ 2, branches := br,
           model := showKVs m }
  | ["merge", _, aS, bS], [rS, eS] => do
    let a ← parseResArgs aS
    let b ← parseResArgs bS
    let ro ← parseResArgs rS
    let (okvs, osch) ← ro
    let eo ← parseErr eS
    let m := merge (mkModel a) (mkModel b)
    let obsRes : Res := ⟨okvs, osch⟩
    let spec := Spec.resMergeOK (mkRef a) (mkRef b) obsRes (eo.any (·.isConflict)) && (eo.all (fun e => e == ⟨false, true⟩))
    let br := tags [(a.isNone && b.isNone, "nilnil"), (a.isNone && b.isSome, "nila"), (a.isSome && b.isNone, "nilb"),
      (a.isSome && b.isSome && m.2, "conflict"),
      (a.any (fun x => x.2.isEmpty) && b.isSome, "aschema-empty"), (b.any (fun x => x.2.isEmpty) && a.isSome, "bschema-empty"),
      ((mkModel a).any (fun x => (mkModel b).any (fun y => x.attrs.any (fun p => y.attrs.any (fun q => p.key == q.key)))), "shared")]
    pure { agree := m.1 == obsRes && conflictErr m.2 == eo, spec := okFail spec,
           nontrivial := a.isSome && b.isSome, branches := br, model := s!"{showRes m.1} {showErr (conflictErr m.2)}" }
  | ["merge3", _, aS, bS, cS], [lS, e1S, e2S, rS, e3S, e4S] => do
    let a ← parseResArgs aS
    let b ← parseResArgs bS
    let c ← parseResArgs cS
    let lo ← parseResArgs lS
    let (lkvs, lsch) ← lo
    let ro ← parseResArgs rS
    let (rkvs, rsch) ← ro
    let e1 ← parseErr e1S
    let e2 ← parseErr e2S
    let e3 ← parseErr e3S
    let e4 ← parseErr e4S
    let mab := merge (mkModel a) (mkModel b)
    let ml := merge (some mab.1) (mkModel c)
    let mbc := merge (mkModel b) (mkModel c)
    let mr := merge (mkModel a) (some mbc.1)
    let agree := ml.1 == ⟨lkvs, lsch⟩ && mr.1 == ⟨rkvs, rsch⟩ && conflictErr mab.2 == e1 && conflictErr ml.2 == e2
      && conflictErr mbc.2 == e3 && conflictErr mr.2 == e4
    -- associativity on attributes: two calls of the real code compared with each other, and with the reference union
    let all3 := [a, b, c].filterMap mkRef
    let spec := lkvs == rkvs && lkvs == Spec.contents (all3.flatMap (·.attrs))
    let br := tags [(mab.2 || ml.2, "conflictL"), (mbc.2 || mr.2, "conflictR"), (lsch != rsch, "schema-differs"),
      (a.isNone || b.isNone || c.isNone, "somenil")]
    pure { agree, spec := okFail spec, nontrivial := all3.length == 3, branches := br,
           model := s!"{showRes ml.1} {showRes mr.1}" }
  | ["env", _, aS, sS], [rS, eS, hS] => do
    let ae ← parseHex aS
    let se ← parseHex sS
    let ro ← parseResArgs rS
    let (okvs, osch) ← ro
    let eo ← parseErr eS
    let h ← hS.toNat?
    let m := fromEnv ae se
    let ref := Spec.envRef ae se
    let spec := okvs == ref.1 && osch.isEmpty && eo == (if ref.2 then some ⟨true, false⟩ else none)
    let svc := !(trimSpace se).isEmpty
    let br := tags [((trimSpace ae).isEmpty && !svc, "bothempty"), (svc, "svc"), (ref.2, "missing-eq"), (m.2.2 > 0, "badescape"),
      (ae.contains 0x25 && m.2.2 == 0, "unescaped"), (trimSpace ae != ae, "outer-trim"),
      (svc && (Spec.envPairs ae).1.any (fun kv => kv.key == serviceNameKey), "svc-override")]
    pure { agree := m.1 == ⟨okvs, osch⟩ && m.2.1 == eo && m.2.2 == h, spec := okFail spec,
           nontrivial := !(trimSpace ae).isEmpty, branches := br, model := s!"{showRes m.1} {showErr m.2.1} {m.2.2}" }
  | ["envrt", _, psS, sS], [rS, eS, hS] => do
    let ps ← (if psS = "-" then some [] else (psS.splitOn ";").mapM (fun t => match t.splitOn "=" with
      | [k, v] => do
        let kb ← parseBytes k
        let vb ← parseBytes v
        pure (kb, vb)
      | _ => none))
    let env ← parseHex sS
    let ro ← parseResArgs rS
    let (okvs, osch) ← ro
    let eo ← parseErr eS
    let h ← hS.toNat?
    -- the harness' serialiser is the Spec's
    if env != Spec.renderEnv ps then none
    let m := fromEnv env []
    let allOK := ps.all (fun p => Spec.keyOK p.1)
    -- env_roundtrip_iff / env_roundtrip_general evaluated on the implementation's result
    let spec :=
      if allOK then okvs == Spec.contents (ps.map (fun p => ⟨p.1, .str p.2⟩)) && osch.isEmpty && eo.isNone && h == 0
      else okvs == (Spec.envRef env []).1 && osch.isEmpty
    -- env_keys_wellformed on the implementation's result: whatever came back has well-formed keys
    let spec := spec && okvs.all (fun kv => Spec.keyOK kv.key)
    let br := tags [(allOK, "keys-ok"), (!allOK, "key-not-ok"), (ps.isEmpty, "empty"),
      (ps.any (fun p => p.1.isEmpty), "empty-key"), (ps.any (fun p => p.1.any (fun b => b.toNat ≥ 0x80)), "non-ascii-key"),
      (ps.any (fun p => !Spec.keyOK p.1 && !p.1.contains 0x2C && !p.1.contains 0x3D), "key-trimmed"),
      (ps.any (fun p => p.1.contains 0x2C || p.1.contains 0x3D), "key-with-separator")]
    pure { agree := m.1 == ⟨okvs, osch⟩ && m.2.1 == eo && m.2.2 == h, spec := okFail spec,
           nontrivial := !ps.isEmpty, branches := br, model := s!"{showRes m.1} {showErr m.2.1} {m.2.2}" }
  | "detect" :: _ :: iS :: dS, [rS, eS] => do
    let init ← parseHex iS
    let ds ← dS.mapM parseDet2
    let ro ← parseResArgs rS
    let (okvs, osch) ← ro
    let eo ← parseErr eS
    let mds : List (Option DetOut) := ds.map (·.1)
    let rds : List (Option DetOut) := ds.map (·.2)
    let m := detect init mds
    let ref := Spec.detectRef init rds
    let errOf (st : DetState) : Option Err := if st.anyErr then some ⟨st.partialSeen, st.conflictSeen⟩ else none
    -- the loop as a left fold of Merge (detect_is_merge_fold), evaluated on the reference operands
    let fold := Spec.mergeFold (⟨[], init⟩, false) (rds.filterMap Spec.mergedArg)
    let spec := ref.res == ⟨okvs, osch⟩ && errOf ref == eo && fold.1.attrs == okvs
    let br := tags [(mds.any (·.isNone), "nildet"), (mds.any (fun d => d.any (fun p => p.res.isNone)), "nilres"),
      (mds.any (fun d => d.any (fun p => p.err.any (fun e => !e.isPartial))), "fatal"),
      (mds.any (fun d => d.any (fun p => p.err.any (fun e => e.isPartial))), "partial"),
      (dS.any (fun t => t.startsWith "sd:"), "stringdetector"),
      (mds.any (fun d => d.any (fun p => p.res.any (fun r => r.attrs.isEmpty && !r.schema.isEmpty))), "schema-only"),
      (m.conflictSeen, "conflict"), (m.anyErr, "err"), (!m.anyErr, "noerr")]
    pure { agree := m.res == ⟨okvs, osch⟩ && errOf m == eo, spec := okFail spec, nontrivial := ds.length ≥ 2,
           branches := br, model := s!"{showRes m.res} {showErr (errOf m)}" }
  | "new" :: _ :: aS :: sS :: optS, [rS, eS] => do
    let ae ← parseHex aS
    let se ← parseHex sS
    let opts ← optS.mapM parseOpt
    let ro ← parseResArgs rS
    let (okvs, osch) ← ro
    let eo ← parseErr eS
    let bis := (optS.filterMap parseBuiltin).flatMap (·.2)
    let m := newResource (envOf ae se (bis.map (fun e => (e.1, e.2.1)))) (opts.map (·.1))
    let ref := Spec.newRef (envOf ae se (bis.map (fun e => (e.1, e.2.2)))) (opts.map (·.2))
    let errOf (st : DetState) : Option Err := if st.anyErr then some ⟨st.partialSeen, st.conflictSeen⟩ else none
    let spec := ref.res == ⟨okvs, osch⟩ && errOf ref == eo
    let ids := detIds optS
    let schemas := (optS.filter (fun t => t.startsWith "sch:")).length
    let br := tags [(ids.eraseDups.length != ids.length, "repeated-detector"), (optS.contains "env", "env"),
      (optS.any (fun t => t.startsWith "attrs:"), "attrs"), (optS.any (fun t => t.startsWith "tsdk:"), "tsdk"),
      (optS.any (fun t => t.startsWith "bi:"), "builtin"),
      ((optS.filterMap parseBuiltin).any (fun p => decide (p.2.length ≥ 2)), "builtin-composite"),
      (optS.any (fun t => (t.splitOn "/sd:").length ≥ 2), "stringdetector"),
      (decide (schemas ≥ 1), "schema"), (decide (schemas ≥ 2), "schema-twice"), (m.conflictSeen, "conflict"),
      (m.anyErr, "err"), (!m.anyErr, "noerr"), (optS.isEmpty, "noopts")]
    pure { agree := m.res == ⟨okvs, osch⟩ && errOf m == eo, spec := okFail spec,
           nontrivial := decide (optS.length ≥ 2) || decide (ids.length ≥ 2),
           branches := br, model := s!"{showRes m.res} {showErr (errOf m)}" }
  | ["default", _, a1S, s1S, a2S, s2S, svS, tsS], [r1S, h1S, r2S, h2S, sameS] => do
    let a1 ← parseHex a1S
    let s1 ← parseHex s1S
    let a2 ← parseHex a2S
    let s2 ← parseHex s2S
    let sv ← parseDet2 svS
    let ts ← parseDet2 tsS
    let svM ← sv.1
    let svR ← sv.2
    let tsM ← ts.1
    let tsR ← ts.2
    let ro1 ← parseResArgs r1S
    let (k1, sc1) ← ro1
    let ro2 ← parseResArgs r2S
    let (k2, sc2) ← ro2
    let h1 ← h1S.toNat?
    let h2 ← h2S.toNat?
    let same ← b01 sameS
    let tblM := [(BDet.defaultServiceName, svM), (BDet.telemetrySDK, tsM)]
    let tblR := [(BDet.defaultServiceName, svR), (BDet.telemetrySDK, tsR)]
    let e1M := envOf a1 s1 tblM
    let e2M := envOf a2 s2 tblM
    let e1R := envOf a1 s1 tblR
    let e2R := envOf a2 s2 tblR
    let c1 := defaultCall none e1M
    let c2 := defaultCall c1.2.2 e2M
    let o1 : Res := ⟨k1, sc1⟩
    let o2 : Res := ⟨k2, sc2⟩
    let ref := Spec.defaultRef e1R
    let spec := Spec.defaultSeqOK [e1R, e2R] [o1, o2] && same &&
      h1 == (fromEnv a1 s1).2.2 + (if ref.anyErr then 1 else 0) && h2 == 0
    let br := tags [(ref.anyErr, "err"), (!ref.anyErr, "noerr"), (!(trimSpace s1).isEmpty, "svc"),
      (a1 != a2 || s1 != s2, "env-changed"), ((Spec.detectRef [] [Spec.envDetRef e2R]).res != (Spec.detectRef [] [Spec.envDetRef e1R]).res, "env-differs"),
      ((Spec.envPairs a1).1.any (fun kv => tsR.res.any (fun r => r.attrs.any (fun x => x.key == kv.key))), "env-vs-sdk")]
    pure { agree := c1.1 == o1 && c2.1 == o2 && c1.2.1 == h1 && c2.2.1 == h2 && same, spec := okFail spec,
           nontrivial := !(trimSpace a1).isEmpty || !(trimSpace s1).isEmpty, branches := br,
           model := s!"{showRes c1.1} {c1.2.1} {showRes c2.1} {c2.2.1} 1" }
  | ["racc", _, aS, bS], [atS, schS, lenS, itS, strS, encS, eqS, eqrS] => do
    let parseR (t : String) : Option (Option (List KV × Bytes)) := if t = "empty" then some (some ([], [])) else parseResArgs t
    let a ← parseR aS
    let b ← parseR bS
    let oat ← parseKVs atS
    let osch ← parseHex schS
    let olen ← lenS.toNat?
    let oit ← itS.toNat?
    let ostr ← parseHex strS
    let oenc ← parseHex encS
    let oeq ← b01 eqS
    let oeqr ← b01 eqrS
    let ma := mkModel a
    let mb := mkModel b
    let emitK : Value → Bytes := fun v => (emitKnown v).getD []
    let agree := resAttributes ma == oat && resSchemaURL ma == osch && resLen ma == olen && resLen ma == oit &&
      resString emitK ma == ostr && resString emitK ma == oenc && resEqual ma mb == oeq && resEqual mb ma == oeqr
    let ra := (mkRef a).map (·.attrs) |>.getD []
    let rb := (mkRef b).map (·.attrs) |>.getD []
    let same := C05.Spec.sameMapping goEq ra rb
    let spec := oat == ra && osch == ((a.map (·.2)).getD []) && olen == ra.length && oit == ra.length &&
      ostr == C05.Spec.encodeRef emitK ra && oenc == ostr && oeq == same && oeqr == same
    let br := tags [(a.isNone, "nil"), (aS == "empty", "Empty()"), (a.isSome && ra.isEmpty, "no-attrs"), (b.isNone, "other-nil"),
      (oeq, "eq"), (!oeq, "neq")]
    pure { agree, spec := okFail spec, nontrivial := a.isNone || ra.isEmpty, branches := br,
           model := s!"{showKVs (resAttributes ma)} x{hexOf (resSchemaURL ma)} {resLen ma} {resLen ma} x{hexOf (resString emitK ma)} x{hexOf (resString emitK ma)} {show01 (resEqual ma mb)} {show01 (resEqual mb ma)}" }
  | ["requal", _, aS, bS], [eqS, fS] => do
    let a ← parseResArgs aS
    let b ← parseResArgs bS
    let oeq ← b01 eqS
    let of ← b01 fS
    let attrsOf (r : Option Res) : List KV := (r.map (·.attrs)).getD []
    let ma := attrsOf (mkModel a)
    let mb := attrsOf (mkModel b)
    let meq := equal ma mb
    let sa := attrsOf (mkRef a)
    let sb := attrsOf (mkRef b)
    let same := C05.Spec.sameMapping goEq sa sb
    -- equal resources have equal map identities: Equal and the map lookup must say the same thing
    let spec :=
      if oeq != of || oeq != same then "FAIL"
      else if sa == sb && !oeq then (if F9_applies sa then "KNOWN:F9" else "FAIL")
      else "ok"
    let br := tags [(meq, "eq"), (!meq, "neq"), (a.isNone || b.isNone, "nil"), (F9_applies ma || F9_applies mb, "nan")]
    pure { agree := meq == oeq && meq == of, spec, nontrivial := !ma.isEmpty && !mb.isEmpty, branches := br,
           model := s!"{show01 meq} {show01 meq}" }
  | _, _ => none)

end Otel.C19.Drv

def main : IO Unit := Wire.run () Otel.C19.Drv.stepLine
