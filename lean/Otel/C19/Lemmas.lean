/-
C19 — helper lemmas (core Lean only), on top of C05's lemmas about attribute sets.
-/
import Otel.C05.Props
import Otel.C19.Spec
namespace Otel
namespace C19
open Otel.C05 Otel.C05.Spec Otel.C19.Spec

/-- well-formed resource contents: strictly sorted, valid items only -/
def WF (l : List KV) : Prop := SSorted l ∧ ∀ x ∈ l, valid x = true

theorem wf_iff (l : List KV) : wf l = true ↔ WF l := by
  simp [wf, WF, strictSorted_iff, List.all_eq_true]

theorem wf_nil : WF [] := ⟨by simp [SSorted], by simp⟩

theorem contents_wf (l : List KV) : WF (contents l) :=
  ⟨(canon_ssorted l).filter valid, fun _ hx => (List.mem_filter.mp hx).2⟩

theorem contents_of_wf {l : List KV} (h : WF l) : contents l = l := by
  unfold contents
  rw [canon_of_ssorted h.1]
  exact List.filter_eq_self.mpr h.2

/-- the valid-binding guard: a binding survives iff the item is valid -/
def guard (k : Bytes) (o : Option Value) : Option Value :=
  o.bind (fun v => if valid ⟨k, v⟩ then some v else none)

theorem lookup_filter_ssorted {s : List KV} (hs : SSorted s) (p : KV → Bool) (k : Bytes) :
    lookup (s.filter p) k = (lookup s k).bind (fun v => if p ⟨k, v⟩ then some v else none) := by
  induction s with
  | nil => rfl
  | cons x xs ih =>
    rw [List.filter_cons, lookup_cons]
    by_cases hk : x.key = k
    · have hx : (⟨k, x.val⟩ : KV) = x := by cases x; simp_all
      by_cases hp : p x
      · simp [hp, hk, lookup_cons, hx]
      · have hnone : lookup (xs.filter p) k = none := by
          apply lookup_eq_none
          intro z hz e
          have := bLt_ne (hs.head_lt z (List.mem_filter.mp hz).1)
          exact this (hk.trans e.symm)
        simp [hp, hk, hx, hnone]
    · by_cases hp : p x
      · simp [hp, hk, lookup_cons, ih hs.tail]
      · simp [hp, hk, ih hs.tail]

theorem lookup_contents (l : List KV) (k : Bytes) : lookup (contents l) k = guard k (lookupLast l k) := by
  unfold contents guard
  rw [lookup_filter_ssorted (canon_ssorted l), lookup_canon]

theorem mem_of_lookupLast {l : List KV} {k : Bytes} {v : Value} (h : lookupLast l k = some v) : (⟨k, v⟩ : KV) ∈ l := by
  obtain ⟨x, hx, h1, h2⟩ := lookup_isSome h
  have : x = ⟨k, v⟩ := by cases x; simp_all
  rw [← this]; exact List.mem_reverse.mp hx

/-- appending valid items: the later list wins, nothing else changes -/
theorem lookup_contents_append {l1 l2 : List KV} (h2 : ∀ x ∈ l2, valid x = true) (k : Bytes) :
    lookup (contents (l1 ++ l2)) k = (lookup (contents l2) k).or (lookup (contents l1) k) := by
  rw [lookup_contents, lookup_contents, lookup_contents, lookupLast_append]
  cases h : lookupLast l2 k with
  | none => simp [guard]
  | some v =>
    have := h2 _ (mem_of_lookupLast h)
    simp [guard, this]

theorem newSchemaless_attrs (l : List KV) : (newSchemaless l).attrs = contents l := by
  have hok := newSetWithFiltered_ok l (some valid)
  simp only [newSetOK, keepOf, Option.getD_some, Bool.and_eq_true, beq_iff_eq] at hok
  have hset := hok.1.1.1.2
  unfold newSchemaless
  by_cases h0 : l.length = 0
  · have : l = [] := List.eq_nil_of_length_eq_zero h0
    subst this
    simp [Res.empty, contents, canon]
  · simp only [h0, if_false]
    by_cases h1 : (newSetWithFiltered l (some valid)).set.length = 0
    · simp only [h1, if_true, Res.empty]
      unfold contents
      rw [← hset]
      exact (List.eq_nil_of_length_eq_zero h1).symm
    · simp only [h1, if_false]
      exact hset

theorem newSchemaless_schema (l : List KV) : (newSchemaless l).schema = [] := by
  unfold newSchemaless
  split
  · rfl
  · simp only; split <;> rfl

theorem newWithAttributes_eq (s : Bytes) (l : List KV) : newWithAttributes s l = ⟨contents l, s⟩ := by
  simp [newWithAttributes, newSchemaless_attrs]

theorem mergeIter_wf {a b : List KV} (ha : WF a) (hb : WF b) :
    WF (mergeIter b a) ∧ ∀ k, lookup (mergeIter b a) k = (lookup b k).or (lookup a k) := by
  have h := mergeAux_spec (b.length + a.length + 1) b a (by omega) hb.1 ha.1
  refine ⟨⟨h.1, fun x hx => ?_⟩, h.2⟩
  rcases mem_mergeAux hx with hx | hx
  · exact hb.2 x hx
  · exact ha.2 x hx

/-- `Merge` of two non-nil resources, computed -/
theorem merge_some_some (a b : Res) (ha : WF a.attrs) (hb : WF b.attrs) :
    merge (some a) (some b) =
      (⟨mergeIter b.attrs a.attrs, (schemaRef a.schema b.schema).1⟩, (schemaRef a.schema b.schema).2) := by
  have hc := contents_of_wf (mergeIter_wf ha hb).1
  unfold merge schemaRef
  simp only [newWithAttributes_eq, hc, List.length_eq_zero_iff]
  by_cases h1 : a.schema = []
  · simp [h1]
  · by_cases h2 : b.schema = []
    · simp [h1, h2]
    · by_cases h3 : a.schema = b.schema
      · simp [h2, h3]
      · simp only [h1, h2, h3, if_false]
        have : newSchemaless (mergeIter b.attrs a.attrs) = ⟨mergeIter b.attrs a.attrs, []⟩ := by
          have h1 := newSchemaless_attrs (mergeIter b.attrs a.attrs)
          have h2 := newSchemaless_schema (mergeIter b.attrs a.attrs)
          rw [hc] at h1
          cases hh : newSchemaless (mergeIter b.attrs a.attrs)
          simp_all
        rw [this]

theorem newSchemaless_eq (l : List KV) : newSchemaless l = ⟨contents l, []⟩ := by
  have h1 := newSchemaless_attrs l
  have h2 := newSchemaless_schema l
  cases h : newSchemaless l
  simp_all

/-! ### the environment detector -/

theorem parsePairs_spec (ps : List Bytes) (acc : PairsOut) :
    (parsePairs ps acc).attrs = acc.attrs ++ ps.filterMap pairKV ∧
    (parsePairs ps acc).invalid = acc.invalid + (ps.filter (fun p => (cut 0x3D p).isNone)).length := by
  induction ps generalizing acc with
  | nil => simp [parsePairs]
  | cons p ps ih =>
    unfold parsePairs
    cases hc : cut 0x3D p with
    | none =>
      simp only
      obtain ⟨h1, h2⟩ := ih { acc with invalid := acc.invalid + 1 }
      rw [h1, h2]
      simp [pairKV, hc]
      omega
    | some kv =>
      obtain ⟨k, v⟩ := kv
      simp only
      cases hu : pathUnescape (trimSpace v) with
      | some val =>
        simp only
        obtain ⟨h1, h2⟩ := ih { acc with attrs := acc.attrs ++ [⟨trimSpace k, .str val⟩] }
        rw [h1, h2]
        simp [pairKV, hc, hu]
      | none =>
        simp only
        obtain ⟨h1, h2⟩ := ih { acc with attrs := acc.attrs ++ [⟨trimSpace k, .str v⟩], handled := acc.handled + 1 }
        rw [h1, h2]
        simp [pairKV, hc, hu]

theorem filter_length_pos {α : Type} (p : α → Bool) (l : List α) :
    decide ((l.filter p).length > 0) = l.any p := by
  induction l with
  | nil => rfl
  | cons x xs ih =>
    rw [List.filter_cons, List.any_cons]
    cases hp : p x
    · simpa using ih
    · simp

theorem constructOT_spec (s : Bytes) :
    (constructOT s).1 = ⟨contents (pairsOf s).1, []⟩ ∧ (constructOT s).2.1 = (pairsOf s).2 := by
  unfold constructOT pairsOf
  by_cases h0 : s.length = 0
  · have : s = [] := List.eq_nil_of_length_eq_zero h0
    subst this
    simp [Res.empty, contents, canon]
  · have hne : s ≠ [] := fun e => h0 (by simp [e])
    simp only [h0, hne, if_false]
    obtain ⟨h1, h2⟩ := parsePairs_spec (splitOn 0x2C s) {}
    rw [newSchemaless_eq, h1, h2]
    refine ⟨by simp, ?_⟩
    simpa using filter_length_pos (fun p => (cut 0x3D p).isNone) (splitOn 0x2C s)

theorem valid_serviceName (v : Bytes) : valid ⟨serviceNameKey, .str v⟩ = true := by
  simp [valid, serviceNameKey]

/-! ### Detect -/

theorem foldl_schemaStep_flag (l : List Res) (s : Bytes) (f : Bool) :
    l.foldl schemaStep (s, f) = ((l.foldl schemaStep (s, false)).1, f || (l.foldl schemaStep (s, false)).2) := by
  induction l generalizing s f with
  | nil => simp
  | cons r rs ih =>
    simp only [List.foldl_cons, schemaStep]
    rw [ih _ (f || _), ih _ (false || _)]
    simp [Bool.or_assoc]

/-- what one detector contributes: its error (if any) and the resource that gets merged (if any) -/
def stepRef (st : DetState) (d : Option DetOut) : DetState :=
  let stE := match detErr d with
    | some e => joinErr st e
    | none => st
  match keptRes d with
  | none => stE
  | some r =>
    let m := schemaRef st.res.schema r.schema
    { (if m.2 then joinErr stE ⟨false, true⟩ else stE) with res := ⟨mergeIter r.attrs st.res.attrs, m.1⟩ }

theorem detectStep_eq (st : DetState) (d : Option DetOut) (hst : WF st.res.attrs)
    (hd : ∀ o, d = some o → ∀ r, o.res = some r → WF r.attrs) : detectStep st d = stepRef st d := by
  cases d with
  | none => rfl
  | some o =>
    obtain ⟨res, err⟩ := o
    cases err with
    | none =>
      cases res with
      | none => simp [detectStep, stepRef, detErr, keptRes, merge]
      | some r =>
        have hr := hd _ rfl r rfl
        simp only [detectStep, stepRef, detErr, keptRes, Option.any_none, Bool.false_eq_true, if_false]
        rw [merge_some_some _ _ hst hr]
    | some e =>
      cases hp : e.isPartial with
      | false => simp [detectStep, stepRef, detErr, keptRes, hp]
      | true =>
        cases res with
        | none => simp [detectStep, stepRef, detErr, keptRes, hp, merge, joinErr]
        | some r =>
          have hr := hd _ rfl r rfl
          simp only [detectStep, stepRef, detErr, keptRes, Option.any_some, hp, Bool.not_true,
            Bool.false_eq_true, if_false]
          have : (joinErr st e).res = st.res := rfl
          rw [this, merge_some_some _ _ hst hr]

theorem stepRef_wf (st : DetState) (d : Option DetOut) (hst : WF st.res.attrs)
    (hd : ∀ o, d = some o → ∀ r, o.res = some r → WF r.attrs) : WF (stepRef st d).res.attrs := by
  unfold stepRef
  cases hk : keptRes d with
  | none => simp only; cases detErr d <;> exact hst
  | some r =>
    have hr : WF r.attrs := by
      cases d with
      | none => simp [keptRes] at hk
      | some o =>
        simp only [keptRes] at hk
        split at hk
        · cases hk
        · exact hd o rfl r hk
    exact (mergeIter_wf hst hr).1

theorem foldl_detectStep (ds : List (Option DetOut)) (st : DetState) (hst : WF st.res.attrs)
    (hds : ∀ d ∈ ds, ∀ o, d = some o → ∀ r, o.res = some r → WF r.attrs) :
    (ds.foldl detectStep st).res.attrs = contents (st.res.attrs ++ (ds.filterMap keptRes).flatMap (·.attrs)) ∧
    (ds.foldl detectStep st).res.schema = ((ds.filterMap keptRes).foldl schemaStep (st.res.schema, false)).1 ∧
    (ds.foldl detectStep st).anyErr = (st.anyErr || !(ds.filterMap detErr).isEmpty ||
      ((ds.filterMap keptRes).foldl schemaStep (st.res.schema, false)).2) ∧
    (ds.foldl detectStep st).partialSeen = (st.partialSeen || (ds.filterMap detErr).any (·.isPartial)) ∧
    (ds.foldl detectStep st).conflictSeen = (st.conflictSeen || (ds.filterMap detErr).any (·.isConflict) ||
      ((ds.filterMap keptRes).foldl schemaStep (st.res.schema, false)).2) := by
  induction ds generalizing st with
  | nil => simp [contents_of_wf hst]
  | cons d ds ih =>
    have hd : ∀ o, d = some o → ∀ r, o.res = some r → WF r.attrs := hds d (by simp)
    have hds' : ∀ d ∈ ds, ∀ o, d = some o → ∀ r, o.res = some r → WF r.attrs :=
      fun d' h' => hds d' (by simp [h'])
    have hvalid : ∀ x ∈ (ds.filterMap keptRes).flatMap (·.attrs), valid x = true := by
      intro x hx
      obtain ⟨r, hr, hxr⟩ := List.mem_flatMap.mp hx
      obtain ⟨d', hd', hk⟩ := List.mem_filterMap.mp hr
      cases d' with
      | none => simp [keptRes] at hk
      | some o =>
        simp only [keptRes] at hk
        split at hk
        · cases hk
        · exact (hds' _ hd' o rfl r hk).2 x hxr
    simp only [List.foldl_cons]
    rw [detectStep_eq st d hst hd]
    obtain ⟨i1, i2, i3, i4, i5⟩ := ih (stepRef st d) (stepRef_wf st d hst hd) hds'
    rw [i1, i2, i3, i4, i5]
    unfold stepRef
    cases hk : keptRes d with
    | none =>
      cases he : detErr d with
      | none => simp [hk, he]
      | some e => simp [hk, he, joinErr, Bool.or_assoc, Bool.or_comm, Bool.or_left_comm]
    | some r =>
      have hr : WF r.attrs := by
        cases d with
        | none => simp [keptRes] at hk
        | some o =>
          simp only [keptRes] at hk
          split at hk
          · cases hk
          · exact hd o rfl r hk
      have hattrs : contents (mergeIter r.attrs st.res.attrs ++ (ds.filterMap keptRes).flatMap (·.attrs)) =
          contents (st.res.attrs ++ (r.attrs ++ (ds.filterMap keptRes).flatMap (·.attrs))) := by
        apply eq_of_lookup_eq (contents_wf _).1 (contents_wf _).1
        intro k
        have hv2 : ∀ x ∈ r.attrs ++ (ds.filterMap keptRes).flatMap (·.attrs), valid x = true := by
          intro x hx
          rcases List.mem_append.mp hx with h | h
          · exact hr.2 x h
          · exact hvalid x h
        rw [lookup_contents_append hvalid, lookup_contents_append hv2, lookup_contents_append hvalid,
          contents_of_wf (mergeIter_wf hst hr).1, (mergeIter_wf hst hr).2 k, contents_of_wf hst, contents_of_wf hr,
          Option.or_assoc]
      have hfold := foldl_schemaStep_flag (ds.filterMap keptRes) (schemaRef st.res.schema r.schema).1 true
      cases he : detErr d with
      | none =>
        cases hc : (schemaRef st.res.schema r.schema).2 <;>
          simp [hk, he, hattrs, schemaStep, hfold, hc, joinErr, Bool.or_assoc, Bool.or_comm, Bool.or_left_comm]
      | some e =>
        cases hc : (schemaRef st.res.schema r.schema).2 <;>
          simp [hk, he, hattrs, schemaStep, hfold, hc, joinErr, Bool.or_assoc, Bool.or_comm, Bool.or_left_comm]

/-! ### round trip: render a list of pairs, parse it back -/

def graphicB (b : UInt8) : Bool := decide (0x21 ≤ b.toNat) && decide (b.toNat ≤ 0x7E)

def tokOK : Bytes → Bool
  | [] => false
  | t0 :: _ => decide (t0.toNat ≥ 0x80)

theorem uniSpaces_ok : uniSpaces.all tokOK = true := by decide
theorem uniSpaces_rev_ok : (uniSpaces.map List.reverse).all tokOK = true := by decide

theorem stripSpace_graphic (toks : List Bytes) (htoks : toks.all tokOK = true) (b : UInt8) (r : Bytes)
    (hb : graphicB b = true) : stripSpace toks (b :: r) = none := by
  simp only [graphicB, Bool.and_eq_true, decide_eq_true_eq] at hb
  have hsp : asciiSpace b = false := by
    simp only [asciiSpace, Bool.or_eq_false_iff, beq_eq_false_iff_ne, ne_eq]
    refine ⟨⟨⟨⟨⟨?_, ?_⟩, ?_⟩, ?_⟩, ?_⟩, ?_⟩ <;> (intro e; rw [e] at hb; simp at hb)
  simp only [stripSpace, hsp, Bool.false_eq_true, if_false]
  apply List.findSome?_eq_none_iff.mpr
  intro t ht
  have hok := List.all_eq_true.mp htoks t ht
  cases t with
  | nil => simp [tokOK] at hok
  | cons t0 tr =>
    simp only [tokOK, decide_eq_true_eq] at hok
    have hne : ¬ t0 = b := by intro e; rw [e] at hok; omega
    simp [List.isPrefixOf, hne]

theorem trimLeftAux_graphic (toks : List Bytes) (htoks : toks.all tokOK = true) (f : Nat) (s : Bytes)
    (hs : ∀ b ∈ s.head?, graphicB b = true) : trimLeftAux toks f s = s := by
  cases f with
  | zero => rfl
  | succ f =>
    cases s with
    | nil => simp [trimLeftAux, stripSpace]
    | cons b r => simp [trimLeftAux, stripSpace_graphic toks htoks b r (hs b (by simp))]

theorem trimSpace_graphic (s : Bytes) (hs : ∀ b ∈ s, graphicB b = true) : trimSpace s = s := by
  unfold trimSpace trimLeft trimRight
  rw [trimLeftAux_graphic uniSpaces uniSpaces_ok _ s (fun b hb => hs b (List.mem_of_mem_head? hb))]
  rw [trimLeftAux_graphic _ uniSpaces_rev_ok _ s.reverse
    (fun b hb => hs b (List.mem_reverse.mp (List.mem_of_mem_head? hb)))]
  exact List.reverse_reverse s

theorem splitOn_no_sep (sep : UInt8) (x : Bytes) (h : ∀ b ∈ x, b ≠ sep) : splitOn sep x = [x] := by
  induction x with
  | nil => rfl
  | cons b r ih =>
    have hb : (b == sep) = false := by simpa using h b (by simp)
    simp [splitOn, hb, ih (fun c hc => h c (by simp [hc]))]

theorem splitOn_append_sep (sep : UInt8) (x r : Bytes) (h : ∀ b ∈ x, b ≠ sep) :
    splitOn sep (x ++ sep :: r) = x :: splitOn sep r := by
  induction x with
  | nil => simp [splitOn]
  | cons b x ih =>
    have hb : (b == sep) = false := by simpa using h b (by simp)
    simp [splitOn, hb, ih (fun c hc => h c (by simp [hc]))]

theorem splitOn_join (sep : UInt8) (xs : List Bytes) (hne : xs ≠ []) (h : ∀ x ∈ xs, ∀ b ∈ x, b ≠ sep) :
    splitOn sep ((xs.intersperse [sep]).flatten) = xs := by
  induction xs with
  | nil => exact absurd rfl hne
  | cons x rest ih =>
    cases rest with
    | nil => simp [splitOn_no_sep sep x (h x (by simp))]
    | cons y ys =>
      rw [List.intersperse_cons_cons, List.flatten_cons, List.flatten_cons]
      simp only [List.singleton_append]
      rw [splitOn_append_sep sep x _ (h x (by simp))]
      rw [ih (by simp) (fun z hz => h z (by simp [hz]))]

theorem cut_append (sep : UInt8) (k v : Bytes) (h : ∀ b ∈ k, b ≠ sep) : cut sep (k ++ sep :: v) = some (k, v) := by
  induction k with
  | nil => simp [cut]
  | cons b k ih =>
    have hb : (b == sep) = false := by simpa using h b (by simp)
    simp [cut, hb, ih (fun c hc => h c (by simp [hc]))]

theorem nibble_ok : ∀ n, n < 16 → isHex (hexDigitU n) = true ∧ unhex (hexDigitU n) = n ∧
    graphicB (hexDigitU n) = true ∧ (hexDigitU n).toNat ≠ 0x2C := by decide

theorem pathUnescape_pctEncode (v : Bytes) : pathUnescape (pctEncode v) = some v := by
  induction v with
  | nil => rfl
  | cons b r ih =>
    have hlt : b.toNat < 256 := UInt8.toNat_lt b
    obtain ⟨h1, h2, _, _⟩ := nibble_ok (b.toNat / 16) (by omega)
    obtain ⟨h3, h4, _, _⟩ := nibble_ok (b.toNat % 16) (by omega)
    have hb : UInt8.ofNat (b.toNat / 16 * 16 + b.toNat % 16) = b := by
      have : b.toNat / 16 * 16 + b.toNat % 16 = b.toNat := by omega
      rw [this]; exact UInt8.ofNat_toNat
    have hcons : pctEncode (b :: r) = 0x25 :: hexDigitU (b.toNat / 16) :: hexDigitU (b.toNat % 16) :: pctEncode r := by
      simp [pctEncode]
    rw [hcons]
    simp only [pathUnescape, beq_self_eq_true, if_true, h1, h3, Bool.and_self, ih, h2, h4, hb]

theorem pctEncode_graphic (v : Bytes) : ∀ b ∈ pctEncode v, graphicB b = true ∧ b ≠ 0x2C := by
  intro b hb
  simp only [pctEncode, List.mem_flatMap] at hb
  obtain ⟨c, _, hbc⟩ := hb
  have hlt : c.toNat < 256 := UInt8.toNat_lt c
  have n1 := nibble_ok (c.toNat / 16) (by omega)
  have n2 := nibble_ok (c.toNat % 16) (by omega)
  simp only [List.mem_cons, List.not_mem_nil, or_false] at hbc
  rcases hbc with e | e | e
  · subst e; decide
  · subst e; exact ⟨n1.2.2.1, fun e => n1.2.2.2 (by rw [e]; rfl)⟩
  · subst e; exact ⟨n2.2.2.1, fun e => n2.2.2.2 (by rw [e]; rfl)⟩

theorem cleanKey_bytes {k : Bytes} (h : cleanKey k = true) :
    k ≠ [] ∧ ∀ b ∈ k, graphicB b = true ∧ b ≠ 0x2C ∧ b ≠ 0x3D := by
  simp only [cleanKey, Bool.and_eq_true, Bool.not_eq_true', List.isEmpty_eq_false_iff, List.all_eq_true] at h
  refine ⟨h.1, fun b hb => ?_⟩
  have := h.2 b hb
  simp only [cleanKeyByte, Bool.and_eq_true, decide_eq_true_eq] at this
  refine ⟨by simp [graphicB, this.1.1.1, this.1.1.2], fun e => this.1.2 (by rw [e]; rfl), fun e => this.2 (by rw [e]; rfl)⟩

theorem pairKV_renderPair (p : Bytes × Bytes) (h : cleanKey p.1 = true) :
    pairKV (renderPair p) = some ⟨p.1, .str p.2⟩ := by
  obtain ⟨_, hk⟩ := cleanKey_bytes h
  unfold pairKV renderPair
  rw [cut_append 0x3D p.1 _ (fun b hb => (hk b hb).2.2)]
  simp only [Option.map_some]
  rw [trimSpace_graphic p.1 (fun b hb => (hk b hb).1),
    trimSpace_graphic (pctEncode p.2) (fun b hb => (pctEncode_graphic p.2 b hb).1),
    pathUnescape_pctEncode]
  rfl

theorem renderPair_bytes (p : Bytes × Bytes) (h : cleanKey p.1 = true) :
    renderPair p ≠ [] ∧ ∀ b ∈ renderPair p, graphicB b = true ∧ b ≠ 0x2C := by
  obtain ⟨hne, hk⟩ := cleanKey_bytes h
  refine ⟨by simp [renderPair], fun b hb => ?_⟩
  simp only [renderPair, List.mem_append, List.mem_cons] at hb
  rcases hb with hb | hb | hb
  · exact ⟨(hk b hb).1, (hk b hb).2.1⟩
  · subst hb; decide
  · exact pctEncode_graphic p.2 b hb

end C19
end Otel
