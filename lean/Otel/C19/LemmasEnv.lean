/-
C19 — lemmas for the exact round-trip theorem of the environment parser: which keys survive
`render → OTEL_RESOURCE_ATTRIBUTES → parse` (Spec.keyOK), and that every parsed key is such a key.
-/
import Otel.C19.Lemmas
namespace Otel.C19
open Otel Otel.C05 Otel.C05.Spec Otel.C19.Spec

/-- white-space tokens are non-empty and consist of bytes ≥ 0x80 (so they contain no `=` `,`) -/
def tokHigh (t : Bytes) : Bool := !t.isEmpty && t.all (fun b => decide (b.toNat ≥ 0x80))
theorem uniSpaces_high : uniSpaces.all tokHigh = true := by decide
theorem uniSpaces_rev_high : (uniSpaces.map List.reverse).all tokHigh = true := by decide

theorem tokHigh_ne_nil {toks : List Bytes} (h : toks.all tokHigh = true) : ∀ t ∈ toks, t ≠ [] := by
  intro t ht e
  have := List.all_eq_true.mp h t ht
  rw [e] at this; simp [tokHigh] at this

theorem isPrefixOf_append_low (t k : Bytes) (c : UInt8) (r : Bytes) (hc : c ∉ t)
    (h : t.isPrefixOf (k ++ c :: r) = true) : t.isPrefixOf k = true := by
  induction t generalizing k with
  | nil => simp [List.isPrefixOf]
  | cons a t' ih =>
    cases k with
    | nil =>
      simp only [List.nil_append, List.isPrefixOf, Bool.and_eq_true, beq_iff_eq] at h
      exact absurd h.1 (fun e => hc (by simp [e]))
    | cons b k' =>
      simp only [List.cons_append, List.isPrefixOf, Bool.and_eq_true, beq_iff_eq] at h ⊢
      exact ⟨h.1, ih k' (fun hm => hc (by simp [hm])) h.2⟩

theorem isPrefixOf_append_right (t z w : Bytes) (h : t.isPrefixOf z = true) : t.isPrefixOf (z ++ w) = true := by
  induction t generalizing z with
  | nil => simp [List.isPrefixOf]
  | cons a t' ih =>
    cases z with
    | nil => simp [List.isPrefixOf] at h
    | cons b z' =>
      simp only [List.cons_append, List.isPrefixOf, Bool.and_eq_true, beq_iff_eq] at h ⊢
      exact ⟨h.1, ih z' h.2⟩

theorem stripSpace_none_iff (toks : List Bytes) (b : UInt8) (r : Bytes) :
    stripSpace toks (b :: r) = none ↔ asciiSpace b = false ∧ ∀ t ∈ toks, t.isPrefixOf (b :: r) = false := by
  unfold stripSpace
  by_cases hb : asciiSpace b = true
  · simp [hb]
  · simp only [hb, Bool.false_eq_true, if_false, List.findSome?_eq_none_iff]
    constructor
    · intro h
      refine ⟨by simpa using hb, fun t ht => ?_⟩
      have := h t ht
      cases hp : t.isPrefixOf (b :: r) with
      | false => rfl
      | true => simp [hp] at this
    · intro h t ht
      simp [h.2 t ht]

theorem stripSpace_lt (toks : List Bytes) (hne : ∀ t ∈ toks, t ≠ []) (s r : Bytes)
    (h : stripSpace toks s = some r) : r.length < s.length ∧ ∃ pre, s = pre ++ r := by
  cases s with
  | nil => simp [stripSpace] at h
  | cons b r0 =>
    unfold stripSpace at h
    by_cases hb : asciiSpace b = true
    · simp only [hb, if_true, Option.some.injEq] at h
      subst h
      exact ⟨by simp, [b], rfl⟩
    · simp only [hb, Bool.false_eq_true, if_false] at h
      obtain ⟨t, ht, hx⟩ := List.exists_of_findSome?_eq_some h
      split at hx
      · simp only [Option.some.injEq] at hx
        subst hx
        have : t.length ≥ 1 := by
          cases t with
          | nil => exact absurd rfl (hne [] ht)
          | cons _ _ => simp
        refine ⟨by simp only [List.length_drop, List.length_cons]; omega, (b :: r0).take t.length, ?_⟩
        exact (List.take_append_drop _ _).symm
      · cases hx

theorem trimLeftAux_suffix (toks : List Bytes) (hne : ∀ t ∈ toks, t ≠ []) (f : Nat) (s : Bytes) :
    (trimLeftAux toks f s).length ≤ s.length ∧ ∃ pre, s = pre ++ trimLeftAux toks f s := by
  induction f generalizing s with
  | zero => exact ⟨Nat.le_refl _, [], rfl⟩
  | succ f ih =>
    unfold trimLeftAux
    cases h : stripSpace toks s with
    | none => exact ⟨Nat.le_refl _, [], rfl⟩
    | some r =>
      obtain ⟨hl, pre, e⟩ := stripSpace_lt toks hne s r h
      obtain ⟨il, pre2, e2⟩ := ih r
      refine ⟨by simp only; omega, pre ++ pre2, ?_⟩
      simp only
      rw [List.append_assoc, ← e2, ← e]

theorem trimLeftAux_of_none (toks : List Bytes) (f : Nat) (s : Bytes) (h : stripSpace toks s = none) :
    trimLeftAux toks f s = s := by
  cases f with
  | zero => rfl
  | succ f => simp [trimLeftAux, h]

/-- the loop reaches a fixpoint when the fuel is the length -/
theorem trimLeftAux_fix (toks : List Bytes) (hne : ∀ t ∈ toks, t ≠ []) (f : Nat) (s : Bytes) (hf : s.length ≤ f) :
    stripSpace toks (trimLeftAux toks f s) = none := by
  induction f generalizing s with
  | zero =>
    have : s = [] := List.eq_nil_of_length_eq_zero (by omega)
    subst this; rfl
  | succ f ih =>
    unfold trimLeftAux
    cases h : stripSpace toks s with
    | none => simpa using h
    | some r =>
      have := (stripSpace_lt toks hne s r h).1
      exact ih r (by omega)

/-- a string the loop leaves unchanged has nothing to strip -/
theorem stripSpace_none_of_fixed (toks : List Bytes) (hne : ∀ t ∈ toks, t ≠ []) (k : Bytes)
    (h : trimLeftAux toks k.length k = k) : stripSpace toks k = none := by
  have := trimLeftAux_fix toks hne k.length k (Nat.le_refl _)
  rwa [h] at this

theorem stripSpace_prefix (toks : List Bytes) (z w : Bytes) (h : stripSpace toks (z ++ w) = none) :
    stripSpace toks z = none := by
  cases z with
  | nil => rfl
  | cons b z' =>
    rw [List.cons_append, stripSpace_none_iff] at h
    rw [stripSpace_none_iff]
    refine ⟨h.1, fun t ht => ?_⟩
    cases hp : t.isPrefixOf (b :: z') with
    | false => rfl
    | true =>
      have := isPrefixOf_append_right t (b :: z') w hp
      rw [List.cons_append, h.2 t ht] at this; cases this

theorem stripSpace_append_low (toks : List Bytes) (hh : toks.all tokHigh = true) (k : Bytes) (hk : k ≠ [])
    (c : UInt8) (hc : c.toNat < 0x80) (r : Bytes) (h : stripSpace toks k = none) :
    stripSpace toks (k ++ c :: r) = none := by
  cases k with
  | nil => exact absurd rfl hk
  | cons b k' =>
    rw [stripSpace_none_iff] at h
    rw [List.cons_append, stripSpace_none_iff]
    refine ⟨h.1, fun t ht => ?_⟩
    cases hp : t.isPrefixOf (b :: (k' ++ c :: r)) with
    | false => rfl
    | true =>
      have hct : c ∉ t := by
        intro hm
        have := List.all_eq_true.mp hh t ht
        simp only [tokHigh, Bool.and_eq_true, List.all_eq_true, decide_eq_true_eq] at this
        have := this.2 c hm
        omega
      have := isPrefixOf_append_low t (b :: k') c r hct (by simpa using hp)
      rw [h.2 t ht] at this; cases this

theorem trimSpace_of_edges (s : Bytes) (h1 : stripSpace uniSpaces s = none)
    (h2 : stripSpace (uniSpaces.map List.reverse) s.reverse = none) : trimSpace s = s := by
  unfold trimSpace trimLeft trimRight
  rw [trimLeftAux_of_none _ _ _ h1, trimLeftAux_of_none _ _ _ h2, List.reverse_reverse]

theorem keyOK_parts {k : Bytes} (h : keyOK k = true) :
    trimLeft k = k ∧ trimRight k = k ∧ (∀ b ∈ k, b ≠ 0x2C) ∧ (∀ b ∈ k, b ≠ 0x3D) := by
  simp only [keyOK, Bool.and_eq_true, beq_iff_eq, Bool.not_eq_true', List.contains_eq_mem, decide_eq_false_iff_not] at h
  exact ⟨h.1.1.1, h.1.1.2, fun b hb e => h.1.2 (e ▸ hb), fun b hb e => h.2 (e ▸ hb)⟩

theorem keyOK_edges {k : Bytes} (h : keyOK k = true) :
    stripSpace uniSpaces k = none ∧ stripSpace (uniSpaces.map List.reverse) k.reverse = none := by
  obtain ⟨h1, h2, _, _⟩ := keyOK_parts h
  constructor
  · exact stripSpace_none_of_fixed _ (tokHigh_ne_nil uniSpaces_high) k h1
  · apply stripSpace_none_of_fixed _ (tokHigh_ne_nil uniSpaces_rev_high)
    unfold trimRight at h2
    have := congrArg List.reverse h2
    rw [List.reverse_reverse] at this
    rw [List.length_reverse]; exact this

theorem keyOK_trimSpace {k : Bytes} (h : keyOK k = true) : trimSpace k = k := by
  obtain ⟨h1, h2⟩ := keyOK_edges h
  exact trimSpace_of_edges k h1 h2

/-- graphic keys without `,` `=` (the hypothesis of the first round-trip theorem) are such keys -/
theorem keyOK_of_cleanKey {k : Bytes} (h : cleanKey k = true) : keyOK k = true := by
  obtain ⟨_, hk⟩ := cleanKey_bytes h
  have e1 : trimLeft k = k :=
    trimLeftAux_graphic uniSpaces uniSpaces_ok _ k (fun b hb => (hk b (List.mem_of_mem_head? hb)).1)
  have e2 : trimRight k = k := by
    unfold trimRight
    rw [trimLeftAux_graphic _ uniSpaces_rev_ok _ k.reverse
      (fun b hb => (hk b (List.mem_reverse.mp (List.mem_of_mem_head? hb))).1), List.reverse_reverse]
  simp only [keyOK, e1, e2, beq_self_eq_true, Bool.true_and, Bool.and_eq_true, Bool.not_eq_true',
    List.contains_eq_mem, decide_eq_false_iff_not]
  exact ⟨fun hm => (hk _ hm).2.1 rfl, fun hm => (hk _ hm).2.2 rfl⟩

/-! ### shape of a rendered list -/

theorem renderEnv_cons_cons (p q : Bytes × Bytes) (qs : List (Bytes × Bytes)) :
    renderEnv (p :: q :: qs) = renderPair p ++ 0x2C :: renderEnv (q :: qs) := by
  simp [renderEnv, List.intersperse_cons_cons]

theorem renderEnv_singleton (p : Bytes × Bytes) : renderEnv [p] = renderPair p := by
  simp [renderEnv]

theorem renderPair_last (p : Bytes × Bytes) : ∃ g r, (renderPair p).reverse = g :: r ∧ graphicB g = true := by
  unfold renderPair
  rw [List.reverse_append, List.reverse_cons]
  cases he : (pctEncode p.2).reverse with
  | nil => exact ⟨0x3D, p.1.reverse, by simp, by decide⟩
  | cons g r =>
    refine ⟨g, r ++ 0x3D :: p.1.reverse, by simp, ?_⟩
    have : g ∈ pctEncode p.2 := List.mem_reverse.mp (by rw [he]; simp)
    exact (pctEncode_graphic p.2 g this).1

theorem renderEnv_last (ps : List (Bytes × Bytes)) (hne : ps ≠ []) :
    ∃ g r, (renderEnv ps).reverse = g :: r ∧ graphicB g = true := by
  induction ps with
  | nil => exact absurd rfl hne
  | cons p rest ih =>
    cases rest with
    | nil => rw [renderEnv_singleton]; exact renderPair_last p
    | cons q qs =>
      obtain ⟨g, r, e, hg⟩ := ih (by simp)
      rw [renderEnv_cons_cons, List.reverse_append, List.reverse_cons, e]
      exact ⟨g, r ++ 0x2C :: (renderPair p).reverse, by simp, hg⟩

theorem renderEnv_head (p : Bytes × Bytes) (rest : List (Bytes × Bytes)) :
    ∃ tl, renderEnv (p :: rest) = p.1 ++ 0x3D :: tl := by
  cases rest with
  | nil => exact ⟨pctEncode p.2, by rw [renderEnv_singleton]; rfl⟩
  | cons q qs => exact ⟨pctEncode p.2 ++ 0x2C :: renderEnv (q :: qs), by rw [renderEnv_cons_cons]; simp [renderPair]⟩

theorem trimSpace_renderEnv (ps : List (Bytes × Bytes)) (hk : ∀ p ∈ ps, keyOK p.1 = true) :
    trimSpace (renderEnv ps) = renderEnv ps := by
  cases ps with
  | nil => decide
  | cons p rest =>
    apply trimSpace_of_edges
    · obtain ⟨tl, e⟩ := renderEnv_head p rest
      rw [e]
      by_cases hp : p.1 = []
      · rw [hp]; exact stripSpace_graphic uniSpaces uniSpaces_ok 0x3D tl (by decide)
      · exact stripSpace_append_low uniSpaces uniSpaces_high p.1 hp 0x3D (by decide) tl
          (keyOK_edges (hk p (by simp))).1
    · obtain ⟨g, r, e, hg⟩ := renderEnv_last (p :: rest) (by simp)
      rw [e]; exact stripSpace_graphic _ uniSpaces_rev_ok g r hg

theorem pairKV_renderPair' (p : Bytes × Bytes) (h : keyOK p.1 = true) :
    pairKV (renderPair p) = some ⟨p.1, .str p.2⟩ := by
  obtain ⟨_, _, _, hk⟩ := keyOK_parts h
  unfold pairKV renderPair
  rw [cut_append 0x3D p.1 _ hk]
  simp only [Option.map_some]
  rw [keyOK_trimSpace h, trimSpace_graphic (pctEncode p.2) (fun b hb => (pctEncode_graphic p.2 b hb).1),
    pathUnescape_pctEncode]
  rfl

theorem renderPair_no_comma (p : Bytes × Bytes) (h : keyOK p.1 = true) : ∀ b ∈ renderPair p, b ≠ 0x2C := by
  obtain ⟨_, _, hk, _⟩ := keyOK_parts h
  intro b hb
  simp only [renderPair, List.mem_append, List.mem_cons] at hb
  rcases hb with hb | hb | hb
  · exact hk b hb
  · subst hb; decide
  · exact (pctEncode_graphic p.2 b hb).2

/-! ### every parsed key is a `keyOK` key -/

theorem splitOn_no_sep_mem (sep : UInt8) (s : Bytes) : ∀ x ∈ splitOn sep s, ∀ b ∈ x, b ≠ sep := by
  induction s with
  | nil => intro x hx b hb; simp [splitOn] at hx; subst hx; cases hb
  | cons c r ih =>
    intro x hx
    unfold splitOn at hx
    by_cases hc : (c == sep) = true
    · simp only [hc, if_true, List.mem_cons] at hx
      rcases hx with e | hx
      · subst e; intro b hb; cases hb
      · exact ih x hx
    · simp only [hc, Bool.false_eq_true, if_false] at hx
      cases hs : splitOn sep r with
      | nil =>
        rw [hs] at hx
        simp only [List.mem_singleton] at hx
        subst hx
        intro b hb
        simp only [List.mem_singleton] at hb
        subst hb
        simpa using hc
      | cons h t =>
        rw [hs] at hx
        simp only [List.mem_cons] at hx
        rcases hx with e | hx
        · subst e
          intro b hb
          rcases List.mem_cons.mp hb with e | hb'
          · subst e; simpa using hc
          · exact ih h (by rw [hs]; simp) b hb'
        · exact ih x (by rw [hs]; simp [hx])

theorem cut_spec (sep : UInt8) (p k v : Bytes) (h : cut sep p = some (k, v)) :
    p = k ++ sep :: v ∧ ∀ b ∈ k, b ≠ sep := by
  induction p generalizing k with
  | nil => simp [cut] at h
  | cons c r ih =>
    unfold cut at h
    by_cases hc : (c == sep) = true
    · simp only [hc, if_true, Option.some.injEq, Prod.mk.injEq] at h
      obtain ⟨e1, e2⟩ := h
      subst e1 e2
      have : c = sep := by simpa using hc
      exact ⟨by simp [this], fun b hb => by cases hb⟩
    · simp only [hc, Bool.false_eq_true, if_false] at h
      cases hr : cut sep r with
      | none => rw [hr] at h; cases h
      | some kv =>
        obtain ⟨k', v'⟩ := kv
        rw [hr] at h
        simp only [Option.some.injEq, Prod.mk.injEq] at h
        obtain ⟨e1, e2⟩ := h
        subst e1 e2
        obtain ⟨i1, i2⟩ := ih k' hr
        refine ⟨by rw [i1]; simp, fun b hb => ?_⟩
        rcases List.mem_cons.mp hb with e | hb'
        · subst e; simpa using hc
        · exact i2 b hb'

/-- `strings.TrimSpace` is idempotent on each side, and returns bytes of its argument -/
theorem trimSpace_fixed (x : Bytes) :
    trimLeft (trimSpace x) = trimSpace x ∧ trimRight (trimSpace x) = trimSpace x ∧ ∀ b ∈ trimSpace x, b ∈ x := by
  have hneL := tokHigh_ne_nil uniSpaces_high
  have hneR := tokHigh_ne_nil uniSpaces_rev_high
  -- y = trimLeft x, z = trimRight y
  have hy : stripSpace uniSpaces (trimLeft x) = none := trimLeftAux_fix _ hneL _ _ (Nat.le_refl _)
  obtain ⟨_, preY, eY⟩ := trimLeftAux_suffix uniSpaces hneL x.length x
  obtain ⟨_, preZ, eZ⟩ := trimLeftAux_suffix (uniSpaces.map List.reverse) hneR (trimLeft x).length (trimLeft x).reverse
  have hzfix : stripSpace (uniSpaces.map List.reverse)
      (trimLeftAux (uniSpaces.map List.reverse) (trimLeft x).length (trimLeft x).reverse) = none :=
    trimLeftAux_fix _ hneR _ _ (by simp)
  have hz : trimSpace x = (trimLeftAux (uniSpaces.map List.reverse) (trimLeft x).length (trimLeft x).reverse).reverse := rfl
  have hpre : trimLeft x = trimSpace x ++ preZ.reverse := by
    have := congrArg List.reverse eZ
    rw [List.reverse_reverse, List.reverse_append] at this
    rw [hz]; exact this
  have hzL : stripSpace uniSpaces (trimSpace x) = none := by
    apply stripSpace_prefix uniSpaces (trimSpace x) preZ.reverse
    rw [← hpre]; exact hy
  refine ⟨trimLeftAux_of_none _ _ _ hzL, ?_, ?_⟩
  · unfold trimRight
    have : (trimSpace x).reverse = trimLeftAux (uniSpaces.map List.reverse) (trimLeft x).length (trimLeft x).reverse := by
      rw [hz, List.reverse_reverse]
    rw [this, trimLeftAux_of_none _ _ _ hzfix, ← this, List.reverse_reverse]
  · intro b hb
    have h1 : b ∈ trimLeft x := by rw [hpre]; exact List.mem_append_left _ hb
    have h2 : trimLeft x = trimLeftAux uniSpaces x.length x := rfl
    rw [eY]; exact List.mem_append_right _ (h2 ▸ h1)

/-- every key the parser produces is a `keyOK` key -/
theorem pairsOf_keys_ok (s : Bytes) : ∀ kv ∈ (pairsOf s).1, keyOK kv.key = true := by
  intro kv hkv
  simp only [pairsOf, List.mem_filterMap] at hkv
  obtain ⟨p, hp, hpk⟩ := hkv
  have hpieces : ∀ b ∈ p, b ≠ 0x2C := by
    by_cases hs : s = []
    · simp [hs] at hp
    · simp only [hs, if_false] at hp
      exact splitOn_no_sep_mem 0x2C s p hp
  unfold pairKV at hpk
  cases hc : cut 0x3D p with
  | none => rw [hc] at hpk; cases hpk
  | some kv' =>
    obtain ⟨k, v⟩ := kv'
    rw [hc] at hpk
    simp only [Option.map_some, Option.some.injEq] at hpk
    subst hpk
    obtain ⟨ep, hk⟩ := cut_spec 0x3D p k v hc
    obtain ⟨f1, f2, f3⟩ := trimSpace_fixed k
    simp only [keyOK, f1, f2, beq_self_eq_true, Bool.true_and, Bool.and_eq_true, Bool.not_eq_true',
      List.contains_eq_mem, decide_eq_false_iff_not]
    refine ⟨fun hm => ?_, fun hm => hk _ (f3 _ hm) rfl⟩
    have : (0x2C : UInt8) ∈ p := by rw [ep]; exact List.mem_append_left _ (f3 _ hm)
    exact hpieces _ this rfl

end Otel.C19
