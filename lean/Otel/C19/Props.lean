/-
C19 — property theorems about the model of sdk/resource (Model.lean), concluded in the Spec
predicates that the driver also evaluates on the real code's results.
`WF l` = "strictly sorted, valid items only": what every Resource built through the API holds
(`newSchemaless_wf`, `merge_wf`).
-/
import Otel.C19.Lemmas
namespace Otel.C19
open Otel Otel.C05 Otel.C05.Spec Otel.C19.Spec

/-- the `*Resource` is nil or holds well-formed contents -/
def WFo (a : Option Res) : Prop := ∀ r, a = some r → WF r.attrs

/-- **Resources built from attribute lists keep only valid keys** (and nothing else is lost): the
contents are the last-wins mapping restricted to valid items — a key is bound iff the value
supplied last for it is valid and the key is non-empty; the result is well-formed and schemaless. -/
theorem newSchemaless_filters_invalid_only (l : List KV) :
    (newSchemaless l).attrs = contents l ∧ (newSchemaless l).schema = [] ∧ WF (newSchemaless l).attrs ∧
    ∀ k, lookup (newSchemaless l).attrs k = guard k (lookupLast l k) := by
  rw [newSchemaless_attrs]
  exact ⟨rfl, newSchemaless_schema l, contents_wf l, lookup_contents l⟩

/-- `NewWithAttributes` is `NewSchemaless` plus the schema URL -/
theorem newWithAttributes_spec (s : Bytes) (l : List KV) :
    newWithAttributes s l = ⟨contents l, s⟩ ∧ WF (newWithAttributes s l).attrs := by
  rw [newWithAttributes_eq]; exact ⟨rfl, contents_wf l⟩

/-- **Merge, all clauses at once, in the form the oracle checks on the real code** (`Spec.resMergeOK`):
nil cases, right-biased union of well-formed contents, schema rule, conflict flag. -/
theorem merge_ok (a b : Option Res) (ha : WFo a) (hb : WFo b) :
    resMergeOK a b (merge a b).1 (merge a b).2 = true := by
  cases a with
  | none => cases b <;> simp [resMergeOK, merge]
  | some a =>
    cases b with
    | none => simp [resMergeOK, merge]
    | some b =>
      have hwa := ha a rfl
      have hwb := hb b rfl
      rw [merge_some_some a b hwa hwb]
      obtain ⟨hw, hl⟩ := mergeIter_wf hwa hwb
      simp only [resMergeOK, unionOK, Bool.and_eq_true, List.all_eq_true, beq_iff_eq]
      exact ⟨⟨(wf_iff _).mpr hw, fun k _ => hl k⟩, trivial⟩

/-- **right-biased union**: the merged resource is well-formed and binds every key to `b`'s value
if `b` binds it, else to `a`'s — for every schema combination, including the conflicting one
(no attribute is silently lost). -/
theorem merge_union_right_biased (a b : Res) (ha : WF a.attrs) (hb : WF b.attrs) :
    WF (merge (some a) (some b)).1.attrs ∧
    ∀ k, lookup (merge (some a) (some b)).1.attrs k = (lookup b.attrs k).or (lookup a.attrs k) := by
  rw [merge_some_some a b ha hb]
  exact mergeIter_wf ha hb

/-- merging never leaves the set of well-formed resources -/
theorem merge_wf (a b : Option Res) (ha : WFo a) (hb : WFo b) : WF (merge a b).1.attrs := by
  cases a with
  | none => cases b with
    | none => exact wf_nil
    | some b => exact hb b rfl
  | some a => cases b with
    | none => exact ha a rfl
    | some b => exact (merge_union_right_biased a b (ha a rfl) (hb b rfl)).1

/-- **identity**: merging with nil returns the other operand, merging with an empty resource
returns an equal resource (attributes and schema), never an error — on both sides. -/
theorem merge_identity (a : Res) (ha : WF a.attrs) :
    merge (some a) none = (a, false) ∧ merge none (some a) = (a, false) ∧
    merge none none = (Res.empty, false) ∧
    merge (some a) (some Res.empty) = (a, false) ∧ merge (some Res.empty) (some a) = (a, false) := by
  refine ⟨rfl, rfl, rfl, ?_, ?_⟩
  · rw [merge_some_some a Res.empty ha wf_nil]
    have h1 : mergeIter Res.empty.attrs a.attrs = a.attrs := by
      simp [mergeIter, Res.empty, mergeAux]
    have h2 : schemaRef a.schema Res.empty.schema = (a.schema, false) := by
      unfold schemaRef Res.empty
      by_cases h : a.schema = [] <;> simp [h]
    rw [h1, h2]
  · rw [merge_some_some Res.empty a wf_nil ha]
    have h1 : mergeIter a.attrs Res.empty.attrs = a.attrs := by
      cases h : a.attrs <;> simp [mergeIter, Res.empty, mergeAux]
    have h2 : schemaRef Res.empty.schema a.schema = (a.schema, false) := by
      simp [schemaRef, Res.empty]
    rw [h1, h2]

/-- **idempotent**: `Merge(a, a)` is `a`, without error -/
theorem merge_idem (a : Res) (ha : WF a.attrs) : merge (some a) (some a) = (a, false) := by
  rw [merge_some_some a a ha ha]
  obtain ⟨hw, hl⟩ := mergeIter_wf ha ha
  have h1 : mergeIter a.attrs a.attrs = a.attrs :=
    eq_of_lookup_eq hw.1 ha.1 (fun k => by rw [hl k]; cases lookup a.attrs k <;> rfl)
  have h2 : schemaRef a.schema a.schema = (a.schema, false) := by
    unfold schemaRef
    by_cases h : a.schema = [] <;> simp [h]
  rw [h1, h2]

private theorem attrs_lookup (a b : Option Res) (ha : WFo a) (hb : WFo b) (k : Bytes) :
    lookup (merge a b).1.attrs k =
      (lookup ((b.map (·.attrs)).getD []) k).or (lookup ((a.map (·.attrs)).getD []) k) := by
  cases a with
  | none => cases b <;> simp [merge, Res.empty]
  | some a => cases b with
    | none => simp [merge]
    | some b => simpa using (merge_union_right_biased a b (ha a rfl) (hb b rfl)).2 k

/-- **associative on attributes**, for all triples including nil and empty operands:
`Merge(Merge(a,b),c)` and `Merge(a,Merge(b,c))` hold the same attributes. -/
theorem merge_assoc_attrs (a b c : Option Res) (ha : WFo a) (hb : WFo b) (hc : WFo c) :
    (merge (some (merge a b).1) c).1.attrs = (merge a (some (merge b c).1)).1.attrs := by
  have hab : WFo (some (merge a b).1) := fun r hr => by
    cases hr; exact merge_wf a b ha hb
  have hbc : WFo (some (merge b c).1) := fun r hr => by
    cases hr; exact merge_wf b c hb hc
  apply eq_of_lookup_eq (merge_wf _ _ hab hc).1 (merge_wf _ _ ha hbc).1
  intro k
  rw [attrs_lookup _ _ hab hc, attrs_lookup _ _ ha hbc]
  simp only [Option.map_some, Option.getD_some]
  rw [attrs_lookup a b ha hb, attrs_lookup b c hb hc, Option.or_assoc]

/-- **schema URL**: the non-empty one, the common one, or — when both are non-empty and differ —
the empty URL together with the conflict error, and even then the attributes are the full union. -/
theorem merge_schema (a b : Res) (ha : WF a.attrs) (hb : WF b.attrs) :
    let r := merge (some a) (some b)
    (a.schema = [] → r.1.schema = b.schema ∧ r.2 = false) ∧
    (b.schema = [] → r.1.schema = a.schema ∧ r.2 = false) ∧
    (a.schema = b.schema → r.1.schema = a.schema ∧ r.2 = false) ∧
    (a.schema ≠ [] → b.schema ≠ [] → a.schema ≠ b.schema →
      r.1.schema = [] ∧ r.2 = true ∧ ∀ k, lookup r.1.attrs k = (lookup b.attrs k).or (lookup a.attrs k)) := by
  intro r
  have hr : r = (⟨mergeIter b.attrs a.attrs, (schemaRef a.schema b.schema).1⟩, (schemaRef a.schema b.schema).2) :=
    merge_some_some a b ha hb
  rw [hr]
  unfold schemaRef
  refine ⟨fun h => by simp [h], fun h => ?_, fun h => ?_, fun h1 h2 h3 => ?_⟩
  · by_cases h1 : a.schema = [] <;> simp [h, h1]
  · by_cases h1 : a.schema = []
    · simp [← h]
    · by_cases h2 : b.schema = []
      · simp [h2, h] at h1
      · simp [h2, h]
  · simp only [h1, h2, h3, if_false]
    exact ⟨by simp, by simp, (mergeIter_wf ha hb).2⟩

/-- **environment parsing** (`Spec.envRef`): for every pair of values of OTEL_RESOURCE_ATTRIBUTES and
OTEL_SERVICE_NAME the detector returns the schemaless resource whose contents are the last-wins
mapping of the valid `key=value` pairs (keys and values trimmed, values percent-decoded, or kept
raw when undecodable), with `service.name` = the trimmed OTEL_SERVICE_NAME supplied last when set;
the error is a partial-resource error exactly when some pair has no `=`, and the rest is kept. -/
theorem env_parse_spec (attrsEnv svcEnv : Bytes) :
    (fromEnv attrsEnv svcEnv).1 = ⟨(envRef attrsEnv svcEnv).1, []⟩ ∧
    (fromEnv attrsEnv svcEnv).2.1 = (if (envRef attrsEnv svcEnv).2 then some ⟨true, false⟩ else none) := by
  unfold fromEnv envRef envPairs
  obtain ⟨hc1, hc2⟩ := constructOT_spec (trimSpace attrsEnv)
  by_cases h0 : (trimSpace attrsEnv).length = 0 ∧ (trimSpace svcEnv).length = 0
  · have ha : trimSpace attrsEnv = [] := List.eq_nil_of_length_eq_zero h0.1
    have hs : trimSpace svcEnv = [] := List.eq_nil_of_length_eq_zero h0.2
    simp [ha, hs, pairsOf, Res.empty, contents, canon]
  · simp only [h0, if_false]
    by_cases hs : (trimSpace svcEnv).length = 0
    · have hs' : trimSpace svcEnv = [] := List.eq_nil_of_length_eq_zero hs
      simp only [hs', ne_eq, if_true, List.append_nil, merge, hc1, hc2]
      cases (pairsOf (trimSpace attrsEnv)).2 <;> simp
    · have hs' : trimSpace svcEnv ≠ [] := fun e => hs (by simp [e])
      simp only [hs, hs', ne_eq, not_false_eq_true, if_true, if_false, hc1, hc2, newSchemaless_eq]
      have hv : ∀ x ∈ [(⟨serviceNameKey, .str (trimSpace svcEnv)⟩ : KV)], valid x = true := by
        intro x hx; rw [List.mem_singleton.mp hx]; exact valid_serviceName _
      rw [merge_some_some _ _ (contents_wf _) (contents_wf _)]
      obtain ⟨hw, hl⟩ := mergeIter_wf (contents_wf (pairsOf (trimSpace attrsEnv)).1)
        (contents_wf [(⟨serviceNameKey, .str (trimSpace svcEnv)⟩ : KV)])
      have hattrs : mergeIter (contents [(⟨serviceNameKey, .str (trimSpace svcEnv)⟩ : KV)])
          (contents (pairsOf (trimSpace attrsEnv)).1) =
          contents ((pairsOf (trimSpace attrsEnv)).1 ++ [⟨serviceNameKey, .str (trimSpace svcEnv)⟩]) :=
        eq_of_lookup_eq hw.1 (contents_wf _).1 (fun k => by rw [hl k, lookup_contents_append hv])
      simp only [hattrs, schemaRef, if_true]
      cases (pairsOf (trimSpace attrsEnv)).2 <;> simp

/-- **OTEL_SERVICE_NAME takes precedence**: when it is set (non-blank), `service.name` is bound to
its trimmed value whatever OTEL_RESOURCE_ATTRIBUTES says, and every other key keeps the binding
it gets from OTEL_RESOURCE_ATTRIBUTES. -/
theorem env_service_name_wins (attrsEnv svcEnv : Bytes) (h : trimSpace svcEnv ≠ []) :
    lookup (fromEnv attrsEnv svcEnv).1.attrs serviceNameKey = some (.str (trimSpace svcEnv)) ∧
    ∀ k, k ≠ serviceNameKey →
      lookup (fromEnv attrsEnv svcEnv).1.attrs k = lookup (fromEnv attrsEnv []).1.attrs k := by
  have hv : ∀ x ∈ [(⟨serviceNameKey, .str (trimSpace svcEnv)⟩ : KV)], valid x = true := by
    intro x hx; rw [List.mem_singleton.mp hx]; exact valid_serviceName _
  have hnil : trimSpace [] = [] := by decide
  have hc : contents [(⟨serviceNameKey, .str (trimSpace svcEnv)⟩ : KV)] = [⟨serviceNameKey, .str (trimSpace svcEnv)⟩] :=
    contents_of_wf ⟨by simp [SSorted], hv⟩
  rw [(env_parse_spec attrsEnv svcEnv).1, (env_parse_spec attrsEnv []).1]
  simp only [envRef, h, hnil, if_false, if_true, List.append_nil]
  refine ⟨?_, fun k hk => ?_⟩
  · rw [lookup_contents_append hv, hc]; simp [lookup_cons]
  · rw [lookup_contents_append hv, hc]
    have : ¬ serviceNameKey = k := fun e => hk e.symm
    simp [lookup_cons, this]

private theorem renderEnv_bytes (ps : List (Bytes × Bytes)) (hne : ps ≠ []) (hk : ∀ p ∈ ps, cleanKey p.1 = true) :
    renderEnv ps ≠ [] ∧ ∀ b ∈ renderEnv ps, graphicB b = true := by
  induction ps with
  | nil => exact absurd rfl hne
  | cons p rest ih =>
    have hp := renderPair_bytes p (hk p (by simp))
    cases rest with
    | nil =>
      simp only [renderEnv, List.map_cons, List.map_nil, List.intersperse_singleton, List.flatten_cons,
        List.flatten_nil, List.append_nil]
      exact ⟨hp.1, fun b hb => (hp.2 b hb).1⟩
    | cons q qs =>
      have ih' := ih (by simp) (fun z hz => hk z (by simp [hz]))
      have e : renderEnv (p :: q :: qs) = renderPair p ++ 0x2C :: renderEnv (q :: qs) := by
        simp [renderEnv, List.intersperse_cons_cons]
      rw [e]
      refine ⟨by simp [hp.1], fun b hb => ?_⟩
      rcases List.mem_append.mp hb with h | h
      · exact (hp.2 b h).1
      · rcases List.mem_cons.mp h with h | h
        · subst h; decide
        · exact ih'.2 b h

/-- **escape∘unescape is lossless, well-formed lists are recovered**: rendering any non-empty list of
pairs (keys: non-empty graphic ASCII without `,` `=`; values: *arbitrary bytes*, percent-encoded)
as `k1=v1,k2=v2,…` and handing it to the detector gives back exactly those pairs — hence the
resource built from them — without error. -/
theorem env_roundtrip (ps : List (Bytes × Bytes)) (hne : ps ≠ []) (hk : ∀ p ∈ ps, cleanKey p.1 = true) :
    envPairs (renderEnv ps) = (ps.map (fun p => ⟨p.1, .str p.2⟩), false) ∧
    (fromEnv (renderEnv ps) []).1 = ⟨contents (ps.map (fun p => ⟨p.1, .str p.2⟩)), []⟩ ∧
    (fromEnv (renderEnv ps) []).2.1 = none := by
  obtain ⟨hrne, hg⟩ := renderEnv_bytes ps hne hk
  have hsplit : splitOn 0x2C (renderEnv ps) = ps.map renderPair := by
    apply splitOn_join
    · simpa using hne
    · intro x hx b hb
      obtain ⟨p, hp, e⟩ := List.mem_map.mp hx
      subst e
      exact ((renderPair_bytes p (hk p hp)).2 b hb).2
  have hpairs : envPairs (renderEnv ps) = (ps.map (fun p => ⟨p.1, .str p.2⟩), false) := by
    unfold envPairs pairsOf
    rw [trimSpace_graphic _ hg]
    simp only [hrne, if_false, hsplit]
    have h1 : (ps.map renderPair).filterMap pairKV = ps.map (fun p => (⟨p.1, .str p.2⟩ : KV)) := by
      clear hsplit hrne hg hne
      induction ps with
      | nil => rfl
      | cons p rest ih =>
        simp only [List.map_cons, List.filterMap_cons, pairKV_renderPair p (hk p (by simp))]
        rw [ih (fun z hz => hk z (by simp [hz]))]
    have h2 : (ps.map renderPair).any (fun p => (cut 0x3D p).isNone) = false := by
      apply List.any_eq_false.mpr
      intro x hx
      obtain ⟨p, hp, e⟩ := List.mem_map.mp hx
      subst e
      obtain ⟨_, hkb⟩ := cleanKey_bytes (hk p hp)
      simp [renderPair, cut_append 0x3D p.1 _ (fun b hb => (hkb b hb).2.2)]
    rw [h1, h2]
  have hnil : trimSpace [] = [] := by decide
  have hspec := env_parse_spec (renderEnv ps) []
  simp only [envRef, hpairs, hnil, if_true, List.append_nil, Bool.false_eq_true, if_false] at hspec
  exact ⟨hpairs, hspec.1, hspec.2⟩

/-- **equal resources have equal map identities**: `Equal` *is* the comparison of `Equivalent()`
(one function in the model); by C05 it holds iff both resources hold the same mapping under the
representation's identity, whatever the schema URLs; and a resource equals itself unless a
FLOAT64SLICE attribute contains a NaN (known finding F9, inherited from C05). -/
theorem resource_equal_iff_equivalent (a b : Res) (ha : WF a.attrs) (hb : WF b.attrs) :
    equal a.attrs b.attrs = sameMapping goEq a.attrs b.attrs ∧
    (F9_applies a.attrs = false → equal a.attrs a.attrs = true) :=
  ⟨(equal_iff_same_mapping a.attrs b.attrs ((strictSorted_iff _).mpr ha.1) ((strictSorted_iff _).mpr hb.1)).2,
   equal_refl_partial a.attrs⟩

/-- all detectors return nil or well-formed resources (true of every resource built through the API) -/
def WFds (ds : List (Option DetOut)) : Prop := ∀ d ∈ ds, ∀ o, d = some o → ∀ r, o.res = some r → WF r.attrs

/-- **Detect, all clauses at once, in the form the oracle checks on the real code** (`Spec.detectRef`):
the loop of `detect` computes exactly the reference — attributes = last-wins mapping of the
concatenated attributes of the detectors that are kept (nil detectors, nil resources and detectors
failing with a non-partial error contribute nothing), schema = fold of the schema rule (emptied
when the joined error Is ErrSchemaURLConflict), error flags as `errors.Is` reports them. -/
theorem detect_spec (init : Bytes) (ds : List (Option DetOut)) (h : WFds ds) :
    detect init ds = detectRef init ds := by
  obtain ⟨h1, h2, h3, h4, h5⟩ := foldl_detectStep ds { res := ⟨[], init⟩ } wf_nil h
  simp only [List.nil_append, Bool.false_or] at h1 h2 h3 h4 h5
  unfold detect detectRef
  cases hst : ds.foldl detectStep { res := ⟨[], init⟩ } with
  | mk res anyErr partialSeen conflictSeen =>
    rw [hst] at h1 h2 h3 h4 h5
    cases res with
    | mk attrs schema =>
      simp only at h1 h2 h3 h4 h5
      subst h1 h2 h3 h4 h5
      simp only
      split <;> simp_all

/-- **later detectors win**: every key is bound to the value of the last kept detector that binds it -/
theorem detect_later_wins (init : Bytes) (ds : List (Option DetOut)) (h : WFds ds) (k : Bytes) :
    lookup (detect init ds).res.attrs k = lookupLast ((ds.filterMap keptRes).flatMap (·.attrs)) k := by
  rw [detect_spec init ds h]
  simp only [detectRef]
  rw [lookup_contents]
  cases hl : lookupLast ((ds.filterMap keptRes).flatMap (·.attrs)) k with
  | none => rfl
  | some v =>
    have hm := mem_of_lookupLast hl
    obtain ⟨r, hr, hxr⟩ := List.mem_flatMap.mp hm
    obtain ⟨d', hd', hk⟩ := List.mem_filterMap.mp hr
    have hv : valid ⟨k, v⟩ = true := by
      cases d' with
      | none => simp [keptRes] at hk
      | some o =>
        simp only [keptRes] at hk
        split at hk
        · cases hk
        · exact (h _ hd' o rfl r hk).2 _ hxr
    simp [guard, hv]

/-- **partial failure keeps the rest**: a detector failing with a non-partial error (or a nil one) is
skipped, everything else — including the result of detectors reporting a *partial* error — is
merged; an error is returned iff some detector failed or schema URLs conflicted; a conflict
(from a merge or reported by a detector) empties the schema URL. -/
theorem detect_partial_failure_keeps_rest (init : Bytes) (ds : List (Option DetOut)) (h : WFds ds) :
    (detect init ds).res.attrs = contents ((ds.filterMap keptRes).flatMap (·.attrs)) ∧
    ((detect init ds).anyErr = true ↔
      (∃ d ∈ ds, detErr d ≠ none) ∨ ((ds.filterMap keptRes).foldl schemaStep (init, false)).2 = true) ∧
    ((detect init ds).anyErr = true → (detect init ds).conflictSeen = true → (detect init ds).res.schema = []) ∧
    ((detect init ds).anyErr = false →
      (detect init ds).res.schema = ((ds.filterMap keptRes).foldl schemaStep (init, false)).1) := by
  rw [detect_spec init ds h]
  simp only [detectRef]
  refine ⟨trivial, ?_, ?_, ?_⟩
  · simp only [Bool.or_eq_true, Bool.not_eq_true', List.isEmpty_eq_false_iff_exists_mem]
    constructor
    · rintro (⟨e, he⟩ | h2)
      · obtain ⟨d, hd, hde⟩ := List.mem_filterMap.mp he
        exact Or.inl ⟨d, hd, by simp [hde]⟩
      · exact Or.inr h2
    · rintro (⟨d, hd, hne⟩ | h2)
      · cases hde : detErr d with
        | none => exact absurd hde hne
        | some e => exact Or.inl ⟨e, List.mem_filterMap.mpr ⟨d, hd, hde⟩⟩
      · exact Or.inr h2
  · intro h1 h2; rw [h1, h2]; rfl
  · intro h1; rw [h1]; rfl

/-- every explicitly given detector returns nil or a well-formed resource -/
def WFopts (opts : List Opt) : Prop := ∀ o ∈ opts, ∀ ds, o = Opt.withDetectors ds → WFds ds

private theorem optDetectors_eq_ref (env : Env) (o : Opt) : optDetectors env o = optDetRef env o := by
  cases o with
  | withSchemaURL s => rfl
  | withDetectors ds => rfl
  | withAttributes kvs => simp [optDetectors, optDetRef, newSchemaless_eq]
  | withFromEnv =>
    obtain ⟨h1, h2⟩ := env_parse_spec env.attrs env.svc
    simp [optDetectors, optDetRef, h1, h2]

private theorem foldl_applyOpt (env : Env) (opts : List Opt) (cfg : Cfg) :
    (opts.foldl (applyOpt env) cfg).detectors = cfg.detectors ++ opts.flatMap (optDetectors env) ∧
    (opts.foldl (applyOpt env) cfg).schemaURL =
      opts.foldl (fun s o => match o with | .withSchemaURL x => x | _ => s) cfg.schemaURL := by
  induction opts generalizing cfg with
  | nil => simp
  | cons o rest ih =>
    obtain ⟨h1, h2⟩ := ih (applyOpt env cfg o)
    simp only [List.foldl_cons, List.flatMap_cons]
    rw [h1, h2]
    cases o <;> simp [applyOpt, optDetectors]

private theorem wfds_flatMap (env : Env) (opts : List Opt) (h : WFopts opts) :
    WFds (opts.flatMap (optDetRef env)) := by
  intro d hd o hdo r hr
  obtain ⟨opt, hopt, hmem⟩ := List.mem_flatMap.mp hd
  cases opt with
  | withSchemaURL s => simp [optDetRef] at hmem
  | withDetectors ds => exact h _ hopt ds rfl d hmem o hdo r hr
  | withAttributes kvs =>
    simp only [optDetRef, List.mem_singleton] at hmem
    subst hmem; cases hdo; cases hr
    exact contents_wf kvs
  | withFromEnv =>
    simp only [optDetRef, List.mem_singleton] at hmem
    subst hmem; cases hdo; cases hr
    exact contents_wf _

/-- **resource.New, in the form the oracle checks on the real code** (`Spec.newRef`): applying the
options in order and running `detect` equals the `Detect` reference on the concatenation of every
option's detectors in option order — nothing is skipped or re-ordered, an option or detector that
is given again counts again at its later position — started from the LAST schema URL option. -/
theorem new_spec (env : Env) (opts : List Opt) (h : WFopts opts) : newResource env opts = newRef env opts := by
  obtain ⟨h1, h2⟩ := foldl_applyOpt env opts {}
  unfold newResource newRef schemaOf
  simp only [List.nil_append] at h1 h2
  show detect (opts.foldl (applyOpt env) {}).schemaURL (opts.foldl (applyOpt env) {}).detectors = _
  rw [h1, h2]
  have : opts.flatMap (optDetectors env) = opts.flatMap (optDetRef env) := by
    congr 1; funext o; exact optDetectors_eq_ref env o
  rw [this]
  exact detect_spec _ _ (wfds_flatMap env opts h)

/-- **later options and later detectors win**, on the option path of `New`: every key is bound to
the value of the last kept detector — over all options, in option order — that binds it.  In
particular a detector configured again as the last option prevails over everything configured
between its two occurrences: whatever `pre` is, `New(pre…, WithDetectors(d))` binds every key of
`d`'s resource to `d`'s value. -/
theorem new_later_option_wins (env : Env) (opts : List Opt) (h : WFopts opts) :
    (∀ k, lookup (newResource env opts).res.attrs k =
      lookupLast (((opts.flatMap (optDetRef env)).filterMap keptRes).flatMap (·.attrs)) k) ∧
    (∀ (pre : List Opt) (r : Res) (e : Option Err), opts = pre ++ [Opt.withDetectors [some ⟨some r, e⟩]] →
      e.all (·.isPartial) = true →
      ∀ k v, lookup r.attrs k = some v → lookup (newResource env opts).res.attrs k = some v) := by
  have hall : ∀ k, lookup (newResource env opts).res.attrs k =
      lookupLast (((opts.flatMap (optDetRef env)).filterMap keptRes).flatMap (·.attrs)) k := by
    intro k
    rw [new_spec env opts h]
    have := detect_later_wins (schemaOf opts) (opts.flatMap (optDetRef env)) (wfds_flatMap env opts h) k
    rw [detect_spec _ _ (wfds_flatMap env opts h)] at this
    exact this
  refine ⟨hall, ?_⟩
  intro pre r e hopts he k v hkv
  have hmem : Opt.withDetectors [some ⟨some r, e⟩] ∈ opts := by rw [hopts]; simp
  have hr : WF r.attrs := h _ hmem _ rfl _ (List.mem_singleton.mpr rfl) _ rfl r rfl
  rw [hall k, hopts]
  have hkept : keptRes (some ⟨some r, e⟩) = some r := by
    cases e with
    | none => rfl
    | some e' =>
      have : e'.isPartial = true := by simpa using he
      simp [keptRes, this]
  simp only [List.flatMap_append, List.flatMap_cons, List.flatMap_nil, List.append_nil, optDetRef,
    List.filterMap_append, List.filterMap_cons, List.filterMap_nil, hkept]
  rw [lookupLast_append, lookupLast_eq_lookup hr.1, hkv]
  rfl

/-! ### non-vacuity -/

example : merge (some ⟨[⟨[0x61], .int 1⟩, ⟨[0x62], .str [0x78]⟩], [1]⟩) (some ⟨[⟨[0x62], .str [0x79]⟩, ⟨[0x63], .bool true⟩], [2]⟩) =
    (⟨[⟨[0x61], .int 1⟩, ⟨[0x62], .str [0x79]⟩, ⟨[0x63], .bool true⟩], []⟩, true) := by decide
example : wf [⟨[0x61], .int 1⟩, ⟨[0x62], .str [0x78]⟩] = true := by decide
/-- `k= %41 , k2=v%,noeq, =x` with OTEL_SERVICE_NAME=" svc": decoded, raw fall-back, missing `=` reported, empty key dropped -/
example : fromEnv [0x6b, 0x3d, 0x20, 0x25, 0x34, 0x31, 0x20, 0x2c, 0x6b, 0x32, 0x3d, 0x76, 0x25, 0x2c, 0x6e, 0x6f, 0x65, 0x71, 0x2c, 0x20, 0x3d, 0x78]
      [0x20, 0x73, 0x76, 0x63] =
    (⟨[⟨[0x6b], .str [0x41]⟩, ⟨[0x6b, 0x32], .str [0x76, 0x25]⟩, ⟨serviceNameKey, .str [0x73, 0x76, 0x63]⟩], []⟩,
     some ⟨true, false⟩, 1) := by decide
example : cleanKey [0x6b, 0x2e, 0x31] = true ∧
    renderEnv [([0x6b], [0x20, 0xff]), ([0x6b, 0x32], [])] = [0x6b, 0x3d, 0x25, 0x32, 0x30, 0x25, 0x46, 0x46, 0x2c, 0x6b, 0x32, 0x3d] := by decide
/-- `New(WithDetectors(a, b, a))`: the detector `a` given again after `b` wins -/
example : (newResource ⟨[], []⟩ [.withDetectors [some ⟨some ⟨[⟨[0x6b], .int 1⟩], []⟩, none⟩, some ⟨some ⟨[⟨[0x6b], .int 2⟩], []⟩, none⟩,
      some ⟨some ⟨[⟨[0x6b], .int 1⟩], []⟩, none⟩]]).res = ⟨[⟨[0x6b], .int 1⟩], []⟩ := by decide
/-- ok(s/1) ; fatal ; partial(s/2, conflicting) ; nil detector ; ok(nil resource) -/
example : detect [] [some ⟨some ⟨[⟨[0x61], .bool true⟩], [1]⟩, none⟩, some ⟨some ⟨[⟨[0x62], .bool true⟩], []⟩, some ⟨false, false⟩⟩,
      some ⟨some ⟨[⟨[0x61], .bool false⟩, ⟨[0x63], .str [0x78]⟩], [2]⟩, some ⟨true, false⟩⟩, none, some ⟨none, none⟩] =
    { res := ⟨[⟨[0x61], .bool false⟩, ⟨[0x63], .str [0x78]⟩], []⟩, anyErr := true, partialSeen := true, conflictSeen := true } := by decide
example : (newSchemaless [⟨[0x6b], .int 1⟩, ⟨[0x6b], .invalid⟩, ⟨[], .str [0x76]⟩, ⟨[0x61], .bool true⟩]).attrs =
    [⟨[0x61], .bool true⟩] := by decide

end Otel.C19
