/-
C19 — property theorems about the model of sdk/resource (Model.lean), concluded in the Spec
predicates that the driver also evaluates on the real code's results.
`WF l` = "strictly sorted, valid items only": what every Resource built through the API holds
(`newSchemaless_wf`, `merge_wf`).
-/
import Otel.C19.LemmasEnv
namespace Otel.C19
open Otel Otel.C05 Otel.C05.Spec Otel.C19.Spec

/-- the `*Resource` is nil or holds well-formed contents -/
def WFo (a : Option Res) : Prop := ∀ r, a = some r → WF r.attrs

/-- **Resources built from attribute lists keep only valid keys** (and nothing else is lost): the
contents are the last-wins mapping restricted to valid items — a key is bound iff the value
supplied last for it is valid and the key is non-empty; the result is well-formed and schemaless. -/
theorem newSchemaless_filters_invalid_only (l : List KV) :
    (newSchemaless l).attrs = contents l ∧ (newSchemaless l).schema = [] ∧ WF (newSchemaless l).attrs ∧
    ∀ k, lookup (newSchemaless l).attrs k = guard k (lookupLast l k) := by
  rw [newSchemaless_attrs]
  exact ⟨rfl, newSchemaless_schema l, contents_wf l, lookup_contents l⟩

/-- `NewWithAttributes` is `NewSchemaless` plus the schema URL -/
theorem newWithAttributes_spec (s : Bytes) (l : List KV) :
    newWithAttributes s l = ⟨contents l, s⟩ ∧ WF (newWithAttributes s l).attrs := by
  rw [newWithAttributes_eq]; exact ⟨rfl, contents_wf l⟩

/-- **Merge, all clauses at once, in the form the oracle checks on the real code** (`Spec.resMergeOK`):
nil cases, right-biased union of well-formed contents, schema rule, conflict flag. -/
theorem merge_ok (a b : Option Res) (ha : WFo a) (hb : WFo b) :
    resMergeOK a b (merge a b).1 (merge a b).2 = true := by
  cases a with
  | none => cases b <;> simp [resMergeOK, merge]
  | some a =>
    cases b with
    | none => simp [resMergeOK, merge]
    | some b =>
      have hwa := ha a rfl
      have hwb := hb b rfl
      rw [merge_some_some a b hwa hwb]
      obtain ⟨hw, hl⟩ := mergeIter_wf hwa hwb
      simp only [resMergeOK, unionOK, Bool.and_eq_true, List.all_eq_true, beq_iff_eq]
      exact ⟨⟨(wf_iff _).mpr hw, fun k _ => hl k⟩, trivial⟩

/-- **right-biased union**: the merged resource is well-formed and binds every key to `b`'s value
if `b` binds it, else to `a`'s — for every schema combination, including the conflicting one
(no attribute is silently lost). -/
theorem merge_union_right_biased (a b : Res) (ha : WF a.attrs) (hb : WF b.attrs) :
    WF (merge (some a) (some b)).1.attrs ∧
    ∀ k, lookup (merge (some a) (some b)).1.attrs k = (lookup b.attrs k).or (lookup a.attrs k) := by
  rw [merge_some_some a b ha hb]
  exact mergeIter_wf ha hb

/-- merging never leaves the set of well-formed resources -/
theorem merge_wf (a b : Option Res) (ha : WFo a) (hb : WFo b) : WF (merge a b).1.attrs := by
  cases a with
  | none => cases b with
    | none => exact wf_nil
    | some b => exact hb b rfl
  | some a => cases b with
    | none => exact ha a rfl
    | some b => exact (merge_union_right_biased a b (ha a rfl) (hb b rfl)).1

/-- **identity**: merging with nil returns the other operand, merging with an empty resource
returns an equal resource (attributes and schema), never an error — on both sides. -/
theorem merge_identity (a : Res) (ha : WF a.attrs) :
    merge (some a) none = (a, false) ∧ merge none (some a) = (a, false) ∧
    merge none none = (Res.empty, false) ∧
    merge (some a) (some Res.empty) = (a, false) ∧ merge (some Res.empty) (some a) = (a, false) := by
  refine ⟨rfl, rfl, rfl, ?_, ?_⟩
  · rw [merge_some_some a Res.empty ha wf_nil]
    have h1 : mergeIter Res.empty.attrs a.attrs = a.attrs := by
      simp [mergeIter, Res.empty, mergeAux]
    have h2 : schemaRef a.schema Res.empty.schema = (a.schema, false) := by
      unfold schemaRef Res.empty
      by_cases h : a.schema = [] <;> simp [h]
    rw [h1, h2]
  · rw [merge_some_some Res.empty a wf_nil ha]
    have h1 : mergeIter a.attrs Res.empty.attrs = a.attrs := by
      cases h : a.attrs <;> simp [mergeIter, Res.empty, mergeAux]
    have h2 : schemaRef Res.empty.schema a.schema = (a.schema, false) := by
      simp [schemaRef, Res.empty]
    rw [h1, h2]

/-- **idempotent**: `Merge(a, a)` is `a`, without error -/
theorem merge_idem (a : Res) (ha : WF a.attrs) : merge (some a) (some a) = (a, false) := by
  rw [merge_some_some a a ha ha]
  obtain ⟨hw, hl⟩ := mergeIter_wf ha ha
  have h1 : mergeIter a.attrs a.attrs = a.attrs :=
    eq_of_lookup_eq hw.1 ha.1 (fun k => by rw [hl k]; cases lookup a.attrs k <;> rfl)
  have h2 : schemaRef a.schema a.schema = (a.schema, false) := by
    unfold schemaRef
    by_cases h : a.schema = [] <;> simp [h]
  rw [h1, h2]

private theorem attrs_lookup (a b : Option Res) (ha : WFo a) (hb : WFo b) (k : Bytes) :
    lookup (merge a b).1.attrs k =
      (lookup ((b.map (·.attrs)).getD []) k).or (lookup ((a.map (·.attrs)).getD []) k) := by
  cases a with
  | none => cases b <;> simp [merge, Res.empty]
  | some a => cases b with
    | none => simp [merge]
    | some b => simpa using (merge_union_right_biased a b (ha a rfl) (hb b rfl)).2 k

/-- **associative on attributes**, for all triples including nil and empty operands:
`Merge(Merge(a,b),c)` and `Merge(a,Merge(b,c))` hold the same attributes. -/
theorem merge_assoc_attrs (a b c : Option Res) (ha : WFo a) (hb : WFo b) (hc : WFo c) :
    (merge (some (merge a b).1) c).1.attrs = (merge a (some (merge b c).1)).1.attrs := by
  have hab : WFo (some (merge a b).1) := fun r hr => by
    cases hr; exact merge_wf a b ha hb
  have hbc : WFo (some (merge b c).1) := fun r hr => by
    cases hr; exact merge_wf b c hb hc
  apply eq_of_lookup_eq (merge_wf _ _ hab hc).1 (merge_wf _ _ ha hbc).1
  intro k
  rw [attrs_lookup _ _ hab hc, attrs_lookup _ _ ha hbc]
  simp only [Option.map_some, Option.getD_some]
  rw [attrs_lookup a b ha hb, attrs_lookup b c hb hc, Option.or_assoc]

/-- **schema URL**: the non-empty one, the common one, or — when both are non-empty and differ —
the empty URL together with the conflict error, and even then the attributes are the full union. -/
theorem merge_schema (a b : Res) (ha : WF a.attrs) (hb : WF b.attrs) :
    let r := merge (some a) (some b)
    (a.schema = [] → r.1.schema = b.schema ∧ r.2 = false) ∧
    (b.schema = [] → r.1.schema = a.schema ∧ r.2 = false) ∧
    (a.schema = b.schema → r.1.schema = a.schema ∧ r.2 = false) ∧
    (a.schema ≠ [] → b.schema ≠ [] → a.schema ≠ b.schema →
      r.1.schema = [] ∧ r.2 = true ∧ ∀ k, lookup r.1.attrs k = (lookup b.attrs k).or (lookup a.attrs k)) := by
  intro r
  have hr : r = (⟨mergeIter b.attrs a.attrs, (schemaRef a.schema b.schema).1⟩, (schemaRef a.schema b.schema).2) :=
    merge_some_some a b ha hb
  rw [hr]
  unfold schemaRef
  refine ⟨fun h => by simp [h], fun h => ?_, fun h => ?_, fun h1 h2 h3 => ?_⟩
  · by_cases h1 : a.schema = [] <;> simp [h, h1]
  · by_cases h1 : a.schema = []
    · simp [← h]
    · by_cases h2 : b.schema = []
      · simp [h2, h] at h1
      · simp [h2, h]
  · simp only [h1, h2, h3, if_false]
    exact ⟨by simp, by simp, (mergeIter_wf ha hb).2⟩

/-- **environment parsing** (`Spec.envRef`): for every pair of values of OTEL_RESOURCE_ATTRIBUTES and
OTEL_SERVICE_NAME the detector returns the schemaless resource whose contents are the last-wins
mapping of the valid `key=value` pairs (keys and values trimmed, values percent-decoded, or kept
raw when undecodable), with `service.name` = the trimmed OTEL_SERVICE_NAME supplied last when set;
the error is a partial-resource error exactly when some pair has no `=`, and the rest is kept. -/
theorem env_parse_spec (attrsEnv svcEnv : Bytes) :
    (fromEnv attrsEnv svcEnv).1 = ⟨(envRef attrsEnv svcEnv).1, []⟩ ∧
    (fromEnv attrsEnv svcEnv).2.1 = (if (envRef attrsEnv svcEnv).2 then some ⟨true, false⟩ else none) := by
  unfold fromEnv envRef envPairs
  obtain ⟨hc1, hc2⟩ := constructOT_spec (trimSpace attrsEnv)
  by_cases h0 : (trimSpace attrsEnv).length = 0 ∧ (trimSpace svcEnv).length = 0
  · have ha : trimSpace attrsEnv = [] := List.eq_nil_of_length_eq_zero h0.1
    have hs : trimSpace svcEnv = [] := List.eq_nil_of_length_eq_zero h0.2
    simp [ha, hs, pairsOf, Res.empty, contents, canon]
  · simp only [h0, if_false]
    by_cases hs : (trimSpace svcEnv).length = 0
    · have hs' : trimSpace svcEnv = [] := List.eq_nil_of_length_eq_zero hs
      simp only [hs', ne_eq, if_true, List.append_nil, merge, hc1, hc2]
      cases (pairsOf (trimSpace attrsEnv)).2 <;> simp
    · have hs' : trimSpace svcEnv ≠ [] := fun e => hs (by simp [e])
      simp only [hs, hs', ne_eq, not_false_eq_true, if_true, if_false, hc1, hc2, newSchemaless_eq]
      have hv : ∀ x ∈ [(⟨serviceNameKey, .str (trimSpace svcEnv)⟩ : KV)], valid x = true := by
        intro x hx; rw [List.mem_singleton.mp hx]; exact valid_serviceName _
      rw [merge_some_some _ _ (contents_wf _) (contents_wf _)]
      obtain ⟨hw, hl⟩ := mergeIter_wf (contents_wf (pairsOf (trimSpace attrsEnv)).1)
        (contents_wf [(⟨serviceNameKey, .str (trimSpace svcEnv)⟩ : KV)])
      have hattrs : mergeIter (contents [(⟨serviceNameKey, .str (trimSpace svcEnv)⟩ : KV)])
          (contents (pairsOf (trimSpace attrsEnv)).1) =
          contents ((pairsOf (trimSpace attrsEnv)).1 ++ [⟨serviceNameKey, .str (trimSpace svcEnv)⟩]) :=
        eq_of_lookup_eq hw.1 (contents_wf _).1 (fun k => by rw [hl k, lookup_contents_append hv])
      simp only [hattrs, schemaRef, if_true]
      cases (pairsOf (trimSpace attrsEnv)).2 <;> simp

/-- **OTEL_SERVICE_NAME takes precedence**: when it is set (non-blank), `service.name` is bound to
its trimmed value whatever OTEL_RESOURCE_ATTRIBUTES says, and every other key keeps the binding
it gets from OTEL_RESOURCE_ATTRIBUTES. -/
theorem env_service_name_wins (attrsEnv svcEnv : Bytes) (h : trimSpace svcEnv ≠ []) :
    lookup (fromEnv attrsEnv svcEnv).1.attrs serviceNameKey = some (.str (trimSpace svcEnv)) ∧
    ∀ k, k ≠ serviceNameKey →
      lookup (fromEnv attrsEnv svcEnv).1.attrs k = lookup (fromEnv attrsEnv []).1.attrs k := by
  have hv : ∀ x ∈ [(⟨serviceNameKey, .str (trimSpace svcEnv)⟩ : KV)], valid x = true := by
    intro x hx; rw [List.mem_singleton.mp hx]; exact valid_serviceName _
  have hnil : trimSpace [] = [] := by decide
  have hc : contents [(⟨serviceNameKey, .str (trimSpace svcEnv)⟩ : KV)] = [⟨serviceNameKey, .str (trimSpace svcEnv)⟩] :=
    contents_of_wf ⟨by simp [SSorted], hv⟩
  rw [(env_parse_spec attrsEnv svcEnv).1, (env_parse_spec attrsEnv []).1]
  simp only [envRef, h, hnil, if_false, if_true, List.append_nil]
  refine ⟨?_, fun k hk => ?_⟩
  · rw [lookup_contents_append hv, hc]; simp [lookup_cons]
  · rw [lookup_contents_append hv, hc]
    have : ¬ serviceNameKey = k := fun e => hk e.symm
    simp [lookup_cons, this]

private theorem renderEnv_bytes (ps : List (Bytes × Bytes)) (hne : ps ≠ []) (hk : ∀ p ∈ ps, cleanKey p.1 = true) :
    renderEnv ps ≠ [] ∧ ∀ b ∈ renderEnv ps, graphicB b = true := by
  induction ps with
  | nil => exact absurd rfl hne
  | cons p rest ih =>
    have hp := renderPair_bytes p (hk p (by simp))
    cases rest with
    | nil =>
      simp only [renderEnv, List.map_cons, List.map_nil, List.intersperse_singleton, List.flatten_cons,
        List.flatten_nil, List.append_nil]
      exact ⟨hp.1, fun b hb => (hp.2 b hb).1⟩
    | cons q qs =>
      have ih' := ih (by simp) (fun z hz => hk z (by simp [hz]))
      have e : renderEnv (p :: q :: qs) = renderPair p ++ 0x2C :: renderEnv (q :: qs) := by
        simp [renderEnv, List.intersperse_cons_cons]
      rw [e]
      refine ⟨by simp [hp.1], fun b hb => ?_⟩
      rcases List.mem_append.mp hb with h | h
      · exact (hp.2 b h).1
      · rcases List.mem_cons.mp h with h | h
        · subst h; decide
        · exact ih'.2 b h

/-- **escape∘unescape is lossless, well-formed lists are recovered**: rendering any non-empty list of
pairs (keys: non-empty graphic ASCII without `,` `=`; values: *arbitrary bytes*, percent-encoded)
as `k1=v1,k2=v2,…` and handing it to the detector gives back exactly those pairs — hence the
resource built from them — without error. -/
theorem env_roundtrip (ps : List (Bytes × Bytes)) (hne : ps ≠ []) (hk : ∀ p ∈ ps, cleanKey p.1 = true) :
    envPairs (renderEnv ps) = (ps.map (fun p => ⟨p.1, .str p.2⟩), false) ∧
    (fromEnv (renderEnv ps) []).1 = ⟨contents (ps.map (fun p => ⟨p.1, .str p.2⟩)), []⟩ ∧
    (fromEnv (renderEnv ps) []).2.1 = none := by
  obtain ⟨hrne, hg⟩ := renderEnv_bytes ps hne hk
  have hsplit : splitOn 0x2C (renderEnv ps) = ps.map renderPair := by
    apply splitOn_join
    · simpa using hne
    · intro x hx b hb
      obtain ⟨p, hp, e⟩ := List.mem_map.mp hx
      subst e
      exact ((renderPair_bytes p (hk p hp)).2 b hb).2
  have hpairs : envPairs (renderEnv ps) = (ps.map (fun p => ⟨p.1, .str p.2⟩), false) := by
    unfold envPairs pairsOf
    rw [trimSpace_graphic _ hg]
    simp only [hrne, if_false, hsplit]
    have h1 : (ps.map renderPair).filterMap pairKV = ps.map (fun p => (⟨p.1, .str p.2⟩ : KV)) := by
      clear hsplit hrne hg hne
      induction ps with
      | nil => rfl
      | cons p rest ih =>
        simp only [List.map_cons, List.filterMap_cons, pairKV_renderPair p (hk p (by simp))]
        rw [ih (fun z hz => hk z (by simp [hz]))]
    have h2 : (ps.map renderPair).any (fun p => (cut 0x3D p).isNone) = false := by
      apply List.any_eq_false.mpr
      intro x hx
      obtain ⟨p, hp, e⟩ := List.mem_map.mp hx
      subst e
      obtain ⟨_, hkb⟩ := cleanKey_bytes (hk p hp)
      simp [renderPair, cut_append 0x3D p.1 _ (fun b hb => (hkb b hb).2.2)]
    rw [h1, h2]
  have hnil : trimSpace [] = [] := by decide
  have hspec := env_parse_spec (renderEnv ps) []
  simp only [envRef, hpairs, hnil, if_true, List.append_nil, Bool.false_eq_true, if_false] at hspec
  exact ⟨hpairs, hspec.1, hspec.2⟩

/-- **the environment parser is the inverse of the serialiser, under the exact predicate on keys**
(`Spec.keyOK`: unchanged by `strings.TrimSpace`, no `,`, no `=` — otherwise ANY bytes, incl. the empty
key and non-UTF-8; values: arbitrary bytes, percent-encoded): rendering any list of such pairs
(also the empty list) and handing it to the detector gives back exactly those pairs, hence the
resource built from them, without error. -/
theorem env_roundtrip_general (ps : List (Bytes × Bytes)) (hk : ∀ p ∈ ps, keyOK p.1 = true) :
    envPairs (renderEnv ps) = (ps.map (fun p => ⟨p.1, .str p.2⟩), false) ∧
    (fromEnv (renderEnv ps) []).1 = ⟨contents (ps.map (fun p => ⟨p.1, .str p.2⟩)), []⟩ ∧
    (fromEnv (renderEnv ps) []).2.1 = none := by
  have hpairs : envPairs (renderEnv ps) = (ps.map (fun p => ⟨p.1, .str p.2⟩), false) := by
    unfold envPairs pairsOf
    rw [trimSpace_renderEnv ps hk]
    cases hps : ps with
    | nil => rfl
    | cons p0 rest =>
      rw [← hps]
      have hne : ps ≠ [] := by rw [hps]; simp
      have hrne : renderEnv ps ≠ [] := by
        obtain ⟨tl, e⟩ := renderEnv_head p0 rest
        rw [hps, e]; simp
      have hsplit : splitOn 0x2C (renderEnv ps) = ps.map renderPair := by
        apply splitOn_join
        · simpa using hne
        · intro x hx b hb
          obtain ⟨p, hp, e⟩ := List.mem_map.mp hx
          subst e
          exact renderPair_no_comma p (hk p hp) b hb
      simp only [hrne, if_false, hsplit]
      have h1 : (ps.map renderPair).filterMap pairKV = ps.map (fun p => (⟨p.1, .str p.2⟩ : KV)) := by
        clear hsplit hrne hne hps
        induction ps with
        | nil => rfl
        | cons p rest ih =>
          simp only [List.map_cons, List.filterMap_cons, pairKV_renderPair' p (hk p (by simp))]
          rw [ih (fun z hz => hk z (by simp [hz]))]
      have h2 : (ps.map renderPair).any (fun p => (cut 0x3D p).isNone) = false := by
        apply List.any_eq_false.mpr
        intro x hx
        obtain ⟨p, hp, e⟩ := List.mem_map.mp hx
        subst e
        simp [renderPair, cut_append 0x3D p.1 _ (keyOK_parts (hk p hp)).2.2.2]
      rw [h1, h2]
  have hnil : trimSpace [] = [] := by decide
  have hspec := env_parse_spec (renderEnv ps) []
  simp only [envRef, hpairs, hnil, if_true, List.append_nil, Bool.false_eq_true, if_false] at hspec
  exact ⟨hpairs, hspec.1, hspec.2⟩

/-- **… and only under it**: every key the parser ever produces satisfies `keyOK` (it is a trimmed,
comma- and equals-free piece of the input), so a list with any other key cannot come back; together
with `env_roundtrip_general`: a list of pairs survives the round trip iff all its keys are `keyOK`. -/
theorem env_roundtrip_iff (ps : List (Bytes × Bytes)) :
    envPairs (renderEnv ps) = (ps.map (fun p => ⟨p.1, .str p.2⟩), false) ↔ ∀ p ∈ ps, keyOK p.1 = true := by
  refine ⟨fun h p hp => ?_, fun hk => (env_roundtrip_general ps hk).1⟩
  have hmem : (⟨p.1, .str p.2⟩ : KV) ∈ (envPairs (renderEnv ps)).1 := by
    rw [h]; exact List.mem_map.mpr ⟨p, hp, rfl⟩
  exact pairsOf_keys_ok _ _ hmem

/-- whatever OTEL_RESOURCE_ATTRIBUTES holds, every attribute key of the detected resource is a
`keyOK` key (or `service.name`) -/
theorem env_keys_wellformed (attrsEnv : Bytes) : ∀ kv ∈ (envPairs attrsEnv).1, keyOK kv.key = true :=
  pairsOf_keys_ok _

/-- **equal resources have equal map identities**: `Equal` *is* the comparison of `Equivalent()`
(one function in the model); by C05 it holds iff both resources hold the same mapping under the
representation's identity, whatever the schema URLs; and a resource equals itself unless a
FLOAT64SLICE attribute contains a NaN (known finding F9, inherited from C05). -/
theorem resource_equal_iff_equivalent (a b : Res) (ha : WF a.attrs) (hb : WF b.attrs) :
    equal a.attrs b.attrs = sameMapping goEq a.attrs b.attrs ∧
    (F9_applies a.attrs = false → equal a.attrs a.attrs = true) :=
  ⟨(equal_iff_same_mapping a.attrs b.attrs ((strictSorted_iff _).mpr ha.1) ((strictSorted_iff _).mpr hb.1)).2,
   equal_refl_partial a.attrs⟩

/-- all detectors return nil or well-formed resources (true of every resource built through the API) -/
def WFds (ds : List (Option DetOut)) : Prop := ∀ d ∈ ds, ∀ o, d = some o → ∀ r, o.res = some r → WF r.attrs

/-- **Detect, all clauses at once, in the form the oracle checks on the real code** (`Spec.detectRef`):
the loop of `detect` computes exactly the reference — attributes = last-wins mapping of the
concatenated attributes of the detectors that are kept (nil detectors, nil resources and detectors
failing with a non-partial error contribute nothing), schema = fold of the schema rule (emptied
when the joined error Is ErrSchemaURLConflict), error flags as `errors.Is` reports them. -/
theorem detect_spec (init : Bytes) (ds : List (Option DetOut)) (h : WFds ds) :
    detect init ds = detectRef init ds := by
  obtain ⟨h1, h2, h3, h4, h5⟩ := foldl_detectStep ds { res := ⟨[], init⟩ } wf_nil h
  simp only [List.nil_append, Bool.false_or] at h1 h2 h3 h4 h5
  unfold detect detectRef
  cases hst : ds.foldl detectStep { res := ⟨[], init⟩ } with
  | mk res anyErr partialSeen conflictSeen =>
    rw [hst] at h1 h2 h3 h4 h5
    cases res with
    | mk attrs schema =>
      simp only at h1 h2 h3 h4 h5
      subst h1 h2 h3 h4 h5
      simp only
      split <;> simp_all

/-- **later detectors win**: every key is bound to the value of the last kept detector that binds it -/
theorem detect_later_wins (init : Bytes) (ds : List (Option DetOut)) (h : WFds ds) (k : Bytes) :
    lookup (detect init ds).res.attrs k = lookupLast ((ds.filterMap keptRes).flatMap (·.attrs)) k := by
  rw [detect_spec init ds h]
  simp only [detectRef]
  rw [lookup_contents]
  cases hl : lookupLast ((ds.filterMap keptRes).flatMap (·.attrs)) k with
  | none => rfl
  | some v =>
    have hm := mem_of_lookupLast hl
    obtain ⟨r, hr, hxr⟩ := List.mem_flatMap.mp hm
    obtain ⟨d', hd', hk⟩ := List.mem_filterMap.mp hr
    have hv : valid ⟨k, v⟩ = true := by
      cases d' with
      | none => simp [keptRes] at hk
      | some o =>
        simp only [keptRes] at hk
        split at hk
        · cases hk
        · exact (h _ hd' o rfl r hk).2 _ hxr
    simp [guard, hv]

/-- **partial failure keeps the rest**: a detector failing with a non-partial error (or a nil one) is
skipped, everything else — including the result of detectors reporting a *partial* error — is
merged; an error is returned iff some detector failed or schema URLs conflicted; a conflict
(from a merge or reported by a detector) empties the schema URL. -/
theorem detect_partial_failure_keeps_rest (init : Bytes) (ds : List (Option DetOut)) (h : WFds ds) :
    (detect init ds).res.attrs = contents ((ds.filterMap keptRes).flatMap (·.attrs)) ∧
    ((detect init ds).anyErr = true ↔
      (∃ d ∈ ds, detErr d ≠ none) ∨ ((ds.filterMap keptRes).foldl schemaStep (init, false)).2 = true) ∧
    ((detect init ds).anyErr = true → (detect init ds).conflictSeen = true → (detect init ds).res.schema = []) ∧
    ((detect init ds).anyErr = false →
      (detect init ds).res.schema = ((ds.filterMap keptRes).foldl schemaStep (init, false)).1) := by
  rw [detect_spec init ds h]
  simp only [detectRef]
  refine ⟨trivial, ?_, ?_, ?_⟩
  · simp only [Bool.or_eq_true, Bool.not_eq_true', List.isEmpty_eq_false_iff_exists_mem]
    constructor
    · rintro (⟨e, he⟩ | h2)
      · obtain ⟨d, hd, hde⟩ := List.mem_filterMap.mp he
        exact Or.inl ⟨d, hd, by simp [hde]⟩
      · exact Or.inr h2
    · rintro (⟨d, hd, hne⟩ | h2)
      · cases hde : detErr d with
        | none => exact absurd hde hne
        | some e => exact Or.inl ⟨e, List.mem_filterMap.mpr ⟨d, hd, hde⟩⟩
      · exact Or.inr h2
  · intro h1 h2; rw [h1, h2]; rfl
  · intro h1; rw [h1]; rfl

/-- every explicitly given detector returns nil or a well-formed resource -/
def WFopts (opts : List Opt) : Prop := ∀ o ∈ opts, ∀ ds, o = Opt.withDetectors ds → WFds ds

/-- every built-in detector returns nil or a well-formed resource -/
def WFenv (env : Env) : Prop := ∀ d r, (env.builtin d).res = some r → WF r.attrs

private theorem optDetectors_eq_ref (env : Env) (o : Opt) : optDetectors env o = optDetRef env o := by
  cases o with
  | withSchemaURL s => rfl
  | withDetectors ds => rfl
  | withAttributes kvs => simp [optDetectors, optDetRef, newSchemaless_eq]
  | withFromEnv =>
    obtain ⟨h1, h2⟩ := env_parse_spec env.attrs env.svc
    simp [optDetectors, optDetRef, envDetRef, h1, h2]
  | withBuiltin o => cases o <;> rfl

private theorem foldl_applyOpt (env : Env) (opts : List Opt) (cfg : Cfg) :
    (opts.foldl (applyOpt env) cfg).detectors = cfg.detectors ++ opts.flatMap (optDetectors env) ∧
    (opts.foldl (applyOpt env) cfg).schemaURL =
      opts.foldl (fun s o => match o with | .withSchemaURL x => x | _ => s) cfg.schemaURL := by
  induction opts generalizing cfg with
  | nil => simp
  | cons o rest ih =>
    obtain ⟨h1, h2⟩ := ih (applyOpt env cfg o)
    simp only [List.foldl_cons, List.flatMap_cons]
    rw [h1, h2]
    cases o <;> simp [applyOpt, optDetectors]

private theorem wfds_flatMap (env : Env) (opts : List Opt) (h : WFopts opts) (he : WFenv env) :
    WFds (opts.flatMap (optDetRef env)) := by
  intro d hd o hdo r hr
  obtain ⟨opt, hopt, hmem⟩ := List.mem_flatMap.mp hd
  cases opt with
  | withSchemaURL s => simp [optDetRef] at hmem
  | withDetectors ds => exact h _ hopt ds rfl d hmem o hdo r hr
  | withAttributes kvs =>
    simp only [optDetRef, List.mem_singleton] at hmem
    subst hmem; cases hdo; cases hr
    exact contents_wf kvs
  | withFromEnv =>
    simp only [optDetRef, envDetRef, List.mem_singleton] at hmem
    subst hmem; cases hdo; cases hr
    exact contents_wf _
  | withBuiltin b =>
    simp only [optDetRef, List.mem_filterMap, Option.map_eq_some_iff] at hmem
    obtain ⟨_, _, bd, _, e⟩ := hmem
    subst e; cases hdo
    exact he bd r hr

/-- **resource.New, in the form the oracle checks on the real code** (`Spec.newRef`): applying the
options in order and running `detect` equals the `Detect` reference on the concatenation of every
option's detectors in option order — nothing is skipped or re-ordered, an option or detector that
is given again counts again at its later position — started from the LAST schema URL option. -/
theorem new_spec (env : Env) (opts : List Opt) (h : WFopts opts) (he : WFenv env) :
    newResource env opts = newRef env opts := by
  obtain ⟨h1, h2⟩ := foldl_applyOpt env opts {}
  unfold newResource newRef schemaOf
  simp only [List.nil_append] at h1 h2
  show detect (opts.foldl (applyOpt env) {}).schemaURL (opts.foldl (applyOpt env) {}).detectors = _
  rw [h1, h2]
  have : opts.flatMap (optDetectors env) = opts.flatMap (optDetRef env) := by
    congr 1; funext o; exact optDetectors_eq_ref env o
  rw [this]
  exact detect_spec _ _ (wfds_flatMap env opts h he)

/-- **later options and later detectors win**, on the option path of `New`: every key is bound to
the value of the last kept detector — over all options, in option order — that binds it.  In
particular a detector configured again as the last option prevails over everything configured
between its two occurrences: whatever `pre` is, `New(pre…, WithDetectors(d))` binds every key of
`d`'s resource to `d`'s value. -/
theorem new_later_option_wins (env : Env) (opts : List Opt) (h : WFopts opts) (he : WFenv env) :
    (∀ k, lookup (newResource env opts).res.attrs k =
      lookupLast (((opts.flatMap (optDetRef env)).filterMap keptRes).flatMap (·.attrs)) k) ∧
    (∀ (pre : List Opt) (r : Res) (e : Option Err), opts = pre ++ [Opt.withDetectors [some ⟨some r, e⟩]] →
      e.all (·.isPartial) = true →
      ∀ k v, lookup r.attrs k = some v → lookup (newResource env opts).res.attrs k = some v) := by
  have hall : ∀ k, lookup (newResource env opts).res.attrs k =
      lookupLast (((opts.flatMap (optDetRef env)).filterMap keptRes).flatMap (·.attrs)) k := by
    intro k
    rw [new_spec env opts h he]
    have := detect_later_wins (schemaOf opts) (opts.flatMap (optDetRef env)) (wfds_flatMap env opts h he) k
    rw [detect_spec _ _ (wfds_flatMap env opts h he)] at this
    exact this
  refine ⟨hall, ?_⟩
  intro pre r e hopts he k v hkv
  have hmem : Opt.withDetectors [some ⟨some r, e⟩] ∈ opts := by rw [hopts]; simp
  have hr : WF r.attrs := h _ hmem _ rfl _ (List.mem_singleton.mpr rfl) _ rfl r rfl
  rw [hall k, hopts]
  have hkept : keptRes (some ⟨some r, e⟩) = some r := by
    cases e with
    | none => rfl
    | some e' =>
      have : e'.isPartial = true := by simpa using he
      simp [keptRes, this]
  simp only [List.flatMap_append, List.flatMap_cons, List.flatMap_nil, List.append_nil, optDetRef,
    List.filterMap_append, List.filterMap_cons, List.filterMap_nil, hkept]
  rw [lookupLast_append, lookupLast_eq_lookup hr.1, hkv]
  rfl


/-- is this a `WithSchemaURL` option? -/
def isSchemaOpt : Opt → Bool
  | .withSchemaURL _ => true
  | _ => false

private theorem flatMap_nonschema (env : Env) (opts : List Opt) :
    (opts.filter (fun o => !isSchemaOpt o)).flatMap (optDetectors env) = opts.flatMap (optDetectors env) := by
  induction opts with
  | nil => rfl
  | cons o rest ih =>
    have e1 : ∀ x, isSchemaOpt (.withSchemaURL x) = true := fun _ => rfl
    have e2 : ∀ x, isSchemaOpt (.withDetectors x) = false := fun _ => rfl
    have e3 : ∀ x, isSchemaOpt (.withAttributes x) = false := fun _ => rfl
    have e4 : isSchemaOpt .withFromEnv = false := rfl
    have e5 : ∀ x, isSchemaOpt (.withBuiltin x) = false := fun _ => rfl
    cases o <;> simp [List.filter_cons, e1, e2, e3, e4, e5, optDetectors, ih]

private theorem schema_fold_nonschema (opts : List Opt) (s : Bytes) :
    (opts.filter (fun o => !isSchemaOpt o)).foldl (fun s o => match o with | .withSchemaURL x => x | _ => s) s = s := by
  induction opts with
  | nil => rfl
  | cons o rest ih =>
    have e1 : ∀ x, isSchemaOpt (.withSchemaURL x) = true := fun _ => rfl
    have e2 : ∀ x, isSchemaOpt (.withDetectors x) = false := fun _ => rfl
    have e3 : ∀ x, isSchemaOpt (.withAttributes x) = false := fun _ => rfl
    have e4 : isSchemaOpt .withFromEnv = false := rfl
    have e5 : ∀ x, isSchemaOpt (.withBuiltin x) = false := fun _ => rfl
    cases o <;> simp [List.filter_cons, e1, e2, e3, e4, e5, ih]

/-- **option order in `resource.New`**, for any mix of `WithSchemaURL`, `WithAttributes`, `WithFromEnv`,
`WithDetectors` and built-in options in any order:
(i) only the LAST `WithSchemaURL` counts and where the schema options stand among the others is
irrelevant (`New(opts)` = `New(WithSchemaURL(last), the other options in their order)`);
(ii) per key the LAST option (and within an option the last detector) that provides it wins;
(iii) the result reports a schema conflict iff a detector did or folding the kept resources' schema
URLs from that last `WithSchemaURL` conflicts; without conflict the schema URL is that fold, with
one it is empty — the attributes are unaffected either way. -/
theorem new_option_order (env : Env) (opts : List Opt) (h : WFopts opts) (he : WFenv env) :
    newResource env opts =
      newResource env (Opt.withSchemaURL (schemaOf opts) :: opts.filter (fun o => !isSchemaOpt o)) ∧
    (∀ k, lookup (newResource env opts).res.attrs k =
      lookupLast (((opts.flatMap (optDetRef env)).filterMap keptRes).flatMap (·.attrs)) k) ∧
    ((newResource env opts).conflictSeen =
      (((opts.flatMap (optDetRef env)).filterMap detErr).any (·.isConflict) ||
        (((opts.flatMap (optDetRef env)).filterMap keptRes).foldl schemaStep (schemaOf opts, false)).2)) ∧
    ((newResource env opts).conflictSeen = false → (newResource env opts).res.schema =
      (((opts.flatMap (optDetRef env)).filterMap keptRes).foldl schemaStep (schemaOf opts, false)).1) ∧
    ((newResource env opts).conflictSeen = true → (newResource env opts).res.schema = []) := by
  refine ⟨?_, (new_later_option_wins env opts h he).1, ?_, ?_, ?_⟩
  · obtain ⟨a1, a2⟩ := foldl_applyOpt env opts {}
    obtain ⟨b1, b2⟩ := foldl_applyOpt env (Opt.withSchemaURL (schemaOf opts) :: opts.filter (fun o => !isSchemaOpt o)) {}
    unfold newResource
    show detect (opts.foldl (applyOpt env) {}).schemaURL (opts.foldl (applyOpt env) {}).detectors =
      detect ((Opt.withSchemaURL (schemaOf opts) :: opts.filter (fun o => !isSchemaOpt o)).foldl (applyOpt env) {}).schemaURL
        ((Opt.withSchemaURL (schemaOf opts) :: opts.filter (fun o => !isSchemaOpt o)).foldl (applyOpt env) {}).detectors
    rw [a1, a2, b1, b2]
    simp only [List.flatMap_cons, optDetectors, List.nil_append, flatMap_nonschema, List.foldl_cons,
      schema_fold_nonschema]
    rfl
  · rw [new_spec env opts h he]; rfl
  · intro hc
    rw [new_spec env opts h he] at hc ⊢
    simp only [newRef, detectRef] at hc ⊢
    rw [hc]; simp
  · intro hc
    rw [new_spec env opts h he] at hc ⊢
    simp only [newRef, detectRef] at hc ⊢
    rw [hc]
    have : (!((opts.flatMap (optDetRef env)).filterMap detErr).isEmpty ||
        (((opts.flatMap (optDetRef env)).filterMap keptRes).foldl schemaStep (schemaOf opts, false)).2) = true := by
      rcases Bool.or_eq_true _ _ |>.mp hc with h1 | h1
      · obtain ⟨e, he', _⟩ := List.any_eq_true.mp h1
        have : ((opts.flatMap (optDetRef env)).filterMap detErr).isEmpty = false := by
          cases hl : (opts.flatMap (optDetRef env)).filterMap detErr with
          | nil => rw [hl] at he'; cases he'
          | cons _ _ => rfl
        simp [this]
      · simp [h1]
    simp [this]

/-! ### session 3: `detect` = left fold of `Merge`; StringDetector; built-in options; Default() -/

private theorem mergeFold_cons (acc : Res × Bool) (x : Option Res) (xs : List (Option Res)) :
    mergeFold acc (x :: xs) = mergeFold ((merge (some acc.1) x).1, acc.2 || (merge (some acc.1) x).2) xs := rfl

private theorem mergeFold_flag (rs : List (Option Res)) (r : Res) (f : Bool) :
    mergeFold (r, f) rs = ((mergeFold (r, false) rs).1, f || (mergeFold (r, false) rs).2) := by
  induction rs generalizing r f with
  | nil => simp [mergeFold]
  | cons x xs ih =>
    rw [mergeFold_cons, mergeFold_cons, ih _ (f || _), ih _ (false || _)]
    simp [Bool.or_assoc]

private theorem detectStep_fields (st : DetState) (d : Option DetOut) :
    (detectStep st d).res = (match mergedArg d with | none => st.res | some r => (merge (some st.res) r).1) ∧
    (detectStep st d).anyErr = (st.anyErr || (detErr d).isSome ||
      (match mergedArg d with | none => false | some r => (merge (some st.res) r).2)) ∧
    (detectStep st d).partialSeen = (st.partialSeen || (detErr d).any (·.isPartial)) ∧
    (detectStep st d).conflictSeen = (st.conflictSeen || (detErr d).any (·.isConflict) ||
      (match mergedArg d with | none => false | some r => (merge (some st.res) r).2)) := by
  cases d with
  | none => simp [detectStep, mergedArg, detErr]
  | some o =>
    obtain ⟨res, err⟩ := o
    cases err with
    | none => cases hm : (merge (some st.res) res).2 <;> simp [detectStep, mergedArg, detErr, joinErr, hm]
    | some e =>
      cases hp : e.isPartial with
      | false => simp [detectStep, mergedArg, detErr, joinErr, hp]
      | true =>
        have hres : (joinErr st e).res = st.res := rfl
        cases hm : (merge (some st.res) res).2 <;> simp [detectStep, mergedArg, detErr, joinErr, hp, hm]

private theorem foldl_detectStep_mergeFold (ds : List (Option DetOut)) (st : DetState) :
    ds.foldl detectStep st =
      { res := (mergeFold (st.res, false) (ds.filterMap mergedArg)).1,
        anyErr := st.anyErr || !(ds.filterMap detErr).isEmpty || (mergeFold (st.res, false) (ds.filterMap mergedArg)).2,
        partialSeen := st.partialSeen || (ds.filterMap detErr).any (·.isPartial),
        conflictSeen := st.conflictSeen || (ds.filterMap detErr).any (·.isConflict) ||
          (mergeFold (st.res, false) (ds.filterMap mergedArg)).2 } := by
  induction ds generalizing st with
  | nil => simp [mergeFold]
  | cons d ds ih =>
    obtain ⟨f1, f2, f3, f4⟩ := detectStep_fields st d
    rw [List.foldl_cons, ih, f1, f2, f3, f4]
    cases hma : mergedArg d with
    | none =>
      cases hde : detErr d <;>
        simp [hma, hde, Bool.or_assoc]
    | some r =>
      have hfl := mergeFold_flag (ds.filterMap mergedArg) (merge (some st.res) r).1 (merge (some st.res) r).2
      cases hde : detErr d <;>
        simp [hma, hde, mergeFold_cons, hfl, Bool.or_assoc, Bool.or_comm, Bool.or_left_comm]

/-- **`detect` is the left fold of `Merge`** over the resources of the detectors that are not nil and
did not fail with a non-partial error — every one of them, nil resources and attribute-less
resources included, in detector order, starting from `&Resource{schemaURL: init}` — and its error
is the join of the detectors' errors and of every conflict raised by one of these `Merge` calls;
the schema URL is emptied exactly when that joined error Is ErrSchemaURLConflict.  No
well-formedness hypothesis: this is about the loop, whatever `Merge` does. -/
theorem detect_is_merge_fold (init : Bytes) (ds : List (Option DetOut)) :
    let f := mergeFold (⟨[], init⟩, false) (ds.filterMap mergedArg)
    let errs := ds.filterMap detErr
    (detect init ds).anyErr = (!errs.isEmpty || f.2) ∧
    (detect init ds).partialSeen = errs.any (·.isPartial) ∧
    (detect init ds).conflictSeen = (errs.any (·.isConflict) || f.2) ∧
    (detect init ds).res =
      (if (!errs.isEmpty || f.2) && (errs.any (·.isConflict) || f.2) then { f.1 with schema := [] } else f.1) := by
  intro f errs
  have h := foldl_detectStep_mergeFold ds { res := ⟨[], init⟩ }
  unfold detect
  simp only [Bool.false_or] at h
  rw [h]
  simp only
  split <;> simp_all [f, errs]

/-- **`StringDetector`**: one attribute `k = f()` under the given schema URL when `f` succeeds and the
key is non-empty; otherwise no resource and a non-partial error (so `detect` skips it). -/
theorem stringDetector_spec (schema k : Bytes) (f : Option Bytes) :
    stringDetector schema k f = stringDetRef schema k f ∧
    ∀ r, (stringDetector schema k f).res = some r → WF r.attrs := by
  cases f with
  | none => exact ⟨rfl, fun r hr => by simp [stringDetector] at hr⟩
  | some v =>
    by_cases hk : k = []
    · subst hk
      exact ⟨by simp [stringDetector, stringDetRef, valid], fun r hr => by simp [stringDetector, valid] at hr⟩
    · have hv : valid ⟨k, .str v⟩ = true := by
        cases k with
        | nil => exact absurd rfl hk
        | cons a as => simp [valid]
      have hwf : WF [(⟨k, .str v⟩ : KV)] := ⟨by simp [SSorted], fun x hx => by rw [List.mem_singleton.mp hx]; exact hv⟩
      have e : stringDetector schema k (some v) = ⟨some ⟨[⟨k, .str v⟩], schema⟩, none⟩ := by
        simp [stringDetector, hv, newWithAttributes_eq, contents_of_wf hwf]
      rw [e]
      exact ⟨by simp [stringDetRef, hk], fun r hr => by cases hr; exact hwf⟩

/-- **a composite built-in option is the sequence of its single options** (`WithOS` = `WithOSType`,
`WithOSDescription`; `WithProcess` = the eight `WithProcess…`; `WithContainer` = `WithContainerID`),
wherever it stands among the other options: none of the detectors is dropped or moved. -/
theorem new_builtin_composite (env : Env) (pre post : List Opt) (o : BOpt) :
    newResource env (pre ++ [Opt.withBuiltin o] ++ post) =
      newResource env (pre ++ (optSingles o).map Opt.withBuiltin ++ post) := by
  have key : ∀ cfg : Cfg, ((optSingles o).map Opt.withBuiltin).foldl (applyOpt env) cfg =
      applyOpt env cfg (.withBuiltin o) := by
    intro cfg
    cases o <;> simp [optSingles, applyOpt, optDetectors, builtinDetectors]
  unfold newResource
  simp only [List.foldl_append, List.foldl_cons, List.foldl_nil, key]

private theorem defaultDetectors_eq_ref (env : Env) :
    defaultDetectors env = [some (env.builtin .defaultServiceName), envDetRef env, some (env.builtin .telemetrySDK)] := by
  obtain ⟨h1, h2⟩ := env_parse_spec env.attrs env.svc
  simp [defaultDetectors, envDetRef, h1, h2]

private theorem wfds_default (env : Env) (he : WFenv env) :
    WFds [some (env.builtin .defaultServiceName), envDetRef env, some (env.builtin .telemetrySDK)] := by
  intro d hd o hdo r hr
  simp only [List.mem_cons, List.mem_nil_iff, or_false] at hd
  rcases hd with h | h | h
  · subst h; cases hdo; exact he _ r hr
  · subst h; simp only [envDetRef, Option.some.injEq] at hdo; subst hdo; cases hr; exact contents_wf _
  · subst h; cases hdo; exact he _ r hr

/-- **Default(), first call** (`Spec.defaultRef`): the resource is the `Detect` reference over the default
service name, the environment and the telemetry-SDK detector in this order, it becomes the cached
value, and `otel.Handle` is called once per undecodable escape plus once iff `Detect` reported an error. -/
theorem default_first_call (env : Env) (he : WFenv env) :
    (defaultCall none env).1 = (defaultRef env).res ∧
    (defaultCall none env).2.2 = some (defaultRef env).res ∧
    (defaultCall none env).2.1 = (fromEnv env.attrs env.svc).2.2 + (if (defaultRef env).anyErr then 1 else 0) := by
  have h : detect [] (defaultDetectors env) = defaultRef env := by
    rw [defaultDetectors_eq_ref]; exact detect_spec _ _ (wfds_default env he)
  simp [defaultCall, h]

private theorem defaultSeq_cached (r : Res) (envs : List Env) : defaultSeq (some r) envs = envs.map (fun _ => r) := by
  induction envs with
  | nil => rfl
  | cons e es ih => simp [defaultSeq, defaultCall, ih]

/-- **Default() is computed once** (`Spec.defaultSeqOK`): whatever the environment is at later calls,
every call returns what the first call computed from the environment it saw. -/
theorem default_cached (envs : List Env) (he : ∀ e ∈ envs, WFenv e) :
    defaultSeqOK envs (defaultSeq none envs) = true := by
  cases envs with
  | nil => rfl
  | cons e es =>
    obtain ⟨h1, h2, _⟩ := default_first_call e (he e (by simp))
    simp [defaultSeqOK, defaultSeq, h1, h2, defaultSeq_cached]

/-- **precedence inside Default()**: telemetry-SDK attributes win over the environment, which wins over
the default service name (so OTEL_SERVICE_NAME / OTEL_RESOURCE_ATTRIBUTES override
`unknown_service:<exe>` but cannot override `telemetry.sdk.*`). -/
theorem default_precedence (env : Env) (sv ts : Res) (hsv : env.builtin .defaultServiceName = ⟨some sv, none⟩)
    (hts : env.builtin .telemetrySDK = ⟨some ts, none⟩) (hwsv : WF sv.attrs) (hwts : WF ts.attrs) (k : Bytes) :
    lookup (defaultCall none env).1.attrs k =
      (lookup ts.attrs k).or ((lookup (fromEnv env.attrs env.svc).1.attrs k).or (lookup sv.attrs k)) := by
  have hwf : WFds [some (env.builtin .defaultServiceName), envDetRef env, some (env.builtin .telemetrySDK)] := by
    intro d hd o hdo r hr
    simp only [List.mem_cons, List.mem_nil_iff, or_false] at hd
    rcases hd with h | h | h
    · subst h; cases hdo; rw [hsv] at hr; cases hr; exact hwsv
    · subst h; simp only [envDetRef, Option.some.injEq] at hdo; subst hdo; cases hr; exact contents_wf _
    · subst h; cases hdo; rw [hts] at hr; cases hr; exact hwts
  have h : (defaultCall none env).1 = (detect [] (defaultDetectors env)).res := rfl
  rw [h, defaultDetectors_eq_ref, detect_later_wins _ _ hwf k, (env_parse_spec env.attrs env.svc).1]
  have hkept : keptRes (envDetRef env) = some ⟨(envRef env.attrs env.svc).1, []⟩ := by
    unfold envDetRef keptRes
    cases (envRef env.attrs env.svc).2 <;> simp
  have hk1 : keptRes (some (env.builtin .defaultServiceName)) = some sv := by rw [hsv]; rfl
  have hk3 : keptRes (some (env.builtin .telemetrySDK)) = some ts := by rw [hts]; rfl
  simp only [List.filterMap_cons, List.filterMap_nil, hk1, hk3, hkept, List.flatMap_cons, List.flatMap_nil,
    List.append_nil]
  have hwe : WF (envRef env.attrs env.svc).1 := contents_wf _
  rw [lookupLast_append, lookupLast_append, lookupLast_eq_lookup hwts.1, lookupLast_eq_lookup hwsv.1,
    lookupLast_eq_lookup hwe.1, Option.or_assoc]

private theorem mem_foldl_upsert (kvs acc : List KV) (x : KV)
    (h : x ∈ kvs.foldl (fun m kv => upsert kv m) acc) : x ∈ acc ∨ x ∈ kvs := by
  induction kvs generalizing acc with
  | nil => exact Or.inl h
  | cons k ks ih =>
    rcases ih (upsert k acc) h with h' | h'
    · rcases mem_upsert h' with e | h''
      · exact Or.inr (by simp [e])
      · exact Or.inl h''
    · exact Or.inr (by simp [h'])

/-- **a nil `*Resource` is the empty resource** for every accessor, `Equal` ignores the schema URL, and
`Merge(nil, nil)`, `Empty()`, `NewSchemaless()` and a resource built from invalid attributes only are
all that same empty resource. -/
theorem nil_resource_is_empty (emit : Value → Bytes) (o : Option Res) (s : Bytes) (a : Res) :
    resAttributes none = resAttributes (some Res.empty) ∧ resSchemaURL none = resSchemaURL (some Res.empty) ∧
    resLen none = 0 ∧ resString emit none = resString emit (some Res.empty) ∧
    resEqual none o = resEqual (some Res.empty) o ∧ resEqual o none = resEqual o (some Res.empty) ∧
    resEqual (some a) o = resEqual (some { a with schema := s }) o ∧
    (merge none none).1 = Res.empty ∧ newSchemaless [] = Res.empty ∧
    (∀ l : List KV, (∀ x ∈ l, valid x = false) → newSchemaless l = Res.empty) := by
  refine ⟨rfl, rfl, rfl, rfl, rfl, rfl, rfl, rfl, rfl, fun l hl => ?_⟩
  rw [newSchemaless_eq]
  have : contents l = [] := by
    unfold contents
    apply List.filter_eq_nil_iff.mpr
    intro x hx
    rcases mem_foldl_upsert l [] x hx with h | h
    · cases h
    · simp [hl x h]
  rw [this]; rfl

/-! ### non-vacuity -/

example : merge (some ⟨[⟨[0x61], .int 1⟩, ⟨[0x62], .str [0x78]⟩], [1]⟩) (some ⟨[⟨[0x62], .str [0x79]⟩, ⟨[0x63], .bool true⟩], [2]⟩) =
    (⟨[⟨[0x61], .int 1⟩, ⟨[0x62], .str [0x79]⟩, ⟨[0x63], .bool true⟩], []⟩, true) := by decide
example : wf [⟨[0x61], .int 1⟩, ⟨[0x62], .str [0x78]⟩] = true := by decide
/-- `k= %41 , k2=v%,noeq, =x` with OTEL_SERVICE_NAME=" svc": decoded, raw fall-back, missing `=` reported, empty key dropped -/
example : fromEnv [0x6b, 0x3d, 0x20, 0x25, 0x34, 0x31, 0x20, 0x2c, 0x6b, 0x32, 0x3d, 0x76, 0x25, 0x2c, 0x6e, 0x6f, 0x65, 0x71, 0x2c, 0x20, 0x3d, 0x78]
      [0x20, 0x73, 0x76, 0x63] =
    (⟨[⟨[0x6b], .str [0x41]⟩, ⟨[0x6b, 0x32], .str [0x76, 0x25]⟩, ⟨serviceNameKey, .str [0x73, 0x76, 0x63]⟩], []⟩,
     some ⟨true, false⟩, 1) := by decide
example : cleanKey [0x6b, 0x2e, 0x31] = true ∧
    renderEnv [([0x6b], [0x20, 0xff]), ([0x6b, 0x32], [])] = [0x6b, 0x3d, 0x25, 0x32, 0x30, 0x25, 0x46, 0x46, 0x2c, 0x6b, 0x32, 0x3d] := by decide
/-- `New(WithDetectors(a, b, a))`: the detector `a` given again after `b` wins -/
example : (newResource { attrs := [], svc := [] } [.withDetectors [some ⟨some ⟨[⟨[0x6b], .int 1⟩], []⟩, none⟩, some ⟨some ⟨[⟨[0x6b], .int 2⟩], []⟩, none⟩,
      some ⟨some ⟨[⟨[0x6b], .int 1⟩], []⟩, none⟩]]).res = ⟨[⟨[0x6b], .int 1⟩], []⟩ := by decide
/-- ok(s/1) ; fatal ; partial(s/2, conflicting) ; nil detector ; ok(nil resource) -/
example : detect [] [some ⟨some ⟨[⟨[0x61], .bool true⟩], [1]⟩, none⟩, some ⟨some ⟨[⟨[0x62], .bool true⟩], []⟩, some ⟨false, false⟩⟩,
      some ⟨some ⟨[⟨[0x61], .bool false⟩, ⟨[0x63], .str [0x78]⟩], [2]⟩, some ⟨true, false⟩⟩, none, some ⟨none, none⟩] =
    { res := ⟨[⟨[0x61], .bool false⟩, ⟨[0x63], .str [0x78]⟩], []⟩, anyErr := true, partialSeen := true, conflictSeen := true } := by decide
example : (newSchemaless [⟨[0x6b], .int 1⟩, ⟨[0x6b], .invalid⟩, ⟨[], .str [0x76]⟩, ⟨[0x61], .bool true⟩]).attrs =
    [⟨[0x61], .bool true⟩] := by decide

/-- a fatal detector, a nil resource and an attribute-less resource carrying a schema URL: the fold sees the last two -/
example : (detect [] [some ⟨some ⟨[⟨[0x61], .bool true⟩], []⟩, none⟩, some ⟨some ⟨[⟨[0x62], .bool true⟩], [1]⟩, some ⟨false, false⟩⟩,
      some ⟨none, none⟩, some ⟨some ⟨[], [2]⟩, none⟩]).res = ⟨[⟨[0x61], .bool true⟩], [2]⟩ := by decide
example : stringDetector [1] [0x6b] (some [0x76]) = ⟨some ⟨[⟨[0x6b], .str [0x76]⟩], [1]⟩, none⟩ ∧
    stringDetector [1] [] (some [0x76]) = ⟨none, some ⟨false, false⟩⟩ := by decide
private def exEnv : Env where
  attrs := [0x74, 0x3d, 0x65]
  svc := [0x73]
  builtin := fun d => match d with
    | .defaultServiceName => ⟨some ⟨[⟨serviceNameKey, .str [0x75]⟩], [1]⟩, none⟩
    | .telemetrySDK => ⟨some ⟨[⟨[0x74], .str [0x67, 0x6f]⟩], [1]⟩, none⟩
    | _ => ⟨none, none⟩
/-- Default(): the environment overrides the default service name, not the SDK attributes; the second call is cached -/
example : defaultSeq none [exEnv, { attrs := [], svc := [] }] =
    [⟨[⟨serviceNameKey, .str [0x73]⟩, ⟨[0x74], .str [0x67, 0x6f]⟩], [1]⟩,
     ⟨[⟨serviceNameKey, .str [0x73]⟩, ⟨[0x74], .str [0x67, 0x6f]⟩], [1]⟩] := by decide

/-- keys the first round-trip theorem did not reach: empty, non-ASCII, inner blank; and keys that are not `keyOK` -/
example : keyOK [] = true ∧ keyOK [0xC5, 0xA1] = true ∧ keyOK [0x61, 0x20, 0x62] = true ∧ keyOK [0xff] = true ∧
    keyOK [0x20, 0x61] = false ∧ keyOK [0x61, 0xC2, 0xA0] = false ∧ keyOK [0x61, 0x3D] = false := by decide
example : renderEnv [([], [0x20]), ([0x61, 0x20, 0x62], [])] = [0x3d, 0x25, 0x32, 0x30, 0x2c, 0x61, 0x20, 0x62, 0x3d] := by decide

/-- schema options in the middle and twice, attributes, a detector and a built-in: the last schema URL counts, later options win -/
example : (newResource { attrs := [], svc := [] }
      [.withAttributes [⟨[0x6b], .int 1⟩], .withSchemaURL [1], .withDetectors [some ⟨some ⟨[⟨[0x6b], .int 2⟩], [2]⟩, none⟩],
       .withSchemaURL [2], .withBuiltin .host, .withAttributes [⟨[0x61], .bool true⟩]]).res =
    ⟨[⟨[0x61], .bool true⟩, ⟨[0x6b], .int 2⟩], [2]⟩ := by decide

end Otel.C19
