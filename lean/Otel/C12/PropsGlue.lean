/-
C12 — property theorems about the glue around the aggregators (deepening, session 3):
the wildcard → regexp translation of `NewView` for ALL criteria and names; the cardinality-limit feature flag for ALL
values of the environment variable; the aggregator cache of `inserter` (one entry per normalised id; a later request
for the same id gets the first creator's aggregate function; different ids never share an entry); conservation over
the LIFETIME of a delta stream (nothing is lost or reported twice across cycles).
-/
import Otel.C12.Lemmas
import Otel.C12.GlobLemmas
import Otel.C12.Flag
namespace Otel.C12
open Otel.C02 Otel.C12.Spec

/-! ## view name criterion (view.go:54-81) -/

/-- The wildcard branch of `NewView` for EVERY criterion string and EVERY instrument name: the pattern built by
`regexp.QuoteMeta`, `"^" … "$"` and the two `strings.ReplaceAll` calls (which scan the raw string, knowing nothing
of escape pairs) always lies in the sub-language `^ (\c | . | .* | literal)* $` — one item per rune of the criterion:
`?` ↦ `.`, `*` ↦ `.*`, every other rune (however special for regexps: `.`, `\`, `[`, `+`, `$` …) ↦ itself — so
`MustCompile` cannot panic, and the regexp matches a name iff the name is an instance of the glob (`Glob`: `*` = any
run, `?` = exactly one rune, both newline-free because Go's `.` excludes `\n`; anything else = itself). -/
theorem view_wildcard_translation_is_glob (crit n : Glob.Str) :
    Glob.parseRe (Glob.translate crit) = some (crit.map Glob.tokOf) ∧
    (Glob.reMatch (Glob.translate crit) n = true ↔ Glob.Glob crit n) := by
  refine ⟨Glob.parseRe_translate crit, ?_⟩
  rw [Glob.reMatch_translate]
  exact ⟨Glob.glob_of_match crit n, Glob.match_of_glob crit n⟩

/-- The name part of a view's match function, both branches: a view matches the name `n` iff its name criterion is
absent (empty) or `n` is an instance of the criterion read as a glob.  For a criterion without `*` and `?` (the
`matchesName` branch) that is equality. -/
theorem view_name_match_is_glob (crit n : Glob.Str) :
    (Glob.nameMatch crit n = true ↔ (crit = [] ∨ Glob.Glob crit n)) ∧
    (crit.any Glob.isWild = false → (Glob.Glob crit n ↔ crit = n)) := by
  have hlit : crit.any Glob.isWild = false → (Glob.Glob crit n ↔ crit = n) := by
    intro hw
    have h := Glob.globMatch_no_wild crit n hw
    constructor
    · intro hg
      have := Glob.match_of_glob crit n hg
      rw [h] at this
      exact eq_of_beq this
    · intro he
      apply Glob.glob_of_match
      rw [h, he]
      exact beq_self_eq_true n
  refine ⟨?_, hlit⟩
  unfold Glob.nameMatch
  cases hw : crit.any Glob.isWild with
  | true =>
    simp only [if_true]
    rw [(view_wildcard_translation_is_glob crit n).2]
    constructor
    · exact Or.inr
    · rintro (h | h)
      · subst h; simp at hw
      · exact h
  | false =>
    simp only [Bool.false_eq_true, if_false, Bool.or_eq_true, List.isEmpty_iff, beq_iff_eq]
    rw [hlit hw]

/-- Consequences for the criteria the histories use: `*` matches exactly the newline-free names (all instrument
names), a rune that is special for regexps is matched literally. -/
theorem view_star_matches_newline_free (n : Glob.Str) : Glob.Glob [Glob.star] n ↔ Glob.nl ∉ n := by
  constructor
  · intro h
    have := Glob.match_of_glob _ _ h
    simp only [Glob.globMatch, if_true] at this
    induction n with
    | nil => simp
    | cons d r ih =>
      rw [Glob.starLoop_cons] at this
      simp only [Glob.globMatch, List.isEmpty_cons, Bool.false_or, Bool.and_eq_true, bne_iff_ne, ne_eq] at this
      have hr := ih (Glob.glob_of_match _ _ (by simp only [Glob.globMatch, if_true]; exact this.2)) this.2
      simp only [List.mem_cons, not_or]
      exact ⟨fun e => this.1 e.symm, hr⟩
  · intro h
    apply Glob.glob_of_match
    simp only [Glob.globMatch, if_true]
    induction n with
    | nil => rfl
    | cons d r ih =>
      simp only [List.mem_cons, not_or] at h
      rw [Glob.starLoop_cons, ih h.2]
      have : d ≠ Glob.nl := fun e => h.1 e.symm
      simp [this]

/-! ## feature flag (internal/x/x.go, pipeline.go:380-384, limit.go:25-42) -/

private theorem magnitude_some (s : List UInt8) (m : Nat) :
    Flag.magnitude s = some m ↔ (s ≠ [] ∧ (∀ b ∈ s, Flag.isDigit b = true) ∧ Flag.digitsVal 0 s = m) := by
  unfold Flag.magnitude
  cases s with
  | nil => simp
  | cons b r =>
    by_cases h : (b :: r).all Flag.isDigit = true
    · simp only [List.isEmpty_cons, h, Bool.not_true, Bool.or_self, Bool.false_eq_true, if_false, Option.some.injEq]
      simp only [List.all_eq_true] at h
      exact ⟨fun e => ⟨by simp, h, e⟩, fun e => e.2.2⟩
    · have h' : (b :: r).all Flag.isDigit = false := by simpa using h
      simp only [List.isEmpty_cons, h', Bool.not_false, Bool.or_true, if_true]
      constructor
      · intro e; cases e
      · rintro ⟨_, hall, _⟩
        exact absurd (List.all_eq_true.mpr hall) h

/-- The cardinality limit in force, for EVERY value of `OTEL_GO_X_CARDINALITY_LIMIT`: a limit `n ≥ 1` applies iff
the variable is set to a plain decimal numeral of `n` (optional `+`, ASCII digits only — no blanks, no `_`, no base
prefix) within the int64 range; in every other case — unset, empty, malformed, zero, negative, out of range — no
limit applies (`effectiveLimit = 0`, which `limiter.Attributes` reads as "off"). -/
theorem flag_limit_characterised (env : Option (List UInt8)) :
    (∀ n, 1 ≤ n → (Flag.effectiveLimit env = n ↔ ∃ s, env = some s ∧ Flag.denotesPositive s n)) ∧
    (Flag.effectiveLimit env = 0 ↔ ¬ ∃ s n, env = some s ∧ Flag.denotesPositive s n) := by
  have main : ∀ n, 1 ≤ n → (Flag.effectiveLimit env = n ↔ ∃ s, env = some s ∧ Flag.denotesPositive s n) := by
    intro n hn
    constructor
    · intro h
      unfold Flag.effectiveLimit Flag.lookup at h
      cases env with
      | none => simp at h; omega
      | some v =>
        refine ⟨v, rfl, ?_⟩
        cases v with
        | nil => simp at h; omega
        | cons b r =>
          simp only [List.isEmpty_cons, Bool.false_eq_true, if_false] at h
          unfold Flag.atoi at h
          by_cases hb : b = 45
          · simp only [hb, if_true] at h
            cases hm : Flag.magnitude r with
            | none => simp [hm] at h; omega
            | some m =>
              simp only [hm] at h
              by_cases hle : m ≤ 2 ^ 63
              · simp only [hle, if_true] at h
                have : (-(m : Int)).toNat = 0 := by omega
                omega
              · simp [hle] at h; omega
          · simp only [hb, if_false] at h
            cases hm : Flag.magnitude (if b = 43 then r else b :: r) with
            | none => simp [hm] at h; omega
            | some m =>
              simp only [hm] at h
              by_cases hlt : m < 2 ^ 63
              · simp only [hlt, if_true, Int.toNat_natCast] at h
                subst h
                obtain ⟨hne, hall, hval⟩ := (magnitude_some _ _).mp hm
                refine ⟨hn, hlt, (if b = 43 then r else b :: r), ?_, hne, hall, hval⟩
                by_cases h43 : b = 43
                · simp [h43]
                · simp [h43]
              · simp [hlt] at h; omega
    · rintro ⟨s, rfl, hn1, hlt, ds, hs, hne, hall, hval⟩
      have hm : Flag.magnitude ds = some n := (magnitude_some ds n).mpr ⟨hne, hall, hval⟩
      unfold Flag.effectiveLimit Flag.lookup
      rcases hs with hs | hs <;> rw [hs]
      · cases ds with
        | nil => exact absurd rfl hne
        | cons b r =>
          have hd := hall b (by simp)
          have h45 : b ≠ 45 := by
            intro e; subst e; revert hd; decide
          have h43 : b ≠ 43 := by
            intro e; subst e; revert hd; decide
          simp [Flag.atoi, h45, h43, hm, hlt]
      · have : (43 : UInt8) ≠ 45 := by decide
        simp [Flag.atoi, this, hm, hlt]
  refine ⟨main, ?_⟩
  constructor
  · rintro h0 ⟨s, n, hs, hd⟩
    have := (main n hd.1).mpr ⟨s, hs, hd⟩
    have := hd.1
    omega
  · intro hno
    cases hk : Flag.effectiveLimit env with
    | zero => rfl
    | succ k =>
      exfalso
      obtain ⟨s, hs, hd⟩ := (main (k + 1) (by omega)).mp hk
      exact hno ⟨s, k + 1, hs, hd⟩

/-! ## the aggregator cache of `inserter` (pipeline.go:350-419, cache.go) -/

private theorem findKey_key (S : List StreamSt) (k : StreamKey) (idx : Nat) (h : findKey S k = some idx) :
    ∃ s, S[idx]? = some s ∧ s.key = k := by
  simp only [findKey] at h
  obtain ⟨hlt, hp, _⟩ := List.findIdx?_eq_some_iff_getElem.mp h
  exact ⟨S[idx], List.getElem?_eq_getElem hlt, by simpa using hp⟩

private theorem findKey_none (S : List StreamSt) (k : StreamKey) (h : findKey S k = none) : ∀ s ∈ S, s.key ≠ k := by
  simp only [findKey, List.findIdx?_eq_none_iff] at h
  intro s hs
  simpa using h s hs

/-- "Same id ⇒ same aggregator": two requests whose stream names differ at most in case (same kind, number, meter,
description and unit — the normalised `instID`) are served by ONE cache entry: the second request adds nothing to the
cache and returns exactly what the first returned (the same measure function, or the same "no aggregate function" of
a Drop creator), whatever attribute filter and aggregation the second request asks for — the first creator fixes
them. -/
theorem cache_same_id_same_aggregator (L : Nat) (S : List StreamSt) (i : Inst) (n1 n2 : Name)
    (f1 f2 : Option Filter) (s1 s2 : Option AggSel) (hn : n1.norm = n2.norm)
    (c1 : incompatible i s1 = false) (c2 : incompatible i s2 = false) :
    let r1 := cachedAggregator L S i n1 f1 s1
    let r2 := cachedAggregator L r1.1 i n2 f2 s2
    r2.1 = r1.1 ∧ r2.2 = r1.2 := by
  have hk : streamKey i n2 = streamKey i n1 := by simp [streamKey, hn]
  intro r1 r2
  simp only [r2, r1]
  unfold cachedAggregator
  simp only [c1, c2, Bool.false_eq_true, if_false, hk]
  cases hf : findKey S (streamKey i n1) with
  | some idx =>
    have hlt := findKey_lt S _ idx hf
    have hget : S[idx]? = some S[idx] := List.getElem?_eq_getElem hlt
    simp only [hget, hf]
    refine ⟨?_, ?_⟩ <;> first | rfl | trivial | simp
  | none =>
    simp only
    have hnew := findKey_new S ({ key := streamKey i n1, name := n1, float := i.float, filter := f1,
                                   agg := mkAgg L i s1 } : StreamSt) hf
    simp only at hnew
    rw [hnew]
    simp only [List.getElem?_concat_length]
    refine ⟨?_, ?_⟩ <;> first | rfl | trivial | simp

/-- "Different ids never share state": a cache that holds one entry per id keeps doing so through every request,
every instrument insertion and the creation of all instruments of a pipeline; two different ids always resolve to two
different entries (and `measure_reaches_each_stream_once` says a measurement touches the listed entries only). -/
theorem cache_one_entry_per_id (L : Nat) (views : List View) (insts : List Inst) (tp : Temporality) :
    ((Pipe.create L views { tp := tp } insts 0).streams.map (·.key)).Nodup ∧
    (∀ (S : List StreamSt) k1 k2 a b, findKey S k1 = some a → findKey S k2 = some b → k1 ≠ k2 → a ≠ b) := by
  have hca : ∀ S i name f sel, (S.map (·.key)).Nodup →
      ((cachedAggregator L S i name f sel).1.map (·.key)).Nodup := by
    intro S i name f sel h
    unfold cachedAggregator
    by_cases hi : incompatible i sel
    · simpa [hi] using h
    · have hi' : incompatible i sel = false := by simpa using hi
      simp only [hi', Bool.false_eq_true, if_false]
      cases hf : findKey S (streamKey i name) with
      | some idx =>
        simp only
        cases S[idx]? <;> exact h
      | none =>
        simp only [List.map_append, List.map_cons, List.map_nil]
        rw [List.nodup_append]
        refine ⟨h, by simp, ?_⟩
        intro a ha b hb
        simp only [List.mem_singleton] at hb
        subst hb
        obtain ⟨s, hs, rfl⟩ := List.mem_map.mp ha
        exact findKey_none S _ hf s hs
  have hrv : ∀ j i vs S M mt, (S.map (·.key)).Nodup →
      ((resolveViews L j i vs S M mt).1.map (·.key)).Nodup := by
    intro j i vs
    induction vs with
    | nil => intro S M mt h; simpa [resolveViews] using h
    | cons v vs ih =>
      intro S M mt h
      simp only [resolveViews]
      by_cases hm : v.matches j i
      · simp only [hm, if_true]
        have hc := hca S i (v.streamName j) v.filter v.agg h
        cases (cachedAggregator L S i (v.streamName j) v.filter v.agg).2 with
        | none => exact ih _ _ _ hc
        | some idx =>
          simp only
          split <;> exact ih _ _ _ hc
      · simp only [hm, Bool.false_eq_true, if_false]
        exact ih _ _ _ h
  have hii : ∀ j i S, (S.map (·.key)).Nodup → ((insertInstrument L views j i S).1.map (·.key)).Nodup := by
    intro j i S h
    unfold insertInstrument
    have h1 := hrv j i views S [] false h
    simp only
    split
    · exact h1
    · have h2 := hca _ i (Name.inst j) none none h1
      split <;> exact h2
  have hcr : ∀ (is : List Inst) (p : Pipe) (j : Nat), (p.streams.map (·.key)).Nodup →
      ((Pipe.create L views p is j).streams.map (·.key)).Nodup := by
    intro is
    induction is with
    | nil => intro p j h; simpa [Pipe.create] using h
    | cons i is ih =>
      intro p j h
      simp only [Pipe.create]
      exact ih _ _ (hii _ i p.streams h)
  refine ⟨hcr insts { tp := tp } 0 (by simp), ?_⟩
  intro S k1 k2 a b h1 h2 hne hab
  subst hab
  obtain ⟨s, hs, hk⟩ := findKey_key S k1 a h1
  obtain ⟨s', hs', hk'⟩ := findKey_key S k2 a h2
  rw [hs] at hs'
  cases hs'
  exact hne (hk.symm.trans hk')

/-! ## views that cannot be honoured (pipeline.go:237-292, 366-372, 637-671) -/

/-- a view whose aggregation is incompatible with the instrument's kind (`isAggregatorCompatible`: e.g. last value on
a counter, sum on a gauge) contributes an ERROR to `inserter.Instrument`, nothing else -/
def honourable (j : Nat) (i : Inst) (v : View) : Bool := !(v.matches j i && incompatible i v.agg)

private theorem resolveViews_drop_invalid (L : Nat) (j : Nat) (i : Inst) (vs : List View) :
    ∀ (S : List StreamSt) (M : List Nat) (mt mt' : Bool),
      (resolveViews L j i vs S M mt).1 = (resolveViews L j i (vs.filter (honourable j i)) S M mt').1 ∧
      (resolveViews L j i vs S M mt).2.1 = (resolveViews L j i (vs.filter (honourable j i)) S M mt').2.1 := by
  induction vs with
  | nil => intro S M mt mt'; simp [resolveViews]
  | cons v vs ih =>
    intro S M mt mt'
    by_cases hm : v.matches j i = true
    · by_cases hi : incompatible i v.agg = true
      · have hh : honourable j i v = false := by simp [honourable, hm, hi]
        simp only [List.filter_cons, hh, Bool.false_eq_true, if_false]
        simp only [resolveViews, hm, if_true, cachedAggregator, hi]
        exact ih S M true mt'
      · have hh : honourable j i v = true := by simp [honourable, hm, hi]
        simp only [List.filter_cons, hh, if_true]
        simp only [resolveViews, hm, if_true]
        cases (cachedAggregator L S i (v.streamName j) v.filter v.agg).2 with
        | none => exact ih _ _ true true
        | some idx =>
          simp only
          split <;> exact ih _ _ true true
    · have hh : honourable j i v = true := by simp [honourable, hm]
      simp only [List.filter_cons, hh, if_true]
      simp only [resolveViews, hm, if_false]
      exact ih S M mt mt'

/-- "Views that cannot be honoured do not affect the ones that can": for `inserter.Instrument` on ANY cache `S`
(hence for every reader's pipeline independently), when at least one matching view has a compatible aggregation, the
cache and the instrument's measure functions are exactly what they are when every matching view with an INCOMPATIBLE
aggregation is absent — such a view creates no stream, consumes no cache entry, does not reorder, drop or duplicate
the measure functions of the other views, and (being a match) only suppresses the default stream, which the
compatible match suppresses anyway.  The error the SDK returns alongside is no reason to lose the valid streams: the
instrument handed to the user carries exactly these measure functions (`resolver.Aggregators` appends them whatever
the error).  Without any compatible match: no stream at all (part 2), never the default stream.
`i` is ANY instrument — synchronous or observable: both families resolve their views through this one function, per
reader (`resolver.Aggregators` / `HistogramAggregators` for the synchronous kinds, `int64ObservableInstrument` /
`float64ObservableInstrument` for the observable kinds, which since the repair of F48 also go on after an inserter
error), so the statement covers both. -/
theorem invalid_views_do_not_affect_valid_ones (L : Nat) (views : List View) (j : Nat) (i : Inst) (S : List StreamSt) :
    ((∃ v ∈ views, v.matches j i = true ∧ incompatible i v.agg = false) →
      insertInstrument L views j i S = insertInstrument L (views.filter (honourable j i)) j i S) ∧
    ((∃ v ∈ views, v.matches j i = true) → (∀ v ∈ views, v.matches j i = true → incompatible i v.agg = true) →
      insertInstrument L views j i S = (S, [])) := by
  have hd := resolveViews_drop_invalid L j i views S [] false false
  have hm1 := (resolveViews_spec L j i views S [] false).matched
  have hm2 := (resolveViews_spec L j i (views.filter (honourable j i)) S [] false).matched
  constructor
  · rintro ⟨v, hv, hm, hc⟩
    have h1 : (resolveViews L j i views S [] false).2.2 = true := by
      rw [hm1]; simp; exact ⟨v, hv, hm⟩
    have h2 : (resolveViews L j i (views.filter (honourable j i)) S [] false).2.2 = true := by
      rw [hm2]; simp only [Bool.false_or, List.any_eq_true]
      exact ⟨v, List.mem_filter.mpr ⟨hv, by simp [honourable, hm, hc]⟩, hm⟩
    simp only [insertInstrument, h1, h2, if_true, hd.1, hd.2]
  · rintro ⟨v, hv, hm⟩ hall
    have h1 : (resolveViews L j i views S [] false).2.2 = true := by
      rw [hm1]; simp; exact ⟨v, hv, hm⟩
    have hf : views.filter (honourable j i) = views.filter (fun v => !v.matches j i) := by
      apply List.filter_congr
      intro w hw
      by_cases hwm : w.matches j i = true
      · simp [honourable, hwm, hall w hw hwm]
      · simp [honourable, hwm]
    have hnone : ∀ (vs : List View) (S : List StreamSt) (M : List Nat) (mt : Bool), (∀ w ∈ vs, w.matches j i = false) →
        (resolveViews L j i vs S M mt).1 = S ∧ (resolveViews L j i vs S M mt).2.1 = M := by
      intro vs
      induction vs with
      | nil => intro S M mt _; simp [resolveViews]
      | cons w ws ih =>
        intro S M mt h
        have hw := h w (by simp)
        simp only [resolveViews, hw, Bool.false_eq_true, if_false]
        exact ih S M mt (fun x hx => h x (by simp [hx]))
    have h0 := hnone (views.filter (fun v => !v.matches j i)) S [] false (by
      intro w hw
      have := (List.mem_filter.mp hw).2
      simpa using this)
    simp only [insertInstrument, h1, if_true]
    rw [hd.1, hd.2, hf, h0.1, h0.2]

/-! ## conservation over the lifetime of a clearing stream -/

/-- the measurements of a step sequence, in order -/
def measOf : List AStep → List (Attr × Int)
  | [] => []
  | .meas a x :: r => (a, x) :: measOf r
  | .col _ :: r => measOf r

/-- the measurements after the last collection (not reported yet) -/
def pending (w : List (Attr × Int)) : List AStep → List (Attr × Int)
  | [] => w
  | .meas a x :: r => pending (w ++ [(a, x)]) r
  | .col _ :: r => pending [] r

private theorem windows_partition (w : List (Attr × Int)) (steps : List AStep) :
    (windows true w steps).flatten ++ pending w steps = w ++ measOf steps := by
  induction steps generalizing w with
  | nil => simp [windows, pending, measOf]
  | cons s r ih =>
    cases s with
    | meas a x => simp [windows, pending, measOf, ih]
    | col t =>
      simp only [windows, pending, measOf, if_true, List.flatten_cons, List.append_assoc]
      rw [ih []]; simp

private theorem allZip_conserved_total (g : Agg) (hs : ∀ arr pts, conserved g arr pts = true → total pts = sumInts (arr.map (·.2)))
    (ws : List (List (Attr × Int))) (rs : List (List (Attr × PV))) (h : allZip (conserved g) ws rs = true) :
    sumInts (rs.map total) = sumInts (ws.flatten.map (·.2)) := by
  induction ws generalizing rs with
  | nil => cases rs <;> simp [allZip] at h ⊢
  | cons w ws ih =>
    cases rs with
    | nil => simp [allZip] at h
    | cons r rs =>
      simp only [allZip, Bool.and_eq_true] at h
      simp [hs w r h.1, ih rs h.2]

/-- "Delta forgetting" loses nothing and reports nothing twice: for a sum with DELTA temporality (every collection
clears the map and with it the limiter's admission set), under any limit and for any step sequence, the windows of
the successive collections together with the not-yet-collected measurements are exactly all measurements in order,
and the totals of ALL reports add up to the total of all measurements collected so far — whichever sets kept their
identity or overflowed in whichever cycle.  For a histogram the same holds for the counts. -/
theorem delta_cycles_conserve_lifetime (g : Agg) (steps : List AStep) (hf : g.keys = [])
    (hk : (∃ s, g = .sum s) ∨ (∃ h, g = .hist h) ∨ (∃ h, g = .expo h)) :
    (windows (g.resets .delta) [] steps).flatten ++ pending [] steps = measOf steps ∧
    (∀ s, g = .sum s →
      sumInts ((g.runSteps .delta steps).2.map total) + sumInts ((pending [] steps).map (·.2)) =
        sumInts ((measOf steps).map (·.2))) ∧
    (∀ h, (g = .hist h ∨ g = .expo h) →
      sumInts ((g.runSteps .delta steps).2.map total) + ((pending [] steps).length : Int) =
        ((measOf steps).length : Int)) := by
  have hres : g.resets .delta = true := by
    rcases hk with ⟨s, rfl⟩ | ⟨h, rfl⟩ | ⟨h, rfl⟩ <;> rfl
  have hpd : g.psumDelta .delta = false := by
    rcases hk with ⟨s, rfl⟩ | ⟨h, rfl⟩ | ⟨h, rfl⟩ <;> rfl
  have hpart := windows_partition [] steps
  simp only [List.nil_append] at hpart
  have hheld := held_of_empty g hf
  have hcons := runSteps_conserved .delta steps g [] hpd (by rw [hheld.1]; rfl) (by rw [hheld.2]; rfl)
  rw [hres] at hcons ⊢
  refine ⟨hpart, ?_, ?_⟩
  · rintro s rfl
    have := allZip_conserved_total (.sum s) (by
      intro arr pts h
      simpa [conserved] using h) _ _ hcons
    rw [this, ← sumInts_append, ← List.map_append, hpart]
  · intro h hh
    have key : ∀ g', (g' = Agg.hist h ∨ g' = Agg.expo h) → ∀ ws rs, allZip (conserved g') ws rs = true →
        sumInts (rs.map total) = ((ws.flatten.length : Nat) : Int) := by
      intro g' hg' ws
      induction ws with
      | nil => intro rs h; cases rs <;> simp [allZip] at h ⊢
      | cons w ws ih =>
        intro rs h
        cases rs with
        | nil => simp [allZip] at h
        | cons r rs =>
          simp only [allZip, Bool.and_eq_true] at h
          have h1 : total r = (w.length : Int) := by
            rcases hg' with rfl | rfl <;> simp [conserved] at h <;> exact h.1.1
          simp [h1, ih rs h.2]
    have := key g hh _ _ hcons
    rw [this]
    have hl := congrArg List.length hpart
    simp only [List.length_append] at hl
    omega

/-! ## non-vacuity -/

/-- "i?" against "i7" and "i12"; "*0" against "i10"; a criterion with regexp-special runes `i.` is literal -/
example : Glob.nameMatch [105, 63] (Glob.instName 7) = true ∧ Glob.nameMatch [105, 63] (Glob.instName 12) = false ∧
    Glob.nameMatch [42, 48] (Glob.instName 10) = true ∧ Glob.nameMatch [105, 46] (Glob.instName 3) = false ∧
    Glob.nameMatch [105, 46] [105, 46] = true := by decide
/-- the pattern built for `a\?*.`: `^a\\..*\.$` -/
example : Glob.translate [97, 92, 63, 42, 46] = [94, 97, 92, 92, 46, 46, 42, 92, 46, 36] := by decide
example : Glob.reMatch (Glob.translate [97, 92, 63, 42, 46]) [97, 92, 120, 121, 122, 46] = true ∧
    Glob.reMatch (Glob.translate [97, 92, 63, 42, 46]) [97, 92, 120, 10, 46] = false := by decide
example : Glob.Glob [105, 63] [105, 55] :=
  Glob.Glob.lit 105 _ _ (by decide) (by decide) (Glob.Glob.one 55 _ _ (by decide) Glob.Glob.nil)
/-- "12", "+12" set the limit 12; "012" too; " 12", "1_2", "0x12", "-3", "" and 2^63 set none -/
example : Flag.effectiveLimit (some [49, 50]) = 12 ∧ Flag.effectiveLimit (some [43, 49, 50]) = 12 ∧
    Flag.effectiveLimit (some [48, 49, 50]) = 12 ∧ Flag.effectiveLimit (some [32, 49, 50]) = 0 ∧
    Flag.effectiveLimit (some [49, 95, 50]) = 0 ∧ Flag.effectiveLimit (some [48, 120, 49, 50]) = 0 ∧
    Flag.effectiveLimit (some [45, 51]) = 0 ∧ Flag.effectiveLimit (some []) = 0 ∧ Flag.effectiveLimit none = 0 ∧
    Flag.effectiveLimit (some [57, 50, 50, 51, 51, 55, 50, 48, 51, 54, 56, 53, 52, 55, 55, 53, 56, 48, 56]) = 0 := by
  decide
example : Flag.denotesPositive [43, 49, 50] 12 :=
  ⟨by decide, by decide, [49, 50], Or.inr rfl, by decide, by decide, by decide⟩
/-- views "r0" and "R0" on one counter: the second request returns the first one's entry -/
example : (cachedAggregator 0 (cachedAggregator 0 [] { float := false, kind := .counter } (.ren 0 false) none none).1
      { float := false, kind := .counter } (.ren 0 true) (some { deny := false, keys := [1] }) (some .explicit)).2 =
    some 0 := by decide
/-- a counter matched by a last-value view (cannot be honoured), a renaming view and a filtered view: the two valid
streams, exactly as without the first view -/
example :
    let vs : List View := [{ pat := .exact 0, kind := none, rename := none, filter := none, agg := some .last },
      { pat := .exact 0, kind := none, rename := some (0, false), filter := none, agg := none },
      { pat := .star, kind := none, rename := none, filter := some { deny := false, keys := [1] }, agg := some .explicit }]
    (insertInstrument 0 vs 0 { float := false, kind := .counter } []).2 = [0, 1] ∧
    (vs.filter (honourable 0 { float := false, kind := .counter })).length = 2 := by decide
/-- the same for an OBSERVABLE up-down counter (F48's witness: "i*" with last value cannot be honoured, "i3" ↦ "R0"
can): default-named stream suppressed, the renamed stream kept -/
example :
    let vs : List View := [{ pat := .glob [105, 42], kind := none, rename := none, filter := some { deny := false, keys := [1] }, agg := some .last },
      { pat := .exact 3, kind := none, rename := some (0, true), filter := some { deny := false, keys := [] }, agg := none }]
    (insertInstrument 2 vs 3 { float := false, kind := .obsUpdown } []).2 = [0] ∧
    incompatible { float := false, kind := .obsUpdown } (some .last) = true := by decide
/-- L = 2, delta, three cycles: the reports total 1+2+4+8+16 = 31 although the kept set changes every cycle -/
example : (((Agg.sum { limit := 2 }).runSteps .delta
      [.meas 5 1, .meas 7 2, .col 1, .meas 7 4, .meas 5 8, .col 2, .meas 9 16, .col 3, .meas 5 32]).2.map total) =
    [3, 12, 16] ∧ pending [] [.meas 5 1, .col 1, .meas 5 32] = [(5, 32)] := by decide

end Otel.C12
