/-
C12 — lemmas about the wildcard → regexp translation of `NewView` (see Glob.lean).
-/
import Otel.C12.Glob
namespace Otel.C12.Glob

/-! ### `strings.ReplaceAll` on a string made of escape units -/

theorem repl_cons_of_ne (x : Nat) (new : Str) (a : Nat) (t : Str) (h : a ≠ bs) :
    replaceAll2 x new (a :: t) = a :: replaceAll2 x new t := by
  cases t with
  | nil => simp [replaceAll2]
  | cons b r => simp [replaceAll2, h]

theorem repl_cons_of_head (x : Nat) (new : Str) (a : Nat) (t : Str) (h : ∀ b r, t = b :: r → b ≠ x) :
    replaceAll2 x new (a :: t) = a :: replaceAll2 x new t := by
  cases t with
  | nil => simp [replaceAll2]
  | cons b r =>
    have := h b r rfl
    simp [replaceAll2, this]

theorem repl_hit (x : Nat) (new r : Str) : replaceAll2 x new (bs :: x :: r) = new ++ replaceAll2 x new r := by
  simp [replaceAll2]

/-- the pieces `QuoteMeta` (and the first replacement) produce: an escape pair, or one rune that is neither a
backslash nor the rune `x` looked for -/
def okUnit (x : Nat) (u : Str) : Prop := (∃ c, u = [bs, c]) ∨ (∃ c, u = [c] ∧ c ≠ bs ∧ c ≠ x)

theorem head_flatten_ne (x : Nat) (hx : x ≠ bs) (U : List Str) (hU : ∀ u ∈ U, okUnit x u) :
    ∀ b r, U.flatten = b :: r → b ≠ x := by
  intro b r h
  cases U with
  | nil => simp at h
  | cons u U' =>
    rcases hU u (by simp) with ⟨c, rfl⟩ | ⟨c, rfl, _, hc⟩
    · simp at h
      rw [← h.1]; exact fun e => hx e.symm
    · simp at h
      rw [← h.1]; exact hc

/-- occurrences of `\x` found by the raw left-to-right scan are exactly the escape units `[\, x]`: the scan never
matches across a unit boundary -/
theorem repl_units (x : Nat) (new : Str) (hx : x ≠ bs) (U : List Str) (hU : ∀ u ∈ U, okUnit x u) :
    replaceAll2 x new U.flatten = (U.map fun u => if u = [bs, x] then new else u).flatten := by
  induction U with
  | nil => simp [replaceAll2]
  | cons u U' ih =>
    have ih' := ih (fun u hu => hU u (by simp [hu]))
    have hhead := head_flatten_ne x hx U' (fun u hu => hU u (by simp [hu]))
    rcases hU u (by simp) with ⟨c, rfl⟩ | ⟨c, rfl, hc1, hc2⟩
    · by_cases hcx : c = x
      · subst hcx
        simp only [List.flatten_cons, List.map_cons, if_true, List.cons_append, List.nil_append, repl_hit, ih']
      · have hne : ([bs, c] : Str) ≠ [bs, x] := by simp [hcx]
        simp only [List.flatten_cons, List.map_cons, hne, if_false, List.cons_append, List.nil_append]
        have h1 : replaceAll2 x new (bs :: c :: U'.flatten) = bs :: replaceAll2 x new (c :: U'.flatten) := by
          simp [replaceAll2, hcx]
        rw [h1, repl_cons_of_head x new c _ hhead, ih']
    · have hne : ([c] : Str) ≠ [bs, x] := by simp
      simp only [List.flatten_cons, List.map_cons, hne, if_false, List.cons_append, List.nil_append]
      rw [repl_cons_of_ne x new c _ hc1, ih']

/-! ### the translated pattern, unit by unit -/

def step1 (c : Nat) : Str := if c = qm then [dot] else unit c

/-- what one rune of the criterion becomes in the final pattern -/
def unit3 (c : Nat) : Str := if c = qm then [dot] else if c = star then [dot, star] else unit c

theorem special_bs : special bs = true := by decide
theorem special_qm : special qm = true := by decide
theorem special_star : special star = true := by decide
theorem special_dot : special dot = true := by decide
theorem special_dollar : special dollar = true := by decide

theorem ne_of_not_special {c d : Nat} (hc : special c = false) (hd : special d = true) : c ≠ d := by
  intro e; subst e; rw [hc] at hd; cases hd

theorem unit_ok (x : Nat) (hx : special x = true) (c : Nat) : okUnit x (unit c) := by
  unfold unit
  cases hs : special c with
  | true => exact Or.inl ⟨c, by simp⟩
  | false => exact Or.inr ⟨c, by simp, ne_of_not_special hs special_bs, ne_of_not_special hs hx⟩

theorem map1 (c : Nat) : (if unit c = [bs, qm] then [dot] else unit c) = step1 c := by
  unfold step1
  by_cases h : c = qm
  · subst h; simp [unit, special_qm]
  · have : unit c ≠ [bs, qm] := by
      unfold unit; cases special c <;> simp [h]
    simp [this, h]

theorem map2 (c : Nat) : (if step1 c = [bs, star] then [dot, star] else step1 c) = unit3 c := by
  unfold step1 unit3
  by_cases h : c = qm
  · subst h; simp [dot, bs]
  · simp only [h, if_false]
    by_cases h2 : c = star
    · subst h2; simp [unit, special_star]
    · have : unit c ≠ [bs, star] := by
        unfold unit; cases special c <;> simp [h2]
      simp [this, h2]

theorem step1_ok (c : Nat) : okUnit star (step1 c) := by
  unfold step1
  by_cases h : c = qm
  · simp only [h, if_true]
    exact Or.inr ⟨dot, rfl, by decide, by decide⟩
  · simp only [h, if_false]
    exact unit_ok star special_star c

theorem translate_eq (p : Str) : translate p = caret :: ((p.map unit3).flatten ++ [dollar]) := by
  have e0 : [caret] ++ quoteMeta p ++ [dollar] = ([[caret]] ++ p.map unit ++ [[dollar]]).flatten := by
    simp [quoteMeta]
  have ok1 : ∀ u ∈ [[caret]] ++ p.map unit ++ [[dollar]], okUnit qm u := by
    intro u hu
    simp only [List.mem_append, List.mem_singleton, List.mem_map] at hu
    rcases hu with (rfl | ⟨c, _, rfl⟩) | rfl
    · exact Or.inr ⟨caret, rfl, by decide, by decide⟩
    · exact unit_ok qm special_qm c
    · exact Or.inr ⟨dollar, rfl, by decide, by decide⟩
  have e1 := repl_units qm [dot] (by decide) _ ok1
  have m1 : (([[caret]] ++ p.map unit ++ [[dollar]]).map fun u => if u = [bs, qm] then [dot] else u) =
      [[caret]] ++ p.map step1 ++ [[dollar]] := by
    have a : ([[caret]] : List Str).map (fun u => if u = [bs, qm] then [dot] else u) = [[caret]] := by decide
    have b : ([[dollar]] : List Str).map (fun u => if u = [bs, qm] then [dot] else u) = [[dollar]] := by decide
    rw [List.map_append, List.map_append, List.map_map, a, b]
    congr 2
    apply List.map_congr_left; intro c _; exact map1 c
  have ok2 : ∀ u ∈ [[caret]] ++ p.map step1 ++ [[dollar]], okUnit star u := by
    intro u hu
    simp only [List.mem_append, List.mem_singleton, List.mem_map] at hu
    rcases hu with (rfl | ⟨c, _, rfl⟩) | rfl
    · exact Or.inr ⟨caret, rfl, by decide, by decide⟩
    · exact step1_ok c
    · exact Or.inr ⟨dollar, rfl, by decide, by decide⟩
  have e2 := repl_units star [dot, star] (by decide) _ ok2
  have m2 : (([[caret]] ++ p.map step1 ++ [[dollar]]).map fun u => if u = [bs, star] then [dot, star] else u) =
      [[caret]] ++ p.map unit3 ++ [[dollar]] := by
    have a : ([[caret]] : List Str).map (fun u => if u = [bs, star] then [dot, star] else u) = [[caret]] := by decide
    have b : ([[dollar]] : List Str).map (fun u => if u = [bs, star] then [dot, star] else u) = [[dollar]] := by decide
    rw [List.map_append, List.map_append, List.map_map, a, b]
    congr 2
    apply List.map_congr_left; intro c _; exact map2 c
  unfold translate
  rw [e0, e1, m1, e2, m2]
  simp

/-! ### parsing the translated pattern -/

theorem rest_head (p : Str) : ∃ d r, (p.map unit3).flatten ++ [dollar] = d :: r ∧ d ≠ star := by
  cases p with
  | nil => exact ⟨dollar, [], rfl, by decide⟩
  | cons c p' =>
    simp only [List.map_cons, List.flatten_cons, unit3]
    by_cases h : c = qm
    · exact ⟨dot, (p'.map unit3).flatten ++ [dollar], by simp [h], by decide⟩
    · by_cases h2 : c = star
      · exact ⟨dot, star :: ((p'.map unit3).flatten ++ [dollar]), by simp [h2, star, qm], by decide⟩
      · cases hs : special c with
        | true => exact ⟨bs, c :: ((p'.map unit3).flatten ++ [dollar]), by simp [h, h2, unit, hs], by decide⟩
        | false => exact ⟨c, (p'.map unit3).flatten ++ [dollar], by simp [h, h2, unit, hs], h2⟩

theorem parseItems_units (p : Str) : parseItems ((p.map unit3).flatten ++ [dollar]) = some (p.map tokOf) := by
  induction p with
  | nil => simp [parseItems]
  | cons c p' ih =>
    obtain ⟨d, r, hr, hd⟩ := rest_head p'
    simp only [List.map_cons, List.flatten_cons, List.append_assoc]
    rw [hr] at ih
    by_cases h : c = qm
    · subst h
      have : unit3 qm = [dot] := by simp [unit3]
      rw [this, hr]
      simp only [List.cons_append, List.nil_append]
      rw [parseItems]
      simp [hd, ih, tokOf, dot, dollar, bs]
    · by_cases h2 : c = star
      · subst h2
        have : unit3 star = [dot, star] := by simp [unit3, star, qm]
        rw [this, hr]
        simp only [List.cons_append, List.nil_append]
        rw [parseItems]
        simp [ih, tokOf, dot, dollar, bs, star, qm]
      · cases hs : special c with
        | true =>
          have : unit3 c = [bs, c] := by simp [unit3, h, h2, unit, hs]
          rw [this, hr]
          simp only [List.cons_append, List.nil_append]
          rw [parseItems]
          simp [ih, tokOf, h, h2, hs, dollar, bs]
        | false =>
          have : unit3 c = [c] := by simp [unit3, h, h2, unit, hs]
          rw [this, hr]
          simp only [List.cons_append, List.nil_append]
          rw [parseItems]
          have h3 : c ≠ dollar := ne_of_not_special hs special_dollar
          have h4 : c ≠ bs := ne_of_not_special hs special_bs
          have h5 : c ≠ dot := ne_of_not_special hs special_dot
          simp [ih, tokOf, h, h2, hs, h3, h4, h5]

theorem parseRe_translate (p : Str) : parseRe (translate p) = some (p.map tokOf) := by
  rw [translate_eq]
  simp [parseRe, parseItems_units]

/-! ### matching -/

theorem starLoop_nil (f : Str → Bool) : starLoop f [] = f [] := rfl
theorem starLoop_cons (f : Str → Bool) (d : Nat) (r : Str) :
    starLoop f (d :: r) = (f (d :: r) || (d != nl && starLoop f r)) := rfl

theorem matchToks_glob (p n : Str) : matchToks (p.map tokOf) n = globMatch p n := by
  induction p generalizing n with
  | nil => simp [matchToks, globMatch]
  | cons c p ih =>
    have hf : matchToks (p.map tokOf) = globMatch p := funext ih
    by_cases h2 : c = star
    · subst h2
      have : tokOf star = .anyStar := by simp [tokOf, star, qm]
      simp only [List.map_cons, this, matchToks, globMatch, if_true, hf]
    · by_cases h : c = qm
      · subst h
        have : tokOf qm = .any := by simp [tokOf]
        cases n with
        | nil => simp [this, matchToks, globMatch, h2]
        | cons d r => simp [this, matchToks, globMatch, h2, ih]
      · have : tokOf c = .lit c := by simp [tokOf, h, h2]
        cases n with
        | nil => simp [this, matchToks, globMatch, h2]
        | cons d r => simp [this, matchToks, globMatch, h2, h, ih]

theorem reMatch_translate (p n : Str) : reMatch (translate p) n = globMatch p n := by
  simp [reMatch, parseRe_translate, matchToks_glob]

/-! ### `globMatch` decides `Glob` -/

theorem glob_of_match (p n : Str) (h : globMatch p n = true) : Glob p n := by
  induction p generalizing n with
  | nil =>
    cases n with
    | nil => exact Glob.nil
    | cons d r => simp [globMatch] at h
  | cons c p ih =>
    by_cases hc : c = star
    · subst hc
      simp only [globMatch, if_true] at h
      induction n with
      | nil => exact Glob.starNil p [] (ih [] (by simpa [starLoop_nil] using h))
      | cons d r ihn =>
        rw [starLoop_cons] at h
        simp only [Bool.or_eq_true, Bool.and_eq_true, bne_iff_ne, ne_eq] at h
        rcases h with h | ⟨hd, h⟩
        · exact Glob.starNil p _ (ih _ h)
        · exact Glob.starCons d p r hd (ihn h)
    · cases n with
      | nil => simp [globMatch, hc] at h
      | cons d r =>
        simp only [globMatch, hc, if_false, Bool.and_eq_true] at h
        by_cases hq : c = qm
        · subst hq
          simp only [if_true, bne_iff_ne, ne_eq] at h
          exact Glob.one d p r h.1 (ih r h.2)
        · simp only [hq, if_false, beq_iff_eq] at h
          rw [h.1]
          exact Glob.lit c p r hc hq (ih r h.2)

theorem match_of_glob (p n : Str) (h : Glob p n) : globMatch p n = true := by
  induction h with
  | nil => simp [globMatch]
  | lit c p n hc hq _ ih => simp [globMatch, hc, hq, ih]
  | one d p n hd _ ih =>
    have : qm ≠ star := by decide
    simp [globMatch, this, hd, ih]
  | starNil p n _ ih =>
    simp only [globMatch, if_true]
    cases n with
    | nil => simpa [starLoop_nil] using ih
    | cons d r => rw [starLoop_cons, ih]; rfl
  | starCons d p n hd _ ih =>
    simp only [globMatch, if_true] at ih ⊢
    rw [starLoop_cons, ih]
    simp [hd]

theorem globMatch_no_wild (p n : Str) (h : p.any isWild = false) : globMatch p n = (p == n) := by
  induction p generalizing n with
  | nil => cases n <;> simp [globMatch]
  | cons c p ih =>
    simp only [List.any_cons, Bool.or_eq_false_iff, isWild, beq_eq_false_iff_ne, ne_eq] at h
    obtain ⟨⟨hs, hq⟩, hp⟩ := h
    cases n with
    | nil => simp [globMatch, hs]
    | cons d r =>
      simp only [globMatch, hs, hq, if_false, ih r hp]
      by_cases e : d = c
      · subst e; simp
      · have : ¬ c = d := fun x => e x.symm
        rw [beq_eq_false_iff_ne.mpr e]
        simp [this]

end Otel.C12.Glob
