/-
C12 — helper lemmas: the key machine of the limiter and its closed form, additive projections, the injective
numbering of concrete attribute sets, view resolution invariants.
-/
import Otel.C12.Model
import Otel.C12.Spec
namespace Otel.C12
open Otel.C02 Otel.C12.Spec

/-! ## maps: keys of `upd`, `limitAttr` reads the keys only -/

theorem keys_length {V : Type} (m : AMap V) : m.keys.length = m.length := by simp [AMap.keys]

theorem contains_keys {V : Type} (m : AMap V) (a : Attr) : m.contains a = m.keys.contains a := by
  induction m with
  | nil => simp [AMap.contains, AMap.get?, AMap.keys]
  | cons kv m ih =>
    obtain ⟨k, w⟩ := kv
    simp only [AMap.contains, AMap.get?, AMap.keys, List.map_cons, List.contains_cons] at ih ⊢
    by_cases h : k = a
    · subst h; simp
    · have : (a == k) = false := by simp; exact fun e => h e.symm
      simp [h, this, ih]

theorem keys_upd {V : Type} (m : AMap V) (k : Attr) (f : Option V → V) :
    (m.upd k f).keys = addDistinct m.keys k := by
  induction m with
  | nil => simp [AMap.upd, AMap.keys, addDistinct]
  | cons kv m ih =>
    obtain ⟨k', w⟩ := kv
    simp only [AMap.upd, AMap.keys, addDistinct, List.map_cons, List.contains_cons] at ih ⊢
    by_cases h : k' = k
    · subst h; simp
    · have : (k == k') = false := by simp; exact fun e => h e.symm
      simp only [h, if_false, List.map_cons, this, Bool.false_or, ih]
      split <;> simp_all

/-- the limiter as a function of the key list -/
def limKey (L : Nat) (ks : List Attr) (a : Attr) : Attr :=
  if L > 0 then
    if !(ks.contains a) && decide (ks.length + 1 ≥ L) then overflowAttr else a
  else a

theorem limitAttr_eq_limKey {V : Type} (L : Nat) (m : AMap V) (a : Attr) :
    limitAttr L m a = limKey L m.keys a := by
  simp [limitAttr, limKey, contains_keys, keys_length]

def stepKeys (L : Nat) (ks : List Attr) (a : Attr) : List Attr := addDistinct ks (limKey L ks a)

theorem measure_keys_gen {V : Type} (L : Nat) (m : AMap V) (a : Attr) (f : Option V → V) :
    (m.upd (limitAttr L m a) f).keys = stepKeys L m.keys a := by
  rw [keys_upd, limitAttr_eq_limKey]; rfl

/-! ## `addDistinct` / `firstDistinct` -/

theorem addDistinct_mem (d : List Attr) (a : Attr) (h : a ∈ d) : addDistinct d a = d := by
  simp [addDistinct, h]

theorem addDistinct_not_mem (d : List Attr) (a : Attr) (h : a ∉ d) : addDistinct d a = d ++ [a] := by
  simp [addDistinct, h]

theorem mem_addDistinct_self (d : List Attr) (a : Attr) : a ∈ addDistinct d a := by
  by_cases h : a ∈ d <;> simp [addDistinct, h]

theorem nodup_addDistinct (d : List Attr) (a : Attr) (h : d.Nodup) : (addDistinct d a).Nodup := by
  by_cases ha : a ∈ d
  · simpa [addDistinct, ha] using h
  · simp only [addDistinct, List.contains_iff_mem, ha, if_false]
    rw [List.nodup_append]
    refine ⟨h, by simp, ?_⟩
    intro x hx y hy
    simp at hy; subst hy
    exact fun e => ha (e ▸ hx)

/-- folding more arrivals only appends -/
theorem foldl_addDistinct_prefix (d : List Attr) (r : List Attr) :
    ∃ ext, r.foldl addDistinct d = d ++ ext := by
  induction r generalizing d with
  | nil => exact ⟨[], by simp⟩
  | cons a r ih =>
    obtain ⟨ext, h⟩ := ih (addDistinct d a)
    by_cases ha : a ∈ d
    · rw [addDistinct_mem d a ha] at h; exact ⟨ext, by simp [List.foldl_cons, addDistinct_mem d a ha, h]⟩
    · rw [addDistinct_not_mem d a ha] at h; exact ⟨[a] ++ ext, by simp [List.foldl_cons, addDistinct_not_mem d a ha, h]⟩

theorem nodup_foldl_addDistinct (d : List Attr) (r : List Attr) (h : d.Nodup) :
    (r.foldl addDistinct d).Nodup := by
  induction r generalizing d with
  | nil => simpa using h
  | cons a r ih => exact ih _ (nodup_addDistinct d a h)

/-- membership in the first `n` distinct arrivals is decided as soon as the set has arrived -/
theorem mem_take_stable (d ext : List Attr) (n : Nat) (a : Attr) (ha : a ∈ d) (hn : (d ++ ext).Nodup) :
    a ∈ (d ++ ext).take n ↔ a ∈ d.take n := by
  rw [List.take_append]
  constructor
  · intro h
    rcases List.mem_append.mp h with h | h
    · exact h
    · exfalso
      have h2 := List.mem_of_mem_take h
      rw [List.nodup_append] at hn
      exact hn.2.2 a ha a h2 rfl
  · intro h; exact List.mem_append.mpr (Or.inl h)


/-! ## closed form of the key machine -/

/-- the key list once more than `n` distinct sets have arrived: the first `n`, plus the overflow set unless it is
one of them -/
def slot (n : Nat) (d : List Attr) : List Attr :=
  d.take n ++ (if overflowAttr ∈ d.take n then [] else [overflowAttr])

theorem zero_mem_slot (n : Nat) (d : List Attr) : overflowAttr ∈ slot n d := by
  unfold slot; split <;> simp_all

theorem mem_slot (n : Nat) (d : List Attr) (a : Attr) : a ∈ slot n d ↔ a ∈ d.take n ∨ a = overflowAttr := by
  unfold slot
  split
  · rename_i h
    simp only [List.append_nil]
    constructor
    · exact Or.inl
    · rintro (h' | h')
      · exact h'
      · exact h' ▸ h
  · simp

theorem slot_length (n : Nat) (d : List Attr) (h : n ≤ d.length) : n ≤ (slot n d).length := by
  unfold slot; simp [List.length_take]; omega

theorem slot_length_le (n : Nat) (d : List Attr) : (slot n d).length ≤ n + 1 := by
  unfold slot; split <;> simp [List.length_take] <;> omega

/-- `ks` (the limiter's admission set) against `d` (the distinct arrivals so far, in order) -/
structure R (L : Nat) (ks d : List Attr) : Prop where
  nodup : d.Nodup
  small : d.length + 1 ≤ L → ks = d
  big : L ≤ d.length → ks = slot (L - 1) d

theorem R_nil (L : Nat) (hL : 1 ≤ L) : R L [] [] :=
  ⟨List.nodup_nil, fun _ => rfl, fun h => by simp at h; omega⟩

theorem limKey_pos_mem (L : Nat) (ks : List Attr) (a : Attr) (h : a ∈ ks) : limKey L ks a = a := by
  simp [limKey, h]

theorem limKey_full (L : Nat) (hL : 1 ≤ L) (ks : List Attr) (a : Attr) (h : a ∉ ks) (hf : L ≤ ks.length + 1) :
    limKey L ks a = overflowAttr := by
  simp [limKey, h, hf]; omega

theorem limKey_room (L : Nat) (ks : List Attr) (a : Attr) (hf : ks.length + 1 < L) : limKey L ks a = a := by
  simp [limKey]; intro _ _ h; omega

theorem R_step (L : Nat) (hL : 1 ≤ L) (ks d : List Attr) (h : R L ks d) (a : Attr) :
    R L (stepKeys L ks a) (addDistinct d a) ∧
    limKey L ks a = (if a ∈ (addDistinct d a).take (L - 1) then a else overflowAttr) := by
  have hnd' := nodup_addDistinct d a h.nodup
  by_cases had : a ∈ d
  · -- the set has arrived before
    rw [addDistinct_mem d a had]
    by_cases hs : d.length + 1 ≤ L
    · have hk := h.small hs
      subst hk
      have hadm := limKey_pos_mem L ks a had
      refine ⟨?_, ?_⟩
      · simp only [stepKeys, hadm, addDistinct_mem ks a had]; exact h
      · rw [hadm, List.take_of_length_le (by omega)]; simp [had]
    · have hb : L ≤ d.length := by omega
      have hk := h.big hb
      by_cases hat : a ∈ d.take (L - 1)
      · have hak : a ∈ ks := by rw [hk, mem_slot]; exact Or.inl hat
        have hadm := limKey_pos_mem L ks a hak
        refine ⟨?_, ?_⟩
        · simp only [stepKeys, hadm, addDistinct_mem ks a hak]; exact h
        · rw [hadm]; simp [hat]
      · by_cases ha0 : a = overflowAttr
        · have hak : a ∈ ks := by rw [hk, mem_slot]; exact Or.inr ha0
          have hadm := limKey_pos_mem L ks a hak
          refine ⟨?_, ?_⟩
          · simp only [stepKeys, hadm, addDistinct_mem ks a hak]; exact h
          · rw [hadm]; simp [hat, ha0]
        · have hak : a ∉ ks := by rw [hk, mem_slot]; exact fun h' => h'.elim hat ha0
          have hlen : L ≤ ks.length + 1 := by
            have := slot_length (L - 1) d (by omega); rw [← hk] at this; omega
          have hadm := limKey_full L hL ks a hak hlen
          have h0 : overflowAttr ∈ ks := by rw [hk]; exact zero_mem_slot _ _
          refine ⟨?_, ?_⟩
          · simp only [stepKeys, hadm, addDistinct_mem ks _ h0]; exact h
          · rw [hadm]; simp [hat]
  · -- a new set
    rw [addDistinct_not_mem d a had] at hnd' ⊢
    by_cases hs : d.length + 2 ≤ L
    · have hk := h.small (by omega)
      subst hk
      have hadm := limKey_room L ks a (by omega)
      refine ⟨⟨hnd', ?_, ?_⟩, ?_⟩
      · intro _; simp only [stepKeys, hadm, addDistinct_not_mem ks a had]
      · intro hb; simp at hb; omega
      · rw [hadm, List.take_of_length_le (by simp; omega)]; simp
    · by_cases he : d.length + 1 = L
      · have hk := h.small (by omega)
        subst hk
        have hadm := limKey_full L hL ks a had (by omega)
        have htake : (ks ++ [a]).take (L - 1) = ks := by
          rw [List.take_append_of_le_length (by omega), List.take_of_length_le (by omega)]
        refine ⟨⟨hnd', ?_, ?_⟩, ?_⟩
        · intro hb; simp at hb; omega
        · intro _
          simp only [stepKeys, hadm, slot, htake, addDistinct, List.contains_iff_mem]
          split <;> simp
        · rw [hadm, htake]; simp [had]
      · have hb : L ≤ d.length := by omega
        have hk := h.big hb
        have htake : (d ++ [a]).take (L - 1) = d.take (L - 1) :=
          List.take_append_of_le_length (by omega)
        have hat : a ∉ d.take (L - 1) := fun h' => had (List.mem_of_mem_take h')
        have hslot : slot (L - 1) (d ++ [a]) = slot (L - 1) d := by simp only [slot, htake]
        by_cases ha0 : a = overflowAttr
        · have hak : a ∈ ks := by rw [hk, mem_slot]; exact Or.inr ha0
          have hadm := limKey_pos_mem L ks a hak
          refine ⟨⟨hnd', ?_, ?_⟩, ?_⟩
          · intro hb'; simp at hb'; omega
          · intro _; simp only [stepKeys, hadm, addDistinct_mem ks a hak, hslot]; exact hk
          · rw [hadm, htake]; simp [hat, ha0]
        · have hak : a ∉ ks := by rw [hk, mem_slot]; exact fun h' => h'.elim hat ha0
          have hlen : L ≤ ks.length + 1 := by
            have := slot_length (L - 1) d (by omega); rw [← hk] at this; omega
          have hadm := limKey_full L hL ks a hak hlen
          have h0 : overflowAttr ∈ ks := by rw [hk]; exact zero_mem_slot _ _
          refine ⟨⟨hnd', ?_, ?_⟩, ?_⟩
          · intro hb'; simp at hb'; omega
          · intro _; simp only [stepKeys, hadm, addDistinct_mem ks _ h0, hslot]; exact hk
          · rw [hadm, htake]; simp [hat]


/-! ## runs of the key machine -/

/-- the measurements of a window with the key each one is stored under, computed step by step -/
def tl (L : Nat) : List Attr → List (Attr × Int) → List (Attr × Int)
  | _, [] => []
  | ks, m :: r => (limKey L ks m.1, m.2) :: tl L (stepKeys L ks m.1) r

def runKeys (L : Nat) (ks : List Attr) (arr : List (Attr × Int)) : List Attr :=
  arr.foldl (fun ks m => stepKeys L ks m.1) ks

theorem R_run (L : Nat) (hL : 1 ≤ L) (ks d : List Attr) (h : R L ks d) (arr : List (Attr × Int)) :
    R L (runKeys L ks arr) ((arr.map (·.1)).foldl addDistinct d) := by
  induction arr generalizing ks d with
  | nil => simpa [runKeys] using h
  | cons m r ih =>
    simp only [runKeys, List.foldl_cons, List.map_cons]
    exact ih _ _ (R_step L hL ks d h m.1).1

theorem R_length (L : Nat) (hL : 1 ≤ L) (ks d : List Attr) (h : R L ks d) : ks.length ≤ L := by
  by_cases hs : d.length + 1 ≤ L
  · rw [h.small hs]; omega
  · rw [h.big (by omega)]
    have := slot_length_le (L - 1) d
    omega

theorem R_nodup (L : Nat) (hL : 1 ≤ L) (ks d : List Attr) (h : R L ks d) : ks.Nodup := by
  by_cases hs : d.length + 1 ≤ L
  · rw [h.small hs]; exact h.nodup
  · rw [h.big (by omega)]
    unfold slot
    have ht : (d.take (L - 1)).Nodup := List.Nodup.sublist (List.take_sublist _ _) h.nodup
    split
    · simpa using ht
    · rename_i h0
      rw [List.nodup_append]
      refine ⟨ht, by simp, ?_⟩
      intro x hx y hy
      simp at hy; subst hy
      exact fun e => h0 (e ▸ hx)

theorem tl_closed (L : Nat) (hL : 1 ≤ L) (ks d : List Attr) (h : R L ks d) (arr : List (Attr × Int)) :
    tl L ks arr = arr.map fun m =>
      (if m.1 ∈ ((arr.map (·.1)).foldl addDistinct d).take (L - 1) then m.1 else overflowAttr, m.2) := by
  induction arr generalizing ks d with
  | nil => rfl
  | cons m r ih =>
    obtain ⟨hR, hadm⟩ := R_step L hL ks d h m.1
    simp only [tl, List.map_cons, List.foldl_cons]
    rw [ih _ _ hR, hadm]
    obtain ⟨ext, hext⟩ := foldl_addDistinct_prefix (addDistinct d m.1) (r.map (·.1))
    have hnd := nodup_foldl_addDistinct (addDistinct d m.1) (r.map (·.1)) hR.nodup
    rw [hext] at hnd ⊢
    have := mem_take_stable (addDistinct d m.1) ext (L - 1) m.1 (mem_addDistinct_self d m.1) hnd
    simp only [this]

theorem tl_zero (ks : List Attr) (arr : List (Attr × Int)) : tl 0 ks arr = arr := by
  induction arr generalizing ks with
  | nil => rfl
  | cons m r ih => simp [tl, limKey, ih]

/-- the step-by-step keys are the closed form `Spec.relabel` -/
theorem tl_eq_relabel (L : Nat) (arr : List (Attr × Int)) : tl L [] arr = relabel L arr := by
  by_cases hL : L = 0
  · subst hL; simp [tl_zero, relabel, specKey]
  · rw [tl_closed L (by omega) [] [] (R_nil L (by omega)) arr]
    simp [relabel, specKey, hL, kept, firstDistinct]

theorem runKeys_eq_tl (L : Nat) (ks : List Attr) (arr : List (Attr × Int)) :
    runKeys L ks arr = ((tl L ks arr).map (·.1)).foldl addDistinct ks := by
  induction arr generalizing ks with
  | nil => rfl
  | cons m r ih =>
    simp only [runKeys, List.foldl_cons, tl, List.map_cons] at ih ⊢
    rw [ih (stepKeys L ks m.1)]; rfl

theorem runKeys_nil_eq_refKeys (L : Nat) (arr : List (Attr × Int)) : runKeys L [] arr = refKeys L arr := by
  rw [runKeys_eq_tl, tl_eq_relabel]; rfl

theorem runKeys_append (L : Nat) (ks : List Attr) (a b : List (Attr × Int)) :
    runKeys L ks (a ++ b) = runKeys L (runKeys L ks a) b := by
  simp [runKeys, List.foldl_append]


/-! ## aggregate functions: keys -/

theorem Agg.measure_keys (g : Agg) (a : Attr) (x : Int) : (g.measure a x).keys = stepKeys g.limit g.keys a := by
  cases g <;>
    simp only [Agg.measure, Agg.keys, Agg.limit, Sum.measure, PSum.measure, LastValue.measure, Hist.measure,
      measure_keys_gen]

theorem Agg.measure_limit (g : Agg) (a : Attr) (x : Int) : (g.measure a x).limit = g.limit := by
  cases g <;> rfl

theorem Agg.measure_resets (g : Agg) (a : Attr) (x : Int) (tp : Temporality) :
    (g.measure a x).resets tp = g.resets tp := by
  cases g <;> rfl

theorem mkPoints_keys {V W : Type} (m : AMap V) (s t : Nat) (f : Attr → V → W) :
    (mkPoints m s t f).map (·.attr) = m.keys := by
  simp [mkPoints, AMap.keys]

/-- a report has one point per key of the map, in map order -/
theorem Agg.collect_keys (g : Agg) (tp : Temporality) (t : Nat) : (g.collect tp t).2.map (·.1) = g.keys := by
  cases g <;> cases tp <;>
    simp [Agg.collect, Agg.keys, Sum.collect, PSum.collect, LastValue.collect, LastValue.pcollect, Hist.collect,
      Sum.delta, Sum.cumulative, PSum.delta, PSum.cumulative, LastValue.delta, LastValue.cumulative,
      LastValue.pdelta, LastValue.pcumulative, Hist.delta, Hist.cumulative, mkPoints, AMap.keys]

@[simp] theorem tp_dd : (Temporality.delta == Temporality.delta) = true := by decide
@[simp] theorem tp_cd : (Temporality.cumulative == Temporality.delta) = false := by decide

theorem Agg.collect_state_keys (g : Agg) (tp : Temporality) (t : Nat) :
    (g.collect tp t).1.keys = if g.resets tp then [] else g.keys := by
  cases g <;> cases tp <;>
    simp [Agg.collect, Agg.keys, Agg.resets, Sum.collect, PSum.collect, LastValue.collect, LastValue.pcollect,
      Hist.collect, Sum.delta, Sum.cumulative, PSum.delta, PSum.cumulative, LastValue.delta, LastValue.cumulative,
      LastValue.pdelta, LastValue.pcumulative, Hist.delta, Hist.cumulative, AMap.keys]

theorem Agg.collect_limit (g : Agg) (tp : Temporality) (t : Nat) : (g.collect tp t).1.limit = g.limit := by
  cases g <;> cases tp <;> rfl

theorem Agg.collect_resets (g : Agg) (tp tp' : Temporality) (t : Nat) :
    (g.collect tp t).1.resets tp' = g.resets tp' := by
  cases g <;> cases tp <;> rfl

/-- the keys of every report are the closed form of the window it reports on -/
theorem runSteps_keys (tp : Temporality) (steps : List AStep) (g : Agg) (w : List (Attr × Int))
    (hw : g.keys = runKeys g.limit [] w) :
    (g.runSteps tp steps).2.map (·.map (·.1)) = (windows (g.resets tp) w steps).map (refKeys g.limit) := by
  induction steps generalizing g w with
  | nil => rfl
  | cons st r ih =>
    cases st with
    | meas a x =>
      simp only [Agg.runSteps, windows]
      have := ih (g.measure a x) (w ++ [(a, x)])
        (by rw [Agg.measure_keys, Agg.measure_limit, hw, runKeys_append]; rfl)
      rw [this, Agg.measure_limit, Agg.measure_resets]
    | col t =>
      simp only [Agg.runSteps, windows, List.map_cons]
      have := ih (g.collect tp t).1 (if g.resets tp then [] else w)
        (by rw [Agg.collect_state_keys, Agg.collect_limit]
            by_cases hr : g.resets tp <;> simp [hr, hw, runKeys])
      rw [this, Agg.collect_limit, Agg.collect_resets, Agg.collect_keys, hw, runKeys_nil_eq_refKeys]

theorem refKeys_length_le (L : Nat) (hL : 1 ≤ L) (w : List (Attr × Int)) : (refKeys L w).length ≤ L := by
  rw [← runKeys_nil_eq_refKeys]
  exact R_length L hL _ _ (R_run L hL [] [] (R_nil L hL) w)

theorem refKeys_nodup (L : Nat) (w : List (Attr × Int)) : (refKeys L w).Nodup := by
  unfold refKeys firstDistinct
  exact nodup_foldl_addDistinct [] _ List.nodup_nil


/-! ## additive projections: what a map holds is the sum of what was put in, whatever key it went under -/

theorem foldl_add_acc (l : List Int) (acc : Int) : l.foldl (· + ·) acc = acc + sumInts l := by
  induction l generalizing acc with
  | nil => simp [sumInts]
  | cons a l ih => simp only [List.foldl_cons, sumInts]; rw [ih, ih (0 + a)]; omega

@[simp] theorem sumInts_nil : sumInts [] = 0 := rfl
@[simp] theorem sumInts_cons (a : Int) (l : List Int) : sumInts (a :: l) = a + sumInts l := by
  simp only [sumInts, List.foldl_cons]; rw [foldl_add_acc]; simp [sumInts]
@[simp] theorem sumInts_append (a b : List Int) : sumInts (a ++ b) = sumInts a + sumInts b := by
  induction a with
  | nil => simp
  | cons x a ih => simp [ih]; omega

theorem sumInts_const_one {α : Type} (l : List α) : sumInts (l.map fun _ => (1 : Int)) = l.length := by
  induction l with
  | nil => rfl
  | cons a l ih => simp [ih]; omega

theorem sumInts_const_zero {α : Type} (l : List α) : sumInts (l.map fun _ => (0 : Int)) = 0 := by
  induction l with
  | nil => rfl
  | cons a l ih => simp [ih]

def mapTotal {V : Type} (π : V → Int) (m : AMap V) : Int := sumInts (m.map fun kv => π kv.2)

structure Additive {V : Type} (cellf : Option V → V) (π : V → Int) (d : Int) : Prop where
  none : π (cellf none) = d
  some : ∀ v, π (cellf (some v)) = π v + d

theorem mapTotal_upd {V : Type} (cellf : Option V → V) (π : V → Int) (d : Int) (h : Additive cellf π d)
    (m : AMap V) (k : Attr) : mapTotal π (m.upd k cellf) = mapTotal π m + d := by
  induction m with
  | nil => simp [AMap.upd, mapTotal, h.none]
  | cons kv m ih =>
    obtain ⟨k', w⟩ := kv
    simp only [AMap.upd]
    by_cases hk : k' = k
    · simp [hk, mapTotal, h.some]; omega
    · simp only [hk, if_false]
      simp only [mapTotal, List.map_cons, sumInts_cons] at ih ⊢
      rw [ih]; omega

theorem sumCell_additive (x : Int) (id : Nat) : Additive (sumCell x id) (·.n) x :=
  ⟨by simp [sumCell], fun v => by simp [sumCell]⟩

theorem histCell_count_additive (nb : Nat) (noSum : Bool) (idx : Nat) (x : Int) :
    Additive (histCell nb noSum idx x) (fun v => (v.count : Int)) 1 :=
  ⟨by simp [histCell], fun v => by simp [histCell]⟩

theorem histCell_total_additive (nb : Nat) (idx : Nat) (x : Int) :
    Additive (histCell nb false idx x) (·.total) x :=
  ⟨by simp [histCell], fun v => by simp [histCell]⟩

/-- additive content held by an aggregate function: Σ values (sums), number of measurements (histograms) -/
def Agg.held1 : Agg → Int
  | .sum s => mapTotal (·.n) s.values
  | .psum s => mapTotal (·.n) s.values
  | .hist h | .expo h => mapTotal (fun v => (v.count : Int)) h.values
  | .lv _ | .plv _ => 0

/-- second additive content: the sum field of histograms (0 when the sum is not collected) -/
def Agg.held2 : Agg → Int
  | .sum s => mapTotal (·.n) s.values
  | .psum s => mapTotal (·.n) s.values
  | .hist h | .expo h => if h.noSum then 0 else mapTotal (·.total) h.values
  | .lv _ | .plv _ => 0

def Agg.c1 : Agg → Int → Int
  | .sum _, x | .psum _, x => x
  | .hist _, _ | .expo _, _ => 1
  | .lv _, _ | .plv _, _ => 0

def Agg.c2 : Agg → Int → Int
  | .sum _, x | .psum _, x => x
  | .hist h, x | .expo h, x => if h.noSum then 0 else x
  | .lv _, _ | .plv _, _ => 0

theorem Agg.measure_held1 (g : Agg) (a : Attr) (x : Int) : (g.measure a x).held1 = g.held1 + g.c1 x := by
  cases g with
  | sum s => exact mapTotal_upd _ _ _ (sumCell_additive x 0) _ _
  | psum s => exact mapTotal_upd _ _ _ (sumCell_additive x 0) _ _
  | hist h => exact mapTotal_upd _ _ _ (histCell_count_additive _ _ _ x) _ _
  | expo h => exact mapTotal_upd _ _ _ (histCell_count_additive _ _ _ x) _ _
  | lv s => simp [Agg.measure, Agg.held1, Agg.c1]
  | plv s => simp [Agg.measure, Agg.held1, Agg.c1]

theorem hist_measure_held2 (h : Hist) (a : Attr) (x : Int) :
    (if (h.measure a x).noSum then 0 else mapTotal (·.total) (h.measure a x).values) =
    (if h.noSum then 0 else mapTotal (·.total) h.values) + (if h.noSum then 0 else x) := by
  by_cases hn : h.noSum
  · simp [Hist.measure, hn]
  · have hn' : h.noSum = false := by simpa using hn
    simp only [Hist.measure, hn', Bool.false_eq_true, if_false]
    exact mapTotal_upd _ _ _ (histCell_total_additive _ _ x) _ _

theorem Agg.measure_held2 (g : Agg) (a : Attr) (x : Int) : (g.measure a x).held2 = g.held2 + g.c2 x := by
  cases g with
  | sum s => exact mapTotal_upd _ _ _ (sumCell_additive x 0) _ _
  | psum s => exact mapTotal_upd _ _ _ (sumCell_additive x 0) _ _
  | hist h => exact hist_measure_held2 h a x
  | expo h => exact hist_measure_held2 h a x
  | lv s => simp [Agg.measure, Agg.held2, Agg.c2]
  | plv s => simp [Agg.measure, Agg.held2, Agg.c2]


/-- the one combination whose report is not the held content: a precomputed sum with delta temporality reports
the difference to the preceding cycle's value of the same attribute set (sum.go:168-207; C08's subject) -/
def Agg.psumDelta (g : Agg) (tp : Temporality) : Bool :=
  match g with
  | .psum _ => tp == .delta
  | _ => false

def Agg.isLast : Agg → Bool
  | .lv _ | .plv _ => true
  | _ => false

theorem Agg.collect_total (g : Agg) (tp : Temporality) (t : Nat) (h1 : g.psumDelta tp = false)
    (h2 : g.isLast = false) : total (g.collect tp t).2 = g.held1 ∧ totalSum (g.collect tp t).2 = g.held2 := by
  cases g <;> cases tp <;> simp [Agg.isLast, Agg.psumDelta] at h1 h2 <;>
    simp [Agg.collect, Agg.held1, Agg.held2, Spec.total, Spec.totalSum, mapTotal, Sum.collect, PSum.collect,
      Hist.collect, Sum.delta, Sum.cumulative, PSum.cumulative, Hist.delta, Hist.cumulative, mkPoints, pvTotal,
      pvSum, histPV, Function.comp_def] <;>
    (split <;> simp_all [sumInts_const_zero])


theorem Agg.collect_held (g : Agg) (tp : Temporality) (t : Nat) :
    (g.collect tp t).1.held1 = (if g.resets tp then 0 else g.held1) ∧
    (g.collect tp t).1.held2 = (if g.resets tp then 0 else g.held2) := by
  cases g <;> cases tp <;>
    simp [Agg.collect, Agg.held1, Agg.held2, Agg.resets, mapTotal, Sum.collect, PSum.collect, LastValue.collect,
      LastValue.pcollect, Hist.collect, Sum.delta, Sum.cumulative, PSum.delta, PSum.cumulative, LastValue.delta,
      LastValue.cumulative, LastValue.pdelta, LastValue.pcumulative, Hist.delta, Hist.cumulative]

theorem conserved_measure (g : Agg) (a : Attr) (x : Int) : conserved (g.measure a x) = conserved g := by
  cases g <;> rfl

theorem conserved_collect (g : Agg) (tp : Temporality) (t : Nat) : conserved (g.collect tp t).1 = conserved g := by
  cases g <;> cases tp <;> rfl

theorem c_measure (g : Agg) (a : Attr) (x : Int) : (g.measure a x).c1 = g.c1 ∧ (g.measure a x).c2 = g.c2 := by
  cases g <;> exact ⟨rfl, rfl⟩

theorem c_collect (g : Agg) (tp : Temporality) (t : Nat) : (g.collect tp t).1.c1 = g.c1 ∧ (g.collect tp t).1.c2 = g.c2 := by
  cases g <;> cases tp <;> exact ⟨rfl, rfl⟩

theorem psumDelta_measure (g : Agg) (a : Attr) (x : Int) (tp : Temporality) :
    (g.measure a x).psumDelta tp = g.psumDelta tp := by cases g <;> rfl

theorem psumDelta_collect (g : Agg) (tp tp' : Temporality) (t : Nat) :
    (g.collect tp t).1.psumDelta tp' = g.psumDelta tp' := by cases g <;> cases tp <;> rfl

/-- what the window has put in, in terms of the two additive projections -/
theorem conserved_of_held (g : Agg) (w : List (Attr × Int)) (pts : List (Attr × PV))
    (h1 : g.isLast = false → total pts = sumInts (w.map fun m => g.c1 m.2))
    (h2 : g.isLast = false → totalSum pts = sumInts (w.map fun m => g.c2 m.2)) :
    conserved g w pts = true := by
  cases g with
  | sum s => simpa [conserved, Agg.c1, Agg.isLast] using h1
  | psum s => simpa [conserved, Agg.c1, Agg.isLast] using h1
  | lv s => rfl
  | plv s => rfl
  | hist h =>
    simp only [Agg.isLast, Agg.c1, Agg.c2, forall_const] at h1 h2
    rw [sumInts_const_one] at h1
    by_cases hn : h.noSum <;> simp_all [conserved]
  | expo h =>
    simp only [Agg.isLast, Agg.c1, Agg.c2, forall_const] at h1 h2
    rw [sumInts_const_one] at h1
    by_cases hn : h.noSum <;> simp_all [conserved]

theorem runSteps_conserved (tp : Temporality) (steps : List AStep) (g : Agg) (w : List (Attr × Int))
    (hp : g.psumDelta tp = false)
    (h1 : g.held1 = sumInts (w.map fun m => g.c1 m.2)) (h2 : g.held2 = sumInts (w.map fun m => g.c2 m.2)) :
    allZip (conserved g) (windows (g.resets tp) w steps) (g.runSteps tp steps).2 = true := by
  induction steps generalizing g w with
  | nil => rfl
  | cons st r ih =>
    cases st with
    | meas a x =>
      simp only [Agg.runSteps, windows]
      have := ih (g.measure a x) (w ++ [(a, x)]) (by rw [psumDelta_measure]; exact hp)
        (by rw [Agg.measure_held1, (c_measure g a x).1, h1]; simp)
        (by rw [Agg.measure_held2, (c_measure g a x).2, h2]; simp)
      rw [Agg.measure_resets, conserved_measure] at this
      exact this
    | col t =>
      simp only [Agg.runSteps, windows]
      simp only [allZip, Bool.and_eq_true]
      refine ⟨?_, ?_⟩
      · apply conserved_of_held
        · intro hl; rw [(Agg.collect_total g tp t hp hl).1, h1]
        · intro hl; rw [(Agg.collect_total g tp t hp hl).2, h2]
      · have := ih (g.collect tp t).1 (if g.resets tp then [] else w) (by rw [psumDelta_collect]; exact hp)
          (by rw [(Agg.collect_held g tp t).1, (c_collect g tp t).1]; by_cases hr : g.resets tp <;> simp [hr, h1])
          (by rw [(Agg.collect_held g tp t).2, (c_collect g tp t).2]; by_cases hr : g.resets tp <;> simp [hr, h2])
        rw [Agg.collect_resets, conserved_collect] at this
        exact this

theorem held_of_empty (g : Agg) (h : g.keys = []) : g.held1 = 0 ∧ g.held2 = 0 := by
  cases g <;> simp [Agg.keys, AMap.keys] at h <;> simp [Agg.held1, Agg.held2, mapTotal, h]


/-! ## the numbering of concrete attribute sets is injective -/

theorem pow2_odd_inj (x y m n : Nat) (h : 2 ^ x * (2 * m + 1) = 2 ^ y * (2 * n + 1)) : x = y ∧ m = n := by
  induction x generalizing y with
  | zero =>
    cases y with
    | zero => simp at h; exact ⟨rfl, by omega⟩
    | succ y =>
      exfalso
      rw [Nat.pow_succ', Nat.mul_assoc] at h
      simp at h; omega
  | succ x ih =>
    cases y with
    | zero =>
      exfalso
      rw [Nat.pow_succ', Nat.mul_assoc] at h
      simp at h; omega
    | succ y =>
      rw [Nat.pow_succ', Nat.pow_succ', Nat.mul_assoc, Nat.mul_assoc] at h
      have h' : 2 ^ x * (2 * m + 1) = 2 ^ y * (2 * n + 1) := by omega
      obtain ⟨h1, h2⟩ := ih y h'
      exact ⟨by omega, h2⟩

theorem encList_pos (x : Nat) (r : List Nat) : 0 < encList (x :: r) := by
  simp only [encList]; exact Nat.mul_pos (Nat.pow_pos (by omega)) (by omega)

theorem encList_inj (a b : List Nat) (h : encList a = encList b) : a = b := by
  induction a generalizing b with
  | nil =>
    cases b with
    | nil => rfl
    | cons y s => have := encList_pos y s; rw [← h] at this; simp [encList] at this
  | cons x r ih =>
    cases b with
    | nil => have := encList_pos x r; rw [h] at this; simp [encList] at this
    | cons y s =>
      simp only [encList] at h
      obtain ⟨h1, h2⟩ := pow2_odd_inj _ _ _ _ h
      rw [h1, ih s h2]

theorem flat_inj (a b : CSet) (h : flat a = flat b) : a = b := by
  induction a generalizing b with
  | nil =>
    cases b with
    | nil => rfl
    | cons y s => obtain ⟨k, v⟩ := y; simp [flat] at h
  | cons x r ih =>
    obtain ⟨k, v⟩ := x
    cases b with
    | nil => simp [flat] at h
    | cons y s =>
      obtain ⟨k', v'⟩ := y
      simp only [flat, List.cons.injEq] at h
      obtain ⟨h1, h2, h3⟩ := h
      rw [h1, h2, ih s h3]

theorem code_ovf : code ovfSet = overflowAttr := by simp [code]

theorem code_eq_ovf (s : CSet) : code s = overflowAttr ↔ s = ovfSet := by
  constructor
  · intro h
    by_cases hs : s = ovfSet
    · exact hs
    · simp [code, hs, overflowAttr] at h
  · intro h; rw [h]; exact code_ovf

theorem code_injective (a b : CSet) (h : code a = code b) : a = b := by
  by_cases ha : a = ovfSet
  · rw [ha, code_ovf] at h
    rw [ha]; exact ((code_eq_ovf b).mp h.symm).symm
  · by_cases hb : b = ovfSet
    · rw [hb, code_ovf] at h
      exact absurd ((code_eq_ovf a).mp h) ha
    · simp only [code, ha, hb, if_false] at h
      exact flat_inj _ _ (encList_inj _ _ (Nat.add_right_cancel h))


/-! ## view resolution -/

theorem findKey_append_some (S ext : List StreamSt) (key : StreamKey) (idx : Nat)
    (h : findKey S key = some idx) : findKey (S ++ ext) key = some idx := by
  simp only [findKey] at h ⊢
  rw [List.findIdx?_append, h]; rfl

theorem findKey_lt (S : List StreamSt) (key : StreamKey) (idx : Nat)
    (h : findKey S key = some idx) : idx < S.length := by
  simp only [findKey] at h
  exact (List.findIdx?_eq_some_iff_findIdx_eq.mp h).1

theorem findKey_new (S : List StreamSt) (s : StreamSt) (h : findKey S s.key = none) :
    findKey (S ++ [s]) s.key = some S.length := by
  simp only [findKey] at h ⊢
  rw [List.findIdx?_append, h]
  simp [List.findIdx?_cons]

/-- what one `cachedAggregator` call guarantees -/
structure CASpec (S : List StreamSt) (i : Inst) (name : Name) (sel : Option AggSel)
    (c : List StreamSt × Option Nat) : Prop where
  ext : ∃ e, c.1 = S ++ e
  some_ok : ∀ idx, c.2 = some idx → ∃ s, c.1[idx]? = some s ∧ s.agg.isSome = true
  found : incompatible i sel = false →
    ∃ idx s, findKey c.1 (streamKey i name) = some idx ∧ c.1[idx]? = some s ∧
      (s.agg.isSome = true → c.2 = some idx)

theorem cachedAggregator_spec (L : Nat) (S : List StreamSt) (i : Inst) (name : Name) (f : Option Filter)
    (sel : Option AggSel) : CASpec S i name sel (cachedAggregator L S i name f sel) := by
  unfold cachedAggregator
  by_cases hi : incompatible i sel
  · simp only [hi, if_true]
    exact ⟨⟨[], by simp⟩, fun idx h => by simp at h, fun h => by simp [hi] at h⟩
  · simp only [hi]
    cases hf : findKey S (streamKey i name) with
    | some idx =>
      have hlt := findKey_lt S _ idx hf
      have hget : S[idx]? = some S[idx] := List.getElem?_eq_getElem hlt
      simp only [hget]
      refine ⟨⟨[], by simp⟩, ?_, ?_⟩
      · intro idx' h
        by_cases ha : S[idx].agg.isSome
        · simp [ha] at h; subst h; exact ⟨S[idx], hget, ha⟩
        · simp [ha] at h
      · intro _
        exact ⟨idx, S[idx], hf, hget, fun ha => by simp [ha]⟩
    | none =>
      refine ⟨⟨_, rfl⟩, ?_, ?_⟩
      · intro idx' h
        by_cases ha : (mkAgg L i sel).isSome
        · simp [ha] at h; subst h
          exact ⟨_, List.getElem?_concat_length, ha⟩
        · simp [ha] at h
      · intro _
        refine ⟨S.length, _, findKey_new S _ hf, List.getElem?_concat_length, ?_⟩
        intro ha; simp at ha; simp [ha]

/-- what the loop over the views guarantees -/
structure RVSpec (L : Nat) (j : Nat) (i : Inst) (vs : List View) (S : List StreamSt) (M : List Nat) (mt : Bool)
    (r : List StreamSt × List Nat × Bool) : Prop where
  ext : ∃ e, r.1 = S ++ e
  mext : ∃ e, r.2.1 = M ++ e
  nodup : M.Nodup → r.2.1.Nodup
  valid : (∀ idx ∈ M, ∃ s, S[idx]? = some s ∧ s.agg.isSome = true) →
    ∀ idx ∈ r.2.1, ∃ s, r.1[idx]? = some s ∧ s.agg.isSome = true
  noloss : ∀ v ∈ vs, v.matches j i = true → incompatible i v.agg = false →
    ∃ idx s, findKey r.1 (streamKey i (v.streamName j)) = some idx ∧ r.1[idx]? = some s ∧
      (s.agg.isSome = true → idx ∈ r.2.1)
  matched : r.2.2 = (mt || vs.any fun v => v.matches j i)
  unmatched : r.2.2 = false → r.1 = S ∧ r.2.1 = M

theorem getElem?_append_some {α : Type} (S e : List α) (idx : Nat) (s : α) (h : S[idx]? = some s) :
    (S ++ e)[idx]? = some s := by
  have hlt : idx < S.length := by
    rcases Nat.lt_or_ge idx S.length with h' | h'
    · exact h'
    · rw [List.getElem?_eq_none h'] at h; simp at h
  rw [List.getElem?_append_left hlt]; exact h

theorem resolveViews_spec (L : Nat) (j : Nat) (i : Inst) (vs : List View) (S : List StreamSt) (M : List Nat)
    (mt : Bool) : RVSpec L j i vs S M mt (resolveViews L j i vs S M mt) := by
  induction vs generalizing S M mt with
  | nil =>
    simp only [resolveViews]
    exact ⟨⟨[], by simp⟩, ⟨[], by simp⟩, id, id, fun v hv => by simp at hv, by simp, fun _ => ⟨rfl, rfl⟩⟩
  | cons v vs ih =>
    simp only [resolveViews]
    by_cases hm : v.matches j i
    · simp only [hm, if_true]
      have hc := cachedAggregator_spec L S i (v.streamName j) v.filter v.agg
      generalize cachedAggregator L S i (v.streamName j) v.filter v.agg = c at hc
      obtain ⟨e1, he1⟩ := hc.ext
      -- the three continuations share the new cache `c.1`; name the new measure list `M'`
      have key : ∀ M', (∃ e, M' = M ++ e) → (M.Nodup → M'.Nodup) →
          (∀ idx ∈ M', idx ∈ M ∨ c.2 = some idx) → (∀ idx, c.2 = some idx → idx ∈ M') →
          RVSpec L j i (v :: vs) S M mt (resolveViews L j i vs c.1 M' true) := by
        intro M' hM' hnd hsub hin
        have h := ih c.1 M' true
        obtain ⟨e2, he2⟩ := h.ext
        obtain ⟨e3, he3⟩ := h.mext
        obtain ⟨e0, he0⟩ := hM'
        refine ⟨⟨e1 ++ e2, by rw [he2, he1, List.append_assoc]⟩, ⟨e0 ++ e3, by rw [he3, he0, List.append_assoc]⟩,
          fun hn => h.nodup (hnd hn), ?_, ?_, by simp [h.matched, hm], ?_⟩
        · intro hv
          apply h.valid
          intro idx hidx
          rcases hsub idx hidx with h1 | h1
          · obtain ⟨s, hs, ha⟩ := hv idx h1
            exact ⟨s, by rw [he1]; exact getElem?_append_some S e1 idx s hs, ha⟩
          · exact hc.some_ok idx h1
        · intro v' hv' hmatch hcompat
          rcases List.mem_cons.mp hv' with hv' | hv'
          · subst hv'
            obtain ⟨idx, s, hfk, hget, hsome⟩ := hc.found hcompat
            refine ⟨idx, s, ?_, ?_, ?_⟩
            · rw [he2]; exact findKey_append_some _ _ _ _ hfk
            · rw [he2]; exact getElem?_append_some _ _ _ _ hget
            · intro ha
              rw [he3]; exact List.mem_append.mpr (Or.inl (hin idx (hsome ha)))
          · exact h.noloss v' hv' hmatch hcompat
        · intro hf; rw [h.matched] at hf; simp at hf
      cases hr : c.2 with
      | none =>
        exact key M ⟨[], by simp⟩ id (fun idx h => Or.inl h) (fun idx h => by rw [hr] at h; simp at h)
      | some idx =>
        by_cases hcon : M.contains idx
        · simp only [hcon, if_true]
          exact key M ⟨[], by simp⟩ id (fun idx h => Or.inl h)
            (fun idx' h => by rw [hr] at h; simp at h; subst h; simpa using hcon)
        · simp only [hcon]
          have hni : idx ∉ M := by simpa using hcon
          refine key (M ++ [idx]) ⟨[idx], rfl⟩ ?_ ?_ ?_
          · intro hn
            rw [List.nodup_append]
            refine ⟨hn, by simp, ?_⟩
            intro x hx y hy; simp at hy; subst hy; exact fun e => hni (e ▸ hx)
          · intro idx' h
            rcases List.mem_append.mp h with h | h
            · exact Or.inl h
            · simp at h; subst h; exact Or.inr hr
          · intro idx' h; rw [hr] at h; simp at h; subst h; simp
    · simp only [hm]
      have h := ih S M mt
      refine ⟨h.ext, h.mext, h.nodup, h.valid, ?_, by simp [h.matched, hm], h.unmatched⟩
      intro v' hv' hmatch hcompat
      rcases List.mem_cons.mp hv' with hv' | hv'
      · subst hv'; simp [hmatch] at hm
      · exact h.noloss v' hv' hmatch hcompat

/-- `for _, in := range measures { in(…) }` touches every listed stream once and no other -/
theorem foldl_modify_getElem? {α : Type} (f : α → α) (l : List Nat) (hl : l.Nodup) (ss : List α) (i : Nat) :
    (l.foldl (fun ss idx => ss.modify idx f) ss)[i]? = if i ∈ l then (ss[i]?).map f else ss[i]? := by
  induction l generalizing ss with
  | nil => simp
  | cons k l ih =>
    rw [List.nodup_cons] at hl
    simp only [List.foldl_cons]
    rw [ih hl.2, List.getElem?_modify]
    by_cases hik : k = i
    · subst hik
      have : k ∉ l := hl.1
      simp [this]
    · have hik' : ¬ i = k := fun e => hik e.symm
      by_cases hil : i ∈ l <;> simp [hik, hik', hil]
      all_goals cases ss[i]? <;> simp


/-! ## streams: filter first, then the aggregate function -/

/-- a stream with an aggregate function is that function run on the filtered sets -/
theorem stream_refines (tp : Temporality) (steps : List SStep) (s : StreamSt) (g : Agg) (h : s.agg = some g) :
    (s.runSteps tp steps).2 = (g.runSteps tp (steps.map (SStep.toA s.filter))).2 := by
  induction steps generalizing s g with
  | nil => rfl
  | cons st r ih =>
    cases st with
    | meas a x =>
      simp only [StreamSt.runSteps, List.map_cons, SStep.toA, Agg.runSteps]
      have hm : (s.measure a x).agg = some (g.measure (code (applyFilter s.filter a)) x) := by
        simp [StreamSt.measure, h]
      have hf : (s.measure a x).filter = s.filter := by simp [StreamSt.measure, h]
      rw [ih _ _ hm, hf]
    | col t =>
      simp only [StreamSt.runSteps, List.map_cons, SStep.toA, Agg.runSteps, StreamSt.collect, h]
      rw [ih { s with agg := some (g.collect tp t).1 } (g.collect tp t).1 rfl]

/-- a stream without an aggregate function (Drop) never reports a point -/
theorem stream_dropped (tp : Temporality) (steps : List SStep) (s : StreamSt) (h : s.agg = none) :
    ∀ r ∈ (s.runSteps tp steps).2, r = [] := by
  induction steps generalizing s with
  | nil => intro r hr; simp [StreamSt.runSteps] at hr
  | cons st r ih =>
    cases st with
    | meas a x =>
      simp only [StreamSt.runSteps]
      have hm : s.measure a x = s := by simp [StreamSt.measure, h]
      rw [hm]; exact ih s h
    | col t =>
      simp only [StreamSt.runSteps, StreamSt.collect, h]
      intro r' hr'
      rcases List.mem_cons.mp hr' with h' | h'
      · exact h'
      · exact ih s h r' h'

/-- `collectStreams` emits a metric exactly for the streams with an aggregate function and a non-empty report -/
theorem collectStreams_metrics (tp : Temporality) (t : Nat) (ss : List StreamSt) :
    (collectStreams tp t ss).2 =
      ss.filterMap fun s =>
        match s.agg with
        | none => none
        | some g => if (s.collect tp t).2.isEmpty then none
                    else some { scope := s.scope, name := s.name, float := s.float, dt := g.dt, pts := (s.collect tp t).2 } := by
  induction ss with
  | nil => rfl
  | cons s ss ih =>
    simp only [collectStreams, List.filterMap_cons]
    cases hs : s.agg with
    | none => simp [ih]
    | some g =>
      simp only [StreamSt.collect, hs, ih]
      split <;> simp_all


/-! ## odds and ends for Props -/

theorem mem_foldl_addDistinct (d l : List Attr) (a : Attr) : a ∈ l.foldl addDistinct d ↔ a ∈ d ∨ a ∈ l := by
  induction l generalizing d with
  | nil => simp
  | cons x l ih =>
    simp only [List.foldl_cons, ih, List.mem_cons]
    by_cases hx : x ∈ d
    · rw [addDistinct_mem d x hx]
      constructor
      · rintro (h | h)
        · exact Or.inl h
        · exact Or.inr (Or.inr h)
      · rintro (h | h | h)
        · exact Or.inl h
        · exact Or.inl (h ▸ hx)
        · exact Or.inr h
    · rw [addDistinct_not_mem d x hx]
      simp only [List.mem_append, List.mem_singleton]
      constructor
      · rintro ((h | h) | h)
        · exact Or.inl h
        · exact Or.inr (Or.inl h)
        · exact Or.inr (Or.inr h)
      · rintro (h | h | h)
        · exact Or.inl (Or.inl h)
        · exact Or.inl (Or.inr h)
        · exact Or.inr h

theorem mem_firstDistinct (l : List Attr) (a : Attr) : a ∈ firstDistinct l ↔ a ∈ l := by
  simp [firstDistinct, mem_foldl_addDistinct]

theorem runSteps_append_fst (g : Agg) (tp : Temporality) (a b : List AStep) :
    (g.runSteps tp (a ++ b)).1 = ((g.runSteps tp a).1.runSteps tp b).1 := by
  induction a generalizing g with
  | nil => rfl
  | cons st r ih => cases st <;> simp only [List.cons_append, Agg.runSteps, ih]

theorem runSteps_resets (g : Agg) (tp tp' : Temporality) (a : List AStep) :
    (g.runSteps tp a).1.resets tp' = g.resets tp' := by
  induction a generalizing g with
  | nil => rfl
  | cons st r ih =>
    cases st with
    | meas a x => simp only [Agg.runSteps, ih, Agg.measure_resets]
    | col t => simp only [Agg.runSteps, ih, Agg.collect_resets]

theorem conserved_congr (g : Agg) (w w' : List (Attr × Int)) (h : w.map (·.2) = w'.map (·.2)) :
    conserved g w = conserved g w' := by
  have hl : w.length = w'.length := by simpa using congrArg List.length h
  funext pts
  cases g <;> simp [conserved, h, hl]

theorem windows_values (r : Bool) (f f' : Option Filter) (steps : List SStep) (w w' : List (Attr × Int))
    (h : w.map (·.2) = w'.map (·.2)) :
    (windows r w (steps.map (SStep.toA f))).map (·.map (·.2)) =
    (windows r w' (steps.map (SStep.toA f'))).map (·.map (·.2)) := by
  induction steps generalizing w w' with
  | nil => rfl
  | cons st rest ih =>
    cases st with
    | meas a x =>
      simp only [List.map_cons, SStep.toA, windows]
      exact ih _ _ (by simp [h])
    | col t =>
      simp only [List.map_cons, SStep.toA, windows, h]
      congr 1
      exact ih _ _ (by cases r <;> simp [h])

theorem allZip_congr (g : Agg) (ws ws' : List (List (Attr × Int))) (rs : List (List (Attr × PV)))
    (h : ws.map (·.map (·.2)) = ws'.map (·.map (·.2))) (hz : allZip (conserved g) ws rs = true) :
    allZip (conserved g) ws' rs = true := by
  induction ws generalizing ws' rs with
  | nil =>
    cases ws' with
    | nil => exact hz
    | cons _ _ => simp at h
  | cons w ws ih =>
    cases ws' with
    | nil => simp at h
    | cons w' ws' =>
      cases rs with
      | nil => simp [allZip] at hz
      | cons r rs =>
        simp only [List.map_cons, List.cons.injEq] at h
        simp only [allZip, Bool.and_eq_true] at hz ⊢
        exact ⟨by rw [← conserved_congr g w w' h.1]; exact hz.1, ih ws' rs h.2 hz.2⟩

/-- Drop views only ever create streams without an aggregate function -/
theorem resolveViews_allDrop (L : Nat) (j : Nat) (i : Inst) (vs : List View) (S : List StreamSt) (M : List Nat)
    (mt : Bool) (hS : ∀ s ∈ S, s.agg = none)
    (hv : ∀ v ∈ vs, v.matches j i = true → v.agg = some .drop) :
    ∀ s ∈ (resolveViews L j i vs S M mt).1, s.agg = none := by
  induction vs generalizing S M mt with
  | nil => simpa [resolveViews] using hS
  | cons v vs ih =>
    simp only [resolveViews]
    by_cases hm : v.matches j i
    · simp only [hm, if_true]
      have hd := hv v (List.mem_cons_self) hm
      have hc : ∀ s ∈ (cachedAggregator L S i (v.streamName j) v.filter v.agg).1, s.agg = none := by
        unfold cachedAggregator
        rw [hd]
        simp only [incompatible, Bool.false_eq_true, if_false]
        cases hf : findKey S (streamKey i (v.streamName j)) with
        | some idx => simp only; split <;> exact hS
        | none =>
          simp only
          intro s hs
          rcases List.mem_append.mp hs with h | h
          · exact hS s h
          · simp at h; subst h; simp [mkAgg, effSel, mkAggSel]
      have hv' : ∀ v' ∈ vs, v'.matches j i = true → v'.agg = some .drop :=
        fun v' h' => hv v' (List.mem_cons_of_mem _ h')
      split
      · exact ih _ _ _ hc hv'
      · split
        · exact ih _ _ _ hc hv'
        · exact ih _ _ _ hc hv'
    · simp only [hm]
      exact ih S M mt hS (fun v' h' => hv v' (List.mem_cons_of_mem _ h'))


/-! ## per key: what is held under `k` is what the measurements mapped to `k` put in -/

def cellTotal {V : Type} (π : V → Int) (m : AMap V) (k : Attr) : Int :=
  match m.get? k with
  | some v => π v
  | none => 0

theorem cellTotal_upd {V : Type} (cellf : Option V → V) (π : V → Int) (d : Int) (h : Additive cellf π d)
    (m : AMap V) (t k : Attr) :
    cellTotal π (m.upd t cellf) k = cellTotal π m k + (if t = k then d else 0) := by
  induction m with
  | nil =>
    by_cases htk : t = k <;> simp [AMap.upd, cellTotal, AMap.get?, htk, h.none]
  | cons kv m ih =>
    obtain ⟨k', w⟩ := kv
    simp only [AMap.upd]
    by_cases hk : k' = t
    · subst hk
      by_cases hkk : k' = k
      · simp [cellTotal, AMap.get?, hkk, h.some]
      · simp only [cellTotal, AMap.get?, hkk, if_true, if_false] at ih ⊢
        simp
    · simp only [hk, if_false]
      by_cases hkk : k' = k
      · have : ¬ t = k := fun e => hk (hkk.trans e.symm)
        simp [cellTotal, AMap.get?, hkk, this]
      · simp only [cellTotal, AMap.get?, hkk, if_false] at ih ⊢
        exact ih

theorem get?_of_mem_nodup {V : Type} (m : AMap V) (h : m.keys.Nodup) (k : Attr) (v : V) (hm : (k, v) ∈ m) :
    m.get? k = some v := by
  induction m with
  | nil => simp at hm
  | cons kv m ih =>
    obtain ⟨k', w⟩ := kv
    simp only [AMap.keys, List.map_cons, List.nodup_cons] at h
    rcases List.mem_cons.mp hm with h' | h'
    · simp only [Prod.mk.injEq] at h'
      simp [AMap.get?, h'.1, h'.2]
    · have hne : ¬ k' = k := by
        intro e; subst e
        exact h.1 (List.mem_map.mpr ⟨(k', v), h', rfl⟩)
      simp only [AMap.get?, hne, if_false]
      exact ih h.2 h'

def Agg.cell1 : Agg → Attr → Int
  | .sum s, k => cellTotal (·.n) s.values k
  | .psum s, k => cellTotal (·.n) s.values k
  | .hist h, k | .expo h, k => cellTotal (fun v => (v.count : Int)) h.values k
  | .lv _, _ | .plv _, _ => 0

theorem Agg.measure_cell1 (g : Agg) (a : Attr) (x : Int) (k : Attr) :
    (g.measure a x).cell1 k = g.cell1 k + (if limKey g.limit g.keys a = k then g.c1 x else 0) := by
  cases g with
  | sum s =>
    simp only [Agg.measure, Agg.cell1, Agg.limit, Agg.keys, Agg.c1, Sum.measure, ← limitAttr_eq_limKey]
    exact cellTotal_upd _ _ _ (sumCell_additive x 0) _ _ _
  | psum s =>
    simp only [Agg.measure, Agg.cell1, Agg.limit, Agg.keys, Agg.c1, PSum.measure, ← limitAttr_eq_limKey]
    exact cellTotal_upd _ _ _ (sumCell_additive x 0) _ _ _
  | hist h =>
    simp only [Agg.measure, Agg.cell1, Agg.limit, Agg.keys, Agg.c1, Hist.measure, ← limitAttr_eq_limKey]
    exact cellTotal_upd _ _ _ (histCell_count_additive _ _ _ x) _ _ _
  | expo h =>
    simp only [Agg.measure, Agg.cell1, Agg.limit, Agg.keys, Agg.c1, Hist.measure, ← limitAttr_eq_limKey]
    exact cellTotal_upd _ _ _ (histCell_count_additive _ _ _ x) _ _ _
  | lv s => simp [Agg.measure, Agg.cell1, Agg.c1]
  | plv s => simp [Agg.measure, Agg.cell1, Agg.c1]

theorem tl_append (L : Nat) (ks : List Attr) (w v : List (Attr × Int)) :
    tl L ks (w ++ v) = tl L ks w ++ tl L (runKeys L ks w) v := by
  induction w generalizing ks with
  | nil => rfl
  | cons m r ih => simp only [List.cons_append, tl, runKeys, List.foldl_cons, ih]

/-- every point of a report carries the content held under its key -/
theorem Agg.collect_points (g : Agg) (tp : Temporality) (t : Nat) (h1 : g.psumDelta tp = false)
    (h2 : g.isLast = false) (hnd : g.keys.Nodup) :
    ∀ p ∈ (g.collect tp t).2, pvTotal p.2 = g.cell1 p.1 := by
  intro p hp
  cases g <;> cases tp <;> simp [Agg.isLast, Agg.psumDelta] at h1 h2 <;>
    simp only [Agg.collect, Sum.collect, PSum.collect, Hist.collect, Sum.delta, Sum.cumulative, PSum.cumulative,
      Hist.delta, Hist.cumulative, mkPoints, List.map_map, List.mem_map, Function.comp] at hp <;>
    (obtain ⟨kv, hkv, rfl⟩ := hp
     obtain ⟨k, v⟩ := kv
     simp only [Agg.keys] at hnd
     simp [Agg.cell1, cellTotal, get?_of_mem_nodup _ hnd k v hkv, pvTotal, histPV])

theorem Agg.collect_cell1 (g : Agg) (tp : Temporality) (t : Nat) (k : Attr) :
    (g.collect tp t).1.cell1 k = if g.resets tp then 0 else g.cell1 k := by
  cases g <;> cases tp <;>
    simp [Agg.collect, Agg.cell1, Agg.resets, cellTotal, AMap.get?, Sum.collect, PSum.collect, LastValue.collect,
      LastValue.pcollect, Hist.collect, Sum.delta, Sum.cumulative, PSum.delta, PSum.cumulative, LastValue.delta,
      LastValue.cumulative, LastValue.pdelta, LastValue.pcumulative, Hist.delta, Hist.cumulative]

theorem collectStreams_states (tp : Temporality) (t : Nat) (ss : List StreamSt) :
    (collectStreams tp t ss).1 = ss.map fun s => (s.collect tp t).1 := by
  induction ss with
  | nil => rfl
  | cons s ss ih =>
    simp only [collectStreams, List.map_cons]
    cases hs : s.agg with
    | none => simp [StreamSt.collect, hs, ih]
    | some g => simp only [StreamSt.collect, hs, ih]


/-! ## payloads: every cell is the closed-form payload of the measurements stored under its key -/

theorem get?_upd {V : Type} (m : AMap V) (t k : Attr) (f : Option V → V) :
    (m.upd t f).get? k = if t = k then some (f (m.get? k)) else m.get? k := by
  induction m with
  | nil => by_cases h : t = k <;> simp [AMap.upd, AMap.get?, h]
  | cons kv m ih =>
    obtain ⟨k', w⟩ := kv
    simp only [AMap.upd]
    by_cases hk : k' = t
    · subst hk
      by_cases hkk : k' = k <;> simp [AMap.get?, hkk]
    · simp only [hk, if_false]
      by_cases hkk : k' = k
      · have : ¬ t = k := fun e => hk (hkk.trans e.symm)
        simp [AMap.get?, hkk, this]
      · simp only [AMap.get?, hkk, if_false]; exact ih

theorem get?_isSome_of_mem_keys {V : Type} (m : AMap V) (k : Attr) (h : k ∈ m.keys) : ∃ v, m.get? k = some v := by
  have : m.contains k = true := by rw [contains_keys]; simpa using h
  simp only [AMap.contains, Option.isSome_iff_exists] at this
  exact this

/-- a map with distinct keys, mapped point-wise, is its key list mapped through `get?` -/
theorem map_eq_keys_map {V W : Type} (m : AMap V) (h : m.keys.Nodup) (f : V → W) (d : W) :
    m.map (fun kv => (kv.1, f kv.2)) = m.keys.map fun k => (k, ((m.get? k).map f).getD d) := by
  simp only [AMap.keys, List.map_map]
  apply List.map_congr_left
  intro kv hkv
  obtain ⟨k, v⟩ := kv
  simp [Function.comp, get?_of_mem_nodup m h k v hkv]

/-- the payload of the cell stored under `k` (cumulative form for precomputed sums) -/
def Agg.payloadAt : Agg → Attr → Option PV
  | .sum s, k => (s.values.get? k).map fun v => PV.num v.n
  | .psum s, k => (s.values.get? k).map fun v => PV.num v.n
  | .lv s, k | .plv s, k => (s.values.get? k).map PV.num
  | .hist h, k | .expo h, k => (h.values.get? k).map (histPV h.noSum)

/-- one more measurement `x` into a cell whose payload is `pv` -/
def stepPV (g : Agg) (x : Int) (pv : PV) : PV :=
  match g, pv with
  | .sum _, .num n | .psum _, .num n => .num (n + x)
  | .lv _, _ | .plv _, _ => .num x
  | .hist h, .hist c s cs | .expo h, .hist c s cs =>
    .hist (c + 1) (if h.noSum then 0 else s + x) (cs.modify (searchIdx h.bounds x) (· + 1))
  | _, pv => pv

theorem bucketCounts_nil (b : List Int) : bucketCounts b [] = List.replicate (b.length + 1) 0 := by
  simp only [bucketCounts, List.filter_nil, List.length_nil]
  apply List.ext_getElem?
  intro i
  simp only [List.getElem?_map, List.getElem?_range, List.getElem?_replicate]
  by_cases h : i < b.length + 1 <;> simp [h]

theorem bucketCounts_snoc (b : List Int) (xs : List Int) (x : Int) :
    (bucketCounts b xs).modify (searchIdx b x) (· + 1) = bucketCounts b (xs ++ [x]) := by
  apply List.ext_getElem?
  intro i
  rw [List.getElem?_modify]
  simp only [bucketCounts, List.getElem?_map, List.filter_append, List.length_append]
  by_cases h : i < b.length + 1
  · simp only [List.getElem?_range h, Option.map_some]
    by_cases hi : searchIdx b x = i
    · simp [hi]
    · have : (searchIdx b x == i) = false := by simpa using hi
      simp [hi, this]
  · have hn : (List.range (b.length + 1))[i]? = none := by simp; omega
    simp [hn]

theorem payload_snoc (g : Agg) (xs : List Int) (x : Int) : stepPV g x (payload g xs) = payload g (xs ++ [x]) := by
  cases g with
  | sum s => simp [stepPV, payload]
  | psum s => simp [stepPV, payload]
  | lv s => simp [stepPV, payload]
  | plv s => simp [stepPV, payload]
  | hist h =>
    simp only [stepPV, payload, bucketCounts_snoc, List.length_append, List.length_singleton, sumInts_append]
    by_cases hn : h.noSum <;> simp [hn]
  | expo h =>
    simp only [stepPV, payload, bucketCounts_snoc, List.length_append, List.length_singleton, sumInts_append]
    by_cases hn : h.noSum <;> simp [hn]

theorem histPV_histCell (h : Hist) (x : Int) (o : Option HistVal) :
    histPV h.noSum (histCell (h.bounds.length + 1) h.noSum (searchIdx h.bounds x) x o) =
    stepPV (.hist h) x ((o.map (histPV h.noSum)).getD (payload (.hist h) [])) := by
  cases o with
  | none =>
    simp only [histCell, histPV, Option.getD_none, Option.map_none, payload, stepPV, bucketCounts_nil,
      List.length_nil, sumInts_nil]
    by_cases hn : h.noSum <;> simp [hn]
  | some v =>
    simp only [histCell, histPV, Option.getD_some, Option.map_some, stepPV]
    by_cases hn : h.noSum <;> simp [hn]

theorem stepPV_expo (h : Hist) (x : Int) (pv : PV) : stepPV (.expo h) x pv = stepPV (.hist h) x pv := by
  cases pv <;> rfl

theorem Agg.measure_payloadAt (g : Agg) (a : Attr) (x : Int) (k : Attr) :
    (g.measure a x).payloadAt k =
      if limKey g.limit g.keys a = k then some (stepPV g x ((g.payloadAt k).getD (payload g [])))
      else g.payloadAt k := by
  cases g with
  | sum s =>
    simp only [Agg.measure, Agg.payloadAt, Agg.limit, Agg.keys, Sum.measure, ← limitAttr_eq_limKey, get?_upd]
    split
    · cases s.values.get? k <;> simp [sumCell, stepPV, payload]
    · rfl
  | psum s =>
    simp only [Agg.measure, Agg.payloadAt, Agg.limit, Agg.keys, PSum.measure, ← limitAttr_eq_limKey, get?_upd]
    split
    · cases s.values.get? k <;> simp [sumCell, stepPV, payload]
    · rfl
  | lv s =>
    simp only [Agg.measure, Agg.payloadAt, Agg.limit, Agg.keys, LastValue.measure, ← limitAttr_eq_limKey, get?_upd]
    split <;> simp [stepPV]
  | plv s =>
    simp only [Agg.measure, Agg.payloadAt, Agg.limit, Agg.keys, LastValue.measure, ← limitAttr_eq_limKey, get?_upd]
    split <;> simp [stepPV]
  | hist h =>
    simp only [Agg.measure, Agg.payloadAt, Agg.limit, Agg.keys, Hist.measure, ← limitAttr_eq_limKey, get?_upd]
    split
    · simp only [Option.map_some, histPV_histCell]
    · rfl
  | expo h =>
    simp only [Agg.measure, Agg.payloadAt, Agg.limit, Agg.keys, Hist.measure, ← limitAttr_eq_limKey, get?_upd]
    split
    · simp only [Option.map_some, histPV_histCell, stepPV_expo]; rfl
    · rfl


theorem payload_measure (g : Agg) (a : Attr) (x : Int) : payload (g.measure a x) = payload g := by
  cases g <;> rfl
theorem payload_collect (g : Agg) (tp : Temporality) (t : Nat) : payload (g.collect tp t).1 = payload g := by
  cases g <;> cases tp <;> rfl
theorem stepPV_measure (g : Agg) (a : Attr) (x : Int) : stepPV (g.measure a x) = stepPV g := by
  funext y pv; cases g <;> cases pv <;> rfl
theorem refPoints_congr (g g' : Agg) (h : payload g = payload g') : refPoints g = refPoints g' := by
  funext L arr; simp only [refPoints, h]

/-- `none` for no measurement, else the closed-form payload -/
def optPayload (g : Agg) (xs : List Int) : Option PV := if xs.isEmpty then none else some (payload g xs)

theorem optPayload_snoc (g : Agg) (xs : List Int) (x : Int) :
    some (stepPV g x ((optPayload g xs).getD (payload g []))) = optPayload g (xs ++ [x]) := by
  have hne : (xs ++ [x]).isEmpty = false := by simp
  simp only [optPayload, hne, Bool.false_eq_true, if_false]
  cases xs with
  | nil => simp [optPayload, payload_snoc]
  | cons y ys => simp [optPayload, payload_snoc]

/-- the measurements of `ts` stored under key `k` -/
def valsAt (ts : List (Attr × Int)) (k : Attr) : List Int := (ts.filter fun m => m.1 == k).map (·.2)

theorem valsAt_snoc (ts : List (Attr × Int)) (t : Attr) (x : Int) (k : Attr) :
    valsAt (ts ++ [(t, x)]) k = if t = k then valsAt ts k ++ [x] else valsAt ts k := by
  by_cases h : t = k <;> simp [valsAt, List.filter_append, h]

/-- for every reportable combination, a report is the map, point-wise -/
theorem Agg.collect_eq (g : Agg) (tp : Temporality) (t : Nat) (h1 : g.psumDelta tp = false)
    (hnd : g.keys.Nodup) (d : PV) :
    (g.collect tp t).2 = g.keys.map fun k => (k, (g.payloadAt k).getD d) := by
  cases g <;> cases tp <;> simp [Agg.psumDelta] at h1 <;>
    simp only [Agg.keys] at hnd <;>
    simp only [Agg.collect, Sum.collect, PSum.collect, LastValue.collect, LastValue.pcollect, Hist.collect,
      Sum.delta, Sum.cumulative, PSum.cumulative, LastValue.delta, LastValue.cumulative, LastValue.pdelta,
      LastValue.pcumulative, Hist.delta, Hist.cumulative, mkPoints, List.map_map, Function.comp_def, Agg.keys,
      Agg.payloadAt] <;>
    first
      | exact map_eq_keys_map _ hnd (fun v : SumVal => PV.num v.n) d
      | exact map_eq_keys_map _ hnd PV.num d
      | exact map_eq_keys_map _ hnd (histPV _) d

theorem Agg.collect_payloadAt (g : Agg) (tp : Temporality) (t : Nat) (k : Attr) :
    (g.collect tp t).1.payloadAt k = if g.resets tp then none else g.payloadAt k := by
  cases g <;> cases tp <;>
    simp [Agg.collect, Agg.payloadAt, Agg.resets, AMap.get?, Sum.collect, PSum.collect, LastValue.collect,
      LastValue.pcollect, Hist.collect, Sum.delta, Sum.cumulative, PSum.delta, PSum.cumulative, LastValue.delta,
      LastValue.cumulative, LastValue.pdelta, LastValue.pcumulative, Hist.delta, Hist.cumulative]

/-- the invariant of a run: keys are the closed form, every cell is the payload of what was stored under its key -/
structure RunInv (g : Agg) (w : List (Attr × Int)) : Prop where
  keys : g.keys = runKeys g.limit [] w
  cells : ∀ k, g.payloadAt k = optPayload g (valsAt (tl g.limit [] w) k)

theorem RunInv.measure (g : Agg) (w : List (Attr × Int)) (h : RunInv g w) (a : Attr) (x : Int) :
    RunInv (g.measure a x) (w ++ [(a, x)]) := by
  refine ⟨by rw [Agg.measure_keys, Agg.measure_limit, h.keys, runKeys_append]; rfl, ?_⟩
  intro k
  rw [Agg.measure_payloadAt, Agg.measure_limit, tl_append, ← h.keys]
  simp only [tl]
  rw [valsAt_snoc, h.cells k]
  have hp : optPayload (g.measure a x) = optPayload g := by
    funext xs; simp only [optPayload, payload_measure]
  rw [hp]
  by_cases hk : limKey g.limit g.keys a = k
  · simp only [hk, if_true]; exact optPayload_snoc g _ x
  · simp only [hk, if_false]

theorem RunInv.collect (g : Agg) (w : List (Attr × Int)) (h : RunInv g w) (tp : Temporality) (t : Nat) :
    RunInv (g.collect tp t).1 (if g.resets tp then [] else w) := by
  have hp : optPayload (g.collect tp t).1 = optPayload g := by
    funext xs; simp only [optPayload, payload_collect]
  refine ⟨?_, ?_⟩
  · rw [Agg.collect_state_keys, Agg.collect_limit]
    by_cases hr : g.resets tp <;> simp [hr, h.keys, runKeys]
  · intro k
    rw [Agg.collect_payloadAt, Agg.collect_limit, hp]
    by_cases hr : g.resets tp
    · simp [hr, tl, valsAt, optPayload]
    · simp [hr, h.cells k]

theorem RunInv.fresh (g : Agg) (hf : g.keys = []) : RunInv g [] := by
  refine ⟨by rw [hf]; rfl, ?_⟩
  intro k
  cases g <;> simp [Agg.keys, AMap.keys] at hf <;>
    simp [Agg.payloadAt, hf, AMap.get?, tl, valsAt, optPayload]

/-- under the invariant, a report IS the reference -/
theorem RunInv.report (g : Agg) (w : List (Attr × Int)) (h : RunInv g w) (tp : Temporality) (t : Nat)
    (hp : g.psumDelta tp = false) : (g.collect tp t).2 = refPoints g g.limit w := by
  have hk : g.keys = refKeys g.limit w := by rw [h.keys, runKeys_nil_eq_refKeys]
  have hnd : g.keys.Nodup := by rw [hk]; exact refKeys_nodup _ _
  rw [Agg.collect_eq g tp t hp hnd (payload g []), refPoints, ← hk]
  apply List.map_congr_left
  intro k hkm
  have hc := h.cells k
  rw [tl_eq_relabel] at hc
  cases g <;> simp only [Agg.keys] at hkm <;>
    (obtain ⟨v, hv⟩ := get?_isSome_of_mem_keys _ k hkm
     simp only [Agg.payloadAt, hv, Option.map_some, optPayload] at hc
     split at hc
     · simp at hc
     · simp only [Agg.payloadAt, hv, Option.map_some, Option.getD_some, under, valsAt] at hc ⊢
       rw [Option.some.inj hc])

theorem runSteps_reference (tp : Temporality) (steps : List AStep) (g : Agg) (w : List (Attr × Int))
    (hp : g.psumDelta tp = false) (h : RunInv g w) :
    (g.runSteps tp steps).2 = (windows (g.resets tp) w steps).map (refPoints g g.limit) := by
  induction steps generalizing g w with
  | nil => rfl
  | cons st r ih =>
    cases st with
    | meas a x =>
      simp only [Agg.runSteps, windows]
      rw [ih (g.measure a x) (w ++ [(a, x)]) (by rw [psumDelta_measure]; exact hp) (h.measure g w a x),
        Agg.measure_resets, Agg.measure_limit, refPoints_congr _ _ (payload_measure g a x)]
    | col t =>
      simp only [Agg.runSteps, windows, List.map_cons]
      rw [ih (g.collect tp t).1 _ (by rw [psumDelta_collect]; exact hp) (h.collect g w tp t),
        Agg.collect_resets, Agg.collect_limit, refPoints_congr _ _ (payload_collect g tp t),
        h.report g w tp t hp]


/-! ## grouping by key loses and duplicates nothing (partition) -/

theorem sumInts_map_add {α : Type} (l : List α) (a b : α → Int) :
    sumInts (l.map fun k => a k + b k) = sumInts (l.map a) + sumInts (l.map b) := by
  induction l with
  | nil => rfl
  | cons x l ih => simp [ih]; omega

theorem sumInts_map_sub {α : Type} (l : List α) (a b : α → Int) :
    sumInts (l.map fun k => a k - b k) = sumInts (l.map a) - sumInts (l.map b) := by
  induction l with
  | nil => rfl
  | cons x l ih => simp [ih]; omega

theorem sum_ite_nodup (D : List Attr) (h : D.Nodup) (t : Attr) (c : Int) :
    sumInts (D.map fun k => if t = k then c else 0) = if t ∈ D then c else 0 := by
  induction D with
  | nil => rfl
  | cons d D ih =>
    rw [List.nodup_cons] at h
    simp only [List.map_cons, sumInts_cons, ih h.2, List.mem_cons]
    by_cases htd : t = d
    · subst htd; simp [h.1]
    · simp [htd]

theorem valsAt_of_not_mem (ts : List (Attr × Int)) (t : Attr) (h : t ∉ ts.map (·.1)) : valsAt ts t = [] := by
  simp only [valsAt, List.map_eq_nil_iff, List.filter_eq_nil_iff]
  intro m hm
  simp only [beq_iff_eq]
  intro e
  exact h (List.mem_map.mpr ⟨m, hm, e⟩)

theorem firstDistinct_snoc (l : List Attr) (t : Attr) :
    firstDistinct (l ++ [t]) = addDistinct (firstDistinct l) t := by
  simp [firstDistinct, List.foldl_append]

theorem partition_snoc (f : Int → Int) (ts : List (Attr × Int)) (t : Attr) (x : Int)
    (ih : sumInts ((firstDistinct (ts.map (·.1))).map fun k => sumInts ((valsAt ts k).map f)) =
      sumInts (ts.map fun m => f m.2)) :
    sumInts ((firstDistinct ((ts ++ [(t, x)]).map (·.1))).map fun k => sumInts ((valsAt (ts ++ [(t, x)]) k).map f)) =
      sumInts ((ts ++ [(t, x)]).map fun m => f m.2) := by
  have hnd : (firstDistinct (ts.map (·.1))).Nodup := nodup_foldl_addDistinct [] _ List.nodup_nil
  have hF : ∀ k, sumInts ((valsAt (ts ++ [(t, x)]) k).map f) =
      sumInts ((valsAt ts k).map f) + (if t = k then f x else 0) := by
    intro k; rw [valsAt_snoc]; by_cases h : t = k <;> simp [h]
  simp only [hF, List.map_append, List.map_cons, List.map_nil, firstDistinct_snoc, sumInts_append, sumInts_cons,
    sumInts_nil]
  by_cases ht : t ∈ firstDistinct (ts.map (·.1))
  · rw [addDistinct_mem _ _ ht, sumInts_map_add, ih, sum_ite_nodup _ hnd]
    simp [ht]
  · rw [addDistinct_not_mem _ _ ht]
    have ht' : t ∉ ts.map (·.1) := fun h => ht ((mem_firstDistinct _ _).mpr h)
    simp only [List.map_append, List.map_cons, List.map_nil, sumInts_append, sumInts_cons, sumInts_nil]
    rw [sumInts_map_add, ih, sum_ite_nodup _ hnd, valsAt_of_not_mem ts t ht']
    simp [ht]

theorem partition_rev (f : Int → Int) (l : List (Attr × Int)) :
    sumInts ((firstDistinct (l.reverse.map (·.1))).map fun k => sumInts ((valsAt l.reverse k).map f)) =
      sumInts (l.reverse.map fun m => f m.2) := by
  induction l with
  | nil => rfl
  | cons m l ih =>
    obtain ⟨t, x⟩ := m
    rw [List.reverse_cons]
    exact partition_snoc f l.reverse t x ih

/-- Σ over the distinct keys of (Σ over the measurements stored under the key) = Σ over all measurements -/
theorem partition_sum (f : Int → Int) (ts : List (Attr × Int)) :
    sumInts ((firstDistinct (ts.map (·.1))).map fun k => sumInts ((valsAt ts k).map f)) =
      sumInts (ts.map fun m => f m.2) := by
  have := partition_rev f ts.reverse
  simpa using this

theorem length_filter_eq_sum {α : Type} (p : α → Bool) (xs : List α) :
    ((xs.filter p).length : Int) = sumInts (xs.map fun x => if p x then 1 else 0) := by
  induction xs with
  | nil => rfl
  | cons x xs ih =>
    by_cases h : p x <;> simp [List.filter_cons, h, ih] <;> omega

theorem relabel_values (L : Nat) (w : List (Attr × Int)) (f : Int → Int) :
    (relabel L w).map (fun m => f m.2) = w.map fun m => f m.2 := by
  simp [relabel, List.map_map, Function.comp_def]

theorem under_eq_valsAt (L : Nat) (w : List (Attr × Int)) (k : Attr) : under L w k = valsAt (relabel L w) k := rfl

/-- grouping the window by reported key: Σ_k Σ_{under k} f = Σ_window f -/
theorem refKeys_partition (L : Nat) (w : List (Attr × Int)) (f : Int → Int) :
    sumInts ((refKeys L w).map fun k => sumInts ((under L w k).map f)) = sumInts (w.map fun m => f m.2) := by
  have := partition_sum f (relabel L w)
  rw [relabel_values] at this
  exact this

theorem bucketCounts_getD (b : List Int) (xs : List Int) (i : Nat) (hi : i < b.length + 1) :
    (bucketCounts b xs).getD i 0 = (xs.filter fun x => searchIdx b x == i).length := by
  simp [bucketCounts, List.getD_eq_getElem?_getD, List.getElem?_map, List.getElem?_range hi]

/-- the reference itself satisfies every named predicate -/
theorem perKeyOK_refPoints (g : Agg) (L : Nat) (w : List (Attr × Int)) : perKeyOK g L w (refPoints g L w) = true := by
  simp [perKeyOK, refPoints]

theorem psumDeltaOK_ref (L : Nat) (pw w : List (Attr × Int)) : psumDeltaOK L pw w (refPointsDelta L pw w) = true := by
  simp [psumDeltaOK, refPointsDelta]

theorem psumDeltaConserved_ref (L : Nat) (pw w : List (Attr × Int)) :
    psumDeltaConserved L pw w (refPointsDelta L pw w) = true := by
  simp only [psumDeltaConserved, refPointsDelta, total, List.map_map, Function.comp_def, pvTotal, beq_iff_eq]
  rw [sumInts_map_sub]
  have := refKeys_partition L w id
  simp only [List.map_id, id_eq] at this
  rw [this]

theorem bucketsConserved_ref (g : Agg) (L : Nat) (w : List (Attr × Int)) :
    bucketsConserved g w (refPoints g L w) = true := by
  cases g with
  | hist h =>
    simp only [bucketsConserved, List.all_eq_true, List.mem_range, beq_iff_eq]
    intro i hi
    simp only [refPoints, payload, List.map_map, Function.comp_def, pvBucket, bucketCounts_getD _ _ i hi,
      length_filter_eq_sum]
    exact refKeys_partition L w fun x => if searchIdx h.bounds x == i then 1 else 0
  | expo h =>
    simp only [bucketsConserved, List.all_eq_true, List.mem_range, beq_iff_eq]
    intro i hi
    simp only [refPoints, payload, List.map_map, Function.comp_def, pvBucket, bucketCounts_getD _ _ i hi,
      length_filter_eq_sum]
    exact refKeys_partition L w fun x => if searchIdx h.bounds x == i then 1 else 0
  | sum s => rfl
  | psum s => rfl
  | lv s => rfl
  | plv s => rfl


/-! ## precomputed sum, delta temporality: observed minus previously observed -/

theorem map_eq_keys_map_keyed {V W : Type} (m : AMap V) (h : m.keys.Nodup) (f : Attr → V → W) (d : Attr → W) :
    m.map (fun kv => (kv.1, f kv.1 kv.2)) = m.keys.map fun k => (k, ((m.get? k).map (f k)).getD (d k)) := by
  simp only [AMap.keys, List.map_map]
  apply List.map_congr_left
  intro kv hkv
  obtain ⟨k, v⟩ := kv
  simp [Function.comp, get?_of_mem_nodup m h k v hkv]

theorem get?_map_vals {V W : Type} (m : AMap V) (f : V → W) (k : Attr) :
    (AMap.get? (m.map fun kv => (kv.1, f kv.2)) k) = (m.get? k).map f := by
  induction m with
  | nil => rfl
  | cons kv m ih =>
    obtain ⟨k', w⟩ := kv
    by_cases h : k' = k <;> simp [AMap.get?, h, ih]

/-- the invariant of a delta run of a precomputed sum: the run invariant, and `reported` holds what the preceding
cycle observed under each reported set -/
structure PInv (s : PSum) (pw w : List (Attr × Int)) : Prop where
  run : RunInv (.psum s) w
  rep : ∀ k, (s.reported.get? k).getD 0 = sumInts (under s.limit pw k)

theorem PInv.report (s : PSum) (pw w : List (Attr × Int)) (h : PInv s pw w) (t : Nat) :
    ((Agg.psum s).collect .delta t).2 = refPointsDelta s.limit pw w := by
  have hk : s.values.keys = refKeys s.limit w := by
    have := h.run.keys; simp only [Agg.keys, Agg.limit] at this; rw [this, runKeys_nil_eq_refKeys]
  have hnd : s.values.keys.Nodup := by rw [hk]; exact refKeys_nodup _ _
  simp only [Agg.collect, PSum.collect, PSum.delta, mkPoints, List.map_map, Function.comp_def]
  rw [map_eq_keys_map_keyed s.values hnd (fun k v => PV.num (v.n - (s.reported.get? k).getD 0)) (fun _ => PV.num 0),
    refPointsDelta, ← hk]
  apply List.map_congr_left
  intro k hkm
  obtain ⟨v, hv⟩ := get?_isSome_of_mem_keys _ k hkm
  have hc := h.run.cells k
  rw [tl_eq_relabel] at hc
  simp only [Agg.payloadAt, Agg.limit, hv, Option.map_some, optPayload] at hc
  by_cases he : (valsAt (relabel s.limit w) k).isEmpty = true
  · simp [he] at hc
  · simp only [he, payload, Option.some.injEq, PV.num.injEq, if_false, Bool.false_eq_true] at hc
    simp only [hv, Option.map_some, Option.getD_some, h.rep k, under_eq_valsAt, hc]

theorem PInv.measure (s : PSum) (pw w : List (Attr × Int)) (h : PInv s pw w) (a : Attr) (x : Int) :
    PInv (s.measure a x) pw (w ++ [(a, x)]) :=
  ⟨h.run.measure _ w a x, h.rep⟩

theorem PInv.collect (s : PSum) (pw w : List (Attr × Int)) (h : PInv s pw w) (t : Nat) :
    PInv (s.delta t).1 w [] := by
  refine ⟨?_, ?_⟩
  · have := h.run.collect _ w .delta t
    simpa [Agg.collect, PSum.collect, Agg.resets] using this
  · intro k
    have hc := h.run.cells k
    rw [tl_eq_relabel] at hc
    simp only [Agg.payloadAt, Agg.limit, optPayload] at hc
    simp only [PSum.delta, get?_map_vals, under_eq_valsAt]
    by_cases he : (valsAt (relabel s.limit w) k).isEmpty = true
    · simp only [he, if_true] at hc
      cases hv : s.values.get? k with
      | none => simp only [List.isEmpty_iff] at he; simp [he]
      | some v => rw [hv] at hc; simp at hc
    · simp only [he, if_false, Bool.false_eq_true] at hc
      cases hv : s.values.get? k with
      | none => rw [hv] at hc; simp at hc
      | some v =>
        rw [hv] at hc
        simp only [payload, Option.map_some, Option.some.injEq, PV.num.injEq] at hc
        simp [hc]

theorem runSteps_psum_delta (steps : List AStep) (s : PSum) (pw w : List (Attr × Int)) (h : PInv s pw w) :
    ((Agg.psum s).runSteps .delta steps).2 =
      (windowsPrev pw w steps).map fun p => refPointsDelta s.limit p.1 p.2 := by
  induction steps generalizing s pw w with
  | nil => rfl
  | cons st r ih =>
    cases st with
    | meas a x =>
      simp only [Agg.runSteps, windowsPrev, Agg.measure]
      exact ih (s.measure a x) pw _ (h.measure s pw w a x)
    | col t =>
      simp only [Agg.runSteps, windowsPrev, List.map_cons]
      rw [h.report s pw w t]
      have := ih (s.delta t).1 w [] (h.collect s pw w t)
      simp only [Agg.collect, PSum.collect] at this ⊢
      rw [this]
      rfl

theorem PInv.fresh (s : PSum) (hv : s.values = []) (hr : s.reported = []) : PInv s [] [] := by
  refine ⟨RunInv.fresh _ (by simp [Agg.keys, AMap.keys, hv]), ?_⟩
  intro k; simp [hr, AMap.get?, under, relabel]

theorem windowsPrev_snd (pw w : List (Attr × Int)) (steps : List AStep) :
    (windowsPrev pw w steps).map (·.2) = windows true w steps := by
  induction steps generalizing pw w with
  | nil => rfl
  | cons st r ih => cases st <;> simp [windowsPrev, windows, ih]

/-! ## every pipeline the model builds lists each stream at most once per instrument -/

theorem insertInstrument_nodup (L : Nat) (views : List View) (j : Nat) (i : Inst) (S : List StreamSt) :
    (insertInstrument L views j i S).2.Nodup := by
  have hspec := resolveViews_spec L j i views S [] false
  simp only [insertInstrument]
  by_cases hmt : (resolveViews L j i views S [] false).2.2 = true
  · simp only [hmt, if_true]; exact hspec.nodup List.nodup_nil
  · have hmt' : (resolveViews L j i views S [] false).2.2 = false := by simpa using hmt
    simp only [hmt', (hspec.unmatched hmt').2]
    cases (cachedAggregator L (resolveViews L j i views S [] false).1 i (Name.inst j) none none).2 <;> simp

theorem create_meas_nodup (L : Nat) (views : List View) (insts : List Inst) (p : Pipe) (j0 : Nat)
    (hp : ∀ m ∈ p.meas, m.Nodup) : ∀ m ∈ (Pipe.create L views p insts j0).meas, m.Nodup := by
  induction insts generalizing p j0 with
  | nil => simpa [Pipe.create] using hp
  | cons i is ih =>
    simp only [Pipe.create]
    apply ih
    intro m hm
    rcases List.mem_append.mp hm with h | h
    · exact hp m h
    · simp at h; subst h; exact insertInstrument_nodup L views (i.name.getD j0) i p.streams


theorem allZip_map {α β : Type} (p : α → β → Bool) (f : α → β) (l : List α) (h : ∀ a, p a (f a) = true) :
    allZip p l (l.map f) = true := by
  induction l with
  | nil => rfl
  | cons a l ih => simp [allZip, h a, ih]


/-! ## views that do not match are irrelevant -/

theorem resolveViews_filter (L : Nat) (j : Nat) (i : Inst) (vs : List View) (S : List StreamSt) (M : List Nat)
    (mt : Bool) :
    resolveViews L j i vs S M mt = resolveViews L j i (vs.filter fun v => v.matches j i) S M mt := by
  induction vs generalizing S M mt with
  | nil => rfl
  | cons v vs ih =>
    by_cases hm : v.matches j i
    · simp only [List.filter_cons, hm, if_true, resolveViews]
      split
      · exact ih _ _ _
      · split <;> exact ih _ _ _
    · simp only [List.filter_cons, hm, resolveViews]
      exact ih _ _ _

theorem insertInstrument_filter (L : Nat) (views : List View) (j : Nat) (i : Inst) (S : List StreamSt) :
    insertInstrument L views j i S = insertInstrument L (views.filter fun v => v.matches j i) j i S := by
  simp only [insertInstrument, ← resolveViews_filter]

end Otel.C12
