/-
C12 — the name criterion of `NewView` (view.go:45-81), for ALL criteria and ALL instrument names (core Lean only).

Strings are lists of runes (`Nat` code points); the Go code works on UTF-8 bytes, but every byte it inspects or
inserts (`\.+*?()|[]{}^$`) is ASCII and ASCII bytes never occur inside a multi-byte sequence, so for valid UTF-8
the byte-level `regexp.QuoteMeta` / `strings.ReplaceAll` are these rune-level functions.

* `quoteMeta`   = `regexp.QuoteMeta`: a backslash in front of every rune of the `special` table;
* `replaceAll2` = `strings.ReplaceAll` with a two-character `old` that starts with a backslash (`\?`, `\*`):
                  leftmost, non-overlapping occurrences on the RAW string (no knowledge of escape pairs);
* `translate`   = view.go:67-70: `"^" + QuoteMeta(name) + "$"`, then `\?` ↦ `.`, then `\*` ↦ `.*`;
* `parseRe` / `matchToks` = the contract for `regexp.MustCompile(p).MatchString(n)` on the sub-language the
                  translation can produce: `^` item* `$` with items `\c` (c special: that literal), `.` (one rune other
                  than newline — Go's default, no `s` flag), `.*` (any newline-free run), or a non-special literal.
                  Anything outside the sub-language parses to `none` (the theorem shows it never happens);
* `nameMatch`   = the name part of the match function: wildcard branch (`strings.ContainsAny(name, "*?")`) through the
                  regexp, otherwise `Instrument.matchesName` (empty criterion or equality).

The SPEC is `Glob` (an inductive relation: the direct meaning of a glob) with its decision procedure `globMatch`.
-/
namespace Otel.C12.Glob

abbrev Str := List Nat

def bs : Nat := 92
def qm : Nat := 63
def star : Nat := 42
def dot : Nat := 46
def caret : Nat := 94
def dollar : Nat := 36
def nl : Nat := 10

/-- `regexp.QuoteMeta`'s table ``\.+*?()|[]{}^$`` -/
def special (c : Nat) : Bool := [92, 46, 43, 42, 63, 40, 41, 124, 91, 93, 123, 125, 94, 36].contains c

def unit (c : Nat) : Str := if special c then [bs, c] else [c]

def quoteMeta (s : Str) : Str := (s.map unit).flatten

/-- `strings.ReplaceAll(s, "\\" + x, new)` -/
def replaceAll2 (x : Nat) (new : Str) : Str → Str
  | [] => []
  | [a] => [a]
  | a :: b :: r => if a = bs ∧ b = x then new ++ replaceAll2 x new r else a :: replaceAll2 x new (b :: r)

/-- view.go:67-70 -/
def translate (name : Str) : Str :=
  replaceAll2 star [dot, star] (replaceAll2 qm [dot] ([caret] ++ quoteMeta name ++ [dollar]))

inductive Tok where
  | lit (c : Nat)
  | any
  | anyStar
deriving Repr, BEq, DecidableEq

/-- the items up to the final `$` -/
def parseItems : Str → Option (List Tok)
  | [] => none
  | [c] => if c = dollar then some [] else none
  | c :: d :: r =>
    if c = dollar then none
    else if c = bs then (if special d then (parseItems r).map (Tok.lit d :: ·) else none)
    else if c = dot then
      (if d = star then (parseItems r).map (Tok.anyStar :: ·) else (parseItems (d :: r)).map (Tok.any :: ·))
    else if special c then none
    else (parseItems (d :: r)).map (Tok.lit c :: ·)

def parseRe : Str → Option (List Tok)
  | [] => none
  | c :: t => if c = caret then parseItems t else none

/-- `f` on some suffix reached by skipping newline-free runes -/
def starLoop (f : Str → Bool) : Str → Bool
  | [] => f []
  | d :: r => f (d :: r) || (d != nl && starLoop f r)

/-- anchored match of an item list against the whole name -/
def matchToks : List Tok → Str → Bool
  | [], n => n.isEmpty
  | .lit c :: ts, n =>
    match n with
    | d :: r => d == c && matchToks ts r
    | [] => false
  | .any :: ts, n =>
    match n with
    | d :: r => d != nl && matchToks ts r
    | [] => false
  | .anyStar :: ts, n => starLoop (matchToks ts) n

/-- `regexp.MustCompile(pattern).MatchString(n)` on the sub-language -/
def reMatch (pattern n : Str) : Bool :=
  match parseRe pattern with
  | some ts => matchToks ts n
  | none => false

def isWild (c : Nat) : Bool := c == star || c == qm

/-- the name part of `NewView`'s match function -/
def nameMatch (crit n : Str) : Bool :=
  if crit.any isWild then reMatch (translate crit) n
  else crit.isEmpty || crit == n

/-! ## the specification: what a glob means -/

/-- `Glob p n`: the name `n` is an instance of the pattern `p` — `*` stands for any run of runes and `?` for exactly
one rune (in both cases: other than newline, which Go's `.` does not match), every other rune for itself. -/
inductive Glob : Str → Str → Prop where
  | nil : Glob [] []
  | lit (c : Nat) (p n : Str) : c ≠ star → c ≠ qm → Glob p n → Glob (c :: p) (c :: n)
  | one (d : Nat) (p n : Str) : d ≠ nl → Glob p n → Glob (qm :: p) (d :: n)
  | starNil (p n : Str) : Glob p n → Glob (star :: p) n
  | starCons (d : Nat) (p n : Str) : d ≠ nl → Glob (star :: p) n → Glob (star :: p) (d :: n)

/-- decision procedure for `Glob` (the oracle) -/
def globMatch : Str → Str → Bool
  | [], n => n.isEmpty
  | c :: p, n =>
    if c = star then starLoop (globMatch p) n
    else
      match n with
      | d :: r => (if c = qm then d != nl else d == c) && globMatch p r
      | [] => false

/-- the items a glob pattern stands for -/
def tokOf (c : Nat) : Tok := if c = qm then .any else if c = star then .anyStar else .lit c

/-! ## instrument names of the generated histories -/

def digitsAux : Nat → Nat → List Nat → List Nat
  | 0, _, acc => acc
  | fuel + 1, n, acc => if n < 10 then (48 + n) :: acc else digitsAux fuel (n / 10) ((48 + n % 10) :: acc)

/-- decimal digits of `n` as runes -/
def digits (n : Nat) : List Nat := digitsAux (n + 1) n []

/-- instrument `j` is called "i<j>" -/
def instName (j : Nat) : Str := 105 :: digits j

end Otel.C12.Glob
