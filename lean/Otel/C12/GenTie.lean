/-
C12 — generated tie.  `Otel.Gen.C12` is regenerated from /repo's current source by tools/go2lean on every run of
bin/check (checks/gentie.json); the theorems below are re-checked against the regenerated text.
Sites: `limiter.Attributes` (sdk/metric/internal/aggregate/limit.go), the cardinality-limit admission decision,
as a skeleton over `exists` (the attribute set already has a stream), `l.aggLimit` and `len(measurements)`;
`DefaultAggregationSelector` (sdk/metric/reader.go) as a skeleton over the instrument kind, its default bucket
boundaries, and the numeric values of the `InstrumentKind` constants (sdk/metric/instrument.go).
The theorems state that the limiter is the decision `Otel.C02.limitAttr` makes, on which the C12 model and theorems
are built, and that the default selector / boundaries are the model's `defaultSel` / `defaultBounds` (view resolution).
-/
import Otel.Gen.C12
import Otel.C12.Model
import Otel.C12.Flag

namespace Otel.C12.GenTie
open Otel.C02 Otel.C12

/-- characterisation: the overflow set is substituted iff a limit is set, the attribute set is new, and
`limit - 1` streams already exist -/
theorem gen_limiter_overflow_iff (found : Bool) (aggLimit len : Int) :
    Otel.Gen.C12.limiterAttributes found aggLimit len = "overflow" ↔
      (aggLimit > 0 ∧ found = false ∧ len ≥ aggLimit - 1) := by
  unfold Otel.Gen.C12.limiterAttributes
  cases found <;> simp <;> (repeat' split) <;> simp <;> omega

/-- the only other outcome is the caller's attribute set, unchanged -/
theorem gen_limiter_total (found : Bool) (aggLimit len : Int) :
    Otel.Gen.C12.limiterAttributes found aggLimit len = "overflow" ∨
    Otel.Gen.C12.limiterAttributes found aggLimit len = "attrs" := by
  unfold Otel.Gen.C12.limiterAttributes
  (repeat' split) <;> simp

/-- a limit of zero or less disables the limiter; an existing stream is never redirected -/
theorem gen_limiter_passthrough (found : Bool) (aggLimit len : Int) (h : aggLimit ≤ 0 ∨ found = true) :
    Otel.Gen.C12.limiterAttributes found aggLimit len = "attrs" := by
  rcases gen_limiter_total found aggLimit len with h1 | h1
  · have := (gen_limiter_overflow_iff found aggLimit len).mp h1
    rcases h with h | h
    · omega
    · simp_all
  · exact h1

/-- `limiter.Attributes` as written today is the model's `limitAttr` (the C12/C02 models' admission decision):
the model returns `overflowAttr` exactly when the code returns `overflowSet` -/
theorem gen_limiter_eq_model {V : Type} (limit : Nat) (m : AMap V) (a : Attr) :
    limitAttr limit m a =
      (if Otel.Gen.C12.limiterAttributes (m.contains a) (limit : Int) (m.length : Int) = "overflow"
       then overflowAttr else a) := by
  have hc := gen_limiter_overflow_iff (m.contains a) (limit : Int) (m.length : Int)
  unfold limitAttr
  by_cases h : Otel.Gen.C12.limiterAttributes (m.contains a) (limit : Int) (m.length : Int) = "overflow"
  · obtain ⟨h1, h2, h3⟩ := hc.mp h
    have hl : limit > 0 := by omega
    have hg : m.length + 1 ≥ limit := by omega
    rw [if_pos h]; simp [hl, h2, hg]
  · rw [if_neg h]
    by_cases hl : limit > 0
    · by_cases h2 : m.contains a = true
      · simp [hl, h2]
      · have h2' : m.contains a = false := by simpa using h2
        have hg : ¬ (m.length + 1 ≥ limit) := by
          intro hg; exact h (hc.mpr ⟨by omega, h2', by omega⟩)
        simp [hl, h2', hg]
    · simp [hl]

/-! ### DefaultAggregationSelector -/

/-- the Go constant of a model instrument kind -/
def kindCode : Kind → Int
  | .counter => Otel.Gen.C12.InstrumentKindCounter
  | .updown => Otel.Gen.C12.InstrumentKindUpDownCounter
  | .histogram => Otel.Gen.C12.InstrumentKindHistogram
  | .gauge => Otel.Gen.C12.InstrumentKindGauge
  | .obsCounter => Otel.Gen.C12.InstrumentKindObservableCounter
  | .obsUpdown => Otel.Gen.C12.InstrumentKindObservableUpDownCounter
  | .obsGauge => Otel.Gen.C12.InstrumentKindObservableGauge

/-- the return of the selector that a model `AggSel` stands for -/
def selTag : AggSel → String
  | .sum => "Sum"
  | .last => "LastValue"
  | .explicit => "ExplicitBucketHistogram{Boundaries,NoMinMax:false}"
  | .dflt => "Default"
  | .drop => "Drop"
  | .expo => "Base2ExponentialHistogram"

/-- `DefaultAggregationSelector` as written today is the model's `defaultSel`, for every instrument kind -/
theorem gen_default_selector_eq_model (k : Kind) :
    Otel.Gen.C12.defaultAggregationSelector (kindCode k) = selTag (defaultSel k) := by
  cases k <;> decide

/-- the seven kinds have distinct codes, so the tie above covers seven different arms of the switch -/
theorem gen_kind_codes_injective (a b : Kind) (h : kindCode a = kindCode b) : a = b := by
  cases a <;> cases b <;> first | rfl | (exact absurd h (by decide))

/-- the selector panics ("<end>" = falls out of the switch) exactly on values that are not one of the seven kinds -/
theorem gen_default_selector_panics_iff (ik : Int) :
    Otel.Gen.C12.defaultAggregationSelector ik = "<end>" ↔ ¬ (1 ≤ ik ∧ ik ≤ 7) := by
  unfold Otel.Gen.C12.defaultAggregationSelector
  (repeat' split) <;> (try simp_all) <;> omega

/-- the default explicit bucket boundaries are the model's `defaultBounds` -/
theorem gen_default_boundaries_eq_model : Otel.Gen.C12.defaultBoundaries = defaultBounds := by decide

/-! ### the experimental cardinality-limit flag (sdk/metric/internal/x) -/

/-- `Feature.Lookup` followed by the parse closure of `CardinalityLimit`, as written today, is the flag model's
`lookup`: an unset or empty variable and an unparsable one give (0, false); otherwise (Atoi value, true) -/
theorem gen_feature_lookup_eq_model (env : Option (List UInt8)) :
    Otel.C12.Flag.lookup env =
      (let raw : String := match env with | some v => (if v.isEmpty then "" else "x") | none => ""
       let parsed := match env with | some v => Otel.C12.Flag.atoi v | none => none
       if (Otel.Gen.C12.featureLookup raw).1 = "zero,false" then (0, false)
       else if (Otel.Gen.C12.cardinalityLimitParse parsed.isNone).1 = "n,true" then (parsed.getD 0, true)
       else (0, false)) := by
  have h1 : ∀ r : String, Otel.Gen.C12.featureLookup r =
      (if r = "" then ("zero,false", ["vRaw=Getenv(key)"]) else ("parse(vRaw)", ["vRaw=Getenv(key)"])) := by
    intro r; unfold Otel.Gen.C12.featureLookup
    by_cases h : r = "" <;> simp [h]
  have h2 : ∀ b : Bool, Otel.Gen.C12.cardinalityLimitParse b =
      (if b then ("0,false", ["n=Atoi(v)"]) else ("n,true", ["n=Atoi(v)"])) := by
    intro b; cases b <;> rfl
  simp only [h1, h2]
  unfold Otel.C12.Flag.lookup
  cases env with
  | none => simp
  | some v => by_cases hv : v = [] <;> cases ha : Otel.C12.Flag.atoi v <;> simp [hv, ha]

end Otel.C12.GenTie
