/-
C12 — specification: a closed-form, declarative reference for what one metric stream must report, stated
without the step-by-step limiter.

For one admission window (a collection cycle for delta temporality and for the precomputed aggregators, the whole
lifetime for cumulative temporality) let `arr` be the attribute sets of the measurements in arrival order (after the
view's attribute filter).  With a limit `L ≥ 1` the first `L-1` DISTINCT sets of `arr` keep their identity, every
other measurement is reported under the overflow set; `L = 0` means no limit.  The reported points are then the
measurements grouped by that key: added together (sums), counted and added (histograms), last one wins (gauges).
The same definitions are (a) the conclusions of the theorems in Props.lean about the model and (b) the oracle the
driver evaluates on what the real SDK reported.
-/
import Otel.C12.Model
namespace Otel.C12.Spec
open Otel.C02

/-- distinct elements in order of first appearance -/
def addDistinct (acc : List Attr) (a : Attr) : List Attr := if acc.contains a then acc else acc ++ [a]
def firstDistinct (l : List Attr) : List Attr := l.foldl addDistinct []

/-- the sets that keep their identity: the first `L-1` distinct arrivals -/
def kept (L : Nat) (arr : List Attr) : List Attr := (firstDistinct arr).take (L - 1)

/-- the attribute set a measurement for `a` is reported under -/
def specKey (L : Nat) (arr : List Attr) (a : Attr) : Attr :=
  if L = 0 then a else if (kept L arr).contains a then a else overflowAttr

def sumInts (l : List Int) : Int := l.foldl (· + ·) 0

/-- the measurement stream of a window after the cardinality limit: every measurement re-labelled with the set it
is reported under -/
def relabel (L : Nat) (arr : List (Attr × Int)) : List (Attr × Int) :=
  arr.map fun m => (specKey L (arr.map (·.1)) m.1, m.2)

/-- the measurements of a window that are reported under key `k` -/
def under (L : Nat) (arr : List (Attr × Int)) (k : Attr) : List Int :=
  ((relabel L arr).filter fun m => m.1 == k).map (·.2)

def bucketCounts (bounds : List Int) (xs : List Int) : List Nat :=
  (List.range (bounds.length + 1)).map fun i => (xs.filter fun x => searchIdx bounds x == i).length

/-- the keys reported for a window, in order of first appearance -/
def refKeys (L : Nat) (arr : List (Attr × Int)) : List Attr :=
  firstDistinct ((relabel L arr).map (·.1))

/-- what the point of one attribute set must carry, given the values `xs` of the measurements reported under that
set, in arrival order: their sum (sums), the last one (last-value aggregates), their number, sum and per-bucket
numbers (histograms).  Only the shape of `g` — kind, boundaries, noSum — is read. -/
def payload (g : Agg) (xs : List Int) : PV :=
  match g with
  | .sum _ | .psum _ => PV.num (sumInts xs)
  | .lv _ | .plv _ => PV.num (xs.getLast?.getD 0)
  | .hist h | .expo h => PV.hist xs.length (if h.noSum then 0 else sumInts xs) (bucketCounts h.bounds xs)

/-- reference points of one window: one point per reported key, carrying the payload of the measurements mapped
to that key -/
def refPoints (g : Agg) (L : Nat) (arr : List (Attr × Int)) : List (Attr × PV) :=
  (refKeys L arr).map fun k => (k, payload g (under L arr k))

/-- reference points of a precomputed sum with DELTA temporality: for every set reported in this cycle (after the
limit: kept sets and the overflow set) the value observed in this cycle minus the value observed for the same
reported set in the IMMEDIATELY PRECEDING cycle `pw` (0 when it was not reported then) — sum.go:168-207 -/
def refPointsDelta (L : Nat) (pw w : List (Attr × Int)) : List (Attr × PV) :=
  (refKeys L w).map fun k => (k, PV.num (sumInts (under L w k) - sumInts (under L pw k)))

/-- the admission windows of a step sequence: the measurements each collection reports on.  `resets` says whether a
collection starts a new window (delta temporality, precomputed aggregators) or the window is the whole lifetime
(cumulative temporality) -/
def windows (resets : Bool) (w : List (Attr × Int)) : List AStep → List (List (Attr × Int))
  | [] => []
  | .meas a x :: r => windows resets (w ++ [(a, x)]) r
  | .col _ :: r => w :: windows resets (if resets then [] else w) r

/-- clause "never more than L attribute sets in one collection" -/
def limitOK (L : Nat) (pts : List (Attr × PV)) : Bool := L == 0 || decide (pts.length ≤ L)

/-- the additive content of a point: the value of a sum, the count of a histogram -/
def pvTotal : PV → Int
  | .num v => v
  | .hist c _ _ => c
def pvSum : PV → Int
  | .num v => v
  | .hist _ s _ => s

def total (pts : List (Attr × PV)) : Int := sumInts (pts.map fun p => pvTotal p.2)
def totalSum (pts : List (Attr × PV)) : Int := sumInts (pts.map fun p => pvSum p.2)

/-- clause "the total over all reported points equals the total of all measurements" (sums: Σ values; histograms:
number of measurements, and Σ values unless the sum is not collected) -/
def conserved (g : Agg) (arr : List (Attr × Int)) (pts : List (Attr × PV)) : Bool :=
  match g with
  | .sum _ | .psum _ => total pts == sumInts (arr.map (·.2))
  | .hist h | .expo h =>
    total pts == (arr.length : Int) && (h.noSum || totalSum pts == sumInts (arr.map (·.2)))
  | .lv _ | .plv _ => true

/-- per point: the point reported under `k` carries exactly the payload of the measurements that `specKey` maps to
`k` — their sum (sums), the LAST of them (last-value aggregates), their number, sum and per-bucket numbers
(histograms).  Together with `specKey` this is "keeps its identity" / "is aggregated under the overflow set" in
terms of values. -/
def perKeyOK (g : Agg) (L : Nat) (w : List (Attr × Int)) (pts : List (Attr × PV)) : Bool :=
  pts.all fun p => decide (p.2 = payload g (under L w p.1))

/-- per point of a precomputed sum with delta temporality: observed now minus observed in the preceding cycle -/
def psumDeltaOK (L : Nat) (pw w : List (Attr × Int)) (pts : List (Attr × PV)) : Bool :=
  pts.all fun p => decide (p.2 = PV.num (sumInts (under L w p.1) - sumInts (under L pw p.1)))

/-- conservation in the form that is true for the cumulative→delta conversion of precomputed sums: the reported
points of a cycle add up to everything observed in the cycle minus what the preceding cycle had observed under the
sets reported now -/
def psumDeltaConserved (L : Nat) (pw w : List (Attr × Int)) (pts : List (Attr × PV)) : Bool :=
  total pts == sumInts (w.map (·.2)) - sumInts ((refKeys L w).map fun k => sumInts (under L pw k))

/-- bucket `i` of a point -/
def pvBucket (i : Nat) : PV → Int
  | .num _ => 0
  | .hist _ _ cs => ((cs.getD i 0 : Nat) : Int)

/-- per-bucket conservation of histograms: over all reported points, bucket `i` adds up to the number of
measurements of the window that fall into bucket `i` -/
def bucketsConserved (g : Agg) (w : List (Attr × Int)) (pts : List (Attr × PV)) : Bool :=
  match g with
  | .hist h | .expo h =>
    (List.range (h.bounds.length + 1)).all fun i =>
      sumInts (pts.map fun p => pvBucket i p.2) == ((w.filter fun m => searchIdx h.bounds m.2 == i).length : Int)
  | _ => true

/-- the windows of a clearing aggregate together with the window of the preceding collection -/
def windowsPrev (pw w : List (Attr × Int)) : List AStep → List (List (Attr × Int) × List (Attr × Int))
  | [] => []
  | .meas a x :: r => windowsPrev pw (w ++ [(a, x)]) r
  | .col _ :: r => (pw, w) :: windowsPrev w [] r

/-- at most one point carries the overflow set, and without a limit nothing is redirected -/
def keysOK (L : Nat) (arr : List (Attr × Int)) (pts : List (Attr × PV)) : Bool :=
  pts.all fun p => (arr.any fun m => m.1 == p.1) || (L != 0 && p.1 == overflowAttr)

/-- pointwise check of two lists of the same length (windows against reports) -/
def allZip {α β : Type} (p : α → β → Bool) : List α → List β → Bool
  | [], [] => true
  | a :: as, b :: bs => p a b && allZip p as bs
  | _, _ => false

end Otel.C12.Spec
