/-
C12 driver: replays one history (limit, two readers, instruments, views, ops) on the model and evaluates the Spec
reference (`Spec.refPoints`, `Spec.refPointsDelta`, `Spec.limitOK`, `Spec.conserved`, `Spec.perKeyOK`,
`Spec.bucketsConserved`, `Spec.psumDeltaOK`, `Spec.psumDeltaConserved`, `Spec.keysOK`) on the observed collections.
  hist <gen> <limit> <tps> <insts> <views> | m j set x | o j set x | k | c r | p j set x | r j set x … => <r>@<metric>;<metric> …
-/
import Otel.Base.Wire
import Otel.C12.Model
import Otel.C12.Spec
import Otel.C12.Flag
open Otel Otel.Wire Otel.C02 Otel.C12

namespace Otel.C12.Drv

def parseKind (c : Char) : Option Kind :=
  match c with
  | 'c' => some .counter | 'u' => some .updown | 'h' => some .histogram | 'g' => some .gauge
  | 'C' => some .obsCounter | 'U' => some .obsUpdown | 'G' => some .obsGauge
  | _ => none

def digit (c : Char) : Option Nat := if '0' ≤ c ∧ c ≤ '9' then some (c.toNat - 48) else none

def parseInst (s : String) : Option Inst :=
  match s.toList with
  | [n, k] => do
    if n != 'i' && n != 'f' && n != 'I' && n != 'F' then none
    pure { float := n == 'f' || n == 'F', kind := ← parseKind k }
  | [n, k, ':', sc, nm, d, u] => do
    if n != 'i' && n != 'f' && n != 'I' && n != 'F' then none
    pure { float := n == 'f' || n == 'F', kind := ← parseKind k, scope := ← digit sc, name := some (← digit nm),
           desc := ← digit d, unit := ← digit u }
  | _ => none

/-- upper-case number letter: the instrument is created by an `n j` operation, not before the first operation -/
def instLate (s : String) : Bool :=
  match s.toList with
  | n :: _ => n == 'I' || n == 'F'
  | [] => false

/-- runes `r1_r2_…` (decimal code points); `-` = empty -/
def parseRunes (s : String) : Option (List Nat) :=
  if s == "-" then some [] else (s.splitOn "_").mapM parseNat

/-- extra criteria: letters D U N V S each followed by one digit; digit 0 = zero value = criterion not given -/
def parseCrit (v : View) : List Char → Option View
  | [] => some v
  | c :: d :: rest => do
    let n ← digit d
    let o := if n == 0 then none else some n
    let v ← match c with
      | 'D' => some { v with desc := o }
      | 'U' => some { v with unit := o }
      | 'N' => some { v with scopeName := o }
      | 'V' => some { v with scopeVersion := o }
      | 'S' => some { v with scopeSchema := o }
      | _ => none
    parseCrit v rest
  | _ => none

def digitsOf (l : List Char) : Option (List Nat) :=
  l.mapM fun c => if '0' ≤ c ∧ c ≤ '9' then some (c.toNat - 48) else none

def parseView5 (p k rn f a : String) : Option View := do
    let pat ← match p.toList with
      | ['-'] => some NamePat.none
      | ['s'] => some NamePat.star
      | ['q'] => some NamePat.quest
      | 'n' :: r => (parseNat (String.ofList r)).map NamePat.exact
      | 'g' :: r => (parseRunes (String.ofList r)).map NamePat.glob
      | _ => none
    let kind ← match k.toList with
      | ['-'] => some none
      | [c] => (parseKind c).map some
      | _ => none
    let rename ← match rn.toList with
      | ['-'] => some none
      | 'r' :: r => (parseNat (String.ofList r)).map fun n => some (n, false)
      | 'R' :: r => (parseNat (String.ofList r)).map fun n => some (n, true)
      | _ => none
    let filter ← match f.toList with
      | ['-'] => some none
      | 'a' :: r => (digitsOf r).map fun ks => some { deny := false, keys := ks }
      | 'd' :: r => (digitsOf r).map fun ks => some { deny := true, keys := ks }
      | _ => none
    let agg ← match a with
      | "-" => some none
      | "D" => some (some AggSel.dflt)
      | "x" => some (some AggSel.drop)
      | "s" => some (some AggSel.sum)
      | "l" => some (some AggSel.last)
      | "e" => some (some AggSel.explicit)
      | "b" => some (some AggSel.expo)
      -- aggregations that fail `Aggregation.err()` (non-monotonic boundaries / MaxSize 0): NewView logs the error and
      -- uses NO aggregation for the view (view.go:83-94); the view itself still applies
      | "E" => some none
      | "B" => some none
      | _ => none
    pure { pat := pat, kind := kind, rename := rename, filter := filter, agg := agg }

def parseView (s : String) : Option View :=
  match s.splitOn "/" with
  | [p, k, rn, f, a] => parseView5 p k rn f a
  | [p, k, rn, f, a, c] => do
    let v ← parseView5 p k rn f a
    if c == "-" then pure v else parseCrit v c.toList
  | _ => none

def parseSet (s : String) : Option CSet :=
  if s == "e" then some []
  else (s.splitOn ".").mapM fun kv =>
    match kv.splitOn ":" with
    | [k, v] => do pure (← parseNat k, ← parseNat v)
    | _ => none

def renderSet (s : CSet) : String :=
  if s.isEmpty then "e" else ".".intercalate (s.map fun kv => s!"{kv.1}:{kv.2}")

def parseOp : List String → Option Op
  | ["m", j, a, x] => do pure (.meas (← parseNat j) (← parseSet a) (← parseInt x))
  -- forced-interleaving leg: `p` (parks in the reservoir provider) and `r` (races with it) are measurements; with
  -- atomic critical sections the racing one takes effect after the parked one, i.e. in line order
  | ["p", j, a, x] => do pure (.meas (← parseNat j) (← parseSet a) (← parseInt x))
  | ["r", j, a, x] => do pure (.meas (← parseNat j) (← parseSet a) (← parseInt x))
  | ["o", j, a, x] => do pure (.obs (← parseNat j) (← parseSet a) (← parseInt x))
  | ["k"] => some .clear
  | ["n", j] => do pure (.create (← parseNat j))
  | ["c", r] => do pure (.col (← parseNat r))
  | _ => none

def splitBar (toks : List String) : List (List String) :=
  let (cur, acc) := toks.foldl (fun (p : List String × List (List String)) t =>
    if t == "|" then ([], if p.1.isEmpty then p.2 else p.1.reverse :: p.2) else (t :: p.1, p.2)) ([], [])
  (if cur.isEmpty then acc else cur.reverse :: acc).reverse

/-- the value of the environment variable: `-` = unset, `x<hex>` = these bytes (possibly none), else the token -/
def parseEnv (s : String) : Option (Option Bytes) :=
  if s == "-" then some none
  else match s.toList with
    | 'x' :: _ => (parseHex s).map some
    | _ => some (some s.toUTF8.toList)

/-- `x.CardinalityLimit.Lookup` + `limiter`: `Flag.effectiveLimit` (unset, empty, unparsable and non-positive
values disable the limit) -/
def parseLimit (s : String) : Option Nat := (parseEnv s).map Flag.effectiveLimit

/-- one letter per reader; a trailing `+` (each reader collects into its own reused ResourceMetrics) or `*` (all
readers collect into ONE reused ResourceMetrics) only changes how the harness calls Collect; `R` = observable callbacks
are registered with Meter.RegisterCallback (`Sys.reg`) -/
def parseTps (s : String) : Option (List Temporality) :=
  (s.toList.filter fun c => c != '+' && c != '*' && c != 'R').mapM fun c =>
    if c == 'd' then some .delta else if c == 'c' then some .cumulative else none

/-- no operation touches an instrument before its creation, late instruments are created at most once -/
def wellFormed (late : List Bool) (ops : List (List String)) : Bool :=
  (ops.foldl (fun (acc : Bool × List Nat) op =>
    match op with
    | ["n", j] =>
      match j.toNat? with
      | some j => (acc.1 && late.getD j false && !acc.2.contains j, j :: acc.2)
      | none => (false, acc.2)
    | k :: j :: _ =>
      if k == "m" || k == "o" || k == "p" || k == "r" then
        match j.toNat? with
        | some j => (acc.1 && (!(late.getD j false) || acc.2.contains j), acc.2)
        | none => (false, acc.2)
      else acc
    | _ => acc) (true, [])).1

/-! ### canonical metrics (points sorted by attribute id) -/

structure OMetric where
  scope : Nat := 0
  name : Name
  ty : String
  pts : List (Attr × PV)
deriving Repr, BEq

def renderName : Name → String
  | .inst j => s!"i{j}"
  | .ren k up => if up then s!"R{k}" else s!"r{k}"

def parseName1 (s : String) : Option Name :=
  match s.toList with
  | 'i' :: r => (parseNat (String.ofList r)).map Name.inst
  | 'r' :: r => (parseNat (String.ofList r)).map fun k => Name.ren k false
  | 'R' :: r => (parseNat (String.ofList r)).map fun k => Name.ren k true
  | _ => none

/-- `<name>` or `<name>#<scope>` -/
def parseName (s : String) : Option (Nat × Name) :=
  match s.splitOn "#" with
  | [n] => (parseName1 n).map fun x => (0, x)
  | [n, sc] => do pure (← parseNat sc, ← parseName1 n)
  | _ => none

/-- stable sort of the metrics of a collection by scope id (the SDK groups metrics by scope; the harness prints the
scopes in id order) -/
def sortByScope {α : Type} (sc : α → Nat) (l : List α) : List α := (sortByAttr (l.map fun m => (sc m, m))).map (·.2)

def renderTy (dt : DT) (tp : Temporality) (float : Bool) : String :=
  let t := if tp == .delta then "d" else "c"
  let n := if float then "f" else "i"
  match dt with
  | .sum m => s!"S{t}{if m then "m" else "n"}{n}"
  | .gauge => s!"G{n}"
  | .hist => s!"H{t}{n}"
  | .expo => s!"X{t}{n}"

def sortPts (pts : List (Attr × PV)) : List (Attr × PV) := sortByAttr pts

def canonMetric (tp : Temporality) (m : Metric) : OMetric :=
  { scope := m.scope, name := m.name, ty := renderTy m.dt tp m.float, pts := sortPts m.pts }

def renderPV : PV → String
  | .num v => s!"{v}"
  | .hist c s cs => s!"{c}/{s}/" ++ ".".intercalate (cs.map toString)

def parsePV (s : String) : Option PV :=
  match s.splitOn "/" with
  | [v] => (parseInt v).map PV.num
  | [c, sm, cs] => do
    let counts ← if cs.isEmpty then some [] else (cs.splitOn ".").mapM parseNat
    pure (PV.hist (← parseNat c) (← parseInt sm) counts)
  | _ => none

def renderOMetric (dec : Attr → String) (m : OMetric) : String :=
  s!"{renderName m.name}{if m.scope == 0 then "" else s!"#{m.scope}"}~{m.ty}~" ++ "+".intercalate (m.pts.map fun p => s!"{dec p.1}={renderPV p.2}")

def parseOMetric (s : String) : Option OMetric :=
  match s.splitOn "~" with
  | [n, ty, pts] => do
    let ps ← (pts.splitOn "+").mapM fun q =>
      match q.splitOn "=" with
      | [a, v] => do pure (code (← parseSet a), ← parsePV v)
      | _ => none
    let (sc, nm) ← parseName n
    pure { scope := sc, name := nm, ty := ty, pts := sortPts ps }
  | _ => none

def parseORec (s : String) : Option (Nat × List OMetric) :=
  match s.splitOn "@" with
  | [r, ms] => do
    let r ← parseNat r
    if ms.isEmpty then pure (r, []) else pure (r, ← (ms.splitOn ";").mapM parseOMetric)
  | _ => none

/-! ### the reference (Spec) walk over a history -/

/-- per reader, per stream: arrivals of the current admission window, and the window of the preceding collection
(only read for precomputed sums with delta temporality) -/
structure RefSt where
  win : List (List (List (Attr × Int)))
  prev : List (List (List (Attr × Int)))
  cur : List (Nat × CSet × Int) := []
  reg : Bool := false
  /-- (reader, expected metrics, all named predicates hold of the observed record) per collection -/
  out : List (Nat × List OMetric) := []
  /-- per collection: the stream index of each metric of `out`, in order -/
  outIdx : List (List Nat) := []

def feed (p : Pipe) (j : Nat) (a : CSet) (x : Int) (win : List (List (Attr × Int))) : List (List (Attr × Int)) :=
  ((p.meas[j]?).getD []).foldl (fun w idx =>
    match p.streams[idx]? with
    | some s => w.modify idx (· ++ [(code (applyFilter s.filter a), x)])
    | none => w) win

/-- one collection of one stream: (expected points, window afterwards, preceding window afterwards) -/
def refCollect (L : Nat) (tp : Temporality) (g : Agg) (win : List (Attr × Int)) (prev : List (Attr × Int)) :
    List (Attr × PV) × List (Attr × Int) × List (Attr × Int) :=
  match g with
  | .psum _ =>
    (if tp == .delta then Spec.refPointsDelta L prev win else Spec.refPoints g L win, [], win)
  | .plv _ => (Spec.refPoints g L win, [], [])
  | _ => (Spec.refPoints g L win, if tp == .delta then [] else win, [])

def refStep (L : Nat) (insts : List Inst) (pipes : List Pipe) (st : RefSt) : Op → RefSt
  | .meas j a x =>
    if isAsync insts j || j ≥ insts.length then st
    else { st with win := (List.range pipes.length).map fun r =>
             match pipes[r]? with
             | some p => feed p j a x (st.win.getD r [])
             | none => [] }
  | .obs j a x => if isAsync insts j then { st with cur := st.cur ++ [(j, a, x)] } else st
  | .clear => { st with cur := [] }
  | .create _ => st
  | .col r =>
    match pipes[r]? with
    | none => st
    | some p =>
      let w := (List.range insts.length).foldl (fun w j =>
        if cbActive insts j st.reg then
          st.cur.foldl (fun w o => if o.1 == j then feed p j o.2.1 o.2.2 w else w) w
        else w) (st.win.getD r [])
      let pv := st.prev.getD r []
      let res := (List.range p.streams.length).map fun idx =>
        match p.streams[idx]? with
        | some s =>
          match s.agg with
          | some g =>
            let (pts, w', pv') := refCollect L p.tp g (w.getD idx []) (pv.getD idx [])
            (if pts.isEmpty then none
             else some ({ scope := s.scope, name := s.name, ty := renderTy g.dt p.tp s.float, pts := sortPts pts } : OMetric), w', pv')
          | none => (none, [], [])
        | none => (none, [], [])
      -- the present metrics with their stream index, grouped by scope like the SDK's ScopeMetrics
      let present : List (OMetric × Nat) := (List.range p.streams.length).filterMap fun idx =>
        match res[idx]? with
        | some (some m, _, _) => some (m, idx)
        | _ => none
      { st with win := st.win.set r (res.map (·.2.1)), prev := st.prev.set r (res.map (·.2.2)),
                out := st.out ++ [(r, (sortByScope (·.1.scope) present).map (·.1))],
                outIdx := st.outIdx ++ [(sortByScope (·.1.scope) present).map (·.2)] }

/-- the windows (before the collection) of every stream at every collection, for the named predicates -/
def windowsAt (L : Nat) (insts : List Inst) (pipes : List Pipe) (ops : List Op) (st0 : RefSt) :
    List (Nat × List (Agg × Temporality × Name × String × List (Attr × Int) × List (Attr × Int))) :=
  (ops.foldl (fun (acc : RefSt × List (Nat × List (Agg × Temporality × Name × String × List (Attr × Int) × List (Attr × Int)))) op =>
    let st := acc.1
    match op with
    | .col r =>
      match pipes[r]? with
      | none => acc
      | some p =>
        let w := (List.range insts.length).foldl (fun w j =>
          if cbActive insts j st.reg then
            st.cur.foldl (fun w o => if o.1 == j then feed p j o.2.1 o.2.2 w else w) w
          else w) (st.win.getD r [])
        let ws := (List.range p.streams.length).filterMap fun idx =>
          match p.streams[idx]? with
          | some s =>
            match s.agg with
            | some g => some (g, p.tp, s.name, s!"{s.scope}:{renderTy g.dt p.tp s.float}", w.getD idx [],
                              (st.prev.getD r []).getD idx [])
            | none => none
          | none => none
        (refStep L insts pipes st op, acc.2 ++ [(r, ws)])
    | _ => (refStep L insts pipes st op, acc.2)) (st0, [])).2

/-- named predicates on one observed record: every observed metric is matched (name, type, position among the
metrics of that name and type) with a stream window -/
def namedOK (L : Nat) (ws : List (Agg × Temporality × Name × String × List (Attr × Int) × List (Attr × Int)))
    (obs : List OMetric) : Bool :=
  obs.all fun m =>
    Spec.limitOK L m.pts &&
    match ws.filter (fun w => w.2.2.1 == m.name && w.2.2.2.1 == s!"{m.scope}:{m.ty}") with
    | [w] =>
      let isPsumDelta := (match w.1 with | .psum _ => true | _ => false) && w.2.1 == .delta
      let win := w.2.2.2.2.1
      let pw := w.2.2.2.2.2
      Spec.keysOK L win m.pts &&
      (if isPsumDelta then Spec.psumDeltaOK L pw win m.pts && Spec.psumDeltaConserved L pw win m.pts
       else Spec.conserved w.1 win m.pts && Spec.perKeyOK w.1 L win m.pts && Spec.bucketsConserved w.1 win m.pts)
    | _ => true   -- several streams share name and type: judged by the reference equality only

def tagIf (b : Bool) (t : String) : List String := if b then [t] else []

/-- the sequential orders a line stands for: a measurement `p` (parked between the limiter decision and the
insertion of its set) immediately followed by `r` (made meanwhile by another goroutine) are two CONCURRENT
operations — with atomic critical sections the outcome is that of `p, r` or of `r, p` -/
def linearizations : List (List String) → List (List (List String))
  | [] => [[]]
  | a :: b :: rest =>
    if a.head? == some "p" && b.head? == some "r" then
      let tails := linearizations rest
      tails.map (fun t => a :: b :: t) ++ tails.map (fun t => b :: a :: t)
    else (linearizations (b :: rest)).map (a :: ·)
  | [a] => [[a]]

/-- judge the observed records against ONE sequential order of the operations -/
def judge (reg : Bool) (L : Nat) (tps : List Temporality) (insts : List Inst) (views : List View) (obs : List String)
    (opToks : List (List String)) : Option Verdict := do
      let ops ← opToks.mapM parseOp
      let model := Sys.run L tps views insts ops reg
      let sys0 := Sys.init L tps views insts reg
      let mrecs := model.recs.map fun rc =>
        (rc.1, sortByScope (·.scope)
          (rc.2.map (canonMetric (match sys0.pipes[rc.1]? with | some p => p.tp | none => .cumulative))))
      -- decoding table for rendering attribute ids
      let sets := ops.filterMap fun o => match o with
        | .meas _ a _ => some a
        | .obs _ a _ => some a
        | _ => none
      let cands := ovfSet :: sets ++ views.flatMap fun v => sets.map (applyFilter v.filter)
      let dec := fun (c : Attr) => match cands.find? (fun s => code s == c) with
        | some s => renderSet s
        | none => s!"?{c}"
      let mstr := mrecs.map fun rc => s!"{rc.1}@" ++ ";".intercalate (rc.2.map (renderOMetric dec))
      match obs.mapM parseORec with
      | none => pure { agree := false, spec := "FAIL", nontrivial := false, branches := "unparsed-observation",
                       model := " ".intercalate mstr }
      | some orecs =>
        let st0 : RefSt := { reg := reg, win := sys0.pipes.map fun p => p.streams.map fun _ => [],
                             prev := sys0.pipes.map fun p => p.streams.map fun _ => [] }
        let ref := (ops.foldl (refStep L insts sys0.pipes) st0).out
        let wins := windowsAt L insts sys0.pipes ops st0
        let refEq := ref == orecs
        let named := wins.length == orecs.length &&
          (List.range orecs.length).all fun k =>
            match wins[k]?, orecs[k]? with
            | some w, some o => w.1 == o.1 && namedOK L w.2 o.2
            | _, _ => false
        let spec := refEq && named
        -- branch accounting
        let allStreams := sys0.pipes.flatMap (·.streams)
        let hasOvf := mrecs.any fun rc => rc.2.any fun m => m.pts.any fun p => p.1 == overflowAttr
        let full := L > 0 && mrecs.any fun rc => rc.2.any fun m => m.pts.length == L
        let userOvf := sets.any fun s => code s == overflowAttr
        let nMatch := fun (j : Nat) (i : Inst) => (views.filter fun v => v.matches j i).length
        let multi := (List.range insts.length).any fun j => match insts[j]? with
          | some i => nMatch j i ≥ 2
          | none => false
        let dedup := (List.range insts.length).any fun j => match insts[j]?, sys0.pipes[0]? with
          | some i, some p => nMatch j i > ((p.meas[j]?).getD []).length
          | _, _ => false
        let fanout := sys0.pipes.any fun p => p.meas.any fun m => m.length ≥ 2
        let shared := sys0.pipes.any fun p => (List.range p.streams.length).any fun idx =>
          (p.meas.filter fun m => m.contains idx).length ≥ 2
        let tags :=
          tagIf (L > 0) "limit" ++ tagIf (L == 0) "unlimited" ++
          tagIf (L > 0 && hasOvf) "overflow" ++ tagIf full "full" ++ tagIf userOvf "user-overflow-set" ++
          tagIf (allStreams.any fun s => s.filter.isSome) "filter" ++
          tagIf (allStreams.any fun s => s.agg.isNone) "drop" ++
          tagIf (allStreams.any fun s => match s.name with | .ren _ _ => true | _ => false) "rename" ++
          tagIf multi "multi-match" ++ tagIf dedup "dedup-or-drop" ++ tagIf fanout "fan-out" ++
          tagIf shared "shared-stream" ++
          tagIf (views.any fun v => !v.valid) "invalid-view" ++
          tagIf ((insts.map (·.scope)).eraseDups.length ≥ 2) "multi-scope" ++
          tagIf (views.any fun v => v.scopeName.isSome || v.scopeVersion.isSome || v.scopeSchema.isSome) "scope-criterion" ++
          tagIf (views.any fun v => v.pat.wild && (v.scopeName.isSome || v.scopeVersion.isSome || v.scopeSchema.isSome))
            "scoped-wildcard" ++
          tagIf (views.any fun v => v.desc.isSome || v.unit.isSome) "desc-unit-criterion" ++
          tagIf (views.any fun v => (List.range insts.length).any fun j => match insts[j]? with
            | some i => !v.matches (i.name.getD j) i &&
                        ({ v with scopeName := none, scopeVersion := none, scopeSchema := none } : View).matches (i.name.getD j) i
            | none => false) "excluded-by-scope-only" ++
          tagIf (allStreams.any fun s => match s.agg with | some (.sum _) => true | _ => false) "sum" ++
          tagIf (allStreams.any fun s => match s.agg with | some (.psum _) => true | _ => false) "precomputed-sum" ++
          tagIf (allStreams.any fun s => match s.agg with | some (.lv _) => true | _ => false) "last-value" ++
          tagIf (allStreams.any fun s => match s.agg with | some (.plv _) => true | _ => false) "precomputed-last-value" ++
          tagIf (allStreams.any fun s => match s.agg with | some (.hist _) => true | _ => false) "histogram" ++
          tagIf (allStreams.any fun s => match s.agg with | some (.expo _) => true | _ => false) "expo-histogram" ++
          tagIf (views.any fun v => match v.pat with | .glob _ => true | _ => false) "glob-criterion" ++
          tagIf (views.any fun v => match v.pat with | .glob p => p.any Glob.isWild && p.any (fun c => Glob.special c && !Glob.isWild c) | _ => false)
            "glob-special-rune" ++
          tagIf ((List.range insts.length).any fun j => match insts[j]? with
            | some i => views.any fun v => v.matches (i.name.getD j) i && incompatible i v.agg
            | none => false) "view-cannot-be-honoured" ++
          tagIf ((List.range insts.length).any fun j => match insts[j]? with
            | some i => (views.any fun v => v.matches (i.name.getD j) i && incompatible i v.agg) &&
                        (views.any fun v => v.matches (i.name.getD j) i && !incompatible i v.agg)
            | none => false) "valid-and-invalid-views-on-one-instrument" ++
          tagIf (ops.any fun o => match o with | .create _ => true | _ => false) "late-instrument" ++
          tagIf ((List.range insts.length).any fun j => isAsync insts j && !cbActive insts j reg) "repeated-observable-callback-unused" ++
          tagIf (reg && insts.any (·.kind.async)) "register-callback" ++
          tagIf ((insts.map fun i => (i.name, i.scope)).eraseDups.length < insts.length) "same-name-in-meter" ++
          tagIf (insts.any fun i => i.scope ≥ 4) "scope-attributes" ++
          tagIf (tps.contains .delta) "delta" ++ tagIf (tps.contains .cumulative) "cumulative"
        pure { agree := mrecs == orecs, spec := if spec then "ok" else "FAIL",
               nontrivial := mrecs.any fun rc => !rc.2.isEmpty,
               branches := if tags.isEmpty then "-" else ",".intercalate tags,
               model := " ".intercalate mstr }

/-- everything the per-stream judgement needs about ONE sequential order of the operations -/
structure VarData where
  mrecs : List (Nat × List OMetric)
  ref : List (Nat × List OMetric)
  idxs : List (List Nat)
  wins : List (Nat × List (Agg × Temporality × Name × String × List (Attr × Int) × List (Attr × Int)))

def variantData (reg : Bool) (L : Nat) (tps : List Temporality) (insts : List Inst) (views : List View)
    (opToks : List (List String)) : Option VarData := do
  let ops ← opToks.mapM parseOp
  let model := Sys.run L tps views insts ops reg
  let sys0 := Sys.init L tps views insts reg
  let mrecs := model.recs.map fun rc =>
    (rc.1, sortByScope (·.scope)
      (rc.2.map (canonMetric (match sys0.pipes[rc.1]? with | some p => p.tp | none => .cumulative))))
  let st0 : RefSt := { reg := reg, win := sys0.pipes.map fun p => p.streams.map fun _ => [],
                       prev := sys0.pipes.map fun p => p.streams.map fun _ => [] }
  let fin := ops.foldl (refStep L insts sys0.pipes) st0
  pure { mrecs := mrecs, ref := fin.out, idxs := fin.outIdx, wins := windowsAt L insts sys0.pipes ops st0 }

/-- Two CONCURRENT measurements (`p`/`r`) take effect in each aggregate function (each stream of each reader has its
own lock) in SOME order, chosen independently per stream; streams are independent of each other
(`stream_sees_only_its_own_measurements` in Props.lean), so the history of every stream must be the model's — and
satisfy the Spec — for one of the sequential orders, not necessarily the same order for all streams.
Returns (agree, spec ok, different streams exhibit different orders). -/
def perStream (L : Nat) (vds : List VarData) (orecs : List (Nat × List OMetric)) : Bool × Bool × Bool :=
  match vds.head? with
  | none => (false, false, false)
  | some v0 =>
    let shape :=
      orecs.length == v0.mrecs.length &&
      vds.all (fun v => v.idxs == v0.idxs && v.mrecs.length == v0.mrecs.length && v.ref.length == v0.mrecs.length &&
                        v.wins.length == v0.mrecs.length) &&
      (List.range orecs.length).all fun c =>
        match orecs[c]?, v0.mrecs[c]?, v0.idxs[c]? with
        | some o, some m, some ix =>
          o.1 == m.1 && o.2.length == ix.length &&
          vds.all fun v => match v.mrecs[c]?, v.ref[c]? with
            | some vm, some vr => vm.2.length == ix.length && vr.2.length == ix.length
            | _, _ => false
        | _, _, _ => false
    if !shape then (false, false, false)
    else
      -- the cells (record, position) of every stream (reader, stream index)
      let cells : List ((Nat × Nat) × (Nat × Nat)) :=
        (List.range orecs.length).flatMap fun c =>
          match orecs[c]?, v0.idxs[c]? with
          | some o, some ix => (List.range ix.length).map fun k => ((o.1, ix.getD k 0), (c, k))
          | _, _ => []
      let streams := (cells.map (·.1)).eraseDups
      let cellOf := fun (recs : List (Nat × List OMetric)) (ck : Nat × Nat) =>
        match recs[ck.1]? with
        | some rc => rc.2[ck.2]?
        | none => none
      let agreeS := fun (st : Nat × Nat) (v : VarData) =>
        (cells.filter (·.1 == st)).all fun cl => cellOf orecs cl.2 == cellOf v.mrecs cl.2
      let specS := fun (st : Nat × Nat) (v : VarData) =>
        (cells.filter (·.1 == st)).all fun cl =>
          match cellOf orecs cl.2, v.wins[cl.2.1]? with
          | some o, some w => cellOf v.ref cl.2 == some o && namedOK L w.2 [o]
          | _, _ => false
      let choice := fun (st : Nat × Nat) => vds.findIdx? fun v => agreeS st v && specS st v
      let agree := streams.all fun st => vds.any (agreeS st)
      let spec := streams.all fun st => vds.any (specS st)
      let chosen := streams.filterMap choice
      (agree, spec, chosen.eraseDups.length > 1)

def stepLine (_ : Unit) (toks : List String) : Unit × Option Verdict :=
  let (inp, obs) := splitObs toks
  match inp with
  | "hist" :: _ :: lim :: tps :: istr :: vstr :: rest =>
    let r : Option Verdict := do
      let L ← parseLimit lim
      let reg := tps.contains 'R'
      let tps ← parseTps tps
      let insts ← (istr.splitOn ",").mapM parseInst
      let views ← if vstr == "-" then some [] else (vstr.splitOn ",").mapM parseView
      if !wellFormed ((istr.splitOn ",").map instLate) (splitBar rest) then none
      let variants := linearizations (splitBar rest)
      let vs ← variants.mapM (judge reg L tps insts views obs)
      let forced := variants.length > 1
      let tag := fun (v : Verdict) (t : String) => { v with branches := if v.branches == "-" then t else v.branches ++ "," ++ t }
      -- the outcome must be that of SOME sequential order: prefer the line order, then any order the model and
      -- the oracle accept; otherwise report against the line order
      match vs.head? with
      | none => none
      | some v0 =>
        if !forced then pure v0
        else if v0.agree && v0.spec == "ok" then pure (tag v0 "forced-race")
        else match vs.find? (fun v => v.agree && v.spec == "ok") with
          | some v => pure (tag v "forced-race,racer-first")
          | none =>
            -- no single order explains all streams: judge every stream against its own order
            let vds ← variants.mapM (variantData reg L tps insts views)
            match obs.mapM parseORec with
            | none => pure (tag v0 "forced-race")
            | some orecs =>
              let (agree, spec, mixed) := perStream L vds orecs
              pure (tag { v0 with agree := agree, spec := if spec then "ok" else "FAIL" }
                        (if mixed then "forced-race,per-stream-order" else "forced-race"))
    ((), r)
  | ["vmatch", _, pat, name, mask] =>
    -- NewView(Instrument{Name: pat}, Stream{Name: mask})(Instrument{Name: name}) => matched, stream name
    let r : Option Verdict := do
      let p ← parseRunes pat
      let n ← parseRunes name
      let m ← parseRunes mask
      let wild := p.any Glob.isWild
      let usable := !p.isEmpty && !(wild && !m.isEmpty)        -- IsEmpty ⇒ emptyView; wildcard + rename ⇒ emptyView
      let mm := usable && Glob.nameMatch p n
      let renderR := fun (l : List Nat) => if l.isEmpty then "-" else "_".intercalate (l.map toString)
      let render := fun (b : Bool) => if b then s!"1 {renderR (if m.isEmpty then n else m)}" else "0 -"
      let specB := usable && Glob.globMatch p n                -- the glob specification, not the regexp model
      let tags := tagIf p.isEmpty "empty-criterion" ++ tagIf wild "wildcard" ++ tagIf (!wild && !p.isEmpty) "literal" ++
        tagIf (wild && !m.isEmpty) "wildcard-rename" ++ tagIf mm "match" ++ tagIf (!mm) "no-match" ++
        tagIf (p.any fun c => Glob.special c && !Glob.isWild c) "special-rune" ++
        tagIf (n.contains Glob.nl) "newline-in-name" ++ tagIf (p.contains Glob.star) "star" ++ tagIf (p.contains Glob.qm) "quest" ++
        tagIf ((p ++ n).any (· ≥ 128)) "non-ascii"
      pure { agree := " ".intercalate obs == render mm,
             spec := if " ".intercalate obs == render specB then "ok" else "FAIL",
             nontrivial := wild, branches := if tags.isEmpty then "-" else ",".intercalate tags, model := render mm }
    ((), r)
  | ["flag", _, env] =>
    -- x.CardinalityLimit.Lookup() with the variable unset / set to these bytes => value, ok
    let r : Option Verdict := do
      let e ← parseEnv env
      let (n, ok) := Flag.lookup e
      let m := s!"{n} {if ok then 1 else 0}"
      let tags := tagIf ok "parsed" ++ tagIf (!ok) "rejected" ++ tagIf (e == none) "unset" ++ tagIf (e == some []) "empty" ++
        tagIf (Flag.effectiveLimit e > 0) "limit-on" ++ tagIf (ok && n ≤ 0) "non-positive" ++
        tagIf (match e with | some (43 :: _) => true | _ => false) "plus-sign" ++
        tagIf (match e with | some s => s.length ≥ 19 | none => false) "slow-path-length"
      pure { agree := " ".intercalate obs == m, spec := if " ".intercalate obs == m then "ok" else "FAIL",
             nontrivial := e != none && e != some [], branches := ",".intercalate tags, model := m }
    ((), r)
  | _ => ((), none)

end Otel.C12.Drv

def main : IO Unit := Wire.run () Otel.C12.Drv.stepLine
