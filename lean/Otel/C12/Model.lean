/-
C12 — cardinality limit, attribute filters and view resolution (core Lean only).

Built on the aggregator library `Otel.C02.Model` (AMap, `limitAttr`, Sum, PSum, LastValue, Hist).

* Attribute sets are CONCRETE here: a `CSet` is a list of (key id, value code) pairs sorted by key id with unique
  keys (the harness only builds such sets; `filterSet` preserves the shape).  Key ids 1..4 are the user keys
  "a".."d", key id 9 is "otel.metric.overflow" (id order = Go string order).  Value code 0 = Bool false,
  1 = Bool true, n+2 = Int64 n.  `ovfSet = [(9,1)]` is `{otel.metric.overflow=true}` (limit.go:11).
* The aggregators of C02 key their maps by abstract ids (`Attr = Nat`); `code : CSet → Attr` is an injective
  numbering with `code ovfSet = 0 = overflowAttr` (proved in Lemmas: `code_injective`, `code_ovf`).
* A view's attribute filter (`attribute.NewAllowKeysFilter` / `NewDenyKeysFilter`, `Set.Filter`, set.go) is the
  order-preserving list filter on the key (C05 proves `Set.Filter` = list filter for the real zipper code).
* `Builder.filter` (aggregate.go:62-74) applies the filter per measurement BEFORE the limiter sees the set.
* `inserter.Instrument` / `cachedAggregator` (pipeline.go:237-292, 350-419): every matching view yields a stream;
  the aggregate function is cached per pipeline under the NORMALISED instrument id (lower-cased stream name, kind,
  number; description and unit are never varied here) — the first creator fixes name casing, filter and
  aggregation, a Drop creator caches "no aggregate function"; ids already `seen` in this call are skipped; no view
  matched ⇒ default stream.
* `NewView` (view.go:45-109): empty criteria ⇒ view matches nothing; wildcard name together with a rename ⇒ view
  matches nothing.
-/
import Otel.C02.Model
import Otel.C12.Glob
namespace Otel.C12
open Otel.C02

/-! ## concrete attribute sets -/

abbrev CSet := List (Nat × Nat)

def ovfKey : Nat := 9
def ovfSet : CSet := [(ovfKey, 1)]

/-- bijective-style numbering of lists of naturals: `[] ↦ 0`, `x :: r ↦ 2^x · (2·enc r + 1)` -/
def encList : List Nat → Nat
  | [] => 0
  | x :: r => 2 ^ x * (2 * encList r + 1)

def flat : CSet → List Nat
  | [] => []
  | (k, v) :: r => k :: v :: flat r

/-- the abstract id under which the C02 aggregators see a concrete set; the overflow set is id 0 -/
def code (s : CSet) : Attr := if s = ovfSet then overflowAttr else encList (flat s) + 1

/-- attribute filter of a view: allow-list (`deny = false`) or deny-list of key ids -/
structure Filter where
  deny : Bool
  keys : List Nat
deriving Repr, BEq, DecidableEq

def Filter.keep (f : Filter) (k : Nat) : Bool := if f.deny then !f.keys.contains k else f.keys.contains k

/-- `Set.Filter` -/
def filterSet (f : Filter) (s : CSet) : CSet := s.filter fun kv => f.keep kv.1

/-- `Builder.filter`: nil filter ⇒ the set is passed on unchanged -/
def applyFilter (f : Option Filter) (s : CSet) : CSet :=
  match f with
  | some f => filterSet f s
  | none => s

/-! ## instruments, views -/

inductive Kind where
  | counter | updown | histogram | gauge | obsCounter | obsUpdown | obsGauge
deriving Repr, BEq, DecidableEq

def Kind.async : Kind → Bool
  | .obsCounter | .obsUpdown | .obsGauge => true
  | _ => false

structure Inst where
  float : Bool
  kind : Kind
  /-- the meter (instrumentation scope) that creates the instrument: index into `scopeAttrs` -/
  scope : Nat := 0
  /-- name id `n` ("i<n>"); `none` = the instrument's position (single-meter histories) -/
  name : Option Nat := none
  /-- description / unit ids (0 = "") -/
  desc : Nat := 0
  unit : Nat := 0
deriving Repr, BEq, DecidableEq

/-- the meters of a history: (scope name id, version id, schema URL id); 0 = "" for version and schema.
0 = {"c12"}, 1 = {"lib1","v1","s1"}, 2 = {"lib1","v2","s1"}, 3 = {"lib2","v1","s2"}; 4 and 5 are {"lib1","v1","s1"}
again but with instrumentation-scope ATTRIBUTES {k=1} / {k=2}: distinct meters (the meter cache is keyed by the whole
scope) that no view criterion can tell apart from meter 1 (`matchesScope` reads name, version and schema URL only) -/
def scopeAttrs : Nat → Nat × Nat × Nat
  | 1 => (2, 1, 1)
  | 4 => (2, 1, 1)
  | 5 => (2, 1, 1)
  | 2 => (2, 2, 1)
  | 3 => (3, 1, 2)
  | _ => (1, 0, 0)

/-- stream / instrument names: instrument `j` is called "i<j>"; rename targets are "r<k>" or "R<k>" -/
inductive Name where
  | inst (j : Nat)
  | ren (k : Nat) (upper : Bool)
deriving Repr, BEq, DecidableEq

/-- `instID.normalize`: lower-case the name -/
def Name.norm : Name → Name
  | .inst j => .inst j
  | .ren k _ => .ren k false

/-- name criterion: none, exact "i<j>", "*", "i?", or ANY criterion string (runes) -/
inductive NamePat where
  | none | exact (j : Nat) | star | quest | glob (p : List Nat)
deriving Repr, BEq, DecidableEq

/-- the criterion string -/
def NamePat.text : NamePat → List Nat
  | .none => []
  | .exact j => Glob.instName j
  | .star => [Glob.star]
  | .quest => [105, Glob.qm]
  | .glob p => p

/-- `strings.ContainsAny(criteria.Name, "*?")` -/
def NamePat.wild (p : NamePat) : Bool := p.text.any Glob.isWild

/-- the name part of `NewView`'s match function against the instrument name "i<j>": `Glob.nameMatch` — the
wildcard → regexp translation of view.go:67-71 followed by the regexp match, or `matchesName` when the criterion has
no wildcard (an absent criterion is the empty string). -/
def NamePat.matches (p : NamePat) (j : Nat) : Bool := Glob.nameMatch p.text (Glob.instName j)

inductive AggSel where
  | dflt | drop | sum | last | explicit | expo
deriving Repr, BEq, DecidableEq

structure View where
  pat : NamePat
  kind : Option Kind
  rename : Option (Nat × Bool)
  filter : Option Filter
  agg : Option AggSel
  /-- further criteria (`none` = zero value = not given): description, unit, scope name / version / schema URL -/
  desc : Option Nat := none
  unit : Option Nat := none
  scopeName : Option Nat := none
  scopeVersion : Option Nat := none
  scopeSchema : Option Nat := none
deriving Repr, BEq, DecidableEq

/-- `NewView`: `emptyView` for empty criteria (`Instrument.IsEmpty`) and for wildcard + rename -/
def View.valid (v : View) : Bool :=
  !(v.pat == .none && v.kind == none && v.desc == none && v.unit == none && v.scopeName == none &&
    v.scopeVersion == none && v.scopeSchema == none) &&
  !(v.pat.wild && v.rename.isSome)

/-- one non-name criterion: not given, or equal -/
def critOK (c : Option Nat) (x : Nat) : Bool :=
  match c with
  | some n => n == x
  | none => true

def View.kindOK (v : View) (i : Inst) : Bool :=
  match v.kind with
  | some k => k == i.kind
  | none => true

/-- `Instrument.matchesScope` (instrument.go:124-128) -/
def View.scopeOK (v : View) (i : Inst) : Bool :=
  critOK v.scopeName (scopeAttrs i.scope).1 && critOK v.scopeVersion (scopeAttrs i.scope).2.1 &&
  critOK v.scopeSchema (scopeAttrs i.scope).2.2

/-- the match function of `NewView` (view.go:54-81): ALL given criteria must hold, in the exact-name branch
(`criteria.matches`) and in the wildcard branch (regexp on the name, then description, kind, unit AND scope) alike.
`j` is the instrument's name id. -/
def View.matches (v : View) (j : Nat) (i : Inst) : Bool :=
  v.valid && v.pat.matches j && critOK v.desc i.desc && v.kindOK i && critOK v.unit i.unit && v.scopeOK i

/-! ## aggregate functions -/

/-- one aggregate function instance (what `Builder.*` returned) -/
inductive Agg where
  | sum (s : Sum)
  | psum (s : PSum)
  | lv (s : LastValue)
  | plv (s : LastValue)
  | hist (h : Hist)
  | expo (h : Hist)
deriving Repr

/-- reported payload of a point -/
inductive PV where
  | num (v : Int)
  | hist (count : Nat) (sum : Int) (counts : List Nat)
deriving Repr, BEq, DecidableEq

inductive DT where
  | sum (mono : Bool) | gauge | hist | expo
deriving Repr, BEq, DecidableEq

def defaultBounds : List Int := [0, 5, 10, 25, 50, 75, 100, 250, 500, 750, 1000, 2500, 5000, 7500, 10000]
def viewBounds : List Int := [0, 10, 100]

/-- `DefaultAggregationSelector` (reader.go) -/
def defaultSel : Kind → AggSel
  | .counter | .updown | .obsCounter | .obsUpdown => .sum
  | .gauge | .obsGauge => .last
  | .histogram => .explicit

/-- the aggregation a stream asks for: `none` (no view aggregation) and `AggregationDefault` resolve to the
default selector (`cachedAggregator`, pipeline.go:356-364) -/
def effSel (k : Kind) : Option AggSel → AggSel
  | some .dflt => defaultSel k
  | some s => s
  | none => defaultSel k

/-- explicit boundaries: the view's `[0,10,100]` or the default ones -/
def selBounds : Option AggSel → List Int
  | some .explicit => viewBounds
  | _ => defaultBounds

def kindNoSum : Kind → Bool
  | .updown | .obsUpdown | .obsGauge | .gauge => true
  | _ => false

/-- `aggregateFunc` (pipeline.go:482-538) for a resolved aggregation; `none` = Drop or incompatible.
Float64 instruments travel as k = v·256, so boundaries are scaled.  An exponential histogram is modelled by
count, sum and the negative / zero / positive split only. -/
def mkAggSel (limit : Nat) (i : Inst) (bounds : List Int) : AggSel → Option Agg
  | .sum =>
    match i.kind with
    | .obsCounter => some (.psum { limit := limit, monotonic := true })
    | .obsUpdown => some (.psum { limit := limit, monotonic := false })
    | .counter | .histogram => some (.sum { limit := limit, monotonic := true })
    | .updown => some (.sum { limit := limit, monotonic := false })
    | _ => none
  | .last =>
    match i.kind with
    | .gauge => some (.lv { limit := limit })
    | .obsGauge => some (.plv { limit := limit })
    | _ => none
  | .explicit =>
    some (.hist { limit := limit, noSum := kindNoSum i.kind,
                  bounds := bounds.map (· * (if i.float then 256 else 1)) })
  | .expo => some (.expo { limit := limit, noSum := kindNoSum i.kind, bounds := [-1, 0] })
  | .drop => none
  | .dflt => none

def mkAgg (limit : Nat) (i : Inst) (viewSel : Option AggSel) : Option Agg :=
  mkAggSel limit i (selBounds viewSel) (effSel i.kind viewSel)

def Agg.measure (g : Agg) (a : Attr) (x : Int) : Agg :=
  match g with
  | .sum s => .sum (s.measure a x)
  | .psum s => .psum (s.measure a x)
  | .lv s => .lv (s.measure a x)
  | .plv s => .plv (s.measure a x)
  | .hist h => .hist (h.measure a x)
  | .expo h => .expo (h.measure a x)

def histPV (noSum : Bool) (v : HistVal) : PV := .hist v.count (if noSum then 0 else v.total) v.counts

def Agg.dt : Agg → DT
  | .sum s => .sum s.monotonic
  | .psum s => .sum s.monotonic
  | .lv _ | .plv _ => .gauge
  | .hist _ => .hist
  | .expo _ => .expo

/-- run the compute function: new state and points (attribute id, payload), in map order -/
def Agg.collect (g : Agg) (tp : Temporality) (t : Nat) : Agg × List (Attr × PV) :=
  match g with
  | .sum s => let r := s.collect tp t; (.sum r.1, r.2.map fun p => (p.attr, PV.num p.val.n))
  | .psum s => let r := s.collect tp t; (.psum r.1, r.2.map fun p => (p.attr, PV.num p.val))
  | .lv s => let r := s.collect tp t; (.lv r.1, r.2.map fun p => (p.attr, PV.num p.val))
  | .plv s => let r := s.pcollect tp t; (.plv r.1, r.2.map fun p => (p.attr, PV.num p.val))
  | .hist h => let r := h.collect tp t; (.hist r.1, r.2.map fun p => (p.attr, histPV h.noSum p.val))
  | .expo h => let r := h.collect tp t; (.expo r.1, r.2.map fun p => (p.attr, histPV h.noSum p.val))

/-- the admission set: keys of the aggregate function's map, in insertion order -/
def Agg.keys : Agg → List Attr
  | .sum s => s.values.keys
  | .psum s => s.values.keys
  | .lv s => s.values.keys
  | .plv s => s.values.keys
  | .hist h => h.values.keys
  | .expo h => h.values.keys

def Agg.limit : Agg → Nat
  | .sum s => s.limit
  | .psum s => s.limit
  | .lv s => s.limit
  | .plv s => s.limit
  | .hist h => h.limit
  | .expo h => h.limit

/-- does a collection empty the map (and with it the limiter's admission set)?  Delta temporality clears, and the
precomputed aggregators clear with either temporality (sum.go:168-241, lastvalue.go:129-164) -/
def Agg.resets (g : Agg) (tp : Temporality) : Bool :=
  match g with
  | .psum _ | .plv _ => true
  | _ => tp == .delta

/-- arbitrary step sequences of one aggregate function: measurements and collections -/
inductive AStep where
  | meas (a : Attr) (x : Int)
  | col (t : Nat)
deriving Repr

/-- final state and the reports of all collections, in order -/
def Agg.runSteps (g : Agg) (tp : Temporality) : List AStep → Agg × List (List (Attr × PV))
  | [] => (g, [])
  | .meas a x :: r => (g.measure a x).runSteps tp r
  | .col t :: r =>
    let c := g.collect tp t
    let rest := c.1.runSteps tp r
    (rest.1, c.2 :: rest.2)

/-! ## pipelines -/

/-- (lower-cased name, kind, number is float64, scope, description, unit) -/
abbrev StreamKey := Name × Kind × Bool × Nat × Nat × Nat

/-- one entry of `inserter.aggregators` (+ the `instrumentSync` it added to the pipeline) -/
structure StreamSt where
  /-- the cache it lives in (one per meter) and the normalised id: lower-cased name, kind, number, and the
  meter (scope), description and unit -/
  key : StreamKey
  /-- first-seen casing (pipeline.go:408-410) -/
  name : Name
  float : Bool
  filter : Option Filter
  /-- `none`: cached "no aggregate function" (Drop) -/
  agg : Option Agg
deriving Repr

structure Pipe where
  tp : Temporality
  streams : List StreamSt := []
  /-- per instrument: indexes into `streams` of its measure functions, in order -/
  meas : List (List Nat) := []
deriving Repr

def findKey (streams : List StreamSt) (key : StreamKey) : Option Nat :=
  streams.findIdx? fun s => decide (s.key = key)

/-- `isAggregatorCompatible` (pipeline.go:552-592) for the aggregations a view can ask for -/
def incompatible (i : Inst) : Option AggSel → Bool
  | some .sum => i.kind == Kind.gauge || i.kind == Kind.obsGauge
  | some .last => !(i.kind == Kind.gauge || i.kind == Kind.obsGauge)
  | _ => false

/-- the normalised instrument id a stream is cached under -/
def streamKey (i : Inst) (name : Name) : StreamKey := (name.norm, i.kind, i.float, i.scope, i.desc, i.unit)

def StreamSt.scope (s : StreamSt) : Nat := s.key.2.2.2.1

/-- `cachedAggregator`: returns the new cache and `some idx` when a measure function exists; an incompatible
aggregation returns before the cache is consulted -/
def cachedAggregator (limit : Nat) (streams : List StreamSt) (i : Inst) (name : Name)
    (filter : Option Filter) (sel : Option AggSel) : List StreamSt × Option Nat :=
  if incompatible i sel then (streams, none)
  else
    match findKey streams (streamKey i name) with
    | some idx =>
      match streams[idx]? with
      | some s => (streams, if s.agg.isSome then some idx else none)
      | none => (streams, none)
    | none =>
      (streams ++ [({ key := streamKey i name, name := name, float := i.float, filter := filter,
                      agg := mkAgg limit i sel } : StreamSt)],
       if (mkAgg limit i sel).isSome then some streams.length else none)

/-- the stream name a view gives instrument `j` -/
def View.streamName (v : View) (j : Nat) : Name :=
  match v.rename with
  | some (k, up) => Name.ren k up
  | none => Name.inst j

/-- the loop over `pipeline.views` of `inserter.Instrument` -/
def resolveViews (limit : Nat) (j : Nat) (i : Inst) :
    List View → List StreamSt → List Nat → Bool → List StreamSt × List Nat × Bool
  | [], streams, measures, matched => (streams, measures, matched)
  | v :: vs, streams, measures, matched =>
    if v.matches j i then
      let c := cachedAggregator limit streams i (v.streamName j) v.filter v.agg
      match c.2 with
      | none => resolveViews limit j i vs c.1 measures true
      | some idx =>
        if measures.contains idx then resolveViews limit j i vs c.1 measures true
        else resolveViews limit j i vs c.1 (measures ++ [idx]) true
    else resolveViews limit j i vs streams measures matched

/-- `inserter.Instrument` -/
def insertInstrument (limit : Nat) (views : List View) (j : Nat) (i : Inst) (streams : List StreamSt) :
    List StreamSt × List Nat :=
  let rv := resolveViews limit j i views streams [] false
  if rv.2.2 then (rv.1, rv.2.1)
  else
    let c := cachedAggregator limit rv.1 i (Name.inst j) none none
    match c.2 with
    | some idx => (c.1, rv.2.1 ++ [idx])
    | none => (c.1, rv.2.1)

/-- create all instruments, in order, on one pipeline -/
def Pipe.create (limit : Nat) (views : List View) (p : Pipe) : List Inst → Nat → Pipe
  | [], _ => p
  | i :: is, j =>
    let (streams', m) := insertInstrument limit views (i.name.getD j) i p.streams
    Pipe.create limit views { p with streams := streams', meas := p.meas ++ [m] } is (j + 1)

/-- one measure function call: `Builder.filter` then the aggregate function's `measure` -/
def StreamSt.measure (s : StreamSt) (a : CSet) (x : Int) : StreamSt :=
  match s.agg with
  | some g => { s with agg := some (g.measure (code (applyFilter s.filter a)) x) }
  | none => s

/-- arbitrary step sequences of one stream: measurements with CONCRETE attribute sets, and collections -/
inductive SStep where
  | meas (a : CSet) (x : Int)
  | col (t : Nat)
deriving Repr

/-- what the stream's aggregate function sees: the filtered set's id -/
def SStep.toA (f : Option Filter) : SStep → AStep
  | .meas a x => .meas (code (applyFilter f a)) x
  | .col t => .col t

/-- one stream's entry of `collectStreams` -/
def StreamSt.collect (s : StreamSt) (tp : Temporality) (t : Nat) : StreamSt × List (Attr × PV) :=
  match s.agg with
  | none => (s, [])
  | some g => ({ s with agg := some (g.collect tp t).1 }, (g.collect tp t).2)

def StreamSt.runSteps (s : StreamSt) (tp : Temporality) : List SStep → StreamSt × List (List (Attr × PV))
  | [] => (s, [])
  | .meas a x :: r => (s.measure a x).runSteps tp r
  | .col t :: r =>
    let c := s.collect tp t
    let rest := c.1.runSteps tp r
    (rest.1, c.2 :: rest.2)

/-- `for _, in := range measures { in(ctx, val, s) }` -/
def Pipe.measure (p : Pipe) (j : Nat) (a : CSet) (x : Int) : Pipe :=
  { p with streams := ((p.meas[j]?).getD []).foldl (fun ss idx => ss.modify idx fun s => s.measure a x) p.streams }

/-- one reported metric: name, number type, data type, points (attribute id, payload) in map order -/
structure Metric where
  scope : Nat
  name : Name
  float : Bool
  dt : DT
  pts : List (Attr × PV)
deriving Repr

def collectStreams (tp : Temporality) (t : Nat) : List StreamSt → List StreamSt × List Metric
  | [] => ([], [])
  | s :: ss =>
    let (ss', rest) := collectStreams tp t ss
    match s.agg with
    | none => (s :: ss', rest)
    | some g =>
      let (g', pts) := g.collect tp t
      ({ s with agg := some g' } :: ss',
       if pts.isEmpty then rest
       else { scope := s.scope, name := s.name, float := s.float, dt := g.dt, pts := pts } :: rest)

/-! ## the system: two readers on one provider -/

structure Sys where
  insts : List Inst
  pipes : List Pipe
  /-- observations the instrument callbacks replay at every collection until cleared -/
  cur : List (Nat × CSet × Int) := []
  /-- records: (reader, metrics) -/
  recs : List (Nat × List Metric) := []
  clock : Nat := 0
  /-- the observable instruments' callbacks are registered with `Meter.RegisterCallback` after the creation (always
  registered, also for a repeated identical instrument) instead of being passed as creation options -/
  reg : Bool := false
deriving Repr

inductive Op where
  | meas (j : Nat) (a : CSet) (x : Int)
  | obs (j : Nat) (a : CSet) (x : Int)
  | clear
  | col (r : Nat)
  /-- instrument `j` is created NOW (between measurements / collections) instead of before the first operation.  The
  model creates every instrument up front: for instruments that are created in list order this is observationally
  the same — streams are cached and listed in creation order either way, a stream without measurements reports
  nothing, and the driver rejects lines that measure an instrument before its creation — so this step changes
  nothing here; the differential harness checks that claim against the SDK. -/
  | create (j : Nat)
deriving Repr

def Sys.init (limit : Nat) (tps : List Temporality) (views : List View) (insts : List Inst) (reg : Bool := false) : Sys :=
  { insts := insts, pipes := tps.map fun tp => Pipe.create limit views { tp := tp } insts 0, reg := reg }

def isAsync (insts : List Inst) (j : Nat) : Bool :=
  match insts[j]? with
  | some i => i.kind.async
  | none => false

/-- the identity of instrument `j` within its meter's instrument cache (meter.go: `instID` name, description, unit,
kind; one cache per number type; one meter per scope) -/
def instIdent (insts : List Inst) (j : Nat) : Option (Nat × Nat × Kind × Bool × Nat × Nat) :=
  (insts[j]?).map fun i => (i.scope, i.name.getD j, i.kind, i.float, i.desc, i.unit)

/-- does the callback given at the creation of observable instrument `j` run?  "If Int64ObservableCounter is invoked
repeatedly with the same Name, Description, and Unit, only the first set of callbacks provided are used"
(meter.go:128-163: the cached observable is returned, the new callbacks are not registered). -/
def cbActive (insts : List Inst) (j : Nat) (reg : Bool := false) : Bool :=
  isAsync insts j && (reg || !((List.range j).any fun j' => instIdent insts j' == instIdent insts j))

/-- callbacks run in instrument creation order; each replays the observations of its instrument -/
def Pipe.replay (p : Pipe) (insts : List Inst) (cur : List (Nat × CSet × Int)) (reg : Bool := false) : Pipe :=
  (List.range insts.length).foldl (fun p j =>
    if cbActive insts j reg then
      cur.foldl (fun p o => if o.1 == j then p.measure j o.2.1 o.2.2 else p) p
    else p) p

def Sys.step (s : Sys) : Op → Sys
  | .meas j a x =>
    if isAsync s.insts j || j ≥ s.insts.length then s
    else { s with pipes := s.pipes.map fun p => p.measure j a x }
  | .obs j a x => if isAsync s.insts j then { s with cur := s.cur ++ [(j, a, x)] } else s
  | .clear => { s with cur := [] }
  | .create _ => s
  | .col r =>
    match s.pipes[r]? with
    | none => s
    | some p =>
      let p := p.replay s.insts s.cur s.reg
      let (streams', ms) := collectStreams p.tp (s.clock + 1) p.streams
      { s with pipes := s.pipes.set r { p with streams := streams' }, recs := s.recs ++ [(r, ms)],
               clock := s.clock + 1 }

def Sys.run (limit : Nat) (tps : List Temporality) (views : List View) (insts : List Inst) (ops : List Op)
    (reg : Bool := false) : Sys :=
  ops.foldl Sys.step (Sys.init limit tps views insts reg)

end Otel.C12
