/-
C12 — property theorems.  Conventions: `g` is an aggregate function of ANY kind (sum, precomputed sum, last value,
precomputed last value, explicit histogram, exponential histogram), `tp` any temporality, `steps` an ARBITRARY
sequence of measurements and collections (so: every arrival order of attribute sets over any number of cycles),
`g.keys = []` says the aggregate function is fresh (as `Builder.*` returns it), `g.limit` is the cardinality limit
(0 = off).  `Spec.windows` lists, for every collection, the measurements it reports on (the cycle for delta
temporality and for the precomputed aggregators, the lifetime for cumulative temporality); `Spec.refKeys`,
`Spec.specKey`, `Spec.kept`, `Spec.conserved`, `Spec.limitOK` are the closed-form specification that the driver
also evaluates on the real SDK's reports.
-/
import Otel.C12.Lemmas
namespace Otel.C12
open Otel.C02 Otel.C12.Spec

/-- Clause "no instrument ever reports more than L attribute sets in one collection": every report of every
aggregate function kind, for either temporality and any step sequence, has at most `L` points (`L ≥ 1`). -/
theorem limit_bound (g : Agg) (tp : Temporality) (steps : List AStep) (hf : g.keys = []) (hL : 1 ≤ g.limit) :
    ∀ r ∈ (g.runSteps tp steps).2, limitOK g.limit r = true := by
  intro r hr
  have hk := runSteps_keys tp steps g [] (by rw [hf]; rfl)
  have hm : r.map (·.1) ∈ (g.runSteps tp steps).2.map (·.map (·.1)) := List.mem_map_of_mem hr
  rw [hk] at hm
  obtain ⟨w, _, hw⟩ := List.mem_map.mp hm
  have hlen := refKeys_length_le g.limit hL w
  rw [hw] at hlen
  simp only [List.length_map] at hlen
  simp [limitOK, hlen]

/-- Clause "the first L-1 distinct sets keep their identity and every further measurement is aggregated under the
overflow set": the attribute sets of every report are exactly — and in this order — the closed form `refKeys`
of the window it reports on, i.e. the distinct values of `specKey L arrivals a`, which is `a` itself for the first
`L-1` distinct arrivals of the window (`Spec.kept`) and the overflow set for every other one.  The window is the
cycle for delta temporality / precomputed aggregators and the lifetime for cumulative temporality. -/
theorem limit_first_keep_identity (g : Agg) (tp : Temporality) (steps : List AStep) (hf : g.keys = []) :
    (g.runSteps tp steps).2.map (·.map (·.1)) = (windows (g.resets tp) [] steps).map (refKeys g.limit) :=
  runSteps_keys tp steps g [] (by rw [hf]; rfl)

/-- What `refKeys` means, spelled out: `k` is reported for a window iff some measurement of the window is mapped
to `k` by `specKey`; a set among the first `L-1` distinct arrivals is mapped to itself, any other to the overflow
set; without a limit every set is mapped to itself. -/
theorem limit_keys_characterised (L : Nat) (w : List (Attr × Int)) (k : Attr) :
    (k ∈ refKeys L w ↔ ∃ m ∈ w, specKey L (w.map (·.1)) m.1 = k) ∧
    (∀ a, 1 ≤ L → a ∈ kept L (w.map (·.1)) → specKey L (w.map (·.1)) a = a) ∧
    (∀ a, 1 ≤ L → a ∉ kept L (w.map (·.1)) → specKey L (w.map (·.1)) a = overflowAttr) ∧
    (∀ a, specKey 0 (w.map (·.1)) a = a) := by
  refine ⟨?_, ?_, ?_, ?_⟩
  · simp only [refKeys, mem_firstDistinct, relabel, List.map_map, List.mem_map, Function.comp]
  · intro a hL ha
    have : L ≠ 0 := by omega
    simp [specKey, this, ha]
  · intro a hL ha
    have : L ≠ 0 := by omega
    simp [specKey, this, ha]
  · intro a; simp [specKey]

/-- The step-by-step limiter (`limiter.Attributes` applied to the growing map) stores every measurement of a window
under exactly the key the closed form assigns to it. -/
theorem limit_stepwise_is_closed_form (L : Nat) (arr : List (Attr × Int)) : tl L [] arr = relabel L arr :=
  tl_eq_relabel L arr

/-- Clause "the total over all reported points still equals the total of all measurements": for every collection
the reported points add up to what was measured in its window — Σ values for sums, the number of measurements for
histograms (and Σ values in their sum field when the sum is collected) — whatever the limit and the arrival order.
Excluded: a precomputed sum with delta temporality, whose points are differences to the previous cycle (C08). -/
theorem limit_conserves (g : Agg) (tp : Temporality) (steps : List AStep) (hf : g.keys = [])
    (hp : g.psumDelta tp = false) :
    allZip (conserved g) (windows (g.resets tp) [] steps) (g.runSteps tp steps).2 = true := by
  have h := held_of_empty g hf
  exact runSteps_conserved tp steps g [] hp (by rw [h.1]; rfl) (by rw [h.2]; rfl)

/-- The capstone: for every aggregate-function kind (sums, LAST-VALUE aggregates, explicit and exponential
histograms, precomputed sums in their cumulative form), every limit and every step sequence, each report IS the
closed-form reference `Spec.refPoints` of its window — the very function the driver compares the real SDK's
collections with: one point per reported key (`refKeys`), carrying `Spec.payload` of the measurements `specKey`
maps to that key: their sum; the LAST of them (gauges); their number, sum and per-bucket numbers (histograms).
Only the delta form of a precomputed sum is excluded here — it is `psum_delta_is_reference` below. -/
theorem report_is_reference (g : Agg) (tp : Temporality) (steps : List AStep) (hf : g.keys = [])
    (hp : g.psumDelta tp = false) :
    (g.runSteps tp steps).2 = (windows (g.resets tp) [] steps).map (refPoints g g.limit) :=
  runSteps_reference tp steps g [] hp (RunInv.fresh g hf)

/-- Clauses "keep their identity" / "aggregated under the overflow set" / "adding together", per point: the point
reported under key `k` carries exactly the payload of the measurements that `specKey` maps to `k` — so a kept set's
point contains its own measurements only, and the overflow point contains all the others.  For every kind,
including last-value aggregates (last measurement) and histograms (count, sum, every bucket). -/
theorem limit_values_per_key (g : Agg) (tp : Temporality) (steps : List AStep) (hf : g.keys = [])
    (hp : g.psumDelta tp = false) :
    allZip (perKeyOK g g.limit) (windows (g.resets tp) [] steps) (g.runSteps tp steps).2 = true := by
  rw [report_is_reference g tp steps hf hp]
  exact allZip_map _ _ _ (perKeyOK_refPoints g g.limit)

/-- Last-value aggregates (gauge: `lastValue`, observable gauge: `precomputedLastValue`) under a cardinality limit:
every collection reports, for each reported set (a kept set or the overflow set), the LAST measurement of the
window that `specKey` maps to that set — the window being the cycle (delta, and always for the precomputed form) or
the lifetime (cumulative gauge) — and never more than `L` points. -/
theorem last_value_reports_last (g : Agg) (tp : Temporality) (steps : List AStep) (hf : g.keys = [])
    (hl : g.isLast = true) :
    (g.runSteps tp steps).2 = (windows (g.resets tp) [] steps).map (fun w =>
      (refKeys g.limit w).map fun k => (k, PV.num ((under g.limit w k).getLast?.getD 0))) ∧
    (1 ≤ g.limit → ∀ r ∈ (g.runSteps tp steps).2, limitOK g.limit r = true) := by
  refine ⟨?_, limit_bound g tp steps hf⟩
  have hp : g.psumDelta tp = false := by cases g <;> simp [Agg.isLast] at hl <;> rfl
  rw [report_is_reference g tp steps hf hp]
  cases g <;> simp [Agg.isLast] at hl <;> rfl

/-- Histograms (explicit and exponential) under a cardinality limit, per bucket: over all reported points of a
collection, bucket `i` adds up to the number of measurements of the window that fall into bucket `i`
(`Spec.bucketsConserved`); per key the count, the sum and EVERY bucket are those of the measurements mapped to the
key (`perKeyOK`, i.e. `payload` = count / sum / `bucketCounts`); count and sum are conserved (`conserved`). -/
theorem histogram_buckets_conserved (g : Agg) (tp : Temporality) (steps : List AStep) (hf : g.keys = [])
    (hp : g.psumDelta tp = false) :
    allZip (bucketsConserved g) (windows (g.resets tp) [] steps) (g.runSteps tp steps).2 = true ∧
    allZip (perKeyOK g g.limit) (windows (g.resets tp) [] steps) (g.runSteps tp steps).2 = true ∧
    allZip (conserved g) (windows (g.resets tp) [] steps) (g.runSteps tp steps).2 = true := by
  refine ⟨?_, limit_values_per_key g tp steps hf hp, limit_conserves g tp steps hf hp⟩
  rw [report_is_reference g tp steps hf hp]
  exact allZip_map _ _ _ (bucketsConserved_ref g g.limit)

/-- Precomputed sums (observable counters / up-down counters) with DELTA temporality under a cardinality limit:
every collection reports exactly `Spec.refPointsDelta` — for each set reported in this cycle (the first `L-1`
distinct observed sets and the overflow set, the limit being applied per cycle) the value observed under it in this
cycle (overflowed observations added together) minus the value observed under the same reported set in the
immediately preceding cycle (0 if it was not reported then).  Hence (a) per point `psumDeltaOK`; (b) conservation
in the form that is true for the cumulative→delta conversion, `psumDeltaConserved`: Σ reported = Σ observed in the
cycle − Σ over the sets reported now of what the preceding cycle observed under them; (c) the keys are
`refKeys L window`, so at most `L` points in EVERY cycle, whatever was reported before. -/
theorem psum_delta_is_reference (s : PSum) (steps : List AStep) (hv : s.values = []) (hr : s.reported = []) :
    let reports := ((Agg.psum s).runSteps .delta steps).2
    reports = (windowsPrev [] [] steps).map (fun p => refPointsDelta s.limit p.1 p.2) ∧
    allZip (fun p r => psumDeltaOK s.limit p.1 p.2 r && psumDeltaConserved s.limit p.1 p.2 r)
      (windowsPrev [] [] steps) reports = true ∧
    reports.map (·.map (·.1)) = (windows true [] steps).map (refKeys s.limit) ∧
    (1 ≤ s.limit → ∀ r ∈ reports, limitOK s.limit r = true) := by
  intro reports
  have href : reports = (windowsPrev [] [] steps).map (fun p => refPointsDelta s.limit p.1 p.2) :=
    runSteps_psum_delta steps s [] [] (PInv.fresh s hv hr)
  have hf : (Agg.psum s).keys = [] := by simp [Agg.keys, AMap.keys, hv]
  refine ⟨href, ?_, ?_, ?_⟩
  · rw [href]
    exact allZip_map _ _ _ (fun p => by simp [psumDeltaOK_ref, psumDeltaConserved_ref])
  · exact limit_first_keep_identity (.psum s) .delta steps hf
  · exact limit_bound (.psum s) .delta steps hf

/-- The same under attribute filters: a stream (view filter + aggregate function) reports the closed-form reference
over the FILTERED sets of its windows — for every kind; precomputed sums with delta temporality report
`refPointsDelta` over the filtered sets. -/
theorem filtered_stream_is_reference (st : StreamSt) (g : Agg) (tp : Temporality) (steps : List SStep)
    (hs : st.agg = some g) (hf : g.keys = []) :
    (g.psumDelta tp = false →
      (st.runSteps tp steps).2 =
        (windows (g.resets tp) [] (steps.map (SStep.toA st.filter))).map (refPoints g g.limit)) ∧
    (∀ s : PSum, g = .psum s → s.reported = [] → tp = .delta →
      (st.runSteps tp steps).2 =
        (windowsPrev [] [] (steps.map (SStep.toA st.filter))).map (fun p => refPointsDelta s.limit p.1 p.2)) := by
  rw [stream_refines tp steps st g hs]
  refine ⟨fun hp => report_is_reference g tp _ hf hp, ?_⟩
  intro s hg hr htp
  subst hg; subst htp
  have hv : s.values = [] := by simpa [Agg.keys, AMap.keys] using hf
  exact (psum_delta_is_reference s _ hv hr).1

/-- Clause "re-admission after a delta reset": after a collection that clears (delta temporality, precomputed
aggregators) the admission set is empty again, so the next cycle admits its own first `L-1` sets; with cumulative
temporality a collection leaves the admission set untouched (the limit applies to the lifetime). -/
theorem limit_readmission (g : Agg) (tp : Temporality) (steps : List AStep) (t : Nat) :
    (g.resets tp = true → (g.runSteps tp (steps ++ [.col t])).1.keys = []) ∧
    (g.resets tp = false → (g.runSteps tp (steps ++ [.col t])).1.keys = (g.runSteps tp steps).1.keys) := by
  rw [runSteps_append_fst]
  simp only [Agg.runSteps, Agg.collect_state_keys, runSteps_resets]
  constructor <;> intro h <;> simp [h]

/-- Clause "a user-supplied set equal to the overflow set merges with the synthetic one": the concrete set
`{otel.metric.overflow=true}` — and no other set — has the id the limiter redirects to; a measurement for it is
always reported under it (admitted or redirected, it is the same point); a report never has two points with the
same attribute set, so there is ONE overflow point; and the bound of `limit_bound` holds for all step sequences,
including those that measure the overflow set directly. -/
theorem limit_user_overflow_set (g : Agg) (tp : Temporality) (steps : List AStep) (hf : g.keys = []) :
    (∀ s : CSet, code s = overflowAttr ↔ s = ovfSet) ∧
    (∀ L arr, specKey L arr overflowAttr = overflowAttr) ∧
    (∀ r ∈ (g.runSteps tp steps).2, (r.map (·.1)).Nodup) ∧
    (1 ≤ g.limit → ∀ r ∈ (g.runSteps tp steps).2, limitOK g.limit r = true) := by
  refine ⟨code_eq_ovf, ?_, ?_, fun hL => limit_bound g tp steps hf hL⟩
  · intro L arr; simp only [specKey]; split <;> (try split) <;> rfl
  · intro r hr
    have hk := limit_first_keep_identity g tp steps hf
    have hm : r.map (·.1) ∈ (g.runSteps tp steps).2.map (·.map (·.1)) := List.mem_map_of_mem hr
    rw [hk] at hm
    obtain ⟨w, _, hw⟩ := List.mem_map.mp hm
    rw [← hw]; exact refKeys_nodup _ _

/-- Clause "a view's attribute filter reports each measurement under its filtered attribute set": a stream with
filter `f` behaves as its aggregate function run on `code (f attrs)` (`Builder.filter` runs before the limiter),
so the reported sets are the closed form over the FILTERED sets of the window. -/
theorem filter_reports_filtered (s : StreamSt) (g : Agg) (tp : Temporality) (steps : List SStep)
    (hs : s.agg = some g) (hf : g.keys = []) :
    (s.runSteps tp steps).2 = (g.runSteps tp (steps.map (SStep.toA s.filter))).2 ∧
    (s.runSteps tp steps).2.map (·.map (·.1)) =
      (windows (g.resets tp) [] (steps.map (SStep.toA s.filter))).map (refKeys g.limit) := by
  have h := stream_refines tp steps s g hs
  exact ⟨h, by rw [h]; exact limit_first_keep_identity g tp _ hf⟩

/-- Clause "adding together streams that become identical and leaving totals unchanged": two measurements share a
point iff their filtered sets are equal (the numbering is injective), and every report is conserved with respect
to the UNFILTERED measurements of its window (the filter changes keys, never values or counts). -/
theorem filter_merges_conserve (s : StreamSt) (g : Agg) (tp : Temporality) (steps : List SStep)
    (hs : s.agg = some g) (hf : g.keys = []) (hp : g.psumDelta tp = false) :
    (∀ a b : CSet, code (applyFilter s.filter a) = code (applyFilter s.filter b) ↔
        applyFilter s.filter a = applyFilter s.filter b) ∧
    allZip (conserved g) (windows (g.resets tp) [] (steps.map (SStep.toA none))) (s.runSteps tp steps).2 = true := by
  refine ⟨fun a b => ⟨code_injective _ _, fun h => by rw [h]⟩, ?_⟩
  rw [stream_refines tp steps s g hs]
  exact allZip_congr g _ _ _ (windows_values _ s.filter none steps [] [] rfl) (limit_conserves g tp _ hf hp)

/-- Clause "a drop aggregation reports nothing": Drop yields no aggregate function; a stream without one never
reports a point and never becomes a metric of a collection; an instrument all of whose matching views select Drop
(on a pipeline without earlier streams) gets no measure function at all. -/
theorem drop_reports_nothing (L : Nat) (i : Inst) :
    mkAgg L i (some .drop) = none ∧
    (∀ (s : StreamSt) tp steps, s.agg = none → ∀ r ∈ (s.runSteps tp steps).2, r = []) ∧
    (∀ tp t (ss : List StreamSt), (∀ s ∈ ss, s.agg = none) → (collectStreams tp t ss).2 = []) ∧
    (∀ views j, (∃ v ∈ views, v.matches j i = true) →
      (∀ v ∈ views, v.matches j i = true → v.agg = some .drop) →
      (insertInstrument L views j i []).2 = [] ∧ ∀ s ∈ (insertInstrument L views j i []).1, s.agg = none) := by
  refine ⟨by simp [mkAgg, effSel, mkAggSel], fun s tp steps h => stream_dropped tp steps s h, ?_, ?_⟩
  · intro tp t ss hss
    rw [collectStreams_metrics]
    apply List.filterMap_eq_nil_iff.mpr
    intro s hs; simp [hss s hs]
  · intro views j ⟨v, hv, hm⟩ hall
    have hspec := resolveViews_spec L j i views [] [] false
    have hnone := resolveViews_allDrop L j i views [] [] false (by simp) hall
    have hmt : (resolveViews L j i views [] [] false).2.2 = true := by
      rw [hspec.matched]; simp; exact ⟨v, hv, hm⟩
    simp only [insertInstrument, hmt, if_true]
    refine ⟨?_, hnone⟩
    have hvalid := hspec.valid (by simp)
    cases hM : (resolveViews L j i views [] [] false).2.1 with
    | nil => rfl
    | cons idx rest =>
      exfalso
      obtain ⟨s, hs, ha⟩ := hvalid idx (by rw [hM]; simp)
      have := hnone s (List.mem_of_getElem? hs)
      simp [this] at ha

/-- Clause "renaming or re-aggregating views neither lose nor duplicate measurements" (resolution part): for
`inserter.Instrument` on any cache `S` — the instrument's measure functions are pairwise distinct (no duplicate,
also when several views produce the identical stream), each has an aggregate function, every matching view with a
compatible aggregation finds its stream in the cache and, unless that stream was created by Drop, the stream is
among the measure functions (no loss); when no view matches, the default stream is. -/
theorem views_no_loss_no_dup (L : Nat) (views : List View) (j : Nat) (i : Inst) (S : List StreamSt) :
    let r := insertInstrument L views j i S
    r.2.Nodup ∧
    (∀ idx ∈ r.2, ∃ s, r.1[idx]? = some s ∧ s.agg.isSome = true) ∧
    (∀ v ∈ views, v.matches j i = true → incompatible i v.agg = false →
      ∃ idx s, findKey r.1 (streamKey i (v.streamName j)) = some idx ∧ r.1[idx]? = some s ∧
        (s.agg.isSome = true → idx ∈ r.2)) ∧
    ((∀ v ∈ views, v.matches j i = false) →
      ∃ idx s, findKey r.1 (streamKey i (Name.inst j)) = some idx ∧ r.1[idx]? = some s ∧
        (s.agg.isSome = true → r.2 = [idx])) := by
  intro r
  have hspec := resolveViews_spec L j i views S [] false
  by_cases hmt : (resolveViews L j i views S [] false).2.2 = true
  · have hr : r = ((resolveViews L j i views S [] false).1, (resolveViews L j i views S [] false).2.1) := by
      simp only [r, insertInstrument, hmt, if_true]
    rw [hr]
    refine ⟨hspec.nodup List.nodup_nil, hspec.valid (by simp), hspec.noloss, ?_⟩
    intro hno
    rw [hspec.matched] at hmt
    simp at hmt
    obtain ⟨v, hv, hm⟩ := hmt
    rw [hno v hv] at hm; simp at hm
  · have hmt' : (resolveViews L j i views S [] false).2.2 = false := by simpa using hmt
    obtain ⟨hS, hM⟩ := hspec.unmatched hmt'
    have hc := cachedAggregator_spec L S i (Name.inst j) none none
    have hr : r = ((cachedAggregator L S i (Name.inst j) none none).1,
        match (cachedAggregator L S i (Name.inst j) none none).2 with
        | some idx => [idx]
        | none => []) := by
      simp only [r, insertInstrument, hmt', hS, hM]
      cases (cachedAggregator L S i (Name.inst j) none none).2 <;> simp
    rw [hr]
    generalize cachedAggregator L S i (Name.inst j) none none = c at hc
    have hnomatch : ∀ v ∈ views, v.matches j i = false := by
      rw [hspec.matched] at hmt'
      simpa using hmt'
    refine ⟨?_, ?_, ?_, ?_⟩
    · cases c.2 <;> simp
    · intro idx hidx
      cases hc2 : c.2 with
      | none => simp [hc2] at hidx
      | some k => simp [hc2] at hidx; subst hidx; exact hc.some_ok idx hc2
    · intro v hv hm; rw [hnomatch v hv] at hm; simp at hm
    · intro _
      obtain ⟨idx, s, h1, h2, h3⟩ := hc.found rfl
      exact ⟨idx, s, h1, h2, fun ha => by simp [h3 ha]⟩

/-- Clause "neither lose nor duplicate" (measurement part): one synchronous measurement on instrument `j` applies
`StreamSt.measure` (filter, then aggregate) to each stream listed for `j` exactly once and leaves every other
stream of the pipeline untouched.  (Each reader has its own pipeline; `Sys.step` maps this over all of them.) -/
theorem measure_reaches_each_stream_once (p : Pipe) (j : Nat) (a : CSet) (x : Int)
    (hnd : ((p.meas[j]?).getD []).Nodup) (i : Nat) :
    (p.measure j a x).streams[i]? =
      if i ∈ (p.meas[j]?).getD [] then (p.streams[i]?).map (·.measure a x) else p.streams[i]? := by
  simp only [Pipe.measure]
  exact foldl_modify_getElem? _ _ hnd _ _

/-- Clause "renaming … views neither lose nor duplicate measurements", for views whose stream names differ only
in case (or are identical): such views have the same normalised id, hence resolve to the SAME cache entry `idx`;
`idx` occurs in the instrument's measure list at most once — exactly once when the entry has an aggregate function —
so the shared aggregate function receives each measurement once, not once per view. -/
theorem views_case_variants_once (L : Nat) (views : List View) (j : Nat) (i : Inst) (S : List StreamSt)
    (v1 v2 : View) (h1 : v1 ∈ views) (h2 : v2 ∈ views) (m1 : v1.matches j i = true) (m2 : v2.matches j i = true)
    (c1 : incompatible i v1.agg = false) (c2 : incompatible i v2.agg = false)
    (hn : (v1.streamName j).norm = (v2.streamName j).norm) :
    let r := insertInstrument L views j i S
    ∃ idx s, findKey r.1 (streamKey i (v1.streamName j)) = some idx ∧
      findKey r.1 (streamKey i (v2.streamName j)) = some idx ∧ r.1[idx]? = some s ∧
      r.2.count idx ≤ 1 ∧ (s.agg.isSome = true → r.2.count idx = 1) := by
  intro r
  have h := views_no_loss_no_dup L views j i S
  obtain ⟨hnd, _, hloss, _⟩ := h
  obtain ⟨idx, s, hf1, hg, hin⟩ := hloss v1 h1 m1 c1
  have hk : streamKey i (v1.streamName j) = streamKey i (v2.streamName j) := by simp [streamKey, hn]
  refine ⟨idx, s, hf1, hk ▸ hf1, hg, ?_, ?_⟩
  · exact List.nodup_iff_count.mp hnd idx
  · intro ha
    have hle : List.count idx r.2 ≤ 1 := List.nodup_iff_count.mp hnd idx
    have hpos : 0 < List.count idx r.2 := List.count_pos_iff.mpr (hin ha)
    omega

/-- In every pipeline the model builds (`Sys.init`: one pipeline per reader, all instruments created in order),
each instrument's measure list is duplicate-free, so one measurement applies filter-then-aggregate to each of the
instrument's streams EXACTLY ONCE and touches no other stream — for every reader. -/
theorem every_measurement_reaches_each_stream_once (L : Nat) (tps : List Temporality) (views : List View)
    (insts : List Inst) (p : Pipe) (hp : p ∈ (Sys.init L tps views insts).pipes) (j : Nat) (a : CSet) (x : Int)
    (i : Nat) :
    (p.measure j a x).streams[i]? =
      if i ∈ (p.meas[j]?).getD [] then (p.streams[i]?).map (·.measure a x) else p.streams[i]? := by
  apply measure_reaches_each_stream_once
  simp only [Sys.init, List.mem_map] at hp
  obtain ⟨tp, _, rfl⟩ := hp
  have hall := create_meas_nodup L views insts { tp := tp } 0 (by simp)
  cases hm : (Pipe.create L views { tp := tp } insts 0).meas[j]? with
  | none => simp
  | some m => simpa using hall m (List.mem_of_getElem? hm)

/-- Streams are independent — the justification for judging concurrent measurements stream by stream (gate leg):
after any sequence of measurements on a pipeline, the state of stream `i` is the stream itself run over the
SUBSEQUENCE of the measurements whose instrument lists `i`, in their order; nothing else about the history matters.
Hence two histories that present the same measurements to stream `i` in the same order leave it in the same state,
whatever order they present them in to the other streams: if two concurrent measurements take effect in different
orders in different aggregate functions (each has its own lock), every stream still behaves as in SOME sequential
history, and the per-stream theorems above apply to it. -/
theorem stream_sees_only_its_own_measurements (p : Pipe) (hp : ∀ m ∈ p.meas, m.Nodup)
    (ops : List (Nat × CSet × Int)) (i : Nat) :
    (ops.foldl (fun p o => p.measure o.1 o.2.1 o.2.2) p).streams[i]? =
      (p.streams[i]?).map fun s =>
        (ops.filter fun o => decide (i ∈ (p.meas[o.1]?).getD [])).foldl (fun s o => s.measure o.2.1 o.2.2) s := by
  induction ops generalizing p with
  | nil => cases h : p.streams[i]? <;> simp [h]
  | cons o ops ih =>
    have hnd : ((p.meas[o.1]?).getD []).Nodup := by
      cases hm : p.meas[o.1]? with
      | none => simp
      | some m => simpa using hp m (List.mem_of_getElem? hm)
    have hmeas : (p.measure o.1 o.2.1 o.2.2).meas = p.meas := rfl
    simp only [List.foldl_cons]
    rw [ih (p.measure o.1 o.2.1 o.2.2) (by rw [hmeas]; exact hp), hmeas,
      measure_reaches_each_stream_once p o.1 o.2.1 o.2.2 hnd i]
    by_cases hi : i ∈ (p.meas[o.1]?).getD []
    · simp only [hi, if_true, List.filter_cons, decide_true, List.foldl_cons]
      cases p.streams[i]? <;> simp
    · simp only [hi, if_false, List.filter_cons, decide_false]
      rfl

/-- … in particular: histories that agree on the subsequence seen by stream `i` agree on stream `i`. -/
theorem per_stream_linearisation_sound (p : Pipe) (hp : ∀ m ∈ p.meas, m.Nodup)
    (ops ops' : List (Nat × CSet × Int)) (i : Nat)
    (h : (ops.filter fun o => decide (i ∈ (p.meas[o.1]?).getD [])) =
         (ops'.filter fun o => decide (i ∈ (p.meas[o.1]?).getD []))) :
    (ops.foldl (fun p o => p.measure o.1 o.2.1 o.2.2) p).streams[i]? =
    (ops'.foldl (fun p o => p.measure o.1 o.2.1 o.2.2) p).streams[i]? := by
  rw [stream_sees_only_its_own_measurements p hp ops i, stream_sees_only_its_own_measurements p hp ops' i, h]

/-- A view only ever affects instruments it matches on EVERY given criterion — name (exact or wildcard), description,
kind, unit and instrumentation scope (name, version, schema URL), in the exact-name and in the wildcard branch of
`NewView` alike:
(1) `matches` holds iff the view is valid and every given criterion holds; in particular a scope criterion that
    differs from the instrument's meter makes the view not match, whatever the name pattern;
(2) resolving an instrument against `views` is resolving it against the views that match it — all others are
    irrelevant (they cannot drop it, rename it, filter its attributes or change its aggregation);
(3) hence an instrument that no view matches gets exactly what it gets without any view: the default stream under
    its own name, with NO attribute filter and the reader's default aggregation (`mkAgg L i none`) when that stream
    is new. -/
theorem view_only_affects_matching_instruments (L : Nat) (views : List View) (j : Nat) (i : Inst) (S : List StreamSt) :
    (∀ v : View, v.matches j i = true ↔
      (v.valid = true ∧ v.pat.matches j = true ∧ critOK v.desc i.desc = true ∧ v.kindOK i = true ∧
       critOK v.unit i.unit = true ∧ critOK v.scopeName (scopeAttrs i.scope).1 = true ∧
       critOK v.scopeVersion (scopeAttrs i.scope).2.1 = true ∧
       critOK v.scopeSchema (scopeAttrs i.scope).2.2 = true)) ∧
    (∀ v : View, ∀ n, v.scopeName = some n → n ≠ (scopeAttrs i.scope).1 → v.matches j i = false) ∧
    insertInstrument L views j i S = insertInstrument L (views.filter fun v => v.matches j i) j i S ∧
    ((∀ v ∈ views, v.matches j i = false) →
      insertInstrument L views j i S = insertInstrument L [] j i S ∧
      (findKey S (streamKey i (Name.inst j)) = none →
        (insertInstrument L views j i S).1 =
          S ++ [{ key := streamKey i (Name.inst j), name := Name.inst j, float := i.float, filter := none,
                  agg := mkAgg L i none }])) := by
  refine ⟨?_, ?_, insertInstrument_filter L views j i S, ?_⟩
  · intro v
    simp only [View.matches, View.scopeOK, Bool.and_eq_true]
    constructor
    · rintro ⟨⟨⟨⟨⟨h1, h2⟩, h3⟩, h4⟩, h5⟩, ⟨h6, h7⟩, h8⟩
      exact ⟨h1, h2, h3, h4, h5, h6, h7, h8⟩
    · rintro ⟨h1, h2, h3, h4, h5, h6, h7, h8⟩
      exact ⟨⟨⟨⟨⟨h1, h2⟩, h3⟩, h4⟩, h5⟩, ⟨h6, h7⟩, h8⟩
  · intro v n hn hne
    have : critOK v.scopeName (scopeAttrs i.scope).1 = false := by simp [critOK, hn, hne]
    simp [View.matches, View.scopeOK, this]
  · intro hno
    have hf : (views.filter fun v => v.matches j i) = [] := by
      apply List.filter_eq_nil_iff.mpr
      intro v hv; simp [hno v hv]
    have heq : insertInstrument L views j i S = insertInstrument L [] j i S := by
      rw [insertInstrument_filter, hf]
    refine ⟨heq, ?_⟩
    intro hnew
    rw [heq]
    simp [insertInstrument, resolveViews, cachedAggregator, incompatible, hnew]
    split <;> rfl

/-- A reader's collection is stream-wise: every stream of the pipeline is collected independently by
`StreamSt.collect` (the step the stream theorems above are about), and the collection's metrics are exactly the
non-empty reports of the streams that have an aggregate function, in creation order, under the first-seen name. -/
theorem collection_is_per_stream (tp : Temporality) (t : Nat) (ss : List StreamSt) :
    (collectStreams tp t ss).1 = (ss.map fun s => (s.collect tp t).1) ∧
    (collectStreams tp t ss).2 =
      ss.filterMap fun s =>
        match s.agg with
        | none => none
        | some g => if (s.collect tp t).2.isEmpty then none
                    else some { scope := s.scope, name := s.name, float := s.float, dt := g.dt, pts := (s.collect tp t).2 } :=
  ⟨collectStreams_states tp t ss, collectStreams_metrics tp t ss⟩

/-! ## non-vacuity: concrete, non-trivial instances -/

/-- L = 3, arrivals 5 7 9 7 11: the first two distinct sets keep their identity, 9 and 11 overflow (id 0) -/
example : ((Agg.sum { limit := 3 }).runSteps .delta
      [.meas 5 1, .meas 7 2, .meas 9 4, .meas 7 8, .meas 11 16, .col 1, .meas 11 32, .col 2]).2 =
    [[(5, .num 1), (7, .num 10), (0, .num 20)], [(11, .num 32)]] := by decide

example : refKeys 3 [(5, 1), (7, 2), (9, 4), (7, 8), (11, 16)] = [5, 7, 0] := by decide
example : (Agg.sum { limit := 3 }).keys = [] ∧ 1 ≤ (Agg.sum { limit := 3 }).limit := by decide
example : windows true [] [.meas 5 1, .col 1, .meas 7 2, .col 2] = [[(5, 1)], [(7, 2)]] := by decide
example : windows false [] [.meas 5 1, .col 1, .meas 7 2, .col 2] = [[(5, 1)], [(5, 1), (7, 2)]] := by decide
example : conserved (Agg.sum { limit := 3 }) [(5, 1), (7, 2), (9, 4), (7, 8), (11, 16)]
    [(5, .num 1), (7, .num 10), (0, .num 20)] = true := by decide
example : perKeyOK (Agg.sum { limit := 3 }) 3 [(5, 1), (7, 2), (9, 4), (7, 8), (11, 16)]
    [(5, .num 1), (7, .num 10), (0, .num 20)] = true := by decide
/-- a user-supplied overflow set first, L = 2: it takes the only identity slot, everything else joins it -/
example : ((Agg.sum { limit := 2 }).runSteps .cumulative [.meas 0 1, .meas 7 2, .meas 0 4, .col 1]).2 =
    [[(0, .num 7)]] := by decide
example : code ovfSet = 0 ∧ code [(1, 2)] ≠ code [(1, 3)] := by decide
/-- filter keeping key 1 only: {a=0,b=0} and {a=0,b=1} become the same set and are added together -/
example : (({ key := (.inst 0, .counter, false, 0, 0, 0), name := .inst 0, float := false,
              filter := some { deny := false, keys := [1] }, agg := some (.sum {}) } : StreamSt).runSteps .delta
      [.meas [(1, 2), (2, 2)] 1, .meas [(1, 2), (2, 3)] 2, .meas [(1, 3)] 4, .col 1]).2 =
    [[(code [(1, 2)], .num 3), (code [(1, 3)], .num 4)]] := by decide
/-- two views producing the identical stream and one Drop view renamed elsewhere: one measure function -/
example : (insertInstrument 0
      [{ pat := .exact 0, kind := none, rename := none, filter := none, agg := none },
       { pat := .star, kind := none, rename := none, filter := some { deny := false, keys := [1] }, agg := none },
       { pat := .exact 0, kind := none, rename := some (1, false), filter := none, agg := some .drop }]
      0 { float := false, kind := .counter } []).2 = [0] := by decide


/-! ### non-vacuity of the extension theorems -/

/-- gauge, L = 2, delta: set 5 keeps its identity and reports its LAST value 9; 7 and 8 overflow, last one wins -/
example : ((Agg.lv { limit := 2 }).runSteps .delta [.meas 5 1, .meas 7 2, .meas 5 9, .meas 8 4, .col 1]).2 =
    [[(5, .num 9), (0, .num 4)]] := by decide
example : refPoints (Agg.lv { limit := 2 }) 2 [(5, 1), (7, 2), (5, 9), (8, 4)] = [(5, .num 9), (0, .num 4)] := by
  decide
example : (Agg.lv { limit := 2 }).isLast = true ∧ (Agg.plv { limit := 2 }).resets .cumulative = true := by decide
/-- histogram with boundaries [0, 10], L = 2: per key count / sum / buckets, and bucket totals [1,1,2] conserved -/
example : ((Agg.hist { limit := 2, bounds := [0, 10] }).runSteps .delta
      [.meas 5 (-1), .meas 7 3, .meas 5 50, .meas 8 70, .col 1]).2 =
    [[(5, .hist 2 49 [1, 0, 1]), (0, .hist 2 73 [0, 1, 1])]] := by decide
example : bucketsConserved (Agg.hist { limit := 2, bounds := [0, 10] }) [(5, -1), (7, 3), (5, 50), (8, 70)]
    [(5, .hist 2 49 [1, 0, 1]), (0, .hist 2 73 [0, 1, 1])] = true := by decide
/-- precomputed sum, delta, L = 2: cycle 1 observes 5↦10, 7↦3; cycle 2 observes 7↦4, 5↦12 (now 7 is kept and 5
overflows): reported 7 ↦ 4 − 0 (7 was reported under the overflow set before), overflow ↦ 12 − 3 -/
example : ((Agg.psum { limit := 2 }).runSteps .delta
      [.meas 5 10, .meas 7 3, .col 1, .meas 7 4, .meas 5 12, .col 2]).2 =
    [[(5, .num 10), (0, .num 3)], [(7, .num 4), (0, .num 9)]] := by decide
example : windowsPrev [] [] [.meas 5 10, .meas 7 3, .col 1, .meas 7 4, .meas 5 12, .col 2] =
    [([], [(5, 10), (7, 3)]), ([(5, 10), (7, 3)], [(7, 4), (5, 12)])] := by decide
example : refPointsDelta 2 [(5, 10), (7, 3)] [(7, 4), (5, 12)] = [(7, .num 4), (0, .num 9)] ∧
    psumDeltaConserved 2 [(5, 10), (7, 3)] [(7, 4), (5, 12)] [(7, .num 4), (0, .num 9)] = true := by decide
/-- views renaming to "r0" and "R0": one cache entry, one measure function, the measurement is recorded once -/
example :
    let sys := Sys.run 0 [.delta] [{ pat := .exact 0, kind := none, rename := some (0, false), filter := none, agg := none },
                                   { pat := .exact 0, kind := none, rename := some (0, true), filter := none, agg := none }]
      [{ float := false, kind := .counter }] [.meas 0 [(1, 2)] 5, .col 0]
    (sys.pipes.map (·.meas)) = [[[0]]] ∧
    sys.recs.map (fun rc => rc.2.map (·.pts)) = [[[(code [(1, 2)], .num 5)]]] := by decide


/-- two streams (default name and renamed "r0") of one counter: stream 1 sees the same two measurements in either
global order of two further operations on ANOTHER instrument, and is left in the same state -/
example :
    let p := (Sys.init 2 [.delta]
      [{ pat := .exact 0, kind := none, rename := none, filter := none, agg := none },
       { pat := .exact 0, kind := none, rename := some (0, false), filter := none, agg := none }]
      [{ float := false, kind := .counter }, { float := false, kind := .counter }]).pipes
    p.map (·.meas) = [[[0, 1], [2]]] ∧
    (p.map fun q => ((([(0, [(1, 2)], 1), (1, [(1, 3)], 2), (0, [(1, 4)], 4)] : List (Nat × CSet × Int)).foldl
        (fun q o => q.measure o.1 o.2.1 o.2.2) q).streams[1]?).map (·.agg.map (·.keys))) =
    (p.map fun q => ((([(1, [(1, 3)], 2), (0, [(1, 2)], 1), (0, [(1, 4)], 4)] : List (Nat × CSet × Int)).foldl
        (fun q o => q.measure o.1 o.2.1 o.2.2) q).streams[1]?).map (·.agg.map (·.keys))) := by decide


/-- a scoped wildcard Drop view ("*" with scope name "lib2"): it matches the instrument of meter 3 (lib2) and not
the instrument of the same name of meter 1 (lib1), which keeps its default stream -/
example :
    let v : View := { pat := .star, kind := none, rename := none, filter := none, agg := some .drop,
                      scopeName := some 3 }
    v.matches 0 { float := false, kind := .counter, scope := 3, name := some 0 } = true ∧
    v.matches 0 { float := false, kind := .counter, scope := 1, name := some 0 } = false ∧
    ((Sys.init 0 [.delta] [v] [{ float := false, kind := .counter, scope := 3, name := some 0 },
                               { float := false, kind := .counter, scope := 1, name := some 0 }]).pipes.map (·.meas))
      = [[[], [1]]] := by decide

end Otel.C12
