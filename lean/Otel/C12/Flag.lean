/-
C12 — the cardinality-limit feature flag, for ALL values of the environment variable (core Lean only).

`x.CardinalityLimit.Lookup()` (sdk/metric/internal/x/x.go:24-66): the raw value of `OTEL_GO_X_CARDINALITY_LIMIT`;
unset or EMPTY ⇒ `(0, false)`; otherwise `strconv.Atoi`: an error ⇒ `(0, false)`, else `(n, true)`.
`cachedAggregator` (pipeline.go:384) stores the first component as `Builder.AggregationLimit`, every `Builder.*`
hands it to `newLimiter` (limit.go:25), and `limiter.Attributes` applies it only when it is `> 0` (limit.go:34).

`atoi` is the CONTRACT of `strconv.Atoi` for a 64-bit `int` (Go standard library — modelled, not verified; tied by
the `flag` lines of the differential harness): an optional single sign, one or more ASCII digits and nothing else
(no blanks, no underscores, no base prefix, no other digit scripts), value within the int64 range.
-/
namespace Otel.C12.Flag

def isDigit (b : UInt8) : Bool := 48 ≤ b && b ≤ 57

/-- value of a digit string, most significant digit first -/
def digitsVal (acc : Nat) : List UInt8 → Nat
  | [] => acc
  | b :: r => digitsVal (acc * 10 + (b.toNat - 48)) r

/-- unsigned part: non-empty, digits only -/
def magnitude (s : List UInt8) : Option Nat :=
  if s.isEmpty || !s.all isDigit then none else some (digitsVal 0 s)

/-- `strconv.Atoi` (64-bit): `some n` iff no error -/
def atoi (s : List UInt8) : Option Int :=
  match s with
  | [] => none
  | b :: r =>
    if b = 45 then                                   -- '-'
      match magnitude r with
      | some m => if m ≤ 2 ^ 63 then some (-(m : Int)) else none
      | none => none
    else
      match magnitude (if b = 43 then r else s) with -- '+'
      | some m => if m < 2 ^ 63 then some (m : Int) else none
      | none => none

/-- `Feature.Lookup`; `none` = the variable is not set -/
def lookup (env : Option (List UInt8)) : Int × Bool :=
  match env with
  | none => (0, false)
  | some v =>
    if v.isEmpty then (0, false)
    else
      match atoi v with
      | some n => (n, true)
      | none => (0, false)

/-- the limit the limiter applies: `aggLimit > 0`, else none (0) -/
def effectiveLimit (env : Option (List UInt8)) : Nat := (lookup env).1.toNat

/-! ## specification -/

/-- a positive decimal numeral: optional `+`, digits only, value `n ≥ 1` within int64 -/
def denotesPositive (s : List UInt8) (n : Nat) : Prop :=
  1 ≤ n ∧ n < 2 ^ 63 ∧
  ∃ ds : List UInt8, (s = ds ∨ s = 43 :: ds) ∧ ds ≠ [] ∧ (∀ b ∈ ds, isDigit b = true) ∧ digitsVal 0 ds = n

end Otel.C12.Flag
