/-
C06 — the Shutdown call that won `stopped.Swap` returns: invariants about `pollKill`, the caller that performs the
shutdown, and the position of Shutdown's synchronous request, then a staged construction of a finite run of SYSTEM
steps only (poll goroutine's exit, exportSync, the holder of inputMu, Shutdown itself, the return of the user
exporter's Shutdown) from any reachable state in which a Shutdown is in progress to the state in which it has
returned. Fairness hypotheses (explicit): H1 exportSync is scheduled, H2 every Export call of the user exporter
returns, H3 the holder of inputMu is scheduled, H4 the poll goroutine is scheduled after `close(pollKill)`,
H5 the user exporter's Shutdown returns, H6 the Shutdown caller itself is scheduled.
-/
import Otel.C06.Mutex
namespace Otel.C06

variable {cap batch buf : Nat}

structure InvL (s : St) : Prop where
  killed : (s.sd ≠ .none ∧ s.sd ≠ .swapped) → s.killed = true
  main : (s.sd ≠ .none ∧ s.sd ≠ .done) → ∃ k, hasC k .main s.sds = true
  sync : s.sd = .waitResp →
    (∃ l, Req.recs l true ∈ s.input) ∨ (s.curSync = true ∧ (s.eph = .have ∨ s.eph = .busy))

theorem InvL_mono (s s' : St) (h : InvL s) (hsd : s'.sd = s.sd) (hk : s'.killed = s.killed) (hsds : s'.sds = s.sds)
    (hcs : s'.curSync = s.curSync) (he : s'.eph = s.eph) (hin : ∃ t, s'.input = s.input ++ t) : InvL s' := by
  obtain ⟨t, ht⟩ := hin
  refine ⟨by rw [hsd, hk]; exact h.killed, by rw [hsd, hsds]; exact h.main, ?_⟩
  rw [hsd, hcs, he, ht]
  intro e
  rcases h.sync e with ⟨l, hl⟩ | hr
  · exact Or.inl ⟨l, List.mem_append_left _ hl⟩
  · exact Or.inr hr

theorem deq_term (s s' : St) (n : Nat) (b : Bool) (hd : deq s n = some (s', b)) :
    s'.sd = s.sd ∧ s'.killed = s.killed ∧ s'.sds = s.sds ∧ s'.curSync = s.curSync ∧ s'.eph = s.eph ∧
      ∃ t, s'.input = s.input ++ t := by
  rcases deq_some s s' n b hd with h1 | ⟨_, _, h1⟩ | ⟨_, _, h1⟩ <;> subst h1
  · exact ⟨rfl, rfl, rfl, rfl, rfl, [], (List.append_nil _).symm⟩
  · exact ⟨rfl, rfl, rfl, rfl, rfl, [], (List.append_nil _).symm⟩
  · exact ⟨rfl, rfl, rfl, rfl, rfl, [_], rfl⟩

theorem pollWork_term (s s' : St) (hp : pollWork s = some s') :
    s'.sd = s.sd ∧ s'.killed = s.killed ∧ s'.sds = s.sds ∧ s'.curSync = s.curSync ∧ s'.eph = s.eph ∧
      ∃ t, s'.input = s.input ++ t := by
  obtain ⟨s2, t, h2, rfl⟩ := pollWork_some s s' hp
  rcases h2 with rfl | ⟨b, hd⟩
  · exact ⟨rfl, rfl, rfl, rfl, rfl, [], (List.append_nil _).symm⟩
  · have := deq_term _ _ _ _ hd
    exact ⟨this.1, this.2.1, this.2.2.1, this.2.2.2.1, this.2.2.2.2.1, this.2.2.2.2.2⟩

theorem hasC_cons (k : Nat) (p : CPhase) (c : SD) (sds : List SD) (h : hasC k p sds = true) : hasC k p (c :: sds) = true := by
  simp only [hasC, List.any_cons, Bool.or_eq_true] at h ⊢
  exact Or.inr h

theorem hasC_map (k : Nat) (p : CPhase) (c : SD → Prop) [DecidablePred c] (g : SD → SD) (sds : List SD)
    (h : hasC k p sds = true) (hc : ∀ x, c x → x.ph ≠ p) :
    hasC k p (sds.map fun x => if c x then g x else x) = true := by
  simp only [hasC, List.any_eq_true, decide_eq_true_eq] at h ⊢
  obtain ⟨x, hx, hk, hp⟩ := h
  refine ⟨x, List.mem_map.mpr ⟨x, hx, ?_⟩, hk, hp⟩
  have : ¬ c x := fun hcx => hc x hcx hp
  simp [this]

theorem hasC_setC_to (k : Nat) (a b : CPhase) (sds : List SD) (h : hasC k a sds = true) : hasC k b (setC k a b sds) = true := by
  simp only [hasC, List.any_eq_true, decide_eq_true_eq] at h
  obtain ⟨x, hx, hk, hp⟩ := h
  simp only [hasC, setC, List.any_eq_true, decide_eq_true_eq]
  exact ⟨{ x with ph := b }, List.mem_map.mpr ⟨x, hx, by simp [hk, hp]⟩, hk, rfl⟩

theorem stepL (s s' : St) (l : Lbl) (h : InvL s) (_h0 : InvA0 s) (hC : InvC s) (hs : step s l = some s') : InvL s' := by
  cases l <;> simp only [step] at hs
  case pTick =>
    split at hs
    · have := pollWork_term _ _ hs
      exact InvL_mono s s' h this.1 this.2.1 this.2.2.1 this.2.2.2.1 this.2.2.2.2.1 this.2.2.2.2.2
    · simp at hs
  case pTrig =>
    split at hs
    · have := pollWork_term { s with trigger := false } _ hs
      exact InvL_mono s s' h this.1 this.2.1 this.2.2.1 this.2.2.2.1 this.2.2.2.2.1 this.2.2.2.2.2
    · simp at hs
  case ffDequeue fid =>
    split at hs
    · split at hs
      · rename_i s2 hd
        simp only [Option.some.injEq] at hs; subst hs
        have := deq_term _ _ _ _ hd
        exact InvL_mono s _ h this.1 this.2.1 this.2.2.1 this.2.2.2.1 this.2.2.2.2.1 this.2.2.2.2.2
      · simp at hs
    · simp at hs
  case ffSend fid =>
    split at hs
    · simp only [Option.some.injEq] at hs; subst hs
      exact InvL_mono s _ h rfl rfl rfl rfl rfl ⟨[_], rfl⟩
    · simp at hs
  case eRecv =>
    split at hs
    · rename_i hidle
      split at hs
      · simp at hs
      · rename_i fid rest hin
        simp only [Option.some.injEq] at hs; subst hs
        refine ⟨h.killed, h.main, fun e => ?_⟩
        rcases h.sync e with ⟨l, hl⟩ | hr
        · rw [hin] at hl
          simp only [List.mem_cons] at hl
          rcases hl with hl | hl
          · cases hl
          · exact Or.inl ⟨l, hl⟩
        · rcases hr.2 with x | x <;> rw [hidle] at x <;> cases x
      · rename_i rl sync rest hin
        simp only [Option.some.injEq] at hs; subst hs
        refine ⟨h.killed, h.main, fun e => ?_⟩
        rcases h.sync e with ⟨l, hl⟩ | hr
        · rw [hin] at hl
          simp only [List.mem_cons] at hl
          rcases hl with hl | hl
          · simp only [Req.recs.injEq] at hl
            exact Or.inr ⟨hl.2.symm, Or.inl rfl⟩
          · exact Or.inl ⟨l, hl⟩
        · rcases hr.2 with x | x <;> rw [hidle] at x <;> cases x
    · simp at hs
  case eStart =>
    split at hs
    · rename_i hh
      simp only [Option.some.injEq] at hs; subst hs
      refine ⟨h.killed, h.main, fun e => ?_⟩
      rcases h.sync e with hl | hr
      · exact Or.inl hl
      · exact Or.inr ⟨hr.1, Or.inr rfl⟩
    · simp at hs
  case eEnd ok =>
    split at hs
    · rename_i hbusy
      split at hs
      · split at hs
        · rename_i hw
          simp only [Option.some.injEq] at hs; subst hs
          refine ⟨fun _ => h.killed ⟨by rw [hw.2]; simp, by rw [hw.2]; simp⟩,
            fun _ => h.main ⟨by rw [hw.2]; simp, by rw [hw.2]; simp⟩, by simp⟩
        · rename_i hnw
          simp only [Option.some.injEq] at hs; subst hs
          refine ⟨h.killed, h.main, fun e => ?_⟩
          rcases h.sync e with hl | hr
          · exact Or.inl hl
          · exact absurd ⟨hr.1, e⟩ hnw
      · simp only [Option.some.injEq] at hs; subst hs
        refine ⟨h.killed, h.main, fun e => ?_⟩
        rcases h.sync e with hl | hr
        · exact Or.inl hl
        · exact Or.inr ⟨hr.1, Or.inl rfl⟩
    · simp at hs
  case eExit =>
    split at hs
    · rename_i hpre
      simp only [Option.some.injEq] at hs; subst hs
      refine ⟨h.killed, h.main, fun e => ?_⟩
      rcases hC.closedPh hpre.2.2 with x | x | x <;> rw [e] at x <;> cases x
    · simp at hs
  case sdCall k =>
    split at hs
    · simp at hs
    · simp only [Option.some.injEq] at hs; subst hs
      exact ⟨h.killed, fun e => by obtain ⟨k', hk'⟩ := h.main e; exact ⟨k', hasC_cons _ _ _ _ hk'⟩, h.sync⟩
  case sdSwap k =>
    split at hs
    · rename_i hcalled
      split at hs
      · simp only [Option.some.injEq] at hs; subst hs
        refine ⟨h.killed, fun e => ?_, h.sync⟩
        obtain ⟨k', hk'⟩ := h.main e
        exact ⟨k', hasC_map k' .main _ _ s.sds hk' (fun x hx e' => by rw [hx.2] at e'; cases e')⟩
      · simp only [Option.some.injEq] at hs; subst hs
        exact ⟨by simp, fun _ => ⟨k, hasC_setC_to k .called .main s.sds hcalled⟩, by simp⟩
    · simp at hs
  case sdKill =>
    split at hs
    · rename_i hpre
      simp only [Option.some.injEq] at hs; subst hs
      exact ⟨fun _ => rfl, fun _ => h.main ⟨by rw [hpre]; simp, by rw [hpre]; simp⟩, by simp⟩
    · simp at hs
  case sdFlush =>
    split at hs
    · rename_i hpre
      simp only [Option.some.injEq] at hs; subst hs
      exact ⟨fun _ => h.killed ⟨by rw [hpre.1]; simp, by rw [hpre.1]; simp⟩,
        fun _ => h.main ⟨by rw [hpre.1]; simp, by rw [hpre.1]; simp⟩, by simp⟩
    · simp at hs
  case sdLock =>
    split at hs
    · rename_i hpre
      split at hs
      · simp only [Option.some.injEq] at hs; subst hs
        exact ⟨fun _ => h.killed ⟨by rw [hpre]; simp, by rw [hpre]; simp⟩,
          fun _ => h.main ⟨by rw [hpre]; simp, by rw [hpre]; simp⟩, by simp⟩
      · split at hs
        · simp only [Option.some.injEq] at hs; subst hs
          exact ⟨fun _ => h.killed ⟨by rw [hpre]; simp, by rw [hpre]; simp⟩,
            fun _ => h.main ⟨by rw [hpre]; simp, by rw [hpre]; simp⟩, by simp⟩
        · simp at hs
    · simp at hs
  case sdSend =>
    split at hs
    · rename_i hpre
      simp only [Option.some.injEq] at hs; subst hs
      exact ⟨fun _ => h.killed ⟨by rw [hpre.1]; simp, by rw [hpre.1]; simp⟩,
        fun _ => h.main ⟨by rw [hpre.1]; simp, by rw [hpre.1]; simp⟩,
        fun _ => Or.inl ⟨s.hold, by simp⟩⟩
    · simp at hs
  case sdBufStop =>
    split at hs
    · rename_i hpre
      simp only [Option.some.injEq] at hs; subst hs
      exact ⟨fun _ => h.killed ⟨by rw [hpre]; simp, by rw [hpre]; simp⟩,
        fun _ => h.main ⟨by rw [hpre]; simp, by rw [hpre]; simp⟩, by simp⟩
    · simp at hs
  case sdClose =>
    split at hs
    · rename_i hpre
      simp only [Option.some.injEq] at hs; subst hs
      exact ⟨fun _ => h.killed ⟨by rw [hpre.1]; simp, by rw [hpre.1]; simp⟩,
        fun _ => h.main ⟨by rw [hpre.1]; simp, by rw [hpre.1]; simp⟩, by simp⟩
    · simp at hs
  case sdExpShutdown =>
    split at hs
    · rename_i hpre
      simp only [Option.some.injEq] at hs; subst hs
      exact ⟨fun _ => h.killed ⟨by rw [hpre.1]; simp, by rw [hpre.1]; simp⟩,
        fun _ => h.main ⟨by rw [hpre.1]; simp, by rw [hpre.1]; simp⟩, by simp⟩
    · simp at hs
  case sdReturn k ok =>
    split at hs
    · rename_i hpre
      simp only [Option.some.injEq] at hs; subst hs
      exact ⟨fun _ => h.killed ⟨by rw [hpre.1]; simp, by rw [hpre.1]; simp⟩, by simp, by simp⟩
    · simp at hs
  all_goals (
    repeat' (split at hs)
    all_goals (try (simp at hs))
    all_goals (try subst hs)
    all_goals exact ⟨h.killed, h.main, h.sync⟩)

theorem invL_reachable (cap batch buf : Nat) (s : St) (h : Reachable cap batch buf s) : InvL s := by
  induction h with
  | init => exact ⟨by simp [init], by simp [init], by simp [init]⟩
  | step l hr hs ih =>
    have i := inv_reachable cap batch buf _ hr
    exact stepL _ _ l ih i.a0 i.c hs

/-! ### an overtaking dequeue needs a Shutdown -/

theorem deq_overtaken (s s' : St) (n : Nat) (b : Bool) (hd : deq s n = some (s', b)) (h0 : InvA0 s)
    (h : s.overtaken = true → s.stopped = true) : s'.overtaken = true → s'.stopped = true := by
  rcases deq_some s s' n b hd with h1 | ⟨_, _, h1⟩ | ⟨_, _, h1⟩ <;> subst h1
  · exact h
  · exact h
  · intro ho
    simp only [Bool.or_eq_true, Bool.not_eq_true', List.isEmpty_eq_false_iff] at ho
    rcases ho with ho | ho
    · exact h ho
    · cases hst : s.stopped with
      | true => rfl
      | false =>
        have hsd := h0.ns hst
        rcases h0.holdPh ho with e | e <;> rw [hsd] at e <;> cases e

theorem pollWork_overtaken (s s' : St) (hp : pollWork s = some s') (h0 : InvA0 s)
    (h : s.overtaken = true → s.stopped = true) : s'.overtaken = true → s'.stopped = true := by
  obtain ⟨s2, t, h2, rfl⟩ := pollWork_some s s' hp
  rcases h2 with rfl | ⟨b, hd⟩
  · exact h
  · have := deq_overtaken _ _ _ _ hd ⟨h0.idleRem, h0.holdPh, h0.ns⟩ h
    exact this

theorem stepO (s s' : St) (l : Lbl) (h : s.overtaken = true → s.stopped = true) (h0 : InvA0 s)
    (hs : step s l = some s') : s'.overtaken = true → s'.stopped = true := by
  cases l <;> simp only [step] at hs
  case pTick =>
    split at hs
    · exact pollWork_overtaken _ _ hs h0 h
    · simp at hs
  case pTrig =>
    split at hs
    · exact pollWork_overtaken { s with trigger := false } _ hs ⟨h0.idleRem, h0.holdPh, h0.ns⟩ h
    · simp at hs
  case ffDequeue fid =>
    split at hs
    · split at hs
      · rename_i s2 hd
        simp only [Option.some.injEq] at hs; subst hs
        have := deq_overtaken _ _ _ _ hd h0 h
        exact this
      · simp at hs
    · simp at hs
  case sdSwap k =>
    split at hs
    · split at hs
      · simp only [Option.some.injEq] at hs; subst hs; exact h
      · simp only [Option.some.injEq] at hs; subst hs; exact fun _ => rfl
    · simp at hs
  all_goals (
    repeat' (split at hs)
    all_goals (try (simp at hs))
    all_goals (try subst hs)
    all_goals exact h)

theorem overtaken_reachable (cap batch buf : Nat) (s : St) (h : Reachable cap batch buf s) :
    s.overtaken = true → s.stopped = true := by
  induction h with
  | init => simp [init]
  | step l hr hs ih => exact stepO _ _ l ih (inv_reachable cap batch buf _ hr).a0 hs

/-! ### the run -/

/-- system steps: poll goroutine's exit, exportSync, release by the holder of inputMu, Shutdown's own steps, the
return of the user exporter's Shutdown -/
def Sys (l : Lbl) : Prop :=
  isRel l ∨ l = .pKill ∨ l = .sdKill ∨ l = .sdFlush ∨ l = .sdLock ∨ l = .sdBufStop ∨ l = .sdClose ∨
    ∃ k ok, l = .sdReturn k ok

def rank : SPhase → Nat
  | .none => 0 | .swapped => 1 | .killed => 2 | .flushed => 3 | .locked => 4 | .waitResp => 5 | .gotResp => 6
  | .bufStopped => 7 | .closing => 8 | .shut => 9 | .done => 10

theorem run_append (s : St) (a b : List Lbl) (s1 : St) (h : run s a = some s1) : run s (a ++ b) = run s1 b := by
  induction a generalizing s with
  | nil => simp [run] at h; subst h; rfl
  | cons l a ih =>
    simp only [run, List.cons_append] at h ⊢
    cases hs2 : step s l with
    | none => simp [hs2] at h
    | some s2 =>
      simp only [hs2] at h ⊢
      exact ih s2 h

/-- a step of exportSync changes Shutdown's phase only by answering its synchronous request -/
theorem e_step_frame (s s' : St) (l : Lbl) (hs : step s l = some s') (hl : isE l) :
    s'.hold = s.hold ∧ s'.imu = s.imu ∧ s'.closed = s.closed ∧ s'.sds = s.sds ∧ s'.poll = s.poll ∧
    (s.sd ≠ .waitResp → s'.sd = s.sd) ∧ (s.sd = .waitResp → s'.sd = .waitResp ∨ s'.sd = .gotResp) := by
  rcases hl with rfl | rfl | ⟨ok, rfl⟩ <;> simp only [step] at hs
  · split at hs
    · split at hs
      · simp at hs
      · simp only [Option.some.injEq] at hs; subst hs
        exact ⟨rfl, rfl, rfl, rfl, rfl, fun _ => rfl, fun e => Or.inl e⟩
      · simp only [Option.some.injEq] at hs; subst hs
        exact ⟨rfl, rfl, rfl, rfl, rfl, fun _ => rfl, fun e => Or.inl e⟩
    · simp at hs
  · split at hs
    · simp only [Option.some.injEq] at hs; subst hs
      exact ⟨rfl, rfl, rfl, rfl, rfl, fun _ => rfl, fun e => Or.inl e⟩
    · simp at hs
  · split at hs
    · split at hs
      · split at hs
        · rename_i hw
          simp only [Option.some.injEq] at hs; subst hs
          exact ⟨rfl, rfl, rfl, rfl, rfl, fun e => absurd hw.2 e, fun _ => Or.inr rfl⟩
        · simp only [Option.some.injEq] at hs; subst hs
          exact ⟨rfl, rfl, rfl, rfl, rfl, fun _ => rfl, fun e => Or.inl e⟩
      · simp only [Option.some.injEq] at hs; subst hs
        exact ⟨rfl, rfl, rfl, rfl, rfl, fun _ => rfl, fun e => Or.inl e⟩
    · simp at hs

theorem e_run_frame (ls : List Lbl) : ∀ (s s' : St), run s ls = some s' → (∀ l ∈ ls, isE l) → s.sd ≠ .waitResp →
    s'.sd = s.sd ∧ s'.hold = s.hold ∧ s'.imu = s.imu ∧ s'.closed = s.closed ∧ s'.sds = s.sds := by
  induction ls with
  | nil => intro s s' h _ _; simp [run] at h; subst h; exact ⟨rfl, rfl, rfl, rfl, rfl⟩
  | cons l ls ih =>
    intro s s' h hl hw
    simp only [run] at h
    split at h
    · rename_i s1 hs1
      have f := e_step_frame s s1 l hs1 (hl l (by simp))
      have hsd1 := f.2.2.2.2.2.1 hw
      have := ih s1 s' h (fun x hx => hl x (by simp [hx])) (by rw [hsd1]; exact hw)
      exact ⟨this.1.trans hsd1, this.2.1.trans f.1, this.2.2.1.trans f.2.1, this.2.2.2.1.trans f.2.2.1,
        this.2.2.2.2.trans f.2.2.2.1⟩
    · simp at h

/-- a releasing step leaves Shutdown's phase alone unless it is Shutdown's own release -/
theorem rel_step_frame (s s' : St) (l : Lbl) (hs : step s l = some s') (hl : isRel l) (h1 : s.sd ≠ .locked)
    (h2 : s.sd ≠ .closing) (h3 : s.sd ≠ .waitResp) : s'.sd = s.sd ∧ s'.hold = s.hold := by
  rcases hl with he | rfl | ⟨fid, rfl⟩ | rfl | rfl
  · have f := e_step_frame s s' l hs he
    exact ⟨f.2.2.2.2.2.1 h3, f.1⟩
  all_goals (
    simp only [step] at hs
    split at hs
    · rename_i hpre
      first
        | (simp only [Option.some.injEq] at hs; subst hs; exact ⟨rfl, rfl⟩)
        | exact absurd hpre.1 h1
        | exact absurd hpre.1 h2
    · simp at hs)

theorem rel_run_frame (ls : List Lbl) : ∀ (s s' : St), run s ls = some s' → (∀ l ∈ ls, isRel l) → s.sd ≠ .locked →
    s.sd ≠ .closing → s.sd ≠ .waitResp → s'.sd = s.sd ∧ s'.hold = s.hold := by
  induction ls with
  | nil => intro s s' h _ _ _ _; simp [run] at h; subst h; exact ⟨rfl, rfl⟩
  | cons l ls ih =>
    intro s s' h hl h1 h2 h3
    simp only [run] at h
    split at h
    · rename_i s1 hs1
      have f := rel_step_frame s s1 l hs1 (hl l (by simp)) h1 h2 h3
      have := ih s1 s' h (fun x hx => hl x (by simp [hx])) (by rw [f.1]; exact h1) (by rw [f.1]; exact h2)
        (by rw [f.1]; exact h3)
      exact ⟨this.1.trans f.1, this.2.trans f.2⟩
    · simp at h

theorem drain_reach (s : St) (h : Reachable cap batch buf s) (hb : 1 ≤ batch) (hx : s.eph ≠ .exited) :
    ∃ ls s', (∀ l ∈ ls, isE l) ∧ run s ls = some s' ∧ Reachable cap batch buf s' ∧ s'.eph = .idle ∧ s'.input = [] := by
  have hc := reachable_cfg cap batch buf s h
  have hI := (inv_reachable cap batch buf s h).a0.idleRem
  obtain ⟨ls, s', h1, _, h3, h4, h5, _⟩ := drain (work s) s (Nat.le_refl _) (hc.2.1 ▸ hb) hx (fun he => hI (Or.inl he))
  exact ⟨ls, s', h1, h3, run_reachable s ls s' h h3, h4, h5⟩

theorem wait_resolves (n : Nat) : ∀ s : St, Reachable cap batch buf s → 1 ≤ batch → work s ≤ n → s.sd = .waitResp →
    ∃ ls s', (∀ l ∈ ls, isE l) ∧ run s ls = some s' ∧ s'.sd = .gotResp := by
  induction n with
  | zero =>
    intro s h hb hw hsd
    have hL := invL_reachable cap batch buf s h
    have hC := (inv_reachable cap batch buf s h).c
    have hx : s.eph ≠ .exited := by
      intro he
      rcases hC.closedPh (hC.exitedIn he).2 with x | x | x <;> rw [hsd] at x <;> cases x
    have hbusy : s.input ≠ [] ∨ s.eph ≠ .idle := by
      rcases hL.sync hsd with ⟨l, hl⟩ | hr
      · exact Or.inl (List.ne_nil_of_mem hl)
      · exact Or.inr (by rcases hr.2 with x | x <;> rw [x] <;> simp)
    obtain ⟨l, hn⟩ := eNext_of_busy s hx hbusy
    have hc := reachable_cfg cap batch buf s h
    have hI := (inv_reachable cap batch buf s h).a0.idleRem
    obtain ⟨_, s', _, hlt, _⟩ := eNext_progress s l (hc.2.1 ▸ hb) (fun he => hI (Or.inl he)) hn
    omega
  | succ n ih =>
    intro s h hb hw hsd
    have hL := invL_reachable cap batch buf s h
    have hC := (inv_reachable cap batch buf s h).c
    have hx : s.eph ≠ .exited := by
      intro he
      rcases hC.closedPh (hC.exitedIn he).2 with x | x | x <;> rw [hsd] at x <;> cases x
    have hbusy : s.input ≠ [] ∨ s.eph ≠ .idle := by
      rcases hL.sync hsd with ⟨l, hl⟩ | hr
      · exact Or.inl (List.ne_nil_of_mem hl)
      · exact Or.inr (by rcases hr.2 with x | x <;> rw [x] <;> simp)
    obtain ⟨l, hn⟩ := eNext_of_busy s hx hbusy
    have hc := reachable_cfg cap batch buf s h
    have hI := (inv_reachable cap batch buf s h).a0.idleRem
    obtain ⟨hl, s', hs, hlt, _⟩ := eNext_progress s l (hc.2.1 ▸ hb) (fun he => hI (Or.inl he)) hn
    rcases (e_step_frame s s' l hs hl).2.2.2.2.2.2 hsd with hw' | hg
    · obtain ⟨ls, s'', h1, h2, h3⟩ := ih s' (Reachable.step l h hs) hb (by omega) hw'
      refine ⟨l :: ls, s'', ?_, by simp [run, hs, h2], h3⟩
      intro x hx'
      simp only [List.mem_cons] at hx'
      rcases hx' with rfl | hx'
      · exact hl
      · exact h1 x hx'
    · exact ⟨[l], s', by simpa using hl, by simp [run, hs], hg⟩

theorem sys_of_rel (ls : List Lbl) (h : ∀ l ∈ ls, isRel l) : ∀ l ∈ ls, Sys l := fun l hl => Or.inl (h l hl)
theorem sys_of_e (ls : List Lbl) (h : ∀ l ∈ ls, isE l) : ∀ l ∈ ls, Sys l := fun l hl => Or.inl (Or.inl (h l hl))

theorem sys_snoc (ls : List Lbl) (l : Lbl) (h : ∀ x ∈ ls, Sys x) (hl : Sys l) : ∀ x ∈ ls ++ [l], Sys x := by
  intro x hx
  simp only [List.mem_append, List.mem_singleton] at hx
  rcases hx with hx | rfl
  · exact h x hx
  · exact hl

/-- one stage: from a state in which the Shutdown is in progress, system steps reach a later phase -/
theorem stage (s : St) (h : Reachable cap batch buf s) (hb : 1 ≤ batch) (hbuf : 1 ≤ buf) (h0 : s.sd ≠ .none)
    (h10 : s.sd ≠ .done) :
    ∃ ls s', (∀ l ∈ ls, Sys l) ∧ run s ls = some s' ∧ rank s.sd < rank s'.sd := by
  have hH := invH_reachable cap batch buf s h
  have hK := invK_reachable cap batch buf s h
  have hL := invL_reachable cap batch buf s h
  have hC := (inv_reachable cap batch buf s h).c
  cases hsd : s.sd with
  | none => exact absurd hsd h0
  | done => exact absurd hsd h10
  | swapped =>
    refine ⟨[.sdKill], { s with sd := .killed, killed := true }, ?_, ?_, by simp [rank]⟩
    · intro l hl; simp at hl; subst hl; exact Or.inr (Or.inr (Or.inl rfl))
    · simp only [run, step, hsd, if_true]
  | killed =>
    have hk : s.killed = true := hL.killed ⟨by rw [hsd]; simp, by rw [hsd]; simp⟩
    cases hp : s.poll with
    | idle =>
      refine ⟨[.pKill, .sdFlush], { s with poll := .exited, sd := .flushed, hold := s.q, q := [] }, ?_, ?_, by simp [rank]⟩
      · intro l hl
        simp only [List.mem_cons, List.not_mem_nil, or_false] at hl
        rcases hl with rfl | rfl
        · exact Or.inr (Or.inl rfl)
        · exact Or.inr (Or.inr (Or.inr (Or.inl rfl)))
      · simp only [run, step, hp, hk, hsd, and_self, if_true]
    | exited =>
      refine ⟨[.sdFlush], { s with sd := .flushed, hold := s.q, q := [] }, ?_, ?_, by simp [rank]⟩
      · intro l hl; simp at hl; subst hl; exact Or.inr (Or.inr (Or.inr (Or.inl rfl)))
      · simp only [run, step, hp, hsd, and_self, if_true]
  | flushed =>
    by_cases hh : s.hold = []
    · refine ⟨[.sdLock], { s with sd := .gotResp }, ?_, ?_, by simp [rank]⟩
      · intro l hl; simp at hl; subst hl; exact Or.inr (Or.inr (Or.inr (Or.inr (Or.inl rfl))))
      · simp only [run, step, hsd, hh, if_true]
    · by_cases hm : s.imu = none
      · refine ⟨[.sdLock], { s with sd := .locked, imu := some .sdExp }, ?_, ?_, by simp [rank]⟩
        · intro l hl; simp at hl; subst hl; exact Or.inr (Or.inr (Or.inr (Or.inr (Or.inl rfl))))
        · simp only [run, step, hsd, hh, hm, if_true, if_false]
      · obtain ⟨ls, s1, h1, h2, h3, _⟩ := mutex_released (work s) s h hb hbuf (Nat.le_refl _) hm
        have f := rel_run_frame ls s s1 h2 h1 (by rw [hsd]; simp) (by rw [hsd]; simp) (by rw [hsd]; simp)
        have hsd1 : s1.sd = .flushed := f.1.trans hsd
        have hh1 : ¬ s1.hold = [] := by rw [f.2]; exact hh
        refine ⟨ls ++ [.sdLock], { s1 with sd := .locked, imu := some .sdExp },
          sys_snoc ls _ (sys_of_rel ls h1) (Or.inr (Or.inr (Or.inr (Or.inr (Or.inl rfl))))), ?_, by simp [rank]⟩
        rw [run_append s ls _ s1 h2]
        simp only [run, step, hsd1, hh1, h3, if_true, if_false]
  | locked =>
    have himu := hH.sdLocked hsd
    have hx : s.eph ≠ .exited := not_exited_of s hC hH (by rw [himu]; simp) (by rw [himu]; simp)
    obtain ⟨ls, s1, h1, h2, hr1, _, hin⟩ := drain_reach s h hb hx
    have f := e_run_frame ls s s1 h2 h1 (by rw [hsd]; simp)
    have hsd1 : s1.sd = .locked := f.1.trans hsd
    have hbuf1 : s1.input.length < s1.buf := by
      rw [hin, (reachable_cfg cap batch buf s1 hr1).2.2]; simp; omega
    refine ⟨ls ++ [.sdSend], { s1 with sd := .waitResp, input := s1.input ++ [.recs s1.hold true], hold := [], imu := none },
      sys_snoc ls _ (sys_of_e ls h1) (Or.inl (Or.inr (Or.inr (Or.inr (Or.inl rfl))))), ?_, by simp [rank]⟩
    rw [run_append s ls _ s1 h2]
    simp only [run, step, hsd1, hbuf1, and_self, if_true]
  | waitResp =>
    obtain ⟨ls, s1, h1, h2, h3⟩ := wait_resolves (work s) s h hb (Nat.le_refl _) hsd
    exact ⟨ls, s1, sys_of_e ls h1, h2, by rw [h3]; simp [rank]⟩
  | gotResp =>
    refine ⟨[.sdBufStop], { s with sd := .bufStopped, bufStopped := true }, ?_, ?_, by simp [rank]⟩
    · intro l hl; simp at hl; subst hl; exact Or.inr (Or.inr (Or.inr (Or.inr (Or.inr (Or.inl rfl)))))
    · simp only [run, step, hsd, if_true]
  | bufStopped =>
    by_cases hm : s.imu = none
    · refine ⟨[.sdClose], { s with sd := .closing, closed := true, imu := some .sdClose }, ?_, ?_, by simp [rank]⟩
      · intro l hl; simp at hl; subst hl; exact Or.inr (Or.inr (Or.inr (Or.inr (Or.inr (Or.inr (Or.inl rfl))))))
      · simp only [run, step, hsd, hm, and_self, if_true]
    · obtain ⟨ls, s1, h1, h2, h3, _⟩ := mutex_released (work s) s h hb hbuf (Nat.le_refl _) hm
      have f := rel_run_frame ls s s1 h2 h1 (by rw [hsd]; simp) (by rw [hsd]; simp) (by rw [hsd]; simp)
      have hsd1 : s1.sd = .bufStopped := f.1.trans hsd
      refine ⟨ls ++ [.sdClose], { s1 with sd := .closing, closed := true, imu := some .sdClose },
        sys_snoc ls _ (sys_of_rel ls h1) (Or.inr (Or.inr (Or.inr (Or.inr (Or.inr (Or.inr (Or.inl rfl))))))), ?_, by simp [rank]⟩
      rw [run_append s ls _ s1 h2]
      simp only [run, step, hsd1, h3, and_self, if_true]
  | closing =>
    have himu := hH.sdClosing hsd
    have hcl := (hK.close himu).2
    by_cases hx : s.eph = .exited
    · refine ⟨[.sdExpShutdown], { s with sd := .shut, imu := none, expShut := true }, ?_, ?_, by simp [rank]⟩
      · intro l hl; simp at hl; subst hl; exact Or.inl (Or.inr (Or.inr (Or.inr (Or.inr rfl))))
      · simp only [run, step, hsd, hx, and_self, if_true]
    · obtain ⟨ls, s1, h1, h2, _, hid, hin⟩ := drain_reach s h hb hx
      have f := e_run_frame ls s s1 h2 h1 (by rw [hsd]; simp)
      have hsd1 : s1.sd = .closing := f.1.trans hsd
      have hcl1 : s1.closed = true := f.2.2.2.1.trans hcl
      refine ⟨ls ++ [.eExit, .sdExpShutdown], { s1 with eph := .exited, sd := .shut, imu := none, expShut := true }, ?_, ?_,
        by simp [rank]⟩
      · intro x hx'
        simp only [List.mem_append, List.mem_cons, List.not_mem_nil, or_false] at hx'
        rcases hx' with hx' | rfl | rfl
        · exact sys_of_e ls h1 x hx'
        · exact Or.inl (Or.inr (Or.inl rfl))
        · exact Or.inl (Or.inr (Or.inr (Or.inr (Or.inr rfl))))
      · rw [run_append s ls _ s1 h2]
        simp only [run, step, hid, hin, hcl1, hsd1, and_self, if_true]
  | shut =>
    obtain ⟨k, hk⟩ := hL.main ⟨by rw [hsd]; simp, by rw [hsd]; simp⟩
    have hstep : ∃ s', step s (.sdReturn k true) = some s' ∧ s'.sd = .done := by
      simp only [step, hsd, hk, and_self, if_true]
      exact ⟨_, rfl, rfl⟩
    obtain ⟨s', hs', hd⟩ := hstep
    refine ⟨[.sdReturn k true], s', ?_, by simp [run, hs'], by rw [hd]; simp [rank]⟩
    intro l hl; simp at hl; subst hl
    exact Or.inr (Or.inr (Or.inr (Or.inr (Or.inr (Or.inr (Or.inr ⟨k, true, rfl⟩))))))

/-- the Shutdown that performs the shutdown returns: a finite run of system steps reaches `sd = done` -/
theorem shutdown_returns (n : Nat) : ∀ s : St, Reachable cap batch buf s → 1 ≤ batch → 1 ≤ buf → s.sd ≠ .none →
    10 - rank s.sd ≤ n → ∃ ls s', (∀ l ∈ ls, Sys l) ∧ run s ls = some s' ∧ s'.sd = .done := by
  induction n with
  | zero =>
    intro s _ _ _ _ hr
    have : s.sd = .done := by cases hsd : s.sd <;> simp [hsd, rank] at hr ⊢
    exact ⟨[], s, by simp, rfl, this⟩
  | succ n ih =>
    intro s h hb hbuf h0 hr
    by_cases hd : s.sd = .done
    · exact ⟨[], s, by simp, rfl, hd⟩
    · obtain ⟨ls, s1, h1, h2, h3⟩ := stage s h hb hbuf h0 hd
      have hr1 : Reachable cap batch buf s1 := run_reachable s ls s1 h h2
      have hne : s1.sd ≠ .none := by
        intro e; rw [e] at h3; simp [rank] at h3
      have hle : rank s1.sd ≤ 10 := by cases s1.sd <;> simp [rank]
      obtain ⟨ls2, s2, g1, g2, g3⟩ := ih s1 hr1 hb hbuf hne (by omega)
      refine ⟨ls ++ ls2, s2, ?_, by rw [run_append s ls ls2 s1 h2]; exact g2, g3⟩
      intro x hx
      simp only [List.mem_append] at hx
      rcases hx with hx | hx
      · exact h1 x hx
      · exact g1 x hx

end Otel.C06
