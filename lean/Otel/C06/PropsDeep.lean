/-
C06 — property theorems about the layers around the LTS core (session 3):
the pointer-level ring queue (ring.go / batch.go `queue`), the exporter wrapper chain chunk → timeout → user exporter
(exporter.go), the storage of `Record` and `Record.Clone` (record.go), and progress of the exportSync goroutine under
explicit fairness hypotheses. Helper lemmas are in Ring.lean, Chain.lean, RecHeap.lean, Live.lean.
-/
import Otel.C06.Ring
import Otel.C06.Chain
import Otel.C06.RecHeap
import Otel.C06.Live
import Otel.C06.Hold
import Otel.C06.Mutex
import Otel.C06.Term
import Otel.C06.TermFF
import Otel.C06.Props
namespace Otel.C06

/-! ## the ring queue -/

/-- refinement — for every capacity ≥ 1 and every sequence of `Enqueue` / `TryDequeue(buf of any length, callback
answering either way)` / `Flush` / `Len` / `Dropped` calls, the pointer-level queue of batch.go on the linked ring
of ring.go returns exactly what a bounded FIFO that overwrites its oldest element returns, its content (the `len`
nodes from `read`) is that FIFO's content, `dropped` counts the overwritten elements, and the representation
invariant (`read` < cap, `len` ≤ cap, `write` = `read` + `len` around the ring) holds afterwards. -/
theorem blrp_ring_refines_fifo (size : Nat) (hpos : 1 ≤ size) (ops : List Ring.Op) :
    (Ring.runQ (Ring.newQueue size) ops).2 = (Ring.runS { cap := size } ops).2 ∧
    Ring.abs (Ring.runQ (Ring.newQueue size) ops).1 = (Ring.runS { cap := size } ops).1 ∧
    Ring.WF (Ring.runQ (Ring.newQueue size) ops).1 := by
  have h := Ring.run_sim (Ring.newQueue size) ops (Ring.wf_new size hpos)
  have h0 : Ring.abs (Ring.newQueue size) = { cap := size } := by simp [Ring.abs, Ring.newQueue, Ring.vals]
  rw [h0] at h
  exact ⟨h.2.2, h.2.1, h.1⟩

/-- the FIFO specification is the queue of the LTS: the `enq` label of Model.lean changes `St.q` exactly as
`S.enqueue` does (append; when full drop the head and count), `deq` hands over `take n` and keeps `drop n`. -/
theorem blrp_ring_spec_is_lts_queue (s s' : St) (id : Nat) (hs : step s (.enq id) = some s') :
    s'.q = ((Ring.S.mk s.cap s.q s.dropCtr).enqueue id).1.l ∧
    s'.dropCtr = ((Ring.S.mk s.cap s.q s.dropCtr).enqueue id).1.dropped := by
  simp only [step] at hs
  split at hs
  · split at hs
    · rename_i hlt
      simp only [Option.some.injEq] at hs; subst hs
      simp [Ring.S.enqueue, hlt]
    · rename_i hnl
      split at hs
      · simp at hs
      · rename_i h t hq'
        simp only [Option.some.injEq] at hs; subst hs
        have hnl' : ¬ (t.length + 1 < s.cap) := by simpa [hq'] using hnl
        simp [Ring.S.enqueue, hq', hnl']
  · simp at hs

/-- non-vacuity: capacity 3; five records (two overwritten), a refused TryDequeue, an accepted one, a Flush -/
example : (Ring.runQ (Ring.newQueue 3) [.enq 1, .enq 2, .enq 3, .enq 4, .enq 5, .dropped, .deq 2 false, .deq 2 true,
      .enq 6, .len, .flush, .len]).2 =
    [.n 1, .n 2, .n 3, .n 3, .n 3, .n 2, .recs [3, 4] 3, .recs [3, 4] 1, .n 2, .n 2, .recs [5, 6] 0, .n 0] := by decide

/-! ## the exporter wrapper chain -/

/-- chunks — whatever the user exporter does on each call (`ok`, an error, or blocking until its context is done),
with a chunk size ≥ 1 the calls made by chunk → timeout → exporter are the chunks of `chunkExport`: their
concatenation is the request, in order; each is non-empty and no larger than the size; no result stops the loop;
the joined error is non-nil iff some call failed. Independent of the timeout and of the caller's context. -/
theorem blrp_chain_partition (size timeout : Nat) (hpos : 1 ≤ size) (c : Chain.Ctx) (now : Nat) (bs : List Chain.Beh)
    (l : List Nat) :
    ((Chain.chainExport size timeout c now bs l).1.map (·.chunk)).flatten = l ∧
    (∀ call ∈ (Chain.chainExport size timeout c now bs l).1, call.chunk.length ≤ size ∧ call.chunk ≠ []) ∧
    (Chain.failed (Chain.chainExport size timeout c now bs l).1 = true ↔
      ∃ i, i < (Chain.chainExport size timeout c now bs l).1.length ∧ bs.getD i .ok ≠ .ok) := by
  have hne : size ≠ 0 := by omega
  have hc := Chain.chunkLoop_chunks size timeout c l.length now bs l
  have hs := chunkExport_spec size hpos l.length (bs.map (· == .ok)) l (Nat.le_refl _)
  simp only [Chain.chainExport, hne, if_false]
  refine ⟨by rw [hc.1]; exact hs.1, ?_, ?_⟩
  · intro call hcall
    have : call.chunk ∈ (chunkExport size l.length (bs.map (· == .ok)) l).1 := by
      rw [← hc.1]; exact List.mem_map_of_mem hcall
    exact hs.2.1 _ this
  · rw [hc.2, hs.2.2]
    have hlen : (chunkExport size l.length (bs.map (· == .ok)) l).1.length =
        (Chain.chunkLoop size timeout c l.length now bs l).1.length := by
      rw [← hc.1, List.length_map]
    rw [hlen]
    constructor
    · rintro ⟨i, hi, hr⟩
      refine ⟨i, hi, ?_⟩
      intro hb
      by_cases hlt : i < bs.length
      · simp [List.getD_eq_getElem?_getD, hlt] at hr hb
        simp [hb] at hr
      · simp [List.getD_eq_getElem?_getD, List.getElem?_eq_none (by simpa using hlt)] at hr
    · rintro ⟨i, hi, hr⟩
      refine ⟨i, hi, ?_⟩
      by_cases hlt : i < bs.length
      · simp [List.getD_eq_getElem?_getD, hlt] at hr ⊢
        exact hr
      · simp [List.getD_eq_getElem?_getD, List.getElem?_eq_none (by simpa using hlt)] at hr

/-- each chunk gets its own timeout — with a timeout ≥ 1 and the never-done caller context of the asynchronous
exports (`context.Background()`): the context handed to the user exporter for a chunk has the deadline
`start of THAT call + timeout` and is not done at entry, however long the earlier calls took (even if they ran
into their own deadlines); a user exporter that honours its context makes `k` chunks return within `k * timeout`. -/
theorem blrp_chain_own_timeout (size timeout : Nat) (hpos : 1 ≤ size) (ht : 1 ≤ timeout) (now : Nat)
    (bs : List Chain.Beh) (l : List Nat) :
    (∀ call ∈ (Chain.chainExport size timeout {} now bs l).1,
      call.deadline = some (call.start + timeout) ∧ call.expired = false ∧ now ≤ call.start) ∧
    (Chain.chainExport size timeout {} now bs l).2 ≤
      now + (Chain.chainExport size timeout {} now bs l).1.length * timeout := by
  have hne : size ≠ 0 := by omega
  simp only [Chain.chainExport, hne, if_false]
  exact Chain.chunkLoop_fresh size timeout ht l.length now bs l

/-- constructor branches — `newChunkExporter(e, size ≤ 0)` returns `e`: one call with the whole request;
`newTimeoutExporter(e, timeout ≤ 0)` returns `e`: the user exporter sees the caller's deadline unchanged. -/
theorem blrp_chain_unwrapped (timeout : Nat) (c : Chain.Ctx) (now : Nat) (bs : List Chain.Beh) (l : List Nat) :
    (Chain.chainExport 0 timeout c now bs l).1.map (·.chunk) = [l] ∧
    ∀ size, ∀ call ∈ (Chain.chainExport size 0 c now bs l).1, call.deadline = c.deadline := by
  refine ⟨by simp [Chain.chainExport, Chain.oneCall], ?_⟩
  intro size
  by_cases hs : size = 0
  · simp [Chain.chainExport, hs, Chain.oneCall, Chain.withTimeout]
  · simp only [Chain.chainExport, hs, if_false]
    generalize l.length = fuel
    induction fuel generalizing now bs l with
    | zero => simp [Chain.chunkLoop]
    | succ fuel ih =>
      simp only [Chain.chunkLoop]
      split
      · simp
      · intro call hc
        simp only [List.mem_cons] at hc
        rcases hc with rfl | hc
        · simp [Chain.oneCall, Chain.withTimeout]
        · exact ih _ _ _ call hc

/-- the order of the wrappers — what `NewBatchProcessor` composes (timeout around the user exporter, the chunker around
that, the buffer outermost; `Chain.bpChain`, combinators mirroring the three `Export` methods) makes exactly the
calls of `chainExport` (the function the other chain theorems are about) and returns at the same time; the other
order (one `WithTimeout` around the whole chunk loop, `Chain.swappedChain`) does NOT: with a user exporter that blocks
on the first chunk until its deadline, the second chunk is handed an already expired context. Tied to the code by
the `chain bp…` lines (chain taken out of a real BatchProcessor) and the listing `blrp-ctor-chain`. -/
theorem blrp_wrapper_order (size t : Nat) (hpos : 1 ≤ size) (c : Chain.Ctx) (now : Nat) (bs : List Chain.Beh)
    (l : List Nat) :
    (Chain.bpChain size t c now bs l).1 = (Chain.chainExport size t c now bs l).1 ∧
    (Chain.bpChain size t c now bs l).2.1 = (Chain.chainExport size t c now bs l).2 ∧
    ((Chain.swappedChain 2 10 {} 0 [.wait, .ok] [1, 2, 3, 4]).1.map (·.expired) = [false, true] ∧
     (Chain.chainExport 2 10 {} 0 [.wait, .ok] [1, 2, 3, 4]).1.map (·.expired) = [false, false]) := by
  have hne : size ≠ 0 := by omega
  have h := Chain.chunkVia_bp size t c l.length now bs l
  refine ⟨?_, ?_, by decide⟩
  · simp only [Chain.bpChain, Chain.chainExport, hne, if_false]; exact h.1
  · simp only [Chain.bpChain, Chain.chainExport, hne, if_false]; exact h.2

/-- non-vacuity: 5 records, size 2, timeout 10, the first call blocks until its deadline, the second fails: three
calls, the later ones start at 10 with deadline 20 and are not expired -/
example : Chain.chainExport 2 10 {} 0 [.wait, .err, .ok] [1, 2, 3, 4, 5] =
    ([⟨[1, 2], 0, some 10, false, .deadline⟩, ⟨[3, 4], 10, some 20, false, .err⟩, ⟨[5], 10, some 20, false, .ok⟩], 10) := by
  decide

/-! ## Record storage and Clone -/

/-- `Record.Clone` — in any world in which every handle points at an allocated array (every world reachable from
the empty one: `Rec.run_valid`), the clone shows the same body and attributes as the original and owns its `back`
array: no other handle points into it (whatever capacity the runtime gives the new array). -/
theorem rec_clone_owns_storage (w : Rec.W) (i cap : Nat) (hv : Rec.Valid w) :
    Rec.Iso (Rec.prim w (.clone i cap)) w.hs.length ∧
    Rec.view (Rec.prim w (.clone i cap)).heap (Rec.getH (Rec.prim w (.clone i cap)) w.hs.length) =
      Rec.view w.heap (Rec.getH w i) :=
  Rec.fresh_iso w i cap w.hidden w.exported hv

/-- L7 — exported records are unaffected by later changes to the caller's record. Start from the empty world with any
attribute table, run ANY script `pre` (records created, cloned, struct-copied, bodies and attributes set / added /
overwritten in place, table cells rewritten, earlier emits), emit handle `i` (`OnEmit`: `Enqueue(r.Clone())`), then run
ANY script `post` that does not write through the queued handle itself (the caller does not have it): what the
queued / exported handle shows is exactly what the caller's record showed at the moment of the emit — for every growth
policy of `append` (`capNew` arguments), including in-place overwrites of attributes beyond the five inline ones and
appends into spare capacity of shared arrays. -/
theorem rec_exported_immutable (tbl : List Rec.KV) (pre post : List Rec.Op) (i : Nat)
    (hpost : ∀ op ∈ post, Rec.subject op ≠ some (Rec.run { tbl := tbl } pre).hs.length) :
    let w0 := Rec.run { tbl := tbl } pre
    let w1 := Rec.run (Rec.prim w0 (.emit i)) post
    Rec.view w1.heap (Rec.getH w1 w0.hs.length) = Rec.view w0.heap (Rec.getH w0 i) := by
  intro w0 w1
  have hv : Rec.Valid w0 := Rec.run_valid _ pre (by intro j hj; simp at hj)
  obtain ⟨hiso, hview⟩ := Rec.fresh_iso w0 i 0 (w0.hidden ++ [w0.hs.length]) w0.exported hv
  have := Rec.run_iso (Rec.prim w0 (.emit i)) w0.hs.length post hiso hpost
  rw [this.2]
  exact hview

/-- the model sees the seeded change "Clone clips instead of cloning" (and "OnEmit enqueues `*r`"): a record with
seven attributes, a clipped / struct copy, then an in-place overwrite of attribute #6 through the original changes
what the copy shows — while a real clone is unaffected. -/
theorem rec_shared_storage_witness :
    let tbl : List Rec.KV := [(0, 0), (1, 1), (2, 2), (3, 3), (4, 4), (5, 5), (6, 6)]
    let base := Rec.run { tbl := tbl } [.mk 9, .set 0 0 7 2]
    let viaClip := Rec.run base [.clip 0, .add1 0 5 500 0]
    let viaCopy := Rec.run base [.copy 0, .add1 0 5 500 0]
    let viaClone := Rec.run base [.clone 0 2, .add1 0 5 500 0]
    Rec.view base.heap (Rec.getH base 0) = (9, tbl) ∧
    Rec.view viaClip.heap (Rec.getH viaClip 1) ≠ (9, tbl) ∧
    Rec.view viaCopy.heap (Rec.getH viaCopy 1) ≠ (9, tbl) ∧
    Rec.view viaClone.heap (Rec.getH viaClone 1) = (9, tbl) := by
  decide

/-! ## bufferExporter: the stopped / inputMu / done protocol -/

/-- holders of `inputMu` — in every reachable state: a ForceFlush blocked in `enqueue` (phase `locked`) is the holder
of `inputMu`, so there is at most one; while Shutdown's synchronous `Export` waits for room it is the holder; from
`close(input)` until the exportSync goroutine is done `bufferExporter.Shutdown` is the holder; afterwards nobody is. -/
theorem blrp_inputmu_holder {cap batch buf : Nat} (s : St) (h : Reachable cap batch buf s) :
    (∀ f ∈ s.ffs, f.ph = .locked → s.imu = some (.ff f.fid)) ∧ (s.sd = .locked → s.imu = some .sdExp) ∧
    (s.sd = .closing → s.imu = some .sdClose) ∧ ((s.sd = .shut ∨ s.sd = .done) → s.imu = none) ∧
    -- and conversely: whoever is the holder is at the corresponding program point
    (∀ fid, s.imu = some (.ff fid) → hasPh fid .locked s.ffs = true) ∧ (s.imu = some .sdExp → s.sd = .locked) ∧
    (s.imu = some .sdClose → s.sd = .closing ∧ s.closed = true) :=
  let i := invH_reachable cap batch buf s h
  let k := invK_reachable cap batch buf s h
  ⟨i.lockedHolds, i.sdLocked, i.sdClosing, i.late, k.ff, k.exp, k.close⟩

/-- no send on a closed channel, no double close — once `close(input)` has happened no step of any goroutine sends
on `input` (the poll loop's and ForceFlush's `EnqueueExport`, ForceFlush's marker, Shutdown's synchronous request):
the buffer only shrinks; and `close(input)` itself is only taken while the channel is open. In Go both would be
panics ("send on closed channel", "close of closed channel"); this is what the `stopped` check under `inputMu`
is for. -/
theorem blrp_no_send_on_closed_input {cap batch buf : Nat} (s s' : St) (l : Lbl) (h : Reachable cap batch buf s)
    (hs : step s l = some s') :
    (s.closed = true → l ≠ .eRecv → s'.input = s.input) ∧ (l = .sdClose → s.closed = false) := by
  have hH := invH_reachable cap batch buf s h
  have hC := (inv_reachable cap batch buf s h).c
  refine ⟨fun hc hl => closed_input s s' l hH hC hs hc hl, ?_⟩
  rintro rfl
  simp only [step] at hs
  split at hs
  · rename_i hpre
    cases hcl : s.closed with
    | false => rfl
    | true => rcases hC.closedPh hcl with e | e | e <;> rw [hpre.1] at e <;> simp at e
  · simp at hs

/-- `inputMu` is never held for ever (deadlock freedom of the only lock that is held across blocking operations) —
in every reachable state (batch, buffer size ≥ 1) in which somebody holds `inputMu` — a ForceFlush whose marker waits
for room in the full buffer, Shutdown's synchronous Export waiting for room, bufferExporter.Shutdown waiting for the
exportSync goroutine — at most `work s + 2` steps of exportSync (`eRecv` / `eStart` / `eEnd` / `eExit`: hypotheses H1,
H2) and the holder's own next step (`ffSend` / `sdSend` / `sdExpShutdown`: the holder is scheduled) release it; no step
of any other goroutine is needed, and by `blrp_exportsync_not_disabled` none can prevent it. -/
theorem blrp_inputmu_released {cap batch buf : Nat} (s : St) (h : Reachable cap batch buf s) (hb : 1 ≤ batch)
    (hbuf : 1 ≤ buf) (hm : s.imu ≠ none) :
    ∃ ls s', (∀ l ∈ ls, isRel l) ∧ ls.length ≤ work s + 2 ∧ run s ls = some s' ∧ Reachable cap batch buf s' ∧
      s'.imu = none := by
  obtain ⟨ls, s', h1, h2, h3, h4⟩ := mutex_released (work s) s h hb hbuf (Nat.le_refl _) hm
  exact ⟨ls, s', h1, h4, h2, run_reachable s ls s' h h2, h3⟩

/-- non-vacuity: a ForceFlush's marker blocked on the full buffer holds `inputMu`; Shutdown's Export has to wait -/
example : ∃ s, run (init 4 1 1) [.accept 1, .enq 1, .pTrig, .eRecv, .eStart, .accept 2, .enq 2, .pTrig,
      .ffCall 1, .ffCheck 1, .ffDequeue 1, .ffLock 1] = some s ∧ s.imu = some (.ff 1) ∧ s.input.length = 1 := by
  refine ⟨_, rfl, ?_⟩
  decide

/-- Shutdown returns — from every reachable state (batch, buffer size ≥ 1) in which a Shutdown call has won
`stopped.Swap` and not yet returned, a finite run of SYSTEM steps only reaches the state in which it has returned
(`sd = done`): the poll goroutine's exit after `close(pollKill)` (H4), steps of exportSync including the returns of
the user exporter's Export (H1, H2), the release of inputMu by a ForceFlush that holds it (H3), Shutdown's own steps
(H6: kill, wait for pollDone, Flush, enqueue the synchronous request — which is then in the buffer or in progress
until it is answered —, wait for the answer, stop and close the buffer, wait for `done`) and the return of the user
exporter's Shutdown (H5). No step of an emitter, of another ForceFlush / Shutdown caller or of the ticker is needed;
by `blrp_exportsync_not_disabled` none of them disables exportSync. So under weak fairness for these goroutines the
Shutdown call returns: no deadlock. (Shutdown's own context expiring is not modelled: that only makes it return
earlier, with an error.) -/
theorem blrp_shutdown_returns {cap batch buf : Nat} (s : St) (h : Reachable cap batch buf s) (hb : 1 ≤ batch)
    (hbuf : 1 ≤ buf) (hsd : s.sd ≠ .none) :
    ∃ ls s', (∀ l ∈ ls, Sys l) ∧ run s ls = some s' ∧ Reachable cap batch buf s' ∧ s'.sd = .done := by
  obtain ⟨ls, s', h1, h2, h3⟩ := shutdown_returns (10 - rank s.sd) s h hb hbuf hsd (Nat.le_refl _)
  exact ⟨ls, s', h1, h2, run_reachable s ls s' h h2, h3⟩

/-- the invariants behind it: while a Shutdown is past `close(pollKill)` the channel is closed; while it is in
progress a caller in phase `main` exists (the one that will return); while it waits for the answer to its
synchronous request, that request is in the export buffer or is the one exportSync is working on. -/
theorem blrp_shutdown_request_position {cap batch buf : Nat} (s : St) (h : Reachable cap batch buf s) :
    ((s.sd ≠ .none ∧ s.sd ≠ .swapped) → s.killed = true) ∧
    ((s.sd ≠ .none ∧ s.sd ≠ .done) → ∃ k, hasC k .main s.sds = true) ∧
    (s.sd = .waitResp →
      (∃ l, Req.recs l true ∈ s.input) ∨ (s.curSync = true ∧ (s.eph = .have ∨ s.eph = .busy))) :=
  let i := invL_reachable cap batch buf s h
  ⟨i.killed, i.main, i.sync⟩

/-- ForceFlush returns — from every reachable state (batch, buffer size ≥ 1), for every ForceFlush call that has not
yet returned, a finite run of system steps (as in `blrp_shutdown_returns`) and of the call's own steps (H7: the caller
is scheduled; H8: the user exporter's ForceFlush returns) ends with that call returned: inputMu gets released, exportSync
makes room in the export buffer so that the call's `TryDequeue` hands its records over (or finds the buffer exporter
stopped), the marker gets room, is received and answered (`InvW`: while the call waits its marker is in the buffer; an
exited exportSync leaves nothing behind). In the constructed run the poll loop does not run between "room" and the
call's dequeue; on infinite runs with endless emits this needs strong fairness for the call's dequeue (weak fairness is
enough when emits are finite). -/
theorem blrp_forceflush_returns {cap batch buf : Nat} (s : St) (h : Reachable cap batch buf s) (hb : 1 ≤ batch)
    (hbuf : 1 ≤ buf) (f : FF) (hf : f ∈ s.ffs) :
    ∃ ls s', (∀ l ∈ ls, SysF f.fid l) ∧ run s ls = some s' ∧ Reachable cap batch buf s' ∧
      ∃ f' ∈ s'.ffs, f'.fid = f.fid ∧
        (f'.ph = .retOk ∨ f'.ph = .retEarly ∨ f'.ph = .retEarlyBuf ∨ f'.ph = .retErr) := by
  have hph : hasPh f.fid f.ph s.ffs = true := by
    simp only [hasPh, List.any_eq_true, decide_eq_true_eq]
    exact ⟨f, hf, rfl, rfl⟩
  obtain ⟨ls, s', p', h1, h2, h3, h4⟩ := forceflush_returns f.fid (6 - rankF f.ph) s f.ph h hb hbuf hph (Nat.le_refl _)
  obtain ⟨f', hf', hfid, hp⟩ := hasPh_exists f.fid p' s'.ffs h3
  refine ⟨ls, s', h1, h2, run_reachable s ls s' h h2, f', hf', hfid, ?_⟩
  rw [hp]
  cases p' <;> simp [rankF] at h4 ⊢

/-- non-vacuity: a Shutdown has won the swap while a ForceFlush holds inputMu with its marker blocked on the full
buffer behind a running export -/
example : ∃ s, run (init 4 1 1) [.accept 1, .enq 1, .pTrig, .eRecv, .eStart, .accept 2, .enq 2, .pTrig,
      .ffCall 1, .ffCheck 1, .ffDequeue 1, .ffLock 1, .sdCall 1, .sdSwap 1] = some s ∧ s.sd = .swapped ∧
      s.imu = some (.ff 1) ∧ s.eph = .busy ∧ rank s.sd = 1 := by
  refine ⟨_, rfl, ?_⟩
  decide

/-! ## the known-finding classifications are tight -/

/-- F22 is tight — if a ForceFlush has returned nil and a record whose Emit had returned before the call is neither
in the exporter's log nor overwritten-and-counted (or, in the oracle's vocabulary, `Spec.delivered` fails for its
`pre` set against the dropped counter), then that ForceFlush returned after a Shutdown had set `stopped`
(`F22_applies`); no other interleaving loses or delays a record at a nil ForceFlush return. -/
theorem blrp_forceflush_missing_implies_f22 {cap batch buf : Nat} (s : St) (h : Reachable cap batch buf s) (f : FF)
    (hf : f ∈ s.ffs) (hret : f.ph = .retOk ∨ f.ph = .retEarly ∨ f.ph = .retEarlyBuf) :
    ((∃ id ∈ f.pre, ¬ (id ∈ s.exported.flatten ∨ id ∈ s.droppedIds)) → F22_applies f = true) ∧
    (Spec.delivered f.pre s.exported (s.dropCtr + s.warned) = false → F22_applies f = true) := by
  constructor
  · intro ⟨id, hid, hmiss⟩
    cases hF : F22_applies f with
    | true => rfl
    | false => exact absurd ((blrp_delivers_partial s h f hf hret hF).1 id hid) hmiss
  · intro hnd
    cases hF : F22_applies f with
    | true => rfl
    | false =>
      have := (blrp_delivers_partial s h f hf hret hF).2
      rw [hnd] at this; cases this

/-- F22 only makes ForceFlush return EARLY, it loses nothing the Shutdown is responsible for — once the Shutdown that
performed the shutdown has returned nil, every record of the ForceFlush's `pre` set whose Emit had returned when
`stopped` was set has been exported or overwritten-and-counted, whichever way the ForceFlush returned. (The others —
Emits that overlapped the start of the Shutdown — are the subject of the assumption on linearization.) -/
theorem blrp_f22_only_early {cap batch buf : Nat} (s : St) (h : Reachable cap batch buf s) (hret : s.sdRetOk = true)
    (f : FF) (_hf : f ∈ s.ffs) : ∀ id ∈ f.pre, id ∈ s.sdPre → id ∈ s.exported.flatten ∨ id ∈ s.droppedIds :=
  fun id _ hp => (blrp_shutdown_delivers s h hret).1 id hp

/-- F37 is tight — if in some reachable state the exported order of some goroutine's records differs from its
emission order (for any assignment `gOf` of records to goroutines), then a dequeue has overtaken Shutdown's
Flush-then-Export pair (`F37_applies`: records were handed to the export buffer while Shutdown held the flushed
slice). No other interleaving reorders records. -/
theorem blrp_order_violation_implies_f37 {cap batch buf : Nat} (gOf : Nat → Nat) (s : St) (h : Reachable cap batch buf s)
    (hbad : Spec.fifoOK gOf s.enqd s.exported.flatten = false) : F37_applies s = true := by
  cases hF : F37_applies s with
  | true => rfl
  | false =>
    have := (blrp_fifo_partial gOf s h hF).2
    rw [hbad] at this; cases this

/-- F37 needs a Shutdown — as long as no Shutdown has set the `stopped` flag, nothing is overtaken: the order clause
holds unconditionally before the first Shutdown call (for every emitter / ForceFlush / poll interleaving). -/
theorem blrp_fifo_before_shutdown {cap batch buf : Nat} (gOf : Nat → Nat) (s : St) (h : Reachable cap batch buf s)
    (hns : s.stopped = false) : Spec.fifoOK gOf s.enqd s.exported.flatten = true := by
  have hno : F37_applies s = false := by
    cases ho : s.overtaken with
    | false => simp [F37_applies, ho]
    | true =>
      have := overtaken_reachable cap batch buf s h ho
      rw [hns] at this; cases this
  exact (blrp_fifo_partial gOf s h hno).2

/-! ## progress of exportSync under fairness -/

/-- variant — in every reachable state (batch size ≥ 1) in which exportSync has something to do (a request in the
buffer, a request in progress, a call in progress), its next step (`eRecv`, `eStart`, or the return `eEnd` of the
user exporter's call — hypothesis H2: the call returns) is enabled and strictly decreases `work`; it preserves the
order of the records in the export pipeline. -/
theorem blrp_exportsync_step_decreases {cap batch buf : Nat} (s : St) (h : Reachable cap batch buf s) (hb : 1 ≤ batch)
    (l : Lbl) (hn : eNext s = some l) :
    isE l ∧ ∃ s', step s l = some s' ∧ Reachable cap batch buf s' ∧ work s' < work s ∧ pipeline s' = pipeline s := by
  have hc := reachable_cfg cap batch buf s h
  have hI := (inv_reachable cap batch buf s h).a0.idleRem
  obtain ⟨h1, s', h2, h3, h4, _⟩ := eNext_progress s l (hc.2.1 ▸ hb) (fun he => hI (Or.inl he)) hn
  exact ⟨h1, s', h2, Reachable.step l h h2, h3, h4⟩

/-- no interference — a step of any other goroutine (any label but exportSync's own) leaves exportSync's phase
unchanged and only appends to the export buffer, hence never disables exportSync's enabled step and never changes
which step that is while a request or call is in progress. (Weak fairness for exportSync is therefore enough.) -/
theorem blrp_exportsync_not_disabled (s s' : St) (l : Lbl) (hs : step s l = some s') (hl : ¬ isE l) (hne : l ≠ .eExit) :
    s'.eph = s.eph ∧ (∃ t, s'.input = s.input ++ t) ∧ ((eNext s).isSome → (eNext s').isSome) := by
  have h1 := other_step_keeps_phase s s' l hs hl hne
  have h2 := other_step_input s s' l hs (fun e => hl (Or.inl e))
  refine ⟨h1, h2, ?_⟩
  obtain ⟨t, ht⟩ := h2
  unfold eNext
  rw [h1, ht]
  cases s.eph <;> simp
  intro hin h
  exact absurd h hin

/-- liveness of the export buffer — from every reachable state (batch size ≥ 1, exportSync not yet exited) the steps
of exportSync alone, at most `work s` of them, lead to a (reachable) state in which the buffer is empty, exportSync is
idle and everything that was in the pipeline has been handed to the user exporter, in order. Under H1 (exportSync is
scheduled) and H2 (Export calls return) every buffered request — in particular Shutdown's synchronous flush and
every ForceFlush marker — is therefore served: no deadlock inside the exporter chain. -/
theorem blrp_exportsync_drains {cap batch buf : Nat} (s : St) (h : Reachable cap batch buf s) (hb : 1 ≤ batch)
    (hx : s.eph ≠ .exited) :
    ∃ ls s', (∀ l ∈ ls, isE l) ∧ ls.length ≤ work s ∧ run s ls = some s' ∧ Reachable cap batch buf s' ∧
      s'.eph = .idle ∧ s'.input = [] ∧ s'.exported.flatten = pipeline s := by
  have hc := reachable_cfg cap batch buf s h
  have hI := (inv_reachable cap batch buf s h).a0.idleRem
  obtain ⟨ls, s', h1, h2, h3, h4, h5, h6⟩ :=
    drain (work s) s (Nat.le_refl _) (hc.2.1 ▸ hb) hx (fun he => hI (Or.inl he))
  exact ⟨ls, s', h1, h2, h3, run_reachable s ls s' h h3, h4, h5, h6⟩

/-- non-vacuity: two buffered requests (3 records with batch 2, then 1 record) and a ForceFlush marker -/
example : ∃ s, run (init 8 2 3) [.accept 1, .enq 1, .accept 2, .enq 2, .accept 3, .enq 3, .ffCall 1, .ffCheck 1,
      .ffDequeue 1, .accept 4, .enq 4, .pTick, .ffLock 1, .ffSend 1] = some s ∧ work s = 15 ∧ eNext s = some .eRecv ∧
      pipeline s = [1, 2, 3, 4] := by
  refine ⟨_, rfl, ?_⟩
  decide

end Otel.C06
