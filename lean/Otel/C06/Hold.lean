/-
C06 — who holds `bufferExporter.inputMu` (sdk/log/exporter.go): an invariant of the LTS and its consequence
"nothing is ever sent on the closed `input` channel" (in Go: a panic). `enqueue` / `EnqueueExport` check `stopped`
under `inputMu`; `Shutdown` sets `stopped`, then takes `inputMu`, closes `input` and keeps the mutex until the
exportSync goroutine is done.
-/
import Otel.C06.Lemmas4
namespace Otel.C06

structure InvH (s : St) : Prop where
  lockedHolds : ∀ f ∈ s.ffs, f.ph = .locked → s.imu = some (.ff f.fid)
  sdLocked : s.sd = .locked → s.imu = some .sdExp
  sdClosing : s.sd = .closing → s.imu = some .sdClose
  late : (s.sd = .shut ∨ s.sd = .done) → s.imu = none

theorem InvH_congr (s s' : St) (h : InvH s) (hf : s'.ffs = s.ffs) (hi : s'.imu = s.imu) (hsd : s'.sd = s.sd) : InvH s' :=
  ⟨by rw [hf, hi]; exact h.lockedHolds, by rw [hsd, hi]; exact h.sdLocked, by rw [hsd, hi]; exact h.sdClosing,
   by rw [hsd, hi]; exact h.late⟩

theorem deq_hold (s s' : St) (n : Nat) (b : Bool) (hd : deq s n = some (s', b)) :
    s'.ffs = s.ffs ∧ s'.imu = s.imu ∧ s'.sd = s.sd ∧ s'.closed = s.closed := by
  rcases deq_some s s' n b hd with h1 | ⟨_, _, h1⟩ | ⟨_, _, h1⟩ <;> subst h1 <;> exact ⟨rfl, rfl, rfl, rfl⟩

theorem pollWork_hold (s s' : St) (hp : pollWork s = some s') :
    s'.ffs = s.ffs ∧ s'.imu = s.imu ∧ s'.sd = s.sd ∧ s'.closed = s.closed := by
  obtain ⟨s2, t, h2, rfl⟩ := pollWork_some s s' hp
  rcases h2 with rfl | ⟨b, hd⟩
  · exact ⟨rfl, rfl, rfl, rfl⟩
  · have := deq_hold _ _ _ _ hd
    exact ⟨this.1, this.2.1, this.2.2.1, this.2.2.2⟩

/-- a phase update that never produces `locked` keeps "every locked ForceFlush holds the mutex" -/
theorem locked_upd (c : FF → Prop) [DecidablePred c] (g : FF → FF) (_hg : ∀ f, (g f).fid = f.fid)
    (hn : ∀ f, c f → (g f).ph ≠ .locked) (ffs : List FF) (imu : Option Holder)
    (h : ∀ f ∈ ffs, f.ph = .locked → imu = some (.ff f.fid)) :
    ∀ f' ∈ ffs.map (fun f => if c f then g f else f), f'.ph = .locked → imu = some (.ff f'.fid) := by
  intro f' hf' hph
  obtain ⟨f, hf, rfl⟩ := mem_upd c g ffs f' hf'
  by_cases hc : c f
  · simp only [hc, if_true] at hph
    exact absurd hph (hn f hc)
  · simp only [hc, if_false] at hph ⊢
    exact h f hf hph

theorem locked_setPh (fid : Nat) (a b : FPhase) (hb : b ≠ .locked) (ffs : List FF) (imu : Option Holder)
    (h : ∀ f ∈ ffs, f.ph = .locked → imu = some (.ff f.fid)) :
    ∀ f' ∈ setPh fid a b ffs, f'.ph = .locked → imu = some (.ff f'.fid) :=
  locked_upd (fun f => f.fid = fid ∧ f.ph = a) (fun f => { f with ph := b }) (fun _ => rfl) (fun _ _ => hb) ffs imu h

theorem locked_setRet (fid : Nat) (a b : FPhase) (seen : Bool) (hb : b ≠ .locked) (ffs : List FF) (imu : Option Holder)
    (h : ∀ f ∈ ffs, f.ph = .locked → imu = some (.ff f.fid)) :
    ∀ f' ∈ setRet fid a b seen ffs, f'.ph = .locked → imu = some (.ff f'.fid) :=
  locked_upd (fun f => f.fid = fid ∧ f.ph = a) (fun f => { f with ph := b, sdSeen := seen }) (fun _ => rfl)
    (fun _ _ => hb) ffs imu h

/-- releasing: the only locked entries are those of `fid`; after their phase change nobody is locked -/
theorem locked_release (fid : Nat) (to : FPhase) (hto : to ≠ .locked) (ffs : List FF)
    (h : ∀ f ∈ ffs, f.ph = .locked → f.fid = fid) :
    ∀ f' ∈ setPh fid .locked to ffs, f'.ph ≠ .locked := by
  intro f' hf'
  obtain ⟨f, hf, rfl⟩ := mem_upd (fun f => f.fid = fid ∧ f.ph = .locked) (fun f => { f with ph := to }) ffs f' hf'
  by_cases hc : f.fid = fid ∧ f.ph = .locked
  · simp only [hc, and_self, if_true]; exact hto
  · simp only [hc, if_false]
    intro hph
    exact hc ⟨h f hf hph, hph⟩

theorem stepH (s s' : St) (l : Lbl) (h : InvH s) (hC : InvC s) (hs : step s l = some s') : InvH s' := by
  cases l <;> simp only [step] at hs
  case pTick =>
    split at hs
    · have := pollWork_hold _ _ hs; exact InvH_congr s s' h this.1 this.2.1 this.2.2.1
    · simp at hs
  case pTrig =>
    split at hs
    · have := pollWork_hold { s with trigger := false } _ hs; exact InvH_congr s s' h this.1 this.2.1 this.2.2.1
    · simp at hs
  case eRecv =>
    split at hs
    · split at hs
      · simp at hs
      · simp only [Option.some.injEq] at hs; subst hs
        exact ⟨locked_setPh _ _ _ (by simp) s.ffs s.imu h.lockedHolds, h.sdLocked, h.sdClosing, h.late⟩
      · simp only [Option.some.injEq] at hs; subst hs
        exact ⟨h.lockedHolds, h.sdLocked, h.sdClosing, h.late⟩
    · simp at hs
  case eEnd ok =>
    split at hs
    · split at hs
      · split at hs
        · rename_i hw
          simp only [Option.some.injEq] at hs; subst hs
          exact ⟨h.lockedHolds, by simp, by simp, by simp⟩
        · simp only [Option.some.injEq] at hs; subst hs
          exact ⟨h.lockedHolds, h.sdLocked, h.sdClosing, h.late⟩
      · simp only [Option.some.injEq] at hs; subst hs
        exact ⟨h.lockedHolds, h.sdLocked, h.sdClosing, h.late⟩
    · simp at hs
  case ffCall fid =>
    split at hs
    · simp at hs
    · simp only [Option.some.injEq] at hs; subst hs
      refine ⟨?_, h.sdLocked, h.sdClosing, h.late⟩
      intro f hf hph
      simp only [List.mem_cons] at hf
      rcases hf with rfl | hf
      · simp at hph
      · exact h.lockedHolds f hf hph
  case ffCheck fid =>
    split at hs
    · split at hs
      · simp only [Option.some.injEq] at hs; subst hs
        exact ⟨locked_setRet _ _ _ _ (by simp) s.ffs s.imu h.lockedHolds, h.sdLocked, h.sdClosing, h.late⟩
      · simp only [Option.some.injEq] at hs; subst hs
        exact ⟨locked_setPh _ _ _ (by simp) s.ffs s.imu h.lockedHolds, h.sdLocked, h.sdClosing, h.late⟩
    · simp at hs
  case ffDequeue fid =>
    split at hs
    · split at hs
      · rename_i s2 hd
        simp only [Option.some.injEq] at hs; subst hs
        have hh := deq_hold _ _ _ _ hd
        have h2 : InvH s2 := InvH_congr s s2 h hh.1 hh.2.1 hh.2.2.1
        exact ⟨locked_setPh _ _ _ (by simp) s2.ffs s2.imu h2.lockedHolds, h2.sdLocked, h2.sdClosing, h2.late⟩
      · simp at hs
    · simp at hs
  case ffLock fid =>
    split at hs
    · rename_i hpre
      split at hs
      · simp only [Option.some.injEq] at hs; subst hs
        exact ⟨locked_setRet _ _ _ _ (by simp) s.ffs s.imu h.lockedHolds, h.sdLocked, h.sdClosing, h.late⟩
      · rename_i hnb
        simp only [Option.some.injEq] at hs; subst hs
        have hnone : s.imu = none := hpre.2
        have hsdl : s.sd ≠ .locked := fun e => by have := h.sdLocked e; rw [hnone] at this; simp at this
        have hsdc : s.sd ≠ .closing := fun e => by have := h.sdClosing e; rw [hnone] at this; simp at this
        have hlate : ¬ (s.sd = .shut ∨ s.sd = .done) := by
          intro e
          have : s.bufStopped = true := hC.bufPh.mpr (by rcases e with e | e <;> simp [e])
          exact hnb this
        refine ⟨?_, fun e => absurd e hsdl, fun e => absurd e hsdc, fun e => absurd e hlate⟩
        intro f' hf' hph
        obtain ⟨f, hf, rfl⟩ := mem_upd (fun f => f.fid = fid ∧ f.ph = .dequeued) (fun f => { f with ph := .locked }) s.ffs f' hf'
        by_cases hc : f.fid = fid ∧ f.ph = .dequeued
        · simp only [hc, and_self, if_true]
        · simp only [hc, if_false] at hph ⊢
          have := h.lockedHolds f hf hph
          rw [hnone] at this; simp at this
    · simp at hs
  case ffSend fid =>
    split at hs
    · rename_i hpre
      simp only [Option.some.injEq] at hs; subst hs
      obtain ⟨f0, hf0, hfid0, hph0⟩ := hasPh_exists fid .locked s.ffs hpre.1
      have himu : s.imu = some (.ff fid) := by rw [← hfid0]; exact h.lockedHolds f0 hf0 hph0
      have hall : ∀ f ∈ s.ffs, f.ph = .locked → f.fid = fid := by
        intro f hf hph
        have := h.lockedHolds f hf hph
        rw [himu] at this
        simp only [Option.some.injEq, Holder.ff.injEq] at this
        exact this.symm
      have hrel := locked_release fid .waiting (by simp) s.ffs hall
      refine ⟨fun f' hf' hph => absurd hph (hrel f' hf'), ?_, ?_, ?_⟩
      · intro e; have := h.sdLocked e; rw [himu] at this; simp at this
      · intro e; have := h.sdClosing e; rw [himu] at this; simp at this
      · intro _; rfl
    · simp at hs
  case ffReturn fid ok =>
    split at hs
    · simp only [Option.some.injEq] at hs; subst hs
      exact ⟨locked_setRet _ _ _ _ (by cases ok <;> simp) s.ffs s.imu h.lockedHolds, h.sdLocked, h.sdClosing, h.late⟩
    · simp at hs
  case ffCancel fid =>
    split at hs
    · rename_i hpre
      simp only [Option.some.injEq] at hs; subst hs
      obtain ⟨f0, hf0, hfid0, hph0⟩ := hasPh_exists fid .locked s.ffs hpre
      have himu : s.imu = some (.ff fid) := by rw [← hfid0]; exact h.lockedHolds f0 hf0 hph0
      have hall : ∀ f ∈ s.ffs, f.ph = .locked → f.fid = fid := by
        intro f hf hph
        have := h.lockedHolds f hf hph
        rw [himu] at this
        simp only [Option.some.injEq, Holder.ff.injEq] at this
        exact this.symm
      have hrel := locked_release fid .retErr (by simp) s.ffs hall
      refine ⟨fun f' hf' hph => absurd hph (hrel f' hf'), ?_, ?_, ?_⟩
      · intro e; have := h.sdLocked e; rw [himu] at this; simp at this
      · intro e; have := h.sdClosing e; rw [himu] at this; simp at this
      · intro _; rfl
    · simp only [Option.some.injEq] at hs; subst hs
      exact ⟨locked_upd (fun f => f.fid = fid ∧ (f.ph = .called ∨ f.ph = .checked ∨ f.ph = .dequeued ∨ f.ph = .waiting ∨ f.ph = .responded))
        (fun f => { f with ph := .retErr }) (fun _ => rfl) (fun _ _ => by simp) s.ffs s.imu h.lockedHolds,
        h.sdLocked, h.sdClosing, h.late⟩
  case sdSwap k =>
    split at hs
    · split at hs
      · simp only [Option.some.injEq] at hs; subst hs
        exact ⟨h.lockedHolds, h.sdLocked, h.sdClosing, h.late⟩
      · simp only [Option.some.injEq] at hs; subst hs
        exact ⟨h.lockedHolds, by simp, by simp, by simp⟩
    · simp at hs
  case sdLock =>
    split at hs
    · rename_i hsd
      split at hs
      · simp only [Option.some.injEq] at hs; subst hs
        exact ⟨h.lockedHolds, by simp, by simp, by simp⟩
      · split at hs
        · rename_i hnone
          simp only [Option.some.injEq] at hs; subst hs
          refine ⟨?_, fun _ => rfl, by simp, by simp⟩
          intro f hf hph
          have := h.lockedHolds f hf hph
          rw [hnone] at this; simp at this
        · simp at hs
    · simp at hs
  case sdSend =>
    split at hs
    · rename_i hpre
      simp only [Option.some.injEq] at hs; subst hs
      have himu := h.sdLocked hpre.1
      refine ⟨?_, by simp, by simp, by simp⟩
      intro f hf hph
      have := h.lockedHolds f hf hph
      rw [himu] at this; simp at this
    · simp at hs
  case sdClose =>
    split at hs
    · rename_i hpre
      simp only [Option.some.injEq] at hs; subst hs
      refine ⟨?_, by simp, fun _ => rfl, by simp⟩
      intro f hf hph
      have := h.lockedHolds f hf hph
      rw [hpre.2] at this; simp at this
    · simp at hs
  case sdExpShutdown =>
    split at hs
    · rename_i hpre
      simp only [Option.some.injEq] at hs; subst hs
      have himu := h.sdClosing hpre.1
      refine ⟨?_, by simp, by simp, fun _ => rfl⟩
      intro f hf hph
      have := h.lockedHolds f hf hph
      rw [himu] at this; simp at this
    · simp at hs
  case sdReturn k ok =>
    split at hs
    · rename_i hpre
      simp only [Option.some.injEq] at hs; subst hs
      exact ⟨h.lockedHolds, by simp, by simp, fun _ => h.late (Or.inl hpre.1)⟩
    · simp at hs
  case sdKill =>
    split at hs
    · simp only [Option.some.injEq] at hs; subst hs
      exact ⟨h.lockedHolds, by simp, by simp, by simp⟩
    · simp at hs
  case sdFlush =>
    split at hs
    · simp only [Option.some.injEq] at hs; subst hs
      exact ⟨h.lockedHolds, by simp, by simp, by simp⟩
    · simp at hs
  case sdBufStop =>
    split at hs
    · simp only [Option.some.injEq] at hs; subst hs
      exact ⟨h.lockedHolds, by simp, by simp, by simp⟩
    · simp at hs
  all_goals (
    repeat' (split at hs)
    all_goals (try (simp at hs))
    all_goals (try subst hs)
    all_goals exact ⟨h.lockedHolds, h.sdLocked, h.sdClosing, h.late⟩)

theorem invH_reachable (cap batch buf : Nat) (s : St) (h : Reachable cap batch buf s) : InvH s := by
  induction h with
  | init => exact ⟨by simp [init], by simp [init], by simp [init], by simp [init]⟩
  | step l hr hs ih => exact stepH _ _ l ih (inv_reachable cap batch buf _ hr).c hs

theorem deq_closed (s s' : St) (n : Nat) (b : Bool) (hd : deq s n = some (s', b)) (hb : s.bufStopped = true) :
    s'.input = s.input := by
  rcases deq_some s s' n b hd with h1 | ⟨_, _, h1⟩ | ⟨_, hnb, h1⟩
  · subst h1; rfl
  · subst h1; rfl
  · rw [hb] at hnb; simp at hnb

theorem pollWork_closed (s s' : St) (hp : pollWork s = some s') (hb : s.bufStopped = true) : s'.input = s.input := by
  obtain ⟨s2, t, h2, rfl⟩ := pollWork_some s s' hp
  rcases h2 with rfl | ⟨b, hd⟩
  · rfl
  · have := deq_closed _ _ _ _ hd hb
    exact this

/-- once `input` is closed, no step sends on it -/
theorem closed_input (s s' : St) (l : Lbl) (hH : InvH s) (hC : InvC s) (hs : step s l = some s') (hc : s.closed = true)
    (hl : l ≠ .eRecv) : s'.input = s.input := by
  have hsd := hC.closedPh hc
  have hbs : s.bufStopped = true := hC.bufPh.mpr (by rcases hsd with e | e | e <;> simp [e])
  have himu : s.imu = some .sdClose ∨ s.imu = none := by
    rcases hsd with e | e | e
    · exact Or.inl (hH.sdClosing e)
    · exact Or.inr (hH.late (Or.inl e))
    · exact Or.inr (hH.late (Or.inr e))
  cases l <;> simp only [step] at hs
  case pTick =>
    split at hs
    · exact pollWork_closed _ _ hs hbs
    · simp at hs
  case pTrig =>
    split at hs
    · exact pollWork_closed { s with trigger := false } _ hs hbs
    · simp at hs
  case ffDequeue fid =>
    split at hs
    · split at hs
      · rename_i s2 hd
        simp only [Option.some.injEq] at hs; subst hs
        have := deq_closed _ _ _ _ hd hbs
        exact this
      · simp at hs
    · simp at hs
  case eRecv => exact absurd rfl hl
  case ffSend fid =>
    split at hs
    · rename_i hpre
      obtain ⟨f0, hf0, _, hph0⟩ := hasPh_exists fid .locked s.ffs hpre.1
      have := hH.lockedHolds f0 hf0 hph0
      rcases himu with e | e <;> rw [e] at this <;> simp at this
    · simp at hs
  case sdSend =>
    split at hs
    · rename_i hpre
      rcases hsd with e | e | e <;> rw [hpre.1] at e <;> simp at e
    · simp at hs
  all_goals (
    repeat' (split at hs)
    all_goals (try (simp at hs))
    all_goals (try subst hs)
    all_goals rfl)

/-! ### the converse: whoever is recorded as the holder really is at the corresponding program point -/

structure InvK (s : St) : Prop where
  ff : ∀ fid, s.imu = some (.ff fid) → hasPh fid .locked s.ffs = true
  exp : s.imu = some .sdExp → s.sd = .locked
  close : s.imu = some .sdClose → s.sd = .closing ∧ s.closed = true

theorem hasPh_upd (fid : Nat) (p : FPhase) (c : FF → Prop) [DecidablePred c] (g : FF → FF) (ffs : List FF)
    (h : hasPh fid p ffs = true) (hc : ∀ f, c f → f.ph ≠ p) :
    hasPh fid p (ffs.map (fun f => if c f then g f else f)) = true := by
  obtain ⟨f, hf, hfid, hph⟩ := hasPh_exists fid p ffs h
  simp only [hasPh, List.any_eq_true, decide_eq_true_eq]
  refine ⟨f, List.mem_map.mpr ⟨f, hf, ?_⟩, hfid, hph⟩
  have : ¬ c f := fun hcf => hc f hcf hph
  simp [this]

theorem hasPh_setPh (fid fid' : Nat) (p a b : FPhase) (ffs : List FF) (h : hasPh fid p ffs = true) (ha : a ≠ p) :
    hasPh fid p (setPh fid' a b ffs) = true :=
  hasPh_upd fid p (fun f => f.fid = fid' ∧ f.ph = a) _ ffs h (fun f hc e => ha (hc.2.symm.trans e))

theorem hasPh_setRet (fid fid' : Nat) (p a b : FPhase) (seen : Bool) (ffs : List FF) (h : hasPh fid p ffs = true)
    (ha : a ≠ p) : hasPh fid p (setRet fid' a b seen ffs) = true :=
  hasPh_upd fid p (fun f => f.fid = fid' ∧ f.ph = a) _ ffs h (fun f hc e => ha (hc.2.symm.trans e))

theorem InvK_congr (s s' : St) (h : InvK s) (hf : s'.ffs = s.ffs) (hi : s'.imu = s.imu) (hsd : s'.sd = s.sd)
    (hc : s'.closed = s.closed) : InvK s' :=
  ⟨by rw [hf, hi]; exact h.ff, by rw [hsd, hi]; exact h.exp, by rw [hsd, hi, hc]; exact h.close⟩

theorem stepK (s s' : St) (l : Lbl) (h : InvK s) (h0 : InvA0 s) (hs : step s l = some s') : InvK s' := by
  cases l <;> simp only [step] at hs
  case pTick =>
    split at hs
    · have := pollWork_hold _ _ hs; exact InvK_congr s s' h this.1 this.2.1 this.2.2.1 this.2.2.2
    · simp at hs
  case pTrig =>
    split at hs
    · have := pollWork_hold { s with trigger := false } _ hs
      exact InvK_congr s s' h this.1 this.2.1 this.2.2.1 this.2.2.2
    · simp at hs
  case eRecv =>
    split at hs
    · split at hs
      · simp at hs
      · simp only [Option.some.injEq] at hs; subst hs
        exact ⟨fun fid e => hasPh_setPh fid _ _ _ _ s.ffs (h.ff fid e) (by simp), h.exp, h.close⟩
      · simp only [Option.some.injEq] at hs; subst hs
        exact ⟨h.ff, h.exp, h.close⟩
    · simp at hs
  case eEnd ok =>
    split at hs
    · split at hs
      · split at hs
        · rename_i hw
          simp only [Option.some.injEq] at hs; subst hs
          refine ⟨h.ff, fun e => ?_, fun e => ?_⟩
          · have := h.exp e; rw [hw.2] at this; simp at this
          · have := (h.close e).1; rw [hw.2] at this; simp at this
        · simp only [Option.some.injEq] at hs; subst hs
          exact ⟨h.ff, h.exp, h.close⟩
      · simp only [Option.some.injEq] at hs; subst hs
        exact ⟨h.ff, h.exp, h.close⟩
    · simp at hs
  case ffCall fid =>
    split at hs
    · simp at hs
    · simp only [Option.some.injEq] at hs; subst hs
      refine ⟨fun fid' e => ?_, h.exp, h.close⟩
      have := h.ff fid' e
      simp only [hasPh, List.any_cons, Bool.or_eq_true] at this ⊢
      exact Or.inr this
  case ffCheck fid =>
    split at hs
    · split at hs
      · simp only [Option.some.injEq] at hs; subst hs
        exact ⟨fun fid' e => hasPh_setRet fid' _ _ _ _ _ s.ffs (h.ff fid' e) (by simp), h.exp, h.close⟩
      · simp only [Option.some.injEq] at hs; subst hs
        exact ⟨fun fid' e => hasPh_setPh fid' _ _ _ _ s.ffs (h.ff fid' e) (by simp), h.exp, h.close⟩
    · simp at hs
  case ffDequeue fid =>
    split at hs
    · split at hs
      · rename_i s2 hd
        simp only [Option.some.injEq] at hs; subst hs
        have hh := deq_hold _ _ _ _ hd
        have h2 : InvK s2 := InvK_congr s s2 h hh.1 hh.2.1 hh.2.2.1 hh.2.2.2
        exact ⟨fun fid' e => hasPh_setPh fid' _ _ _ _ s2.ffs (h2.ff fid' e) (by simp), h2.exp, h2.close⟩
      · simp at hs
    · simp at hs
  case ffLock fid =>
    split at hs
    · rename_i hpre
      split at hs
      · simp only [Option.some.injEq] at hs; subst hs
        exact ⟨fun fid' e => hasPh_setRet fid' _ _ _ _ _ s.ffs (h.ff fid' e) (by simp), h.exp, h.close⟩
      · simp only [Option.some.injEq] at hs; subst hs
        refine ⟨fun fid' e => ?_, by simp, by simp⟩
        simp only [Option.some.injEq, Holder.ff.injEq] at e
        subst e
        obtain ⟨f, hf, hfid, hph⟩ := hasPh_exists fid .dequeued s.ffs hpre.1
        simp only [hasPh, setPh, List.any_eq_true, decide_eq_true_eq]
        exact ⟨{ f with ph := .locked }, List.mem_map.mpr ⟨f, hf, by simp [hfid, hph]⟩, hfid, rfl⟩
    · simp at hs
  case ffSend fid =>
    split at hs
    · simp only [Option.some.injEq] at hs; subst hs
      exact ⟨by simp, by simp, by simp⟩
    · simp at hs
  case ffReturn fid ok =>
    split at hs
    · simp only [Option.some.injEq] at hs; subst hs
      exact ⟨fun fid' e => hasPh_setRet fid' _ _ _ _ _ s.ffs (h.ff fid' e) (by simp), h.exp, h.close⟩
    · simp at hs
  case ffCancel fid =>
    split at hs
    · simp only [Option.some.injEq] at hs; subst hs
      exact ⟨by simp, by simp, by simp⟩
    · simp only [Option.some.injEq] at hs; subst hs
      refine ⟨fun fid' e => ?_, h.exp, h.close⟩
      exact hasPh_upd fid' .locked _ _ s.ffs (h.ff fid' e) (fun f hc e' => by
        rcases hc.2 with x | x | x | x | x <;> rw [x] at e' <;> simp at e')
  case sdSwap k =>
    split at hs
    · split at hs
      · simp only [Option.some.injEq] at hs; subst hs
        exact ⟨h.ff, h.exp, h.close⟩
      · rename_i hns
        simp only [Option.some.injEq] at hs; subst hs
        have hsd : s.sd = .none := h0.ns (by simpa using hns)
        refine ⟨h.ff, fun e => ?_, fun e => ?_⟩
        · have := h.exp e; rw [hsd] at this; simp at this
        · have := (h.close e).1; rw [hsd] at this; simp at this
    · simp at hs
  case sdKill =>
    split at hs
    · rename_i hpre
      simp only [Option.some.injEq] at hs; subst hs
      refine ⟨h.ff, fun e => ?_, fun e => ?_⟩
      · have := h.exp e; rw [hpre] at this; simp at this
      · have := (h.close e).1; rw [hpre] at this; simp at this
    · simp at hs
  case sdFlush =>
    split at hs
    · rename_i hpre
      simp only [Option.some.injEq] at hs; subst hs
      refine ⟨h.ff, fun e => ?_, fun e => ?_⟩
      · have := h.exp e; rw [hpre.1] at this; simp at this
      · have := (h.close e).1; rw [hpre.1] at this; simp at this
    · simp at hs
  case sdLock =>
    split at hs
    · rename_i hpre
      split at hs
      · simp only [Option.some.injEq] at hs; subst hs
        refine ⟨h.ff, fun e => ?_, fun e => ?_⟩
        · have := h.exp e; rw [hpre] at this; simp at this
        · have := (h.close e).1; rw [hpre] at this; simp at this
      · split at hs
        · simp only [Option.some.injEq] at hs; subst hs
          exact ⟨by simp, fun _ => rfl, by simp⟩
        · simp at hs
    · simp at hs
  case sdSend =>
    split at hs
    · simp only [Option.some.injEq] at hs; subst hs
      exact ⟨by simp, by simp, by simp⟩
    · simp at hs
  case sdBufStop =>
    split at hs
    · rename_i hpre
      simp only [Option.some.injEq] at hs; subst hs
      refine ⟨h.ff, fun e => ?_, fun e => ?_⟩
      · have := h.exp e; rw [hpre] at this; simp at this
      · have := (h.close e).1; rw [hpre] at this; simp at this
    · simp at hs
  case sdClose =>
    split at hs
    · simp only [Option.some.injEq] at hs; subst hs
      exact ⟨by simp, by simp, fun _ => ⟨rfl, rfl⟩⟩
    · simp at hs
  case sdExpShutdown =>
    split at hs
    · simp only [Option.some.injEq] at hs; subst hs
      exact ⟨by simp, by simp, by simp⟩
    · simp at hs
  case sdReturn k ok =>
    split at hs
    · rename_i hpre
      simp only [Option.some.injEq] at hs; subst hs
      refine ⟨h.ff, fun e => ?_, fun e => ?_⟩
      · have := h.exp e; rw [hpre.1] at this; simp at this
      · have := (h.close e).1; rw [hpre.1] at this; simp at this
    · simp at hs
  all_goals (
    repeat' (split at hs)
    all_goals (try (simp at hs))
    all_goals (try subst hs)
    all_goals exact ⟨h.ff, h.exp, h.close⟩)

theorem invK_reachable (cap batch buf : Nat) (s : St) (h : Reachable cap batch buf s) : InvK s := by
  induction h with
  | init => exact ⟨by simp [init], by simp [init], by simp [init]⟩
  | step l hr hs ih => exact stepK _ _ l ih (inv_reachable cap batch buf _ hr).a0 hs

end Otel.C06
