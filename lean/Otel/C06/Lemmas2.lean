import Otel.C06.Lemmas
namespace Otel.C06

theorem mem_take_or_drop (l : List Nat) (n id : Nat) (h : id ∈ l) : id ∈ l.take n ∨ id ∈ l.drop n := by
  rw [← List.take_append_drop n l] at h
  exact List.mem_append.mp h

/-! ### Part D: every record whose Emit returned is somewhere -/

def placed (s : St) (id : Nat) : Prop :=
  id ∈ s.q ∨ id ∈ s.hold ∨ id ∈ recsOf s.input ∨ id ∈ s.curRem ∨ id ∈ s.exported.flatten ∨ id ∈ s.droppedIds ∨
    id ∈ s.discarded

structure InvD (s : St) : Prop where
  seenPlaced : ∀ id ∈ s.seen, placed s id

theorem InvD_deq (s s' : St) (n : Nat) (b : Bool) (h : InvD s) (hd : deq s n = some (s', b)) : InvD s' := by
  rcases deq_some s s' n b hd with h1 | ⟨_, _, h1⟩ | ⟨_, _, h1⟩ <;> subst h1
  · exact h
  · refine ⟨fun id hid => ?_⟩
    have := h.seenPlaced id hid
    simp only [placed, List.mem_append] at this ⊢
    rcases this with h | h
    · rcases mem_take_or_drop _ n _ h with h | h
      · exact Or.inr (Or.inr (Or.inr (Or.inr (Or.inr (Or.inr (Or.inr h))))))
      · exact Or.inl h
    · grind
  · refine ⟨fun id hid => ?_⟩
    have := h.seenPlaced id hid
    simp only [placed, recsOf_append, recsOf, List.mem_append, List.append_nil] at this ⊢
    rcases this with h | h
    · rcases mem_take_or_drop _ n _ h with h | h
      · exact Or.inr (Or.inr (Or.inl (Or.inr h)))
      · exact Or.inl h
    · grind

theorem InvD_pollWork (s s' : St) (h : InvD s) (hp : pollWork s = some s') : InvD s' := by
  obtain ⟨s2, t, h2, rfl⟩ := pollWork_some s s' hp
  have h1 : InvD { s with warned := s.warned + s.dropCtr, dropCtr := 0 } := ⟨h.seenPlaced⟩
  rcases h2 with rfl | ⟨b, hd⟩
  · exact ⟨h.seenPlaced⟩
  · exact ⟨(InvD_deq _ _ _ _ h1 hd).seenPlaced⟩

theorem stepD (s s' : St) (l : Lbl) (h : InvD s) (h0 : InvA0 s) (hs : step s l = some s') : InvD s' := by
  obtain ⟨h1⟩ := h
  obtain ⟨a1, a2, a3⟩ := h0
  unfold placed at h1
  cases l <;> simp only [step] at hs
  case pTick =>
    split at hs
    · exact InvD_pollWork _ _ ⟨h1⟩ hs
    · simp at hs
  case pTrig =>
    split at hs
    · exact InvD_pollWork { s with trigger := false } _ ⟨h1⟩ hs
    · simp at hs
  case ffDequeue fid =>
    split at hs
    · split at hs
      · rename_i s2 hd
        simp at hs; subst hs
        exact ⟨(InvD_deq _ _ _ _ ⟨h1⟩ hd).seenPlaced⟩
      · simp at hs
    · simp at hs
  case eStart =>
    split at hs
    · simp at hs; subst hs
      refine ⟨fun id hid => ?_⟩
      have := h1 id hid
      simp only [placed, List.flatten_append, List.flatten_cons, List.flatten_nil, List.append_nil, List.mem_append] at this ⊢
      rcases this with h | h | h | h | h
      · exact Or.inl h
      · exact Or.inr (Or.inl h)
      · exact Or.inr (Or.inr (Or.inl h))
      · rcases mem_take_or_drop _ s.batch _ h with h | h
        · exact Or.inr (Or.inr (Or.inr (Or.inr (Or.inl (Or.inr h)))))
        · exact Or.inr (Or.inr (Or.inr (Or.inl h)))
      · grind
    · simp at hs
  case sdFlush =>
    split at hs
    · rename_i hg
      simp at hs; subst hs
      have hh : s.hold = [] := by
        apply Classical.byContradiction
        intro hne
        rcases a2 hne with h' | h' <;> simp [h'] at hg
      refine ⟨fun id hid => ?_⟩
      have := h1 id hid
      simp only [placed, hh, List.not_mem_nil, false_or] at this ⊢
      exact this
    · simp at hs
  all_goals (
    repeat' (split at hs)
    all_goals (try (simp at hs))
    all_goals (try subst hs)
    all_goals (first
      | exact ⟨h1⟩
      | (refine ⟨?_⟩ <;> simp_all [placed, recsOf_append, recsOf] <;> grind)
      | skip))

/-! ### Part F: Shutdown delivery -/

def P3 (s : St) (id : Nat) : Prop := id ∈ s.exported.flatten ∨ id ∈ s.droppedIds
def P2 (s : St) (id : Nat) : Prop := id ∈ recsOf s.input ∨ id ∈ s.curRem ∨ P3 s id

def sdLate (p : SPhase) : Prop := p ≠ .none ∧ p ≠ .swapped ∧ p ≠ .killed

structure InvF (s : St) : Prop where
  preSeen : ∀ id ∈ s.sdPre, id ∈ s.seen
  flOK : sdLate s.sd → ∀ id ∈ s.sdPre, id ∈ s.hold ∨ P2 s id

theorem InvF_deq (s s' : St) (n : Nat) (b : Bool) (h : InvF s) (hd : deq s n = some (s', b)) : InvF s' := by
  rcases deq_some s s' n b hd with h1 | ⟨_, _, h1⟩ | ⟨_, _, h1⟩ <;> subst h1
  · exact h
  · exact ⟨h.preSeen, h.flOK⟩
  · refine ⟨h.preSeen, fun hl id hid => ?_⟩
    have := h.flOK hl id hid
    simp only [P2, P3, recsOf_append, recsOf, List.mem_append, List.append_nil] at this ⊢
    grind

theorem InvF_pollWork (s s' : St) (h : InvF s) (hp : pollWork s = some s') : InvF s' := by
  obtain ⟨s2, t, h2, rfl⟩ := pollWork_some s s' hp
  have h1 : InvF { s with warned := s.warned + s.dropCtr, dropCtr := 0 } := ⟨h.preSeen, h.flOK⟩
  rcases h2 with rfl | ⟨b, hd⟩
  · exact ⟨h.preSeen, h.flOK⟩
  · have := InvF_deq _ _ _ _ h1 hd
    exact ⟨this.preSeen, this.flOK⟩

theorem stepF (s s' : St) (l : Lbl) (h : InvF s) (h0 : InvA0 s) (hC : InvC s) (hD : InvD s)
    (hs : step s l = some s') : InvF s' := by
  obtain ⟨f1, f2⟩ := h
  obtain ⟨a1, a2, a3⟩ := h0
  unfold sdLate P2 P3 at f2
  cases l <;> simp only [step] at hs
  case pTick =>
    split at hs
    · exact InvF_pollWork _ _ ⟨f1, f2⟩ hs
    · simp at hs
  case pTrig =>
    split at hs
    · exact InvF_pollWork { s with trigger := false } _ ⟨f1, f2⟩ hs
    · simp at hs
  case ffDequeue fid =>
    split at hs
    · split at hs
      · rename_i s2 hd
        simp at hs; subst hs
        have := InvF_deq _ _ _ _ ⟨f1, f2⟩ hd
        exact ⟨this.preSeen, this.flOK⟩
      · simp at hs
    · simp at hs
  case eStart =>
    split at hs
    · simp at hs; subst hs
      refine ⟨f1, fun hl id hid => ?_⟩
      have := f2 hl id hid
      simp only [P2, P3, List.flatten_append, List.flatten_cons, List.flatten_nil, List.append_nil, List.mem_append] at this ⊢
      rcases this with h | h | h | h
      · exact Or.inl h
      · exact Or.inr (Or.inl h)
      · rcases mem_take_or_drop _ s.batch _ h with h | h
        · exact Or.inr (Or.inr (Or.inr (Or.inl (Or.inr h))))
        · exact Or.inr (Or.inr (Or.inl h))
      · grind
    · simp at hs
  case sdFlush =>
    split at hs
    · rename_i hg
      simp at hs; subst hs
      have hh : s.hold = [] := by
        apply Classical.byContradiction
        intro hne
        rcases a2 hne with h' | h' <;> simp [h'] at hg
      have hdisc : s.discarded = [] := by
        apply Classical.byContradiction
        intro hne
        have := hC.bufPh.mp (hC.discPh hne)
        simp [hg.1] at this
      refine ⟨f1, fun _ id hid => ?_⟩
      have := hD.seenPlaced id (f1 id hid)
      simp only [placed, hh, hdisc, List.not_mem_nil, false_or, or_false] at this
      simp only [P2, P3]
      exact this
    · simp at hs
  all_goals (
    repeat' (split at hs)
    all_goals (try (simp at hs))
    all_goals (try subst hs)
    all_goals (first
      | exact ⟨f1, f2⟩
      | (refine ⟨?_, ?_⟩ <;> simp_all [sdLate, P2, P3, recsOf_append, recsOf] <;> grind)
      | skip))

/-! ### Part G: first in, first out -/

def fifoList (s : St) : List Nat := s.exported.flatten ++ s.curRem ++ recsOf s.input ++ s.hold ++ s.q

structure InvG (s : St) : Prop where
  fifo : s.overtaken = false → (fifoList s).Sublist s.enqd

theorem InvG_deq (s s' : St) (n : Nat) (b : Bool) (h : InvG s) (hd : deq s n = some (s', b)) : InvG s' := by
  rcases deq_some s s' n b hd with h1 | ⟨_, _, h1⟩ | ⟨_, _, h1⟩ <;> subst h1
  · exact h
  · refine ⟨fun ho => ?_⟩
    have := h.fifo ho
    refine List.Sublist.trans ?_ this
    simp only [fifoList]
    exact List.Sublist.append_left (List.drop_sublist n s.q) _
  · refine ⟨fun ho => ?_⟩
    simp only [Bool.or_eq_false_iff, Bool.not_eq_false', List.isEmpty_iff] at ho
    have := h.fifo ho.1
    simp only [fifoList, ho.2, recsOf_append, recsOf, List.append_nil, List.append_assoc, List.take_append_drop] at this ⊢
    exact this

theorem InvG_pollWork (s s' : St) (h : InvG s) (hp : pollWork s = some s') : InvG s' := by
  obtain ⟨s2, t, h2, rfl⟩ := pollWork_some s s' hp
  have h1 : InvG { s with warned := s.warned + s.dropCtr, dropCtr := 0 } := ⟨h.fifo⟩
  rcases h2 with rfl | ⟨b, hd⟩
  · exact ⟨h.fifo⟩
  · exact ⟨(InvG_deq _ _ _ _ h1 hd).fifo⟩

theorem stepG (s s' : St) (l : Lbl) (h : InvG s) (h0 : InvA0 s) (hs : step s l = some s') : InvG s' := by
  obtain ⟨g⟩ := h
  obtain ⟨a1, a2, a3⟩ := h0
  cases l <;> simp only [step] at hs
  case pTick =>
    split at hs
    · exact InvG_pollWork _ _ ⟨g⟩ hs
    · simp at hs
  case pTrig =>
    split at hs
    · exact InvG_pollWork { s with trigger := false } _ ⟨g⟩ hs
    · simp at hs
  case ffDequeue fid =>
    split at hs
    · split at hs
      · rename_i s2 hd
        simp at hs; subst hs
        exact ⟨(InvG_deq _ _ _ _ ⟨g⟩ hd).fifo⟩
      · simp at hs
    · simp at hs
  case enq id =>
    split at hs
    · split at hs
      · simp at hs; subst hs
        refine ⟨fun ho => ?_⟩
        have := g ho
        have h2 := List.Sublist.append this (List.Sublist.refl [id])
        simpa [fifoList, List.append_assoc] using h2
      · split at hs
        · simp at hs
        · rename_i hd t hq
          simp at hs; subst hs
          refine ⟨fun ho => ?_⟩
          have := g ho
          have h1 : (s.exported.flatten ++ s.curRem ++ recsOf s.input ++ s.hold ++ t).Sublist (fifoList s) := by
            simp only [fifoList, hq]
            exact List.Sublist.append_left (List.sublist_cons_self hd t) _
          have h2 := List.Sublist.append (h1.trans this) (List.Sublist.refl [id])
          simpa [fifoList, List.append_assoc] using h2
    · simp at hs
  case eRecv =>
    split at hs
    · rename_i hi
      have hr := a1 (Or.inl hi)
      split at hs
      · simp at hs
      · rename_i fid rest hq
        simp at hs; subst hs
        refine ⟨fun ho => ?_⟩
        have := g ho
        simpa [fifoList, hq, recsOf] using this
      · rename_i l sync rest hq
        simp at hs; subst hs
        refine ⟨fun ho => ?_⟩
        have := g ho
        simpa [fifoList, hq, hr, recsOf, List.append_assoc] using this
    · simp at hs
  case eStart =>
    split at hs
    · simp at hs; subst hs
      refine ⟨fun ho => ?_⟩
      have := g ho
      have e : (s.exported ++ [s.curRem.take s.batch]).flatten ++ s.curRem.drop s.batch = s.exported.flatten ++ s.curRem := by
        simp [List.append_assoc, List.take_append_drop]
      simp only [fifoList, e] at this ⊢
      exact this
    · simp at hs
  case sdFlush =>
    split at hs
    · rename_i hg
      simp at hs; subst hs
      have hh : s.hold = [] := by
        apply Classical.byContradiction
        intro hne
        rcases a2 hne with h' | h' <;> simp [h'] at hg
      refine ⟨fun ho => ?_⟩
      have := g ho
      simpa [fifoList, hh] using this
    · simp at hs
  case sdSend =>
    split at hs
    · simp at hs; subst hs
      refine ⟨fun ho => ?_⟩
      have := g ho
      simpa [fifoList, recsOf_append, recsOf, List.append_assoc] using this
    · simp at hs
  all_goals (
    repeat' (split at hs)
    all_goals (try (simp at hs))
    all_goals (try subst hs)
    all_goals (first
      | exact ⟨g⟩
      | (refine ⟨fun ho => ?_⟩
         have := g ho
         simpa [fifoList, recsOf_append, recsOf] using this)
      | skip))

end Otel.C06
