/-
C06 — storage model of `sdk/log.Record` (record.go) for the clause "exported records are unaffected by later
changes to the caller's record": a Record is a struct value (body, inline attribute array `front`) plus the slice
`back`, a (pointer, len, cap) triple into a heap of arrays. Struct assignment copies `front` and the slice HEADER
(the array is shared); `Record.Clone` allocates a new array (`slices.Clone`). `AddAttributes` overwrites existing keys
IN PLACE (`r.front[i] = a` / `r.back[idx] = a`), de-duplicates its argument in place IN THE CALLER'S ARRAY
(`unique := attrs[:0]`), and appends the new keys (`slices.Grow` + `append`: in place when the capacity suffices,
otherwise into a new array whose capacity is chosen by the Go runtime — a parameter `capNew` of the model, so the
theorems hold for every growth policy). `SetAttributes` de-duplicates in place and stores a clone of the tail.

The world also has the caller's shared attribute table `tbl` (argument slices are sub-slices `tbl[a:b]` with spare
capacity) and the handles that were emitted (cloned by `BatchProcessor.OnEmit`) and later exported.
Attribute limits are not modelled (property C17): the harness uses integer values and no count limit.
-/
namespace Otel.C06.Rec

abbrev KV := Nat × Nat                 -- key, value
abbrev Heap := List (List KV)          -- array id ↦ cells (length = capacity of the allocation)

structure Slice where
  arr : Nat := 0
  len : Nat := 0
  cap : Nat := 0
deriving DecidableEq, Repr

structure R where
  body : Nat := 0
  front : List KV := []                -- the inline array: `front[:nFront]`
  back : Slice := {}
deriving DecidableEq, Repr

structure W where
  heap : Heap := []
  hs : List R := []                    -- handles (Record values held by the caller, the queue, the exporter)
  tbl : List KV := []
  hidden : List Nat := []              -- handles cloned by OnEmit, not yet seen by the harness
  exported : List Nat := []            -- … seen (after a ForceFlush)
deriving DecidableEq, Repr

def inlineCount : Nat := 5

def cells (h : Heap) (a : Nat) : List KV := h.getD a []
def viewBack (h : Heap) (s : Slice) : List KV := (cells h s.arr).take s.len
def attrs (h : Heap) (r : R) : List KV := r.front ++ viewBack h r.back
/-- what the Record API shows -/
def view (h : Heap) (r : R) : Nat × List KV := (r.body, attrs h r)

def pad (l : List KV) (n : Nat) : List KV := l ++ List.replicate (n - l.length) (0, 0)

/-- a fresh array holding `l` (`slices.Clone`, `append` into a new allocation) -/
def allocSlice (h : Heap) (l : List KV) (cap : Nat) : Heap × Slice :=
  (h ++ [pad l cap], { arr := h.length, len := l.length, cap := max cap l.length })

/-- `AddAttributes`, key already in the record: overwrite in place -/
def overwrite (h : Heap) (r : R) (a : KV) : Option (Heap × R) :=
  match r.front.findIdx? (·.1 == a.1) with
  | some j => some (h, { r with front := r.front.set j a })
  | none =>
    match (viewBack h r.back).findIdx? (·.1 == a.1) with
    | some j => some (h.set r.back.arr ((cells h r.back.arr).set j a), r)
    | none => none

/-- the loop of `AddAttributes`: `unique` accumulates (in the caller's array) the attributes to append -/
def addLoop (h : Heap) (r : R) (unique : List KV) : List KV → Heap × R × List KV
  | [] => (h, r, unique)
  | a :: rest =>
    match unique.findIdx? (·.1 == a.1) with
    | some j => addLoop h r (unique.set j a) rest
    | none =>
      match overwrite h r a with
      | some (h', r') => addLoop h' r' unique rest
      | none => addLoop h r (unique ++ [a]) rest

/-- `dedup` (used by SetAttributes) -/
def dedup (unique : List KV) : List KV → List KV
  | [] => unique
  | a :: rest =>
    match unique.findIdx? (·.1 == a.1) with
    | some j => dedup (unique.set j a) rest
    | none => dedup (unique ++ [a]) rest

/-- `addAttrs`: fill the inline array, append the rest to `back` -/
def addAttrs (h : Heap) (r : R) (l : List KV) (capNew : Nat) : Heap × R :=
  let room := inlineCount - r.front.length
  let rest := l.drop room
  let r1 := { r with front := r.front ++ l.take room }
  if rest.length ≤ r.back.cap - r.back.len then
    let c := cells h r.back.arr
    (h.set r.back.arr (c.take r.back.len ++ rest ++ c.drop (r.back.len + rest.length)),
     { r1 with back := { r.back with len := r.back.len + rest.length } })
  else
    let p := allocSlice h (viewBack h r.back ++ rest) capNew
    (p.1, { r1 with back := p.2 })

/-- the caller's array after the in-place compaction `unique := attrs[:0]; unique = append(unique, a)` -/
def tblWrite (tbl : List KV) (a : Nat) (u : List KV) : List KV := tbl.take a ++ u ++ tbl.drop (a + u.length)

def addAttributes (h : Heap) (r : R) (as : List KV) (capNew : Nat) : Heap × R × List KV :=
  let p := addLoop h r [] as
  let q := addAttrs p.1 p.2.1 p.2.2 capNew
  (q.1, q.2, p.2.2)

def setAttributes (h : Heap) (r : R) (as : List KV) (capNew : Nat) : Heap × R × List KV :=
  let u := dedup [] as
  let p := allocSlice h (u.drop inlineCount) capNew
  (p.1, { r with front := u.take inlineCount, back := p.2 }, u)

inductive Op where
  | mk (body : Nat)                          -- a new Record
  | clone (i capNew : Nat)                   -- c := r.Clone()
  | copy (i : Nat)                           -- c := *r
  | clip (i : Nat)                           -- NOT in the code: `res.back = slices.Clip(r.back)` (witness only)
  | body (i v : Nat)                         -- r.SetBody
  | add (i a b capNew : Nat)                 -- r.AddAttributes(tbl[a:b]...)
  | add1 (i k v capNew : Nat)                -- r.AddAttributes(KeyValue{k, v})
  | set (i a b capNew : Nat)                 -- r.SetAttributes(tbl[a:b]...)
  | wr (k key v : Nat)                       -- tbl[k] = {key, v}
  | emit (i : Nat)                           -- BatchProcessor.OnEmit(ctx, &r): Enqueue(r.Clone())
  | flush                                    -- ForceFlush: the harness sees what the exporter received
deriving DecidableEq, Repr

def getH (w : W) (i : Nat) : R := w.hs.getD i {}

def sub (tbl : List KV) (a b : Nat) : List KV := (tbl.drop a).take (b - a)

def prim (w : W) : Op → W
  | .mk b =>
    let p := allocSlice w.heap [] 0
    { w with heap := p.1, hs := w.hs ++ [{ body := b, back := p.2 }] }
  | .clone i cap =>
    let r := getH w i
    let p := allocSlice w.heap (viewBack w.heap r.back) cap
    { w with heap := p.1, hs := w.hs ++ [{ r with back := p.2 }] }
  | .copy i => if i < w.hs.length then { w with hs := w.hs ++ [getH w i] } else w
  | .clip i =>
    if i < w.hs.length then
      let r := getH w i
      { w with hs := w.hs ++ [{ r with back := { r.back with cap := r.back.len } }] }
    else w
  | .body i v => if i < w.hs.length then { w with hs := w.hs.set i { getH w i with body := v } } else w
  | .add i a b cap =>
    if i < w.hs.length then
      let p := addAttributes w.heap (getH w i) (sub w.tbl a b) cap
      { w with heap := p.1, hs := w.hs.set i p.2.1, tbl := tblWrite w.tbl a p.2.2 }
    else w
  | .add1 i k v cap =>
    if i < w.hs.length then
      let p := addAttributes w.heap (getH w i) [(k, v)] cap
      { w with heap := p.1, hs := w.hs.set i p.2.1 }
    else w
  | .set i a b cap =>
    if i < w.hs.length then
      let p := setAttributes w.heap (getH w i) (sub w.tbl a b) cap
      { w with heap := p.1, hs := w.hs.set i p.2.1, tbl := tblWrite w.tbl a p.2.2 }
    else w
  | .wr k key v => { w with tbl := w.tbl.set k (key, v) }
  | .emit i =>
    let r := getH w i
    let p := allocSlice w.heap (viewBack w.heap r.back) 0
    { w with heap := p.1, hs := w.hs ++ [{ r with back := p.2 }], hidden := w.hidden ++ [w.hs.length] }
  | .flush => { w with exported := w.exported ++ w.hidden, hidden := [] }

def run (w : W) (ops : List Op) : W := ops.foldl prim w

/-- the handle an operation writes through or makes a struct copy of -/
def subject : Op → Option Nat
  | .copy i | .clip i | .body i _ | .add i _ _ _ | .add1 i _ _ _ | .set i _ _ _ => some i
  | _ => none

/-- handle `x` owns its array: no other handle's `back` points into it -/
structure Iso (w : W) (x : Nat) : Prop where
  lt : x < w.hs.length
  arrLt : (getH w x).back.arr < w.heap.length
  alone : ∀ j, j < w.hs.length → j ≠ x → (getH w j).back.arr ≠ (getH w x).back.arr

/-! ### Frame lemmas -/

structure FrameOK (h : Heap) (r : R) (h' : Heap) (r' : R) : Prop where
  len : h.length ≤ h'.length
  arr : r'.back.arr = r.back.arr ∨ h.length ≤ r'.back.arr
  keep : ∀ a, a ≠ r.back.arr → a < h.length → cells h' a = cells h a
  valid : r.back.arr < h.length → r'.back.arr < h'.length

theorem FrameOK.refl (h : Heap) (r : R) : FrameOK h r h r := ⟨Nat.le_refl _, Or.inl rfl, fun _ _ _ => rfl, id⟩

theorem FrameOK.of_back (h : Heap) (r r' : R) (e : r'.back = r.back) : FrameOK h r h r' :=
  ⟨Nat.le_refl _, Or.inl (by rw [e]), fun _ _ _ => rfl, by rw [e]; exact id⟩

theorem FrameOK.trans {h h1 h2 : Heap} {r r1 r2 : R} (a : FrameOK h r h1 r1) (b : FrameOK h1 r1 h2 r2) :
    FrameOK h r h2 r2 := by
  refine ⟨Nat.le_trans a.len b.len, ?_, ?_, fun hv => b.valid (a.valid hv)⟩
  · rcases b.arr with e | e
    · rw [e]; exact a.arr
    · exact Or.inr (Nat.le_trans a.len e)
  · intro x hx hlt
    have hx1 : x ≠ r1.back.arr := by
      rcases a.arr with e | e
      · rw [e]; exact hx
      · omega
    rw [b.keep x hx1 (Nat.lt_of_lt_of_le hlt a.len), a.keep x hx hlt]

theorem cells_set_ne (h : Heap) (a b : Nat) (c : List KV) (hne : b ≠ a) : cells (h.set a c) b = cells h b := by
  simp only [cells, List.getD_eq_getElem?_getD]
  rw [List.getElem?_set_ne (Ne.symm hne)]

theorem cells_append_lt (h : Heap) (c : List KV) (b : Nat) (hb : b < h.length) : cells (h ++ [c]) b = cells h b := by
  simp only [cells, List.getD_eq_getElem?_getD]
  rw [List.getElem?_append_left hb]

theorem overwrite_frame (h : Heap) (r : R) (a : KV) (h' : Heap) (r' : R) (ho : overwrite h r a = some (h', r')) :
    FrameOK h r h' r' := by
  unfold overwrite at ho
  split at ho
  · simp only [Option.some.injEq, Prod.mk.injEq] at ho
    obtain ⟨rfl, rfl⟩ := ho
    exact FrameOK.of_back _ _ _ rfl
  · split at ho
    · simp only [Option.some.injEq, Prod.mk.injEq] at ho
      obtain ⟨rfl, rfl⟩ := ho
      exact ⟨by simp, Or.inl rfl, fun x hx _ => cells_set_ne _ _ _ _ hx, by simp⟩
    · simp at ho

theorem addLoop_frame (h : Heap) (r : R) (u : List KV) (l : List KV) :
    FrameOK h r (addLoop h r u l).1 (addLoop h r u l).2.1 := by
  induction l generalizing h r u with
  | nil => exact FrameOK.refl _ _
  | cons a rest ih =>
    simp only [addLoop]
    split
    · exact ih h r _
    · split
      · rename_i h' r' ho
        exact (overwrite_frame h r a h' r' ho).trans (ih h' r' u)
      · exact ih h r _

theorem addAttrs_frame (h : Heap) (r : R) (l : List KV) (cap : Nat) :
    FrameOK h r (addAttrs h r l cap).1 (addAttrs h r l cap).2 := by
  unfold addAttrs
  simp only
  split
  · exact ⟨by simp, Or.inl rfl, fun x hx _ => cells_set_ne _ _ _ _ hx, by simp⟩
  · exact ⟨by simp [allocSlice], Or.inr (by simp [allocSlice]), fun x _ hlt => by simp [allocSlice, cells_append_lt _ _ _ hlt],
      by simp [allocSlice]⟩

theorem addAttributes_frame (h : Heap) (r : R) (l : List KV) (cap : Nat) :
    FrameOK h r (addAttributes h r l cap).1 (addAttributes h r l cap).2.1 :=
  (addLoop_frame h r [] l).trans (addAttrs_frame _ _ _ cap)

theorem setAttributes_frame (h : Heap) (r : R) (l : List KV) (cap : Nat) :
    FrameOK h r (setAttributes h r l cap).1 (setAttributes h r l cap).2.1 :=
  ⟨by simp [setAttributes, allocSlice], Or.inr (by simp [setAttributes, allocSlice]),
   fun x _ hlt => by simp [setAttributes, allocSlice, cells_append_lt _ _ _ hlt], by simp [setAttributes, allocSlice]⟩

theorem getH_set_ne (w : W) (i x : Nat) (r : R) (hne : i ≠ x) :
    (w.hs.set i r).getD x {} = w.hs.getD x {} := by
  simp only [List.getD_eq_getElem?_getD]
  rw [List.getElem?_set_ne hne]

theorem getH_set_self (hs : List R) (i : Nat) (r : R) (hi : i < hs.length) : (hs.set i r).getD i {} = r := by
  simp [List.getD_eq_getElem?_getD, hi]

theorem getD_append_lt (hs : List R) (r : R) (x : Nat) (hx : x < hs.length) : (hs ++ [r]).getD x {} = hs.getD x {} := by
  simp only [List.getD_eq_getElem?_getD]
  rw [List.getElem?_append_left hx]

theorem getD_append_len (hs : List R) (r : R) : (hs ++ [r]).getD hs.length {} = r := by
  simp [List.getD_eq_getElem?_getD]

/-- a write through handle `i ≠ x` that satisfies the frame condition keeps `x` isolated and unchanged -/
theorem upd_iso (w : W) (x i : Nat) (h' : Heap) (r' : R) (tbl' : List KV) (hiso : Iso w x) (hi : i < w.hs.length)
    (hne : i ≠ x) (hf : FrameOK w.heap (getH w i) h' r') :
    let w' := { w with heap := h', hs := w.hs.set i r', tbl := tbl' }
    Iso w' x ∧ getH w' x = getH w x ∧ cells w'.heap (getH w x).back.arr = cells w.heap (getH w x).back.arr := by
  intro w'
  have hx : getH w' x = getH w x := getH_set_ne w i x r' hne
  have hai : (getH w i).back.arr ≠ (getH w x).back.arr := hiso.alone i hi hne
  refine ⟨⟨by simpa [w'] using hiso.lt, ?_, ?_⟩, hx, hf.keep _ (Ne.symm hai) hiso.arrLt⟩
  · rw [hx]; exact Nat.lt_of_lt_of_le hiso.arrLt hf.len
  · intro j hj hjx
    rw [hx]
    have hj' : j < w.hs.length := by simpa [w'] using hj
    by_cases hji : j = i
    · subst hji
      have : getH w' j = r' := getH_set_self w.hs j r' hi
      rw [this]
      rcases hf.arr with e | e
      · rw [e]; exact hai
      · have := hiso.arrLt; omega
    · have : getH w' j = getH w j := getH_set_ne w i j r' (Ne.symm hji)
      rw [this]
      exact hiso.alone j hj' hjx

/-- pushing a new handle whose array is fresh or belongs to a handle other than `x` -/
theorem push_iso (w : W) (x : Nat) (h' : Heap) (r' : R) (hid ex : List Nat) (hiso : Iso w x)
    (hh : h' = w.heap ∨ ∃ c, h' = w.heap ++ [c])
    (ha : w.heap.length ≤ r'.back.arr ∨ ∃ j, j < w.hs.length ∧ j ≠ x ∧ r'.back.arr = (getH w j).back.arr) :
    let w' := { w with heap := h', hs := w.hs ++ [r'], hidden := hid, exported := ex }
    Iso w' x ∧ getH w' x = getH w x ∧ cells w'.heap (getH w x).back.arr = cells w.heap (getH w x).back.arr := by
  intro w'
  have hx : getH w' x = getH w x := getD_append_lt w.hs r' x hiso.lt
  have hlen : w.heap.length ≤ h'.length := by
    rcases hh with e | ⟨c, e⟩ <;> simp [e]
  refine ⟨⟨by simp [w']; have := hiso.lt; omega, ?_, ?_⟩, hx, ?_⟩
  · rw [hx]; exact Nat.lt_of_lt_of_le hiso.arrLt hlen
  · intro j hj hjx
    rw [hx]
    have hj' : j < w.hs.length + 1 := by simpa [w'] using hj
    by_cases hjl : j = w.hs.length
    · subst hjl
      have : getH w' w.hs.length = r' := getD_append_len w.hs r'
      rw [this]
      rcases ha with e | ⟨k, hk, hkx, e⟩
      · have := hiso.arrLt; omega
      · rw [e]; exact hiso.alone k hk hkx
    · have hjlt : j < w.hs.length := by omega
      have : getH w' j = getH w j := getD_append_lt w.hs r' j hjlt
      rw [this]
      exact hiso.alone j hjlt hjx
  · rcases hh with e | ⟨c, e⟩
    · simp [w', e]
    · simp only [w', e]; exact cells_append_lt _ _ _ hiso.arrLt

theorem prim_iso (w : W) (x : Nat) (op : Op) (hiso : Iso w x) (hs : subject op ≠ some x) :
    Iso (prim w op) x ∧ getH (prim w op) x = getH w x ∧
      cells (prim w op).heap (getH w x).back.arr = cells w.heap (getH w x).back.arr := by
  cases op with
  | mk b =>
    exact push_iso w x _ _ w.hidden w.exported hiso (Or.inr ⟨_, rfl⟩) (Or.inl (by simp [allocSlice]))
  | clone i cap =>
    exact push_iso w x _ _ w.hidden w.exported hiso (Or.inr ⟨_, rfl⟩) (Or.inl (by simp [allocSlice]))
  | emit i =>
    exact push_iso w x _ _ _ w.exported hiso (Or.inr ⟨_, rfl⟩) (Or.inl (by simp [allocSlice]))
  | copy i =>
    have hix : i ≠ x := fun e => hs (by simp [subject, e])
    by_cases hi : i < w.hs.length
    · rw [prim, if_pos hi]
      exact push_iso w x _ _ w.hidden w.exported hiso (Or.inl rfl) (Or.inr ⟨i, hi, hix, rfl⟩)
    · rw [prim, if_neg hi]; exact ⟨hiso, rfl, rfl⟩
  | clip i =>
    have hix : i ≠ x := fun e => hs (by simp [subject, e])
    by_cases hi : i < w.hs.length
    · rw [prim, if_pos hi]
      exact push_iso w x _ _ w.hidden w.exported hiso (Or.inl rfl) (Or.inr ⟨i, hi, hix, rfl⟩)
    · rw [prim, if_neg hi]; exact ⟨hiso, rfl, rfl⟩
  | body i v =>
    have hix : i ≠ x := fun e => hs (by simp [subject, e])
    by_cases hi : i < w.hs.length
    · rw [prim, if_pos hi]
      exact upd_iso w x i w.heap _ w.tbl hiso hi hix (FrameOK.of_back _ _ _ rfl)
    · rw [prim, if_neg hi]; exact ⟨hiso, rfl, rfl⟩
  | add i a b cap =>
    have hix : i ≠ x := fun e => hs (by simp [subject, e])
    by_cases hi : i < w.hs.length
    · rw [prim, if_pos hi]
      exact upd_iso w x i _ _ _ hiso hi hix (addAttributes_frame _ _ _ _)
    · rw [prim, if_neg hi]; exact ⟨hiso, rfl, rfl⟩
  | add1 i k v cap =>
    have hix : i ≠ x := fun e => hs (by simp [subject, e])
    by_cases hi : i < w.hs.length
    · rw [prim, if_pos hi]
      exact upd_iso w x i _ _ w.tbl hiso hi hix (addAttributes_frame _ _ _ _)
    · rw [prim, if_neg hi]; exact ⟨hiso, rfl, rfl⟩
  | set i a b cap =>
    have hix : i ≠ x := fun e => hs (by simp [subject, e])
    by_cases hi : i < w.hs.length
    · rw [prim, if_pos hi]
      exact upd_iso w x i _ _ _ hiso hi hix (setAttributes_frame _ _ _ _)
    · rw [prim, if_neg hi]; exact ⟨hiso, rfl, rfl⟩
  | wr k key v => exact ⟨⟨hiso.lt, hiso.arrLt, hiso.alone⟩, rfl, rfl⟩
  | flush => exact ⟨⟨hiso.lt, hiso.arrLt, hiso.alone⟩, rfl, rfl⟩

/-- any script that never writes through (or struct-copies) handle `x` leaves what `x` shows unchanged -/
theorem run_iso (w : W) (x : Nat) (ops : List Op) (hiso : Iso w x) (hs : ∀ op ∈ ops, subject op ≠ some x) :
    Iso (run w ops) x ∧ view (run w ops).heap (getH (run w ops) x) = view w.heap (getH w x) := by
  induction ops generalizing w with
  | nil => exact ⟨hiso, rfl⟩
  | cons op rest ih =>
    obtain ⟨h1, h2, h3⟩ := prim_iso w x op hiso (hs op (by simp))
    obtain ⟨i1, i2⟩ := ih (prim w op) h1 (fun o ho => hs o (by simp [ho]))
    refine ⟨i1, ?_⟩
    show view (run (prim w op) rest).heap (getH (run (prim w op) rest) x) = _
    rw [i2]
    simp only [view, attrs, viewBack, h2, h3]

/-- every handle's `back` points at an allocated array -/
def Valid (w : W) : Prop := ∀ j, j < w.hs.length → (getH w j).back.arr < w.heap.length

theorem upd_valid (w : W) (i : Nat) (h' : Heap) (r' : R) (tbl' : List KV) (hv : Valid w) (hi : i < w.hs.length)
    (hf : FrameOK w.heap (getH w i) h' r') : Valid { w with heap := h', hs := w.hs.set i r', tbl := tbl' } := by
  intro j hj
  have hj' : j < w.hs.length := by simpa using hj
  by_cases hji : j = i
  · subst hji
    have : getH { w with heap := h', hs := w.hs.set j r', tbl := tbl' } j = r' := getH_set_self w.hs j r' hi
    rw [this]; exact hf.valid (hv j hi)
  · have : getH { w with heap := h', hs := w.hs.set i r', tbl := tbl' } j = getH w j := getH_set_ne w i j r' (Ne.symm hji)
    rw [this]; exact Nat.lt_of_lt_of_le (hv j hj') hf.len

theorem push_valid (w : W) (h' : Heap) (r' : R) (hid ex : List Nat) (hv : Valid w) (hl : w.heap.length ≤ h'.length)
    (hr : r'.back.arr < h'.length) : Valid { w with heap := h', hs := w.hs ++ [r'], hidden := hid, exported := ex } := by
  intro j hj
  have hj' : j < w.hs.length + 1 := by simpa using hj
  by_cases hjl : j = w.hs.length
  · subst hjl
    have : getH { w with heap := h', hs := w.hs ++ [r'], hidden := hid, exported := ex } w.hs.length = r' :=
      getD_append_len w.hs r'
    rw [this]; exact hr
  · have hjlt : j < w.hs.length := by omega
    have : getH { w with heap := h', hs := w.hs ++ [r'], hidden := hid, exported := ex } j = getH w j :=
      getD_append_lt w.hs r' j hjlt
    rw [this]; exact Nat.lt_of_lt_of_le (hv j hjlt) hl

theorem prim_valid (w : W) (op : Op) (hv : Valid w) : Valid (prim w op) := by
  cases op with
  | mk b => exact push_valid w _ _ _ _ hv (by simp [allocSlice]) (by simp [allocSlice])
  | clone i cap => exact push_valid w _ _ _ _ hv (by simp [allocSlice]) (by simp [allocSlice])
  | emit i => exact push_valid w _ _ _ _ hv (by simp [allocSlice]) (by simp [allocSlice])
  | copy i =>
    by_cases hi : i < w.hs.length
    · rw [prim, if_pos hi]; exact push_valid w _ _ w.hidden w.exported hv (Nat.le_refl _) (hv i hi)
    · rw [prim, if_neg hi]; exact hv
  | clip i =>
    by_cases hi : i < w.hs.length
    · rw [prim, if_pos hi]; exact push_valid w _ _ w.hidden w.exported hv (Nat.le_refl _) (hv i hi)
    · rw [prim, if_neg hi]; exact hv
  | body i v =>
    by_cases hi : i < w.hs.length
    · rw [prim, if_pos hi]; exact upd_valid w i w.heap _ w.tbl hv hi (FrameOK.of_back _ _ _ rfl)
    · rw [prim, if_neg hi]; exact hv
  | add i a b cap =>
    by_cases hi : i < w.hs.length
    · rw [prim, if_pos hi]; exact upd_valid w i _ _ _ hv hi (addAttributes_frame _ _ _ _)
    · rw [prim, if_neg hi]; exact hv
  | add1 i k v cap =>
    by_cases hi : i < w.hs.length
    · rw [prim, if_pos hi]; exact upd_valid w i _ _ w.tbl hv hi (addAttributes_frame _ _ _ _)
    · rw [prim, if_neg hi]; exact hv
  | set i a b cap =>
    by_cases hi : i < w.hs.length
    · rw [prim, if_pos hi]; exact upd_valid w i _ _ _ hv hi (setAttributes_frame _ _ _ _)
    · rw [prim, if_neg hi]; exact hv
  | wr k key v => exact hv
  | flush => exact hv

theorem run_valid (w : W) (ops : List Op) (hv : Valid w) : Valid (run w ops) := by
  induction ops generalizing w with
  | nil => exact hv
  | cons op rest ih => exact ih (prim w op) (prim_valid w op hv)

theorem take_pad (l : List KV) (n : Nat) : (pad l n).take l.length = l := by
  simp [pad]

/-- a fresh clone of handle `i` (pushed as handle `w.hs.length`): same view, own array -/
theorem fresh_iso (w : W) (i cap : Nat) (hid ex : List Nat) (hv : Valid w) :
    let r := getH w i
    let p := allocSlice w.heap (viewBack w.heap r.back) cap
    let w' : W := { w with heap := p.1, hs := w.hs ++ [{ r with back := p.2 }], hidden := hid, exported := ex }
    Iso w' w.hs.length ∧ view w'.heap (getH w' w.hs.length) = view w.heap (getH w i) := by
  intro r p w'
  have hx : getH w' w.hs.length = { r with back := p.2 } := getD_append_len w.hs _
  refine ⟨⟨by simp [w'], ?_, ?_⟩, ?_⟩
  · rw [hx]; simp [w', p, allocSlice]
  · intro j hj hne
    rw [hx]
    have hj' : j < w.hs.length + 1 := by simpa [w'] using hj
    have hjlt : j < w.hs.length := by omega
    have : getH w' j = getH w j := getD_append_lt w.hs _ j hjlt
    rw [this]
    have := hv j hjlt
    simp only [p, allocSlice]
    omega
  · rw [hx]
    simp only [view, attrs, viewBack, w', p, allocSlice, cells]
    congr 2
    simp only [List.getD_eq_getElem?_getD, List.getElem?_append_right (Nat.le_refl _), Nat.sub_self,
      List.getElem?_cons_zero, Option.getD_some]
    exact take_pad _ cap

end Otel.C06.Rec
