/-
C06 — property theorems about the log batch processor LTS (Model.lean), for every reachable state, i.e.
every interleaving of any number of emitters, ForceFlush callers and Shutdown callers with the poll
goroutine and the exportSync goroutine, every queue capacity, batch size and export-buffer size, every
exporter result and delay, the poll ticker firing at any moment, ForceFlush contexts expiring at any moment.
-/
import Otel.C06.Lemmas4
namespace Otel.C06

variable {cap batch buf : Nat}

/-- L1 — no record is ever handed to the exporter twice (`Spec.once` of the exporter's log). -/
theorem blrp_once (s : St) (h : Reachable cap batch buf s) : Spec.once s.exported = true := by
  have hi := (inv_reachable cap batch buf s h).a
  simp only [Spec.once, decide_eq_true_eq]
  rw [List.nodup_iff_count]
  intro a
  have h1 := hi.cnt a
  have h2 := (List.nodup_iff_count.mp hi.nodup) a
  simp only [allIds, List.count_append] at h1
  omega

/-- conservation: every accepted record is in exactly one place — on its way into the queue, in the ring,
in Shutdown's flushed slice, in the export buffer, in the request being exported, in the exporter's log,
overwritten as the oldest (counted by `dropped`), or discarded by a stopped buffer exporter. -/
theorem blrp_conservation (s : St) (h : Reachable cap batch buf s) (a : Nat) :
    (allIds s).count a = (if a ∈ s.accepted then 1 else 0) := by
  have hi := (inv_reachable cap batch buf s h).a
  rw [hi.cnt a]
  split
  · rename_i hm
    have := (List.nodup_iff_count.mp hi.nodup) a
    have hp : 0 < s.accepted.count a := List.count_pos_iff.mpr hm
    omega
  · rename_i hm
    exact List.count_eq_zero.mpr hm

/-- the overwritten-oldest records are exactly what the `dropped` counter has counted (its current value
plus what `Dropped()` already handed to the poll loop's warning); the ring never exceeds its capacity. -/
theorem blrp_dropped_counted (s : St) (h : Reachable cap batch buf s) :
    s.droppedIds.length = s.dropCtr + s.warned ∧ s.q.length ≤ cap := by
  have hi := (inv_reachable cap batch buf s h).b
  have hc := reachable_cfg cap batch buf s h
  exact ⟨hi.ctr, hc.1 ▸ hi.qlen⟩

/-- L2 — no exporter call is larger than the configured maximum batch size. -/
theorem blrp_chunk_bound (s : St) (h : Reachable cap batch buf s) : Spec.chunkBound batch s.exported = true := by
  have hi := (inv_reachable cap batch buf s h).b
  have hc := reachable_cfg cap batch buf s h
  simp only [Spec.chunkBound, List.all_eq_true, decide_eq_true_eq]
  intro b hb
  exact hc.2.1 ▸ hi.expB b hb

/-- no invention — only records that passed `OnEmit`'s stopped check are exported. -/
theorem blrp_only_emitted (s : St) (h : Reachable cap batch buf s) : Spec.onlyEmitted s.exported s.accepted = true := by
  have hi := (inv_reachable cap batch buf s h).a
  simp only [Spec.onlyEmitted, List.all_eq_true, List.contains_iff_mem]
  intro a ha
  have h1 := hi.cnt a
  have hp : 0 < s.exported.flatten.count a := List.count_pos_iff.mpr ha
  simp only [allIds, List.count_append] at h1
  exact List.count_pos_iff.mp (by omega)

/-- the chunker, as a function — whatever the inner exporter returns for each call (`res`: nil, an ordinary error,
context.Canceled, context.DeadlineExceeded, … in any pattern), the calls made by `chunkExporter.Export` for a
request `l` are: every record of `l` exactly once, in order (the concatenation of the calls is `l`), each call
non-empty and no larger than the batch size; the returned error is non-nil iff some call failed. No error ends
the loop. -/
theorem blrp_chunker_total (size : Nat) (hpos : 1 ≤ size) (res : List Bool) (l : List Nat) :
    (chunkExport size l.length res l).1.flatten = l ∧
    (∀ c ∈ (chunkExport size l.length res l).1, c.length ≤ size ∧ c ≠ []) ∧
    ((chunkExport size l.length res l).2 = true ↔
      ∃ i, i < (chunkExport size l.length res l).1.length ∧ res.getD i true = false) :=
  chunkExport_spec size hpos l.length res l (Nat.le_refl _)

/-- the chunker, on the LTS — from any reachable state in which exportSync holds a request (`have`), running its
`eStart` / `eEnd result` steps with ANY results appends exactly the calls of `chunkExport` to the exporter's log
and leaves exportSync idle with nothing left over; the states passed are reachable, so all other theorems hold
along the way. -/
theorem blrp_chunker_lts (s : St) (h : Reachable cap batch buf s) (hpos : 1 ≤ batch) (res : List Bool)
    (hh : s.eph = .have) (hne : s.curRem ≠ []) :
    ∃ s', exportLoop s.curRem.length res s = some s' ∧ Reachable cap batch buf s' ∧ s'.eph = .idle ∧ s'.curRem = [] ∧
      s'.exported = s.exported ++ (chunkExport batch s.curRem.length res s.curRem).1 := by
  have hc := reachable_cfg cap batch buf s h
  obtain ⟨s', hs', hi, hr, hx⟩ := exportLoop_spec s.curRem.length res s (hc.2.1 ▸ hpos) hh hne (Nat.le_refl _)
  exact ⟨s', hs', exportLoop_reachable _ _ _ _ h hs', hi, hr, hc.2.1 ▸ hx⟩

/-- non-vacuity: 5 records, batch size 2, the first two calls fail (say with context.DeadlineExceeded and
context.Canceled): still three calls [1,2] [3,4] [5], error reported. -/
example : chunkExport 2 5 [false, false, true] [1, 2, 3, 4, 5] = ([[1, 2], [3, 4], [5]], true) := by decide

/-- L3 — the exporter's `Export` is entered only by the exportSync goroutine, only while it is not already
inside an `Export` call (phase `have` → `busy`), with one chunk; and it leaves `busy` only through the return
of that call. Hence two `Export` calls never overlap. -/
theorem blrp_exclusive (s s' : St) (l : Lbl) (_h : Reachable cap batch buf s) (hs : step s l = some s') :
    (s'.exported ≠ s.exported →
      l = .eStart ∧ s.eph = .have ∧ s'.eph = .busy ∧ s'.exported = s.exported ++ [s.curRem.take s.batch]) ∧
    (s.eph = .busy → s'.eph ≠ .busy → ∃ ok, l = .eEnd ok) := by
  rcases step_frame s s' l hs with hf | rfl | rfl | ⟨ok, rfl⟩ | rfl | ⟨k, ok, rfl⟩
  · exact ⟨fun hne => absurd hf.1 hne, fun hb hnb => absurd (hf.2.2 ▸ hb) hnb⟩
  all_goals (
    simp only [step] at hs
    repeat' (split at hs)
    all_goals (try (simp at hs))
    all_goals (try subst hs)
    all_goals (first | simp_all | skip))

/-- L3, the timeout — `timeoutExporter` is a synchronous wrapper. While exportSync is inside the user exporter's
`Export`, no step other than that call's own return (`eEnd`) ends the call or starts another one: not the expiry of
the per-export timeout (`eTimeout`, which changes nothing at all — it only cancels the context handed to the
exporter), not any step of any other goroutine. So mutual exclusion of `Export` calls, and with it "nothing runs
after Shutdown returned", do not depend on the user exporter honouring its context: an exporter that ignores the
deadline delays the following exports, it never overlaps them. -/
theorem blrp_export_synchronous (s s' : St) (l : Lbl) (h : Reachable cap batch buf s) (hs : step s l = some s')
    (hb : s.eph = .busy) (hl : ∀ ok, l ≠ .eEnd ok) :
    s'.eph = .busy ∧ s'.exported = s.exported ∧ (l = .eTimeout → s' = s) := by
  have hx := blrp_exclusive s s' l h hs
  refine ⟨?_, ?_, ?_⟩
  · apply Classical.byContradiction
    intro hn
    obtain ⟨ok, hok⟩ := hx.2 hb hn
    exact hl ok hok
  · apply Classical.byContradiction
    intro hn
    have := (hx.1 hn).2.1
    rw [hb] at this
    exact EPhase.noConfusion this
  · intro he
    subst he
    simp only [step, hb, if_true] at hs
    exact (Option.some.inj hs).symm

/-- L6 (partial: not for the early nil return of an `F38_applies` call) — nothing is exported after the Shutdown
call that performed the shutdown has returned nil: from then
on no step changes the exporter's log (the exportSync goroutine has exited). -/
theorem blrp_quiet_after_shutdown (s s' : St) (l : Lbl) (h : Reachable cap batch buf s)
    (hret : s.sdRetOk = true) (hs : step s l = some s') : s'.exported = s.exported ∧ s'.sdRetOk = true := by
  have hc := (inv_reachable cap batch buf s h).c
  have hsd := hc.retSd hret
  have hex := hc.shutExited (Or.inr hsd)
  rcases step_frame s s' l hs with hf | rfl | rfl | ⟨ok, rfl⟩ | rfl | ⟨k, ok, rfl⟩
  · exact ⟨hf.1, hf.2.1 ▸ hret⟩
  all_goals (
    simp only [step] at hs
    repeat' (split at hs)
    all_goals (try (simp at hs))
    all_goals (try subst hs)
    all_goals (first | simp_all | skip))

/-- L5 for `Shutdown` (partial: the call that won `stopped.Swap`, i.e. not an `F38_applies` call; a call made
after a completed Shutdown is a no-op) — when the Shutdown call that performed the shutdown has returned nil, every record whose
Emit had returned when it set the `stopped` flag (a superset of those emitted before the call) has been handed
to the exporter or was overwritten as the oldest (and counted); in the oracle's counting form: the number of
such records missing from the exporter's log is at most what the `dropped` counter has counted. -/
theorem blrp_shutdown_delivers (s : St) (h : Reachable cap batch buf s) (hret : s.sdRetOk = true) :
    (∀ id ∈ s.sdPre, id ∈ s.exported.flatten ∨ id ∈ s.droppedIds) ∧
    Spec.delivered s.sdPre s.exported (s.dropCtr + s.warned) = true := by
  suffices hm : ∀ id ∈ s.sdPre, id ∈ s.exported.flatten ∨ id ∈ s.droppedIds from
    ⟨hm, delivered_of_mem _ _ _ _ hm (Nat.le_of_eq (inv_reachable cap batch buf s h).b.ctr)⟩
  have hi := inv_reachable cap batch buf s h
  have hsd := hi.c.retSd hret
  have hex := hi.c.shutExited (Or.inr hsd)
  have hin := (hi.c.exitedIn hex).1
  have hcur := hi.a0.idleRem (Or.inr hex)
  have hhold : s.hold = [] := by
    apply Classical.byContradiction
    intro hne
    rcases hi.a0.holdPh hne with h' | h' <;> simp [h'] at hsd
  intro id hid
  have := hi.f.flOK (by simp [sdLate, hsd]) id hid
  simpa [P2, P3, hin, hcur, hhold] using this

/-- L5 for `ForceFlush`, partial: when a ForceFlush has returned nil and no Shutdown had started by then
(`¬ F22_applies`), every record whose Emit had returned before it was called has been handed to the exporter
or was overwritten as the oldest (and counted). -/
theorem blrp_delivers_partial (s : St) (h : Reachable cap batch buf s) (f : FF) (hf : f ∈ s.ffs)
    (hret : f.ph = .retOk ∨ f.ph = .retEarly ∨ f.ph = .retEarlyBuf) (hno : F22_applies f = false) :
    (∀ id ∈ f.pre, id ∈ s.exported.flatten ∨ id ∈ s.droppedIds) ∧
    Spec.delivered f.pre s.exported (s.dropCtr + s.warned) = true := by
  suffices hm : ∀ id ∈ f.pre, id ∈ s.exported.flatten ∨ id ∈ s.droppedIds from
    ⟨hm, delivered_of_mem _ _ _ _ hm (Nat.le_of_eq (inv_reachable cap batch buf s h).b.ctr)⟩
  have hi := (inv_reachable cap batch buf s h).e.ok f hf
  unfold ffOK at hi
  have hseen : f.sdSeen = false := by
    rcases hret with hp | hp | hp <;> simpa [F22_applies, hp] using hno
  rcases hret with hp | hp | hp
  · simp only [hp] at hi
    exact hi hseen
  · simp only [hp] at hi
    simp [hi] at hseen
  · simp only [hp] at hi
    simp [hi] at hseen

/-- F37 exclusion predicate (finding of this check): a `TryDequeue` handed records to the export buffer
while Shutdown held the slice returned by `q.Flush()` and had not yet enqueued it. -/
def F37_applies (s : St) : Bool := s.overtaken

/-- L4, partial — the exporter's log, read in order, is a subsequence of the order in which `queue.Enqueue`
took the records (queue FIFO ∘ dequeue-under-lock ∘ channel FIFO ∘ single consumer ∘ chunking in order), hence
for every emitting goroutine (whatever `gOf` is) its exported records are in its emission order — unless a
dequeue overtook Shutdown's Flush-then-Export pair (`F37_applies`). -/
theorem blrp_fifo_partial (gOf : Nat → Nat) (s : St) (h : Reachable cap batch buf s) (hno : F37_applies s = false) :
    s.exported.flatten.Sublist s.enqd ∧ Spec.fifoOK gOf s.enqd s.exported.flatten = true := by
  have hg := (inv_reachable cap batch buf s h).g.fifo hno
  have : s.exported.flatten.Sublist s.enqd := by
    refine List.Sublist.trans ?_ hg
    simp only [fifoList, List.append_assoc]
    exact List.sublist_append_left _ _
  exact ⟨this, fifoOK_of_sublist gOf _ _ this⟩

/-- the full statement of L4 (no exclusion) — NOT a theorem of the current code, see the witness below -/
def blrp_fifo_full_statement : Prop :=
  ∀ (cap batch buf : Nat) (gOf : Nat → Nat) s, Reachable cap batch buf s →
    Spec.fifoOK gOf s.enqd s.exported.flatten = true

/-- the schedule of F37: record 1 is queued; the same goroutine's Emit of record 2 and a ForceFlush both pass
their `stopped` checks; Shutdown sets `stopped`, stops the poll goroutine and flushes the queue (record 1 is
now in its local slice); the Emit enqueues record 2; the ForceFlush dequeues it into the export buffer;
only then Shutdown enqueues its slice. The exporter receives 2 before 1. -/
def f37Schedule : List Lbl :=
  [.accept 1, .enq 1, .accept 2, .ffCall 7, .ffCheck 7, .sdCall 1, .sdSwap 1, .sdKill, .pKill, .sdFlush,
   .enq 2, .ffDequeue 7, .sdLock, .sdSend, .eRecv, .eStart, .eEnd true, .eRecv, .eStart]

theorem blrp_fifo_overtake_witness :
    ∃ s, run (init 4 2 2) f37Schedule = some s ∧ F37_applies s = true ∧ s.enqd = [1, 2] ∧ s.exported = [[2], [1]] ∧
      Spec.fifoOK (fun _ => 0) s.enqd s.exported.flatten = false := by
  refine ⟨_, rfl, ?_⟩
  decide

theorem blrp_fifo_full_statement_refuted : ¬ blrp_fifo_full_statement := by
  intro hfull
  obtain ⟨s, hrun, _, _, _, hbad⟩ := blrp_fifo_overtake_witness
  have hreach : Reachable 4 2 2 s := run_reachable _ _ _ Reachable.init hrun
  have := hfull 4 2 2 (fun _ => 0) s hreach
  rw [this] at hbad
  exact Bool.noConfusion hbad

/-- the full statement of L5 for ForceFlush (every nil return) — NOT a theorem of the current code -/
def blrp_delivers_full_statement : Prop :=
  ∀ (cap batch buf : Nat) s, Reachable cap batch buf s →
    ∀ f ∈ s.ffs, (f.ph = .retOk ∨ f.ph = .retEarly ∨ f.ph = .retEarlyBuf) →
      ∀ id ∈ f.pre, id ∈ s.exported.flatten ∨ id ∈ s.droppedIds

/-- the schedule of F22: record 1 is inside the exporter, record 2 is queued, Shutdown is called and sets
`stopped`; a ForceFlush then returns nil at once although record 2 has not been exported. -/
def f22Schedule : List Lbl :=
  [.accept 1, .enq 1, .pTrig, .eRecv, .eStart, .accept 2, .enq 2, .sdCall 1, .sdSwap 1, .ffCall 7, .ffCheck 7]

theorem blrp_forceflush_early_return_witness :
    ∃ s, run (init 4 1 1) f22Schedule = some s ∧
      ∃ f ∈ s.ffs, F22_applies f = true ∧ f.ph = .retEarly ∧
        ∃ id ∈ f.pre, ¬ (id ∈ s.exported.flatten ∨ id ∈ s.droppedIds) := by
  refine ⟨_, rfl, ?_⟩
  decide

/-- F22 on the normal path: the ForceFlush passed the `stopped` check before Shutdown set the flag; Shutdown
flushed the queue into its local slice; the ForceFlush finds the queue empty, its marker is answered, it
returns nil while record 1 is still in Shutdown's hands. -/
def f22Schedule2 : List Lbl :=
  [.accept 1, .enq 1, .ffCall 7, .ffCheck 7, .sdCall 1, .sdSwap 1, .sdKill, .pKill, .sdFlush,
   .ffDequeue 7, .ffLock 7, .ffSend 7, .eRecv, .ffReturn 7 true]

theorem blrp_forceflush_raced_return_witness :
    ∃ s, run (init 4 2 1) f22Schedule2 = some s ∧
      ∃ f ∈ s.ffs, F22_applies f = true ∧ f.ph = .retOk ∧
        ∃ id ∈ f.pre, ¬ (id ∈ s.exported.flatten ∨ id ∈ s.droppedIds) := by
  refine ⟨_, rfl, ?_⟩
  decide

theorem blrp_delivers_full_statement_refuted : ¬ blrp_delivers_full_statement := by
  intro hfull
  obtain ⟨s, hrun, f, hf, _, hph, id, hid, hno⟩ := blrp_forceflush_early_return_witness
  have hreach : Reachable 4 1 1 s := run_reachable _ _ _ Reachable.init hrun
  exact hno (hfull 4 1 1 s hreach f hf (Or.inr (Or.inl hph)) id hid)

/-- the full statement of L5/L6 for every Shutdown call that returns nil — NOT a theorem of the current code -/
def blrp_shutdown_full_statement : Prop :=
  ∀ (cap batch buf : Nat) s, Reachable cap batch buf s →
    ∀ c ∈ s.sds, (c.ph = .retOk ∨ c.ph = .retEarly) → ∀ id ∈ c.pre, id ∈ s.exported.flatten ∨ id ∈ s.droppedIds

/-- F38, Shutdown itself: a second Shutdown call loses `stopped.Swap(true)` against the one in progress
and returns nil at once; record 1 is handed to the exporter only afterwards (so both "delivered at return"
and "nothing exported after Shutdown returned" fail for that call). -/
def f38Schedule : List Lbl :=
  [.accept 1, .enq 1, .sdCall 1, .sdSwap 1, .sdCall 2, .sdSwap 2]

theorem blrp_second_shutdown_early_return_witness :
    ∃ s, run (init 4 2 1) f38Schedule = some s ∧
      (∃ c ∈ s.sds, F38_applies c = true ∧ ∃ id ∈ c.pre, ¬ (id ∈ s.exported.flatten ∨ id ∈ s.droppedIds)) ∧
      ∃ s', run s [.sdKill, .pKill, .sdFlush, .sdLock, .sdSend, .eRecv, .eStart] = some s' ∧
        s'.exported = [[1]] ∧ s.exported = [] := by
  refine ⟨_, rfl, ?_, _, rfl, ?_⟩ <;> decide

theorem blrp_shutdown_full_statement_refuted : ¬ blrp_shutdown_full_statement := by
  intro hfull
  obtain ⟨s, hrun, ⟨c, hc, hF, id, hid, hno⟩, _⟩ := blrp_second_shutdown_early_return_witness
  have hreach : Reachable 4 2 1 s := run_reachable _ _ _ Reachable.init hrun
  have hph : c.ph = .retEarly := by
    simp only [F38_applies, Bool.and_eq_true, beq_iff_eq] at hF
    exact hF.1
  exact hno (hfull 4 2 1 s hreach c hc (Or.inr hph) id hid)

/-- non-vacuity: a reachable state with an overwritten record, a poll-triggered export, a ForceFlush that
returned nil normally after a chunked export (3 records, batch 2), an exporter error, and a completed
Shutdown that flushed the rest. -/
def demoSchedule : List Lbl :=
  [.accept 1, .enq 1, .accept 2, .enq 2, .pTrig, .eRecv, .eStart,             -- [1,2] handed over by the poll loop
   .accept 3, .enq 3, .accept 4, .enq 4, .accept 5, .enq 5, .accept 6, .enq 6, -- cap 3: record 3 is overwritten
   .eEnd false,                                                               -- exporter error
   .ffCall 1, .ffCheck 1, .ffDequeue 1, .ffLock 1, .ffSend 1,
   .eRecv, .eStart, .eEnd true, .eStart, .eEnd true, .eRecv, .ffReturn 1 true,  -- [4,5] and [6], marker answered
   .accept 7, .enq 7, .sdCall 1, .sdSwap 1, .sdKill, .pKill, .sdFlush, .sdLock, .sdSend,
   .eRecv, .eStart, .eEnd true, .sdBufStop, .sdClose, .eExit, .sdExpShutdown, .sdReturn 1 true]

example : ∃ s, run (init 3 2 2) demoSchedule = some s ∧ s.exported = [[1, 2], [4, 5], [6], [7]] ∧
    s.droppedIds = [3] ∧ s.sdRetOk = true ∧ s.eph = .exited ∧ F37_applies s = false ∧
    s.ffs.any (fun f => f.ph == .retOk && !F22_applies f && f.pre == [6, 5, 4, 3, 2, 1]) = true := by
  refine ⟨_, rfl, ?_⟩
  decide

end Otel.C06
