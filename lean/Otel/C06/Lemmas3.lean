import Otel.C06.Lemmas2
namespace Otel.C06

/-! ### Part E: ForceFlush delivery -/

def isNot (fid : Nat) (x : Req) : Bool := x != .marker fid

def P1 (s : St) (fid id : Nat) : Prop :=
  id ∈ recsOf (s.input.takeWhile (isNot fid)) ∨ id ∈ s.curRem ∨ P3 s id

def ffOK (s : St) (f : FF) : Prop :=
  match f.ph with
  | .called | .checked => ∀ id ∈ f.pre, id ∈ s.seen
  | .dequeued | .locked => s.stopped = false → ∀ id ∈ f.pre, P2 s id
  | .waiting => s.stopped = false → ∀ id ∈ f.pre, P1 s f.fid id
  | .responded => s.stopped = false → ∀ id ∈ f.pre, P3 s id
  | .retOk => f.sdSeen = false → ∀ id ∈ f.pre, P3 s id
  | .retEarly | .retEarlyBuf => f.sdSeen = true
  | .retErr => True

/-- the marker of this call has been sent -/
def sent (p : FPhase) : Prop := p ≠ .called ∧ p ≠ .checked ∧ p ≠ .dequeued ∧ p ≠ .locked

structure InvE (s : St) : Prop where
  ok : ∀ f ∈ s.ffs, ffOK s f
  uniq : (s.ffs.map (·.fid)).Nodup
  markerHas : ∀ fid, Req.marker fid ∈ s.input → ∃ f ∈ s.ffs, f.fid = fid
  markerPh : ∀ fid, Req.marker fid ∈ s.input → ∀ f ∈ s.ffs, f.fid = fid → sent f.ph

theorem ffOK_mono (s s' : St) (f : FF)
    (hseen : ∀ id, id ∈ s.seen → id ∈ s'.seen)
    (hst : s'.stopped = false → s.stopped = false)
    (h1 : ∀ fid id, P1 s fid id → P1 s' fid id)
    (h2 : ∀ id, P2 s id → P2 s' id)
    (h3 : ∀ id, P3 s id → P3 s' id) (h : ffOK s f) : ffOK s' f := by
  unfold ffOK at h ⊢
  cases hp : f.ph <;> simp only [hp] at h ⊢
  · exact fun id hid => hseen id (h id hid)
  · exact fun id hid => hseen id (h id hid)
  · exact fun hs id hid => h2 id (h (hst hs) id hid)
  · exact fun hs id hid => h2 id (h (hst hs) id hid)
  · exact fun hs id hid => h1 _ id (h (hst hs) id hid)
  · exact fun hs id hid => h3 id (h (hst hs) id hid)
  · exact fun hs id hid => h3 id (h hs id hid)
  · exact h
  · exact h

theorem recsOf_takeWhile_append (p : Req → Bool) (q r : List Req) (id : Nat)
    (h : id ∈ recsOf (q.takeWhile p)) : id ∈ recsOf ((q ++ r).takeWhile p) := by
  induction q with
  | nil => simp [recsOf] at h
  | cons x q ih =>
    simp only [List.cons_append, List.takeWhile_cons] at h ⊢
    split
    · rename_i hp
      simp only [hp, if_true] at h
      cases x <;> simp_all [recsOf]
      rcases h with h | h
      · exact Or.inl h
      · exact Or.inr (ih h)
    · rename_i hp
      simp [hp, recsOf] at h

theorem isNot_recs (fid : Nat) (l : List Nat) (b : Bool) : isNot fid (.recs l b) = true := by
  simp [isNot]

theorem isNot_marker_self (fid : Nat) : isNot fid (.marker fid) = false := by
  simp [isNot]

theorem isNot_marker_ne (fid g : Nat) (h : g ≠ fid) : isNot fid (.marker g) = true := by
  simp [isNot, h]

theorem takeWhile_append_marker (fid : Nat) (q : List Req) (h : Req.marker fid ∉ q) :
    (q ++ [Req.marker fid]).takeWhile (isNot fid) = q := by
  induction q with
  | nil => simp [List.takeWhile_cons, isNot]
  | cons x q ih =>
    simp only [List.mem_cons, not_or] at h
    have hx : isNot fid x = true := by
      simp only [isNot, bne_iff_ne, ne_eq]; exact fun e => h.1 e.symm
    simp only [List.cons_append, List.takeWhile_cons, hx, if_true, ih h.2]

theorem mem_recsOf_takeWhile (p : Req → Bool) (q : List Req) (id : Nat)
    (h : id ∈ recsOf (q.takeWhile p)) : id ∈ recsOf q := by
  induction q with
  | nil => simp [recsOf] at h
  | cons x q ih =>
    simp only [List.takeWhile_cons] at h
    split at h
    · cases x <;> simp_all [recsOf]
      rcases h with h | h
      · exact Or.inl h
      · exact Or.inr (ih h)
    · simp [recsOf] at h

/-- the input grows at its end, the dropped list may grow, everything else that matters is unchanged -/
theorem mono_append (s s' : St) (r : List Req) (hin : s'.input = s.input ++ r) (hc : s'.curRem = s.curRem)
    (he : s'.exported = s.exported) (hd : ∀ id, id ∈ s.droppedIds → id ∈ s'.droppedIds) :
    (∀ fid id, P1 s fid id → P1 s' fid id) ∧ (∀ id, P2 s id → P2 s' id) ∧ (∀ id, P3 s id → P3 s' id) := by
  have h3 : ∀ id, P3 s id → P3 s' id := by
    intro id h
    simp only [P3, he] at h ⊢
    rcases h with h | h
    · exact Or.inl h
    · exact Or.inr (hd id h)
  refine ⟨?_, ?_, h3⟩
  · intro fid id h
    simp only [P1, hin, hc] at h ⊢
    rcases h with h | h | h
    · exact Or.inl (recsOf_takeWhile_append _ _ _ _ h)
    · exact Or.inr (Or.inl h)
    · exact Or.inr (Or.inr (h3 id h))
  · intro id h
    simp only [P2, hin, hc, recsOf_append, List.mem_append] at h ⊢
    rcases h with h | h | h
    · exact Or.inl (Or.inl h)
    · exact Or.inr (Or.inl h)
    · exact Or.inr (Or.inr (h3 id h))

/-- agreement on the components the invariant reads (seen / dropped may grow, stopped may be set) -/
theorem InvE_congr (s s' : St) (h : InvE s) (hf : s'.ffs = s.ffs) (hseen : ∀ id, id ∈ s.seen → id ∈ s'.seen)
    (hst : s'.stopped = false → s.stopped = false) (hin : s'.input = s.input) (hc : s'.curRem = s.curRem)
    (he : s'.exported = s.exported) (hd : ∀ id, id ∈ s.droppedIds → id ∈ s'.droppedIds) : InvE s' := by
  obtain ⟨hok, huniq, hmh, hmp⟩ := h
  have hm := mono_append s s' [] (by simp [hin]) hc he hd
  refine ⟨?_, by rw [hf]; exact huniq, by rw [hf, hin]; exact hmh, by rw [hf, hin]; exact hmp⟩
  intro f hfm
  rw [hf] at hfm
  exact ffOK_mono s s' f hseen hst hm.1 hm.2.1 hm.2.2 (hok f hfm)

theorem InvE_same (s s' : St) (h : InvE s) (hf : s'.ffs = s.ffs) (hseen : s'.seen = s.seen)
    (hst : s'.stopped = s.stopped) (hin : s'.input = s.input) (hc : s'.curRem = s.curRem)
    (he : s'.exported = s.exported) (hd : s'.droppedIds = s.droppedIds) : InvE s' :=
  InvE_congr s s' h hf (by rw [hseen]; exact fun _ h => h) (by rw [hst]; exact fun h => h) hin hc he
    (by rw [hd]; exact fun _ h => h)

theorem mem_append_recs_marker (inp : List Req) (l : List Nat) (b : Bool) (g : Nat) :
    Req.marker g ∈ inp ++ [.recs l b] ↔ Req.marker g ∈ inp := by
  simp

/-- a batch of records is appended to the input -/
theorem InvE_append_recs (s s' : St) (l : List Nat) (b : Bool) (h : InvE s) (hf : s'.ffs = s.ffs)
    (hseen : s'.seen = s.seen) (hst : s'.stopped = s.stopped) (hin : s'.input = s.input ++ [.recs l b])
    (hc : s'.curRem = s.curRem) (he : s'.exported = s.exported) (hd : s'.droppedIds = s.droppedIds) : InvE s' := by
  obtain ⟨hok, huniq, hmh, hmp⟩ := h
  have hm := mono_append s s' _ hin hc he (by rw [hd]; exact fun _ h => h)
  refine ⟨?_, by rw [hf]; exact huniq, ?_, ?_⟩
  · intro f hfm
    rw [hf] at hfm
    exact ffOK_mono s s' f (by rw [hseen]; exact fun _ h => h) (by rw [hst]; exact fun h => h) hm.1 hm.2.1 hm.2.2 (hok f hfm)
  · intro g hg
    rw [hin] at hg; rw [hf]
    exact hmh g ((mem_append_recs_marker _ _ _ _).mp hg)
  · intro g hg
    rw [hin] at hg; rw [hf]
    exact hmp g ((mem_append_recs_marker _ _ _ _).mp hg)

theorem InvE_deq (s s' : St) (n : Nat) (b : Bool) (h : InvE s) (hd : deq s n = some (s', b)) : InvE s' := by
  rcases deq_some s s' n b hd with h1 | ⟨_, _, h1⟩ | ⟨_, _, h1⟩ <;> subst h1
  · exact h
  · exact InvE_same s _ h rfl rfl rfl rfl rfl rfl rfl
  · exact InvE_append_recs s _ _ _ h rfl rfl rfl rfl rfl rfl rfl

theorem InvE_pollWork (s s' : St) (h : InvE s) (hp : pollWork s = some s') : InvE s' := by
  obtain ⟨s2, t, h2, rfl⟩ := pollWork_some s s' hp
  have h1 : InvE { s with warned := s.warned + s.dropCtr, dropCtr := 0 } := InvE_same s _ h rfl rfl rfl rfl rfl rfl rfl
  rcases h2 with rfl | ⟨b, hd⟩
  · exact InvE_same s _ h rfl rfl rfl rfl rfl rfl rfl
  · exact InvE_same s2 _ (InvE_deq _ _ _ _ h1 hd) rfl rfl rfl rfl rfl rfl rfl

/-! #### updates of the ForceFlush pool -/

theorem mem_upd (c : FF → Prop) [DecidablePred c] (g : FF → FF) (ffs : List FF) (f' : FF)
    (h : f' ∈ ffs.map (fun f => if c f then g f else f)) : ∃ f ∈ ffs, f' = if c f then g f else f := by
  simp only [List.mem_map] at h
  obtain ⟨f, hf, he⟩ := h
  exact ⟨f, hf, he.symm⟩

theorem map_fid_upd (c : FF → Prop) [DecidablePred c] (g : FF → FF) (hg : ∀ f, (g f).fid = f.fid) (ffs : List FF) :
    (ffs.map (fun f => if c f then g f else f)).map (·.fid) = ffs.map (·.fid) := by
  simp only [List.map_map]
  congr 1
  funext f
  simp only [Function.comp]
  split
  · exact hg f
  · rfl

/-- a phase change of some entries of the pool; the rest of the state moves monotonically -/
theorem InvE_upd (s s' : St) (c : FF → Prop) [DecidablePred c] (g : FF → FF) (hg : ∀ f, (g f).fid = f.fid)
    (h : InvE s) (hf : s'.ffs = s.ffs.map (fun f => if c f then g f else f)) (hin : s'.input = s.input)
    (htrans : ∀ f ∈ s.ffs, c f → ffOK s f → ffOK s' (g f))
    (hmono : ∀ f ∈ s.ffs, ffOK s f → ffOK s' f)
    (hsent : ∀ f ∈ s.ffs, c f → sent f.ph → sent (g f).ph) : InvE s' := by
  obtain ⟨hok, huniq, hmh, hmp⟩ := h
  refine ⟨?_, ?_, ?_, ?_⟩
  · intro f' hf'
    rw [hf] at hf'
    obtain ⟨f, hfm, he⟩ := mem_upd c g _ _ hf'
    subst he
    split
    · rename_i hc
      exact htrans f hfm hc (hok f hfm)
    · exact hmono f hfm (hok f hfm)
  · rw [hf, map_fid_upd c g hg]; exact huniq
  · intro fid hm
    rw [hin] at hm
    obtain ⟨f, hfm, he⟩ := hmh fid hm
    rw [hf]
    refine ⟨_, List.mem_map_of_mem (f := fun f => if c f then g f else f) hfm, ?_⟩
    split
    · rw [hg f]; exact he
    · exact he
  · intro fid hm f' hf' hfid
    rw [hin] at hm
    rw [hf] at hf'
    obtain ⟨f, hfm, he⟩ := mem_upd c g _ _ hf'
    subst he
    by_cases hc : c f
    · simp only [hc, if_true] at hfid ⊢
      rw [hg f] at hfid
      exact hsent f hfm hc (hmp fid hm f hfm hfid)
    · simp only [hc, if_false] at hfid ⊢
      exact hmp fid hm f hfm hfid

theorem uniq_fid (ffs : List FF) (h : (ffs.map (·.fid)).Nodup) (f g : FF) (hf : f ∈ ffs) (hg : g ∈ ffs)
    (he : f.fid = g.fid) : f = g := by
  induction ffs with
  | nil => simp at hf
  | cons x r ih =>
    simp only [List.map_cons, List.nodup_cons, List.mem_map, not_exists, not_and] at h
    simp only [List.mem_cons] at hf hg
    rcases hf with hf | hf <;> rcases hg with hg | hg
    · rw [hf, hg]
    · subst hf; exact absurd he.symm (h.1 g hg)
    · subst hg; exact absurd he (h.1 f hf)
    · exact ih h.2 hf hg

theorem hasPh_exists (fid : Nat) (p : FPhase) (ffs : List FF) (h : hasPh fid p ffs = true) :
    ∃ f ∈ ffs, f.fid = fid ∧ f.ph = p := by
  simp only [hasPh, List.any_eq_true, decide_eq_true_eq] at h
  exact h

theorem takeWhile_ne_of_not_mem (fid : Nat) (q : List Req) (h : Req.marker fid ∉ q) :
    q.takeWhile (isNot fid) = q := by
  induction q with
  | nil => rfl
  | cons x q ih =>
    simp only [List.mem_cons, not_or] at h
    have hx : isNot fid x = true := by
      simp only [isNot, bne_iff_ne, ne_eq]; exact fun e => h.1 e.symm
    rw [List.takeWhile_cons, hx]
    simp [ih h.2]

/-- the marker of ForceFlush `fid` is appended; its entry is already in a `sent` phase -/
theorem InvE_append_marker (s s' : St) (fid : Nat) (h : InvE s) (hf : s'.ffs = s.ffs)
    (hseen : s'.seen = s.seen) (hst : s'.stopped = s.stopped) (hin : s'.input = s.input ++ [.marker fid])
    (hc : s'.curRem = s.curRem) (he : s'.exported = s.exported) (hd : s'.droppedIds = s.droppedIds)
    (f0 : FF) (hf0 : f0 ∈ s.ffs) (hfid0 : f0.fid = fid) (hs0 : sent f0.ph) : InvE s' := by
  obtain ⟨hok, huniq, hmh, hmp⟩ := h
  have hm := mono_append s s' _ hin hc he (by rw [hd]; exact fun _ h => h)
  refine ⟨?_, by rw [hf]; exact huniq, ?_, ?_⟩
  · intro f hfm
    rw [hf] at hfm
    exact ffOK_mono s s' f (by rw [hseen]; exact fun _ h => h) (by rw [hst]; exact fun h => h) hm.1 hm.2.1 hm.2.2 (hok f hfm)
  · intro g hg
    rw [hin] at hg; rw [hf]
    simp only [List.mem_append, List.mem_cons, List.not_mem_nil, or_false] at hg
    rcases hg with hg | hg
    · exact hmh g hg
    · cases hg; exact ⟨f0, hf0, hfid0⟩
  · intro g hg f hfm hfid
    rw [hin] at hg; rw [hf] at hfm
    simp only [List.mem_append, List.mem_cons, List.not_mem_nil, or_false] at hg
    rcases hg with hg | hg
    · exact hmp g hg f hfm hfid
    · cases hg
      have : f = f0 := uniq_fid s.ffs huniq f f0 hfm hf0 (hfid.trans hfid0.symm)
      subst this; exact hs0

/-- exportSync takes the head of the input -/
theorem InvE_pop (s s' : St) (x : Req) (rest : List Req) (h : InvE s) (hf : s'.ffs = s.ffs)
    (hseen : s'.seen = s.seen) (hst : s'.stopped = s.stopped) (hq : s.input = x :: rest) (hin : s'.input = rest)
    (hcur : s.curRem = [])
    (hc : s'.curRem = match x with | .recs l _ => l | .marker _ => [])
    (he : s'.exported = s.exported) (hd : s'.droppedIds = s.droppedIds) : InvE s' := by
  obtain ⟨hok, huniq, hmh, hmp⟩ := h
  have h3 : ∀ id, P3 s id → P3 s' id := by
    intro id h; simp only [P3, he, hd] at h ⊢; exact h
  have h2 : ∀ id, P2 s id → P2 s' id := by
    intro id h
    simp only [P2, hq, hin, hcur, List.not_mem_nil, false_or] at h ⊢
    cases x with
    | recs l b =>
      simp only [recsOf, List.mem_append] at h
      simp only at hc
      rw [hc]
      rcases h with (h | h) | h
      · exact Or.inr (Or.inl h)
      · exact Or.inl h
      · exact Or.inr (Or.inr (h3 id h))
    | marker g =>
      simp only [recsOf] at h
      rcases h with h | h
      · exact Or.inl h
      · exact Or.inr (Or.inr (h3 id h))
  have h1 : ∀ fid id, P1 s fid id → P1 s' fid id := by
    intro fid id h
    simp only [P1, hq, hin, hcur, List.not_mem_nil, false_or, List.takeWhile_cons] at h ⊢
    cases x with
    | recs l b =>
      simp only [isNot_recs, if_true, recsOf, List.mem_append] at h
      simp only at hc
      rw [hc]
      rcases h with (h | h) | h
      · exact Or.inr (Or.inl h)
      · exact Or.inl h
      · exact Or.inr (Or.inr (h3 id h))
    | marker g =>
      by_cases hg : g = fid
      · subst hg
        simp only [isNot_marker_self, recsOf] at h
        simp at h
        exact Or.inr (Or.inr (h3 id h))
      · simp only [isNot_marker_ne fid g hg, if_true, recsOf] at h
        rcases h with h | h
        · exact Or.inl h
        · exact Or.inr (Or.inr (h3 id h))
  refine ⟨?_, by rw [hf]; exact huniq, ?_, ?_⟩
  · intro f hfm
    rw [hf] at hfm
    exact ffOK_mono s s' f (by rw [hseen]; exact fun _ h => h) (by rw [hst]; exact fun h => h) h1 h2 h3 (hok f hfm)
  · intro g hg
    rw [hf]
    exact hmh g (by rw [hq]; exact List.mem_cons_of_mem _ (hin ▸ hg))
  · intro g hg
    rw [hf]
    exact hmp g (by rw [hq]; exact List.mem_cons_of_mem _ (hin ▸ hg))

theorem deq_true_q (s s' : St) (h : deq s s.cap = some (s', true)) (hq : s.q.length ≤ s.cap) : s'.q = [] := by
  have hall : s.q.take s.cap = s.q := List.take_of_length_le hq
  have hdrop : s.q.drop s.cap = [] := List.drop_eq_nil_of_le hq
  simp only [deq, hall, hdrop] at h
  split at h
  · rename_i he
    simp at h; subst h; exact he
  · split at h
    · simp at h
    · split at h
      · simp at h; subst h; rfl
      · split at h
        · simp at h; subst h; rfl
        · simp at h

theorem ffOK_id (s : St) (f : FF) (h : ffOK s f) : ffOK s f := h

/-- simple phase changes that leave the rest of the state alone -/
theorem stepE_phase (s : St) (fid : Nat) (a : FPhase) (g : FF → FF) (hg : ∀ f, (g f).fid = f.fid) (h : InvE s)
    (s' : St) (hf : s'.ffs = s.ffs.map (fun f => if f.fid = fid ∧ f.ph = a then g f else f))
    (hseen : s'.seen = s.seen) (hst : s'.stopped = s.stopped) (hin : s'.input = s.input)
    (hc : s'.curRem = s.curRem) (he : s'.exported = s.exported) (hd : s'.droppedIds = s.droppedIds)
    (htrans : ∀ f ∈ s.ffs, f.fid = fid → f.ph = a → ffOK s f → ffOK s (g f))
    (hsent : ∀ f ∈ s.ffs, f.ph = a → sent a → sent (g f).ph) : InvE s' := by
  have hm := mono_append s s' [] (by simp [hin]) hc he (by rw [hd]; exact fun _ h => h)
  have mono : ∀ f, ffOK s f → ffOK s' f := fun f hof =>
    ffOK_mono s s' f (by rw [hseen]; exact fun _ h => h) (by rw [hst]; exact fun h => h) hm.1 hm.2.1 hm.2.2 hof
  refine InvE_upd s s' (fun f => f.fid = fid ∧ f.ph = a) g hg h hf hin ?_ ?_ ?_
  · intro f hfm hc hof
    exact mono _ (htrans f hfm hc.1 hc.2 hof)
  · intro f _ hof; exact mono f hof
  · intro f hfm hc hs
    rw [hc.2] at hs
    exact hsent f hfm hc.2 hs

theorem stepE_eRecv (s s' : St) (h : InvE s) (h0 : InvA0 s) (hs : step s .eRecv = some s') : InvE s' := by
  simp only [step] at hs
  split at hs
  · rename_i hi
    have hcur := h0.idleRem (Or.inl hi)
    split at hs
    · simp at hs
    · rename_i fid rest hq
      simp at hs; subst hs
      -- stage 1: the waiting entry becomes responded (the marker is still at the head)
      have st1 : InvE { s with ffs := setPh fid .waiting .responded s.ffs } := by
        refine stepE_phase s fid .waiting (fun f => { f with ph := .responded }) (fun _ => rfl) h _ rfl rfl rfl rfl rfl rfl rfl ?_ ?_
        · intro f _ hfid hph hof
          unfold ffOK at hof ⊢
          simp only [hph] at hof
          simp only
          intro hst id hid
          have := hof hst id hid
          simp only [P1, hq, hfid, List.takeWhile_cons, isNot_marker_self, hcur] at this
          simpa [recsOf] using this
        · intro f _ _ _; simp [sent]
      exact InvE_pop _ _ (.marker fid) rest st1 rfl rfl rfl hq rfl hcur (by simp [hcur]) rfl rfl
    · rename_i l sync rest hq
      simp at hs; subst hs
      exact InvE_pop s _ (.recs l sync) rest h rfl rfl rfl hq rfl hcur rfl rfl rfl
  · simp at hs

theorem stepE_eStart (s s' : St) (h : InvE s) (hs : step s .eStart = some s') : InvE s' := by
  obtain ⟨hok, huniq, hmh, hmp⟩ := h
  simp only [step] at hs
  split at hs
  · simp at hs; subst hs
    have h3 : ∀ id, P3 s id → P3 { s with eph := .busy, exported := s.exported ++ [s.curRem.take s.batch], curRem := s.curRem.drop s.batch } id := by
      intro id h
      simp only [P3, List.flatten_append, List.flatten_cons, List.flatten_nil, List.append_nil, List.mem_append] at h ⊢
      rcases h with h | h
      · exact Or.inl (Or.inl h)
      · exact Or.inr h
    have hcur : ∀ id, id ∈ s.curRem → id ∈ s.curRem.drop s.batch ∨
        P3 { s with eph := .busy, exported := s.exported ++ [s.curRem.take s.batch], curRem := s.curRem.drop s.batch } id := by
      intro id h
      rcases mem_take_or_drop _ s.batch _ h with h | h
      · right
        simp only [P3, List.flatten_append, List.flatten_cons, List.flatten_nil, List.append_nil, List.mem_append]
        exact Or.inl (Or.inr h)
      · exact Or.inl h
    refine ⟨?_, huniq, hmh, hmp⟩
    intro f hfm
    refine ffOK_mono s _ f (fun _ h => h) (fun h => h) ?_ ?_ h3 (hok f hfm)
    · intro fid id h
      simp only [P1] at h ⊢
      rcases h with h | h | h
      · exact Or.inl h
      · rcases hcur id h with h | h
        · exact Or.inr (Or.inl h)
        · exact Or.inr (Or.inr h)
      · exact Or.inr (Or.inr (h3 id h))
    · intro id h
      simp only [P2] at h ⊢
      rcases h with h | h | h
      · exact Or.inl h
      · rcases hcur id h with h | h
        · exact Or.inr (Or.inl h)
        · exact Or.inr (Or.inr h)
      · exact Or.inr (Or.inr (h3 id h))
  · simp at hs

theorem stepE_ffCall (s s' : St) (fid : Nat) (h : InvE s) (hs : step s (.ffCall fid) = some s') : InvE s' := by
  obtain ⟨hok, huniq, hmh, hmp⟩ := h
  simp only [step] at hs
  split at hs
  · simp at hs
  · rename_i hfresh
    simp at hs; subst hs
    have hfresh' : ∀ f ∈ s.ffs, f.fid ≠ fid := by
      intro f hf he
      apply hfresh
      simp only [List.any_eq_true, decide_eq_true_eq]
      exact ⟨f, hf, he⟩
    refine ⟨?_, ?_, ?_, ?_⟩
    · intro f hf
      simp only [List.mem_cons] at hf
      rcases hf with hf | hf
      · subst hf; simp [ffOK]
      · exact ffOK_mono s _ f (fun _ h => h) (fun h => h) (fun _ _ h => h) (fun _ h => h) (fun _ h => h) (hok f hf)
    · simp only [List.map_cons, List.nodup_cons]
      refine ⟨?_, huniq⟩
      intro hm
      simp only [List.mem_map] at hm
      obtain ⟨f, hf, he⟩ := hm
      exact hfresh' f hf he
    · intro g hm
      obtain ⟨f, hf, he⟩ := hmh g hm
      exact ⟨f, List.mem_cons_of_mem _ hf, he⟩
    · intro g hm f hf hfid
      simp only [List.mem_cons] at hf
      rcases hf with hf | hf
      · subst hf
        obtain ⟨f', hf', he⟩ := hmh g hm
        exact absurd (he.trans hfid.symm) (hfresh' f' hf')
      · exact hmp g hm f hf hfid


theorem stepE_ffCheck (s s' : St) (fid : Nat) (h : InvE s) (hs : step s (.ffCheck fid) = some s') : InvE s' := by
  simp only [step] at hs
  split at hs
  · split at hs
    · simp at hs; subst hs
      refine stepE_phase s fid .called (fun f => { f with ph := .retEarly, sdSeen := true }) (fun _ => rfl) h _
        rfl rfl rfl rfl rfl rfl rfl ?_ ?_
      · intro f _ _ _ _; simp [ffOK]
      · intro f _ _ hs; simp [sent] at hs
    · simp at hs; subst hs
      refine stepE_phase s fid .called (fun f => { f with ph := .checked }) (fun _ => rfl) h _
        rfl rfl rfl rfl rfl rfl rfl ?_ ?_
      · intro f _ _ hph hof
        unfold ffOK at hof ⊢
        simp only [hph] at hof
        exact hof
      · intro f _ _ hs; simp [sent] at hs
  · simp at hs

theorem stepE_ffLock (s s' : St) (fid : Nat) (h : InvE s) (hs : step s (.ffLock fid) = some s') : InvE s' := by
  simp only [step] at hs
  split at hs
  · split at hs
    · simp at hs; subst hs
      refine stepE_phase s fid .dequeued (fun f => { f with ph := .retEarlyBuf, sdSeen := true }) (fun _ => rfl) h _
        rfl rfl rfl rfl rfl rfl rfl ?_ ?_
      · intro f _ _ _ _; simp [ffOK]
      · intro f _ _ hs; simp [sent] at hs
    · simp at hs; subst hs
      refine stepE_phase s fid .dequeued (fun f => { f with ph := .locked }) (fun _ => rfl) h _
        rfl rfl rfl rfl rfl rfl rfl ?_ ?_
      · intro f _ _ hph hof
        unfold ffOK at hof ⊢
        simp only [hph] at hof
        exact hof
      · intro f _ _ hs; simp [sent] at hs
  · simp at hs

theorem stepE_ffReturn (s s' : St) (fid : Nat) (ok : Bool) (h : InvE s)
    (hs : step s (.ffReturn fid ok) = some s') : InvE s' := by
  simp only [step] at hs
  split at hs
  · simp at hs; subst hs
    refine stepE_phase s fid .responded
      (fun f => { f with ph := (if ok then .retOk else .retErr), sdSeen := s.stopped }) (fun _ => rfl) h _
      rfl rfl rfl rfl rfl rfl rfl ?_ ?_
    · intro f _ _ hph hof
      unfold ffOK at hof ⊢
      simp only [hph] at hof
      cases ok
      · simp
      · simp only [if_true]
        exact hof
    · intro f _ _ _; cases ok <;> simp [sent]
  · simp at hs

theorem stepE_ffCancel (s s' : St) (fid : Nat) (h : InvE s) (hs : step s (.ffCancel fid) = some s') : InvE s' := by
  simp only [step] at hs
  split at hs
  · simp at hs; subst hs
    refine stepE_phase s fid .locked (fun f => { f with ph := .retErr }) (fun _ => rfl) h _
      rfl rfl rfl rfl rfl rfl rfl ?_ ?_
    · intro f _ _ _ _; simp [ffOK]
    · intro f _ _ _; simp [sent]
  · simp at hs; subst hs
    refine InvE_upd s _ (fun f => f.fid = fid ∧ (f.ph = .called ∨ f.ph = .checked ∨ f.ph = .dequeued ∨ f.ph = .waiting ∨ f.ph = .responded))
      (fun f => { f with ph := .retErr }) (fun _ => rfl) h rfl rfl ?_ ?_ ?_
    · intro f _ _ _; simp [ffOK]
    · intro f _ hof
      exact ffOK_mono s _ f (fun _ h => h) (fun h => h) (fun _ _ h => h) (fun _ h => h) (fun _ h => h) hof
    · intro f _ _ _; simp [sent]

theorem stepE_ffSend (s s' : St) (fid : Nat) (h : InvE s) (hs : step s (.ffSend fid) = some s') : InvE s' := by
  simp only [step] at hs
  split at hs
  · rename_i hg
    simp at hs; subst hs
    obtain ⟨f0, hf0, hfid0, hph0⟩ := hasPh_exists _ _ _ hg.1
    have hnm : Req.marker fid ∉ s.input := by
      intro hm
      have := h.markerPh fid hm f0 hf0 hfid0
      simp [sent, hph0] at this
    -- stage 1: locked → waiting (no marker in the input yet: the prefix is the whole input)
    have st1 : InvE { s with ffs := setPh fid .locked .waiting s.ffs } := by
      refine stepE_phase s fid .locked (fun f => { f with ph := .waiting }) (fun _ => rfl) h _
        rfl rfl rfl rfl rfl rfl rfl ?_ ?_
      · intro f _ hfid hph hof
        unfold ffOK at hof ⊢
        simp only [hph] at hof
        simp only
        intro hst id hid
        have := hof hst id hid
        simp only [P1, hfid, takeWhile_ne_of_not_mem _ _ hnm]
        exact this
      · intro f _ _ _; simp [sent]
    refine InvE_append_marker _ _ fid st1 rfl rfl rfl rfl rfl rfl rfl { f0 with ph := .waiting } ?_ hfid0 (by simp [sent])
    simp only [setPh, List.mem_map]
    exact ⟨f0, hf0, by simp [hfid0, hph0]⟩
  · simp at hs

theorem stepE_ffDequeue (s s' : St) (fid : Nat) (h : InvE s) (h0 : InvA0 s) (hB : InvB s) (hC : InvC s) (hD : InvD s)
    (hs : step s (.ffDequeue fid) = some s') : InvE s' := by
  simp only [step] at hs
  split at hs
  · split at hs
    · rename_i s2 hd
      simp at hs; subst hs
      have e2 := InvE_deq _ _ _ _ h hd
      have a2 := InvA0_deq _ _ _ _ h0 hd
      have c2 := InvC_deq _ _ _ _ hC hd
      have d2 := InvD_deq _ _ _ _ hD hd
      have hq2 := deq_true_q s s2 hd hB.qlen
      refine stepE_phase s2 fid .checked (fun f => { f with ph := .dequeued }) (fun _ => rfl) e2 _
        rfl rfl rfl rfl rfl rfl rfl ?_ ?_
      · intro f _ _ hph hof
        unfold ffOK at hof ⊢
        simp only [hph] at hof
        simp only
        intro hst id hid
        have hsd := a2.ns hst
        have hhold : s2.hold = [] := by
          apply Classical.byContradiction
          intro hne
          rcases a2.holdPh hne with h' | h' <;> simp [h'] at hsd
        have hdisc : s2.discarded = [] := by
          apply Classical.byContradiction
          intro hne
          have := c2.bufPh.mp (c2.discPh hne)
          simp [hsd] at this
        have := d2.seenPlaced id (hof id hid)
        simp only [placed, hq2, hhold, hdisc, List.not_mem_nil, false_or, or_false] at this
        simp only [P2, P3]
        exact this
      · intro f _ _ hs; simp [sent] at hs
    · simp at hs
  · simp at hs

theorem stepE (s s' : St) (l : Lbl) (h : InvE s) (h0 : InvA0 s) (hB : InvB s) (hC : InvC s) (hD : InvD s)
    (hs : step s l = some s') : InvE s' := by
  cases l
  case eRecv => exact stepE_eRecv s s' h h0 hs
  case eStart => exact stepE_eStart s s' h hs
  case ffCall fid => exact stepE_ffCall s s' fid h hs
  case ffCheck fid => exact stepE_ffCheck s s' fid h hs
  case ffDequeue fid => exact stepE_ffDequeue s s' fid h h0 hB hC hD hs
  case ffLock fid => exact stepE_ffLock s s' fid h hs
  case ffSend fid => exact stepE_ffSend s s' fid h hs
  case ffReturn fid ok => exact stepE_ffReturn s s' fid ok h hs
  case ffCancel fid => exact stepE_ffCancel s s' fid h hs
  case pTick =>
    simp only [step] at hs
    split at hs
    · exact InvE_pollWork _ _ h hs
    · simp at hs
  case pTrig =>
    simp only [step] at hs
    split at hs
    · exact InvE_pollWork { s with trigger := false } _ (InvE_same s _ h rfl rfl rfl rfl rfl rfl rfl) hs
    · simp at hs
  case enq id =>
    simp only [step] at hs
    split at hs
    · split at hs
      · simp at hs; subst hs
        exact InvE_congr s _ h rfl (fun _ h => List.mem_cons_of_mem _ h) (fun h => h) rfl rfl rfl (fun _ h => h)
      · split at hs
        · simp at hs
        · simp at hs; subst hs
          exact InvE_congr s _ h rfl (fun _ h => List.mem_cons_of_mem _ h) (fun h => h) rfl rfl rfl
            (fun _ h => List.mem_cons_of_mem _ h)
    · simp at hs
  case sdSwap k =>
    simp only [step] at hs
    split at hs
    · split at hs
      · simp at hs; subst hs
        exact InvE_same s _ h rfl rfl rfl rfl rfl rfl rfl
      · simp at hs; subst hs
        exact InvE_congr s _ h rfl (fun _ h => h) (fun h => by simp at h) rfl rfl rfl (fun _ h => h)
    · simp at hs
  case sdSend =>
    simp only [step] at hs
    split at hs
    · simp at hs; subst hs
      exact InvE_append_recs s _ _ _ h rfl rfl rfl rfl rfl rfl rfl
    · simp at hs
  all_goals (
    simp only [step] at hs
    repeat' (split at hs)
    all_goals (try (simp at hs))
    all_goals (try subst hs)
    all_goals exact InvE_same s _ h rfl rfl rfl rfl rfl rfl rfl)

/-! ### The full invariant -/
structure Inv (s : St) : Prop where
  a0 : InvA0 s
  a : InvA s
  b : InvB s
  c : InvC s
  d : InvD s
  e : InvE s
  f : InvF s
  g : InvG s

theorem inv_init (cap batch buf : Nat) : Inv (init cap batch buf) := by
  refine ⟨⟨?_, ?_, ?_⟩, ⟨?_, ?_⟩, ⟨?_, ?_, ?_⟩, ⟨?_, ?_, ?_, ?_, ?_, ?_⟩, ⟨?_⟩, ⟨?_, ?_, ?_, ?_⟩, ⟨?_, ?_⟩, ⟨?_⟩⟩ <;>
    simp [init, allIds, fifoList, sdLate]

theorem inv_step (s s' : St) (l : Lbl) (h : Inv s) (hs : step s l = some s') : Inv s' :=
  ⟨stepA0 s s' l h.a0 hs, stepA s s' l h.a h.a0 hs, stepB s s' l h.b hs, stepC s s' l h.c h.a0 hs,
   stepD s s' l h.d h.a0 hs, stepE s s' l h.e h.a0 h.b h.c h.d hs, stepF s s' l h.f h.a0 h.c h.d hs,
   stepG s s' l h.g h.a0 hs⟩

theorem inv_reachable (cap batch buf : Nat) (s : St) (h : Reachable cap batch buf s) : Inv s := by
  induction h with
  | init => exact inv_init cap batch buf
  | step l _ hs ih => exact inv_step _ _ l ih hs

theorem deq_cfg (s s' : St) (n : Nat) (b : Bool) (hd : deq s n = some (s', b)) :
    s'.cap = s.cap ∧ s'.batch = s.batch ∧ s'.buf = s.buf := by
  rcases deq_some s s' n b hd with h1 | ⟨_, _, h1⟩ | ⟨_, _, h1⟩ <;> subst h1 <;> exact ⟨rfl, rfl, rfl⟩

theorem pollWork_cfg (s s' : St) (hp : pollWork s = some s') :
    s'.cap = s.cap ∧ s'.batch = s.batch ∧ s'.buf = s.buf := by
  obtain ⟨s2, t, h2, rfl⟩ := pollWork_some s s' hp
  rcases h2 with rfl | ⟨b, hd⟩
  · exact ⟨rfl, rfl, rfl⟩
  · have := deq_cfg _ _ _ _ hd
    exact ⟨this.1, this.2.1, this.2.2⟩

theorem step_cfg (s s' : St) (l : Lbl) (hs : step s l = some s') :
    s'.cap = s.cap ∧ s'.batch = s.batch ∧ s'.buf = s.buf := by
  cases l <;> simp only [step] at hs
  case pTick =>
    split at hs
    · exact pollWork_cfg _ _ hs
    · simp at hs
  case pTrig =>
    split at hs
    · exact pollWork_cfg { s with trigger := false } _ hs
    · simp at hs
  case ffDequeue fid =>
    split at hs
    · split at hs
      · rename_i s2 hd
        simp at hs; subst hs
        have := deq_cfg _ _ _ _ hd
        exact ⟨this.1, this.2.1, this.2.2⟩
      · simp at hs
    · simp at hs
  all_goals (
    repeat' (split at hs)
    all_goals (try (simp at hs))
    all_goals (try subst hs)
    all_goals (first | exact ⟨rfl, rfl, rfl⟩ | skip))

theorem reachable_cfg (cap batch buf : Nat) (s : St) (h : Reachable cap batch buf s) :
    s.cap = cap ∧ s.batch = batch ∧ s.buf = buf := by
  induction h with
  | init => exact ⟨rfl, rfl, rfl⟩
  | step l _ hs ih =>
    have := step_cfg _ _ l hs
    exact ⟨this.1.trans ih.1, this.2.1.trans ih.2.1, this.2.2.trans ih.2.2⟩

end Otel.C06
