import Otel.Base.Wire
import Otel.C06.Ring
import Otel.C06.Chain
import Otel.C06.RecHeap
open Otel Otel.Wire Otel.C06

/-! Line kinds of the `struct` leg (harness/wb/sdk/log/zz_verif_c06_struct_test.go)

`ring <gen> <cap> | <op> … => <obs> …`   one observation per op, on the real `queue` (batch.go / ring.go)
   ops: `e<id>` Enqueue, `d<n>+` / `d<n>-` TryDequeue(buf of length n, callback answers true / false), `f` Flush,
        `l` Len, `x` Dropped          obs: `n<k>` | `r<ids dot list>:<remaining>`
`chain <gen> <size> <tmo 0|1> <par 0|1> <n> | <beh> … => <call> … err=<0|1>`
   newChunkExporter(newTimeoutExporter(scripted, tmo ? T : 0), size).Export(par ? cancelled ctx : Background, n records)
   beh: `+` nil, `-` error, `w` block until the context is done      call: `<ids>:<x|f>:<o|e|d|c>` (x = context already
   done at entry; result nil / error / DeadlineExceeded / Canceled)
`rec <gen> <tblsize> | <op> … => <obs> …`   Record storage scripts (see RecHeap.lean), one observation per op
   ops: `m<b>` `c<i>` `y<i>` `b<i>.<v>` `a<i>.<a>.<b>` `k<i>.<key>.<v>` `s<i>.<a>.<b>` `w<k>.<key>.<v>` `e<i>`
        `L<a>.<b>.<id>.<k1>.<v1>.<k2>.<v2>` (Logger.Emit through [pre-mutator, BatchProcessor, post-mutator]) `F`
   obs: `T=<k:v,…>;H=<handle>/<handle>/…` handle: `c<body>~<k:v,…>~<cap(back)>` caller's, `x<body>~<k:v,…>` exported
        (visible after a flush), `h` queued (not visible)
-/
namespace Otel.C06.Deep

def dropS (s : String) (n : Nat) : String := (s.drop n).toString
def dropR (s : String) (n : Nat) : String := (s.dropEnd n).toString

def dotList (l : List Nat) : String := if l.isEmpty then "-" else ".".intercalate (l.map toString)
def parseDot (s : String) : Option (List Nat) :=
  if s == "-" then some [] else (s.splitOn ".").mapM (·.toNat?)

def tagList (l : List (Bool × String)) : String :=
  let t := l.filterMap fun (b, s) => if b then some s else none
  if t.isEmpty then "-" else ",".intercalate t

/-! ### ring -/

def parseRingOp (t : String) : Option Ring.Op :=
  if t == "f" then some .flush else if t == "l" then some .len else if t == "x" then some .dropped
  else if t.startsWith "e" then (dropS t 1).toNat?.map .enq
  else if t.startsWith "d" then
    let body := dropS t 1
    (dropR body 1).toNat?.map (.deq · (body.endsWith "+"))
  else none

def ringObs : Ring.Obs → String
  | .n k => s!"n{k}"
  | .recs l rem => s!"r{dotList l}:{rem}"

def ringLine (cap : Nat) (ops : List Ring.Op) (obs : List String) : Verdict :=
  let (q, m) := Ring.runQ (Ring.newQueue cap) ops
  let (_, sp) := Ring.runS { cap := cap } ops
  let model := m.map ringObs
  let spec := sp.map ringObs
  let nEnq := (ops.filter fun | .enq _ => true | _ => false).length
  { agree := model == obs, spec := if spec == obs then "ok" else "FAIL:fifo",
    nontrivial := m.any (fun | .recs (_ :: _) _ => true | _ => false),
    branches := tagList [(nEnq > cap, "wrap"), (ops.any (fun | .deq _ false => true | _ => false), "refused"),
      (m.any (fun | .recs (_ :: _) (_ + 1) => true | _ => false), "partial"), (q.len == cap, "full"),
      (ops.any (fun | .flush => true | _ => false), "flush"), (cap == 1, "cap1")],
    model := " ".intercalate model }

/-! ### chain -/

def parseBeh (t : String) : Option Chain.Beh :=
  if t == "+" then some .ok else if t == "-" then some .err else if t == "w" then some .wait else none

def resChar : Chain.Res → String
  | .ok => "o" | .err => "e" | .deadline => "d" | .canceled => "c"

def callObs (c : Chain.Call) : String := s!"{dotList c.chunk}:{if c.expired then "x" else "f"}:{resChar c.res}"

def chainLine (size : Int) (tmo par : Bool) (n : Nat) (bs : List Chain.Beh) (obs : List String) : Verdict :=
  let recs := (List.range n).map (· + 1)
  let ctx : Chain.Ctx := { cancelled := par }
  let (calls, _) := Chain.chainExport size.toNat (if tmo then 10 else 0) ctx 0 bs recs
  let model := calls.map callObs ++ [s!"err={if Chain.failed calls then 1 else 0}"]
  -- oracle on the observed calls
  let ocalls := obs.dropLast.map fun t => t.splitOn ":"
  let chunks := ocalls.filterMap fun | c :: _ => parseDot c | _ => none
  let bad : List String := []
  let bad := if chunks.length == ocalls.length && chunks.flatten == recs then bad else "partition" :: bad
  let bad := if size ≥ 1 && !(chunks.all fun c => !c.isEmpty && (c.length : Int) ≤ size) then "chunk-size" :: bad else bad
  let bad := if tmo && !par && ocalls.any (fun | [_, "x", _] => true | _ => false) then "expired-at-entry" :: bad else bad
  let anyFail := ocalls.any fun | [_, _, r] => r != "o" | _ => true
  let bad := if obs.getLast? == some s!"err={if anyFail then 1 else 0}" then bad else "error-join" :: bad
  { agree := model == obs, spec := if bad.isEmpty then "ok" else "FAIL:" ++ ",".intercalate bad,
    nontrivial := calls.length ≥ 2,
    branches := tagList [(size ≤ 0, "unchunked"), (!tmo, "no-timeout"), (par, "parent-cancelled"),
      (calls.any (·.res == .deadline), "deadline"), (calls.any (·.res == .err), "error"),
      (calls.length ≥ 3, "3+chunks"), (Chain.failed calls, "failed")],
    model := " ".intercalate model }

/-! ### rec -/

inductive ROp where
  | prim (o : Rec.Op) (capOf : Option Nat)      -- capOf: handle whose observed cap(back) is the growth parameter
  | lemit (a b id k1 v1 k2 v2 : Nat)

def nums (s : String) : Option (List Nat) := (s.splitOn ".").mapM (·.toNat?)

def parseROp (t : String) : Option ROp :=
  if t == "F" then some (.prim .flush none)
  else
    let body := dropS t 1
    match t.front, nums body with
    | 'm', some [b] => some (.prim (.mk b) none)
    | 'c', some [i] => some (.prim (.clone i 0) none)       -- cap filled in: the new handle
    | 'y', some [i] => some (.prim (.copy i) none)
    | 'b', some [i, v] => some (.prim (.body i v) none)
    | 'a', some [i, a, b] => some (.prim (.add i a b 0) (some i))
    | 'k', some [i, k, v] => some (.prim (.add1 i k v 0) (some i))
    | 's', some [i, a, b] => some (.prim (.set i a b 0) (some i))
    | 'w', some [k, key, v] => some (.prim (.wr k key v) none)
    | 'e', some [i] => some (.prim (.emit i) none)
    | 'L', some [a, b, id, k1, v1, k2, v2] => some (.lemit a b id k1 v1 k2 v2)
    | _, _ => none

def kvStr (l : List Rec.KV) : String := if l.isEmpty then "-" else ",".intercalate (l.map fun (k, v) => s!"{k}:{v}")

def parseKvs (s : String) : Option (List Rec.KV) :=
  if s == "-" then some [] else (s.splitOn ",").mapM fun e =>
    match e.splitOn ":" with
    | [a, b] => do let a ← a.toNat?; let b ← b.toNat?; pure (a, b)
    | _ => none

def recObs (w : Rec.W) : String :=
  let hs := (List.range w.hs.length).map fun i =>
    let r := Rec.getH w i
    if w.hidden.contains i then "h"
    else if w.exported.contains i then s!"x{r.body}~{kvStr (Rec.attrs w.heap r)}"
    else s!"c{r.body}~{kvStr (Rec.attrs w.heap r)}~{r.back.cap}"
  s!"T={kvStr w.tbl};H={if hs.isEmpty then "-" else "/".intercalate hs}"

def obsHandles (o : String) : List String :=
  match (o.splitOn ";").find? (·.startsWith "H=") with
  | some h => if h == "H=-" then [] else (dropS h 2).splitOn "/"
  | none => []

def obsTbl (o : String) : List Rec.KV :=
  match (o.splitOn ";").find? (·.startsWith "T=") with
  | some t => (parseKvs (dropS t 2)).getD []
  | none => []

def obsCap (o : String) (i : Nat) : Nat :=
  match ((obsHandles o).getD i "").splitOn "~" with
  | [_, _, c] => c.toNat?.getD 0
  | _ => 0

/-- the value part (`<body>~<kvs>`) of a handle token -/
def handleVal (t : String) : String :=
  match (dropS t 1).splitOn "~" with
  | b :: k :: _ => b ++ "~" ++ k
  | _ => "?"

/-- value-level `AddAttributes` of one attribute: replace the value of an existing key or append (Spec) -/
def upsert (l : List Rec.KV) (a : Rec.KV) : List Rec.KV :=
  if l.any (·.1 == a.1) then l.map fun x => if x.1 == a.1 then a else x else l ++ [a]

/-- expansion of one script op into primitive ops of the model, with the observed capacity as growth parameter -/
def expand (w : Rec.W) (op : ROp) (o : String) : List Rec.Op :=
  match op with
  | .prim (.clone i _) _ => [.clone i (obsCap o w.hs.length)]
  | .prim (.add i a b _) _ => [.add i a b (obsCap o i)]
  | .prim (.add1 i k v _) _ => [.add1 i k v (obsCap o i)]
  | .prim (.set i a b _) _ => [.set i a b (obsCap o i)]
  | .prim p _ => [p]
  | .lemit a b id k1 v1 k2 v2 =>
    let t := w.hs.length
    let c := obsCap o t
    [.mk id] ++ (Rec.sub w.tbl a b).map (fun (k, v) => .add1 t k v c) ++
      [.add1 t k1 v1 c, .emit t, .add1 t k2 v2 c, .body t 777]

structure RO where
  prev : String := "T=-;H=-"
  expect : List (Nat × String) := []     -- handle index ↦ value at emit time
  seen : List (Nat × String) := []       -- exported handle ↦ first value seen
  bad : List String := []

def recLine (tblSize : Nat) (ops : List ROp) (obs : List String) : Verdict :=
  let w0 : Rec.W := { tbl := (List.range tblSize).map fun k => (k, k) }
  let rec go (w : Rec.W) (ops : List ROp) (obs : List String) (acc : List String) (st : RO) : Rec.W × List String × RO :=
    match ops, obs with
    | op :: ops', o :: obs' =>
      let w' := Rec.run w (expand w op o)
      let nPrev := (obsHandles st.prev).length
      -- oracle bookkeeping (observed values only)
      let st := match op with
        | .prim (.emit i) _ => { st with expect := (nPrev, handleVal ((obsHandles st.prev).getD i "")) :: st.expect }
        | .lemit a b id k1 v1 _ _ =>
          let attrs := ((Rec.sub (obsTbl st.prev) a b).foldl upsert [])
          { st with expect := (nPrev + 1, s!"{id}~{kvStr (upsert attrs (k1, v1))}") :: st.expect }
        | _ => st
      let hs := obsHandles o
      let st := (List.range hs.length).foldl (fun (st : RO) p =>
        let t := hs.getD p ""
        if t.startsWith "x" then
          let v := handleVal t
          let st := match st.seen.lookup p with
            | none =>
              let st := { st with seen := (p, v) :: st.seen }
              if st.expect.lookup p == some v then st else { st with bad := s!"L7:exported-differs-from-emit-value@{p}" :: st.bad }
            | some v0 => if v0 == v then st else { st with bad := s!"L7:exported-changed-later@{p}" :: st.bad }
          st
        else st) st
      go w' ops' obs' (acc ++ [recObs w']) { st with prev := o }
    | _, _ => (w, acc, st)
  let (w, model, st) := go w0 ops obs [] { prev := recObs w0 }   -- the initial table is an input (T[k] = k:k)
  let bad := st.bad.eraseDups
  { agree := model == obs && ops.length == obs.length, spec := if bad.isEmpty then "ok" else "FAIL:" ++ ",".intercalate bad,
    nontrivial := !w.exported.isEmpty,
    branches := tagList [(ops.any (fun | .lemit .. => true | _ => false), "logger-emit"),
      (ops.any (fun | .prim (.emit _) _ => true | _ => false), "direct-emit"),
      (ops.any (fun | .prim (.copy _) _ => true | _ => false), "struct-copy"),
      (ops.any (fun | .prim (.clone _ _) _ => true | _ => false), "clone"),
      (w.hs.any (fun r => r.back.len > 0), "back-used"), (w.hs.any (fun r => r.back.cap > r.back.len), "spare-cap"),
      (w.exported.length ≥ 3, "3+exported")],
    model := " ".intercalate model }

def stepLine (toks : List String) : Option Verdict :=
  let (inp, obs) := splitObs toks
  match inp with
  | "ring" :: _ :: cap :: "|" :: opToks =>
    match cap.toNat?, opToks.mapM parseRingOp with
    | some cap, some ops => some (ringLine cap ops obs)
    | _, _ => none
  | "chain" :: _ :: size :: tmo :: par :: n :: "|" :: behToks =>
    match size.toInt?, n.toNat?, behToks.mapM parseBeh with
    | some size, some n, some bs => some (chainLine size (tmo == "1") (par == "1") n bs obs)
    | _, _, _ => none
  | "rec" :: _ :: tsz :: "|" :: opToks =>
    match tsz.toNat?, opToks.mapM parseROp with
    | some tsz, some ops => some (recLine tsz ops obs)
    | _, _ => none
  | _ => none

end Otel.C06.Deep
