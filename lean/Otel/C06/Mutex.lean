/-
C06 — `bufferExporter.inputMu` is never held for ever: whoever holds it (a ForceFlush blocked in `enqueue`, Shutdown's
synchronous `Export` waiting for room, `bufferExporter.Shutdown` waiting for `done`) gets to release it after finitely
many steps of the exportSync goroutine and of the holder itself (hypotheses H1/H2 of Live.lean + the holder is scheduled).
-/
import Otel.C06.Live
import Otel.C06.Hold
namespace Otel.C06

variable {cap batch buf : Nat}

/-- steps of exportSync and the releasing step of the holder -/
def isRel (l : Lbl) : Prop :=
  isE l ∨ l = .eExit ∨ (∃ fid, l = .ffSend fid) ∨ l = .sdSend ∨ l = .sdExpShutdown

theorem eNext_of_busy (s : St) (hx : s.eph ≠ .exited) (hin : s.input ≠ [] ∨ s.eph ≠ .idle) : ∃ l, eNext s = some l := by
  unfold eNext
  cases he : s.eph
  · simp only
    rcases hin with h | h
    · exact ⟨.eRecv, by simp [h]⟩
    · exact absurd he h
  · exact ⟨_, rfl⟩
  · exact ⟨_, rfl⟩
  · exact absurd he hx

theorem not_exited_of (s : St) (hC : InvC s) (hH : InvH s)
    (hno : s.imu ≠ none) (hnc : s.imu ≠ some .sdClose) : s.eph ≠ .exited := by
  intro he
  have hcl := (hC.exitedIn he).2
  rcases hC.closedPh hcl with e | e | e
  · exact hnc (hH.sdClosing e)
  · exact hno (hH.late (Or.inl e))
  · exact hno (hH.late (Or.inr e))

theorem holder_cases (s : St) (h : Reachable cap batch buf s) (hbuf : 1 ≤ buf) (hm : s.imu ≠ none) :
    (∃ l s', isRel l ∧ step s l = some s' ∧ s'.imu = none) ∨
    (∃ s' s'', step s .eExit = some s' ∧ step s' .sdExpShutdown = some s'' ∧ s''.imu = none) ∨
    (∃ l, eNext s = some l) := by
  have hH := invH_reachable cap batch buf s h
  have hK := invK_reachable cap batch buf s h
  have hC := (inv_reachable cap batch buf s h).c
  have hcfg := reachable_cfg cap batch buf s h
  have hb : 1 ≤ s.buf := hcfg.2.2 ▸ hbuf
  cases him : s.imu with
  | none => exact absurd him hm
  | some holder =>
    cases holder with
    | ff fid =>
      have hph := hK.ff fid him
      by_cases room : s.input.length < s.buf
      · refine Or.inl ⟨.ffSend fid, { s with input := s.input ++ [.marker fid], imu := none, ffs := setPh fid .locked .waiting s.ffs }, Or.inr (Or.inr (Or.inl ⟨fid, rfl⟩)), ?_, rfl⟩
        simp only [step, hph, room, and_self, if_true]
      · have hne : s.input ≠ [] := by
          intro e; rw [e] at room; simp at room; omega
        have hx := not_exited_of s hC hH hm (by rw [him]; simp)
        exact Or.inr (Or.inr (eNext_of_busy s hx (Or.inl hne)))
    | sdExp =>
      have hsd := hK.exp him
      by_cases room : s.input.length < s.buf
      · refine Or.inl ⟨.sdSend, { s with sd := .waitResp, input := s.input ++ [.recs s.hold true], hold := [], imu := none }, Or.inr (Or.inr (Or.inr (Or.inl rfl))), ?_, rfl⟩
        simp only [step, hsd, room, and_self, if_true]
      · have hne : s.input ≠ [] := by
          intro e; rw [e] at room; simp at room; omega
        have hx := not_exited_of s hC hH hm (by rw [him]; simp)
        exact Or.inr (Or.inr (eNext_of_busy s hx (Or.inl hne)))
    | sdClose =>
      obtain ⟨hsd, hcl⟩ := hK.close him
      cases he : s.eph with
      | exited =>
        refine Or.inl ⟨.sdExpShutdown, { s with sd := .shut, imu := none, expShut := true }, Or.inr (Or.inr (Or.inr (Or.inr rfl))), ?_, rfl⟩
        simp only [step, hsd, he, and_self, if_true]
      | idle =>
        by_cases hin : s.input = []
        · refine Or.inr (Or.inl ⟨{ s with eph := .exited }, { s with eph := .exited, sd := .shut, imu := none, expShut := true }, ?_, ?_, rfl⟩)
          · simp only [step, he, hin, hcl, and_self, if_true]
          · simp only [step, hsd, and_self, if_true]
        · exact Or.inr (Or.inr (eNext_of_busy s (by rw [he]; simp) (Or.inl hin)))
      | «have» => exact Or.inr (Or.inr (eNext_of_busy s (by rw [he]; simp) (Or.inr (by rw [he]; simp))))
      | busy => exact Or.inr (Or.inr (eNext_of_busy s (by rw [he]; simp) (Or.inr (by rw [he]; simp))))

theorem mutex_released (n : Nat) : ∀ s : St, Reachable cap batch buf s → 1 ≤ batch → 1 ≤ buf → work s ≤ n → s.imu ≠ none →
    ∃ ls s', (∀ l ∈ ls, isRel l) ∧ run s ls = some s' ∧ s'.imu = none ∧ ls.length ≤ work s + 2 := by
  induction n with
  | zero =>
    intro s h hb hbuf hw hm
    rcases holder_cases s h hbuf hm with ⟨l, s', hl, hs, hi⟩ | ⟨s', s'', h1, h2, hi⟩ | ⟨l, hn⟩
    · exact ⟨[l], s', by simpa using hl, by simp [run, hs], hi, by simp⟩
    · refine ⟨[.eExit, .sdExpShutdown], s'', ?_, by simp [run, h1, h2], hi, by simp⟩
      intro l hl
      simp only [List.mem_cons, List.not_mem_nil, or_false] at hl
      rcases hl with rfl | rfl
      · exact Or.inr (Or.inl rfl)
      · exact Or.inr (Or.inr (Or.inr (Or.inr rfl)))
    · have hc := reachable_cfg cap batch buf s h
      have hI := (inv_reachable cap batch buf s h).a0.idleRem
      obtain ⟨_, s', _, hlt, _⟩ := eNext_progress s l (hc.2.1 ▸ hb) (fun he => hI (Or.inl he)) hn
      omega
  | succ n ih =>
    intro s h hb hbuf hw hm
    rcases holder_cases s h hbuf hm with ⟨l, s', hl, hs, hi⟩ | ⟨s', s'', h1, h2, hi⟩ | ⟨l, hn⟩
    · exact ⟨[l], s', by simpa using hl, by simp [run, hs], hi, by simp⟩
    · refine ⟨[.eExit, .sdExpShutdown], s'', ?_, by simp [run, h1, h2], hi, by simp⟩
      intro l hl
      simp only [List.mem_cons, List.not_mem_nil, or_false] at hl
      rcases hl with rfl | rfl
      · exact Or.inr (Or.inl rfl)
      · exact Or.inr (Or.inr (Or.inr (Or.inr rfl)))
    · have hc := reachable_cfg cap batch buf s h
      have hI := (inv_reachable cap batch buf s h).a0.idleRem
      obtain ⟨hl, s', hs, hlt, _, _, _, _, himu⟩ := eNext_progress s l (hc.2.1 ▸ hb) (fun he => hI (Or.inl he)) hn
      obtain ⟨ls, s'', h1, h2, h3, h4⟩ := ih s' (Reachable.step l h hs) hb hbuf (by omega) (by rw [himu]; exact hm)
      refine ⟨l :: ls, s'', ?_, by simp [run, hs, h2], h3, by simp; omega⟩
      intro l' hl'
      simp only [List.mem_cons] at hl'
      rcases hl' with rfl | hl'
      · exact Or.inl hl
      · exact h1 l' hl'

end Otel.C06
