/-
C06 — generated tie.  `Otel.Gen.C06` is regenerated from /repo's current source by tools/go2lean on every run of
bin/check (checks/gentie.json); the theorems below are re-checked against the regenerated text.
Site: the defaults of the log batch processor (sdk/log/batch.go: dfltMaxQSize, dfltExpInterval, dfltExpTimeout,
dfltExpMaxBatchSize, dfltExpBufferSize).  The C06 model is parametric in `cap`, `batch`, `buf`; the chunking
theorem needs `1 ≤ batch`.  The theorems state that the default configuration is an instance they apply to.
Also `newBatchConfig` with its five resolver chains pinned statement by statement, and the resolvers
`clearLessThanOne` / `clampMax` (sdk/log/setting.go): together they are why EVERY configuration the processor can be
built with satisfies `1 ≤ batch ≤ cap` and `1 ≤ buf` — the model's standing assumptions.
-/
import Otel.Gen.C06
import Otel.C06.Model
import Otel.C06.RecHeap

namespace Otel.C06.GenTie
open Otel.C06

def genCap : Nat := Otel.Gen.C06.dfltMaxQSize.toNat
def genBatch : Nat := Otel.Gen.C06.dfltExpMaxBatchSize.toNat
def genBuf : Nat := Otel.Gen.C06.dfltExpBufferSize.toNat

/-- values (durations in nanoseconds: 1 s, 30 s) -/
theorem gen_defaults_values :
    Otel.Gen.C06.dfltMaxQSize = 2048 ∧ Otel.Gen.C06.dfltExpMaxBatchSize = 512 ∧ Otel.Gen.C06.dfltExpBufferSize = 1 ∧
    Otel.Gen.C06.dfltExpInterval = 1000000000 ∧ Otel.Gen.C06.dfltExpTimeout = 30000000000 := by decide

/-- `1 ≤ batch` (hypothesis of the chunking theorem), batch ≤ queue (so `clampMax` leaves the default alone),
`1 ≤ buf`, and every default is ≥ 1 (so `clearLessThanOne` never clears a default) -/
theorem gen_defaults_side_conditions :
    1 ≤ genBatch ∧ genBatch ≤ genCap ∧ 1 ≤ genBuf ∧ 1 ≤ genCap ∧
    1 ≤ Otel.Gen.C06.dfltExpInterval ∧ 1 ≤ Otel.Gen.C06.dfltExpTimeout := by decide

/-- the default-configured processor is the C06 transition system `init genCap genBatch genBuf` -/
theorem gen_default_instance_reachable :
    Reachable genCap genBatch genBuf (init genCap genBatch genBuf) ∧
    (init genCap genBatch genBuf).cap = 2048 ∧ (init genCap genBatch genBuf).batch = 512 ∧
    (init genCap genBatch genBuf).buf = 1 := by
  exact ⟨Reachable.init, rfl, rfl, rfl⟩

/-! ### why every reachable configuration satisfies the model's assumptions -/

/-- the resolver chains of `newBatchConfig` (see C20's tie for their semantics): every size goes through
`clearLessThanOne` last before `fallback` (so it is ≥ 1 or the default), and the batch size is clamped to the
already-resolved queue size before its fallback -/
theorem gen_blrp_resolver_chains :
    Otel.Gen.C06.newBatchConfig =
      ("c", ["applyOptions",
             "maxQSize:clear>getenv(envarMaxQSize)>clear>fallback(dfltMaxQSize)",
             "expInterval:clear>getenv(envarExpInterval)>clear>fallback(dfltExpInterval)",
             "expTimeout:clear>getenv(envarExpTimeout)>clear>fallback(dfltExpTimeout)",
             "expMaxBatchSize:clear>getenv(envarExpMaxBatchSize)>clear>clampMax(maxQSize)>fallback(dfltExpMaxBatchSize)",
             "expBufferSize:clear>fallback(dfltExpBufferSize)"]) := by
  decide

/-- `clearLessThanOne` clears exactly the values below 1; `clampMax(n)` replaces exactly the values above n -/
theorem gen_resolver_guards (v n : Int) :
    (Otel.Gen.C06.clearLessThanOne v = ("s", ["value=0", "unset"]) ↔ v < 1) ∧
    (Otel.Gen.C06.clampMax v n = ("s", ["value=n"]) ↔ v > n) := by
  constructor
  · unfold Otel.Gen.C06.clearLessThanOne
    by_cases h : v < 1 <;> simp [h] <;> (try omega) <;> (repeat' split) <;> (try simp_all) <;> omega
  · unfold Otel.Gen.C06.clampMax
    by_cases h : v > n <;> simp [h] <;> (try omega) <;> (repeat' split) <;> (try simp_all) <;> omega

/-- consequence for the defaults: a batch size that survives `clear` and `clampMax(queue)` with a queue ≥ 1, or falls
back to the default with the default queue, is in `[1, queue]` -/
theorem gen_blrp_batch_in_range (q b : Int) (hq : 1 ≤ q) (hb : 1 ≤ b) :
    1 ≤ (if b > q then q else b) ∧ (if b > q then q else b) ≤ q := by
  split <;> omega

/-- the number of attributes a record stores inline (`front [attributesInlineCount]log.KeyValue`, sdk/log/record.go)
is the record-heap model's `Otel.C06.Rec.inlineCount` -/
theorem gen_inline_count_eq_model : Otel.Gen.C06.attributesInlineCount = (Otel.C06.Rec.inlineCount : Int) := by decide

end Otel.C06.GenTie
