import Otel.Base.Wire
import Otel.C06.Sched
import Otel.C06.Spec
import Otel.C06.DeepDrv
open Otel Otel.Wire Otel.C06

/-! Line kinds
`sched <gen> <cap> <batch> <buf> | <op> <op> … => <obs> <obs> …`   one observation per op
   ops: `e<id>` `g+` `g-` `gc` `gd` (exporter returns nil / an error / context.Canceled / context.DeadlineExceeded:
        the model does not distinguish the kinds of error) `f<fid>` `s<k>` `c<fid>` (the context of ForceFlush fid expires) `t` (wait until the per-export timeout of the exporter call in
        progress has fired; the exporter ignores it and stays in the call); forced schedules (build tag verif, hooks): `pe<id>`/`re<id>` park/release an
        Emit after its stopped check, `pf<fid>`/`rf<fid>` a ForceFlush after its stopped check, `ps<k>`/`rs` Shutdown at
        the entry of bufferExporter.Export (queue already flushed)
   obs: `L=<b1/b2/…>;X=<0|1>;F=<fid>:<p|o|e>,…;S=<k>:<p|o|e>,…;D=<queue.dropped>;Q=<queue len>;E=<ids enqueued>;M=<changed records seen>;O=<exporter calls entered while another was running>`
        batches/ids as dot-separated lists, `-` when empty
`hist <gen> <cap> <batch> <buf> <dropped> | <ev> <ev> … => -`       free-running history (oracle only)
   evs: `E<id>` `A<id>` (goroutine = id / 1000) `XS:<ids>` `XE` `XM` `FC<fid>` `FR<fid>+|-` `SC<k>` `SR<k>+|-`
-/

def dropS (s : String) (n : Nat) : String := (s.drop n).toString
def dropR (s : String) (n : Nat) : String := (s.dropEnd n).toString

def dotList (l : List Nat) : String := if l.isEmpty then "-" else ".".intercalate (l.map toString)
def parseDot (s : String) : Option (List Nat) :=
  if s == "-" then some [] else (s.splitOn ".").mapM (·.toNat?)

def parseOp (t : String) : Option Op :=
  if t == "g+" then some (.gate true) else if t == "g-" || t == "gc" || t == "gd" then some (.gate false)
  else if t == "t" then some .timeout
  else if t == "rs" then some .rsd
  else if t.startsWith "pe" then (dropS t 2).toNat?.map .pemit
  else if t.startsWith "re" then (dropS t 2).toNat?.map .remit
  else if t.startsWith "pf" then (dropS t 2).toNat?.map .pff
  else if t.startsWith "rf" then (dropS t 2).toNat?.map .rff
  else if t.startsWith "ps" then (dropS t 2).toNat?.map .psd
  else if t.startsWith "c" then (dropS t 1).toNat?.map .cancel
  else if t.startsWith "s" then (dropS t 1).toNat?.map .sd
  else if t.startsWith "e" then (dropS t 1).toNat?.map .emit
  else if t.startsWith "f" then (dropS t 1).toNat?.map .ff
  else none

def phChar (p : FPhase) : String :=
  match p with
  | .retOk | .retEarly | .retEarlyBuf => "o"
  | .retErr => "e"
  | _ => "p"

def cChar (p : CPhase) : String :=
  match p with
  | .retOk | .retEarly => "o"
  | .retErr => "e"
  | _ => "p"

def insertSorted (x : Nat × String) : List (Nat × String) → List (Nat × String)
  | [] => [x]
  | y :: r => if x.1 ≤ y.1 then x :: y :: r else y :: insertSorted x r

def statusList (l : List (Nat × String)) : String :=
  let fs := l.foldr insertSorted []
  if fs.isEmpty then "-" else ",".intercalate (fs.map fun (a, b) => s!"{a}:{b}")

def obsOf (s : St) : String :=
  let l := if s.exported.isEmpty then "-" else "/".intercalate (s.exported.map dotList)
  let f := statusList (s.ffs.map fun f => (f.fid, phChar f.ph))
  let sd := statusList (s.sds.map fun c => (c.k, cChar c.ph))
  let ended := (s.seen.foldr (fun x acc => insertSorted (x, "") acc) []).map (·.1)
  s!"L={l};X={if s.eph == .busy then 1 else 0};F={f};S={sd};D={s.dropCtr};Q={s.q.length};E={dotList ended};M=0;O=0"

/-- model run: observation after every op, with the "a racy state was passed" flag -/
def runSched (s : St) (p : Parked) (r : Bool) (ops : List Op) : List (String × Bool) × St :=
  match ops with
  | [] => ([], s)
  | op :: rest =>
    let p' := applyPark p op
    let (s', r') := settle p' 4000 (applyOp s op) r
    let (l, fin) := runSched s' p' r' rest
    ((obsOf s', r') :: l, fin)

/-- agreement: observation by observation up to (excluding) the first one computed after a racy state -/
def agreeUpTo : List (String × Bool) → List String → Bool
  | [], [] => true
  | (m, r) :: ms, o :: os => r || (m == o && agreeUpTo ms os)
  | _, _ => false

def field (obs : String) (k : String) : Option String :=
  ((obs.splitOn ";").find? (·.startsWith (k ++ "="))).map (dropS · (k.length + 1))

def parseBatches (s : String) : Option (List (List Nat)) :=
  if s == "-" then some [] else (s.splitOn "/").mapM parseDot

def parseStatus (s : String) : List (Nat × String) :=
  if s == "-" then [] else (s.splitOn ",").filterMap fun e =>
    match e.splitOn ":" with
    | [a, b] => a.toNat?.map (·, b)
    | _ => none

structure OState where
  prevE : List Nat := []
  prevQ : Nat := 0
  prevL : String := "-"
  dropped : Nat := 0                 -- emits issued on a full queue before any Shutdown (observed Q)
  order : List Nat := []             -- ids of the emit ops so far
  ffPre : List (Nat × List Nat) := []
  sdPre : List (Nat × List Nat) := []
  doneFF : List Nat := []
  doneSD : List Nat := []
  quietClean : Bool := false
  quietRacy : Bool := false
  bad : List String := []
  f22 : Bool := false
  f38 : Bool := false
  f37 : Bool := false
  late : List Nat := []              -- ids enqueued (released) after a Shutdown had been called

/-- Spec oracle on the observations of a controlled schedule -/
def schedOracle (cap batch : Nat) (ops : List Op) (obs : List String) : List String × Bool × Bool × Bool :=
  let rec go (ops : List Op) (obs : List String) (st : OState) : List String × Bool × Bool × Bool :=
    match ops, obs with
    | op :: ops', o :: obs' =>
      let batches := ((field o "L").bind parseBatches).getD []
      let ended := ((field o "E").bind parseDot).getD []
      let qlen := ((field o "Q").bind (·.toNat?)).getD 0
      let lStr := (field o "L").getD "-"
      let st := match op with
        | .emit id => { st with order := st.order ++ [id],
                                dropped := if st.sdPre.isEmpty && st.prevQ == cap then st.dropped + 1 else st.dropped }
        | .pemit id => { st with order := st.order ++ [id] }
        | .remit id => { st with late := if st.sdPre.isEmpty then st.late else id :: st.late }
        -- an Emit that overlapped the start of a Shutdown (released after one was called) may be linearized after
        -- it, i.e. refused: like the `A` events of the hist leg it is not "emitted before" later calls
        | .ff fid | .pff fid => { st with ffPre := (fid, st.prevE.filter (!st.late.contains ·)) :: st.ffPre }
        | .sd k | .psd k => { st with sdPre := (k, st.prevE.filter (!st.late.contains ·)) :: st.sdPre }
        | _ => st
      let bad := st.bad
      let bad := if Spec.once batches then bad else "L1" :: bad
      let bad := if Spec.chunkBound batch batches then bad else "L2" :: bad
      let bad := if Spec.onlyEmitted batches st.order then bad else "L0" :: bad
      let fifo := Spec.fifoOK (fun _ => 0) st.order batches.flatten
      let early := fun id => !st.late.contains id
      -- F37: only records enqueued after a Shutdown had been called are out of place
      let f37 := !fifo && Spec.fifoOK (fun _ => 0) (st.order.filter early) (batches.flatten.filter early)
      let bad := if fifo || f37 then bad else "L4" :: bad
      let bad := if (field o "M") == some "0" then bad else "L7" :: bad
      let bad := if (field o "O") == some "0" then bad else "L3" :: bad
      -- L6: the log grew after a Shutdown had returned nil (seen in an earlier observation)
      let grew := lStr != st.prevL
      let bad := if grew && st.quietClean then "L6" :: bad else bad
      let f22 := st.f22
      let f38 := st.f38 || (grew && !st.quietClean && st.quietRacy)
      -- L5 for ForceFlush calls that newly show as returned nil
      let ffs := parseStatus ((field o "F").getD "-")
      let newly := ffs.filter fun (fid, c) => c == "o" && !st.doneFF.contains fid
      let (bad, f22) := newly.foldl (fun (acc : List String × Bool) (fid, _) =>
        match st.ffPre.lookup fid with
        | none => ("ff-unknown" :: acc.1, acc.2)
        | some pre =>
          if Spec.delivered pre batches st.dropped then acc
          else if !st.sdPre.isEmpty then (acc.1, true) else ("L5:forceflush" :: acc.1, acc.2)) (bad, f22)
      -- L5 for Shutdown calls that newly show as returned nil
      let sds := parseStatus ((field o "S").getD "-")
      let inFlight := sds.any fun (_, c) => c == "p"
      let newSd := sds.filter fun (k, c) => c == "o" && !st.doneSD.contains k
      let (bad, f38) := newSd.foldl (fun (acc : List String × Bool) (k, _) =>
        if Spec.delivered ((st.sdPre.lookup k).getD []) batches st.dropped && (field o "X") != some "1" then acc
        else if inFlight then (acc.1, true) else ("L5:shutdown" :: acc.1, acc.2)) (bad, f38)
      let st := { st with bad := bad, f22 := f22, f38 := f38, f37 := st.f37 || f37, prevE := ended, prevQ := qlen, prevL := lStr,
                          doneFF := st.doneFF ++ newly.map (·.1), doneSD := st.doneSD ++ newSd.map (·.1),
                          quietClean := st.quietClean || (!newSd.isEmpty && !inFlight),
                          quietRacy := st.quietRacy || (!newSd.isEmpty && inFlight) }
      go ops' obs' st
    | _, _ => (st.bad, st.f22, st.f38, st.f37)
  go ops obs {}

def parseEv (t : String) : Option Spec.Ev :=
  if t == "XE" then some .exportEnd
  else if t == "XM" then some .mutated
  else if t.startsWith "XS:" then (parseDot (dropS t 3)).map .exportStart
  else if t.startsWith "FC" then (dropS t 2).toNat?.map .ffCalled
  else if t.startsWith "FR" then
    let body := dropS t 2
    (dropR body 1).toNat?.map (.ffReturned · (body.endsWith "+"))
  else if t.startsWith "SC" then (dropS t 2).toNat?.map .sdCalled
  else if t.startsWith "SR" then
    let body := dropS t 2
    (dropR body 1).toNat?.map (.sdReturned · (body.endsWith "+"))
  else if t.startsWith "E" then (dropS t 1).toNat?.map .emitted
  else if t.startsWith "A" then (dropS t 1).toNat?.map .maybe
  else none

def tagList (l : List (Bool × String)) : String :=
  let t := l.filterMap fun (b, s) => if b then some s else none
  if t.isEmpty then "-" else ",".intercalate t

def stepLine (_ : Unit) (toks : List String) : Unit × Option Verdict :=
  let (inp, obs) := splitObs toks
  match inp with
  | "sched" :: _ :: cap :: batch :: buf :: "|" :: opToks =>
    match cap.toNat?, batch.toNat?, buf.toNat?, opToks.mapM parseOp with
    | some cap, some batch, some buf, some ops =>
      let (model, fin) := runSched (init cap batch buf) {} false ops
      -- forced schedules (goroutines parked at hooks) are deterministic by construction: always compared
      let forced := ops.any Op.isPark
      let model := if forced then model.map fun (o, _) => (o, false) else model
      let racy := model.any (·.2)
      let (bad, f22, f38, f37) := schedOracle cap batch ops obs
      -- KNOWN only when the model run shows the same early return (or the run is not comparable)
      let bad := if f22 && !(fin.ffs.any F22_applies || racy) then "F22-not-in-model" :: bad else bad
      let bad := if f38 && !(fin.sds.any F38_applies || racy) then "F38-not-in-model" :: bad else bad
      let bad := if f37 && !fin.overtaken then "F37-not-in-model" :: bad else bad
      let spec := if !bad.isEmpty then "FAIL" else if f37 then "KNOWN:F37" else if f38 then "KNOWN:F38"
                  else if f22 then "KNOWN:F22" else "ok"
      let br := tagList [
        (!fin.droppedIds.isEmpty, "overwrite"), (fin.exported.length ≥ 2, "multi-export"),
        (fin.input.length + 1 ≥ buf && !fin.input.isEmpty, "buffer-full"),
        (fin.ffs.any (fun f => f.ph == .retOk && !f.sdSeen), "ff-ok"), (fin.ffs.any (·.ph == .retEarly), "ff-early"),
        (fin.ffs.any (·.ph == .retEarlyBuf), "ff-earlybuf"), (fin.ffs.any (fun f => f.ph == .retOk && f.sdSeen), "ff-raced-ok"),
        (fin.ffs.any (·.ph == .retErr), "ff-err"), (fin.sdRetOk, "sd-ok"), (fin.sds.any (·.ph == .retEarly), "sd-early"), (f22, "f22"), (f38, "f38"), (f37, "f37"), (forced, "forced"),
        (fin.sds.any (·.ph == .retErr), "sd-err"), (!fin.discarded.isEmpty, "discard"), (fin.overtaken, "overtaken"),
        (fin.eph == .exited, "exited"), (racy, "racy")]
      ((), some { agree := agreeUpTo model obs, spec := spec ++ (if bad.isEmpty then "" else ":" ++ ",".intercalate bad),
                  nontrivial := !fin.exported.isEmpty, branches := br,
                  model := " ".intercalate (model.map fun (o, r) => if r then "~" ++ o else o) })
    | _, _, _, _ => ((), none)
  | "hist" :: _ :: _cap :: batch :: _buf :: dropped :: "|" :: evToks =>
    match batch.toNat?, dropped.toNat?, evToks.mapM parseEv with
    | some batch, some dropped, some evs =>
      let (bad, f22, f37, f38) := Spec.histCheck batch dropped (· / 1000) evs
      let spec := if !bad.isEmpty then "FAIL" else if f37 then "KNOWN:F37" else if f38 then "KNOWN:F38"
                  else if f22 then "KNOWN:F22" else "ok"
      let nExp := (evs.filter fun | .exportStart _ => true | _ => false).length
      let br := tagList [(dropped > 0, "overwrite"), (nExp ≥ 2, "multi-export"),
        (evs.any (fun | .ffReturned _ true => true | _ => false), "ff-ok"),
        (evs.any (fun | .ffReturned _ false => true | _ => false), "ff-err"),
        (evs.any (fun | .sdReturned _ true => true | _ => false), "sd-ok"),
        (evs.any (fun | .sdReturned _ false => true | _ => false), "sd-err"), (f22, "f22"), (f37, "f37"), (f38, "f38")]
      ((), some { agree := true, spec := spec ++ (if bad.isEmpty then "" else ":" ++ ",".intercalate bad),
                  nontrivial := nExp ≥ 1, branches := br, model := "-" })
    | _, _, _ => ((), none)
  | _ => ((), Deep.stepLine toks)      -- `ring` / `chain` / `rec` lines of the struct leg (DeepDrv.lean)

def main : IO Unit := Wire.run () stepLine
