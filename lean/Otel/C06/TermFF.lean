/-
C06 — every ForceFlush call returns (same form and hypotheses as Term.lean: a finite run of system steps and of the
call's own steps exists from every reachable state; H7: the ForceFlush caller is scheduled, H8: the user exporter's
ForceFlush returns). In the constructed run the poll loop is not scheduled between "the buffer got room" and the
call's dequeue: under weak fairness alone the poll loop could refill the buffer each time, so for infinite runs this
needs strong fairness for `ffDequeue` (or finitely many emits) — said in checks/C06.json.
-/
import Otel.C06.Term
namespace Otel.C06

variable {cap batch buf : Nat}

/-- position of a ForceFlush's marker; the exited exportSync goroutine leaves nothing behind -/
structure InvW (s : St) : Prop where
  marker : ∀ f ∈ s.ffs, f.ph = .waiting → Req.marker f.fid ∈ s.input
  exitedEmpty : s.eph = .exited → s.input = []

theorem waiting_upd (c : FF → Prop) [DecidablePred c] (g : FF → FF) (_hg : ∀ f, (g f).fid = f.fid)
    (hn : ∀ f, c f → (g f).ph ≠ .waiting) (ffs : List FF) (inp : List Req)
    (h : ∀ f ∈ ffs, f.ph = .waiting → Req.marker f.fid ∈ inp) :
    ∀ f' ∈ ffs.map (fun f => if c f then g f else f), f'.ph = .waiting → Req.marker f'.fid ∈ inp := by
  intro f' hf' hph
  obtain ⟨f, hf, rfl⟩ := mem_upd c g ffs f' hf'
  by_cases hc : c f
  · simp only [hc, if_true] at hph
    exact absurd hph (hn f hc)
  · simp only [hc, if_false] at hph ⊢
    exact h f hf hph

theorem waiting_setPh (fid : Nat) (a b : FPhase) (hb : b ≠ .waiting) (ffs : List FF) (inp : List Req)
    (h : ∀ f ∈ ffs, f.ph = .waiting → Req.marker f.fid ∈ inp) :
    ∀ f' ∈ setPh fid a b ffs, f'.ph = .waiting → Req.marker f'.fid ∈ inp :=
  waiting_upd (fun f => f.fid = fid ∧ f.ph = a) (fun f => { f with ph := b }) (fun _ => rfl) (fun _ _ => hb) ffs inp h

theorem waiting_setRet (fid : Nat) (a b : FPhase) (seen : Bool) (hb : b ≠ .waiting) (ffs : List FF) (inp : List Req)
    (h : ∀ f ∈ ffs, f.ph = .waiting → Req.marker f.fid ∈ inp) :
    ∀ f' ∈ setRet fid a b seen ffs, f'.ph = .waiting → Req.marker f'.fid ∈ inp :=
  waiting_upd (fun f => f.fid = fid ∧ f.ph = a) (fun f => { f with ph := b, sdSeen := seen }) (fun _ => rfl)
    (fun _ _ => hb) ffs inp h

theorem deq_w (s s' : St) (n : Nat) (b : Bool) (hd : deq s n = some (s', b)) :
    s'.ffs = s.ffs ∧ s'.eph = s.eph ∧ ∃ t, s'.input = s.input ++ t := by
  rcases deq_some s s' n b hd with h1 | ⟨_, _, h1⟩ | ⟨_, _, h1⟩ <;> subst h1
  · exact ⟨rfl, rfl, [], (List.append_nil _).symm⟩
  · exact ⟨rfl, rfl, [], (List.append_nil _).symm⟩
  · exact ⟨rfl, rfl, [_], rfl⟩

theorem pollWork_w (s s' : St) (hp : pollWork s = some s') :
    s'.ffs = s.ffs ∧ s'.eph = s.eph ∧ ∃ t, s'.input = s.input ++ t := by
  obtain ⟨s2, t, h2, rfl⟩ := pollWork_some s s' hp
  rcases h2 with rfl | ⟨b, hd⟩
  · exact ⟨rfl, rfl, [], (List.append_nil _).symm⟩
  · have := deq_w _ _ _ _ hd
    exact ⟨this.1, this.2.1, this.2.2⟩

theorem marker_mono (ffs : List FF) (inp t : List Req) (h : ∀ f ∈ ffs, f.ph = .waiting → Req.marker f.fid ∈ inp) :
    ∀ f ∈ ffs, f.ph = .waiting → Req.marker f.fid ∈ inp ++ t :=
  fun f hf hp => List.mem_append_left _ (h f hf hp)

theorem stepW (s s' : St) (l : Lbl) (h : InvW s) (hH : InvH s) (hC : InvC s)
    (hs : step s l = some s') : InvW s' := by
  -- the second field first: exited is entered only by eExit (input empty) and afterwards nothing is sent
  have hex : s'.eph = .exited → s'.input = [] := by
    intro he'
    by_cases he : s.eph = .exited
    · have hcl := (hC.exitedIn he).2
      have hl : l ≠ .eRecv := by
        rintro rfl
        simp only [step] at hs
        rw [he] at hs; simp at hs
      rw [closed_input s s' l hH hC hs hcl hl]
      exact h.exitedEmpty he
    · -- the step made it exited: it is eExit
      rcases step_frame s s' l hs with hf | rfl | rfl | ⟨ok, rfl⟩ | rfl | ⟨k, ok, rfl⟩
      · exact absurd (hf.2.2 ▸ he') he
      all_goals (
        simp only [step] at hs
        repeat' (split at hs)
        all_goals (try (simp at hs))
        all_goals (try subst hs)
        all_goals (first | (simp at he'; done) | (rename_i hpre; exact hpre.2.1) | exact absurd he' he | skip))
  refine ⟨?_, hex⟩
  cases l <;> simp only [step] at hs
  case pTick =>
    split at hs
    · obtain ⟨hf, _, t, ht⟩ := pollWork_w _ _ hs
      rw [hf, ht]; exact marker_mono _ _ _ h.marker
    · simp at hs
  case pTrig =>
    split at hs
    · obtain ⟨hf, _, t, ht⟩ := pollWork_w { s with trigger := false } _ hs
      rw [hf, ht]; exact marker_mono _ _ _ h.marker
    · simp at hs
  case eRecv =>
    split at hs
    · split at hs
      · simp at hs
      · rename_i fid rest hin
        simp only [Option.some.injEq] at hs; subst hs
        intro f' hf' hph
        obtain ⟨f, hf, rfl⟩ := mem_upd (fun f => f.fid = fid ∧ f.ph = .waiting) (fun f => { f with ph := .responded }) s.ffs f' hf'
        by_cases hc : f.fid = fid ∧ f.ph = .waiting
        · simp only [hc, and_self, if_true] at hph; cases hph
        · simp only [hc, if_false] at hph ⊢
          have hm := h.marker f hf hph
          rw [hin] at hm
          simp only [List.mem_cons, Req.marker.injEq] at hm
          rcases hm with hm | hm
          · exact absurd ⟨hm, hph⟩ hc
          · exact hm
      · rename_i rl sync rest hin
        simp only [Option.some.injEq] at hs; subst hs
        intro f hf hph
        have hm := h.marker f hf hph
        rw [hin] at hm
        simp only [List.mem_cons] at hm
        rcases hm with hm | hm
        · cases hm
        · exact hm
    · simp at hs
  case ffCall fid =>
    split at hs
    · simp at hs
    · simp only [Option.some.injEq] at hs; subst hs
      intro f hf hph
      simp only [List.mem_cons] at hf
      rcases hf with rfl | hf
      · simp at hph
      · exact h.marker f hf hph
  case ffCheck fid =>
    split at hs
    · split at hs
      · simp only [Option.some.injEq] at hs; subst hs
        exact waiting_setRet _ _ _ _ (by simp) s.ffs s.input h.marker
      · simp only [Option.some.injEq] at hs; subst hs
        exact waiting_setPh _ _ _ (by simp) s.ffs s.input h.marker
    · simp at hs
  case ffDequeue fid =>
    split at hs
    · split at hs
      · rename_i s2 hd
        simp only [Option.some.injEq] at hs; subst hs
        obtain ⟨hf, _, t, ht⟩ := deq_w _ _ _ _ hd
        have h2 : ∀ f ∈ s2.ffs, f.ph = .waiting → Req.marker f.fid ∈ s2.input := by
          rw [hf, ht]; exact marker_mono _ _ _ h.marker
        exact waiting_setPh _ _ _ (by simp) s2.ffs s2.input h2
      · simp at hs
    · simp at hs
  case ffLock fid =>
    split at hs
    · split at hs
      · simp only [Option.some.injEq] at hs; subst hs
        exact waiting_setRet _ _ _ _ (by simp) s.ffs s.input h.marker
      · simp only [Option.some.injEq] at hs; subst hs
        exact waiting_setPh _ _ _ (by simp) s.ffs s.input h.marker
    · simp at hs
  case ffSend fid =>
    split at hs
    · simp only [Option.some.injEq] at hs; subst hs
      intro f' hf' hph
      obtain ⟨f, hf, rfl⟩ := mem_upd (fun f => f.fid = fid ∧ f.ph = .locked) (fun f => { f with ph := .waiting }) s.ffs f' hf'
      by_cases hc : f.fid = fid ∧ f.ph = .locked
      · simp only [hc, and_self, if_true]
        exact List.mem_append_right _ (by simp [hc.1])
      · simp only [hc, if_false] at hph ⊢
        exact List.mem_append_left _ (h.marker f hf hph)
    · simp at hs
  case ffReturn fid ok =>
    split at hs
    · simp only [Option.some.injEq] at hs; subst hs
      exact waiting_setRet _ _ _ _ (by cases ok <;> simp) s.ffs s.input h.marker
    · simp at hs
  case ffCancel fid =>
    split at hs
    · simp only [Option.some.injEq] at hs; subst hs
      exact waiting_setPh _ _ _ (by simp) s.ffs s.input h.marker
    · simp only [Option.some.injEq] at hs; subst hs
      exact waiting_upd (fun f => f.fid = fid ∧ (f.ph = .called ∨ f.ph = .checked ∨ f.ph = .dequeued ∨ f.ph = .waiting ∨ f.ph = .responded))
        (fun f => { f with ph := .retErr }) (fun _ => rfl) (fun _ _ => by simp) s.ffs s.input h.marker
  case sdSend =>
    split at hs
    · simp only [Option.some.injEq] at hs; subst hs
      exact marker_mono _ _ _ h.marker
    · simp at hs
  all_goals (
    repeat' (split at hs)
    all_goals (try (simp at hs))
    all_goals (try subst hs)
    all_goals exact h.marker)

theorem invW_reachable (cap batch buf : Nat) (s : St) (h : Reachable cap batch buf s) : InvW s := by
  induction h with
  | init => exact ⟨by simp [init], by simp [init]⟩
  | step l hr hs ih =>
    have i := inv_reachable cap batch buf _ hr
    exact stepW _ _ l ih (invH_reachable cap batch buf _ hr) i.c hs

/-! ### the run -/

theorem run_preserve (P : St → Prop) (Q : Lbl → Prop) (hstep : ∀ s s' l, step s l = some s' → Q l → P s → P s') :
    ∀ (ls : List Lbl) (s s' : St), run s ls = some s' → (∀ l ∈ ls, Q l) → P s → P s' := by
  intro ls
  induction ls with
  | nil => intro s s' h _ hp; simp [run] at h; subst h; exact hp
  | cons l ls ih =>
    intro s s' h hl hp
    simp only [run] at h
    cases hs1 : step s l with
    | none => simp [hs1] at h
    | some s1 =>
      simp only [hs1] at h
      exact ih s1 s' h (fun x hx => hl x (by simp [hx])) (hstep s s1 l hs1 (hl l (by simp)) hp)

/-- releasing steps and exportSync's steps do not move a ForceFlush that is neither `locked` nor `waiting` -/
theorem rel_step_hasPh (fid : Nat) (p : FPhase) (hp1 : p ≠ .waiting) (hp2 : p ≠ .locked) (s s' : St) (l : Lbl)
    (hs : step s l = some s') (hl : isRel l) (h : hasPh fid p s.ffs = true) : hasPh fid p s'.ffs = true := by
  rcases hl with (rfl | rfl | ⟨ok, rfl⟩) | rfl | ⟨fid', rfl⟩ | rfl | rfl <;> simp only [step] at hs
  all_goals (
    repeat' (split at hs)
    all_goals (try (simp at hs))
    all_goals (try subst hs)
    all_goals (first
      | exact h
      | exact hasPh_setPh fid _ p _ _ s.ffs h (Ne.symm hp1)
      | exact hasPh_setPh fid _ p _ _ s.ffs h (Ne.symm hp2)))

/-- exportSync's steps do not move a `locked` ForceFlush and keep inputMu where it is -/
theorem e_step_locked (fid : Nat) (s s' : St) (l : Lbl) (hs : step s l = some s') (hl : isE l)
    (h : hasPh fid .locked s.ffs = true) : hasPh fid .locked s'.ffs = true := by
  rcases hl with rfl | rfl | ⟨ok, rfl⟩ <;> simp only [step] at hs
  all_goals (
    repeat' (split at hs)
    all_goals (try (simp at hs))
    all_goals (try subst hs)
    all_goals (first
      | exact h
      | exact hasPh_setPh fid _ .locked _ _ s.ffs h (by simp)))

theorem hasPh_setPh_to (fid : Nat) (a b : FPhase) (ffs : List FF) (h : hasPh fid a ffs = true) :
    hasPh fid b (setPh fid a b ffs) = true := by
  obtain ⟨f, hf, hfid, hph⟩ := hasPh_exists fid a ffs h
  simp only [hasPh, setPh, List.any_eq_true, decide_eq_true_eq]
  exact ⟨{ f with ph := b }, List.mem_map.mpr ⟨f, hf, by simp [hfid, hph]⟩, hfid, rfl⟩

theorem hasPh_setRet_to (fid : Nat) (a b : FPhase) (seen : Bool) (ffs : List FF) (h : hasPh fid a ffs = true) :
    hasPh fid b (setRet fid a b seen ffs) = true := by
  obtain ⟨f, hf, hfid, hph⟩ := hasPh_exists fid a ffs h
  simp only [hasPh, setRet, List.any_eq_true, decide_eq_true_eq]
  exact ⟨{ f with ph := b, sdSeen := seen }, List.mem_map.mpr ⟨f, hf, by simp [hfid, hph]⟩, hfid, rfl⟩

/-- exportSync's steps move a `waiting` ForceFlush only to `responded` -/
theorem e_step_waiting (fid : Nat) (s s' : St) (l : Lbl) (hs : step s l = some s') (hl : isE l)
    (h : hasPh fid .waiting s.ffs = true ∨ hasPh fid .responded s.ffs = true) :
    hasPh fid .waiting s'.ffs = true ∨ hasPh fid .responded s'.ffs = true := by
  rcases hl with rfl | rfl | ⟨ok, rfl⟩ <;> simp only [step] at hs
  · split at hs
    · split at hs
      · simp at hs
      · rename_i fid' rest hin
        simp only [Option.some.injEq] at hs; subst hs
        rcases h with h | h
        · by_cases e : fid' = fid
          · subst e; exact Or.inr (hasPh_setPh_to fid' .waiting .responded s.ffs h)
          · refine Or.inl ?_
            -- entries of another fid are untouched
            obtain ⟨f, hf, hfid, hph⟩ := hasPh_exists fid .waiting s.ffs h
            simp only [hasPh, setPh, List.any_eq_true, decide_eq_true_eq]
            refine ⟨f, List.mem_map.mpr ⟨f, hf, ?_⟩, hfid, hph⟩
            have : ¬ (f.fid = fid' ∧ f.ph = .waiting) := fun hc => e (hc.1.symm.trans hfid)
            simp [this]
        · exact Or.inr (hasPh_setPh fid _ .responded _ _ s.ffs h (by simp))
      · simp only [Option.some.injEq] at hs; subst hs; exact h
    · simp at hs
  all_goals (
    repeat' (split at hs)
    all_goals (try (simp at hs))
    all_goals (try subst hs)
    all_goals exact h)

/-- system steps and the steps of ForceFlush call `fid` itself -/
def SysF (fid : Nat) (l : Lbl) : Prop :=
  Sys l ∨ l = .ffCheck fid ∨ l = .ffDequeue fid ∨ l = .ffLock fid ∨ ∃ ok, l = .ffReturn fid ok

def rankF : FPhase → Nat
  | .called => 0 | .checked => 1 | .dequeued => 2 | .locked => 3 | .waiting => 4 | .responded => 5 | _ => 6

theorem sysF_of_rel (fid : Nat) (ls : List Lbl) (h : ∀ l ∈ ls, isRel l) : ∀ l ∈ ls, SysF fid l :=
  fun l hl => Or.inl (Or.inl (h l hl))
theorem sysF_of_e (fid : Nat) (ls : List Lbl) (h : ∀ l ∈ ls, isE l) : ∀ l ∈ ls, SysF fid l :=
  fun l hl => Or.inl (Or.inl (Or.inl (h l hl)))

theorem mem_append3 {Q : Lbl → Prop} (a b : List Lbl) (l : Lbl) (ha : ∀ x ∈ a, Q x) (hb : ∀ x ∈ b, Q x) (hl : Q l) :
    ∀ x ∈ a ++ b ++ [l], Q x := by
  intro x hx
  simp only [List.mem_append, List.mem_singleton] at hx
  rcases hx with (hx | hx) | rfl
  · exact ha x hx
  · exact hb x hx
  · exact hl

/-- get inputMu released without moving the ForceFlush -/
theorem clear_mutex (fid : Nat) (p : FPhase) (hp1 : p ≠ .waiting) (hp2 : p ≠ .locked) (s : St)
    (h : Reachable cap batch buf s) (hb : 1 ≤ batch) (hbuf : 1 ≤ buf) (hph : hasPh fid p s.ffs = true) :
    ∃ ls s1, (∀ l ∈ ls, isRel l) ∧ run s ls = some s1 ∧ Reachable cap batch buf s1 ∧ s1.imu = none ∧
      hasPh fid p s1.ffs = true := by
  by_cases hm : s.imu = none
  · exact ⟨[], s, by simp, rfl, h, hm, hph⟩
  · obtain ⟨ls, s1, h1, h2, h3, _⟩ := mutex_released (work s) s h hb hbuf (Nat.le_refl _) hm
    exact ⟨ls, s1, h1, h2, run_reachable s ls s1 h h2, h3,
      run_preserve (fun s => hasPh fid p s.ffs = true) isRel (fun a b l hs hl hq => rel_step_hasPh fid p hp1 hp2 a b l hs hl hq)
        ls s s1 h2 h1 hph⟩

theorem deq_ok (s : St) (n : Nat) (hm : s.imu = none) (hr : s.bufStopped = true ∨ s.input.length < s.buf) :
    ∃ s2, deq s n = some (s2, true) := by
  unfold deq
  by_cases ht : s.q.take n = []
  · exact ⟨s, by simp [ht]⟩
  · simp only [ht, if_false, hm, Option.isSome_none, Bool.false_eq_true]
    by_cases hbs : s.bufStopped = true
    · simp only [hbs, if_true]; exact ⟨_, rfl⟩
    · rcases hr with hr | hr
      · exact absurd hr hbs
      · have hbs' : s.bufStopped = false := by simpa using hbs
        simp only [hbs', Bool.false_eq_true, if_false, hr, if_true]; exact ⟨_, rfl⟩

theorem stageF (fid : Nat) (p : FPhase) (s : St) (h : Reachable cap batch buf s) (hb : 1 ≤ batch) (hbuf : 1 ≤ buf)
    (hph : hasPh fid p s.ffs = true) (hnr : rankF p < 6) :
    ∃ ls s' p', (∀ l ∈ ls, SysF fid l) ∧ run s ls = some s' ∧ hasPh fid p' s'.ffs = true ∧ rankF p < rankF p' := by
  have hC := (inv_reachable cap batch buf s h).c
  cases p with
  | called =>
    by_cases hst : s.stopped = true
    · refine ⟨[.ffCheck fid], { s with ffs := setRet fid .called .retEarly true s.ffs }, .retEarly, ?_, ?_,
        hasPh_setRet_to fid _ _ _ s.ffs hph, by simp [rankF]⟩
      · intro l hl; simp at hl; subst hl; exact Or.inr (Or.inl rfl)
      · simp only [run, step, hph, hst, if_true]
    · refine ⟨[.ffCheck fid], { s with ffs := setPh fid .called .checked s.ffs }, .checked, ?_, ?_,
        hasPh_setPh_to fid _ _ s.ffs hph, by simp [rankF]⟩
      · intro l hl; simp at hl; subst hl; exact Or.inr (Or.inl rfl)
      · have hst' : s.stopped = false := by simpa using hst
        simp only [run, step, hph, hst', if_true, Bool.false_eq_true, if_false]
  | checked =>
    obtain ⟨ls1, s1, a1, a2, a3, a4, a5⟩ := clear_mutex fid .checked (by simp) (by simp) s h hb hbuf hph
    have hC1 := (inv_reachable cap batch buf s1 a3).c
    -- make room (or find the buffer exporter stopped)
    have hroom : ∃ ls2 s2, (∀ l ∈ ls2, isE l) ∧ run s1 ls2 = some s2 ∧ s2.imu = none ∧ hasPh fid .checked s2.ffs = true ∧
        (s2.bufStopped = true ∨ s2.input.length < s2.buf) := by
      by_cases hx : s1.eph = .exited
      · have hcl := (hC1.exitedIn hx).2
        have hbs : s1.bufStopped = true := hC1.bufPh.mpr (by rcases hC1.closedPh hcl with e | e | e <;> simp [e])
        exact ⟨[], s1, by simp, rfl, a4, a5, Or.inl hbs⟩
      · obtain ⟨ls2, s2, b1, b2, b3, _, b5⟩ := drain_reach s1 a3 hb hx
        refine ⟨ls2, s2, b1, b2, ?_, ?_, Or.inr ?_⟩
        · exact run_preserve (fun s => s.imu = none) isE
            (fun a b l hs hl hq => (e_step_frame a b l hs hl).2.1.trans hq) ls2 s1 s2 b2 b1 a4
        · exact run_preserve (fun s => hasPh fid .checked s.ffs = true) isE
            (fun a b l hs hl hq => rel_step_hasPh fid .checked (by simp) (by simp) a b l hs (Or.inl hl) hq) ls2 s1 s2 b2 b1 a5
        · rw [b5, (reachable_cfg cap batch buf s2 b3).2.2]; simp; omega
    obtain ⟨ls2, s2, b1, b2, b3, b4, b5⟩ := hroom
    obtain ⟨s3, hd⟩ := deq_ok s2 s2.cap b3 b5
    have hf3 : s3.ffs = s2.ffs := (deq_hold _ _ _ _ hd).1
    refine ⟨ls1 ++ ls2 ++ [.ffDequeue fid], { s3 with ffs := setPh fid .checked .dequeued s3.ffs }, .dequeued,
      mem_append3 ls1 ls2 _ (sysF_of_rel fid ls1 a1) (sysF_of_e fid ls2 b1) (Or.inr (Or.inr (Or.inl rfl))), ?_,
      hasPh_setPh_to fid _ _ s3.ffs (by rw [hf3]; exact b4), by simp [rankF]⟩
    rw [List.append_assoc, run_append s ls1 _ s1 a2, run_append s1 ls2 _ s2 b2]
    simp only [run, step, b4, hd, if_true]
  | dequeued =>
    obtain ⟨ls1, s1, a1, a2, a3, a4, a5⟩ := clear_mutex fid .dequeued (by simp) (by simp) s h hb hbuf hph
    by_cases hbs : s1.bufStopped = true
    · refine ⟨ls1 ++ [.ffLock fid], { s1 with ffs := setRet fid .dequeued .retEarlyBuf true s1.ffs }, .retEarlyBuf, ?_, ?_,
        hasPh_setRet_to fid _ _ _ s1.ffs a5, by simp [rankF]⟩
      · intro x hx
        simp only [List.mem_append, List.mem_singleton] at hx
        rcases hx with hx | rfl
        · exact sysF_of_rel fid ls1 a1 x hx
        · exact Or.inr (Or.inr (Or.inr (Or.inl rfl)))
      · rw [run_append s ls1 _ s1 a2]
        simp only [run, step, a5, a4, hbs, and_self, if_true]
    · refine ⟨ls1 ++ [.ffLock fid], { s1 with imu := some (.ff fid), ffs := setPh fid .dequeued .locked s1.ffs }, .locked, ?_, ?_,
        hasPh_setPh_to fid _ _ s1.ffs a5, by simp [rankF]⟩
      · intro x hx
        simp only [List.mem_append, List.mem_singleton] at hx
        rcases hx with hx | rfl
        · exact sysF_of_rel fid ls1 a1 x hx
        · exact Or.inr (Or.inr (Or.inr (Or.inl rfl)))
      · rw [run_append s ls1 _ s1 a2]
        have hbs' : s1.bufStopped = false := by simpa using hbs
        simp only [run, step, a5, a4, hbs', and_self, if_true, Bool.false_eq_true, if_false]
  | locked =>
    have hH := invH_reachable cap batch buf s h
    obtain ⟨f, hf, hfid, hfph⟩ := hasPh_exists fid .locked s.ffs hph
    have himu : s.imu = some (.ff fid) := by rw [← hfid]; exact hH.lockedHolds f hf hfph
    have hx : s.eph ≠ .exited := not_exited_of s hC hH (by rw [himu]; simp) (by rw [himu]; simp)
    obtain ⟨ls1, s1, b1, b2, b3, _, b5⟩ := drain_reach s h hb hx
    have hl1 : hasPh fid .locked s1.ffs = true :=
      run_preserve (fun s => hasPh fid .locked s.ffs = true) isE (fun a b l hs hl hq => e_step_locked fid a b l hs hl hq)
        ls1 s s1 b2 b1 hph
    have hroom : s1.input.length < s1.buf := by
      rw [b5, (reachable_cfg cap batch buf s1 b3).2.2]; simp; omega
    refine ⟨ls1 ++ [.ffSend fid], { s1 with input := s1.input ++ [.marker fid], imu := none, ffs := setPh fid .locked .waiting s1.ffs },
      .waiting, ?_, ?_, hasPh_setPh_to fid _ _ s1.ffs hl1, by simp [rankF]⟩
    · intro x hx'
      simp only [List.mem_append, List.mem_singleton] at hx'
      rcases hx' with hx' | rfl
      · exact sysF_of_e fid ls1 b1 x hx'
      · exact Or.inl (Or.inl (Or.inr (Or.inr (Or.inl ⟨fid, rfl⟩))))
    · rw [run_append s ls1 _ s1 b2]
      simp only [run, step, hl1, hroom, and_self, if_true]
  | waiting =>
    have hW := invW_reachable cap batch buf s h
    obtain ⟨f, hf, hfid, hfph⟩ := hasPh_exists fid .waiting s.ffs hph
    have hmem := hW.marker f hf hfph
    have hx : s.eph ≠ .exited := fun he => by rw [hW.exitedEmpty he] at hmem; simp at hmem
    obtain ⟨ls1, s1, b1, b2, b3, _, b5⟩ := drain_reach s h hb hx
    have hor := run_preserve (fun s => hasPh fid .waiting s.ffs = true ∨ hasPh fid .responded s.ffs = true) isE
      (fun a b l hs hl hq => e_step_waiting fid a b l hs hl hq) ls1 s s1 b2 b1 (Or.inl hph)
    have hW1 := invW_reachable cap batch buf s1 b3
    have hresp : hasPh fid .responded s1.ffs = true := by
      rcases hor with hw | hr
      · obtain ⟨f1, hf1, _, hp1⟩ := hasPh_exists fid .waiting s1.ffs hw
        have := hW1.marker f1 hf1 hp1
        rw [b5] at this; simp at this
      · exact hr
    exact ⟨ls1, s1, .responded, sysF_of_e fid ls1 b1, b2, hresp, by simp [rankF]⟩
  | responded =>
    refine ⟨[.ffReturn fid true], { s with ffs := setRet fid .responded .retOk s.stopped s.ffs }, .retOk, ?_, ?_,
      hasPh_setRet_to fid _ _ _ s.ffs hph, by simp [rankF]⟩
    · intro l hl; simp at hl; subst hl; exact Or.inr (Or.inr (Or.inr (Or.inr ⟨true, rfl⟩)))
    · simp only [run, step, hph, if_true]
  | retOk => simp [rankF] at hnr
  | retEarly => simp [rankF] at hnr
  | retEarlyBuf => simp [rankF] at hnr
  | retErr => simp [rankF] at hnr

theorem forceflush_returns (fid : Nat) (n : Nat) : ∀ (s : St) (p : FPhase), Reachable cap batch buf s → 1 ≤ batch → 1 ≤ buf →
    hasPh fid p s.ffs = true → 6 - rankF p ≤ n →
    ∃ ls s' p', (∀ l ∈ ls, SysF fid l) ∧ run s ls = some s' ∧ hasPh fid p' s'.ffs = true ∧ rankF p' = 6 := by
  induction n with
  | zero =>
    intro s p _ _ _ hph hr
    have hle : rankF p ≤ 6 := by cases p <;> simp [rankF]
    exact ⟨[], s, p, by simp, rfl, hph, by omega⟩
  | succ n ih =>
    intro s p h hb hbuf hph hr
    have hle : rankF p ≤ 6 := by cases p <;> simp [rankF]
    by_cases hd : rankF p = 6
    · exact ⟨[], s, p, by simp, rfl, hph, hd⟩
    · obtain ⟨ls, s1, p1, h1, h2, h3, h4⟩ := stageF fid p s h hb hbuf hph (by omega)
      have hle1 : rankF p1 ≤ 6 := by cases p1 <;> simp [rankF]
      obtain ⟨ls2, s2, p2, g1, g2, g3, g4⟩ := ih s1 p1 (run_reachable s ls s1 h h2) hb hbuf h3 (by omega)
      refine ⟨ls ++ ls2, s2, p2, ?_, by rw [run_append s ls ls2 s1 h2]; exact g2, g3, g4⟩
      intro x hx
      simp only [List.mem_append] at hx
      rcases hx with hx | hx
      · exact h1 x hx
      · exact g1 x hx

end Otel.C06
