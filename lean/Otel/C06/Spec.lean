/-
C06 — specification predicates (no model internals): what an observer of the processor's API and of the
exporter may rely on. Each is executable; the driver evaluates them on what the real code did, the theorems
in Props.lean prove them for every reachable state of the model.
-/
namespace Otel.C06.Spec

/-- L1: no record id occurs twice in the exporter's log -/
def once (batches : List (List Nat)) : Bool := decide batches.flatten.Nodup

/-- L2: no exporter call is larger than the configured maximum batch size -/
def chunkBound (batch : Nat) (batches : List (List Nat)) : Bool := batches.all (·.length ≤ batch)

/-- no invention: only emitted records are exported -/
def onlyEmitted (batches : List (List Nat)) (emitted : List Nat) : Bool := batches.flatten.all (emitted.contains ·)

/-- L4: for every emitting goroutine (`gOf id`), the exported records of that goroutine appear in its emission
order. `order` lists the emitted ids so that the ids of one goroutine are in emission order. -/
def fifoOK (gOf : Nat → Nat) (order flat : List Nat) : Bool :=
  (order.map gOf).eraseDups.all fun g => (flat.filter (gOf · == g)).isSublist (order.filter (gOf · == g))

/-- L5 in its observable form: the records emitted before the call that are not in the exporter's log are
covered by the dropped counter (overwritten as the oldest) -/
def delivered (pre : List Nat) (batches : List (List Nat)) (dropped : Nat) : Bool :=
  (pre.eraseDups.filter (fun id => !batches.flatten.contains id)).length ≤ dropped

/-! History events, in the order of their (linearizable) stamps. -/
inductive Ev where
  | emitted (id : Nat)             -- Emit returned and the processor was still not stopped afterwards (accepted)
  | maybe (id : Nat)               -- Emit returned; a Shutdown started during the call (accepted or refused)
  | exportStart (b : List Nat)
  | exportEnd
  | mutated                        -- the exporter saw a record that differs from the value at emit time (L7)
  | ffCalled (fid : Nat)
  | ffReturned (fid : Nat) (ok : Bool)
  | sdCalled (k : Nat)
  | sdReturned (k : Nat) (ok : Bool)
deriving Repr, DecidableEq

structure Scan where
  emitted : List Nat := []
  order : List Nat := []             -- emitted and maybe-emitted ids (most recent first)
  batches : List (List Nat) := []
  inExport : Bool := false
  sdAny : Bool := false              -- some Shutdown has been called
  sdOut : List Nat := []             -- Shutdown calls in flight
  sdPre : List (Nat × List Nat) := []
  quietClean : Bool := false         -- a Shutdown returned nil while no other Shutdown call was in flight
  quietRacy : Bool := false          -- a Shutdown returned nil while another Shutdown call was in flight [F38]
  ffPre : List (Nat × List Nat) := []
  late : List Nat := []              -- ids whose Emit returned after a Shutdown had been called
  bad : List String := []
  f22 : Bool := false
  f38 : Bool := false

def scanStep (dropped : Nat) (s : Scan) : Ev → Scan
  | .emitted id => { s with emitted := id :: s.emitted, order := id :: s.order,
                            late := if s.sdAny then id :: s.late else s.late }
  | .maybe id => { s with order := id :: s.order, late := if s.sdAny then id :: s.late else s.late }
  | .exportStart b =>
    let s := if s.inExport then { s with bad := "L3:overlap" :: s.bad } else s
    let s := if s.quietClean then { s with bad := "L6:export-after-shutdown" :: s.bad }
             else if s.quietRacy then { s with f38 := true } else s
    { s with batches := s.batches ++ [b], inExport := true }
  | .exportEnd => { s with inExport := false }
  | .mutated => { s with bad := "L7:record-changed" :: s.bad }
  | .ffCalled fid => { s with ffPre := (fid, s.emitted) :: s.ffPre }
  | .ffReturned fid ok =>
    if !ok then s else
    match s.ffPre.lookup fid with
    | none => { s with bad := "ff-return-without-call" :: s.bad }
    | some pre =>
      if delivered pre s.batches dropped then s
      else if s.sdAny then { s with f22 := true }      -- ForceFlush raced a Shutdown that had been called
      else { s with bad := "L5:forceflush" :: s.bad }
  | .sdCalled k => { s with sdAny := true, sdOut := k :: s.sdOut, sdPre := (k, s.emitted) :: s.sdPre }
  | .sdReturned k ok =>
    let out := s.sdOut.erase k
    let s := { s with sdOut := out }
    if !ok then s else
    let racy := !out.isEmpty
    let s := if racy then { s with quietRacy := true } else { s with quietClean := true }
    let okD := delivered ((s.sdPre.lookup k).getD []) s.batches dropped && !s.inExport
    if okD then s
    else if racy then { s with f38 := true }            -- returned through the `stopped` check of a racing Shutdown
    else { s with bad := (if s.inExport then "L6:shutdown-returned-during-export" else "L5:shutdown") :: s.bad }

/-- the whole-history oracle: violated clauses (empty = ok) and the flags of the known findings.
F22: a ForceFlush returned nil without delivery after a Shutdown had been called. F38: a Shutdown call returned
nil without delivery / before later exports while another Shutdown call was in flight. F37 (order): the exported order of some goroutine's records differs from its emission order, but only records
whose Emit returned after a Shutdown had been called are out of place (they were enqueued behind Shutdown's
`q.Flush()` and dequeued by a ForceFlush before Shutdown enqueued its slice). -/
def histCheck (batch dropped : Nat) (gOf : Nat → Nat) (h : List Ev) : List String × Bool × Bool × Bool :=
  let s := h.foldl (scanStep dropped) {}
  let order := s.order.reverse
  let flat := s.batches.flatten
  let bad := s.bad
  let bad := if once s.batches then bad else "L1:duplicate" :: bad
  let bad := if chunkBound batch s.batches then bad else "L2:chunk-too-large" :: bad
  let bad := if onlyEmitted s.batches order then bad else "L0:unknown-record" :: bad
  let fifo := fifoOK gOf order flat
  let early := fun id => !s.late.contains id
  let f37 := !fifo && fifoOK gOf (order.filter early) (flat.filter early)
  let bad := if fifo || f37 then bad else "L4:order" :: bad
  (bad, s.f22, f37, s.f38)

end Otel.C06.Spec
