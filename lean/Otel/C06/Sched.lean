/-
C06 — deterministic scheduler over the LTS, used by the driver to replay *controlled schedules* (harness
leg `sched`): the harness issues one API call at a time and waits for quiescence; `settle` runs the internal
labels in a fixed priority order until none makes progress. It only ever takes LTS steps
(`settle_reachable`), so whatever it reaches is covered by the theorems. `racy` recognises the states in
which two goroutines of the real code compete (the outcome depends on the Go scheduler); from the first such
state on the driver does not compare model and implementation (the Spec oracle still judges the run).
-/
import Otel.C06.Model
namespace Otel.C06

/-- internal (non-API, non-exporter-return, non-timer) labels in priority order -/
def internalOrder (s : St) : List Lbl :=
  (s.inflight.reverse.map .enq) ++
  [.pKill, .pTrig, .eRecv, .eStart, .eExit] ++
  (s.ffs.reverse.flatMap fun f =>
    [.ffCheck f.fid, .ffDequeue f.fid, .ffLock f.fid, .ffSend f.fid, .ffReturn f.fid true]) ++
  (s.sds.reverse.map fun c => .sdSwap c.k) ++
  [.sdKill, .sdFlush, .sdLock, .sdSend, .sdBufStop, .sdClose, .sdExpShutdown] ++
  (s.sds.reverse.map fun c => .sdReturn c.k true)

/-- a step counts only if it changes something (a triggered poll iteration that finds the export buffer full
re-arms its own trigger: the real goroutine spins, the state does not change) -/
def progress (s s' : St) (l : Lbl) : Bool :=
  match l with
  | .pTrig => !(s'.q == s.q && s'.input == s.input && s'.trigger == s.trigger && s'.dropCtr == s.dropCtr)
  | _ => true

/-- goroutines the harness has parked at a hook (`verifPoint`, build tag `verif`): an Emit after its stopped
check, a ForceFlush after its stopped check, Shutdown at the entry of `bufferExporter.Export` (after `q.Flush()`) -/
structure Parked where
  emits : List Nat := []
  ffs : List Nat := []
  sd : Bool := false
deriving Repr

def Parked.allows (p : Parked) : Lbl → Bool
  | .enq id => !p.emits.contains id
  | .ffDequeue fid | .ffLock fid | .ffSend fid | .ffReturn fid _ => !p.ffs.contains fid
  | .sdLock => !p.sd
  | _ => true

def firstEnabled (s : St) : List Lbl → Option St
  | [] => none
  | l :: ls => match step s l with
    | some s' => if progress s s' l then some s' else firstEnabled s ls
    | none => firstEnabled s ls

def ffEnabledLock (s : St) : Nat := (s.ffs.filter fun f => f.ph == .dequeued).length

/-- two goroutines compete for the queue's records, for inputMu, or a ForceFlush in its dequeue loop runs
next to the first half of Shutdown -/
def racy (s : St) : Bool :=
  let ffPre := s.ffs.any fun f => f.ph == .checked || f.ph == .dequeued
  let ffChecked := s.ffs.any fun f => f.ph == .checked
  let sdEarly := s.sd == .swapped || s.sd == .killed || s.sd == .flushed
  let lockers := ffEnabledLock s + (if s.sd == .flushed && !s.hold.isEmpty then 1 else 0) +
    (if s.sd == .bufStopped then 1 else 0)
  (ffPre && sdEarly) ||
  (ffChecked && s.poll == .idle && s.trigger && !s.q.isEmpty) ||
  (decide (2 ≤ (s.ffs.filter fun f => f.ph == .checked).length) && !s.q.isEmpty) ||
  decide (2 ≤ lockers)

/-- run to quiescence; the Bool says whether a racy state was passed -/
def settle (p : Parked) : Nat → St → Bool → St × Bool
  | 0, s, r => (s, r)
  | fuel + 1, s, r =>
    let r := r || racy s
    match firstEnabled s ((internalOrder s).filter p.allows) with
    | some s' => settle p fuel s' r
    | none => (s, r)

theorem firstEnabled_step (s s' : St) (ls : List Lbl) (h : firstEnabled s ls = some s') :
    ∃ l, step s l = some s' := by
  induction ls with
  | nil => simp [firstEnabled] at h
  | cons l ls ih =>
    simp only [firstEnabled] at h
    split at h
    · rename_i s1 hs1
      split at h
      · cases h
        exact ⟨l, hs1⟩
      · exact ih h
    · exact ih h

theorem settle_reachable {cap batch buf : Nat} (p : Parked) (fuel : Nat) (s : St) (r : Bool)
    (h : Reachable cap batch buf s) : Reachable cap batch buf (settle p fuel s r).1 := by
  induction fuel generalizing s r with
  | zero => exact h
  | succ n ih =>
    simp only [settle]
    split
    · rename_i s' hs'
      obtain ⟨l, hl⟩ := firstEnabled_step s s' _ hs'
      exact ih s' _ (Reachable.step l h hl)
    · exact h

/-- script operations of a controlled schedule -/
inductive Op where
  | emit (id : Nat)      -- OnEmit
  | gate (ok : Bool)     -- let the exporter call in progress return nil / an error
  | ff (fid : Nat)       -- ForceFlush(ctx) in its own goroutine
  | sd (k : Nat)         -- Shutdown(ctx) in its own goroutine
  | timeout              -- wait until the per-export timeout of the call in progress has fired
  | cancel (fid : Nat)   -- the context of ForceFlush `fid` expires
  | pemit (id : Nat)     -- OnEmit that parks right after its stopped check (hook)
  | remit (id : Nat)     -- release it
  | pff (fid : Nat)      -- ForceFlush that parks right after its stopped check (hook)
  | rff (fid : Nat)      -- release it
  | psd (k : Nat)        -- Shutdown that parks at the entry of bufferExporter.Export, after q.Flush() (hook)
  | rsd                  -- release it
deriving Repr

def Op.isPark : Op → Bool
  | .pemit _ | .remit _ | .pff _ | .rff _ | .psd _ | .rsd => true
  | _ => false

def applyPark (p : Parked) : Op → Parked
  | .pemit id => { p with emits := id :: p.emits }
  | .remit id => { p with emits := p.emits.erase id }
  | .pff fid => { p with ffs := fid :: p.ffs }
  | .rff fid => { p with ffs := p.ffs.erase fid }
  | .psd _ => { p with sd := true }
  | .rsd => { p with sd := false }
  | _ => p

def applyOp (s : St) : Op → St
  | .emit id => (step s (.accept id)).getD s       -- stopped: OnEmit returns at once
  | .gate ok => (step s (.eEnd ok)).getD s
  | .ff fid => (step s (.ffCall fid)).getD s
  | .sd k => (step s (.sdCall k)).getD s
  | .timeout => (step s .eTimeout).getD s
  | .cancel fid => (step s (.ffCancel fid)).getD s
  | .pemit id => (step s (.accept id)).getD s
  | .pff fid => (step s (.ffCall fid)).getD s
  | .psd k => (step s (.sdCall k)).getD s
  | .remit _ | .rff _ | .rsd => s

theorem applyOp_reachable {cap batch buf : Nat} (s : St) (op : Op)
    (h : Reachable cap batch buf s) : Reachable cap batch buf (applyOp s op) := by
  cases op <;> simp only [applyOp]
  case emit id =>
    cases hs : step s (.accept id) with
    | none => simpa [hs] using h
    | some s' => simpa [hs] using Reachable.step _ h hs
  case gate ok =>
    cases hs : step s (.eEnd ok) with
    | none => simpa [hs] using h
    | some s' => simpa [hs] using Reachable.step _ h hs
  case ff fid =>
    cases hs : step s (.ffCall fid) with
    | none => simpa [hs] using h
    | some s' => simpa [hs] using Reachable.step _ h hs
  case sd k =>
    cases hs : step s (.sdCall k) with
    | none => simpa [hs] using h
    | some s' => simpa [hs] using Reachable.step _ h hs
  case timeout =>
    cases hs : step s .eTimeout with
    | none => simpa [hs] using h
    | some s' => simpa [hs] using Reachable.step _ h hs
  case cancel fid =>
    cases hs : step s (.ffCancel fid) with
    | none => simpa [hs] using h
    | some s' => simpa [hs] using Reachable.step _ h hs
  case pemit id =>
    cases hs : step s (.accept id) with
    | none => simpa [hs] using h
    | some s' => simpa [hs] using Reachable.step _ h hs
  case pff fid =>
    cases hs : step s (.ffCall fid) with
    | none => simpa [hs] using h
    | some s' => simpa [hs] using Reachable.step _ h hs
  case psd k =>
    cases hs : step s (.sdCall k) with
    | none => simpa [hs] using h
    | some s' => simpa [hs] using Reachable.step _ h hs
  all_goals exact h

end Otel.C06
