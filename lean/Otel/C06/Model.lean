/-
C06 — log batch processor (sdk/log/batch.go, exporter.go, ring.go) as a labelled transition system.

Labels are the atomic actions of the Go code: an atomic load/swap, a region under `queue.Mutex`
(`Enqueue`, `TryDequeue` *including* the non-blocking `EnqueueExport` performed by its callback, `Flush`),
a channel send/receive, the user exporter's call/return. Emitters (`OnEmit`), `ForceFlush` callers and
`Shutdown` callers form unbounded pools (`inflight`, `ffs`, `sds`); there is one poll goroutine and one
`exportSync` goroutine (the only place where the user exporter's `Export` is called).

Ghost components (not in the Go state): `accepted`, `seen`, `enqd` (order of `queue.Enqueue`), `droppedIds`
(the atomic counter `dropped` is `dropCtr`; `warned` is what `Dropped()` has already handed to the poll
loop's warning), `discarded` (records taken from the queue by `EnqueueExport` after the buffer exporter was
stopped: it pretends success), `exported` (the exporter's log, appended at `Export` entry), the `pre` sets,
`overtaken` (F37 flag, see Props).

Merged steps (sound for the safety clauses because the poll ticker may fire at any moment — `pTick` is
always enabled — and the merged actions touch no shared state in between): OnEmit's `Enqueue` + trigger send
+ return; the poll iteration `Dropped()` + `Ready()` + `TryDequeue|Len` + re-trigger.
timeoutExporter is a synchronous wrapper: the expiry of the per-export timeout (label `eTimeout`) only cancels the
context handed to the user exporter; the call ends when the user exporter returns (`eEnd`), whatever the timeout.
Not modelled: cancellation of Shutdown's context.
-/
namespace Otel.C06

/-- an export request in `bufferExporter.input` -/
inductive Req where
  | recs (l : List Nat) (sync : Bool)  -- records; `sync` = Shutdown's synchronous Export (has a respCh)
  | marker (fid : Nat)                 -- bufferExporter.ForceFlush: no records, respCh of ForceFlush `fid`
deriving DecidableEq, Repr

/-- exportSync goroutine: `idle` = receiving; `have` = holds a request, between exporter calls
(chunkExporter loop); `busy` = inside the user exporter's Export; `exited` = input closed and drained -/
inductive EPhase where
  | idle | have | busy | exited
deriving DecidableEq, Repr

inductive PPhase where
  | idle | exited
deriving DecidableEq, Repr

inductive FPhase where
  | called       -- entered, `pre` recorded (ghost)
  | checked      -- b.stopped loaded false; in the `for notFlushed()` loop
  | dequeued     -- TryDequeue succeeded (flushed = true)
  | locked       -- bufferExporter.enqueue: inputMu held, e.stopped loaded false, waiting for room
  | waiting      -- marker sent, waiting for the response
  | responded    -- response received, inner exporter ForceFlush next
  | retOk        -- returned nil on the normal path
  | retEarly     -- returned nil: b.stopped was set                                 [F22]
  | retEarlyBuf  -- returned nil: bufferExporter.enqueue found e.stopped (errStopped) [F22]
  | retErr       -- returned an error (ctx, inner ForceFlush)
deriving DecidableEq, Repr

structure FF where
  fid : Nat
  pre : List Nat        -- ghost: ids whose Emit had returned when ForceFlush was called
  ph : FPhase
  sdSeen : Bool := false  -- ghost: b.stopped was set when this call returned nil
deriving DecidableEq, Repr

/-- a Shutdown caller -/
inductive CPhase where
  | called | main | retOk | retEarly | retErr
deriving DecidableEq, Repr

structure SD where
  k : Nat
  pre : List Nat
  ph : CPhase
  racing : Bool := false   -- ghost: it lost `stopped.Swap` while the winning Shutdown had not yet returned [F38]
deriving DecidableEq, Repr

/-- progress of the one Shutdown call that won `stopped.Swap(true)` -/
inductive SPhase where
  | none | swapped | killed | flushed | locked | waitResp | gotResp | bufStopped | closing | shut | done
deriving DecidableEq, Repr

inductive Holder where
  | ff (fid : Nat) | sdExp | sdClose
deriving DecidableEq, Repr

structure St where
  cap : Nat
  batch : Nat
  buf : Nat
  q : List Nat := []               -- ring buffer contents, oldest first
  dropCtr : Nat := 0               -- queue.dropped
  warned : Nat := 0                -- ghost: sum of the values returned by Dropped()
  trigger : Bool := false          -- pollTrigger (cap 1)
  input : List Req := []           -- bufferExporter.input (cap buf)
  closed : Bool := false           -- close(input)
  imu : Option Holder := none      -- inputMu held across a blocking wait
  eph : EPhase := .idle
  curSync : Bool := false
  curRem : List Nat := []          -- records of the current request not yet handed to the exporter
  curErr : Bool := false
  exported : List (List Nat) := []
  poll : PPhase := .idle
  stopped : Bool := false          -- BatchProcessor.stopped
  killed : Bool := false           -- close(pollKill)
  bufStopped : Bool := false       -- bufferExporter.stopped
  hold : List Nat := []            -- result of q.Flush() in Shutdown, not yet enqueued
  sd : SPhase := .none
  sdErr : Bool := false
  sdPre : List Nat := []           -- ghost: `seen` when the stopped flag was set
  sdRetOk : Bool := false          -- the main Shutdown returned nil
  expShut : Bool := false          -- the user exporter's Shutdown was called
  sds : List SD := []
  ffs : List FF := []
  inflight : List Nat := []        -- OnEmit passed the stopped check, not yet enqueued
  accepted : List Nat := []
  seen : List Nat := []            -- ghost: ids whose OnEmit returned after enqueueing
  enqd : List Nat := []            -- ghost: ids in Enqueue order
  droppedIds : List Nat := []      -- ghost: overwritten-oldest ids
  discarded : List Nat := []       -- ghost: dequeued into a stopped bufferExporter
  overtaken : Bool := false        -- ghost: a dequeue passed records while Shutdown held flushed ones [F37]
deriving Repr

inductive Lbl where
  | accept (id : Nat)            -- OnEmit: stopped.Load() == false
  | enq (id : Nat)               -- q.Enqueue(clone) (overwrite oldest when full) + trigger + return
  | pTick                        -- poll: <-ticker.C, one iteration
  | pTrig                        -- poll: <-pollTrigger, one iteration
  | pKill                        -- poll: <-pollKill
  | eRecv                        -- exportSync: receive a request (marker: respond)
  | eStart                       -- chunkExporter: next chunk handed to the exporter (Export entry)
  | eEnd (ok : Bool)             -- exporter returns; after the last chunk: respond
  | eTimeout                     -- timeoutExporter's context expires during an Export call: nothing else happens
  | eExit                        -- input closed and empty: close(done)
  | ffCall (fid : Nat)
  | ffCheck (fid : Nat)
  | ffDequeue (fid : Nat)        -- one successful TryDequeue(all) of the notFlushed loop
  | ffLock (fid : Nat)           -- bufferExporter.enqueue: Lock; e.stopped?
  | ffSend (fid : Nat)           -- input <- marker; Unlock
  | ffReturn (fid : Nat) (ok : Bool) -- inner exporter ForceFlush returned
  | ffCancel (fid : Nat)         -- ctx done at any waiting point
  | sdCall (k : Nat)
  | sdSwap (k : Nat)             -- stopped.Swap(true)
  | sdKill                       -- close(pollKill)
  | sdFlush                      -- <-pollDone; q.Flush()
  | sdLock                       -- bufferExporter.Export: empty ⇒ return; else enqueue: Lock
  | sdSend                       -- input <- records; Unlock
  | sdBufStop                    -- bufferExporter.Shutdown: stopped.Swap(true)
  | sdClose                      -- inputMu.Lock; close(input)
  | sdExpShutdown                -- <-done; Unlock; user exporter's Shutdown
  | sdReturn (k : Nat) (ok : Bool)
deriving DecidableEq, Repr

def recsOf : List Req → List Nat
  | [] => []
  | .recs l _ :: r => l ++ recsOf r
  | .marker _ :: r => recsOf r

def setPh (fid : Nat) (from_ to : FPhase) (ffs : List FF) : List FF :=
  ffs.map fun f => if f.fid = fid ∧ f.ph = from_ then { f with ph := to } else f

/-- phase change at a nil return: remember whether a Shutdown had started -/
def setRet (fid : Nat) (from_ to : FPhase) (seen : Bool) (ffs : List FF) : List FF :=
  ffs.map fun f => if f.fid = fid ∧ f.ph = from_ then { f with ph := to, sdSeen := seen } else f

def hasPh (fid : Nat) (p : FPhase) (ffs : List FF) : Bool :=
  ffs.any fun f => f.fid = fid ∧ f.ph = p

def setC (k : Nat) (from_ to : CPhase) (sds : List SD) : List SD :=
  sds.map fun c => if c.k = k ∧ c.ph = from_ then { c with ph := to } else c

def hasC (k : Nat) (p : CPhase) (sds : List SD) : Bool :=
  sds.any fun c => c.k = k ∧ c.ph = p

/-- `queue.TryDequeue(buf[:n], EnqueueExport)`: one region under the queue lock. Result: new state and
the callback's answer. `none` = blocked on inputMu. -/
def deq (s : St) (n : Nat) : Option (St × Bool) :=
  if s.q.take n = [] then some (s, true)                 -- EnqueueExport: nothing to enqueue
  else if s.imu.isSome then none
  else if s.bufStopped then                              -- pretends success: the records are gone
    some ({ s with q := s.q.drop n, discarded := s.discarded ++ s.q.take n }, true)
  else if s.input.length < s.buf then
    some ({ s with q := s.q.drop n, input := s.input ++ [.recs (s.q.take n) false],
                   overtaken := s.overtaken || !s.hold.isEmpty }, true)
  else some (s, false)                                   -- buffer full: nothing removed

/-- one iteration of the poll loop after the select -/
def pollWork (s : St) : Option St :=
  let s1 := { s with warned := s.warned + s.dropCtr, dropCtr := 0 }
  if s1.input.length < s1.buf then
    match deq s1 s1.batch with
    | none => none
    | some (s2, _) => some { s2 with trigger := s2.trigger || decide (s2.batch ≤ s2.q.length) }
  else some { s1 with trigger := s1.trigger || decide (s1.batch ≤ s1.q.length) }

def step (s : St) : Lbl → Option St
  | .accept id =>
    if s.stopped ∨ id ∈ s.accepted then none
    else some { s with inflight := id :: s.inflight, accepted := id :: s.accepted }
  | .enq id =>
    if id ∈ s.inflight then
      if s.q.length < s.cap then
        some { s with inflight := s.inflight.erase id, q := s.q ++ [id], seen := id :: s.seen, enqd := s.enqd ++ [id],
                      trigger := s.trigger || decide (s.batch ≤ s.q.length + 1) }
      else match s.q with
        | [] => none                      -- cap = 0 is excluded by the configuration
        | h :: t =>
          some { s with inflight := s.inflight.erase id, q := t ++ [id], seen := id :: s.seen, enqd := s.enqd ++ [id],
                        droppedIds := h :: s.droppedIds, dropCtr := s.dropCtr + 1,
                        trigger := s.trigger || decide (s.batch ≤ t.length + 1) }
    else none
  | .pTick => if s.poll = .idle then pollWork s else none
  | .pTrig => if s.poll = .idle ∧ s.trigger then pollWork { s with trigger := false } else none
  | .pKill => if s.poll = .idle ∧ s.killed then some { s with poll := .exited } else none
  | .eRecv =>
    if s.eph = .idle then
      match s.input with
      | [] => none
      | .marker fid :: rest => some { s with input := rest, ffs := setPh fid .waiting .responded s.ffs }
      | .recs l sync :: rest => some { s with input := rest, eph := .have, curRem := l, curSync := sync, curErr := false }
    else none
  | .eStart =>
    if s.eph = .have then
      some { s with eph := .busy, exported := s.exported ++ [s.curRem.take s.batch], curRem := s.curRem.drop s.batch }
    else none
  | .eEnd ok =>
    if s.eph = .busy then
      if s.curRem = [] then
        if s.curSync ∧ s.sd = .waitResp then
          some { s with eph := .idle, sd := .gotResp, sdErr := s.curErr || !ok }
        else some { s with eph := .idle }
      else some { s with eph := .have, curErr := s.curErr || !ok }
    else none
  | .eTimeout => if s.eph = .busy then some s else none
  | .eExit => if s.eph = .idle ∧ s.input = [] ∧ s.closed then some { s with eph := .exited } else none
  | .ffCall fid =>
    if s.ffs.any (·.fid = fid) then none
    else some { s with ffs := { fid := fid, pre := s.seen, ph := .called } :: s.ffs }
  | .ffCheck fid =>
    if hasPh fid .called s.ffs then
      if s.stopped then some { s with ffs := setRet fid .called .retEarly true s.ffs }
      else some { s with ffs := setPh fid .called .checked s.ffs }
    else none
  | .ffDequeue fid =>
    if hasPh fid .checked s.ffs then
      match deq s s.cap with
      | some (s2, true) => some { s2 with ffs := setPh fid .checked .dequeued s2.ffs }
      | _ => none
    else none
  | .ffLock fid =>
    if hasPh fid .dequeued s.ffs ∧ s.imu = none then
      if s.bufStopped then some { s with ffs := setRet fid .dequeued .retEarlyBuf true s.ffs }
      else some { s with imu := some (.ff fid), ffs := setPh fid .dequeued .locked s.ffs }
    else none
  | .ffSend fid =>
    if hasPh fid .locked s.ffs ∧ s.input.length < s.buf then
      some { s with input := s.input ++ [.marker fid], imu := none, ffs := setPh fid .locked .waiting s.ffs }
    else none
  | .ffReturn fid ok =>
    if hasPh fid .responded s.ffs then
      some { s with ffs := setRet fid .responded (if ok then .retOk else .retErr) s.stopped s.ffs }
    else none
  | .ffCancel fid =>
    if hasPh fid .locked s.ffs then some { s with imu := none, ffs := setPh fid .locked .retErr s.ffs }
    else some { s with ffs := s.ffs.map fun f =>
      if f.fid = fid ∧ (f.ph = .called ∨ f.ph = .checked ∨ f.ph = .dequeued ∨ f.ph = .waiting ∨ f.ph = .responded)
      then { f with ph := .retErr } else f }
  | .sdCall k =>
    if s.sds.any (·.k = k) then none
    else some { s with sds := { k := k, pre := s.seen, ph := .called } :: s.sds }
  | .sdSwap k =>
    if hasC k .called s.sds then
      if s.stopped then some { s with sds := s.sds.map fun c =>
        if c.k = k ∧ c.ph = .called then { c with ph := .retEarly, racing := s.sd != .done } else c }
      else some { s with stopped := true, sd := .swapped, sdPre := s.seen, sds := setC k .called .main s.sds }
    else none
  | .sdKill => if s.sd = .swapped then some { s with sd := .killed, killed := true } else none
  | .sdFlush =>
    if s.sd = .killed ∧ s.poll = .exited then some { s with sd := .flushed, hold := s.q, q := [] } else none
  | .sdLock =>
    if s.sd = .flushed then
      if s.hold = [] then some { s with sd := .gotResp }
      else if s.imu = none then some { s with sd := .locked, imu := some .sdExp }
      else none
    else none
  | .sdSend =>
    if s.sd = .locked ∧ s.input.length < s.buf then
      some { s with sd := .waitResp, input := s.input ++ [.recs s.hold true], hold := [], imu := none }
    else none
  | .sdBufStop => if s.sd = .gotResp then some { s with sd := .bufStopped, bufStopped := true } else none
  | .sdClose =>
    if s.sd = .bufStopped ∧ s.imu = none then some { s with sd := .closing, closed := true, imu := some .sdClose }
    else none
  | .sdExpShutdown =>
    if s.sd = .closing ∧ s.eph = .exited then some { s with sd := .shut, imu := none, expShut := true } else none
  | .sdReturn k ok =>
    if s.sd = .shut ∧ hasC k .main s.sds then
      some { s with sd := .done, sdRetOk := ok && !s.sdErr,
                    sds := setC k .main (if ok && !s.sdErr then .retOk else .retErr) s.sds }
    else none

/-- `chunkExporter.Export` as a function (fuel = an upper bound of the number of records): `res` are the inner
exporter's results, one per call (`true` = nil, `false` = ANY error — an ordinary one, context.Canceled,
context.DeadlineExceeded, …); the result is the list of calls made, in order, and whether some call failed
(`errors.Join`). No result ends the loop: only the records run out. -/
def chunkExport (size : Nat) : Nat → List Bool → List Nat → List (List Nat) × Bool
  | 0, _, _ => ([], false)
  | fuel + 1, res, l =>
    if l = [] then ([], false)
    else
      let r := chunkExport size fuel res.tail (l.drop size)
      (l.take size :: r.1, !(res.headD true) || r.2)

/-- the same loop on the LTS: exportSync holding a request runs `eStart` / `eEnd result` until it is idle again -/
def exportLoop : Nat → List Bool → St → Option St
  | 0, _, s => some s
  | fuel + 1, res, s =>
    if s.eph = .have then
      match step s .eStart with
      | none => none
      | some s1 => match step s1 (.eEnd (res.headD true)) with
        | none => none
        | some s2 => exportLoop fuel res.tail s2
    else some s

/-- F22 exclusion predicate for a ForceFlush: it returned nil while a Shutdown had started (the processor's
`stopped` flag was set): through the `stopped` check, through the buffer exporter's `errStopped`, or on the
normal path while Shutdown held the flushed records. -/
def F22_applies (f : FF) : Bool := (f.ph == .retEarly || f.ph == .retEarlyBuf || f.ph == .retOk) && f.sdSeen

/-- F38 exclusion predicate for a Shutdown call: it lost `stopped.Swap(true)` to a Shutdown that had not yet
returned, and returned nil at once -/
def F38_applies (c : SD) : Bool := c.ph == .retEarly && c.racing

def init (cap batch buf : Nat) : St := { cap := cap, batch := batch, buf := buf }

/-- run a label sequence; `none` if some label is not enabled -/
def run (s : St) : List Lbl → Option St
  | [] => some s
  | l :: ls => match step s l with
    | some s' => run s' ls
    | none => none

inductive Reachable (cap batch buf : Nat) : St → Prop where
  | init : Reachable cap batch buf (init cap batch buf)
  | step {s s' : St} (l : Lbl) : Reachable cap batch buf s → step s l = some s' → Reachable cap batch buf s'

end Otel.C06
