/-
C06 — the record queue of sdk/log/batch.go (`queue`: Enqueue / TryDequeue / Flush / Len / Dropped) on top of the
linked ring of sdk/log/ring.go, at the level of the ring nodes and the `read` / `write` pointers — and its
specification, a bounded FIFO that overwrites the oldest element. The LTS of Model.lean uses the specification
(`St.q : List Nat`); `PropsRing.lean` proves that the pointer-level code refines it for every capacity ≥ 1 and
every sequence of operations.

A ring of `cap` nodes (`newRing cap`) is the list of the node values; a node is its index; `Next()` of the last
node is the first one (`next`). Record values are ids (Nat); the zero Record is 0.
-/
namespace Otel.C06.Ring

/-- `(*ring).Next()` on a ring of `cap` nodes built by `newRing` -/
def next (cap i : Nat) : Nat := if i + 1 < cap then i + 1 else 0

structure Q where
  cap : Nat
  slots : List Nat       -- ring node values, node 0 = the node returned by newRing
  read : Nat
  write : Nat
  len : Nat
  dropped : Nat          -- atomic counter `dropped`
deriving DecidableEq, Repr

/-- `newQueue(size)`: `read` and `write` both point at the ring's first node -/
def newQueue (size : Nat) : Q :=
  { cap := size, slots := List.replicate size 0, read := 0, write := 0, len := 0, dropped := 0 }

/-- `queue.Enqueue(r)`: store at `write`, advance `write`; on overflow advance `read` and count. Returns the
queue and the returned length. -/
def enqueue (q : Q) (r : Nat) : Q × Nat :=
  let slots := q.slots.set q.write r
  let write := next q.cap q.write
  if q.len + 1 > q.cap then
    ({ q with slots := slots, write := write, len := q.cap, read := next q.cap q.read, dropped := q.dropped + 1 }, q.cap)
  else ({ q with slots := slots, write := write, len := q.len + 1 }, q.len + 1)

/-- the copy loop `for i := 0; i < n; i++ { buf[i] = q.read.Value; q.read = q.read.Next() }`: values read -/
def vals (cap : Nat) (slots : List Nat) : Nat → Nat → List Nat
  | 0, _ => []
  | n + 1, rd => slots.getD rd 0 :: vals cap slots n (next cap rd)

/-- … and where `read` points afterwards -/
def adv (cap : Nat) : Nat → Nat → Nat
  | 0, rd => rd
  | n + 1, rd => adv cap n (next cap rd)

/-- `queue.TryDequeue(buf, write)` with `len(buf) = bufLen` and a `write` callback that answers `ok`:
the queue afterwards, the slice handed to `write`, the returned remaining length. -/
def tryDequeue (q : Q) (bufLen : Nat) (ok : Bool) : Q × List Nat × Nat :=
  let n := min bufLen q.len
  let handed := vals q.cap q.slots n q.read
  if ok then ({ q with read := adv q.cap n q.read, len := q.len - n }, handed, q.len - n)
  else (q, handed, q.len)          -- `q.read = origRead`

/-- `queue.Flush()` -/
def flush (q : Q) : Q × List Nat :=
  ({ q with read := adv q.cap q.len q.read, len := 0 }, vals q.cap q.slots q.len q.read)

/-- `queue.Dropped()`: `dropped.Swap(0)` -/
def droppedSwap (q : Q) : Q × Nat := ({ q with dropped := 0 }, q.dropped)

/-! ### Specification: bounded FIFO, overwrite oldest -/

structure S where
  cap : Nat
  l : List Nat := []
  dropped : Nat := 0
deriving DecidableEq, Repr

def S.enqueue (s : S) (r : Nat) : S × Nat :=
  if s.l.length < s.cap then ({ s with l := s.l ++ [r] }, s.l.length + 1)
  else ({ s with l := s.l.tail ++ [r], dropped := s.dropped + 1 }, s.cap)

def S.tryDequeue (s : S) (bufLen : Nat) (ok : Bool) : S × List Nat × Nat :=
  if ok then ({ s with l := s.l.drop bufLen }, s.l.take bufLen, s.l.length - bufLen)
  else (s, s.l.take bufLen, s.l.length)

def S.flush (s : S) : S × List Nat := ({ s with l := [] }, s.l)

def S.droppedSwap (s : S) : S × Nat := ({ s with dropped := 0 }, s.dropped)

/-! ### Operation scripts -/

inductive Op where
  | enq (r : Nat) | deq (bufLen : Nat) (ok : Bool) | flush | len | dropped
deriving DecidableEq, Repr

inductive Obs where
  | n (k : Nat)                          -- Enqueue / Len / Dropped result
  | recs (l : List Nat) (rem : Nat)      -- slice handed over, remaining length (Flush: 0)
deriving DecidableEq, Repr

def opQ (q : Q) : Op → Q × Obs
  | .enq r => ((enqueue q r).1, .n (enqueue q r).2)
  | .deq b ok => ((tryDequeue q b ok).1, .recs (tryDequeue q b ok).2.1 (tryDequeue q b ok).2.2)
  | .flush => ((flush q).1, .recs (flush q).2 0)
  | .len => (q, .n q.len)
  | .dropped => ((droppedSwap q).1, .n (droppedSwap q).2)

def opS (s : S) : Op → S × Obs
  | .enq r => ((s.enqueue r).1, .n (s.enqueue r).2)
  | .deq b ok => ((s.tryDequeue b ok).1, .recs (s.tryDequeue b ok).2.1 (s.tryDequeue b ok).2.2)
  | .flush => (s.flush.1, .recs s.flush.2 0)
  | .len => (s, .n s.l.length)
  | .dropped => (s.droppedSwap.1, .n s.droppedSwap.2)

def runQ (q : Q) : List Op → Q × List Obs
  | [] => (q, [])
  | o :: os => ((runQ (opQ q o).1 os).1, (opQ q o).2 :: (runQ (opQ q o).1 os).2)

def runS (s : S) : List Op → S × List Obs
  | [] => (s, [])
  | o :: os => ((runS (opS s o).1 os).1, (opS s o).2 :: (runS (opS s o).1 os).2)

/-- abstraction: the `len` values starting at `read` -/
def abs (q : Q) : S := { cap := q.cap, l := vals q.cap q.slots q.len q.read, dropped := q.dropped }

/-- position of the i-th node after `r` -/
def idx (cap r i : Nat) : Nat := if r + i < cap then r + i else r + i - cap

/-- representation invariant of `queue` -/
structure WF (q : Q) : Prop where
  pos : 1 ≤ q.cap
  slen : q.slots.length = q.cap
  rd : q.read < q.cap
  le : q.len ≤ q.cap
  wr : q.write = idx q.cap q.read q.len

/-! ### Lemmas -/

theorem idx_next (cap r i : Nat) (hr : r < cap) (hi : i < cap) : idx cap (next cap r) i = idx cap r (i + 1) := by
  unfold idx next
  split <;> split <;> split <;> omega

theorem next_lt (cap r : Nat) (hc : 1 ≤ cap) : next cap r < cap := by
  unfold next; split <;> omega

theorem idx_lt (cap r i : Nat) (hr : r < cap) (hi : i ≤ cap) : idx cap r i < cap := by
  unfold idx; split <;> omega

theorem vals_length (cap : Nat) (slots : List Nat) (n rd : Nat) : (vals cap slots n rd).length = n := by
  induction n generalizing rd with
  | zero => rfl
  | succ n ih => simp [vals, ih]

theorem adv_eq (cap : Nat) (n rd : Nat) (hr : rd < cap) (hn : n ≤ cap) : adv cap n rd = idx cap rd n := by
  induction n generalizing rd with
  | zero => simp [adv, idx, hr]
  | succ n ih =>
    simp only [adv]
    rw [ih (next cap rd) (next_lt cap rd (by omega)) (by omega), idx_next cap rd n hr (by omega)]

theorem vals_set_other (cap : Nat) (slots : List Nat) (w r : Nat) (n rd : Nat) (hr : rd < cap) (hn : n ≤ cap)
    (hw : ∀ i, i < n → idx cap rd i ≠ w) : vals cap (slots.set w r) n rd = vals cap slots n rd := by
  induction n generalizing rd with
  | zero => rfl
  | succ n ih =>
    simp only [vals]
    have h0 : rd ≠ w := by
      have := hw 0 (by omega)
      simpa [idx, hr] using this
    have hg : (slots.set w r).getD rd 0 = slots.getD rd 0 := by
      simp only [List.getD_eq_getElem?_getD]
      rw [List.getElem?_set_ne (Ne.symm h0)]
    rw [hg, ih (next cap rd) (next_lt cap rd (by omega)) (by omega)]
    intro i hi
    rw [idx_next cap rd i hr (by omega)]
    exact hw (i + 1) (by omega)

theorem vals_snoc (cap : Nat) (slots : List Nat) (n rd : Nat) (hr : rd < cap) (hn : n < cap) :
    vals cap slots (n + 1) rd = vals cap slots n rd ++ [slots.getD (idx cap rd n) 0] := by
  induction n generalizing rd with
  | zero => simp [vals, idx, hr]
  | succ n ih =>
    rw [vals, ih (next cap rd) (next_lt cap rd (by omega)) (by omega), idx_next cap rd n hr (by omega)]
    simp [vals]

theorem vals_take (cap : Nat) (slots : List Nat) (n k rd : Nat) :
    (vals cap slots n rd).take k = vals cap slots (min k n) rd := by
  induction n generalizing rd k with
  | zero => simp [vals]
  | succ n ih =>
    cases k with
    | zero => simp [vals]
    | succ k =>
      have : min (k + 1) (n + 1) = min k n + 1 := by omega
      rw [this]
      simp [vals, ih]

theorem vals_drop (cap : Nat) (slots : List Nat) (n k rd : Nat) (hr : rd < cap) (hn : n ≤ cap) (hk : k ≤ n) :
    (vals cap slots n rd).drop k = vals cap slots (n - k) (adv cap k rd) := by
  induction k generalizing rd n with
  | zero => simp [adv]
  | succ k ih =>
    cases n with
    | zero => omega
    | succ n =>
      simp only [vals, List.drop_succ_cons, adv]
      rw [ih n (next cap rd) (next_lt cap rd (by omega)) (by omega) (by omega)]
      congr 1
      omega

theorem idx_inj (cap r i j : Nat) (_hr : r < cap) (hi : i < cap) (hj : j < cap) (h : idx cap r i = idx cap r j) : i = j := by
  unfold idx at h
  split at h <;> split at h <;> omega

theorem getD_set_self (slots : List Nat) (w r : Nat) (hw : w < slots.length) : (slots.set w r).getD w 0 = r := by
  simp [List.getD_eq_getElem?_getD, hw]

theorem wf_new (size : Nat) (h : 1 ≤ size) : WF (newQueue size) :=
  ⟨h, by simp [newQueue], by simp [newQueue]; omega, by simp [newQueue], by simp [newQueue, idx]⟩

theorem enqueue_sim (q : Q) (r : Nat) (h : WF q) :
    WF (enqueue q r).1 ∧ abs (enqueue q r).1 = ((abs q).enqueue r).1 ∧ (enqueue q r).2 = ((abs q).enqueue r).2 := by
  obtain ⟨hpos, hslen, hrd, hle, hwr⟩ := h
  have hwlt : q.write < q.cap := by rw [hwr]; exact idx_lt _ _ _ hrd hle
  unfold enqueue
  by_cases hfull : q.len + 1 > q.cap
  · have hlen : q.len = q.cap := by omega
    have hw : q.write = q.read := by rw [hwr, hlen]; unfold idx; split <;> omega
    simp only [hfull, if_true]
    refine ⟨⟨hpos, by simpa using hslen, next_lt _ _ hpos, Nat.le_refl _, ?_⟩, ?_, ?_⟩
    · show next q.cap q.write = idx q.cap (next q.cap q.read) q.cap
      rw [hw]; unfold idx; have := next_lt q.cap q.read hpos; split <;> omega
    · simp only [abs, S.enqueue, vals_length, hlen, Nat.lt_irrefl, if_false]
      obtain ⟨m, hm⟩ : ∃ m, q.cap = m + 1 := ⟨q.cap - 1, by omega⟩
      congr 1
      rw [hw]
      have e : ∀ S rd', vals q.cap S q.cap rd' = vals q.cap S (m + 1) rd' := by intro S rd'; rw [← hm]
      rw [e, e]
      rw [vals_snoc q.cap _ m _ (next_lt _ _ hpos) (by omega)]
      have hidx : idx q.cap (next q.cap q.read) m = q.read := by
        rw [idx_next q.cap q.read m hrd (by omega)]
        unfold idx; split <;> omega
      rw [hidx, getD_set_self _ _ _ (by omega)]
      rw [vals_set_other q.cap q.slots q.read r m _ (next_lt _ _ hpos) (by omega)]
      · simp [vals]
      · intro i hi
        rw [idx_next q.cap q.read i hrd (by omega)]
        intro he
        have h0 : idx q.cap q.read 0 = q.read := by simp [idx, hrd]
        have := idx_inj q.cap q.read (i + 1) 0 hrd (by omega) (by omega) (by rw [he, h0])
        omega
    · simp [abs, S.enqueue, vals_length, hlen]
  · have hlt : q.len < q.cap := by omega
    simp only [hfull, if_false]
    refine ⟨⟨hpos, by simpa using hslen, hrd, by simp; omega, ?_⟩, ?_, ?_⟩
    · show next q.cap q.write = idx q.cap q.read (q.len + 1)
      rw [hwr]; unfold next idx; split <;> split <;> split <;> omega
    · simp only [abs, S.enqueue, vals_length, hlt, if_true]
      congr 1
      rw [vals_snoc q.cap _ q.len q.read hrd hlt, ← hwr, getD_set_self _ _ _ (by omega)]
      rw [vals_set_other q.cap q.slots q.write r q.len q.read hrd (by omega)]
      intro i hi he
      have := idx_inj q.cap q.read i q.len hrd (by omega) hlt (by rw [he, hwr])
      omega
    · simp [abs, S.enqueue, vals_length, hlt]

theorem tryDequeue_sim (q : Q) (b : Nat) (ok : Bool) (h : WF q) :
    WF (tryDequeue q b ok).1 ∧ abs (tryDequeue q b ok).1 = ((abs q).tryDequeue b ok).1 ∧
    (tryDequeue q b ok).2 = ((abs q).tryDequeue b ok).2 := by
  obtain ⟨hpos, hslen, hrd, hle, hwr⟩ := h
  have hmin : min b q.len ≤ q.cap := by omega
  cases ok
  · refine ⟨⟨hpos, hslen, hrd, hle, hwr⟩, ?_, ?_⟩ <;> simp [tryDequeue, abs, S.tryDequeue, vals_take, vals_length]
  · simp only [tryDequeue, if_true, abs, S.tryDequeue, vals_take, vals_length]
    have hadv := adv_eq q.cap (min b q.len) q.read hrd hmin
    refine ⟨⟨hpos, hslen, ?_, by simp; omega, ?_⟩, ?_, ?_⟩
    · show adv q.cap (min b q.len) q.read < q.cap
      rw [hadv]; exact idx_lt _ _ _ hrd hmin
    · show q.write = idx q.cap (adv q.cap (min b q.len) q.read) (q.len - min b q.len)
      rw [hadv, hwr]
      unfold idx
      split <;> split <;> split <;> omega
    · congr 1
      by_cases hb : b ≤ q.len
      · rw [vals_drop q.cap q.slots q.len b q.read hrd hle hb]
        have : min b q.len = b := by omega
        rw [this]
      · have h1 : min b q.len = q.len := by omega
        rw [h1, List.drop_eq_nil_of_le (by rw [vals_length]; omega)]
        simp [vals]
    · have : q.len - min b q.len = q.len - b := by omega
      rw [this]

theorem flush_sim (q : Q) (h : WF q) :
    WF (flush q).1 ∧ abs (flush q).1 = ((abs q).flush).1 ∧ (flush q).2 = ((abs q).flush).2 := by
  obtain ⟨hpos, hslen, hrd, hle, hwr⟩ := h
  have hadv := adv_eq q.cap q.len q.read hrd hle
  refine ⟨⟨hpos, hslen, ?_, by simp [flush], ?_⟩, ?_, ?_⟩
  · show adv q.cap q.len q.read < q.cap
    rw [hadv]; exact idx_lt _ _ _ hrd hle
  · show q.write = idx q.cap (adv q.cap q.len q.read) 0
    rw [hadv, hwr]
    have := idx_lt q.cap q.read q.len hrd hle
    generalize idx q.cap q.read q.len = x at this ⊢
    simp [idx, this]
  · simp [flush, abs, S.flush, vals]
  · simp [flush, abs, S.flush]

theorem op_sim (q : Q) (o : Op) (h : WF q) :
    WF (opQ q o).1 ∧ abs (opQ q o).1 = (opS (abs q) o).1 ∧ (opQ q o).2 = (opS (abs q) o).2 := by
  cases o with
  | enq r =>
    obtain ⟨h1, h2, h3⟩ := enqueue_sim q r h
    exact ⟨h1, h2, by simp only [opQ, opS]; rw [h3]⟩
  | deq b ok =>
    obtain ⟨h1, h2, h3⟩ := tryDequeue_sim q b ok h
    exact ⟨h1, h2, by simp only [opQ, opS]; rw [h3]⟩
  | flush =>
    obtain ⟨h1, h2, h3⟩ := flush_sim q h
    exact ⟨h1, h2, by simp only [opQ, opS]; rw [h3]⟩
  | len => exact ⟨h, rfl, by simp [opQ, opS, abs, vals_length]⟩
  | dropped => exact ⟨⟨h.pos, h.slen, h.rd, h.le, h.wr⟩, rfl, rfl⟩

theorem run_sim (q : Q) (ops : List Op) (h : WF q) :
    WF (runQ q ops).1 ∧ abs (runQ q ops).1 = (runS (abs q) ops).1 ∧ (runQ q ops).2 = (runS (abs q) ops).2 := by
  induction ops generalizing q with
  | nil => exact ⟨h, rfl, rfl⟩
  | cons o os ih =>
    obtain ⟨h1, h2, h3⟩ := op_sim q o h
    obtain ⟨i1, i2, i3⟩ := ih (opQ q o).1 h1
    simp only [runQ, runS]
    rw [← h2, ← h3]
    exact ⟨i1, i2, by rw [i3]⟩

end Otel.C06.Ring
