/-
C06 — progress of the exportSync goroutine (sdk/log/exporter.go `exportSync`, `exportData.DoExport`, the chunk
loop) on the LTS of Model.lean: a variant `work` that every step of exportSync strictly decreases, that no step of
any other goroutine can disable, and the resulting drain theorem. The fairness hypotheses are explicit:
(H1) the exportSync goroutine is scheduled whenever it has an enabled step (weak fairness for the labels
`eRecv` / `eStart` / `eEnd`), (H2) every call of the user exporter's `Export` returns (`eEnd` is enabled whenever
the phase is `busy` — in the model by definition of `step`; for the real code this is the Exporter contract
"the deadline or cancellation of the passed context must be honored" plus timeoutExporter's deadline).
-/
import Otel.C06.Lemmas4
namespace Otel.C06

def reqW : Req → Nat
  | .recs l _ => 2 * l.length + 3
  | .marker _ => 1

def inputW : List Req → Nat
  | [] => 0
  | r :: rest => reqW r + inputW rest

def phaseW (s : St) : Nat :=
  match s.eph with
  | .idle => 0
  | .have => if s.curRem = [] then 2 else 2 * s.curRem.length
  | .busy => 2 * s.curRem.length + 1
  | .exited => 0

/-- upper bound of the number of steps exportSync needs to serve everything that is in the export buffer -/
def work (s : St) : Nat := inputW s.input + phaseW s

/-- exportSync's next step (`eEnd`'s result is the user exporter's choice: any value will do) -/
def eNext (s : St) : Option Lbl :=
  match s.eph with
  | .idle => if s.input = [] then none else some .eRecv
  | .have => some .eStart
  | .busy => some (.eEnd true)
  | .exited => none

def isE (l : Lbl) : Prop := l = .eRecv ∨ l = .eStart ∨ ∃ ok, l = .eEnd ok

/-- the records in the export pipeline, in order: already handed to the exporter, rest of the request in
progress, buffered requests -/
def pipeline (s : St) : List Nat := s.exported.flatten ++ s.curRem ++ recsOf s.input

theorem eNext_progress (s : St) (l : Lbl) (hb : 1 ≤ s.batch) (hI : s.eph = .idle → s.curRem = [])
    (hn : eNext s = some l) :
    isE l ∧ ∃ s', step s l = some s' ∧ work s' < work s ∧ pipeline s' = pipeline s ∧ s'.batch = s.batch ∧
      s'.eph ≠ .exited ∧ (s'.eph = .idle → s'.curRem = []) ∧ s'.imu = s.imu := by
  unfold eNext at hn
  cases he : s.eph <;> simp only [he] at hn
  · -- idle
    split at hn
    · simp at hn
    · simp only [Option.some.injEq] at hn
      subst hn
      refine ⟨Or.inl rfl, ?_⟩
      have hc := hI he
      cases hin : s.input with
      | nil => rename_i hne; exact absurd hin hne
      | cons r rest =>
        cases r with
        | marker fid =>
          refine ⟨{ s with input := rest, ffs := setPh fid .waiting .responded s.ffs }, ?_, ?_, ?_, rfl, ?_, fun _ => hc, rfl⟩
          · simp only [step, he, hin, if_true]
          · simp [work, phaseW, he, hin, inputW, reqW]
          · simp [pipeline, hin, recsOf]
          · simp [he]
        | recs rl sync =>
          refine ⟨{ s with input := rest, eph := .have, curRem := rl, curSync := sync, curErr := false }, ?_, ?_, ?_, rfl,
            by simp, by simp, rfl⟩
          · simp only [step, he, hin, if_true]
          · simp only [work, phaseW, he, hin, inputW, reqW]
            split <;> omega
          · simp [pipeline, hin, recsOf, hc]
  · -- have
    simp only [Option.some.injEq] at hn
    subst hn
    refine ⟨Or.inr (Or.inl rfl),
      { s with eph := .busy, exported := s.exported ++ [s.curRem.take s.batch], curRem := s.curRem.drop s.batch },
      ?_, ?_, ?_, rfl, by simp, by simp, rfl⟩
    · simp only [step, he, if_true]
    · simp only [work, phaseW, he, List.length_drop]
      split
      · rename_i h0; simp [h0]
      · rename_i h0
        have : 0 < s.curRem.length := List.length_pos_iff.mpr h0
        omega
    · simp only [pipeline, List.flatten_append, List.flatten_cons, List.flatten_nil, List.append_nil, List.append_assoc]
      rw [← List.append_assoc (s.curRem.take s.batch), List.take_append_drop]
  · -- busy
    simp only [Option.some.injEq] at hn
    subst hn
    refine ⟨Or.inr (Or.inr ⟨true, rfl⟩), ?_⟩
    by_cases hr : s.curRem = []
    · by_cases hs : s.curSync = true ∧ s.sd = .waitResp
      · refine ⟨{ s with eph := .idle, sd := .gotResp, sdErr := s.curErr || !true }, ?_, ?_, ?_, rfl, by simp, fun _ => hr, rfl⟩
        · simp only [step, he, hr, hs, if_true, and_self]
        · simp [work, phaseW, he, hr]
        · simp [pipeline, hr]
      · refine ⟨{ s with eph := .idle }, ?_, ?_, ?_, rfl, by simp, fun _ => hr, rfl⟩
        · simp only [step, he, hr, if_true, hs, if_false]
        · simp [work, phaseW, he, hr]
        · simp [pipeline, hr]
    · refine ⟨{ s with eph := .have, curErr := s.curErr || !true }, ?_, ?_, ?_, rfl, by simp, by simp, rfl⟩
      · simp only [step, he, hr, if_true, if_false]
      · simp only [work, phaseW, he, hr, if_false]
        omega
      · simp [pipeline]
  · simp at hn

/-- whatever is in the export buffer is served by exportSync's own steps in at most `work s` steps -/
theorem drain (n : Nat) : ∀ s : St, work s ≤ n → 1 ≤ s.batch → s.eph ≠ .exited → (s.eph = .idle → s.curRem = []) →
    ∃ ls s', (∀ l ∈ ls, isE l) ∧ ls.length ≤ work s ∧ run s ls = some s' ∧ s'.eph = .idle ∧ s'.input = [] ∧
      s'.exported.flatten = pipeline s := by
  induction n with
  | zero =>
    intro s hw hb hx hI
    cases hn : eNext s with
    | none =>
      unfold eNext at hn
      cases he : s.eph <;> simp only [he] at hn hx
      · split at hn
        · rename_i hin
          exact ⟨[], s, by simp, by simp, rfl, he, hin, by simp [pipeline, hI he, hin]⟩
        · simp at hn
      all_goals simp at hn hx
    | some l =>
      obtain ⟨_, s', _, hlt, _⟩ := eNext_progress s l hb hI hn
      omega
  | succ n ih =>
    intro s hw hb hx hI
    cases hn : eNext s with
    | none =>
      unfold eNext at hn
      cases he : s.eph <;> simp only [he] at hn hx
      · split at hn
        · rename_i hin
          exact ⟨[], s, by simp, by simp, rfl, he, hin, by simp [pipeline, hI he, hin]⟩
        · simp at hn
      all_goals simp at hn hx
    | some l =>
      obtain ⟨hl, s', hs, hlt, hp, hb', hx', hI', _⟩ := eNext_progress s l hb hI hn
      obtain ⟨ls, s'', h1, h2, h3, h4, h5, h6⟩ := ih s' (by omega) (by omega) hx' hI'
      refine ⟨l :: ls, s'', ?_, by simp; omega, by simp [run, hs, h3], h4, h5, by rw [h6, hp]⟩
      intro l' hl'
      simp only [List.mem_cons] at hl'
      rcases hl' with rfl | hl'
      · exact hl
      · exact h1 l' hl'

/-- a step of another goroutine never takes away exportSync's enabled step: it leaves the phase alone … -/
theorem other_step_keeps_phase (s s' : St) (l : Lbl) (hs : step s l = some s') (hl : ¬ isE l) (hne : l ≠ .eExit) :
    s'.eph = s.eph := by
  rcases step_frame s s' l hs with hf | rfl | rfl | ⟨ok, rfl⟩ | rfl | ⟨k, ok, rfl⟩
  · exact hf.2.2
  · exact absurd (Or.inl rfl) hl
  · exact absurd (Or.inr (Or.inl rfl)) hl
  · exact absurd (Or.inr (Or.inr ⟨ok, rfl⟩)) hl
  · exact absurd rfl hne
  · simp only [step] at hs
    split at hs
    · simp only [Option.some.injEq] at hs; subst hs; rfl
    · simp at hs

theorem deq_input (s s' : St) (n : Nat) (b : Bool) (hd : deq s n = some (s', b)) : ∃ t, s'.input = s.input ++ t := by
  rcases deq_some s s' n b hd with h1 | ⟨_, _, h1⟩ | ⟨_, _, h1⟩ <;> subst h1
  · exact ⟨[], by simp⟩
  · exact ⟨[], by simp⟩
  · exact ⟨[_], rfl⟩

theorem pollWork_input (s s' : St) (hp : pollWork s = some s') : ∃ t, s'.input = s.input ++ t := by
  obtain ⟨s2, t, h2, rfl⟩ := pollWork_some s s' hp
  rcases h2 with rfl | ⟨b, hd⟩
  · exact ⟨[], by simp⟩
  · obtain ⟨t', ht'⟩ := deq_input _ _ _ _ hd
    exact ⟨t', ht'⟩

/-- … and only ever appends to the export buffer: the only consumer of `input` is exportSync's `eRecv` -/
theorem other_step_input (s s' : St) (l : Lbl) (hs : step s l = some s') (hl : l ≠ .eRecv) :
    ∃ t, s'.input = s.input ++ t := by
  cases l <;> simp only [step] at hs
  case pTick =>
    split at hs
    · exact pollWork_input _ _ hs
    · simp at hs
  case pTrig =>
    split at hs
    · exact pollWork_input { s with trigger := false } _ hs
    · simp at hs
  case ffDequeue fid =>
    split at hs
    · split at hs
      · rename_i s2 hd
        simp at hs; subst hs
        obtain ⟨t', ht'⟩ := deq_input _ _ _ _ hd
        exact ⟨t', ht'⟩
      · simp at hs
    · simp at hs
  case eRecv => exact absurd rfl hl
  all_goals (
    repeat' (split at hs)
    all_goals (try (simp at hs))
    all_goals (try subst hs)
    all_goals first | exact ⟨[_], rfl⟩ | exact ⟨[], (List.append_nil _).symm⟩)

end Otel.C06
