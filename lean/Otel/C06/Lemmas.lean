import Otel.C06.Model
namespace Otel.C06

/-! ### shapes of the helper functions -/

theorem recsOf_append (a b : List Req) : recsOf (a ++ b) = recsOf a ++ recsOf b := by
  induction a with
  | nil => rfl
  | cons x r ih => cases x <;> simp [recsOf, ih]

@[simp] theorem recsOf_nil : recsOf [] = [] := rfl

/-- the three outcomes of `TryDequeue` + `EnqueueExport` -/
theorem deq_some (s s' : St) (n : Nat) (b : Bool) (h : deq s n = some (s', b)) :
    s' = s ∨
    (s.q.take n ≠ [] ∧ s.bufStopped = true ∧
      s' = { s with q := s.q.drop n, discarded := s.discarded ++ s.q.take n }) ∨
    (s.q.take n ≠ [] ∧ s.bufStopped = false ∧
      s' = { s with q := s.q.drop n, input := s.input ++ [.recs (s.q.take n) false],
                    overtaken := s.overtaken || !s.hold.isEmpty }) := by
  simp only [deq] at h
  split at h
  · simp at h; exact Or.inl h.1.symm
  · rename_i hne
    split at h
    · simp at h
    · split at h
      · rename_i hb
        simp at h
        exact Or.inr (Or.inl ⟨hne, hb, h.1.symm⟩)
      · rename_i hb
        split at h
        · simp at h
          exact Or.inr (Or.inr ⟨hne, by simpa using hb, h.1.symm⟩)
        · simp at h; exact Or.inl h.1.symm

/-- a poll iteration = bookkeeping of the dropped counter, possibly a dequeue, possibly a re-trigger -/
theorem pollWork_some (s s' : St) (h : pollWork s = some s') :
    ∃ s2 t, (s2 = { s with warned := s.warned + s.dropCtr, dropCtr := 0 } ∨
             ∃ b, deq { s with warned := s.warned + s.dropCtr, dropCtr := 0 } s.batch = some (s2, b)) ∧
            s' = { s2 with trigger := t } := by
  simp only [pollWork] at h
  split at h
  · split at h
    · simp at h
    · rename_i s2 b hd
      simp at h
      exact ⟨s2, _, Or.inr ⟨b, hd⟩, h.symm⟩
  · simp at h
    exact ⟨_, _, Or.inl rfl, h.symm⟩

theorem count_take_drop (l : List Nat) (n a : Nat) : (l.take n).count a + (l.drop n).count a = l.count a := by
  rw [← List.count_append, List.take_append_drop]

theorem count_erase_mem (l : List Nat) (id a : Nat) (h : id ∈ l) :
    (l.erase id).count a + (if a = id then 1 else 0) = l.count a := by
  by_cases ha : a = id
  · subst ha
    have := List.count_erase_self (a := a) (l := l)
    have hp : 0 < l.count a := List.count_pos_iff.mpr h
    simp; omega
  · have : (l.erase id).count a = l.count a := List.count_erase_of_ne ha
    simp [ha, this]

/-! ### Part A0: two control facts needed by conservation -/

structure InvA0 (s : St) : Prop where
  idleRem : (s.eph = .idle ∨ s.eph = .exited) → s.curRem = []
  holdPh : s.hold ≠ [] → (s.sd = .flushed ∨ s.sd = .locked)
  ns : s.stopped = false → s.sd = .none

theorem InvA0_deq (s s' : St) (n : Nat) (b : Bool) (h : InvA0 s) (hd : deq s n = some (s', b)) : InvA0 s' := by
  rcases deq_some s s' n b hd with h1 | ⟨_, _, h1⟩ | ⟨_, _, h1⟩ <;> subst h1 <;> exact ⟨h.idleRem, h.holdPh, h.ns⟩

theorem InvA0_pollWork (s s' : St) (h : InvA0 s) (hp : pollWork s = some s') : InvA0 s' := by
  obtain ⟨s2, t, h2, rfl⟩ := pollWork_some s s' hp
  have h1 : InvA0 { s with warned := s.warned + s.dropCtr, dropCtr := 0 } := ⟨h.idleRem, h.holdPh, h.ns⟩
  rcases h2 with rfl | ⟨b, hd⟩
  · exact ⟨h.idleRem, h.holdPh, h.ns⟩
  · have := InvA0_deq _ _ _ _ h1 hd
    exact ⟨this.idleRem, this.holdPh, this.ns⟩

theorem stepA0 (s s' : St) (l : Lbl) (h : InvA0 s) (hs : step s l = some s') : InvA0 s' := by
  obtain ⟨h1, h2, h3⟩ := h
  cases l <;> simp only [step] at hs
  case pTick =>
    split at hs
    · exact InvA0_pollWork _ _ ⟨h1, h2, h3⟩ hs
    · simp at hs
  case pTrig =>
    split at hs
    · exact InvA0_pollWork { s with trigger := false } _ ⟨h1, h2, h3⟩ hs
    · simp at hs
  case ffDequeue fid =>
    split at hs
    · split at hs
      · rename_i s2 hd
        simp at hs; subst hs
        have := InvA0_deq _ _ _ _ ⟨h1, h2, h3⟩ hd
        exact ⟨this.idleRem, this.holdPh, this.ns⟩
      · simp at hs
    · simp at hs
  all_goals (
    repeat' (split at hs)
    all_goals (try (simp at hs))
    all_goals (try subst hs)
    all_goals (first
      | exact ⟨h1, h2, h3⟩
      | (refine ⟨?_, ?_, ?_⟩ <;> simp_all)
      | skip))

/-! ### Part A: conservation of record ids -/

def allIds (s : St) : List Nat :=
  s.inflight ++ s.q ++ s.hold ++ recsOf s.input ++ s.curRem ++ s.exported.flatten ++ s.droppedIds ++ s.discarded

structure InvA (s : St) : Prop where
  cnt : ∀ a, (allIds s).count a = s.accepted.count a
  nodup : s.accepted.Nodup

theorem InvA_deq (s s' : St) (n : Nat) (b : Bool) (h : InvA s) (hd : deq s n = some (s', b)) : InvA s' := by
  rcases deq_some s s' n b hd with h1 | ⟨_, _, h1⟩ | ⟨_, _, h1⟩
  · subst h1; exact h
  · subst h1
    refine ⟨?_, h.nodup⟩
    intro a
    have := h.cnt a
    have htd := count_take_drop s.q n a
    simp only [allIds, List.count_append] at this ⊢
    omega
  · subst h1
    refine ⟨?_, h.nodup⟩
    intro a
    have := h.cnt a
    have htd := count_take_drop s.q n a
    simp only [allIds, List.count_append, recsOf_append, recsOf, List.append_nil] at this ⊢
    omega

theorem InvA_pollWork (s s' : St) (h : InvA s) (hp : pollWork s = some s') : InvA s' := by
  obtain ⟨s2, t, h2, rfl⟩ := pollWork_some s s' hp
  have h1 : InvA { s with warned := s.warned + s.dropCtr, dropCtr := 0 } := ⟨h.cnt, h.nodup⟩
  rcases h2 with rfl | ⟨b, hd⟩
  · exact ⟨h.cnt, h.nodup⟩
  · have := InvA_deq _ _ _ _ h1 hd
    exact ⟨this.cnt, this.nodup⟩

theorem stepA (s s' : St) (l : Lbl) (h : InvA s) (h0 : InvA0 s) (hs : step s l = some s') : InvA s' := by
  have hc := h.cnt
  cases l <;> simp only [step] at hs
  case accept id =>
    split at hs
    · simp at hs
    · rename_i hn
      simp at hs; subst hs
      have hn' : id ∉ s.accepted := fun hh => hn (Or.inr hh)
      refine ⟨?_, List.nodup_cons.mpr ⟨hn', h.nodup⟩⟩
      intro a
      have := hc a
      simp only [allIds, List.count_append, List.count_cons] at this ⊢
      omega
  case enq id =>
    split at hs
    · rename_i hin
      split at hs
      · simp at hs; subst hs
        refine ⟨?_, h.nodup⟩
        intro a
        have := hc a
        have he := count_erase_mem s.inflight id a hin
        simp only [allIds, List.count_append, List.count_cons, List.count_nil] at this ⊢
        by_cases ha : a = id
        · subst ha; simp at he ⊢; omega
        · have ha' : ¬ id = a := fun e => ha e.symm
          simp [ha, ha'] at he ⊢; omega
      · split at hs
        · simp at hs
        · rename_i hd t hq
          simp at hs; subst hs
          refine ⟨?_, h.nodup⟩
          intro a
          have := hc a
          have he := count_erase_mem s.inflight id a hin
          simp only [allIds, hq, List.count_append, List.count_cons, List.count_nil, beq_iff_eq] at this ⊢
          by_cases ha : a = id
          · subst ha; by_cases hb : hd = a <;> simp [hb] at he this ⊢ <;> omega
          · have ha' : ¬ id = a := fun e => ha e.symm
            by_cases hb : hd = a <;> simp [ha, ha', hb] at he this ⊢ <;> omega
    · simp at hs
  case pTick =>
    split at hs
    · exact InvA_pollWork _ _ h hs
    · simp at hs
  case pTrig =>
    split at hs
    · exact InvA_pollWork { s with trigger := false } _ ⟨h.cnt, h.nodup⟩ hs
    · simp at hs
  case ffDequeue fid =>
    split at hs
    · split at hs
      · rename_i s2 hd
        simp at hs; subst hs
        have := InvA_deq _ _ _ _ h hd
        exact ⟨this.cnt, this.nodup⟩
      · simp at hs
    · simp at hs
  case eRecv =>
    split at hs
    · split at hs
      · simp at hs
      · rename_i fid rest hq
        simp at hs; subst hs
        refine ⟨?_, h.nodup⟩
        intro a
        have := hc a
        simp only [allIds, hq, recsOf] at this ⊢
        exact this
      · rename_i hi _ l sync rest hq
        simp at hs; subst hs
        refine ⟨?_, h.nodup⟩
        intro a
        have := hc a
        have hr := h0.idleRem (Or.inl hi)
        simp only [allIds, hq, hr, recsOf, List.count_append, List.count_nil] at this ⊢
        omega
    · simp at hs
  case eStart =>
    split at hs
    · simp at hs; subst hs
      refine ⟨?_, h.nodup⟩
      intro a
      have := hc a
      have htd := count_take_drop s.curRem s.batch a
      simp only [allIds, List.count_append, List.flatten_append, List.flatten_cons, List.flatten_nil, List.append_nil] at this ⊢
      omega
    · simp at hs
  case sdFlush =>
    split at hs
    · rename_i hg
      simp at hs; subst hs
      refine ⟨?_, h.nodup⟩
      intro a
      have := hc a
      have hh : s.hold = [] := by
        apply Classical.byContradiction
        intro hne
        rcases h0.holdPh hne with h' | h' <;> simp [h'] at hg
      simp only [allIds, hh, List.count_append, List.count_nil] at this ⊢
      omega
    · simp at hs
  all_goals (
    repeat' (split at hs)
    all_goals (try (simp at hs))
    all_goals (try subst hs)
    all_goals (first
      | exact ⟨hc, h.nodup⟩
      | (refine ⟨?_, h.nodup⟩
         intro a
         have := hc a
         simp [allIds, recsOf_append, recsOf, List.count_append, *] at this ⊢
         omega)
      | skip))

/-! ### Part B: bounds and the dropped counter -/

structure InvB (s : St) : Prop where
  qlen : s.q.length ≤ s.cap
  expB : ∀ b ∈ s.exported, b.length ≤ s.batch
  ctr : s.droppedIds.length = s.dropCtr + s.warned

theorem InvB_deq (s s' : St) (n : Nat) (b : Bool) (h : InvB s) (hd : deq s n = some (s', b)) : InvB s' := by
  rcases deq_some s s' n b hd with h1 | ⟨_, _, h1⟩ | ⟨_, _, h1⟩ <;> subst h1
  · exact h
  · exact ⟨by have := h.qlen; simp; omega, h.expB, h.ctr⟩
  · exact ⟨by have := h.qlen; simp; omega, h.expB, h.ctr⟩

theorem InvB_pollWork (s s' : St) (h : InvB s) (hp : pollWork s = some s') : InvB s' := by
  obtain ⟨s2, t, h2, rfl⟩ := pollWork_some s s' hp
  have h1 : InvB { s with warned := s.warned + s.dropCtr, dropCtr := 0 } :=
    ⟨h.qlen, h.expB, by have := h.ctr; simp; omega⟩
  rcases h2 with rfl | ⟨b, hd⟩
  · exact ⟨h1.qlen, h1.expB, h1.ctr⟩
  · have := InvB_deq _ _ _ _ h1 hd
    exact ⟨this.qlen, this.expB, this.ctr⟩

theorem stepB (s s' : St) (l : Lbl) (h : InvB s) (hs : step s l = some s') : InvB s' := by
  obtain ⟨h1, h2, h3⟩ := h
  cases l <;> simp only [step] at hs
  case pTick =>
    split at hs
    · exact InvB_pollWork _ _ ⟨h1, h2, h3⟩ hs
    · simp at hs
  case pTrig =>
    split at hs
    · exact InvB_pollWork { s with trigger := false } _ ⟨h1, h2, h3⟩ hs
    · simp at hs
  case ffDequeue fid =>
    split at hs
    · split at hs
      · rename_i s2 hd
        simp at hs; subst hs
        have := InvB_deq _ _ _ _ ⟨h1, h2, h3⟩ hd
        exact ⟨this.qlen, this.expB, this.ctr⟩
      · simp at hs
    · simp at hs
  case enq id =>
    split at hs
    · split at hs
      · simp at hs; subst hs
        exact ⟨by simp; omega, h2, h3⟩
      · split at hs
        · simp at hs
        · rename_i hd t hq
          simp at hs; subst hs
          refine ⟨?_, h2, ?_⟩
          · simp [hq] at h1 ⊢; omega
          · simp; omega
    · simp at hs
  case eStart =>
    split at hs
    · simp at hs; subst hs
      refine ⟨h1, ?_, h3⟩
      intro b hb
      simp at hb
      rcases hb with hb | hb
      · exact h2 b hb
      · subst hb; simp; omega
    · simp at hs
  all_goals (
    repeat' (split at hs)
    all_goals (try (simp at hs))
    all_goals (try subst hs)
    all_goals (first
      | exact ⟨h1, h2, h3⟩
      | (refine ⟨?_, ?_, ?_⟩ <;> simp_all)
      | skip))

/-! ### Part C: control-flow facts about Shutdown, the buffer exporter and the exportSync goroutine -/

structure InvC (s : St) : Prop where
  exitedIn : s.eph = .exited → recsOf s.input = [] ∧ s.closed = true
  closedPh : s.closed = true → (s.sd = .closing ∨ s.sd = .shut ∨ s.sd = .done)
  bufPh : s.bufStopped = true ↔ (s.sd = .bufStopped ∨ s.sd = .closing ∨ s.sd = .shut ∨ s.sd = .done)
  shutExited : (s.sd = .shut ∨ s.sd = .done) → s.eph = .exited
  retSd : s.sdRetOk = true → s.sd = .done
  discPh : s.discarded ≠ [] → s.bufStopped = true

theorem InvC_deq (s s' : St) (n : Nat) (b : Bool) (h : InvC s) (hd : deq s n = some (s', b)) : InvC s' := by
  obtain ⟨c1, c2, c3, c4, c5, c6⟩ := h
  rcases deq_some s s' n b hd with h1 | ⟨_, hb, h1⟩ | ⟨_, hb, h1⟩ <;> subst h1
  · exact ⟨c1, c2, c3, c4, c5, c6⟩
  · exact ⟨c1, c2, c3, c4, c5, fun _ => hb⟩
  · refine ⟨?_, c2, c3, c4, c5, c6⟩
    intro he
    have hcl := (c1 he).2
    have := c3.mpr (by rcases c2 hcl with h | h | h <;> simp [h])
    simp [hb] at this

theorem InvC_pollWork (s s' : St) (h : InvC s) (hp : pollWork s = some s') : InvC s' := by
  obtain ⟨s2, t, h2, rfl⟩ := pollWork_some s s' hp
  have h1 : InvC { s with warned := s.warned + s.dropCtr, dropCtr := 0 } :=
    ⟨h.exitedIn, h.closedPh, h.bufPh, h.shutExited, h.retSd, h.discPh⟩
  rcases h2 with rfl | ⟨b, hd⟩
  · exact ⟨h.exitedIn, h.closedPh, h.bufPh, h.shutExited, h.retSd, h.discPh⟩
  · have := InvC_deq _ _ _ _ h1 hd
    exact ⟨this.exitedIn, this.closedPh, this.bufPh, this.shutExited, this.retSd, this.discPh⟩

theorem stepC (s s' : St) (l : Lbl) (h : InvC s) (h0 : InvA0 s) (hs : step s l = some s') : InvC s' := by
  obtain ⟨c1, c2, c3, c4, c5, c6⟩ := h
  obtain ⟨a1, a2, a3⟩ := h0
  cases l <;> simp only [step] at hs
  case pTick =>
    split at hs
    · exact InvC_pollWork _ _ ⟨c1, c2, c3, c4, c5, c6⟩ hs
    · simp at hs
  case pTrig =>
    split at hs
    · exact InvC_pollWork { s with trigger := false } _ ⟨c1, c2, c3, c4, c5, c6⟩ hs
    · simp at hs
  case ffDequeue fid =>
    split at hs
    · split at hs
      · rename_i s2 hd
        simp at hs; subst hs
        have := InvC_deq _ _ _ _ ⟨c1, c2, c3, c4, c5, c6⟩ hd
        exact ⟨this.exitedIn, this.closedPh, this.bufPh, this.shutExited, this.retSd, this.discPh⟩
      · simp at hs
    · simp at hs
  all_goals (
    repeat' (split at hs)
    all_goals (try (simp at hs))
    all_goals (try subst hs)
    all_goals (first
      | exact ⟨c1, c2, c3, c4, c5, c6⟩
      | (refine ⟨?_, ?_, ?_, ?_, ?_, ?_⟩ <;> simp_all [recsOf_append, recsOf] <;> grind)
      | skip))

end Otel.C06
