import Otel.C06.Lemmas3
import Otel.C06.Spec
namespace Otel.C06

variable {cap batch buf : Nat}

theorem deq_frame (s s' : St) (n : Nat) (b : Bool) (hd : deq s n = some (s', b)) :
    s'.exported = s.exported ∧ s'.sdRetOk = s.sdRetOk ∧ s'.eph = s.eph := by
  rcases deq_some s s' n b hd with h1 | ⟨_, _, h1⟩ | ⟨_, _, h1⟩ <;> subst h1 <;> exact ⟨rfl, rfl, rfl⟩

theorem pollWork_frame (s s' : St) (hp : pollWork s = some s') :
    s'.exported = s.exported ∧ s'.sdRetOk = s.sdRetOk ∧ s'.eph = s.eph := by
  obtain ⟨s2, t, h2, rfl⟩ := pollWork_some s s' hp
  rcases h2 with rfl | ⟨b, hd⟩
  · exact ⟨rfl, rfl, rfl⟩
  · have := deq_frame _ _ _ _ hd
    exact ⟨this.1, this.2.1, this.2.2⟩

/-- every step either leaves the exporter's log and the exportSync phase alone, or is one of exportSync's own -/
theorem step_frame (s s' : St) (l : Lbl) (hs : step s l = some s') :
    (s'.exported = s.exported ∧ s'.sdRetOk = s.sdRetOk ∧ s'.eph = s.eph) ∨ l = .eRecv ∨ l = .eStart ∨
      (∃ ok, l = .eEnd ok) ∨ l = .eExit ∨ (∃ k ok, l = .sdReturn k ok) := by
  cases l <;> simp only [step] at hs
  case pTick =>
    split at hs
    · exact Or.inl (pollWork_frame _ _ hs)
    · simp at hs
  case pTrig =>
    split at hs
    · exact Or.inl (pollWork_frame { s with trigger := false } _ hs)
    · simp at hs
  case ffDequeue fid =>
    split at hs
    · split at hs
      · rename_i s2 hd
        simp at hs; subst hs
        have := deq_frame _ _ _ _ hd
        exact Or.inl ⟨this.1, this.2.1, this.2.2⟩
      · simp at hs
    · simp at hs
  case eRecv => exact Or.inr (Or.inl rfl)
  case eStart => exact Or.inr (Or.inr (Or.inl rfl))
  case eEnd ok => exact Or.inr (Or.inr (Or.inr (Or.inl ⟨ok, rfl⟩)))
  case eExit => exact Or.inr (Or.inr (Or.inr (Or.inr (Or.inl rfl))))
  case sdReturn k ok => exact Or.inr (Or.inr (Or.inr (Or.inr (Or.inr ⟨k, ok, rfl⟩))))
  all_goals (
    repeat' (split at hs)
    all_goals (try (simp at hs))
    all_goals (try subst hs)
    all_goals exact Or.inl ⟨rfl, rfl, rfl⟩)

theorem fifoOK_of_sublist (gOf : Nat → Nat) (order flat : List Nat) (h : flat.Sublist order) :
    Spec.fifoOK gOf order flat = true := by
  simp only [Spec.fifoOK, List.all_eq_true]
  intro g _
  rw [List.isSublist_iff_sublist]
  exact h.filter _

theorem run_reachable (s : St) (ls : List Lbl) (s' : St) (h : Reachable cap batch buf s)
    (hr : run s ls = some s') : Reachable cap batch buf s' := by
  induction ls generalizing s with
  | nil => simp [run] at hr; subst hr; exact h
  | cons l ls ih =>
    simp only [run] at hr
    split at hr
    · rename_i s1 hs1
      exact ih s1 (Reachable.step l h hs1) hr
    · simp at hr

theorem nodup_eraseDups_aux (n : Nat) : ∀ l : List Nat, l.length ≤ n → l.eraseDups.Nodup := by
  induction n with
  | zero =>
    intro l hl
    have : l = [] := List.eq_nil_of_length_eq_zero (by omega)
    subst this; simp
  | succ n ih =>
    intro l hl
    cases l with
    | nil => simp
    | cons a as =>
      rw [List.eraseDups_cons, List.nodup_cons]
      refine ⟨?_, ih _ ?_⟩
      · intro hm
        have := List.mem_eraseDups.mp hm
        simp at this
      · exact Nat.le_trans (List.length_filter_le _ _) (by simp at hl; omega)

theorem delivered_of_mem (pre : List Nat) (batches : List (List Nat)) (droppedIds : List Nat) (dropped : Nat)
    (h : ∀ id ∈ pre, id ∈ batches.flatten ∨ id ∈ droppedIds) (hd : droppedIds.length ≤ dropped) :
    Spec.delivered pre batches dropped = true := by
  simp only [Spec.delivered, decide_eq_true_eq]
  refine Nat.le_trans (List.Nodup.length_le_of_subset ?_ ?_) hd
  · exact (nodup_eraseDups_aux _ pre (Nat.le_refl _)).sublist List.filter_sublist
  · intro x hx
    simp only [List.mem_filter, List.mem_eraseDups, Bool.not_eq_true', List.contains_eq_mem, decide_eq_false_iff_not] at hx
    rcases h x hx.1 with h | h
    · exact absurd h hx.2
    · exact h

end Otel.C06
