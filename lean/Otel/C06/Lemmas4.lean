import Otel.C06.Lemmas3
import Otel.C06.Spec
namespace Otel.C06

variable {cap batch buf : Nat}

theorem deq_frame (s s' : St) (n : Nat) (b : Bool) (hd : deq s n = some (s', b)) :
    s'.exported = s.exported ∧ s'.sdRetOk = s.sdRetOk ∧ s'.eph = s.eph := by
  rcases deq_some s s' n b hd with h1 | ⟨_, _, h1⟩ | ⟨_, _, h1⟩ <;> subst h1 <;> exact ⟨rfl, rfl, rfl⟩

theorem pollWork_frame (s s' : St) (hp : pollWork s = some s') :
    s'.exported = s.exported ∧ s'.sdRetOk = s.sdRetOk ∧ s'.eph = s.eph := by
  obtain ⟨s2, t, h2, rfl⟩ := pollWork_some s s' hp
  rcases h2 with rfl | ⟨b, hd⟩
  · exact ⟨rfl, rfl, rfl⟩
  · have := deq_frame _ _ _ _ hd
    exact ⟨this.1, this.2.1, this.2.2⟩

/-- every step either leaves the exporter's log and the exportSync phase alone, or is one of exportSync's own -/
theorem step_frame (s s' : St) (l : Lbl) (hs : step s l = some s') :
    (s'.exported = s.exported ∧ s'.sdRetOk = s.sdRetOk ∧ s'.eph = s.eph) ∨ l = .eRecv ∨ l = .eStart ∨
      (∃ ok, l = .eEnd ok) ∨ l = .eExit ∨ (∃ k ok, l = .sdReturn k ok) := by
  cases l <;> simp only [step] at hs
  case pTick =>
    split at hs
    · exact Or.inl (pollWork_frame _ _ hs)
    · simp at hs
  case pTrig =>
    split at hs
    · exact Or.inl (pollWork_frame { s with trigger := false } _ hs)
    · simp at hs
  case ffDequeue fid =>
    split at hs
    · split at hs
      · rename_i s2 hd
        simp at hs; subst hs
        have := deq_frame _ _ _ _ hd
        exact Or.inl ⟨this.1, this.2.1, this.2.2⟩
      · simp at hs
    · simp at hs
  case eRecv => exact Or.inr (Or.inl rfl)
  case eStart => exact Or.inr (Or.inr (Or.inl rfl))
  case eEnd ok => exact Or.inr (Or.inr (Or.inr (Or.inl ⟨ok, rfl⟩)))
  case eExit => exact Or.inr (Or.inr (Or.inr (Or.inr (Or.inl rfl))))
  case sdReturn k ok => exact Or.inr (Or.inr (Or.inr (Or.inr (Or.inr ⟨k, ok, rfl⟩))))
  all_goals (
    repeat' (split at hs)
    all_goals (try (simp at hs))
    all_goals (try subst hs)
    all_goals exact Or.inl ⟨rfl, rfl, rfl⟩)

theorem fifoOK_of_sublist (gOf : Nat → Nat) (order flat : List Nat) (h : flat.Sublist order) :
    Spec.fifoOK gOf order flat = true := by
  simp only [Spec.fifoOK, List.all_eq_true]
  intro g _
  rw [List.isSublist_iff_sublist]
  exact h.filter _

theorem run_reachable (s : St) (ls : List Lbl) (s' : St) (h : Reachable cap batch buf s)
    (hr : run s ls = some s') : Reachable cap batch buf s' := by
  induction ls generalizing s with
  | nil => simp [run] at hr; subst hr; exact h
  | cons l ls ih =>
    simp only [run] at hr
    split at hr
    · rename_i s1 hs1
      exact ih s1 (Reachable.step l h hs1) hr
    · simp at hr

theorem nodup_eraseDups_aux (n : Nat) : ∀ l : List Nat, l.length ≤ n → l.eraseDups.Nodup := by
  induction n with
  | zero =>
    intro l hl
    have : l = [] := List.eq_nil_of_length_eq_zero (by omega)
    subst this; simp
  | succ n ih =>
    intro l hl
    cases l with
    | nil => simp
    | cons a as =>
      rw [List.eraseDups_cons, List.nodup_cons]
      refine ⟨?_, ih _ ?_⟩
      · intro hm
        have := List.mem_eraseDups.mp hm
        simp at this
      · exact Nat.le_trans (List.length_filter_le _ _) (by simp at hl; omega)

theorem delivered_of_mem (pre : List Nat) (batches : List (List Nat)) (droppedIds : List Nat) (dropped : Nat)
    (h : ∀ id ∈ pre, id ∈ batches.flatten ∨ id ∈ droppedIds) (hd : droppedIds.length ≤ dropped) :
    Spec.delivered pre batches dropped = true := by
  simp only [Spec.delivered, decide_eq_true_eq]
  refine Nat.le_trans (List.Nodup.length_le_of_subset ?_ ?_) hd
  · exact (nodup_eraseDups_aux _ pre (Nat.le_refl _)).sublist List.filter_sublist
  · intro x hx
    simp only [List.mem_filter, List.mem_eraseDups, Bool.not_eq_true', List.contains_eq_mem, decide_eq_false_iff_not] at hx
    rcases h x hx.1 with h | h
    · exact absurd h hx.2
    · exact h

/-! ### the chunk loop -/

theorem chunkExport_succ (size n : Nat) (res : List Bool) (l : List Nat) (hnil : l ≠ []) :
    chunkExport size (n + 1) res l =
      (l.take size :: (chunkExport size n res.tail (l.drop size)).1,
       !(res.headD true) || (chunkExport size n res.tail (l.drop size)).2) := by
  simp [chunkExport, hnil]

theorem chunkExport_spec (size : Nat) (hpos : 1 ≤ size) : ∀ (n : Nat) (res : List Bool) (l : List Nat), l.length ≤ n →
    (chunkExport size n res l).1.flatten = l ∧
    (∀ c ∈ (chunkExport size n res l).1, c.length ≤ size ∧ c ≠ []) ∧
    ((chunkExport size n res l).2 = true ↔ ∃ i, i < (chunkExport size n res l).1.length ∧ res.getD i true = false) := by
  intro n
  induction n with
  | zero =>
    intro res l hl
    have : l = [] := List.eq_nil_of_length_eq_zero (by omega)
    subst this
    simp [chunkExport]
  | succ n ih =>
    intro res l hl
    by_cases hnil : l = []
    · subst hnil; simp [chunkExport]
    · have hlen : 0 < l.length := List.length_pos_iff.mpr hnil
      have hd : (l.drop size).length ≤ n := by simp; omega
      obtain ⟨h1, h2, h3⟩ := ih res.tail (l.drop size) hd
      rw [chunkExport_succ size n res l hnil]
      generalize chunkExport size n res.tail (l.drop size) = r at h1 h2 h3
      refine ⟨?_, ?_, ?_⟩
      · simp only [List.flatten_cons, h1, List.take_append_drop]
      · intro c hc
        simp only [List.mem_cons] at hc
        rcases hc with hc | hc
        · subst hc
          refine ⟨by simp; omega, ?_⟩
          intro he
          have h0 : (l.take size).length = 0 := by rw [he]; rfl
          rw [List.length_take] at h0
          omega
        · exact h2 c hc
      · simp only [Bool.or_eq_true, Bool.not_eq_true', List.length_cons]
        constructor
        · rintro (h | h)
          · refine ⟨0, by omega, ?_⟩
            cases res <;> simp_all
          · obtain ⟨i, hi, hr⟩ := h3.mp h
            exact ⟨i + 1, Nat.succ_lt_succ hi, by cases res <;> simp_all⟩
        · rintro ⟨i, hi, hr⟩
          cases i with
          | zero => left; cases res <;> simp_all
          | succ i =>
            right
            refine h3.mpr ⟨i, by omega, ?_⟩
            cases res <;> simp_all

theorem exportLoop_reachable : ∀ (n : Nat) (res : List Bool) (s s' : St), Reachable cap batch buf s →
    exportLoop n res s = some s' → Reachable cap batch buf s' := by
  intro n
  induction n with
  | zero => intro res s s' h he; simp [exportLoop] at he; subst he; exact h
  | succ n ih =>
    intro res s s' h he
    simp only [exportLoop] at he
    split at he
    · split at he
      · simp at he
      · rename_i s1 h1
        split at he
        · simp at he
        · rename_i s2 h2
          exact ih _ _ _ (Reachable.step _ (Reachable.step _ h h1) h2) he
    · simp at he; subst he; exact h

theorem eStart_some (s : St) (hh : s.eph = .have) :
    ∃ s1, step s .eStart = some s1 ∧ s1.eph = .busy ∧ s1.exported = s.exported ++ [s.curRem.take s.batch] ∧
      s1.curRem = s.curRem.drop s.batch ∧ s1.batch = s.batch := by
  simp only [step, hh, if_true]
  exact ⟨_, rfl, rfl, rfl, rfl, rfl⟩

theorem eEnd_last (s1 : St) (ok : Bool) (hb : s1.eph = .busy) (hl : s1.curRem = []) :
    ∃ s2, step s1 (.eEnd ok) = some s2 ∧ s2.eph = .idle ∧ s2.curRem = [] ∧ s2.exported = s1.exported := by
  simp only [step, hb, hl, if_true]
  split <;> exact ⟨_, rfl, rfl, by simp [hl], rfl⟩

theorem eEnd_more (s1 : St) (ok : Bool) (hb : s1.eph = .busy) (hl : s1.curRem ≠ []) :
    ∃ s2, step s1 (.eEnd ok) = some s2 ∧ s2.eph = .have ∧ s2.curRem = s1.curRem ∧ s2.exported = s1.exported ∧
      s2.batch = s1.batch := by
  simp only [step, hb, hl, if_true, if_false]
  exact ⟨_, rfl, rfl, rfl, rfl, rfl⟩

/-- the LTS performs exactly the calls of `chunkExport`, whatever the results -/
theorem exportLoop_spec : ∀ (n : Nat) (res : List Bool) (s : St), 1 ≤ s.batch → s.eph = .have → s.curRem ≠ [] →
    s.curRem.length ≤ n →
    ∃ s', exportLoop n res s = some s' ∧ s'.eph = .idle ∧ s'.curRem = [] ∧
      s'.exported = s.exported ++ (chunkExport s.batch n res s.curRem).1 := by
  intro n
  induction n with
  | zero =>
    intro res s _ _ hne hl
    exact absurd (List.eq_nil_of_length_eq_zero (by omega)) hne
  | succ n ih =>
    intro res s hb hh hne hl
    have hlen : 0 < s.curRem.length := List.length_pos_iff.mpr hne
    have hd : (s.curRem.drop s.batch).length ≤ n := by simp; omega
    obtain ⟨s1, h1, hb1, hx1, hc1, hbt1⟩ := eStart_some s hh
    rw [chunkExport_succ s.batch n res s.curRem hne]
    simp only [exportLoop, hh, if_true, h1]
    by_cases hlast : s1.curRem = []
    · obtain ⟨s2, h2, hi2, hc2, hx2⟩ := eEnd_last s1 (res.headD true) hb1 hlast
      simp only [h2]
      have hce : (chunkExport s.batch n res.tail (s.curRem.drop s.batch)).1 = [] := by
        rw [← hc1, hlast]; cases n <;> simp [chunkExport]
      refine ⟨s2, ?_, hi2, hc2, by rw [hx2, hx1, hce]⟩
      cases n <;> simp [exportLoop, hi2]
    · obtain ⟨s2, h2, hh2, hc2, hx2, hbt2⟩ := eEnd_more s1 (res.headD true) hb1 hlast
      simp only [h2]
      have hb2 : 1 ≤ s2.batch := by rw [hbt2, hbt1]; exact hb
      obtain ⟨s', hs', hi, hc, hx⟩ := ih res.tail s2 hb2 hh2 (by rw [hc2]; exact hlast) (by rw [hc2, hc1]; exact hd)
      refine ⟨s', hs', hi, hc, ?_⟩
      rw [hx, hx2, hx1, hbt2, hbt1, hc2, hc1]
      simp [List.append_assoc]

end Otel.C06
