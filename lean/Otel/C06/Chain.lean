/-
C06 — the exporter wrapper chain built by `NewBatchProcessor` (sdk/log/batch.go, exporter.go):

    newChunkExporter(newTimeoutExporter(userExporter, timeout), size)       -- what exportSync calls

as a function with an explicit clock. `chunkExporter.Export` cuts the request into chunks and calls the wrapped
exporter once per chunk, whatever the calls return; `timeoutExporter.Export` derives a NEW context
`context.WithTimeout(ctx, timeout)` for every call, i.e. for every chunk. Constructor branches: `size <= 0` /
`timeout <= 0` return the exporter unwrapped (here: `size = 0`, `timeout = 0`).

Time is a natural number of abstract ticks. The user exporter is scripted: `ok` / `err` return at once, `wait`
blocks until its context is done and returns `ctx.Err()`.
-/
import Otel.C06.Model
namespace Otel.C06.Chain

structure Ctx where
  deadline : Option Nat := none
  cancelled : Bool := false
deriving DecidableEq, Repr

inductive Res where
  | ok | err | deadline | canceled
deriving DecidableEq, Repr

/-- `ctx.Err()` at time `now` -/
def Ctx.err (c : Ctx) (now : Nat) : Res :=
  if c.cancelled then .canceled
  else match c.deadline with
    | some d => if d ≤ now then .deadline else .ok
    | none => .ok

inductive Beh where
  | ok | err | wait
deriving DecidableEq, Repr

/-- the scripted user exporter: result and the time at which it returns. (`wait` under a context that is never
done would block for ever; the generator never asks for it; the model answers `err` at once.) -/
def userExport (b : Beh) (c : Ctx) (now : Nat) : Res × Nat :=
  match b with
  | .ok => (.ok, now)
  | .err => (.err, now)
  | .wait =>
    if c.cancelled then (.canceled, now)
    else match c.deadline with
      | some d => (.deadline, max now d)
      | none => (.err, now)

/-- `context.WithTimeout(ctx, timeout)` at time `now`; `timeout = 0`: no timeoutExporter in the chain -/
def withTimeout (timeout : Nat) (c : Ctx) (now : Nat) : Ctx :=
  if timeout = 0 then c
  else { c with deadline := match c.deadline with
                            | some d => some (min d (now + timeout))
                            | none => some (now + timeout) }

structure Call where
  chunk : List Nat
  start : Nat
  deadline : Option Nat     -- deadline of the context the user exporter was called with
  expired : Bool            -- that context was already done at entry
  res : Res
deriving DecidableEq, Repr

/-- one call of `timeoutExporter.Export` (or of the user exporter directly when `timeout = 0`) -/
def oneCall (timeout : Nat) (c : Ctx) (now : Nat) (b : Beh) (chunk : List Nat) : Call × Nat :=
  let c' := withTimeout timeout c now
  let r := userExport b c' now
  ({ chunk := chunk, start := now, deadline := c'.deadline, expired := c'.err now != .ok, res := r.1 }, r.2)

/-- the chunk loop (fuel ≥ number of records) -/
def chunkLoop (size timeout : Nat) (c : Ctx) : Nat → Nat → List Beh → List Nat → List Call × Nat
  | 0, now, _, _ => ([], now)
  | fuel + 1, now, bs, l =>
    if l = [] then ([], now)
    else
      let r := oneCall timeout c now (bs.headD .ok) (l.take size)
      let rest := chunkLoop size timeout c fuel r.2 bs.tail (l.drop size)
      (r.1 :: rest.1, rest.2)

/-- `Export` of the chain: calls made, time of return. `size = 0`: no chunkExporter, one call with everything. -/
def chainExport (size timeout : Nat) (c : Ctx) (now : Nat) (bs : List Beh) (l : List Nat) : List Call × Nat :=
  if size = 0 then
    let r := oneCall timeout c now (bs.headD .ok) l
    ([r.1], r.2)
  else chunkLoop size timeout c l.length now bs l

/-- `errors.Join` of the results is non-nil -/
def failed (calls : List Call) : Bool := calls.any (·.res != .ok)

/-! ### Lemmas -/

theorem userExport_ok (b : Beh) (c : Ctx) (now : Nat) : ((userExport b c now).1 = .ok) ↔ b = .ok := by
  cases b <;> simp [userExport]
  · split
    · simp
    · split <;> simp

theorem chunkLoop_chunks (size timeout : Nat) (c : Ctx) (fuel now : Nat) (bs : List Beh) (l : List Nat) :
    (chunkLoop size timeout c fuel now bs l).1.map (·.chunk) = (chunkExport size fuel (bs.map (· == .ok)) l).1 ∧
    failed (chunkLoop size timeout c fuel now bs l).1 = (chunkExport size fuel (bs.map (· == .ok)) l).2 := by
  induction fuel generalizing now bs l with
  | zero => simp [chunkLoop, chunkExport, failed]
  | succ fuel ih =>
    simp only [chunkLoop, chunkExport]
    by_cases hl : l = []
    · simp [hl, failed]
    · simp only [hl, if_false]
      have h := ih (oneCall timeout c now (bs.headD .ok) (l.take size)).2 bs.tail (l.drop size)
      have ht : (bs.map (· == .ok)).tail = bs.tail.map (· == .ok) := by cases bs <;> simp
      refine ⟨?_, ?_⟩
      · simp only [List.map_cons, ht, h.1]
        simp [oneCall]
      · have hf := h.2
        simp only [failed] at hf ⊢
        simp only [List.any_cons, ht, hf]
        congr 1
        have := userExport_ok (bs.headD .ok) (withTimeout timeout c now) now
        cases bs with
        | nil => simp [oneCall, userExport]
        | cons b bs' =>
          simp only [oneCall, List.headD_cons, List.map_cons]
          cases b with
          | ok => simp only [userExport]; decide
          | err => simp only [userExport]; decide
          | wait =>
            simp only [userExport]
            split
            · show (Res.canceled != Res.ok) = !(Beh.wait == Beh.ok); decide
            · split
              · show (Res.deadline != Res.ok) = !(Beh.wait == Beh.ok); decide
              · show (Res.err != Res.ok) = !(Beh.wait == Beh.ok); decide

/-- with a timeout and a caller context that is never done (`context.Background()`, the context of every
asynchronous export): every call gets the deadline `its own start + timeout`, is not expired at entry, and returns
no later than that deadline -/
theorem chunkLoop_fresh (size timeout : Nat) (ht : 1 ≤ timeout) (fuel now : Nat) (bs : List Beh) (l : List Nat) :
    (∀ call ∈ (chunkLoop size timeout {} fuel now bs l).1,
      call.deadline = some (call.start + timeout) ∧ call.expired = false ∧ now ≤ call.start) ∧
    (chunkLoop size timeout {} fuel now bs l).2 ≤ now + (chunkLoop size timeout {} fuel now bs l).1.length * timeout := by
  induction fuel generalizing now bs l with
  | zero => simp [chunkLoop]
  | succ fuel ih =>
    simp only [chunkLoop]
    by_cases hl : l = []
    · simp [hl]
    · simp only [hl, if_false]
      have hne : timeout ≠ 0 := by omega
      have hend : (oneCall timeout {} now (bs.headD .ok) (l.take size)).2 ≤ now + timeout := by
        simp only [oneCall, withTimeout, hne, if_false]
        cases bs.headD .ok <;> simp [userExport] <;> omega
      have hge : now ≤ (oneCall timeout {} now (bs.headD .ok) (l.take size)).2 := by
        simp only [oneCall, withTimeout, hne, if_false]
        cases bs.headD .ok <;> simp [userExport] <;> omega
      obtain ⟨h1, h2⟩ := ih (oneCall timeout {} now (bs.headD .ok) (l.take size)).2 bs.tail (l.drop size)
      refine ⟨?_, ?_⟩
      · intro call hc
        simp only [List.mem_cons] at hc
        rcases hc with rfl | hc
        · refine ⟨?_, ?_, ?_⟩ <;> simp [oneCall, withTimeout, hne, Ctx.err] <;> omega
        · obtain ⟨a, b, d⟩ := h1 call hc
          exact ⟨a, b, by omega⟩
      · simp only [List.length_cons]
        rw [Nat.add_mul]
        omega

/-! ### the order of the wrappers

`NewBatchProcessor`: `exporter = newTimeoutExporter(exporter, timeout)` FIRST, `exporter = newChunkExporter(exporter, size)`
SECOND, `newBufferExporter(exporter, bufSize)` LAST: the buffer (export requests, exportSync goroutine) is outermost, the
chunker is in the middle, the timeout wraps the user exporter directly. The wrappers as combinators over an inner
`Export` function (context, time, scripted behaviours left, records ↦ calls made, time of return, behaviours left): -/

abbrev Exp := Ctx → Nat → List Beh → List Nat → List Call × Nat × List Beh

/-- the user exporter: one call -/
def userExp : Exp := fun c now bs l =>
  let r := userExport (bs.headD .ok) c now
  ([{ chunk := l, start := now, deadline := c.deadline, expired := c.err now != .ok, res := r.1 }], r.2, bs.tail)

/-- `timeoutExporter{inner, t}.Export` -/
def timeoutVia (t : Nat) (inner : Exp) : Exp := fun c now bs l => inner (withTimeout t c now) now bs l

/-- `chunkExporter{inner, size}.Export` (fuel ≥ number of records) -/
def chunkVia (size : Nat) (inner : Exp) (c : Ctx) : Nat → Nat → List Beh → List Nat → List Call × Nat × List Beh
  | 0, now, bs, _ => ([], now, bs)
  | fuel + 1, now, bs, l =>
    if l = [] then ([], now, bs)
    else
      let r := inner c now bs (l.take size)
      let rest := chunkVia size inner c fuel r.2.1 r.2.2 (l.drop size)
      (r.1 ++ rest.1, rest.2)

/-- what `NewBatchProcessor` builds (inside the buffer): chunk ∘ timeout ∘ user -/
def bpChain (size t : Nat) (c : Ctx) (now : Nat) (bs : List Beh) (l : List Nat) : List Call × Nat × List Beh :=
  chunkVia size (timeoutVia t userExp) c l.length now bs l

/-- the other order (NOT the code): timeout ∘ chunk ∘ user — one deadline for the whole request -/
def swappedChain (size t : Nat) (c : Ctx) (now : Nat) (bs : List Beh) (l : List Nat) : List Call × Nat × List Beh :=
  timeoutVia t (fun c now bs l => chunkVia size userExp c l.length now bs l) c now bs l

theorem chunkVia_bp (size t : Nat) (c : Ctx) (fuel now : Nat) (bs : List Beh) (l : List Nat) :
    (chunkVia size (timeoutVia t userExp) c fuel now bs l).1 = (chunkLoop size t c fuel now bs l).1 ∧
    (chunkVia size (timeoutVia t userExp) c fuel now bs l).2.1 = (chunkLoop size t c fuel now bs l).2 := by
  induction fuel generalizing now bs l with
  | zero => simp [chunkVia, chunkLoop]
  | succ fuel ih =>
    simp only [chunkVia, chunkLoop]
    by_cases hl : l = []
    · simp [hl]
    · simp only [hl, if_false]
      have h := ih (oneCall t c now (bs.headD .ok) (l.take size)).2 bs.tail (l.drop size)
      have e1 : (timeoutVia t userExp c now bs (l.take size)).2.1 = (oneCall t c now (bs.headD .ok) (l.take size)).2 := rfl
      have e2 : (timeoutVia t userExp c now bs (l.take size)).2.2 = bs.tail := rfl
      have e3 : (timeoutVia t userExp c now bs (l.take size)).1 = [(oneCall t c now (bs.headD .ok) (l.take size)).1] := rfl
      rw [e1, e2, e3]
      exact ⟨by rw [h.1]; rfl, h.2⟩

end Otel.C06.Chain
