/-
C02 — theorems about the exemplar reservoir hand-off (Exemplar.lean).

* `exemplars_do_not_change_values` — for EVERY reservoir implementation, exemplar filter, temporality, cardinality limit
  and step sequence, the values reported by the aggregator WITH reservoirs are those of the plain sum model of Lts.lean:
  every theorem of Props.lean (conservation, running total, exactly-once, monotonicity) holds verbatim with exemplars on;
* `exemplar_each_offered_once` — with a reservoir that hands over what it holds (the harness' reservoirs), every
  measurement the filter let through is handed out as an exemplar in exactly one collection (or is still held), for both
  temporalities: nothing is lost at the delta reset, nothing is reported twice by a cumulative stream;
* `exemplar_filter_off_reports_none` — with the always-off filter no point ever carries an exemplar.
-/
import Otel.C02.Exemplar
import Otel.C02.Lemmas
namespace Otel.C02
open Spec

variable {R : Type}

private theorem contains_proj (m : AMap (ECell R)) (m' : AMap SumVal) (h : ecells m = cells m') (a : Attr) :
    m.contains a = m'.contains a := by
  induction m generalizing m' with
  | nil => cases m' with
    | nil => rfl
    | cons p m' => simp [ecells, cells] at h
  | cons p m ih =>
    cases m' with
    | nil => simp [ecells, cells] at h
    | cons p' m' =>
      obtain ⟨k, c⟩ := p; obtain ⟨k', c'⟩ := p'
      simp only [ecells, cells, List.map_cons, List.cons.injEq, Prod.mk.injEq] at h
      obtain ⟨⟨hk, _⟩, ht⟩ := h
      subst hk
      have := ih m' ht
      simp only [AMap.contains, AMap.get?] at this ⊢
      split <;> simp_all

private theorem limitAttr_proj (l : Nat) (m : AMap (ECell R)) (m' : AMap SumVal) (h : ecells m = cells m') (a : Attr) :
    limitAttr l m a = limitAttr l m' a := by
  have hl : m.length = m'.length := by
    have := congrArg List.length h; simpa [ecells, cells] using this
  unfold limitAttr
  rw [contains_proj m m' h a, hl]

private theorem upd_proj (impl : ResImpl R) (pass : Bool) (attr : Attr) (e : Ex) (m : AMap (ECell R)) (m' : AMap SumVal)
    (h : ecells m = cells m') (a : Attr) (x : Int) (id : Nat) :
    ecells (m.upd a (ecell impl pass attr x e)) = cells (m'.upd a (sumCell x id)) := by
  induction m generalizing m' with
  | nil => cases m' with
    | nil => simp [AMap.upd, ecells, cells, ecell, sumCell]
    | cons p m' => simp [ecells, cells] at h
  | cons p m ih =>
    cases m' with
    | nil => simp [ecells, cells] at h
    | cons p' m' =>
      obtain ⟨k, c⟩ := p; obtain ⟨k', c'⟩ := p'
      simp only [ecells, cells, List.map_cons, List.cons.injEq, Prod.mk.injEq] at h
      obtain ⟨⟨hk, hn⟩, ht⟩ := h
      subst hk
      unfold AMap.upd
      by_cases hka : k = a
      · simp only [hka, if_true]
        simp only [ecells, cells, List.map_cons, List.cons.injEq, Prod.mk.injEq, true_and]
        exact ⟨by simp [ecell, sumCell, hn], ht⟩
      · simp only [hka, if_false]
        have := ih m' ht
        simp only [ecells, cells, List.map_cons, List.cons.injEq, Prod.mk.injEq, true_and] at this ⊢
        exact ⟨hn, this⟩

/-- the simulation relation between the aggregator with reservoirs and the plain sum model -/
private def Sim (es : ESt R) (s : St) : Prop :=
  ecells es.agg.values = cells s.agg.values ∧ es.agg.start = s.agg.start ∧ es.agg.limit = s.agg.limit ∧
  es.tp = s.tp ∧ es.reports.map ereportPairs = s.reportsPairs

private theorem sim_step (impl : ResImpl R) (f : Filt) (es : ESt R) (s : St) (x : EStep) (h : Sim es s) :
    Sim (es.step impl f x) (s.step x.erase) := by
  obtain ⟨h1, h2, h3, h4, h5⟩ := h
  cases x with
  | measure a v sampled tag =>
    refine ⟨?_, h2, h3, h4, h5⟩
    simp only [ESt.step, ESum.measure, St.step, EStep.erase, Sum.measure]
    rw [h3, limitAttr_proj _ _ _ h1]
    exact upd_proj impl _ _ _ _ _ h1 _ _ _
  | collect t =>
    simp only [ESt.step, St.step, EStep.erase, ← h4]
    cases htp : es.tp
    · -- delta
      refine ⟨by simp [ESum.collect, ESum.delta, Sum.collect, Sum.delta, ecells, cells], by simp [ESum.collect, ESum.delta, Sum.collect, Sum.delta],
        by simpa [ESum.collect, ESum.delta, Sum.collect, Sum.delta] using h3, by simpa using h4, ?_⟩
      simp only [St.reportsPairs, List.map_append, List.map_cons, List.map_nil] at h5 ⊢
      rw [h5]
      congr 2
      simp only [ESum.collect, ESum.delta, Sum.collect, Sum.delta, ereportPairs, reportPairs, mkPoints, List.map_map, h2]
      simpa [ecells, cells, Function.comp_def] using h1
    · -- cumulative
      refine ⟨?_, by simpa [ESum.collect, ESum.cumulative, Sum.collect, Sum.cumulative] using h2,
        by simpa [ESum.collect, ESum.cumulative, Sum.collect, Sum.cumulative] using h3, by simpa using h4, ?_⟩
      · simpa [ESum.collect, ESum.cumulative, Sum.collect, Sum.cumulative, ecells, cells, Function.comp_def] using h1
      · simp only [St.reportsPairs, List.map_append, List.map_cons, List.map_nil] at h5 ⊢
        rw [h5]
        congr 2
        simp only [ESum.collect, ESum.cumulative, Sum.collect, Sum.cumulative, ereportPairs, reportPairs, mkPoints, List.map_map, h2]
        simpa [ecells, cells, Function.comp_def] using h1

/-- **Exemplar collection cannot change values.**  For every reservoir implementation (`new` / `Offer` / `Collect` are
arbitrary functions), every exemplar filter, both temporalities, every cardinality limit and EVERY sequence of measure
and collect steps: the (attribute set, value) content of every report, and of what is still held, is exactly that of the
plain sum model run on the same steps with the exemplar arguments erased.  Conservation is therefore independent of the
exemplar machinery: all theorems of Props.lean transfer. -/
theorem exemplars_do_not_change_values (impl : ResImpl R) (f : Filt) (tp : Temporality) (limit : Nat) (mono : Bool)
    (start : Nat) (steps : List EStep) :
    let es := (ESt.fresh tp limit mono start : ESt R).run impl f steps
    let s := (St.fresh tp limit mono start).run (steps.map EStep.erase)
    es.reports.map ereportPairs = s.reportsPairs ∧ ecells es.agg.values = cells s.agg.values := by
  intro es s
  have key : ∀ (steps : List EStep) (es : ESt R) (s : St), Sim es s →
      Sim (es.run impl f steps) (s.run (steps.map EStep.erase)) := by
    intro steps
    induction steps with
    | nil => intro es s h; exact h
    | cons x l ih => intro es s h; exact ih _ _ (sim_step impl f es s x h)
  have h := key steps (ESt.fresh tp limit mono start) (St.fresh tp limit mono start)
    ⟨rfl, rfl, rfl, rfl, rfl⟩
  exact ⟨h.2.2.2.2, h.1⟩

/-- … in particular delta conservation with exemplars on: Σ(reported) + pending = Σ(measured), for every reservoir -/
theorem sum_delta_conservation_with_exemplars (impl : ResImpl R) (f : Filt) (limit : Nat) (mono : Bool) (start : Nat)
    (steps : List EStep) (a : Attr) :
    let es := (ESt.fresh .delta limit mono start : ESt R).run impl f steps
    let s := (St.fresh .delta limit mono start).run (steps.map EStep.erase)
    deltaBalance s.measuredPairs (es.reports.map ereportPairs) (total (ecells es.agg.values) a) a = true := by
  intro es s
  have h := exemplars_do_not_change_values impl f .delta limit mono start steps
  have hd : DeltaInv s ∧ s.tp = .delta := by
    apply run_induction (fun s => DeltaInv s ∧ s.tp = .delta)
    · exact ⟨fun a => by simp [St.fresh, St.reportsPairs, St.pending, St.measuredPairs, totalAll, total, cells], rfl⟩
    · intro s x ⟨h1, h2⟩
      exact ⟨deltaInv_step s x h2 h1, by cases x <;> exact h2⟩
  have := hd.1 a
  simp only [deltaBalance, beq_iff_eq]
  rw [h.1, h.2]
  simpa [St.pending] using this

/-! ### the hand-off itself -/

private theorem heldEx_upd_count (impl : ResImpl (List Ex)) (hnew : ∀ a, impl.new a = [])
    (hoff : ∀ r e, impl.offer r e = r ++ [e]) (pass : Bool) (m : AMap (ECell (List Ex))) (a : Attr) (x : Int) (e : Ex)
    (i : Attr × Ex) :
    (heldEx (m.upd a (ecell impl pass a x e))).count i = (heldEx m).count i + (if pass ∧ (a, e) = i then 1 else 0) := by
  induction m with
  | nil =>
    cases pass <;> simp [AMap.upd, heldEx, ecell, hnew, hoff, List.count_cons]
  | cons p m ih =>
    obtain ⟨k, w⟩ := p
    unfold AMap.upd
    by_cases hk : k = a
    · subst hk
      simp only [if_true]
      cases pass <;> simp [heldEx, ecell, hoff, List.count_append, List.count_cons]
      omega
    · simp only [hk, if_false]
      simp only [heldEx, List.flatMap_cons, List.count_append] at ih ⊢
      rw [ih]; omega

/-- every exemplar let through is, at any moment, either handed out (once) or held (once) -/
private def ExInv (s : ESt (List Ex)) : Prop :=
  ∀ i, (reportedEx s.reports ++ heldEx s.agg.values).count i = s.offered.count i

private theorem reportedEx_mkPoints (m : AMap (ECell (List Ex))) (st t : Nat) :
    (mkPoints m st t fun _ c => (⟨c.n, c.res⟩ : EVal)).flatMap (fun p => p.val.exs.map fun e => (p.attr, e)) = heldEx m := by
  simp [mkPoints, heldEx, List.flatMap_map]

private theorem heldEx_cleared (m : AMap (ECell (List Ex))) :
    heldEx (m.map fun kv => (kv.1, { kv.2 with res := ([] : List Ex) })) = [] := by
  induction m with
  | nil => rfl
  | cons p m ih => simp only [heldEx, List.map_cons, List.flatMap_cons] at ih ⊢; simp [ih]

private theorem exInv_step (impl : ResImpl (List Ex)) (hh : impl.handsOver) (hoff : ∀ r e, impl.offer r e = r ++ [e])
    (f : Filt) (s : ESt (List Ex)) (x : EStep) (h : ExInv s) : ExInv (s.step impl f x) := by
  intro i
  have h := h i
  obtain ⟨hnew, hcol⟩ := hh
  cases x with
  | measure a v sampled tag =>
    simp only [ESt.step, ESum.measure, List.count_append, heldEx_upd_count impl hnew hoff] at h ⊢
    cases hp : f.pass sampled
    · simp [hp] at h ⊢; omega
    · simp only [hp, if_true, List.count_append, List.count_cons, List.count_nil, beq_iff_eq] at h ⊢
      simp only [true_and]
      omega
  | collect t =>
    cases htp : s.tp
    · simp only [ESt.step, htp, ESum.collect, ESum.delta, hcol, reportedEx, List.flatMap_append, List.flatMap_cons,
        List.flatMap_nil, List.append_nil, List.count_append, reportedEx_mkPoints] at h ⊢
      simp only [heldEx, List.flatMap_nil, List.count_nil] at h ⊢
      omega
    · simp only [ESt.step, htp, ESum.collect, ESum.cumulative, hcol, reportedEx, List.flatMap_append, List.flatMap_cons,
        List.flatMap_nil, List.append_nil, List.count_append, reportedEx_mkPoints, heldEx_cleared] at h ⊢
      try simp only [List.count_nil] at h ⊢
      omega

/-- **Every offered exemplar is handed off exactly once.**  With a reservoir that keeps what it is offered and hands it
over at `Collect` (`keepAll`, the harness' reservoir; any `impl` with these two properties), for every filter,
temporality, limit and step sequence and every (attribute set, exemplar): the number of times it was handed out by the
collections so far plus the number of times a reservoir still holds it equals the number of times it was let through by
the filter.  A delta collection does not lose the exemplars of the cells it drops; a cumulative stream does not report
an exemplar again in its next collection. -/
theorem exemplar_each_offered_once (impl : ResImpl (List Ex)) (hh : impl.handsOver)
    (hoff : ∀ r e, impl.offer r e = r ++ [e]) (f : Filt) (tp : Temporality) (limit : Nat) (mono : Bool) (start : Nat)
    (steps : List EStep) (i : Attr × Ex) :
    let s := (ESt.fresh tp limit mono start : ESt (List Ex)).run impl f steps
    (reportedEx s.reports).count i + (heldEx s.agg.values).count i = s.offered.count i := by
  intro s
  have key : ∀ (steps : List EStep) (u : ESt (List Ex)), ExInv u → ExInv (u.run impl f steps) := by
    intro steps
    induction steps with
    | nil => intro u h; exact h
    | cons x l ih => intro u h; exact ih _ (exInv_step impl hh hoff f u x h)
  have := key steps (ESt.fresh tp limit mono start) (fun i => by simp [ESt.fresh, reportedEx, heldEx]) i
  simpa [List.count_append] using this

theorem keepAll_handsOver : keepAll.handsOver ∧ ∀ r e, keepAll.offer r e = r ++ [e] :=
  ⟨⟨fun _ => rfl, fun _ => rfl⟩, fun _ _ => rfl⟩

/-- with the always-off filter nothing is ever offered, so (hand-over reservoirs) no point carries an exemplar -/
theorem exemplar_filter_off_reports_none (impl : ResImpl (List Ex)) (hh : impl.handsOver)
    (hoff : ∀ r e, impl.offer r e = r ++ [e]) (tp : Temporality) (limit : Nat) (mono : Bool) (start : Nat)
    (steps : List EStep) :
    reportedEx ((ESt.fresh tp limit mono start : ESt (List Ex)).run impl .alwaysOff steps).reports = [] := by
  have hoffd : ((ESt.fresh tp limit mono start : ESt (List Ex)).run impl .alwaysOff steps).offered = [] := by
    have key : ∀ (steps : List EStep) (u : ESt (List Ex)), u.offered = [] → (u.run impl .alwaysOff steps).offered = [] := by
      intro steps
      induction steps with
      | nil => intro u h; exact h
      | cons x l ih =>
        intro u h
        apply ih
        cases x <;> simp [ESt.step, Filt.pass, h]
    exact key steps _ rfl
  apply List.eq_nil_iff_forall_not_mem.2
  intro i hi
  have := exemplar_each_offered_once impl hh hoff .alwaysOff tp limit mono start steps i
  simp only [hoffd, List.count_nil] at this
  have hpos : 0 < (reportedEx ((ESt.fresh tp limit mono start : ESt (List Ex)).run impl .alwaysOff steps).reports).count i :=
    List.count_pos_iff.2 hi
  omega

/-! non-vacuity: trace-based filter, two attribute sets, delta and cumulative -/
example :
    let steps := [EStep.measure 1 5 true 0, .measure 1 7 false 1, .measure 2 3 true 2, .collect 1, .measure 1 2 true 3, .collect 2]
    let d := (ESt.fresh .delta : ESt (List Ex)).run keepAll .traceBased steps
    let c := (ESt.fresh .cumulative : ESt (List Ex)).run keepAll .traceBased steps
    d.reports.map (fun pts => pts.map fun p => (p.attr, p.val.n, p.val.exs.map (·.tag))) =
      [[(1, 12, [0]), (2, 3, [2])], [(1, 2, [3])]] ∧
    c.reports.map (fun pts => pts.map fun p => (p.attr, p.val.n, p.val.exs.map (·.tag))) =
      [[(1, 12, [0]), (2, 3, [2])], [(1, 14, [3]), (2, 3, [])]] := by
  decide

end Otel.C02
