/-
C02 — the ManualReader as a labelled transition system (manual_reader.go), one stream, any number of concurrent
`Collect` callers (each with its own ResourceMetrics), `Shutdown` callers and measuring goroutines.

`ManualReader.Collect` is two steps: `load c` — `mr.sdkProducer.Load()` (the registered producer, or `shutdownProducer`
once `Shutdown` has stored it) — and `produce c t` — `ph.produce(ctx, rm)`: the pipeline's compute function under the
pipeline lock (one atomic step of the aggregator) writing into the CALLER's `rm`, or `ErrReaderShutdown` from the
shutdown producer.  `Shutdown` is `shutdownOnce.Do(store)`: the first call stores the shutdown producer and returns
nil, every later call returns `ErrReaderShutdown`.  There is no ForceFlush on a ManualReader (the provider skips it).
Unlike the PeriodicReader, Shutdown does NOT wait for collections in flight: a `Collect` that loaded the producer before
the store still collects afterwards (and takes the data with it).
-/
import Otel.C02.ReaderLts
namespace Otel.C02

inductive MPc where
  | idle
  /-- loaded the registered producer -/
  | loadedReal
  /-- loaded `shutdownProducer` -/
  | loadedShut
deriving Repr, DecidableEq

inductive MLabel where
  | measure (a : Attr) (x : Int) (id : Nat)
  | load (c : Nat)
  | produce (c : Nat) (t : Nat)
  | shutdown
deriving Repr, DecidableEq

structure MSt where
  st : St
  shut : Bool := false
  /-- program counter of every Collect caller -/
  pcs : List MPc
  /-- ghost log, oldest first: (caller, payload written into that caller's ResourceMetrics) -/
  delivered : List (Nat × Payload) := []
  /-- ghost log: callers whose Collect returned ErrReaderShutdown -/
  refused : List Nat := []
  /-- results of the Shutdown calls, oldest first: true = nil, false = ErrReaderShutdown -/
  shutResults : List Bool := []
deriving Repr

def MSt.fresh (tp : Temporality) (callers : Nat) : MSt := { st := St.fresh tp, pcs := List.replicate callers .idle }

def MSt.step (s : MSt) : MLabel → MSt
  | .measure a x id => { s with st := s.st.step (.measure a x id) }
  | .load c =>
    match s.pcs[c]? with
    | some .idle => { s with pcs := s.pcs.set c (if s.shut then .loadedShut else .loadedReal) }
    | _ => s
  | .produce c t =>
    match s.pcs[c]? with
    | some .loadedReal =>
      { s with st := s.st.step (.collect t), pcs := s.pcs.set c .idle
               delivered := s.delivered ++ [(c, (s.st.agg.collect s.st.tp t).2)] }
    | some .loadedShut => { s with pcs := s.pcs.set c .idle, refused := s.refused ++ [c] }
    | _ => s
  | .shutdown =>
    if s.shut then { s with shutResults := s.shutResults ++ [false] }
    else { s with shut := true, shutResults := s.shutResults ++ [true] }

def MSt.run (s : MSt) (ls : List MLabel) : MSt := ls.foldl MSt.step s

/-- what caller `c` got, in its own order -/
def MSt.resultsOf (s : MSt) (c : Nat) : List Payload := (s.delivered.filter (·.1 == c)).map (·.2)

/-- what the harness observes of a ManualReader after `MeterProvider.Shutdown` returned: a further Collect is refused
and carries no data, a further Shutdown answers ErrReaderShutdown -/
def Spec.manualObsOK (lateCollectRefused lateCollectEmpty secondShutdownErr : Bool) : Bool :=
  lateCollectRefused && lateCollectEmpty && secondShutdownErr

/-! ### deadlines of the PeriodicReader's ForceFlush / Shutdown (`if _, ok := ctx.Deadline(); !ok { ctx = WithTimeout(ctx, r.timeout) }`)
and of its interval exports (`collectAndExport`: always `WithTimeout(loop ctx, r.timeout)`) -/

/-- the deadline of the context the final collect / export of `Shutdown` (and `ForceFlush`) runs under: the CALLER's
deadline when it has one ("prioritize the ctx timeout if it is set"), else now + the reader's timeout -/
def effDeadline (caller : Option Nat) (now timeout : Nat) : Nat :=
  match caller with
  | some d => d
  | none => now + timeout

/-- an exporter that honours its context and needs `dur` time units accepts the payload iff it is done before the deadline -/
def exportAccepted (deadline now dur : Nat) : Bool := decide (now + dur < deadline)

end Otel.C02
