/-
C02 — interleaving models (labelled transition systems) over the aggregator library.

Every label is one critical section of the Go code (the stream mutex is held for the whole body of
`valueMap.measure`, `sum.delta`, `sum.cumulative`), so "every interleaving of any number of goroutines"
is "every finite sequence of labels": the theorems quantify over arbitrary `List Step`.
-/
import Otel.C02.Model
import Otel.C02.Spec
namespace Otel.C02

/-! ## one stream of one pipeline -/

inductive Step where
  /-- one `measure` call: attribute set, value, ghost id of the `Add` it belongs to -/
  | measure (a : Attr) (x : Int) (id : Nat)
  /-- one run of the pipeline's compute function, `t = now()` -/
  | collect (t : Nat)
deriving Repr, DecidableEq

structure St where
  agg : Sum
  tp : Temporality
  /-- ghost log: (attribute set the limiter chose, value, id) of every measure step, oldest first -/
  measured : List (Attr × Int × Nat) := []
  /-- what every collection returned, oldest first -/
  reports : List (List (Pt SumVal)) := []
deriving Repr

def St.fresh (tp : Temporality) (limit : Nat := 0) (monotonic : Bool := false) (start : Nat := 0) : St :=
  { agg := { limit := limit, monotonic := monotonic, start := start }, tp := tp }

def St.step (s : St) : Step → St
  | .measure a x id =>
    { s with agg := s.agg.measure a x id
             measured := s.measured ++ [(limitAttr s.agg.limit s.agg.values a, x, id)] }
  | .collect t =>
    { s with agg := (s.agg.collect s.tp t).1
             reports := s.reports ++ [(s.agg.collect s.tp t).2] }

def St.run (s : St) (steps : List Step) : St := steps.foldl St.step s

/-- (attribute, value) view of a value map / of a report -/
def cells (m : AMap SumVal) : List (Nat × Int) := m.map fun kv => (kv.1, kv.2.n)
def reportPairs (pts : List (Pt SumVal)) : List (Nat × Int) := pts.map fun p => (p.attr, p.val.n)

def St.measuredPairs (s : St) : List (Nat × Int) := s.measured.map fun m => (m.1, m.2.1)
def St.reportsPairs (s : St) : List (List (Nat × Int)) := s.reports.map reportPairs
/-- what is held for attribute `a` and not yet reported -/
def St.pending (s : St) (a : Attr) : Int := Spec.total (cells s.agg.values) a

/-- ghost views: ids (with values) -/
def cellIds (m : AMap SumVal) : List (Nat × Int) := m.flatMap fun kv => kv.2.ids
def reportIds (pts : List (Pt SumVal)) : List (Nat × Int) := pts.flatMap fun p => p.val.ids
def St.reportedIds (s : St) : List (Nat × Int) := s.reports.flatMap reportIds
def St.pendingIds (s : St) : List (Nat × Int) := cellIds s.agg.values
def St.measuredIds (s : St) : List (Nat × Int) := s.measured.map fun m => (m.2.2, m.2.1)

def Step.nonneg : Step → Bool
  | .measure _ x _ => decide (0 ≤ x)
  | .collect _ => true

/-! ## histories with abandoned collections

A collection whose context is already done when `pipeline.produce` consults it (after a callback) is abandoned
BEFORE any compute function runs: it returns an error and no data and touches no aggregator.  (Once aggregation has
started the context is not consulted any more, so a later cancellation/expiry yields an ordinary `collect` step.) -/

inductive XStep where
  | step (s : Step)
  /-- a collection abandoned before aggregation -/
  | abandoned (t : Nat)
deriving Repr, DecidableEq

def St.xstep (s : St) : XStep → St
  | .step x => s.step x
  | .abandoned _ => s

def St.xrun (s : St) (xs : List XStep) : St := xs.foldl St.xstep s

/-- the same history with the abandoned collections erased -/
def eraseAbandoned (xs : List XStep) : List Step :=
  xs.filterMap fun
    | .step x => some x
    | .abandoned _ => none

/-! ## n pipelines (one aggregator per reader for the same instrument) -/

/-- a step of pipeline `p`; `Add(a, x)` with ghost id `i` by some goroutine is the sequence
`(0, measure a x i), (1, measure a x i), …, (n-1, measure a x i)` in this order, arbitrarily interleaved with
the steps of all other goroutines (instrument.go:212-219: `for _, in := range i.measures { in(ctx, val, s) }`) -/
abbrev PStep := Nat × Step

def Multi.step (ms : List St) (ps : PStep) : List St := ms.modify ps.1 fun s => s.step ps.2
def Multi.run (ms : List St) (steps : List PStep) : List St := steps.foldl Multi.step ms
/-- the steps addressed to pipeline `p` -/
def proj (p : Nat) (steps : List PStep) : List Step :=
  steps.filterMap fun ps => if ps.1 = p then some ps.2 else none

/-! ## periodic reader (periodic_reader.go), one stream

Labels: `measure` (any goroutine, any time); `tick`/`flush` (the run loop serves the ticker or a ForceFlush
request: `collectAndExport`); `userCollect` (somebody calls `PeriodicReader.Collect` directly: the result goes
to the caller, not to the exporter); `shutdownCall` (`r.cancel()` inside `shutdownOnce`); `loopExit` (the run loop
observes `ctx.Done()` — until then it may still serve ticks and flushes); `finalCollect` (after `<-r.done`:
swap the producer, collect with the old one, export).  `ok` says whether the exporter accepted the payload.
Collect-then-export is one label: all exports are issued by the single run goroutine or, after it has
finished, by Shutdown, so payloads reach the exporter in collection order. -/

inductive PLabel where
  | measure (a : Attr) (x : Int) (id : Nat)
  | tick (t : Nat) (ok : Bool)
  | flush (t : Nat) (ok : Bool)
  | userCollect (t : Nat)
  | shutdownCall
  | loopExit
  | finalCollect (t : Nat) (ok : Bool)
deriving Repr, DecidableEq

structure PSt where
  st : St
  cancelled : Bool := false
  loopAlive : Bool := true
  swapped : Bool := false
  /-- payloads the exporter accepted / rejected / handed to direct callers of Collect -/
  exported : List (List (Pt SumVal)) := []
  lost : List (List (Pt SumVal)) := []
  direct : List (List (Pt SumVal)) := []
deriving Repr

def PSt.collectExport (s : PSt) (t : Nat) (ok : Bool) : PSt :=
  let st' := s.st.step (.collect t)
  let pts := (s.st.agg.collect s.st.tp t).2
  if ok then { s with st := st', exported := s.exported ++ [pts] }
  else { s with st := st', lost := s.lost ++ [pts] }

def PSt.step (s : PSt) : PLabel → PSt
  | .measure a x id => { s with st := s.st.step (.measure a x id) }
  | .tick t ok => if s.loopAlive then s.collectExport t ok else s
  | .flush t ok => if s.loopAlive then s.collectExport t ok else s          -- loop gone: ErrReaderShutdown
  | .userCollect t =>
    if s.swapped then s                                                        -- shutdownProducer: error
    else { s with st := s.st.step (.collect t), direct := s.direct ++ [(s.st.agg.collect s.st.tp t).2] }
  | .shutdownCall => { s with cancelled := true }
  | .loopExit => if s.cancelled then { s with loopAlive := false } else s
  | .finalCollect t ok =>
    if s.cancelled && !s.loopAlive && !s.swapped then { s.collectExport t ok with swapped := true } else s

def PSt.run (s : PSt) (ls : List PLabel) : PSt := ls.foldl PSt.step s

def PSt.fresh (tp : Temporality) : PSt := { st := St.fresh tp }

def PLabel.exportOk : PLabel → Bool
  | .tick _ ok => ok
  | .flush _ ok => ok
  | .finalCollect _ ok => ok
  | _ => true

def PLabel.isDirect : PLabel → Bool
  | .userCollect _ => true
  | _ => false

end Otel.C02
