/-
Aggregator library: executable models of sdk/metric/internal/aggregate (core Lean only).
Shared by C02 (conservation), C08 (delta/cumulative twins) and C12 (cardinality limit / filters).

Conventions
* an attribute set is an abstract id (`Attr = Nat`); id `overflowAttr = 0` stands for the
  `{otel.metric.overflow=true}` set (limit.go:11) — harnesses must encode that set as 0 and may use 0 for
  nothing else when a limit is configured;
* numeric values are `Int` (int64 instruments; float64 instruments are driven with dyadic values k·2⁻⁸ and
  the harness prints k, so all arithmetic is exact);
* a Go `map[attribute.Distinct]V` is an insertion-ordered association list (`AMap V`); Go iterates maps in
  random order, so every observation is sorted by attribute id before it is compared;
* time stamps are `Nat`s supplied by the caller (`t := now()` is read before the lock in every
  delta/cumulative function; the value is only copied);
* every function below is the body of ONE critical section of the Go code (the stream mutex is held for the
  whole body), i.e. one atomic step of the interleaving model;
* `SumVal.ids` is a GHOST field (id and value of the measurements added into the cell); no branch reads it.
  Exemplar reservoirs are not modelled.
-/
namespace Otel.C02

abbrev Attr := Nat

/-- the `otel.metric.overflow=true` attribute set (limit.go:11) -/
def overflowAttr : Attr := 0

/-- insertion-ordered association list standing for `map[attribute.Distinct]V` -/
abbrev AMap (V : Type) := List (Attr × V)

namespace AMap
variable {V : Type}

def get? : AMap V → Attr → Option V
  | [], _ => none
  | (k, w) :: m, a => if k = a then some w else get? m a

/-- `m[a] = f(m[a])` (zero value when absent): replace in place or append -/
def upd : AMap V → Attr → (Option V → V) → AMap V
  | [], a, f => [(a, f none)]
  | (k, w) :: m, a, f => if k = a then (k, f (some w)) :: m else (k, w) :: upd m a f

def keys (m : AMap V) : List Attr := m.map (·.1)

def contains (m : AMap V) (a : Attr) : Bool := (get? m a).isSome
end AMap

/-- `limiter.Attributes` (limit.go:33-42). `limit = 0` ⇒ no limit (Go: `aggLimit <= 0`).
`len(measurements) >= aggLimit-1` is `m.length + 1 ≥ limit` for `limit ≥ 1`. -/
def limitAttr {V : Type} (limit : Nat) (m : AMap V) (a : Attr) : Attr :=
  if limit > 0 then
    if !(m.contains a) && decide (m.length + 1 ≥ limit) then overflowAttr else a
  else a

/-- a data point: attribute set, StartTime, Time, payload -/
structure Pt (V : Type) where
  attr : Attr
  start : Nat
  time : Nat
  val : V
deriving Repr, BEq, DecidableEq

/-- copy loop shared by all aggregators: one point per map entry -/
def mkPoints {V W : Type} (m : AMap V) (start t : Nat) (f : Attr → V → W) : List (Pt W) :=
  m.map fun kv => ⟨kv.1, start, t, f kv.1 kv.2⟩

/-! ## sum (sum.go:14-141) -/

structure SumVal where
  n : Int := 0
  /-- ghost: (id, value) of every measurement added into this cell -/
  ids : List (Nat × Int) := []
deriving Repr, BEq, DecidableEq

structure Sum where
  limit : Nat := 0
  monotonic : Bool := false
  values : AMap SumVal := []
  start : Nat := 0
deriving Repr

/-- `valueMap.measure` (sum.go:37-52): `v.n += value` under the limiter's attribute -/
def sumCell (x : Int) (id : Nat) (o : Option SumVal) : SumVal :=
  let v := o.getD {}
  { n := v.n + x, ids := v.ids ++ [(id, x)] }

def Sum.measure (s : Sum) (a : Attr) (x : Int) (id : Nat := 0) : Sum :=
  { s with values := s.values.upd (limitAttr s.limit s.values a) (sumCell x id) }

/-- `sum.delta` (sum.go:73-106): copy, `clear(values)`, `start = t` -/
def Sum.delta (s : Sum) (t : Nat) : Sum × List (Pt SumVal) :=
  ({ s with values := [], start := t }, mkPoints s.values s.start t fun _ v => v)

/-- `sum.cumulative` (sum.go:108-141): copy only -/
def Sum.cumulative (s : Sum) (t : Nat) : Sum × List (Pt SumVal) :=
  (s, mkPoints s.values s.start t fun _ v => v)

/-! ## precomputedSum (sum.go:143-241) — observations ADD within a cycle (valueMap.measure) -/

structure PSum where
  limit : Nat := 0
  monotonic : Bool := false
  values : AMap SumVal := []
  start : Nat := 0
  reported : AMap Int := []
deriving Repr

def PSum.measure (s : PSum) (a : Attr) (x : Int) (id : Nat := 0) : PSum :=
  { s with values := s.values.upd (limitAttr s.limit s.values a) (sumCell x id) }

/-- `precomputedSum.delta` (sum.go:168-207): `value.n - reported[key]` (0 when the key was not in the
PRECEDING cycle: `reported` is replaced by this cycle's keys only), clear, move start -/
def PSum.delta (s : PSum) (t : Nat) : PSum × List (Pt Int) :=
  ({ s with values := [], start := t, reported := s.values.map fun kv => (kv.1, kv.2.n) },
   mkPoints s.values s.start t fun k v => v.n - (s.reported.get? k).getD 0)

/-- `precomputedSum.cumulative` (sum.go:209-241): report, clear, start and `reported` untouched -/
def PSum.cumulative (s : PSum) (t : Nat) : PSum × List (Pt Int) :=
  ({ s with values := [] }, mkPoints s.values s.start t fun _ v => v.n)

/-! ## lastValue / precomputedLastValue (lastvalue.go) -/

structure LastValue where
  limit : Nat := 0
  values : AMap Int := []
  start : Nat := 0
deriving Repr

/-- `lastValue.measure` (lastvalue.go:41-56): overwrite -/
def LastValue.measure (s : LastValue) (a : Attr) (x : Int) : LastValue :=
  let cell : Option Int → Int := fun _ => x
  { s with values := s.values.upd (limitAttr s.limit s.values a) cell }

/-- `lastValue.delta` (58-75): copy, clear, move start -/
def LastValue.delta (s : LastValue) (t : Nat) : LastValue × List (Pt Int) :=
  ({ s with values := [], start := t }, mkPoints s.values s.start t fun _ v => v)

/-- `lastValue.cumulative` (77-94): copy only -/
def LastValue.cumulative (s : LastValue) (t : Nat) : LastValue × List (Pt Int) :=
  (s, mkPoints s.values s.start t fun _ v => v)

/-- `precomputedLastValue.delta` (129-146): copy, clear, move start -/
def LastValue.pdelta (s : LastValue) (t : Nat) : LastValue × List (Pt Int) := s.delta t

/-- `precomputedLastValue.cumulative` (148-164): copy, clear, start untouched -/
def LastValue.pcumulative (s : LastValue) (t : Nat) : LastValue × List (Pt Int) :=
  ({ s with values := [] }, mkPoints s.values s.start t fun _ v => v)

/-! ## explicit bucket histogram (histogram.go), structural part -/

structure HistVal where
  counts : List Nat
  count : Nat
  total : Int
  min : Int
  max : Int
deriving Repr, BEq, DecidableEq

structure Hist where
  limit : Nat := 0
  noSum : Bool := false
  noMinMax : Bool := false
  /-- sorted boundaries (newHistValues sorts a clone) -/
  bounds : List Int := []
  values : AMap HistVal := []
  start : Nat := 0
deriving Repr

/-- contract of `sort.SearchFloat64s(bounds, v)` on a sorted slice: smallest `i` with `bounds[i] >= v` -/
def searchIdx (bounds : List Int) (v : Int) : Nat := (bounds.takeWhile (· < v)).length

/-- new `buckets` (histogram.go:104-109) followed by `bin` and `sum` (34-42, 31) -/
def histCell (nb : Nat) (noSum : Bool) (idx : Nat) (x : Int) (o : Option HistVal) : HistVal :=
  let b := o.getD { counts := List.replicate nb 0, count := 0, total := 0, min := x, max := x }
  { counts := b.counts.modify idx (· + 1)
    count := b.count + 1
    total := if noSum then b.total else b.total + x
    min := if x < b.min then x else b.min
    max := if x < b.min then b.max else if x > b.max then x else b.max }

/-- `histValues.measure` (histogram.go:77-116) -/
def Hist.measure (h : Hist) (a : Attr) (x : Int) : Hist :=
  let cell := histCell (h.bounds.length + 1) h.noSum (searchIdx h.bounds x) x
  { h with values := h.values.upd (limitAttr h.limit h.values a) cell }

/-- `histogram.delta` (143-190): copy, clear, move start -/
def Hist.delta (h : Hist) (t : Nat) : Hist × List (Pt HistVal) :=
  ({ h with values := [], start := t }, mkPoints h.values h.start t fun _ v => v)

/-- `histogram.cumulative` (192-247): copy (cloned counts) -/
def Hist.cumulative (h : Hist) (t : Nat) : Hist × List (Pt HistVal) :=
  (h, mkPoints h.values h.start t fun _ v => v)

/-! ## temporality and a uniform wrapper (what `Builder.*` returns: a measure and a compute function) -/

inductive Temporality where
  | delta | cumulative
deriving Repr, BEq, DecidableEq

def Sum.collect (s : Sum) (tp : Temporality) (t : Nat) : Sum × List (Pt SumVal) :=
  match tp with
  | .delta => s.delta t
  | .cumulative => s.cumulative t

def PSum.collect (s : PSum) (tp : Temporality) (t : Nat) : PSum × List (Pt Int) :=
  match tp with
  | .delta => s.delta t
  | .cumulative => s.cumulative t

/-- `Builder.LastValue`: delta only when the temporality is delta, else cumulative -/
def LastValue.collect (s : LastValue) (tp : Temporality) (t : Nat) : LastValue × List (Pt Int) :=
  match tp with
  | .delta => s.delta t
  | .cumulative => s.cumulative t

def LastValue.pcollect (s : LastValue) (tp : Temporality) (t : Nat) : LastValue × List (Pt Int) :=
  match tp with
  | .delta => s.pdelta t
  | .cumulative => s.pcumulative t

def Hist.collect (h : Hist) (tp : Temporality) (t : Nat) : Hist × List (Pt HistVal) :=
  match tp with
  | .delta => h.delta t
  | .cumulative => h.cumulative t

/-! ## helpers used by drivers: canonical (sorted by attribute) views -/

def insertSorted {V : Type} (p : Attr × V) : List (Attr × V) → List (Attr × V)
  | [] => [p]
  | q :: l => if p.1 ≤ q.1 then p :: q :: l else q :: insertSorted p l

/-- stable insertion sort by attribute id (small lists) -/
def sortByAttr {V : Type} (l : List (Attr × V)) : List (Attr × V) :=
  l.foldr insertSorted []

end Otel.C02
