/-
C02 — generated tie.  `Otel.Gen.C02` is regenerated from /repo's current source by tools/go2lean on every run of
bin/check (checks/gentie.json); the theorems below are re-checked against the regenerated text.
Sites: `limiter.Attributes` (sdk/metric/internal/aggregate/limit.go) — every `measure` of the C02 aggregator models
goes through `Otel.C02.limitAttr` — as a skeleton over `exists`, `l.aggLimit`, `len(measurements)`; and the periodic
reader's default interval/timeout (sdk/metric/periodic_reader.go).
-/
import Otel.Gen.C02
import Otel.C02.Model

namespace Otel.C02.GenTie
open Otel.C02

/-- characterisation: the overflow set is substituted iff a limit is set, the attribute set is new, and
`limit - 1` streams already exist -/
theorem gen_limiter_overflow_iff (found : Bool) (aggLimit len : Int) :
    Otel.Gen.C02.limiterAttributes found aggLimit len = "overflow" ↔
      (aggLimit > 0 ∧ found = false ∧ len ≥ aggLimit - 1) := by
  unfold Otel.Gen.C02.limiterAttributes
  cases found <;> simp <;> (repeat' split) <;> simp <;> omega

/-- the only other outcome is the caller's attribute set, unchanged -/
theorem gen_limiter_total (found : Bool) (aggLimit len : Int) :
    Otel.Gen.C02.limiterAttributes found aggLimit len = "overflow" ∨
    Otel.Gen.C02.limiterAttributes found aggLimit len = "attrs" := by
  unfold Otel.Gen.C02.limiterAttributes
  (repeat' split) <;> simp

/-- a limit of zero or less disables the limiter; an existing stream is never redirected -/
theorem gen_limiter_passthrough (found : Bool) (aggLimit len : Int) (h : aggLimit ≤ 0 ∨ found = true) :
    Otel.Gen.C02.limiterAttributes found aggLimit len = "attrs" := by
  rcases gen_limiter_total found aggLimit len with h1 | h1
  · have := (gen_limiter_overflow_iff found aggLimit len).mp h1
    rcases h with h | h
    · omega
    · simp_all
  · exact h1

/-- `limiter.Attributes` as written today is the model's `limitAttr` (the C12/C02 models' admission decision):
the model returns `overflowAttr` exactly when the code returns `overflowSet` -/
theorem gen_limiter_eq_model {V : Type} (limit : Nat) (m : AMap V) (a : Attr) :
    limitAttr limit m a =
      (if Otel.Gen.C02.limiterAttributes (m.contains a) (limit : Int) (m.length : Int) = "overflow"
       then overflowAttr else a) := by
  have hc := gen_limiter_overflow_iff (m.contains a) (limit : Int) (m.length : Int)
  unfold limitAttr
  by_cases h : Otel.Gen.C02.limiterAttributes (m.contains a) (limit : Int) (m.length : Int) = "overflow"
  · obtain ⟨h1, h2, h3⟩ := hc.mp h
    have hl : limit > 0 := by omega
    have hg : m.length + 1 ≥ limit := by omega
    rw [if_pos h]; simp [hl, h2, hg]
  · rw [if_neg h]
    by_cases hl : limit > 0
    · by_cases h2 : m.contains a = true
      · simp [hl, h2]
      · have h2' : m.contains a = false := by simpa using h2
        have hg : ¬ (m.length + 1 ≥ limit) := by
          intro hg; exact h (hc.mpr ⟨by omega, h2', by omega⟩)
        simp [hl, h2', hg]
    · simp [hl]

/-! ### periodic reader defaults -/

/-- 60 s interval, 30 s timeout (ns); the export timeout is shorter than the interval, both positive -/
theorem gen_periodic_reader_defaults :
    Otel.Gen.C02.defaultInterval = 60000000000 ∧ Otel.Gen.C02.defaultTimeout = 30000000000 ∧
    0 < Otel.Gen.C02.defaultTimeout ∧ Otel.Gen.C02.defaultTimeout ≤ Otel.Gen.C02.defaultInterval := by decide

theorem gen_periodic_reader_env_names :
    Otel.Gen.C02.envInterval = "OTEL_METRIC_EXPORT_INTERVAL" ∧ Otel.Gen.C02.envTimeout = "OTEL_METRIC_EXPORT_TIMEOUT" := by decide

end Otel.C02.GenTie
