/-
C02 — the PeriodicReader as a FINE-GRAINED labelled transition system (periodic_reader.go), one stream.

`Lts.lean` has collect-then-export of the periodic reader as ONE label.  Here the run loop goroutine, the ForceFlush
callers and the Shutdown caller are separate program counters and every label is one step of one of them:

* run loop (`run`, `collectAndExport`): `select` picks the ticker (`loopTick`) or a ForceFlush request
  (`loopRecvFlush`) — also when the context is already cancelled, `select` chooses among the ready cases —, then
  `Collect` (the aggregator's compute function, one atomic step), then `export` begins, then `export` ends (accepted
  or not), then the loop is idle again; with the context cancelled an idle loop may leave (`loopExit`, closes `done`);
* `ForceFlush`: `flushCall` (the caller blocks sending on the unbuffered `flushCh`), `flushGiveUp` (its context ended);
* `Shutdown` (inside `shutdownOnce`): `shutdownCall` (`r.cancel()`), `shutSwap` (after `<-r.done`: the producer is
  swapped for `shutdownProducer`), `shutCollect` (collect with the OLD producer) or `shutCollectFail`,
  `shutExportBegin`, `shutExportEnd`, `shutExporterDown` (`exporter.Shutdown`, then Shutdown returns);
* `userCollect` (somebody calls `PeriodicReader.Collect` directly), `measure` (any goroutine, any time).

Ghost counters `begun` / `ended` count the calls of `exporter.Export` that have started / returned.
-/
import Otel.C02.Lts
namespace Otel.C02

abbrev Payload := List (Pt SumVal)

inductive LoopPc where
  | idle
  /-- `r.Collect` returned `rm`; `flush` = serving a ForceFlush request -/
  | collected (flush : Bool) (p : Payload)
  /-- inside `r.exporter.Export` -/
  | exporting (flush : Bool) (p : Payload)
  /-- `run` returned, `done` is closed -/
  | exited
deriving Repr, DecidableEq

inductive ShutPc where
  | notCalled
  /-- `r.cancel()` done, blocked in `<-r.done` -/
  | waiting
  /-- `sdkProducer.Swap(shutdownProducer)` done -/
  | swapped
  | collected (p : Payload)
  | exporting (p : Payload)
  /-- final export over (or skipped because the collect failed); `exporter.Shutdown` next -/
  | flushed (ok : Bool)
  /-- Shutdown returned; `ok` = it returned the exporter's Shutdown result (no collect / export error) -/
  | returned (ok : Bool)
deriving Repr, DecidableEq

inductive RLabel where
  | measure (a : Attr) (x : Int) (id : Nat)
  | loopTick (t : Nat)
  | loopRecvFlush (t : Nat)
  | loopExportBegin
  | loopExportEnd (ok : Bool)
  | loopExit
  | flushCall
  | flushGiveUp
  | userCollect (t : Nat)
  | shutdownCall
  | shutSwap
  | shutCollect (t : Nat)
  | shutCollectFail
  | shutExportBegin
  | shutExportEnd (ok : Bool)
  | shutExporterDown
deriving Repr, DecidableEq

structure RSt where
  st : St
  loop : LoopPc := .idle
  shut : ShutPc := .notCalled
  /-- the run loop's context is cancelled -/
  cancelled : Bool := false
  /-- ForceFlush callers blocked on `flushCh` -/
  flushPending : Nat := 0
  /-- ForceFlush requests the loop has completely served (collect + export, result sent on `errCh`) -/
  flushServed : Nat := 0
  exported : List Payload := []
  lost : List Payload := []
  direct : List Payload := []
  /-- ghost: calls of `exporter.Export` started / returned -/
  begun : Nat := 0
  ended : Nat := 0
deriving Repr

def RSt.fresh (tp : Temporality) : RSt := { st := St.fresh tp }

/-- the producer has been swapped: `Collect` answers `ErrReaderShutdown` -/
def ShutPc.isSwapped : ShutPc → Bool
  | .notCalled => false
  | .waiting => false
  | _ => true

def RSt.loopCollect (s : RSt) (flush : Bool) (t : Nat) : RSt :=
  { s with st := s.st.step (.collect t), loop := .collected flush (s.st.agg.collect s.st.tp t).2 }

def RSt.finish (s : RSt) (p : Payload) (ok : Bool) : RSt :=
  if ok then { s with exported := s.exported ++ [p], ended := s.ended + 1 }
  else { s with lost := s.lost ++ [p], ended := s.ended + 1 }

def RSt.step (s : RSt) : RLabel → RSt
  | .measure a x id => { s with st := s.st.step (.measure a x id) }
  | .loopTick t =>
    match s.loop with
    | .idle => s.loopCollect false t
    | _ => s
  | .loopRecvFlush t =>
    match s.loop with
    | .idle => if s.flushPending > 0 then { s.loopCollect true t with flushPending := s.flushPending - 1 } else s
    | _ => s
  | .loopExportBegin =>
    match s.loop with
    | .collected f p => { s with loop := .exporting f p, begun := s.begun + 1 }
    | _ => s
  | .loopExportEnd ok =>
    match s.loop with
    | .exporting f p =>
      let s' := s.finish p ok
      { s' with loop := .idle, flushServed := if f then s.flushServed + 1 else s.flushServed }
    | _ => s
  | .loopExit =>
    match s.loop with
    | .idle => if s.cancelled then { s with loop := .exited } else s
    | _ => s
  | .flushCall => { s with flushPending := s.flushPending + 1 }
  | .flushGiveUp => { s with flushPending := s.flushPending - 1 }
  | .userCollect t =>
    if s.shut.isSwapped then s
    else { s with st := s.st.step (.collect t), direct := s.direct ++ [(s.st.agg.collect s.st.tp t).2] }
  | .shutdownCall =>
    match s.shut with
    | .notCalled => { s with shut := .waiting, cancelled := true }
    | _ => s                                                   -- shutdownOnce: later callers do nothing
  | .shutSwap =>
    match s.shut, s.loop with
    | .waiting, .exited => { s with shut := .swapped }
    | _, _ => s
  | .shutCollect t =>
    match s.shut with
    | .swapped => { s with st := s.st.step (.collect t), shut := .collected (s.st.agg.collect s.st.tp t).2 }
    | _ => s
  | .shutCollectFail =>
    match s.shut with
    | .swapped => { s with shut := .flushed false }
    | _ => s
  | .shutExportBegin =>
    match s.shut with
    | .collected p => { s with shut := .exporting p, begun := s.begun + 1 }
    | _ => s
  | .shutExportEnd ok =>
    match s.shut with
    | .exporting p => { s.finish p ok with shut := .flushed ok }
    | _ => s
  | .shutExporterDown =>
    match s.shut with
    | .flushed ok => { s with shut := .returned ok }
    | _ => s

def RSt.run (s : RSt) (ls : List RLabel) : RSt := ls.foldl RSt.step s

/-- payloads taken out of the aggregator and not yet handed over -/
def LoopPc.held : LoopPc → List Payload
  | .collected _ p => [p]
  | .exporting _ p => [p]
  | _ => []

def ShutPc.held : ShutPc → List Payload
  | .collected p => [p]
  | .exporting p => [p]
  | _ => []

def LoopPc.inExport : LoopPc → Bool
  | .exporting _ _ => true
  | _ => false

def ShutPc.inExport : ShutPc → Bool
  | .exporting _ => true
  | _ => false

/-- number of `exporter.Export` calls in flight, read off the program counters -/
def RSt.inFlight (s : RSt) : Nat := (if s.loop.inExport then 1 else 0) + (if s.shut.inExport then 1 else 0)

def RLabel.exportOk : RLabel → Bool
  | .loopExportEnd ok => ok
  | .shutExportEnd ok => ok
  | .shutCollectFail => false
  | _ => true

def RLabel.isDirect : RLabel → Bool
  | .userCollect _ => true
  | _ => false

/-- what the harness observes of one periodic reader through its recording exporter once `MeterProvider.Shutdown` has
returned and stale ticks / ForceFlush / Collect / Shutdown were tried again: the largest number of `Export` calls seen in
flight, the calls started after Shutdown returned, calls started / returned, and whether a late `Collect` was refused -/
def Spec.readerObsOK (maxInFlight late begun ended : Nat) (collectRefused : Bool) : Bool :=
  decide (maxInFlight ≤ 1) && late == 0 && begun == ended && collectRefused

/-- `Shutdown` has returned to its caller -/
def RSt.isReturned (s : RSt) : Bool :=
  match s.shut with
  | .returned _ => true
  | _ => false

end Otel.C02
