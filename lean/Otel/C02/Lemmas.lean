import Otel.C02.Lts
namespace Otel.C02
open Spec

/-! ### Spec.total / totalAll -/

theorem total_append (l₁ l₂ : List (Nat × Int)) (a : Nat) :
    total (l₁ ++ l₂) a = total l₁ a + total l₂ a := by
  induction l₁ with
  | nil => simp [total]
  | cons p l ih => obtain ⟨k, v⟩ := p; simp [total, ih]; omega

theorem totalAll_append (r₁ r₂ : List (List (Nat × Int))) (a : Nat) :
    totalAll (r₁ ++ r₂) a = totalAll r₁ a + totalAll r₂ a := by
  induction r₁ with
  | nil => simp [totalAll]
  | cons p l ih => simp [totalAll, ih]; omega

/-! ### the value map -/

theorem cells_nil : cells [] = [] := rfl
theorem cellIds_nil : cellIds [] = [] := rfl

theorem limitAttr_zero {V : Type} (m : AMap V) (a : Attr) : limitAttr 0 m a = a := by
  simp [limitAttr]

/-- `v.n += x` changes the total of the chosen attribute by `x` and nothing else -/
theorem total_cells_upd (m : AMap SumVal) (a : Attr) (x : Int) (id : Nat) (b : Attr) :
    total (cells (m.upd a (sumCell x id))) b = total (cells m) b + (if a = b then x else 0) := by
  induction m with
  | nil => simp [AMap.upd, cells, total, sumCell]
  | cons p m ih =>
    obtain ⟨k, w⟩ := p
    unfold AMap.upd
    by_cases hk : k = a
    · subst hk
      simp only [if_true]
      simp only [cells, List.map, total, sumCell, Option.getD]
      by_cases hb : k = b <;> simp [hb] <;> omega
    · simp only [hk, if_false]
      simp only [cells, List.map, total] at ih ⊢
      rw [ih]; omega

theorem cellIds_upd_count (m : AMap SumVal) (a : Attr) (x : Int) (id : Nat) (i : Nat × Int) :
    (cellIds (m.upd a (sumCell x id))).count i = (cellIds m).count i + (if (id, x) = i then 1 else 0) := by
  induction m with
  | nil =>
    simp [AMap.upd, cellIds, sumCell, List.count_cons]
  | cons p m ih =>
    obtain ⟨k, w⟩ := p
    unfold AMap.upd
    by_cases hk : k = a
    · subst hk
      simp only [if_true]
      simp [cellIds, sumCell, List.count_append, List.count_cons]
      omega
    · simp only [hk, if_false]
      simp only [cellIds, List.flatMap_cons, List.count_append] at ih ⊢
      rw [ih]; omega

theorem reportPairs_mkPoints (m : AMap SumVal) (s t : Nat) :
    reportPairs (mkPoints m s t fun _ v => v) = cells m := by
  simp [reportPairs, mkPoints, cells]

theorem reportIds_mkPoints (m : AMap SumVal) (s t : Nat) :
    reportIds (mkPoints m s t fun _ v => v) = cellIds m := by
  simp [reportIds, mkPoints, cellIds, List.flatMap_map]

/-! ### single-stream invariants -/

theorem run_append (s : St) (l₁ l₂ : List Step) : s.run (l₁ ++ l₂) = (s.run l₁).run l₂ := by
  simp [St.run, List.foldl_append]

theorem run_cons (s : St) (x : Step) (l : List Step) : s.run (x :: l) = (s.step x).run l := rfl

theorem run_tp (s : St) (steps : List Step) : (s.run steps).tp = s.tp := by
  induction steps generalizing s with
  | nil => rfl
  | cons x l ih => rw [run_cons, ih]; cases x <;> rfl

/-- invariant induction principle -/
theorem run_induction (P : St → Prop) (s : St) (h0 : P s) (hstep : ∀ s x, P s → P (s.step x))
    (steps : List Step) : P (s.run steps) := by
  induction steps generalizing s with
  | nil => exact h0
  | cons x l ih => exact ih _ (hstep s x h0)

def DeltaInv (s : St) : Prop :=
  ∀ a, totalAll s.reportsPairs a + s.pending a = total s.measuredPairs a

theorem deltaInv_step (s : St) (x : Step) (htp : s.tp = .delta) (h : DeltaInv s) : DeltaInv (s.step x) := by
  intro a
  have h := h a
  cases x with
  | measure b v id =>
    simp only [St.step, St.reportsPairs, St.pending, St.measuredPairs, Sum.measure, List.map_append,
      List.map_cons, List.map_nil, total_append, total_cells_upd] at h ⊢
    simp only [total]
    omega
  | collect t =>
    simp only [St.step, St.reportsPairs, St.pending, St.measuredPairs, htp, Sum.collect, Sum.delta,
      List.map_append, List.map_cons, List.map_nil, totalAll_append, reportPairs_mkPoints] at h ⊢
    simp only [totalAll, cells_nil, total]
    omega

theorem pending_after_delta_collect (s : St) (htp : s.tp = .delta) (t : Nat) (a : Attr) :
    (s.run [.collect t]).pending a = 0 := by
  simp [St.run, St.step, htp, Sum.collect, Sum.delta, St.pending, cells, total]

def CumInv (s : St) : Prop := ∀ a, s.pending a = total s.measuredPairs a

theorem cumInv_step (s : St) (x : Step) (htp : s.tp = .cumulative) (h : CumInv s) : CumInv (s.step x) := by
  intro a
  have h := h a
  cases x with
  | measure b v id =>
    simp only [St.step, St.pending, St.measuredPairs, Sum.measure, List.map_append,
      List.map_cons, List.map_nil, total_append, total_cells_upd] at h ⊢
    simp only [total]
    omega
  | collect t =>
    simpa only [St.step, St.pending, St.measuredPairs, htp, Sum.collect, Sum.cumulative] using h

def IdInv (s : St) : Prop :=
  ∀ i, (s.reportedIds ++ s.pendingIds).count i = s.measuredIds.count i

theorem idInv_step (s : St) (x : Step) (htp : s.tp = .delta) (h : IdInv s) : IdInv (s.step x) := by
  intro i
  have h := h i
  cases x with
  | measure b v id =>
    simp only [St.step, St.reportedIds, St.pendingIds, St.measuredIds, Sum.measure, List.map_append,
      List.map_cons, List.map_nil, List.count_append, cellIds_upd_count, List.count_cons, List.count_nil] at h ⊢
    simp only [beq_iff_eq]
    omega
  | collect t =>
    simp only [St.step, St.reportedIds, St.pendingIds, St.measuredIds, htp, Sum.collect, Sum.delta,
      List.flatMap_append, List.flatMap_cons, List.flatMap_nil, List.count_append, reportIds_mkPoints,
      List.append_nil] at h ⊢
    simp only [cellIds_nil, List.count_nil]
    omega

/-- cumulative streams never forget: the ids held are exactly the ids measured -/
def IdInvCum (s : St) : Prop := ∀ i, s.pendingIds.count i = s.measuredIds.count i

theorem idInvCum_step (s : St) (x : Step) (htp : s.tp = .cumulative) (h : IdInvCum s) : IdInvCum (s.step x) := by
  intro i
  have h := h i
  cases x with
  | measure b v id =>
    simp only [St.step, St.pendingIds, St.measuredIds, Sum.measure, List.map_append,
      List.map_cons, List.map_nil, List.count_append, cellIds_upd_count, List.count_cons, List.count_nil] at h ⊢
    simp only [beq_iff_eq]
    omega
  | collect t =>
    simpa only [St.step, St.pendingIds, St.measuredIds, htp, Sum.collect, Sum.cumulative] using h


/-! ### counting -/

theorem count_le_one_of_nodup {α : Type} [BEq α] [LawfulBEq α] {l : List α} (h : l.Nodup) (a : α) : l.count a ≤ 1 := by
  induction l with
  | nil => simp
  | cons x l ih =>
    rw [List.nodup_cons] at h
    rw [List.count_cons]
    by_cases hx : x = a
    · subst hx
      have : l.count x = 0 := List.count_eq_zero.mpr h.1
      simp [this]
    · have := ih h.2
      simp [hx]; omega

theorem nodup_of_count_le_one {α : Type} [BEq α] [LawfulBEq α] {l : List α} (h : ∀ a, l.count a ≤ 1) : l.Nodup := by
  induction l with
  | nil => simp
  | cons x l ih =>
    rw [List.nodup_cons]; constructor
    · intro hm
      have h1 := h x
      rw [List.count_cons_self] at h1
      have := List.count_pos_iff.mpr hm
      omega
    · apply ih; intro a
      have := h a
      rw [List.count_cons] at this
      omega

/-! ### the ghost log is the list of measure steps -/

/-- the measure steps of a step sequence: (attribute, value, id) -/
def measureLog (steps : List Step) : List (Attr × Int × Nat) :=
  steps.filterMap fun
    | .measure a x id => some (a, x, id)
    | .collect _ => none

theorem step_limit (s : St) (x : Step) : (s.step x).agg.limit = s.agg.limit := by
  cases x with
  | measure a v id => rfl
  | collect t => cases h : s.tp <;> simp [St.step, h, Sum.collect, Sum.delta, Sum.cumulative]

theorem run_limit (s : St) (steps : List Step) : (s.run steps).agg.limit = s.agg.limit := by
  induction steps generalizing s with
  | nil => rfl
  | cons x l ih => rw [run_cons, ih, step_limit]

/-- values and ids of the ghost log are those of the measure steps, whatever the limit -/
theorem measuredIds_run (s : St) (steps : List Step) :
    (s.run steps).measuredIds = s.measuredIds ++ (measureLog steps).map fun m => (m.2.2, m.2.1) := by
  induction steps generalizing s with
  | nil => simp [St.run, measureLog]
  | cons x l ih =>
    rw [run_cons, ih]
    cases x with
    | measure a v id => simp [St.step, St.measuredIds, measureLog]
    | collect t => simp [St.step, St.measuredIds, measureLog]

/-- without a cardinality limit the ghost log is exactly the measure steps -/
theorem measured_run_nolimit (s : St) (steps : List Step) (h : s.agg.limit = 0) :
    (s.run steps).measured = s.measured ++ measureLog steps := by
  induction steps generalizing s with
  | nil => simp [St.run, measureLog]
  | cons x l ih =>
    rw [run_cons, ih _ (by rw [step_limit]; exact h)]
    cases x with
    | measure a v id => simp [St.step, measureLog, h, limitAttr_zero]
    | collect t => simp [St.step, measureLog]

/-! ### n pipelines -/

theorem multi_run_cons (ms : List St) (x : PStep) (l : List PStep) :
    Multi.run ms (x :: l) = Multi.run (Multi.step ms x) l := rfl

/-- pipelines do not interact: component `p` of the product run is the run of the projected steps -/
theorem multi_run_getElem? (ms : List St) (steps : List PStep) (p : Nat) :
    (Multi.run ms steps)[p]? = (ms[p]?).map fun s => s.run (proj p steps) := by
  induction steps generalizing ms with
  | nil => simp [Multi.run, proj, St.run]
  | cons x l ih =>
    rw [multi_run_cons, ih]
    simp only [Multi.step, List.getElem?_modify]
    cases hms : ms[p]? with
    | none => simp
    | some s =>
      by_cases hx : x.1 = p
      · simp [hx, proj, run_cons]
      · simp [hx, proj]

/-! ### monotonic sums -/

theorem all_nonneg_upd (m : AMap SumVal) (a : Attr) (x : Int) (id : Nat) (hx : 0 ≤ x)
    (h : ∀ kv ∈ m, 0 ≤ kv.2.n) : ∀ kv ∈ m.upd a (sumCell x id), 0 ≤ kv.2.n := by
  induction m with
  | nil =>
    intro kv hkv
    simp [AMap.upd, sumCell] at hkv
    subst hkv; simpa using hx
  | cons p m ih =>
    obtain ⟨k, w⟩ := p
    unfold AMap.upd
    by_cases hk : k = a
    · simp only [hk, if_true]
      intro kv hkv
      rcases List.mem_cons.mp hkv with h1 | h1
      · subst h1
        have h0 : 0 ≤ w.n := h (k, w) (by simp)
        simp [sumCell]; omega
      · exact h kv (by simp [h1])
    · simp only [hk, if_false]
      intro kv hkv
      rcases List.mem_cons.mp hkv with h1 | h1
      · subst h1; exact h _ (by simp)
      · exact ih (fun kv hkv => h kv (by simp [hkv])) kv h1

theorem nonneg_cells (m : AMap SumVal) (h : ∀ kv ∈ m, 0 ≤ kv.2.n) : nonneg (cells m) = true := by
  simp only [nonneg, cells, List.all_eq_true, List.mem_map, decide_eq_true_eq]
  rintro p ⟨kv, hkv, rfl⟩
  exact h kv hkv

def NonnegInv (s : St) : Prop :=
  (∀ kv ∈ s.agg.values, 0 ≤ kv.2.n) ∧ ∀ r ∈ s.reportsPairs, nonneg r = true

theorem nonnegInv_step (s : St) (x : Step) (hx : x.nonneg = true) (h : NonnegInv s) : NonnegInv (s.step x) := by
  cases x with
  | measure a v id =>
    refine ⟨?_, h.2⟩
    simp only [Step.nonneg, decide_eq_true_eq] at hx
    exact all_nonneg_upd _ _ _ _ hx h.1
  | collect t =>
    cases htp : s.tp with
    | delta =>
      refine ⟨by simp [St.step, htp, Sum.collect, Sum.delta], ?_⟩
      intro r hr
      simp only [St.step, St.reportsPairs, htp, Sum.collect, Sum.delta, List.map_append, List.map_cons, List.map_nil,
        List.mem_append, List.mem_singleton, reportPairs_mkPoints] at hr
      rcases hr with hr | hr
      · exact h.2 r hr
      · subst hr; exact nonneg_cells _ h.1
    | cumulative =>
      refine ⟨by simpa [St.step, htp, Sum.collect, Sum.cumulative] using h.1, ?_⟩
      intro r hr
      simp only [St.step, St.reportsPairs, htp, Sum.collect, Sum.cumulative, List.map_append, List.map_cons, List.map_nil,
        List.mem_append, List.mem_singleton, reportPairs_mkPoints] at hr
      rcases hr with hr | hr
      · exact h.2 r hr
      · subst hr; exact nonneg_cells _ h.1

theorem run_induction_on (P : St → Prop) (Q : Step → Prop) (s : St) (h0 : P s)
    (hstep : ∀ s x, Q x → P s → P (s.step x)) (steps : List Step) (hq : ∀ x ∈ steps, Q x) : P (s.run steps) := by
  induction steps generalizing s with
  | nil => exact h0
  | cons x l ih =>
    exact ih _ (hstep s x (hq x (by simp)) h0) (fun y hy => hq y (by simp [hy]))

/-- `m'` has every key of `m`, with a value at least as large -/
def MapLe (m m' : AMap SumVal) : Prop :=
  ∀ a, (m.contains a = true → m'.contains a = true) ∧ total (cells m) a ≤ total (cells m') a

theorem contains_upd {V : Type} (m : AMap V) (a b : Attr) (f : Option V → V) (h : m.contains b = true) :
    (m.upd a f).contains b = true := by
  induction m with
  | nil => simp [AMap.contains, AMap.get?] at h
  | cons p m ih =>
    obtain ⟨k, w⟩ := p
    unfold AMap.upd
    by_cases hk : k = a
    · simp only [hk, if_true]
      by_cases hb : a = b
      · simp [AMap.contains, AMap.get?, hb]
      · simpa [AMap.contains, AMap.get?, hk, hb] using h
    · simp only [hk, if_false]
      by_cases hb : k = b
      · simp [AMap.contains, AMap.get?, hb]
      · simp only [AMap.contains, AMap.get?, hb, if_false] at h ⊢
        exact ih h

theorem mapLe_upd (m : AMap SumVal) (a : Attr) (x : Int) (id : Nat) (hx : 0 ≤ x) :
    MapLe m (m.upd a (sumCell x id)) := by
  intro b
  refine ⟨contains_upd m a b _, ?_⟩
  rw [total_cells_upd]
  split <;> omega

theorem any_key_cells (m : AMap SumVal) (b : Attr) : (cells m).any (fun q => q.1 == b) = m.contains b := by
  induction m with
  | nil => simp [cells, AMap.contains, AMap.get?]
  | cons p m ih =>
    obtain ⟨k, w⟩ := p
    by_cases hk : k = b
    · simp [cells, AMap.contains, AMap.get?, hk]
    · simp only [cells, List.map_cons, List.any_cons, AMap.contains, AMap.get?, hk, if_false] at ih ⊢
      simp [hk, ih]

theorem monotoneStep_of_mapLe (m m' : AMap SumVal) (h : MapLe m m') : monotoneStep (cells m) (cells m') = true := by
  simp only [monotoneStep, List.all_eq_true, Bool.and_eq_true, decide_eq_true_eq]
  intro p hp
  have hc : m.contains p.1 = true := by
    rw [← any_key_cells]
    exact List.any_eq_true.mpr ⟨p, hp, by simp⟩
  exact ⟨by rw [any_key_cells]; exact (h p.1).1 hc, (h p.1).2⟩

theorem mapLe_run_cumulative (s : St) (htp : s.tp = .cumulative) (steps : List Step)
    (hq : ∀ x ∈ steps, x.nonneg = true) : MapLe s.agg.values (s.run steps).agg.values := by
  induction steps generalizing s with
  | nil => intro a; exact ⟨id, Int.le_refl _⟩
  | cons x l ih =>
    rw [run_cons]
    have h1 : MapLe s.agg.values (s.step x).agg.values := by
      cases x with
      | measure a v id =>
        have := hq (.measure a v id) (by simp)
        simp only [Step.nonneg, decide_eq_true_eq] at this
        exact mapLe_upd _ _ _ _ this
      | collect t =>
        simp only [St.step, htp, Sum.collect, Sum.cumulative]
        intro a; exact ⟨id, Int.le_refl _⟩
    have h2 := ih (s.step x) (by cases x <;> exact htp) (fun y hy => hq y (by simp [hy]))
    intro a
    exact ⟨fun hc => (h2 a).1 ((h1 a).1 hc), Int.le_trans (h1 a).2 (h2 a).2⟩

/-! ### periodic reader -/

theorem prun_cons (s : PSt) (x : PLabel) (l : List PLabel) : s.run (x :: l) = (s.step x).run l := rfl
theorem prun_append (s : PSt) (l₁ l₂ : List PLabel) : s.run (l₁ ++ l₂) = (s.run l₁).run l₂ := by
  simp [PSt.run, List.foldl_append]

theorem prun_induction_on (P : PSt → Prop) (Q : PLabel → Prop) (s : PSt) (h0 : P s)
    (hstep : ∀ s x, Q x → P s → P (s.step x)) (ls : List PLabel) (hq : ∀ x ∈ ls, Q x) : P (s.run ls) := by
  induction ls generalizing s with
  | nil => exact h0
  | cons x l ih =>
    exact ih _ (hstep s x (hq x (by simp)) h0) (fun y hy => hq y (by simp [hy]))

def PSt.pairs (l : List (List (Pt SumVal))) : List (List (Nat × Int)) := l.map reportPairs

/-- every report of the stream went to exactly one of: the exporter (accepted), the exporter (rejected), a direct caller -/
def SplitInv (s : PSt) : Prop :=
  ∀ a, totalAll s.st.reportsPairs a =
    totalAll (PSt.pairs s.exported) a + totalAll (PSt.pairs s.lost) a + totalAll (PSt.pairs s.direct) a

theorem reportsPairs_collect (s : St) (t : Nat) :
    (s.step (.collect t)).reportsPairs = s.reportsPairs ++ [reportPairs (s.agg.collect s.tp t).2] := by
  simp [St.step, St.reportsPairs]

theorem splitInv_collectExport (s : PSt) (t : Nat) (ok : Bool) (h : SplitInv s) : SplitInv (s.collectExport t ok) := by
  intro a
  have h := h a
  cases ok <;>
    simp only [PSt.collectExport, reportsPairs_collect, PSt.pairs, List.map_append, List.map_cons, List.map_nil,
      totalAll_append, totalAll, if_true, if_false, Bool.false_eq_true] at h ⊢ <;> omega

theorem splitInv_step (s : PSt) (x : PLabel) (h : SplitInv s) : SplitInv (s.step x) := by
  cases x with
  | measure a v id => exact h
  | tick t ok => simp only [PSt.step]; split; exact splitInv_collectExport s t ok h; exact h
  | flush t ok => simp only [PSt.step]; split; exact splitInv_collectExport s t ok h; exact h
  | userCollect t =>
    simp only [PSt.step]; split
    · exact h
    · intro a
      have h := h a
      simp only [reportsPairs_collect, PSt.pairs, List.map_append, List.map_cons, List.map_nil,
        totalAll_append, totalAll] at h ⊢
      omega
  | shutdownCall => exact h
  | loopExit => simp only [PSt.step]; split <;> exact h
  | finalCollect t ok =>
    simp only [PSt.step]; split
    · exact splitInv_collectExport s t ok h
    · exact h

/-- the stream component of a periodic-reader step is zero or one stream steps -/
theorem pstep_st (s : PSt) (x : PLabel) : (s.step x).st = s.st ∨ ∃ y, (s.step x).st = s.st.step y := by
  cases x with
  | measure a v id => exact Or.inr ⟨.measure a v id, rfl⟩
  | tick t ok =>
    simp only [PSt.step]; split
    · right; exact ⟨.collect t, by cases ok <;> simp [PSt.collectExport]⟩
    · left; rfl
  | flush t ok =>
    simp only [PSt.step]; split
    · right; exact ⟨.collect t, by cases ok <;> simp [PSt.collectExport]⟩
    · left; rfl
  | userCollect t =>
    simp only [PSt.step]; split
    · left; rfl
    · right; exact ⟨.collect t, rfl⟩
  | shutdownCall => left; rfl
  | loopExit => simp only [PSt.step]; split <;> (left; rfl)
  | finalCollect t ok =>
    simp only [PSt.step]; split
    · right; exact ⟨.collect t, by cases ok <;> simp [PSt.collectExport]⟩
    · left; rfl

/-- with an accepting exporter and no direct Collect callers nothing is lost or diverted -/
def CleanInv (s : PSt) : Prop := s.lost = [] ∧ s.direct = []

theorem cleanInv_step (s : PSt) (x : PLabel) (hx : x.exportOk = true ∧ x.isDirect = false) (h : CleanInv s) :
    CleanInv (s.step x) := by
  cases x with
  | measure a v id => exact h
  | tick t ok =>
    simp only [PLabel.exportOk] at hx
    simp only [PSt.step, PSt.collectExport, hx.1, if_true]; split <;> exact h
  | flush t ok =>
    simp only [PLabel.exportOk] at hx
    simp only [PSt.step, PSt.collectExport, hx.1, if_true]; split <;> exact h
  | userCollect t => simp [PLabel.isDirect] at hx
  | shutdownCall => exact h
  | loopExit => simp only [PSt.step]; split <;> exact h
  | finalCollect t ok =>
    simp only [PLabel.exportOk] at hx
    simp only [PSt.step, PSt.collectExport, hx.1, if_true]; split <;> exact h

/-- once the producer has been swapped nothing is exported any more and the measurement log of interest is frozen -/
theorem swapped_step (s : PSt) (x : PLabel) (h : s.swapped = true) :
    (s.step x).swapped = true ∧ ((s.step x).exported = s.exported ∨ (s.step x).loopAlive = true ∧ s.loopAlive = true) := by
  cases x with
  | measure a v id => exact ⟨h, Or.inl rfl⟩
  | tick t ok =>
    simp only [PSt.step]; split
    · rename_i ha; exact ⟨by cases ok <;> simpa [PSt.collectExport] using h, Or.inr ⟨by cases ok <;> simpa [PSt.collectExport] using ha, ha⟩⟩
    · exact ⟨h, Or.inl rfl⟩
  | flush t ok =>
    simp only [PSt.step]; split
    · rename_i ha; exact ⟨by cases ok <;> simpa [PSt.collectExport] using h, Or.inr ⟨by cases ok <;> simpa [PSt.collectExport] using ha, ha⟩⟩
    · exact ⟨h, Or.inl rfl⟩
  | userCollect t => simp [PSt.step, h]
  | shutdownCall => exact ⟨h, Or.inl rfl⟩
  | loopExit => simp only [PSt.step]; split <;> exact ⟨h, Or.inl rfl⟩
  | finalCollect t ok => simp [PSt.step, h]

/-- after the final collect (`swapped` and the loop gone) the exported payloads never change -/
theorem exported_frozen (s : PSt) (ls : List PLabel) (h : s.swapped = true) (ha : s.loopAlive = false) :
    (s.run ls).exported = s.exported := by
  induction ls generalizing s with
  | nil => rfl
  | cons x l ih =>
    rw [prun_cons]
    have hs := swapped_step s x h
    have hal : (s.step x).loopAlive = false := by
      cases x <;> simp [PSt.step, ha] <;> (try split) <;> simp_all
    rcases hs.2 with h2 | h2
    · rw [ih _ hs.1 hal, h2]
    · simp [ha] at h2

end Otel.C02
