/-
C02 driver: replays every trace line of the Go harness on the model (`Sys.run`) and evaluates the Spec
predicates on what the implementation reported.
-/
import Otel.Base.Wire
import Otel.C02.Sys
import Otel.C02.Spec
import Otel.C02.Obs
import Otel.C02.ReaderLts
import Otel.C02.ManualLts
import Otel.C02.Exemplar
open Otel Otel.Wire Otel.C02

namespace Otel.C02.Drv

def parseTemp (c : Char) : Option Temporality :=
  if c == 'd' then some .delta else if c == 'c' then some .cumulative else none

def parseInst (s : String) : Option InstCfg :=
  match s.toList with
  | [n, k] =>
    if (n == 'i' || n == 'f') && (k == 'c' || k == 'u') then some ⟨n == 'f', k == 'u'⟩ else none
  | _ => none

def parseRej (c : Char) : Option Rej :=
  match c with
  | '-' => some .none | 'u' => some .rejUpdown | 'c' => some .rejCounter | 'b' => some .rejBoth | 'D' => some .dropUpdown
  | _ => none

/-- `<m|p><d|c><d|c>[<rej>]` -/
def parseReader (s : String) : Option ReaderCfg :=
  let mk := fun (k a b : Char) (rj : Rej) => do
    let tc ← parseTemp a
    let tu ← parseTemp b
    if k == 'm' then pure (⟨false, tc, tu, rj⟩ : ReaderCfg) else if k == 'p' then pure ⟨true, tc, tu, rj⟩ else none
  match s.toList with
  | [k, a, b] => mk k a b .none
  | [k, a, b, r] => do mk k a b (← parseRej r)
  | _ => none

/-- `<inst>,<inst>…[+cb][+to]` : instruments, flag "an observable instrument with a callback exists", flag "the
periodic reader has a short timeout" (no effect on the model);
`<inst>[#k]`: `#k` = the instrument is created with the NAME of instrument `k` (same meter) -/
def parseInstN (s : String) : Option (InstCfg × Option Nat) :=
  match s.splitOn "#" with
  | [i] => do pure (← parseInst i, none)
  | [i, k] => do pure (← parseInst i, some (← parseNat k))
  | _ => none

def parseInstsN (s : String) : Option (List InstCfg × List Nat × Bool) :=
  match s.splitOn "+" with
  | is :: flags => do
    let l ← (is.splitOn ",").mapM parseInstN
    let names := (List.range l.length).map fun j => match l[j]? with | some (_, some k) => k | _ => j
    if flags.all (fun f => f == "cb" || f == "to") then pure (l.map (·.1), names, flags.contains "cb") else none
  | [] => none

def parseInsts (s : String) : Option (List InstCfg × Bool) :=
  (parseInstsN s).map fun r => (r.1, r.2.2)

/-- forced overlap scripts of the periodic reader (harness: gated external Producer / gated exporter).  ForceFlush is
served by the reader's run loop, which also performs the interval exports, so a ForceFlush issued while an interval
export (or another ForceFlush) is in flight waits for it: the scripts are the sequential histories below.
`ovltf r j a v` = tick r, Add while that export is parked between collecting and exporting, ForceFlush;
`ovlff r j a v` = ForceFlush, Add, ForceFlush; `shutslow` = Shutdown with the caller's own generous deadline against an
exporter slower than the reader's timeout: the caller's deadline has priority, the final payload is exported. -/
def expandForced (groups : List (List String)) : List (List String) :=
  groups.flatMap fun g =>
    match g with
    | ["ovltf", r, j, a, v] => [["tick", r], ["add", j, a, v], ["flush"]]
    | ["ovlff", _, j, a, v] => [["flush"], ["add", j, a, v], ["flush"]]
    -- Shutdown of reader r started while its interval export is between collect and export: Shutdown waits for the run
    -- loop (`<-r.done`; ReaderLts.lean: `shutSwap` needs `loop = exited`), so the interval export comes first
    | ["ovlts", r, j, a, v] => [["tick", r], ["add", j, a, v], ["rshut", r]]
    -- ManualReader r: a Collect that has loaded the producer is parked in a callback, Add, Shutdown (returns at once),
    -- release: the collection in flight completes and carries the Add (ManualLts.lean: load, shutdown, produce)
    | ["ovlms", r, j, a, v] => [["add", j, a, v], ["col", r], ["rshut", r]]
    | ["shutslow"] => [["shut"]]
    | _ => [g]

def parseOp : List String → Option Op
  | ["add", j, a, v] => do pure (.add (← parseNat j) (← parseNat a) (← parseInt v))
  | ["col", r] => do pure (.col (← parseNat r))
  | ["tick", r] => do pure (.tick (← parseNat r))
  | ["flush"] => some .flush
  | ["shut"] => some .shut
  | ["rshut", r] => do pure (.rshut (← parseNat r))
  | ["collectx", r, k] => do pure (.colx (← parseNat r) (← parseNat k))
  | ["collectc", r] => do pure (.colc (← parseNat r))
  | ["collectb", r] => do pure (.colb (← parseNat r))
  | ["tickx", r, k] => do pure (.tickx (← parseNat r) (← parseNat k))
  | ["flushx", k] => do pure (.flushx (← parseNat k))
  | _ => none

/-- split a token list at `|` tokens (empty groups dropped) -/
def splitBar (toks : List String) : List (List String) :=
  let (cur, acc) := toks.foldl (fun (p : List String × List (List String)) t =>
    if t == "|" then ([], if p.1.isEmpty then p.2 else p.1.reverse :: p.2) else (t :: p.1, p.2)) ([], [])
  (if cur.isEmpty then acc else cur.reverse :: acc).reverse

def parsePoint (s : String) : Option (Attr × Int) :=
  match s.splitOn "=" with
  | [a, v] => do pure (← parseNat a, ← parseInt v)
  | _ => none

def parseStream (s : String) : Option (Nat × Temporality × Bool × List (Attr × Int)) :=
  match s.splitOn ":" with
  | [hd, pts] =>
    match hd.toList.reverse with
    | m :: t :: jr => do
      let j ← parseNat (String.ofList jr.reverse)
      let tp ← parseTemp t
      let mono ← if m == 'm' then some true else if m == 'n' then some false else none
      let ps ← if pts.isEmpty then some [] else (pts.splitOn ",").mapM parsePoint
      pure (j, tp, mono, ps)
    | _ => none
  | _ => none

def parseRec (s : String) : Option Rec :=
  match s.splitOn ";" with
  | hd :: streams =>
    match hd.splitOn ":" with
    | [i, r, st] => do
      let ok ← if st == "ok" then some true else if st == "err" then some false else none
      pure { op := ← parseNat i, reader := ← parseNat r, ok := ok, streams := ← streams.mapM parseStream }
    | _ => none
  | [] => none

def renderTemp : Temporality → String
  | .delta => "d"
  | .cumulative => "c"

def renderRec (r : Rec) : String :=
  let hd := s!"{r.op}:{r.reader}:{if r.ok then "ok" else "err"}"
  let ss := r.streams.map fun (j, tp, m, pts) =>
    s!"{j}{renderTemp tp}{if m then "m" else "n"}:" ++ ",".intercalate (pts.map fun (a, v) => s!"{a}={v}")
  ";".intercalate (hd :: ss)

/-- the report of instrument `j` in a record (an absent stream is the empty report) -/
def reportOf (rc : Rec) (j : Nat) : List (Attr × Int) :=
  match rc.streams.find? (·.1 == j) with
  | some (_, _, _, pts) => pts
  | none => []

def attrsOf (ls : List (List (Attr × Int))) : List Attr := (ls.flatMap fun l => l.map (·.1)).eraseDups

/-- Spec oracle for a sequential history, evaluated on the OBSERVED records -/
def seqOracle (rs : List ReaderCfg) (is : List InstCfg) (ops : List Op) (recs : List Rec) : Bool :=
  (List.range recs.length).all fun k =>
    match recs[k]? with
    | none => false
    | some rc =>
      if !rc.ok then rc.streams.isEmpty else
      match rs[rc.reader]? with
      | none => false
      | some rcfg =>
        rc.streams.all (fun st => decide (st.1 < is.length)) &&
        (List.range is.length).all fun j =>
          match is[j]? with
          | none => false
          | some ic =>
            let tp := tempFor rcfg ic
            let report := reportOf rc j
            -- a reader that rejected (or dropped) the instrument reports nothing for it
            if absent rcfg ic then report.isEmpty && !(rc.streams.any fun st => st.1 == j) else
            let measured := (ops.take rc.op).filterMap fun op =>
              match op with
              | .add j' a v => if j' == j then some (a, v) else none
              | _ => none
            let mine := (recs.take (k + 1)).filter fun r => r.reader == rc.reader && r.ok
            let reports := mine.map (reportOf · j)
            let attrs := attrsOf (measured :: reports)
            let flagsOk := rc.streams.all fun st => st.1 != j || (st.2.1 == tp && st.2.2.1 == !ic.updown)
            let inputsNonneg := Spec.nonneg measured
            flagsOk && Spec.nodupAttrs report &&
            (match tp with
             | .delta =>
               attrs.all (fun a => Spec.deltaBalance measured reports 0 a) &&
               (!inputsNonneg || Spec.nonneg report)
             | .cumulative =>
               attrs.all (fun a => Spec.cumulativeTotal measured report a) &&
               Spec.onlyMeasured measured report &&
               (!inputsNonneg || match reports.reverse with
                 | _ :: prev :: _ => Spec.monotoneStep prev report
                 | _ => true))

def pow8 (g : Nat) : Int := ((8 : Nat) ^ g : Nat)

/-- the canonical serial schedule of a concurrent case: all additions, then one collect per manual reader, then Shutdown -/
def concOps (rs : List ReaderCfg) (is : List InstCfg) (G rep A : Nat) : List Op :=
  let adds := (List.range G).flatMap fun g => (List.range is.length).flatMap fun j =>
    (List.range A).flatMap fun a => List.replicate rep (Op.add j (a + 1) (pow8 g))
  let cols := (List.range rs.length).filterMap fun r =>
    match rs[r]? with
    | some rc => if rc.periodic then none else some (Op.col r)
    | none => none
  adds ++ cols ++ [Op.shut]

/-- total the model predicts for (reader, instrument, attribute): the value of its final collection -/
def modelTotal (final : List Rec) (r j a : Nat) : Int :=
  match final.find? (·.reader == r) with
  | some rc => Spec.total (reportOf rc j) a
  | none => 0

def concCell (rs : List ReaderCfg) (is : List InstCfg) (G rep : Nat) (recs model : List Rec)
    (measured : List (Attr × Int)) (r j a : Nat) : Bool × Bool :=
  match rs[r]?, is[j]? with
  | some rcfg, some ic =>
    let mine : List Rec := recs.filter fun rc => rc.reader == r
    let reports : List (List (Attr × Int)) := mine.map (reportOf · j)
    if absent rcfg ic then
      let nothing := reports.all (·.isEmpty) && !(mine.any fun rc => rc.streams.any fun st => st.1 == j)
      (nothing, nothing) else
    let finals : List (List (Attr × Int)) := (mine.filter fun rc => rc.op == 1000 + r).map (reportOf · j)
    match tempFor rcfg ic with
    | .delta =>
      let present := reports.filter fun rp => rp.any fun p => p.1 == a
      (Spec.totalAll reports a == modelTotal model r j a,
       Spec.deltaBalance measured reports 0 a &&
         Spec.digitsPartition 8 G rep (present.map (Spec.total · a)) && reports.all Spec.nodupAttrs)
    | .cumulative =>
      let fin : List (Attr × Int) := finals.getLast?.getD []
      let collectors : List Nat := (mine.map fun rc => rc.op).eraseDups
      (Spec.total fin a == modelTotal model r j a,
       Spec.cumulativeTotal measured fin a && reports.all Spec.nodupAttrs &&
         collectors.all fun c =>
           let sq : List (List (Attr × Int)) :=
             ((mine.filter fun rc => rc.op == c).map (reportOf · j)).filter fun rp => rp.any fun p => p.1 == a
           Spec.digitsMonotone 8 G ((sq ++ [fin]).map (Spec.total · a)))
  | _, _ => (false, false)

def concCheck (rs : List ReaderCfg) (is : List InstCfg) (G rep A : Nat) (recs : List Rec) : Bool × Bool :=
  let model := (Sys.run rs is (concOps rs is G rep A)).recs
  let measured : List (Attr × Int) := (List.range G).flatMap fun g =>
    (List.range A).flatMap fun a => List.replicate rep (a + 1, pow8 g)
  let cells : List (Nat × Nat × Nat) := (List.range rs.length).flatMap fun r => (List.range is.length).flatMap fun j =>
    (List.range A).map fun a => (r, j, a + 1)
  let res : List (Bool × Bool) := cells.map fun c => concCell rs is G rep recs model measured c.1 c.2.1 c.2.2
  let flags := recs.all fun rc => rc.ok && rc.streams.all fun st =>
    match rs[rc.reader]?, is[st.1]? with
    | some rcfg, some ic => st.2.1 == tempFor rcfg ic && st.2.2.1 == !ic.updown &&
        st.2.2.2.all (fun p => decide (1 ≤ p.1 ∧ p.1 ≤ A))
    | _, _ => false
  (res.all (·.1) && flags, res.all (·.2) && flags)

/-! ### `obs` lines: observable instruments, overlapping collections -/

def parseOInst (s : String) : Option OInst :=
  match s.toList with
  | [n, k] =>
    if n != 'i' && n != 'f' then none
    else if k == 'C' then some ⟨n == 'f', .counter⟩
    else if k == 'U' then some ⟨n == 'f', .updown⟩
    else if k == 'G' then some ⟨n == 'f', .gauge⟩
    else none
  | _ => none

def parseOOp : List String → Option OOp
  | ["set", j, a, v] => do pure (.set (← parseNat j) (← parseNat a) (← parseInt v))
  | ["unset", j, a] => do pure (.unset (← parseNat j) (← parseNat a))
  | ["col", r] => do pure (.col (← parseNat r))
  | ["ovl", r1, r2, j] => do pure (.ovl (← parseNat r1) (← parseNat r2) (← parseNat j))
  | _ => none

def renderOTag : Option (Temporality × Bool) → String
  | some (tp, m) => renderTemp tp ++ (if m then "m" else "n")
  | none => "gg"

def renderORec (rc : Nat × Nat × List OStream) : String :=
  let ss := rc.2.2.map fun (j, tag, pts) =>
    s!"{j}{renderOTag tag}:" ++ ",".intercalate (pts.map fun (a, v) => s!"{a}={v}")
  ";".intercalate (s!"{rc.1}:{rc.2.1}:ok" :: ss)

/-- observed record: stamp, reader, ok, streams (instrument, tag string, points) -/
structure ObsRec where
  op : Nat
  reader : Nat
  ok : Bool
  streams : List (Nat × String × List (Attr × Int))

def parseObsStream (s : String) : Option (Nat × String × List (Attr × Int)) :=
  match s.splitOn ":" with
  | [hd, pts] =>
    match hd.toList.reverse with
    | m :: t :: jr => do
      let j ← parseNat (String.ofList jr.reverse)
      let ps ← if pts.isEmpty then some [] else (pts.splitOn ",").mapM parsePoint
      pure (j, String.ofList [t, m], ps)
    | _ => none
  | _ => none

def parseObsRec (s : String) : Option ObsRec :=
  match s.splitOn ";" with
  | hd :: streams =>
    match hd.splitOn ":" with
    | [i, r, st] => do
      let ok ← if st == "ok" then some true else if st == "err" then some false else none
      pure { op := ← parseNat i, reader := ← parseNat r, ok := ok, streams := ← streams.mapM parseObsStream }
    | _ => none
  | [] => none

def tableAt (ops : List OOp) (i : Nat) : Table :=
  (ops.take i).foldl (fun tb op =>
    match op with
    | .set j a v => (tb.filter fun o => !(o.1 == j && o.2.1 == a)) ++ [(j, a, v)]
    | .unset j a => tb.filter fun o => !(o.1 == j && o.2.1 == a)
    | _ => tb) []

/-- the oracle for observable instruments: every collection of reader X reports exactly what X's callbacks observed
during it — for every instrument, with X's own temporality (delta: minus what X itself observed in its preceding
collection) — whatever the other readers did in the meantime -/
def obsOracle (rs : List (Temporality × Temporality)) (is : List OInst) (ops : List OOp) (recs : List ObsRec)
    (off : List Bool := []) : Bool :=
  (List.range recs.length).all fun k =>
    match recs[k]? with
    | none => false
    | some rc =>
      rc.ok &&
      match rs[rc.reader]? with
      | none => false
      | some rcfg =>
        let table := tableAt ops rc.op
        let prevTable := match ((recs.take k).filter fun r => r.reader == rc.reader).getLast? with
          | some p => tableAt ops p.op
          | none => []
        rc.streams.all (fun st => decide (st.1 < is.length)) &&
        -- a reader whose selector rejects / drops the observable kinds reports nothing; every other reader everything
        if off.getD rc.reader false then rc.streams.isEmpty else
        (List.range is.length).all fun j =>
          match is[j]? with
          | none => false
          | some ic =>
            let stream := rc.streams.find? (·.1 == j)
            let report := match stream with | some st => st.2.2 | none => []
            let observed := Spec.observedOf table j
            let tp := match ic.kind with | .updown => rcfg.2 | _ => rcfg.1
            let tagOk := match stream with
              | none => true
              | some st => st.2.1 == (match ic.kind with
                  | .gauge => "gg"
                  | .counter => renderTemp tp ++ "m"
                  | .updown => renderTemp tp ++ "n")
            tagOk &&
            (match ic.kind, tp with
             | .gauge, _ => Spec.obsExact observed report
             | _, .cumulative => Spec.obsExact observed report
             | _, .delta => Spec.obsDelta (Spec.observedOf prevTable j) observed report)

def tagIf (b : Bool) (t : String) : List String := if b then [t] else []

/-! ### `ex` lines: the exemplar reservoir hand-off (Exemplar.lean) -/

def parseEStep (i : Nat) : List String → Option EStep
  | ["add", a, v, s] => do pure (.measure (← parseNat a) (← parseInt v) (s == "1") (i + 1))
  | ["col"] => some (.collect (i + 1))
  | _ => none

def parseFilt (s : String) : Option Filt :=
  if s == "on" then some .alwaysOn else if s == "off" then some .alwaysOff
  else if s == "tb" || s == "df" then some .traceBased else none

/-- `K` = the harness' keep-all reservoir, `F<k>` = FixedSizeReservoir(k) -/
def parseRes (s : String) : Option (Option Nat) :=
  if s == "K" then some none
  else match s.toList with
    | 'F' :: r => (parseNat (String.ofList r)).map some
    | _ => none

def renderEx (e : Ex) : String := s!"{e.v}@{e.tag}"

def renderEPts (pts : List (Attr × EVal)) : String :=
  if pts.isEmpty then "-" else
  ",".intercalate (pts.map fun p =>
    s!"{p.1}={p.2.n}/" ++ (if p.2.exs.isEmpty then "-" else ".".intercalate (p.2.exs.map renderEx)))

def parseEx (s : String) : Option Ex :=
  match s.splitOn "@" with
  | [v, t] => do pure ⟨← parseInt v, ← parseNat t⟩
  | _ => none

def parseEPts (s : String) : Option (List (Attr × EVal)) :=
  if s == "-" then some [] else
  (s.splitOn ",").mapM fun q =>
    match q.splitOn "=" with
    | [a, r] =>
      match r.splitOn "/" with
      | [v, es] => do
        let exs ← if es == "-" then some [] else (es.splitOn ".").mapM parseEx
        pure (← parseNat a, (⟨← parseInt v, exs⟩ : EVal))
      | _ => none
    | _ => none

/-- reference semantics straight from the history (no aggregator): per collection, the measurements since the previous
collection (all of them / those the filter let through) and all measurements so far -/
def exOracle (tp : Temporality) (f : Filt) (k : Option Nat) (steps : List EStep) (recs : List (List (Attr × EVal))) : Bool :=
  let acc := steps.foldl (fun (st : List (Nat × Int) × List (Nat × Int) × List (Attr × Ex) × List (Attr × EVal) × List (List (Attr × EVal)) × Bool) x =>
    let (all, since, passed, prev, rest, ok) := st
    match x with
    | .measure a v sampled tag =>
      (all ++ [(a, v)], since ++ [(a, v)], if f.pass sampled then passed ++ [(a, ⟨v, tag⟩)] else passed, prev, rest, ok)
    | .collect _ =>
      match rest with
      | [] => (all, [], [], [], [], false)
      | pts :: rest' =>
        let base := if tp == .delta then since else all
        let vals := pts.map fun p => (p.1, p.2.n)
        let good := Spec.exemplarsExact k (tp == .cumulative) prev passed pts && Spec.nodupAttrs vals &&
          Spec.onlyMeasured base vals &&
          base.all (fun m => vals.any (·.1 == m.1)) && vals.all (fun p => p.2 == Spec.total base p.1)
        (all, [], [], pts, rest', ok && good)) ([], [], [], [], recs, true)
  acc.2.2.2.2.2 && acc.2.2.2.2.1.isEmpty

def stepLine (_ : Unit) (toks : List String) : Unit × Option Verdict :=
  let (inp, obs) := splitObs toks
  match inp with
  | "seq" :: _ :: rstr :: istr :: rest =>
    let r : Option Verdict := do
      let rs ← (rstr.splitOn ",").mapM parseReader
      let (is, names, hasCb) ← parseInstsN istr
      let groups := splitBar rest
      let rawOps ← (expandForced groups).mapM parseOp
      -- instrument objects created again with the same identity share the owner's stream (Sys.lean, `ownerOf`)
      let ops := rawOps.map (Op.resolve is names)
      let model := (Sys.run rs is ops hasCb).recs
      let mstr := model.map renderRec
      match obs.mapM parseRec with
      | none => pure { agree := false, spec := "FAIL", nontrivial := false, branches := "unparsed-observation", model := " ".intercalate mstr }
      | some recs =>
        -- every collection the history performs returns its data exactly once, in order: the (stamp, reader, status)
        -- sequence of the observed records is the one the history determines
        let keysOk := recs.map (fun rc => (rc.op, rc.reader, rc.ok)) == model.map (fun rc => (rc.op, rc.reader, rc.ok))
        let spec := seqOracle rs is ops recs && keysOk
        let hasDelta := model.any fun rc => rc.streams.any fun st => st.2.1 == .delta
        let hasCum := model.any fun rc => rc.streams.any fun st => st.2.1 == .cumulative
        let periodicRec := model.any fun rc => match rs[rc.reader]? with | some c => c.periodic | none => false
        let errRec := model.any fun rc => !rc.ok
        let shut := ops.any fun op => match op with | .shut => true | .rshut _ => true | _ => false
        let flush := ops.any fun op => match op with | .flush => true | _ => false
        let multi := model.any fun rc => rc.streams.any fun st => st.2.2.2.length > 1
        let midCancel := ops.any fun op => match op with | .colx _ _ => true | .tickx _ _ => true | .flushx _ => true | _ => false
        let preCancel := ops.any fun op => match op with | .colc _ => true | .colb _ => true | _ => false
        let rejecting := rs.any fun rc => is.any fun ic => absent rc ic
        let tags := tagIf hasDelta "delta" ++ tagIf hasCum "cumulative" ++ tagIf periodicRec "periodic" ++
          tagIf (errRec && shut) "collect-after-shutdown" ++ tagIf shut "shutdown" ++ tagIf flush "flush" ++ tagIf multi "multi-attr" ++
          tagIf (rs.length > 1) "multi-reader" ++ tagIf midCancel "cancel-during-aggregation" ++
          tagIf (preCancel && hasCb && errRec) "abandoned-before-aggregation" ++ tagIf (preCancel && !hasCb) "cancelled-ctx-ignored" ++
          tagIf rejecting "absent-stream" ++
          tagIf (groups.any fun g => g.head? == some "ovltf") "flush-overlapping-interval-export" ++
          tagIf (groups.any fun g => g.head? == some "ovlts") "shutdown-overlapping-interval-export" ++
          tagIf (groups.any fun g => g.head? == some "ovlms") "manual-shutdown-with-collect-in-flight" ++
          tagIf (groups.any fun g => g.head? == some "ovlff") "overlapping-flushes" ++
          tagIf (groups.contains ["shutslow"]) "shutdown-own-deadline-slow-exporter" ++
          tagIf ((List.range is.length).any fun j => names.getD j j != j && ownerOf is names j == j) "same-name-different-stream" ++
          tagIf ((List.range is.length).any fun j => ownerOf is names j != j) "identical-recreation"
        pure { agree := mstr == obs, spec := if spec then "ok" else "FAIL",
               nontrivial := model.any (fun rc => !rc.streams.isEmpty),
               branches := if tags.isEmpty then "-" else ",".intercalate tags,
               model := " ".intercalate mstr }
    ((), r)
  | "obs" :: _ :: rstr :: istr :: rest =>
    let r : Option Verdict := do
      -- reader `m<d|c><d|c>[r|D]`: r = the reader's selector answers an incompatible aggregation for every observable
      -- kind (the constructors join the error and go on), D = AggregationDrop; `+reg` after the instruments = no
      -- creation-time callbacks, ONE RegisterCallback callback observing every instrument in index order (same steps)
      let rtoks := rstr.splitOn ","
      let off := rtoks.map fun t => t.length == 4 && (t.endsWith "r" || t.endsWith "D")
      let rcs ← rtoks.mapM fun t => parseReader (if t.length == 4 && (t.endsWith "r" || t.endsWith "D") then (t.take 3).toString else t)
      let rs := rcs.map fun rc => (rc.tc, rc.tu)
      let regMode := istr.endsWith "+reg"
      let is ← (((istr.splitOn "+").headD "").splitOn ",").mapM parseOInst
      let ops ← (splitBar rest).mapM parseOOp
      let model := (OSys.runR ((rs.zip off).map fun p => (p.1.1, p.1.2, p.2)) is ops).recs
      let mstr := model.map renderORec
      match obs.mapM parseObsRec with
      | none => pure { agree := false, spec := "FAIL", nontrivial := false, branches := "unparsed-observation", model := " ".intercalate mstr }
      | some recs =>
        let spec := obsOracle rs is ops recs off
        let overlap := ops.any fun op => match op with | .ovl r1 r2 j => r1 != r2 && j < is.length | _ => false
        let tags := ["observable"] ++ tagIf overlap "overlapping-collections" ++
          tagIf (model.any fun rc => rc.2.2.any fun st => match st.2.1 with | some (.delta, _) => true | _ => false) "delta" ++
          tagIf (model.any fun rc => rc.2.2.any fun st => match st.2.1 with | some (.cumulative, _) => true | _ => false) "cumulative" ++
          tagIf (model.any fun rc => rc.2.2.any fun st => st.2.1.isNone) "gauge" ++
          tagIf (off.any id) "reader-without-observable-streams" ++
          tagIf ((off.zip (off.drop 1)).any fun p => p.1 && !p.2) "rejecting-reader-before-normal-reader" ++
          tagIf regMode "register-callback"
        pure { agree := mstr == obs, spec := if spec then "ok" else "FAIL",
               nontrivial := overlap && model.any (fun rc => !rc.2.2.isEmpty),
               branches := ",".intercalate tags, model := " ".intercalate mstr }
    ((), r)
  | "ex" :: _ :: tps :: inst :: fs :: rs :: _ :: rest =>
    let r : Option Verdict := do
      let tp ← (tps.toList.head?).bind parseTemp
      let _ ← parseInst inst
      let f ← parseFilt fs
      let k ← parseRes rs
      let groups := splitBar rest
      let steps ← ((List.range groups.length).zip groups).mapM fun (i, g) => parseEStep i g
      let view := fun (reports : List (List (Pt EVal))) => reports.map fun pts => sortByAttr (pts.map fun p => (p.attr, p.val))
      let model := match k with
        | some k => view ((ESt.fresh tp : ESt FixRes).run (fixedSize k) f steps).reports
        | none => view ((ESt.fresh tp : ESt (List Ex)).run keepAll f steps).reports
      let mstr := model.map renderEPts
      match obs.mapM parseEPts with
      | none => pure { agree := false, spec := "FAIL", nontrivial := false, branches := "unparsed-observation", model := " ".intercalate mstr }
      | some recs =>
        let spec := exOracle tp f k steps recs
        let anyEx := model.any fun pts => pts.any fun p => !p.2.exs.isEmpty
        let tags := ["exemplars", if tp == .delta then "ex-delta" else "ex-cumulative", "filter-" ++ fs,
            if k.isSome then "fixed-size-reservoir" else "keep-all-reservoir"] ++
          tagIf (steps.any fun x => match x with | .measure _ _ s _ => !f.pass s | _ => false) "offer-filtered-out" ++
          tagIf (tp == .cumulative && model.any fun pts => pts.any fun p => p.2.exs.isEmpty) "cumulative-point-without-new-exemplars" ++
          tagIf (tp == .cumulative && k.isSome && (model.zip (model.drop 1)).any fun (p, q) =>
            q.any fun y => !y.2.exs.isEmpty && p.any fun x => x.1 == y.1 && x.2.exs.any fun e => y.2.exs.contains e) "fixed-size-persisting-exemplars"
        pure { agree := mstr == obs, spec := if spec then "ok" else "FAIL",
               nontrivial := anyEx && model.length > 2,
               branches := ",".intercalate tags, model := " ".intercalate mstr }
    ((), r)
  | ["conc", _, rstr, istr, g, rep, a, _] =>
    let r : Option Verdict := do
      let rs ← (rstr.splitOn ",").mapM parseReader
      let (is, _) ← parseInsts istr
      let G ← parseNat g
      let rep ← parseNat rep
      let A ← parseNat a
      -- `X:` tokens: the ghost counters of the fine-grained reader LTS read off the recording exporter after Shutdown
      let xtoks := obs.filter (·.startsWith "X:")
      let obs := obs.filter fun o => !o.startsWith "X:"
      let xok := xtoks.all fun x =>
        match x.splitOn ":" with
        | [_, r, mx, late, b, e, after] =>
          (match parseNat r, parseNat mx, parseNat late, parseNat b, parseNat e with
           | some r, some mx, some late, some b, some e =>
             (match rs[r]? with | some rc => rc.periodic | none => false) && Spec.readerObsOK mx late b e (after == "err")
           | _, _, _, _, _ => false)
        | _ => false
      let xok := xok && xtoks.length == (rs.filter (·.periodic)).length
      -- `M:` tokens: a ManualReader after Shutdown (ManualLts.lean): late Collect refused and empty, second Shutdown refused
      let mtoks := obs.filter (·.startsWith "M:")
      let obs := obs.filter fun o => !o.startsWith "M:"
      let mok := mtoks.all fun x =>
        match x.splitOn ":" with
        | [_, r, c, n, sd] =>
          (match parseNat r, parseNat n with
           | some r, some n => (match rs[r]? with | some rc => !rc.periodic | none => false) &&
               Spec.manualObsOK (c == "err") (n == 0) (sd == "err")
           | _, _ => false)
        | _ => false
      let xok := xok && mok && mtoks.length == (rs.filter (!·.periodic)).length
      match obs.mapM parseRec with
      | none => pure { agree := false, spec := "FAIL", nontrivial := false, branches := "unparsed-observation", model := "-" }
      | some recs =>
        let (agree, spec) := concCheck rs is G rep A recs
        let spec := spec && xok
        let nrec := recs.length
        let tags := ["conc"] ++ tagIf (rs.any (·.periodic)) "periodic" ++ tagIf (nrec > 2 * rs.length) "racing-collections" ++
          tagIf (!xtoks.isEmpty) "reader-lts-counters" ++
          tagIf (rs.any fun rc => is.any fun ic => absent rc ic) "absent-stream"
        pure { agree := agree, spec := if spec then "ok" else "FAIL", nontrivial := nrec > rs.length,
               branches := ",".intercalate tags, model := s!"records={nrec}" }
    ((), r)
  | _ => ((), none)

end Otel.C02.Drv

def main : IO Unit := Wire.run () Otel.C02.Drv.stepLine
