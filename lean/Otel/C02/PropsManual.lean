/-
C02 — theorems about the ManualReader LTS (ManualLts.lean) and about the deadline precedence of the PeriodicReader.
-/
import Otel.C02.ManualLts
import Otel.C02.Lemmas
namespace Otel.C02
open Spec

private theorem mrun_induction (P : MSt → Prop) (s : MSt) (h0 : P s) (hstep : ∀ s x, P s → P (s.step x))
    (ls : List MLabel) : P (s.run ls) := by
  induction ls generalizing s with
  | nil => exact h0
  | cons x l ih => exact ih _ (hstep s x h0)

theorem mrun_append (s : MSt) (l₁ l₂ : List MLabel) : s.run (l₁ ++ l₂) = (s.run l₁).run l₂ := by
  simp [MSt.run, List.foldl_append]

/-- the stream component of a ManualReader step is zero or one stream steps, and the delivery log follows the reports -/
private theorem mstep_inv (s : MSt) (x : MLabel) (h : s.st.reports = s.delivered.map (·.2)) :
    (s.step x).st.reports = (s.step x).delivered.map (·.2) ∧
    ((s.step x).st = s.st ∨ ∃ y, (s.step x).st = s.st.step y) := by
  cases x with
  | measure a v id => exact ⟨by simpa [MSt.step, St.step] using h, Or.inr ⟨.measure a v id, rfl⟩⟩
  | load c => simp only [MSt.step]; split <;> exact ⟨h, Or.inl rfl⟩
  | produce c t =>
    simp only [MSt.step]; split
    · exact ⟨by simp [St.step, h], Or.inr ⟨.collect t, rfl⟩⟩
    · exact ⟨h, Or.inl rfl⟩
    · exact ⟨h, Or.inl rfl⟩
  | shutdown => simp only [MSt.step]; split <;> exact ⟨h, Or.inl rfl⟩

/-- **Every collection goes to exactly one caller.**  For every interleaving of any number of concurrent `Collect`
callers, `Shutdown` calls and measurements: the reports taken out of the aggregator are, one for one and in order, the
payloads written into the callers' own ResourceMetrics (each tagged with the ONE caller that got it). -/
theorem manual_each_report_to_one_caller (tp : Temporality) (n : Nat) (ls : List MLabel) :
    ((MSt.fresh tp n).run ls).st.reports = ((MSt.fresh tp n).run ls).delivered.map (·.2) :=
  mrun_induction (fun s => s.st.reports = s.delivered.map (·.2)) _ rfl (fun s x h => (mstep_inv s x h).1) ls

/-- **Conservation through concurrent Collects** (delta reader): what all callers together received plus what is still
pending is what was measured — whatever the interleaving, whoever called Shutdown in between. -/
theorem manual_delta_conservation (n : Nat) (ls : List MLabel) (a : Attr) :
    let s := (MSt.fresh .delta n).run ls
    deltaBalance s.st.measuredPairs (s.delivered.map fun d => reportPairs d.2) (s.st.pending a) a = true := by
  intro s
  have h : (DeltaInv s.st ∧ s.st.tp = .delta) ∧ s.st.reports = s.delivered.map (·.2) := by
    apply mrun_induction (fun s => (DeltaInv s.st ∧ s.st.tp = .delta) ∧ s.st.reports = s.delivered.map (·.2))
    · exact ⟨⟨fun a => by simp [MSt.fresh, St.fresh, St.reportsPairs, St.pending, St.measuredPairs, totalAll, total, cells], rfl⟩, rfl⟩
    · intro s x ⟨⟨h1, h2⟩, h3⟩
      have hs := mstep_inv s x h3
      refine ⟨?_, hs.1⟩
      rcases hs.2 with h | ⟨y, h⟩
      · rw [h]; exact ⟨h1, h2⟩
      · rw [h]; exact ⟨deltaInv_step _ y h2 h1, by cases y <;> exact h2⟩
  have hd := h.1.1 a
  simp only [deltaBalance, beq_iff_eq]
  have : s.st.reportsPairs = s.delivered.map fun d => reportPairs d.2 := by
    simp [St.reportsPairs, h.2, List.map_map, Function.comp_def]
  rw [← this]; exact hd

/-- `Shutdown` is sticky -/
private theorem shut_stable (s : MSt) (x : MLabel) (h : s.shut = true) : (s.step x).shut = true := by
  cases x <;> simp only [MSt.step] <;> (try split) <;> simp_all

/-- **A Collect that starts after Shutdown is refused and takes nothing.**  Once `Shutdown` has stored the shutdown
producer, a caller that loads the producer and — after any steps of the OTHER callers — produces gets
`ErrReaderShutdown`; that step changes neither the aggregator nor the delivery log. -/
theorem manual_late_collect_refused (s : MSt) (c t : Nat) (mid : List MLabel) (hs : s.shut = true)
    (hidle : s.pcs[c]? = some .idle)
    (hmid : ∀ l ∈ mid, (∀ t', l ≠ .produce c t') ∧ l ≠ .load c) :
    let s1 := (s.step (.load c)).run mid
    (s1.step (.produce c t)).st = s1.st ∧ (s1.step (.produce c t)).delivered = s1.delivered ∧
    (s1.step (.produce c t)).refused = s1.refused ++ [c] := by
  intro s1
  have hpc : s1.pcs[c]? = some .loadedShut := by
    have h0 : (s.step (.load c)).pcs[c]? = some .loadedShut := by
      have hlt : c < s.pcs.length := by
        rcases Nat.lt_or_ge c s.pcs.length with h | h
        · exact h
        · rw [List.getElem?_eq_none h] at hidle; cases hidle
      simp only [MSt.step, hidle, hs, if_true, List.getElem?_set_self hlt]
    have key : ∀ (mid : List MLabel) (u : MSt), u.pcs[c]? = some .loadedShut →
        (∀ l ∈ mid, (∀ t', l ≠ .produce c t') ∧ l ≠ .load c) → (u.run mid).pcs[c]? = some .loadedShut := by
      intro mid
      induction mid with
      | nil => intro u h _; exact h
      | cons x l ih =>
        intro u h hm
        apply ih _ _ (fun y hy => hm y (List.mem_cons_of_mem _ hy))
        have hx := hm x (List.mem_cons_self ..)
        cases x with
        | measure a v id => exact h
        | load c' =>
          have hne : c' ≠ c := fun e => hx.2 (by rw [e])
          simp only [MSt.step]; split
          · rw [List.getElem?_set_ne hne]; exact h
          · exact h
        | produce c' t' =>
          have hne : c' ≠ c := fun e => hx.1 t' (by rw [e])
          simp only [MSt.step]; split
          · simp only; rw [List.getElem?_set_ne hne]; exact h
          · simp only; rw [List.getElem?_set_ne hne]; exact h
          · exact h
        | shutdown => simp only [MSt.step]; split <;> exact h
    exact key mid _ h0 hmid
  simp [MSt.step, hpc]

/-- **A Collect in flight at Shutdown still collects.**  A caller that loaded the registered producer delivers the
aggregator's content to its own ResourceMetrics whatever happened since — in particular after `Shutdown` returned (the
ManualReader does not wait for collections in flight, unlike the PeriodicReader's `<-r.done`). -/
theorem manual_inflight_collect_completes (s : MSt) (c t : Nat) (h : s.pcs[c]? = some .loadedReal) :
    (s.step (.produce c t)).delivered = s.delivered ++ [(c, (s.st.agg.collect s.st.tp t).2)] ∧
    (s.step (.produce c t)).st = s.st.step (.collect t) := by
  simp [MSt.step, h]

private theorem step_shut_fields (s : MSt) (x : MLabel) (hx : x ≠ .shutdown) :
    (s.step x).shut = s.shut ∧ (s.step x).shutResults = s.shutResults := by
  cases x with
  | measure a v id => exact ⟨rfl, rfl⟩
  | load c => simp only [MSt.step]; split <;> exact ⟨rfl, rfl⟩
  | produce c t => simp only [MSt.step]; split <;> exact ⟨rfl, rfl⟩
  | shutdown => exact absurd rfl hx

/-- **Exactly one Shutdown call returns nil.**  After any label sequence at most one of the Shutdown calls made so far
returned nil, exactly one iff the reader is shut down; all others returned ErrReaderShutdown. -/
theorem manual_shutdown_once (tp : Temporality) (n : Nat) (ls : List MLabel) :
    let s := (MSt.fresh tp n).run ls
    s.shutResults.count true = (if s.shut then 1 else 0) := by
  apply mrun_induction (fun s => s.shutResults.count true = (if s.shut then 1 else 0))
  · simp [MSt.fresh]
  · intro s x h
    by_cases hx : x = .shutdown
    · subst hx
      by_cases hs : s.shut = true
      · simp [MSt.step, hs, List.count_append] at h ⊢; exact h
      · simp [MSt.step, hs, List.count_append] at h ⊢; exact h
    · obtain ⟨h1, h2⟩ := step_shut_fields s x hx
      rw [h1, h2]; exact h

/-! ### deadline precedence (PeriodicReader.ForceFlush / Shutdown vs. interval exports) -/

/-- **The caller's deadline has priority.**  With a caller deadline the context of Shutdown's / ForceFlush's collect and
export ends exactly then — earlier OR later than the reader's own timeout would; the reader's timeout applies only when
the caller set no deadline. -/
theorem caller_deadline_has_priority (d now timeout : Nat) :
    effDeadline (some d) now timeout = d ∧ effDeadline none now timeout = now + timeout := ⟨rfl, rfl⟩

/-- … so an exporter slower than the reader's timeout still gets its final payload accepted when the caller's own deadline
is generous enough (the forced `shutslow` script: reader timeout 40 ms, exporter 100 ms, caller 60 s), while the same
export under the reader's timeout alone (no caller deadline; every interval export) is abandoned. -/
theorem slow_exporter_needs_caller_deadline (d now timeout dur : Nat) (hslow : timeout ≤ dur) (hgen : now + dur < d) :
    exportAccepted (effDeadline (some d) now timeout) now dur = true ∧
    exportAccepted (effDeadline none now timeout) now dur = false := by
  refine ⟨?_, ?_⟩
  · exact decide_eq_true hgen
  · exact decide_eq_false (by show ¬ _ < effDeadline _ _ _; simp only [effDeadline]; omega)

/-- … and a caller deadline SHORTER than the reader's timeout also wins: the export is abandoned although the reader would
have waited -/
theorem short_caller_deadline_wins (d now timeout dur : Nat) (hd : d ≤ now + dur) (hfast : dur < timeout) :
    exportAccepted (effDeadline (some d) now timeout) now dur = false ∧
    exportAccepted (effDeadline none now timeout) now dur = true := by
  refine ⟨?_, ?_⟩
  · exact decide_eq_false (by show ¬ _ < effDeadline _ _ _; simp only [effDeadline]; omega)
  · exact decide_eq_true (by show _ < effDeadline _ _ _; simp only [effDeadline]; omega)

/-! non-vacuity: two callers race, Shutdown falls between caller 0's load and its produce; caller 1 starts afterwards -/
example :
    let s := (MSt.fresh .delta 2).run [.measure 1 5 0, .load 0, .measure 1 7 1, .shutdown, .load 1, .produce 1 1,
      .produce 0 2, .shutdown, .measure 1 1 2, .load 0, .produce 0 3]
    s.shutResults = [true, false] ∧ s.refused = [1, 0] ∧ s.delivered.map (·.1) = [0] ∧
    totalAll (s.delivered.map fun d => reportPairs d.2) 1 = 12 ∧ s.st.pending 1 = 1 := by
  decide

example : exportAccepted (effDeadline (some 60000) 0 40) 0 100 = true ∧ exportAccepted (effDeadline none 0 40) 0 100 = false := by
  decide

end Otel.C02
