/-
C02 — the exemplar reservoir hand-off of the sum aggregator (core Lean only).

`valueMap.measure` (sum.go:37-52) creates ONE reservoir per new attribute-set cell (`v.res = s.newRes(attr)`), offers
every measurement to it (`v.res.Offer(ctx, value, droppedAttr)`; the `filteredExemplarReservoir` wrapper forwards the
offer only if the provider's exemplar filter accepts the measurement's context, filtered_reservoir.go:44-49), and
`sum.delta` / `sum.cumulative` hand the reservoir's content to the data point at collection
(`collectExemplars(&dPts[i].Exemplars, val.res.Collect)`, exemplar.go:17-43).  A delta collection then drops the cell —
and with it the reservoir —, a cumulative collection keeps both.

The reservoir is an arbitrary state machine (`ResImpl`): the theorems in PropsExemplar.lean hold for EVERY
implementation (the default `FixedSizeReservoir`, a user-supplied one through `Stream.ExemplarReservoirProviderSelector`).
The driver instantiates it with the two reservoirs the harness uses.
-/
import Otel.C02.Lts
namespace Otel.C02

/-- an exemplar as compared by the harness: the measured value and the trace id of the measurement's context (the harness
encodes the index of the `Add` in it) -/
structure Ex where
  v : Int
  tag : Nat
deriving Repr, DecidableEq

/-- an exemplar reservoir as a state machine -/
structure ResImpl (R : Type) where
  /-- `ReservoirProvider(attrs)` -/
  new : Attr → R
  /-- `Reservoir.Offer` -/
  offer : R → Ex → R
  /-- `Reservoir.Collect(dest)`: new state and what it wrote into `dest` -/
  collect : R → R × List Ex

/-- the exemplar filter of the provider (exemplar/filter.go), applied to the measurement's context -/
inductive Filt where
  | alwaysOn | alwaysOff | traceBased
deriving Repr, BEq, DecidableEq

/-- `filter(ctx)`: `sampled` = the context carries a sampled span context -/
def Filt.pass : Filt → Bool → Bool
  | .alwaysOn, _ => true
  | .alwaysOff, _ => false
  | .traceBased, sampled => sampled

structure ECell (R : Type) where
  n : Int
  res : R

structure ESum (R : Type) where
  limit : Nat := 0
  monotonic : Bool := false
  values : AMap (ECell R) := []
  start : Nat := 0

/-- a reported point: value and exemplars -/
structure EVal where
  n : Int
  exs : List Ex
deriving Repr, DecidableEq

variable {R : Type}

/-- the cell update of `valueMap.measure`: `if !ok { v.res = s.newRes(attr) }; v.n += value; v.res.Offer(…)` with the
filter wrapper around `Offer` -/
def ecell (impl : ResImpl R) (pass : Bool) (attr : Attr) (x : Int) (e : Ex) (o : Option (ECell R)) : ECell R :=
  let c := o.getD { n := 0, res := impl.new attr }
  { n := c.n + x, res := if pass then impl.offer c.res e else c.res }

def ESum.measure (impl : ResImpl R) (f : Filt) (s : ESum R) (a : Attr) (x : Int) (sampled : Bool) (tag : Nat) : ESum R :=
  let attr := limitAttr s.limit s.values a
  { s with values := s.values.upd attr (ecell impl (f.pass sampled) attr x ⟨x, tag⟩) }

/-- `sum.delta`: copy value and exemplars, clear (the reservoirs go with the cells), move start -/
def ESum.delta (impl : ResImpl R) (s : ESum R) (t : Nat) : ESum R × List (Pt EVal) :=
  ({ s with values := [], start := t },
   mkPoints s.values s.start t fun _ c => ⟨c.n, (impl.collect c.res).2⟩)

/-- `sum.cumulative`: copy value and exemplars; the cells stay, each reservoir in the state its `Collect` left -/
def ESum.cumulative (impl : ResImpl R) (s : ESum R) (t : Nat) : ESum R × List (Pt EVal) :=
  ({ s with values := s.values.map fun kv => (kv.1, { kv.2 with res := (impl.collect kv.2.res).1 }) },
   mkPoints s.values s.start t fun _ c => ⟨c.n, (impl.collect c.res).2⟩)

def ESum.collect (impl : ResImpl R) (s : ESum R) (tp : Temporality) (t : Nat) : ESum R × List (Pt EVal) :=
  match tp with
  | .delta => s.delta impl t
  | .cumulative => s.cumulative impl t

/-! ### one stream as a transition system -/

inductive EStep where
  | measure (a : Attr) (x : Int) (sampled : Bool) (tag : Nat)
  | collect (t : Nat)
deriving Repr, DecidableEq

structure ESt (R : Type) where
  agg : ESum R
  tp : Temporality
  reports : List (List (Pt EVal)) := []
  /-- ghost: (attribute set the limiter chose, exemplar) of every measurement the filter let through, oldest first -/
  offered : List (Attr × Ex) := []
  /-- ghost: the part of `offered` that came after the latest collection -/
  since : List (Attr × Ex) := []

def ESt.step (impl : ResImpl R) (f : Filt) (s : ESt R) : EStep → ESt R
  | .measure a x sampled tag =>
    { s with agg := s.agg.measure impl f a x sampled tag
             offered := if f.pass sampled then s.offered ++ [(limitAttr s.agg.limit s.agg.values a, ⟨x, tag⟩)] else s.offered
             since := if f.pass sampled then s.since ++ [(limitAttr s.agg.limit s.agg.values a, ⟨x, tag⟩)] else s.since }
  | .collect t =>
    { s with agg := (s.agg.collect impl s.tp t).1, reports := s.reports ++ [(s.agg.collect impl s.tp t).2], since := [] }

def ESt.run (impl : ResImpl R) (f : Filt) (s : ESt R) (steps : List EStep) : ESt R := steps.foldl (ESt.step impl f) s

/-- ghost views: the exemplars handed out so far / still held by the reservoirs, with their attribute set -/
def reportedEx (reports : List (List (Pt EVal))) : List (Attr × Ex) :=
  reports.flatMap fun pts => pts.flatMap fun p => p.val.exs.map fun e => (p.attr, e)
def heldEx (m : AMap (ECell (List Ex))) : List (Attr × Ex) := m.flatMap fun kv => kv.2.res.map fun e => (kv.1, e)

def ESt.fresh (tp : Temporality) (limit : Nat := 0) (mono : Bool := false) (start : Nat := 0) : ESt R :=
  { agg := { limit := limit, monotonic := mono, start := start }, tp := tp }

/-- the exemplar-free view of a step: the step of the plain sum model (Lts.lean) -/
def EStep.erase : EStep → Step
  | .measure a x _ tag => .measure a x tag
  | .collect t => .collect t

/-- (attribute, value) of the points of a report -/
def ereportPairs (pts : List (Pt EVal)) : List (Nat × Int) := pts.map fun p => (p.attr, p.val.n)
def ecells (m : AMap (ECell R)) : List (Nat × Int) := m.map fun kv => (kv.1, kv.2.n)

/-! ### the two reservoirs of the harness -/

/-- keeps everything it is offered, hands it over at `Collect` and starts again (the harness' own reservoir) -/
def keepAll : ResImpl (List Ex) :=
  { new := fun _ => [], offer := fun r e => r ++ [e], collect := fun r => ([], r) }

/-- state of an `exemplar.FixedSizeReservoir`: the slots of its storage and the number of offers seen since `reset` -/
structure FixRes where
  store : List (Option Ex)
  count : Nat
deriving Repr, DecidableEq

/-- `exemplar.FixedSizeReservoir` of size `k` (fixed_size_reservoir.go) while no more than `k` measurements are offered
between two collections: offer number `count < k` is stored in slot `count`; `Collect` hands over every valid slot in slot
order and calls `reset`, which sets `count = 0` but KEEPS the stored exemplars ("this will persist any old exemplars as
long as no new measurements are offered") — a cumulative stream therefore reports them again until new offers overwrite
the slots from slot 0 on.  (Offers beyond `k` replace a random slot: not modelled, the harness never offers more.) -/
def fixedSize (k : Nat) : ResImpl FixRes :=
  { new := fun _ => ⟨List.replicate k none, 0⟩
    offer := fun r e => if r.count < k then ⟨r.store.set r.count (some e), r.count + 1⟩ else r
    collect := fun r => (⟨r.store, 0⟩, r.store.filterMap id) }

/-- every reservoir state hands everything over and is empty afterwards (true of both harness reservoirs) -/
def ResImpl.handsOver (impl : ResImpl (List Ex)) : Prop :=
  (∀ a, impl.new a = []) ∧ (∀ r, impl.collect r = ([], r))

/-! ### specification of the hand-off (reference semantics from the history, independent of the aggregator) -/
namespace Spec

/-- what a collection must carry for attribute `a`: the exemplars let through for `a` since the previous collection -/
def pendingFor (since : List (Attr × Ex)) (a : Attr) : List Ex := (since.filter (·.1 == a)).map (·.2)

/-- the exemplars a point must carry: `pend` = those let through for its attribute set since the previous collection,
`prev` = what the point of the same set carried in the previous collection.  Keep-all reservoir (`k = none`): `pend`.
FixedSizeReservoir(k): the first `k` of `pend`, in a delta stream (a new reservoir per cycle); in a cumulative stream
followed by the old exemplars they did not overwrite. -/
def expectedEx (k : Option Nat) (cumulative : Bool) (prev pend : List Ex) : List Ex :=
  match k with
  | none => pend
  | some k => if cumulative then pend.take k ++ prev.drop (pend.take k).length else pend.take k

def exsOf (pts : List (Attr × EVal)) (a : Attr) : List Ex :=
  match pts.find? (·.1 == a) with
  | some p => p.2.exs
  | none => []

/-- one collection's points against the measurements since the previous collection (`since`) and the previous
collection's points (`prev`): every point carries exactly the expected exemplars, and every attribute set with an
exemplar let through has a point -/
def exemplarsExact (k : Option Nat) (cumulative : Bool) (prev : List (Attr × EVal)) (since : List (Attr × Ex))
    (pts : List (Attr × EVal)) : Bool :=
  pts.all (fun p => p.2.exs == expectedEx k cumulative (exsOf prev p.1) (pendingFor since p.1)) &&
  since.all fun o => pts.any (·.1 == o.1)

end Spec
end Otel.C02
