/-
C02 — observable instruments and readers that cannot aggregate them (after the F48 fix of /repo, 9bc3ba8:
`meter.int64ObservableInstrument` / `float64ObservableInstrument` join a pipeline's error and go on with the remaining
readers instead of returning at the first rejecting pipeline).

A reader whose AggregationSelector rejects or drops the observable kinds is a reader with the empty aggregate-function list
(`OSys.initR`).  Whatever the schedule: it reports nothing, and every OTHER reader is exactly where it would be if that
reader were an ordinary one — "every non-rejecting reader sees every observation".
-/
import Otel.C02.Props
namespace Otel.C02

private theorem fstep_off (insts : List OInst) (table : Table) (rd : OReader) (x : FStep) (h : rd.aggs = []) :
    (rd.fstep insts table x).aggs = [] ∧
    (∀ rep ∈ (rd.fstep insts table x).reports, rep ∈ rd.reports ∨ rep.2 = []) := by
  cases x with
  | cb j => exact ⟨by simp [OReader.fstep, h], fun rep hrep => Or.inl (by simpa [OReader.fstep] using hrep)⟩
  | agg i t =>
    have hc : collectOAggs rd t insts [] 0 = ([], []) := by cases insts <;> rfl
    refine ⟨by simp only [OReader.fstep, h, hc], fun rep hrep => ?_⟩
    simp only [OReader.fstep, h, hc] at hrep
    rcases List.mem_append.1 hrep with h1 | h1
    · exact Or.inl h1
    · right; simp at h1; rw [h1]

/-- **A reader without aggregate functions reports nothing.**  After any schedule of callback / aggregation steps of any
number of readers, a reader that started with no aggregate function for the observable instruments (its selector rejected
or dropped them) still has none and every one of its collections carried no stream. -/
theorem obs_off_reader_reports_nothing (insts : List OInst) (table : Table) (rs : List OReader) (xs : List RStep) (r : Nat)
    (rd : OReader) (hr : rs[r]? = some rd) (hoff : rd.aggs = []) (hrep : rd.reports = []) :
    ∃ rd', (frun insts table rs xs)[r]? = some rd' ∧ rd'.aggs = [] ∧ ∀ rep ∈ rd'.reports, rep.2 = [] := by
  rw [obs_readers_independent, hr]
  refine ⟨_, rfl, ?_⟩
  have key : ∀ (l : List FStep) (u : OReader), u.aggs = [] → (∀ rep ∈ u.reports, rep.2 = []) →
      (l.foldl (OReader.fstep insts table) u).aggs = [] ∧
      ∀ rep ∈ (l.foldl (OReader.fstep insts table) u).reports, rep.2 = [] := by
    intro l
    induction l with
    | nil => intro u h1 h2; exact ⟨h1, h2⟩
    | cons x l ih =>
      intro u h1 h2
      have hs := fstep_off insts table u x h1
      exact ih _ hs.1 (fun rep hrep => by
        rcases hs.2 rep hrep with h | h
        · exact h2 rep h
        · exact h)
  exact key _ rd hoff (by simp [hrep])

/-- **Every other reader sees every observation.**  Replace reader `x` of the provider by ANY other reader state (in
particular: one without aggregate functions, because its selector rejects the observable kinds — before, between or after
the other readers): after any schedule every reader `r ≠ x` is in exactly the same state, reports included. -/
theorem obs_other_readers_unaffected (insts : List OInst) (table : Table) (rs : List OReader) (xs : List RStep)
    (x r : Nat) (hne : r ≠ x) (g : OReader → OReader) :
    (frun insts table (rs.modify x g) xs)[r]? = (frun insts table rs xs)[r]? := by
  rw [obs_readers_independent, obs_readers_independent, List.getElem?_modify]
  have : ¬ x = r := fun h => hne h.symm
  simp [this]

/-! non-vacuity: three readers, the middle one rejects; the forced overlap of readers 0 and 2 -/
example :
    let s := OSys.runR [(.delta, .delta, false), (.cumulative, .cumulative, true), (.cumulative, .delta, false)]
      [⟨false, .counter⟩, ⟨true, .gauge⟩] [.set 0 1 5, .set 1 2 7, .col 1, .ovl 0 2 1, .set 0 1 9, .col 2, .col 0, .col 1]
    (s.recs.map fun rc => (rc.2.1, rc.2.2.length)) = [(1, 0), (2, 2), (0, 2), (2, 2), (0, 2), (1, 0)] := by
  decide

end Otel.C02
