/-
C02 — observable (asynchronous) counters, up-down counters and gauges read by several readers whose collections may
OVERLAP (core Lean only).

Every reader pipeline has its own lock, its own callbacks and its own aggregate functions: creating an observable
instrument with callbacks adds, PER PIPELINE, one callback closed over an observer that holds THAT pipeline's measure
functions (meter.go:141-168, `inst := int64Observer{measures: in}`).  So the atomic steps of a collection of reader `r`
are: `cb j` — reader `r`'s callback of instrument `j` makes its observations into reader `r`'s aggregate function of
`j` (valueMap.measure / lastValue.measure under the stream mutex); `agg` — `pipeline.produce` runs reader `r`'s compute
functions.  Collections of different readers interleave arbitrarily (different pipeline locks); the model is the
product of per-reader transition systems, and the theorems in Props.lean say that the steps of different readers are
independent (any interleaving = the sequential composition).
-/
import Otel.C02.Model
import Otel.C02.Sys
namespace Otel.C02

inductive OKind where
  | counter | updown | gauge
deriving Repr, BEq, DecidableEq

structure OInst where
  float : Bool
  kind : OKind
deriving Repr

/-- the aggregate function of one observable instrument in one pipeline (aggregateFunc, pipeline.go:478-529) -/
inductive OAgg where
  | psum (s : PSum)
  | plv (s : LastValue)
deriving Repr

def OAgg.measure (g : OAgg) (a : Attr) (x : Int) : OAgg :=
  match g with
  | .psum s => .psum (s.measure a x)
  | .plv s => .plv (s.measure a x)

/-- one reported stream: instrument, kind tag (`some (temporality, monotonic)` for sums, `none` for gauges), points -/
abbrev OStream := Nat × Option (Temporality × Bool) × List (Attr × Int)

structure OReader where
  tc : Temporality
  tu : Temporality
  aggs : List OAgg
  /-- what every collection of this reader returned, oldest first: (stamp, streams) -/
  reports : List (Nat × List OStream) := []
deriving Repr

def OReader.tempFor (rd : OReader) (i : OInst) : Temporality :=
  match i.kind with
  | .updown => rd.tu
  | _ => rd.tc

/-- the steps of ONE reader's collection -/
inductive FStep where
  /-- the reader's callback of instrument `j` observes the current table -/
  | cb (j : Nat)
  /-- the reader's compute functions run (stamp `i`, clock reading `t`) -/
  | agg (i t : Nat)
deriving Repr, DecidableEq

/-- current observations: what instrument `j`'s callback will observe, (instrument, attribute set, value) -/
abbrev Table := List (Nat × Attr × Int)

def observeInto (table : Table) (j : Nat) (g : OAgg) : OAgg :=
  (table.filter (·.1 == j)).foldl (fun g o => g.measure o.2.1 o.2.2) g

def collectOAggs (rd : OReader) (t : Nat) : List OInst → List OAgg → Nat → List OAgg × List OStream
  | i :: is, g :: gs, j =>
    let tp := rd.tempFor i
    let r := collectOAggs rd t is gs (j + 1)
    match g with
    | .psum s =>
      let c := s.collect tp t
      (.psum c.1 :: r.1,
       if c.2.isEmpty then r.2 else (j, some (tp, s.monotonic), sortByAttr (c.2.map fun p => (p.attr, p.val))) :: r.2)
    | .plv s =>
      let c := s.pcollect tp t
      (.plv c.1 :: r.1,
       if c.2.isEmpty then r.2 else (j, none, sortByAttr (c.2.map fun p => (p.attr, p.val))) :: r.2)
  | _, gs, _ => (gs, [])

def OReader.fstep (insts : List OInst) (table : Table) (rd : OReader) : FStep → OReader
  | .cb j => { rd with aggs := rd.aggs.modify j (observeInto table j) }
  | .agg i t =>
    let c := collectOAggs rd t insts rd.aggs 0
    { rd with aggs := c.1, reports := rd.reports ++ [(i, c.2)] }

/-- a step of reader `x.1` -/
abbrev RStep := Nat × FStep

def fstepAll (insts : List OInst) (table : Table) (rs : List OReader) (x : RStep) : List OReader :=
  rs.modify x.1 fun rd => rd.fstep insts table x.2

def frun (insts : List OInst) (table : Table) (rs : List OReader) (xs : List RStep) : List OReader :=
  xs.foldl (fstepAll insts table) rs

/-- the steps of reader `r` in a schedule -/
def projR (r : Nat) (xs : List RStep) : List FStep :=
  xs.filterMap fun x => if x.1 = r then some x.2 else none

/-- one whole collection of one reader over `n` instruments -/
def colSteps (n i t : Nat) : List FStep := (List.range n).map FStep.cb ++ [.agg i t]

def tagged (r : Nat) (l : List FStep) : List RStep := l.map fun x => (r, x)

/-- sequential: reader `r2` collects, then reader `r1` -/
def seqSched (n i t r1 r2 : Nat) : List RStep :=
  tagged r2 (colSteps n i t) ++ tagged r1 (colSteps n i (t + 1))

/-- the forced overlap: reader `r1` starts, runs its callbacks `0 … j-1`, its callback `j` is parked before observing;
reader `r2` performs its whole collection; then `r1` resumes -/
def ovlSched (n i t r1 r2 j : Nat) : List RStep :=
  tagged r1 ((colSteps n i (t + 1)).take j) ++ tagged r2 (colSteps n i t) ++ tagged r1 ((colSteps n i (t + 1)).drop j)

/-! ### the provider model driven by the harness -/

structure OSys where
  insts : List OInst
  readers : List OReader
  table : Table := []
  clock : Nat := 1
  /-- records in completion order: (stamp, reader, streams) -/
  recs : List (Nat × Nat × List OStream) := []
deriving Repr

inductive OOp where
  | set (j : Nat) (a : Attr) (v : Int)
  | unset (j : Nat) (a : Attr)
  | col (r : Nat)
  /-- overlapped collections of readers `r1` and `r2`, `r1` parked in the callback of instrument `j` -/
  | ovl (r1 r2 j : Nat)
deriving Repr

def OSys.init (rs : List (Temporality × Temporality)) (is : List OInst) : OSys :=
  { insts := is
    readers := rs.map fun r =>
      { tc := r.1, tu := r.2
        aggs := is.map fun i =>
          match i.kind with
          | .counter => .psum { monotonic := true }
          | .updown => .psum { monotonic := false }
          | .gauge => .plv {} } }

/-- the same provider with readers that have NO aggregate function for any observable instrument: `off r` = reader `r`'s
AggregationSelector answers an aggregation `isAggregatorCompatible` rejects for every observable kind (LastValue for the
sum kinds, Sum for gauges) or `AggregationDrop`.  `meter.int64ObservableInstrument` / `float64ObservableInstrument`
(meter.go:129-176) JOIN the error of such a pipeline and CONTINUE with the remaining readers (after the F48 fix: as
`resolver.Aggregators` does for synchronous instruments): the pipeline gets no measure function and no instrument-level
callback (`len(in) == 0`: `continue`), every other reader is served as usual.  A reader without aggregate functions is a
reader with the empty aggregator list: its callbacks record nothing and its collections report nothing. -/
def OSys.initR (rs : List (Temporality × Temporality × Bool)) (is : List OInst) : OSys :=
  let s := OSys.init (rs.map fun r => (r.1, r.2.1)) is
  { s with readers := (s.readers.zip rs).map fun p => if p.2.2.2 then { p.1 with aggs := [] } else p.1 }

/-- the record a reader produced last -/
def lastRec (rs : List OReader) (r : Nat) : List (Nat × Nat × List OStream) :=
  match rs[r]? with
  | some rd => match rd.reports.getLast? with
    | some (i, st) => [(i, r, st)]
    | none => []
  | none => []

def OSys.step (s : OSys) (i : Nat) : OOp → OSys
  | .set j a v =>
    { s with table := (s.table.filter fun o => !(o.1 == j && o.2.1 == a)) ++ [(j, a, v)] }
  | .unset j a => { s with table := s.table.filter fun o => !(o.1 == j && o.2.1 == a) }
  | .col r =>
    if r < s.readers.length then
      let rs := frun s.insts s.table s.readers (tagged r (colSteps s.insts.length i s.clock))
      { s with readers := rs, clock := s.clock + 1, recs := s.recs ++ lastRec rs r }
    else s
  | .ovl r1 r2 j =>
    if r1 < s.readers.length && r2 < s.readers.length then
      if r1 == r2 || j ≥ s.insts.length then
        let rs := frun s.insts s.table s.readers (tagged r1 (colSteps s.insts.length i s.clock))
        { s with readers := rs, clock := s.clock + 1, recs := s.recs ++ lastRec rs r1 }
      else
        let rs := frun s.insts s.table s.readers (ovlSched s.insts.length i s.clock r1 r2 j)
        { s with readers := rs, clock := s.clock + 2, recs := s.recs ++ lastRec rs r2 ++ lastRec rs r1 }
    else s

def OSys.runFrom (s : OSys) (i : Nat) : List OOp → OSys
  | [] => s
  | op :: ops => (s.step i op).runFrom (i + 1) ops

def OSys.run (rs : List (Temporality × Temporality)) (is : List OInst) (ops : List OOp) : OSys :=
  (OSys.init rs is).runFrom 0 ops

def OSys.runR (rs : List (Temporality × Temporality × Bool)) (is : List OInst) (ops : List OOp) : OSys :=
  (OSys.initR rs is).runFrom 0 ops

/-! ### specification (reference semantics from the history; independent of the aggregators) -/
namespace Spec

/-- what instrument `j`'s callback observes: (attribute set, value), sorted by attribute set -/
def observedOf (table : Table) (j : Nat) : List (Attr × Int) :=
  sortByAttr ((table.filter (·.1 == j)).map (·.2))

def valueAt (l : List (Attr × Int)) (a : Attr) : Option Int := (l.find? (·.1 == a)).map (·.2)

/-- cumulative sum / gauge: exactly the observed sets with the observed values -/
def obsExact (observed report : List (Attr × Int)) : Bool := report == observed

/-- delta sum: exactly the observed sets; observed value minus the value THIS reader observed in its preceding
collection (0 if the set was not observed then) -/
def obsDelta (prevObserved observed report : List (Attr × Int)) : Bool :=
  report == observed.map fun o => (o.1, o.2 - (valueAt prevObserved o.1).getD 0)

end Spec
end Otel.C02
