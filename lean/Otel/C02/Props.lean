/-
C02 — property theorems.  "Every interleaving of any number of goroutines" = "every finite sequence of atomic
steps" (`List Step`, `List PStep`, `List PLabel`): each label is one mutex-protected body of the Go code.
The conclusions are the `Spec` predicates the driver evaluates on the implementation's observations.
-/
import Otel.C02.Lemmas
import Otel.C02.Sys
import Otel.C02.Obs
namespace Otel.C02
open Spec

/-- Clause "the values reported by a delta reader add up, over all its collections, to exactly the sum of the
measurements recorded": after ANY step sequence, for every attribute set, Σ(reported by all delta collections
so far) + pending = Σ(measured).  (Any cardinality limit; `measuredPairs` is the log of measure steps under
the attribute set the limiter chose, which is the given one when the limit is off — `sum_log_faithful`.) -/
theorem sum_delta_conservation (limit : Nat) (mono : Bool) (start : Nat) (steps : List Step) (a : Attr) :
    let s := (St.fresh .delta limit mono start).run steps
    deltaBalance s.measuredPairs s.reportsPairs (s.pending a) a = true := by
  intro s
  have h : DeltaInv s ∧ s.tp = .delta := by
    apply run_induction (fun s => DeltaInv s ∧ s.tp = .delta)
    · exact ⟨fun a => by simp [St.fresh, St.reportsPairs, St.pending, St.measuredPairs, totalAll, total, cells], rfl⟩
    · intro s x ⟨h1, h2⟩
      exact ⟨deltaInv_step s x h2 h1, by cases x <;> exact h2⟩
  simpa [deltaBalance] using h.1 a

/-- … and right after a delta collection nothing is pending: the reports alone add up to the measurements.
This is the form the oracle checks at every collection of a delta reader. -/
theorem sum_delta_conservation_at_collect (limit : Nat) (mono : Bool) (start : Nat) (steps : List Step)
    (t : Nat) (a : Attr) :
    let s := (St.fresh .delta limit mono start).run (steps ++ [.collect t])
    deltaBalance s.measuredPairs s.reportsPairs 0 a = true := by
  intro s
  have h := sum_delta_conservation limit mono start (steps ++ [.collect t]) a
  have hp : s.pending a = 0 := by
    have htp : ((St.fresh .delta limit mono start).run steps).tp = .delta := by rw [run_tp]; rfl
    show ((St.fresh .delta limit mono start).run (steps ++ [.collect t])).pending a = 0
    rw [run_append]
    exact pending_after_delta_collect _ htp t a
  simpa [s, hp] using h

/-- Clause "the latest value of a cumulative reader equals that same running total": the report of a
cumulative collection carries, for every attribute set, Σ(measured before it). -/
theorem sum_cumulative_total (limit : Nat) (mono : Bool) (start : Nat) (steps : List Step) (t : Nat) (a : Attr) :
    let s := (St.fresh .cumulative limit mono start).run steps
    let s' := s.step (.collect t)
    s'.reportsPairs.getLast? = some (cells s.agg.values) ∧
    cumulativeTotal s.measuredPairs (cells s.agg.values) a = true ∧ s'.agg = s.agg := by
  intro s s'
  have h : CumInv s ∧ s.tp = .cumulative := by
    apply run_induction (fun s => CumInv s ∧ s.tp = .cumulative)
    · exact ⟨fun a => by simp [St.fresh, St.pending, St.measuredPairs, total, cells], rfl⟩
    · intro s x ⟨h1, h2⟩
      exact ⟨cumInv_step s x h2 h1, by cases x <;> exact h2⟩
  refine ⟨?_, ?_, ?_⟩
  · simp [s', St.step, St.reportsPairs, h.2, Sum.collect, Sum.cumulative, reportPairs_mkPoints]
  · simpa [cumulativeTotal, St.pending] using h.1 a
  · simp [s', St.step, h.2, Sum.collect, Sum.cumulative]

/-- without a cardinality limit (the default) the measurement log the two theorems above speak about is
literally the list of measure steps of the sequence -/
theorem sum_log_faithful (tp : Temporality) (mono : Bool) (start : Nat) (steps : List Step) :
    ((St.fresh tp 0 mono start).run steps).measured = measureLog steps := by
  simpa [St.fresh] using measured_run_nolimit (St.fresh tp 0 mono start) steps rfl

/-- Clause "each measurement is counted in exactly one delta collection": the ghost entries (id, value) carried by
all delta reports so far, together with those still pending, are exactly the measure steps — as multisets
(no loss, no double count) … -/
theorem sum_each_measurement_once (limit : Nat) (mono : Bool) (start : Nat) (steps : List Step) (i : Nat × Int) :
    let s := (St.fresh .delta limit mono start).run steps
    (s.reportedIds ++ s.pendingIds).count i = ((measureLog steps).map fun m => (m.2.2, m.2.1)).count i := by
  intro s
  have h : IdInv s ∧ s.tp = .delta := by
    apply run_induction (fun s => IdInv s ∧ s.tp = .delta)
    · exact ⟨fun a => by simp [St.fresh, St.reportedIds, St.pendingIds, St.measuredIds, cellIds], rfl⟩
    · intro s x ⟨h1, h2⟩
      exact ⟨idInv_step s x h2 h1, by cases x <;> exact h2⟩
  have := h.1 i
  rw [this, measuredIds_run]
  simp [St.fresh, St.measuredIds]

/-- … hence, when every measurement has its own id, no measurement appears in two delta reports, nor twice in
one, nor both in a report and in the pending state. -/
theorem sum_no_double_count (limit : Nat) (mono : Bool) (start : Nat) (steps : List Step)
    (hid : ((measureLog steps).map fun m => (m.2.2, m.2.1)).Nodup) :
    let s := (St.fresh .delta limit mono start).run steps
    (s.reportedIds ++ s.pendingIds).Nodup := by
  intro s
  apply nodup_of_count_le_one
  intro i
  rw [show (s.reportedIds ++ s.pendingIds).count i = _ from sum_each_measurement_once limit mono start steps i]
  exact count_le_one_of_nodup hid i

/-- Clause "… and is seen by every registered reader": with n pipelines (any mix of temporalities) every
pipeline behaves exactly as if it ran alone on the steps addressed to it, so each of them satisfies the
theorems above independently of how the steps of the others (and the per-pipeline steps of one `Add`) are
interleaved. -/
theorem sum_every_reader_sees_all (tps : List Temporality) (steps : List PStep) (p : Nat) (hp : p < tps.length) :
    (Multi.run (tps.map fun tp => St.fresh tp) steps)[p]? = some ((St.fresh tps[p]).run (proj p steps)) := by
  rw [multi_run_getElem?]
  simp [hp]

/-- … in particular, once an `Add` has returned (its measure step has been executed on every pipeline), every
pipeline accounts for it exactly as often as it was applied to that pipeline: a delta pipeline in its reports
or its pending state, a cumulative pipeline in its running state. -/
theorem sum_add_reaches_every_reader (tps : List Temporality) (steps : List PStep) (p : Nat) (hp : p < tps.length)
    (i : Nat × Int) :
    ∃ s, (Multi.run (tps.map fun tp => St.fresh tp) steps)[p]? = some s ∧
      (if tps[p] = .delta then (s.reportedIds ++ s.pendingIds).count i else s.pendingIds.count i) =
        ((measureLog (proj p steps)).map fun m => (m.2.2, m.2.1)).count i := by
  refine ⟨_, sum_every_reader_sees_all tps steps p hp, ?_⟩
  cases htp : tps[p] with
  | delta =>
    simp only [if_true]
    exact sum_each_measurement_once 0 false 0 (proj p steps) i
  | cumulative =>
    simp only [reduceCtorEq, if_false]
    have h : IdInvCum ((St.fresh .cumulative).run (proj p steps)) ∧ ((St.fresh .cumulative).run (proj p steps)).tp = .cumulative := by
      apply run_induction (fun s => IdInvCum s ∧ s.tp = .cumulative)
      · exact ⟨fun a => by simp [St.fresh, St.pendingIds, St.measuredIds, cellIds], rfl⟩
      · intro s x ⟨h1, h2⟩
        exact ⟨idInvCum_step s x h2 h1, by cases x <;> exact h2⟩
    rw [h.1 i, measuredIds_run]
    simp [St.fresh, St.measuredIds]

/-- Histories containing collections that were abandoned before aggregation (context already cancelled / expired when
`pipeline.produce` consults it after a callback: error, no data): such a collection changes NOTHING — the run is the
run of the history with those collections erased, so every theorem of this file holds verbatim for histories with
abandoned collections (they report nothing and consume nothing; the next successful collection reports the data). -/
theorem abandoned_collection_changes_nothing (s : St) (xs : List XStep) :
    s.xrun xs = s.run (eraseAbandoned xs) := by
  induction xs generalizing s with
  | nil => rfl
  | cons x l ih =>
    cases x with
    | step y => simpa [St.xrun, St.xstep, eraseAbandoned, St.run] using ih (s.step y)
    | abandoned t => simpa [St.xrun, St.xstep, eraseAbandoned, St.run] using ih s

/-- … in particular delta conservation over histories with abandoned collections: only the collections that
returned their data are counted, and together with the pending state they still add up to everything measured. -/
theorem sum_delta_conservation_with_abandoned (limit : Nat) (mono : Bool) (start : Nat) (xs : List XStep) (a : Attr) :
    let s := (St.fresh .delta limit mono start).xrun xs
    deltaBalance s.measuredPairs s.reportsPairs (s.pending a) a = true := by
  intro s
  have h := sum_delta_conservation limit mono start (eraseAbandoned xs) a
  have e : s = (St.fresh .delta limit mono start).run (eraseAbandoned xs) :=
    abandoned_collection_changes_nothing _ xs
  rw [e]; exact h

/-- provider model: a context cancelled or expired DURING aggregation is not consulted by the current code
(`pipeline.produce` reads `ctx.Err()` only in the callback loops): the collection is an ordinary one. -/
theorem cancel_during_aggregation_is_ignored (s : Sys) (i r k : Nat) :
    s.step i (.colx r k) = s.step i (.col r) ∧ s.step i (.tickx r k) = s.step i (.tick r) ∧
    s.step i (.flushx k) = s.step i .flush := ⟨rfl, rfl, rfl⟩

/-- provider model: a collection abandoned before aggregation (a callback is registered and the context is already
done) consumes nothing: every aggregator of every reader is untouched, and the collection reports an error without data. -/
theorem abandoned_before_aggregation_consumes_nothing (s : Sys) (i r : Nat) (hcb : s.hasCb = true) (hr : r < s.readers.length) :
    (s.step i (.colc r)).readers = s.readers ∧ (s.step i (.colb r)).readers = s.readers ∧
    (s.step i (.colc r)).recs = s.recs ++ [{ op := i, reader := r, ok := false, streams := [] }] := by
  have hget : s.readers[r]? = some s.readers[r] := List.getElem?_eq_getElem hr
  simp [Sys.step, Sys.collectAbandoned, hget, hcb]

/-- provider model, clause "seen by every registered reader" with rejecting readers: a reader whose aggregation
selector is rejected for an instrument merely has no stream for it; `Add` still reaches the stream of EVERY reader
that has one (before, between or after rejecting readers), and only those. -/
theorem add_reaches_every_present_stream (s : Sys) (i j : Nat) (a : Attr) (v : Int) (r : Nat) :
    (s.step i (.add j a v)).readers[r]? =
      (s.readers[r]?).map fun rd => { rd with aggs := rd.aggs.modify j fun g => g.map fun g => g.measure a v i } := by
  simp [Sys.step]

/-- … and the streams present are decided per (reader, instrument) only: the configuration of one reader never
influences another reader's streams. -/
theorem streams_decided_per_reader (rs : List ReaderCfg) (is : List InstCfg) (cb : Bool) (r : Nat) :
    ((Sys.init rs is cb).readers[r]?).map (·.aggs.map Option.isSome) =
      (rs[r]?).map fun rc => is.map fun ic => !absent rc ic := by
  simp only [Sys.init, List.getElem?_map, Option.map_map]
  cases rs[r]? with
  | none => rfl
  | some rc =>
    simp only [Option.map_some, Function.comp, List.map_map]
    congr 1
    apply List.map_congr_left
    intro ic _
    by_cases h : absent rc ic <;> simp [h]

/-- Duplicate registration (follow-up, seeded C02-10).  An instrument object created again with the identity (name, kind,
number type) of an earlier one feeds the earlier one's stream; an instrument that merely shares the NAME of another
(different kind or number type) owns its own stream.  `ownerOf` never points forward and always points to an instrument
of exactly the same identity — so `Op.resolve` sends every `Add` to a stream of the instrument's own identity in the
provider model, to which the per-stream theorems of this file apply. -/
theorem owner_has_same_identity (is : List InstCfg) (names : List Nat) (j : Nat) :
    ownerOf is names j ≤ j ∧
    ∀ ij nj, is[j]? = some ij → names[j]? = some nj →
      ∃ ik, is[ownerOf is names j]? = some ik ∧ names[ownerOf is names j]? = some nj ∧
        ik.float = ij.float ∧ ik.updown = ij.updown := by
  unfold ownerOf
  cases hij : is[j]? with
  | none => exact ⟨Nat.le_refl _, by intro ij nj h; cases h⟩
  | some ij =>
    cases hnj : names[j]? with
    | none => exact ⟨Nat.le_refl _, by intro ij' nj h1 h2; cases h2⟩
    | some nj =>
      simp only
      cases h : (List.range j).find? (fun k =>
          match is[k]?, names[k]? with
          | some ik, some nk => nk == nj && ik.float == ij.float && ik.updown == ij.updown
          | _, _ => false) with
      | none =>
        simp only [Option.getD_none]
        refine ⟨Nat.le_refl _, ?_⟩
        intro ij' nj' h1 h2
        cases h1; cases h2
        exact ⟨ij, hij, hnj, rfl, rfl⟩
      | some k =>
        simp only [Option.getD_some]
        have hk := List.find?_some h
        have hkm := List.mem_range.mp (List.mem_of_find?_eq_some h)
        refine ⟨Nat.le_of_lt hkm, ?_⟩
        intro ij' nj' h1 h2
        cases h1; cases h2
        cases hik : is[k]? with
        | none => simp [hik] at hk
        | some ik =>
          cases hnk : names[k]? with
          | none => simp [hik, hnk] at hk
          | some nk =>
            simp only [hik, hnk, Bool.and_eq_true, beq_iff_eq] at hk
            obtain ⟨⟨h1, h2⟩, h3⟩ := hk
            exact ⟨ik, rfl, by rw [h1], h2, h3⟩

/-- Clause "a monotonic sum never decreases when inputs are non-negative", part 1: with non-negative inputs every
value ever reported (delta or cumulative) is ≥ 0 — in particular every delta increment. -/
theorem sum_monotonic_nonneg (tp : Temporality) (limit : Nat) (mono : Bool) (start : Nat) (steps : List Step)
    (hq : ∀ x ∈ steps, x.nonneg = true) :
    ∀ r ∈ ((St.fresh tp limit mono start).run steps).reportsPairs, nonneg r = true := by
  have h : NonnegInv ((St.fresh tp limit mono start).run steps) := by
    apply run_induction_on NonnegInv (fun x => x.nonneg = true)
    · exact ⟨by simp [St.fresh], by simp [St.fresh, St.reportsPairs]⟩
    · intro s x hx h; exact nonnegInv_step s x hx h
    · exact hq
  exact h.2

/-- … part 2: a cumulative reader's successive reports never decrease: every attribute set of an earlier report is
still present in any later one, with a value at least as large. -/
theorem sum_monotonic (limit : Nat) (mono : Bool) (start : Nat) (steps₁ steps₂ : List Step) (t₁ : Nat)
    (hq : ∀ x ∈ steps₂, x.nonneg = true) :
    let s₁ := (St.fresh .cumulative limit mono start).run steps₁
    let s₂ := (s₁.step (.collect t₁)).run steps₂
    monotoneStep (cells s₁.agg.values) (cells s₂.agg.values) = true := by
  intro s₁ s₂
  apply monotoneStep_of_mapLe
  have htp : s₁.tp = .cumulative := by simp [s₁, run_tp, St.fresh]
  have h1 : (s₁.step (.collect t₁)).agg = s₁.agg := by simp [St.step, htp, Sum.collect, Sum.cumulative]
  have := mapLe_run_cumulative (s₁.step (.collect t₁)) htp steps₂ hq
  rwa [h1] at this

/-- Clause "this holds through a periodic reader's interval exports, ForceFlush and the final collection performed
by Shutdown" (delta exporter).  For every label sequence `pre ++ [finalCollect] ++ post` of the reader LTS in which
the final collect is enabled (Shutdown was called and the run loop has exited), the exporter accepted every
payload and nobody drained the reader through a direct `Collect`: the concatenated exported payloads add up, for
every attribute set, to ALL measurements made before the final collect — in particular to all those whose `Add`
returned before `Shutdown` was called — and nothing exported later changes that. -/
theorem periodic_final_collect (pre post : List PLabel) (t : Nat) (a : Attr)
    (hok : ∀ l ∈ pre, l.exportOk = true ∧ l.isDirect = false)
    (hen : ((PSt.fresh .delta).run pre).cancelled = true ∧ ((PSt.fresh .delta).run pre).loopAlive = false ∧
           ((PSt.fresh .delta).run pre).swapped = false) :
    let s := (PSt.fresh .delta).run (pre ++ [.finalCollect t true] ++ post)
    deltaBalance ((PSt.fresh .delta).run pre).st.measuredPairs (PSt.pairs s.exported) 0 a = true := by
  intro s
  -- invariants after `pre`
  have hinv : (SplitInv ((PSt.fresh .delta).run pre) ∧ CleanInv ((PSt.fresh .delta).run pre)) ∧
      (DeltaInv ((PSt.fresh .delta).run pre).st ∧ ((PSt.fresh .delta).run pre).st.tp = .delta) := by
    apply prun_induction_on
      (fun s => (SplitInv s ∧ CleanInv s) ∧ (DeltaInv s.st ∧ s.st.tp = .delta))
      (fun l => l.exportOk = true ∧ l.isDirect = false)
    · refine ⟨⟨fun a => by simp [PSt.fresh, St.fresh, St.reportsPairs, PSt.pairs, totalAll], rfl, rfl⟩,
        fun a => by simp [PSt.fresh, St.fresh, St.reportsPairs, St.pending, St.measuredPairs, totalAll, total, cells], rfl⟩
    · intro s x hx ⟨⟨h1, h2⟩, h3, h4⟩
      refine ⟨⟨splitInv_step s x h1, cleanInv_step s x hx h2⟩, ?_⟩
      rcases pstep_st s x with h | ⟨y, h⟩
      · rw [h]; exact ⟨h3, h4⟩
      · rw [h]; exact ⟨deltaInv_step _ y h4 h3, by cases y <;> exact h4⟩
    · exact hok
  obtain ⟨⟨hsplit, hclean⟩, hdelta, htp⟩ := hinv
  generalize hs0 : (PSt.fresh .delta).run pre = s0 at *
  obtain ⟨hc, hl, hsw⟩ := hen
  -- the final collect
  have hfin : s0.step (.finalCollect t true) = { s0.collectExport t true with swapped := true } := by
    simp [PSt.step, hc, hl, hsw]
  have hexp : s.exported = s0.exported ++ [(s0.st.agg.collect s0.st.tp t).2] := by
    show ((PSt.fresh .delta).run (pre ++ [.finalCollect t true] ++ post)).exported = _
    rw [prun_append, prun_append, hs0]
    have : s0.run [.finalCollect t true] = s0.step (.finalCollect t true) := rfl
    rw [this, exported_frozen _ post (by simp [hfin]) (by simp [hfin, PSt.collectExport, hl]), hfin]
    simp [PSt.collectExport]
  have hsp := hsplit a
  have hd := hdelta a
  simp only [hclean.1, hclean.2, PSt.pairs, List.map_nil, totalAll] at hsp
  simp only [deltaBalance, hexp, PSt.pairs, List.map_append, List.map_cons, List.map_nil, totalAll_append, totalAll,
    htp, Sum.collect, Sum.delta, reportPairs_mkPoints, beq_iff_eq]
  simp only [St.pending] at hd hsp
  omega

/-- … and for a cumulative exporter: the payload exported by Shutdown's final collect is the last one ever
exported and carries the running total of all measurements made before it (whatever happened to earlier
payloads, and whoever else collected). -/
theorem periodic_final_collect_cumulative (pre post : List PLabel) (t : Nat) (a : Attr)
    (hen : ((PSt.fresh .cumulative).run pre).cancelled = true ∧ ((PSt.fresh .cumulative).run pre).loopAlive = false ∧
           ((PSt.fresh .cumulative).run pre).swapped = false) :
    let s := (PSt.fresh .cumulative).run (pre ++ [.finalCollect t true] ++ post)
    ∃ r, s.exported.getLast? = some r ∧
      cumulativeTotal ((PSt.fresh .cumulative).run pre).st.measuredPairs (reportPairs r) a = true := by
  intro s
  have hinv : CumInv ((PSt.fresh .cumulative).run pre).st ∧ ((PSt.fresh .cumulative).run pre).st.tp = .cumulative := by
    apply prun_induction_on (fun s => CumInv s.st ∧ s.st.tp = .cumulative) (fun _ => True)
    · exact ⟨fun a => by simp [PSt.fresh, St.fresh, St.pending, St.measuredPairs, total, cells], rfl⟩
    · intro s x _ ⟨h3, h4⟩
      rcases pstep_st s x with h | ⟨y, h⟩
      · rw [h]; exact ⟨h3, h4⟩
      · rw [h]; exact ⟨cumInv_step _ y h4 h3, by cases y <;> exact h4⟩
    · intros; trivial
  obtain ⟨hcum, htp⟩ := hinv
  generalize hs0 : (PSt.fresh .cumulative).run pre = s0 at *
  obtain ⟨hc, hl, hsw⟩ := hen
  have hfin : s0.step (.finalCollect t true) = { s0.collectExport t true with swapped := true } := by
    simp [PSt.step, hc, hl, hsw]
  have hexp : s.exported = s0.exported ++ [(s0.st.agg.collect s0.st.tp t).2] := by
    show ((PSt.fresh .cumulative).run (pre ++ [.finalCollect t true] ++ post)).exported = _
    rw [prun_append, prun_append, hs0]
    have : s0.run [.finalCollect t true] = s0.step (.finalCollect t true) := rfl
    rw [this, exported_frozen _ post (by simp [hfin]) (by simp [hfin, PSt.collectExport, hl]), hfin]
    simp [PSt.collectExport]
  refine ⟨(s0.st.agg.collect s0.st.tp t).2, by rw [hexp]; simp, ?_⟩
  have := hcum a
  simpa [cumulativeTotal, htp, Sum.collect, Sum.cumulative, reportPairs_mkPoints, St.pending] using this

/-- non-vacuity of `periodic_final_collect`: measurements before, between and after ticks, a flush, Shutdown racing
with one more tick served by the still-running loop, then the final collect; a late measurement is not exported -/
example :
    let pre := [PLabel.measure 1 5 0, .tick 1 true, .measure 1 7 1, .measure 2 (-3) 2, .flush 2 true, .measure 1 1 3,
      .shutdownCall, .tick 3 true, .measure 2 4 4, .loopExit]
    let s := (PSt.fresh .delta).run (pre ++ [.finalCollect 4 true] ++ [.measure 1 100 5, .tick 5 true, .flush 6 true])
    (((PSt.fresh .delta).run pre).cancelled = true ∧ ((PSt.fresh .delta).run pre).loopAlive = false ∧
      ((PSt.fresh .delta).run pre).swapped = false) ∧
    totalAll (PSt.pairs s.exported) 1 = 13 ∧ totalAll (PSt.pairs s.exported) 2 = 1 ∧ s.exported.length = 4 := by
  decide

/-- non-vacuity of the single-stream theorems: interleaved measurements and collections, two attribute sets -/
example :
    let steps := [Step.measure 1 5 0, .measure 2 7 1, .collect 1, .measure 1 (-2) 2, .collect 2, .collect 3, .measure 2 1 3]
    let s := (St.fresh .delta).run steps
    s.reportsPairs = [[(1, 5), (2, 7)], [(1, -2)], []] ∧ s.pending 2 = 1 ∧
    deltaBalance s.measuredPairs s.reportsPairs (s.pending 2) 2 = true ∧
    s.reportedIds = [(0, 5), (1, 7), (2, -2)] ∧ s.pendingIds = [(3, 1)] := by
  decide

example :
    let s := (St.fresh .cumulative).run [Step.measure 1 5 0, .collect 1, .measure 2 7 1, .measure 1 2 2, .collect 2]
    s.reportsPairs = [[(1, 5)], [(1, 7), (2, 7)]] ∧ monotoneStep [(1, 5)] [(1, 7), (2, 7)] = true := by
  decide

/-- non-vacuity of the n-pipeline theorem: an `Add` split by a collection of the second reader -/
example :
    let steps : List PStep := [(0, .measure 1 5 0), (1, .collect 1), (1, .measure 1 5 0), (0, .collect 2), (1, .collect 3)]
    ((Multi.run ([Temporality.delta, .delta].map fun tp => St.fresh tp) steps).map (·.reportsPairs)) =
      [[[(1, 5)]], [[], [(1, 5)]]] := by
  decide

/-- non-vacuity: a rejecting reader registered FIRST, a delta and a cumulative reader after it; a collection abandoned
before aggregation (callback registered) and one cancelled during aggregation -/
example :
    let rs : List ReaderCfg := [⟨false, .cumulative, .cumulative, .rejUpdown⟩, ⟨false, .delta, .delta, .none⟩, ⟨false, .cumulative, .cumulative, .none⟩]
    let s := Sys.run rs [⟨false, true⟩] [.add 0 1 5, .colc 1, .colx 1 0, .add 0 1 (-2), .col 0, .col 1, .col 2] true
    s.recs.map (fun rc => (rc.reader, rc.ok, rc.streams.map fun st => st.2.2.2)) =
      [(1, false, []), (1, true, [[(1, 5)]]), (0, true, []), (1, true, [[(1, -2)]]), (2, true, [[(1, 3)]])] := by
  decide

/-! ### observable instruments, overlapping collections (follow-up, seeded C02-6) -/

private theorem frun_cons (insts : List OInst) (table : Table) (rs : List OReader) (x : RStep) (l : List RStep) :
    frun insts table rs (x :: l) = frun insts table (fstepAll insts table rs x) l := rfl

/-- Clause "seen by every registered reader", observable instruments: whatever the interleaving of the callback and
aggregation steps of any number of readers (their pipelines have different locks, so their collections may overlap
arbitrarily), reader `r` ends exactly as if only ITS OWN steps had been executed — every observation made by reader
`r`'s callbacks lands in reader `r`'s aggregate functions and in no other reader's, and what `r` reports depends on
nothing the other readers do. -/
theorem obs_readers_independent (insts : List OInst) (table : Table) (rs : List OReader) (xs : List RStep) (r : Nat) :
    (frun insts table rs xs)[r]? = (rs[r]?).map fun rd => (projR r xs).foldl (OReader.fstep insts table) rd := by
  induction xs generalizing rs with
  | nil => simp [frun, projR]
  | cons x l ih =>
    rw [frun_cons, ih]
    simp only [fstepAll, List.getElem?_modify]
    cases hrs : rs[r]? with
    | none => simp
    | some rd =>
      by_cases hx : x.1 = r
      · simp [hx, projR]
      · simp [hx, projR]

private theorem projR_append (r : Nat) (a b : List RStep) : projR r (a ++ b) = projR r a ++ projR r b := by
  simp [projR, List.filterMap_append]

private theorem projR_tagged_same (r : Nat) (l : List FStep) : projR r (tagged r l) = l := by
  induction l with
  | nil => rfl
  | cons x l ih => simp only [tagged, List.map_cons, projR, List.filterMap_cons] at ih ⊢; simp [ih]

private theorem projR_tagged_other (r r' : Nat) (h : r' ≠ r) (l : List FStep) : projR r (tagged r' l) = [] := by
  induction l with
  | nil => rfl
  | cons x l ih => simp only [tagged, List.map_cons, projR, List.filterMap_cons] at ih ⊢; simp [h, ih]

/-- … in particular the forced overlap the harness drives (reader `r1` parked in its callback of instrument `j` while
reader `r2` performs a whole collection) leaves every reader in exactly the state of the two collections performed one
after the other: overlapping collections of different readers are indistinguishable from sequential ones. -/
theorem obs_overlap_equals_sequential (insts : List OInst) (table : Table) (rs : List OReader)
    (n i t r1 r2 j : Nat) (h : r1 ≠ r2) :
    frun insts table rs (ovlSched n i t r1 r2 j) = frun insts table rs (seqSched n i t r1 r2) := by
  apply List.ext_getElem?
  intro r
  have hp : projR r (ovlSched n i t r1 r2 j) = projR r (seqSched n i t r1 r2) := by
    simp only [ovlSched, seqSched, projR_append]
    by_cases h1 : r = r1
    · subst h1
      simp [projR_tagged_same, projR_tagged_other _ _ (Ne.symm h), List.take_append_drop]
    · by_cases h2 : r = r2
      · subst h2
        simp [projR_tagged_same, projR_tagged_other _ _ (Ne.symm h1)]
      · have e1 := projR_tagged_other r r1 (Ne.symm h1)
        have e2 := projR_tagged_other r r2 (Ne.symm h2)
        simp [e1, e2]
  rw [obs_readers_independent, obs_readers_independent, hp]

/-- non-vacuity: a cumulative and a delta reader, an overlapped round between two sequential ones -/
example :
    let s := OSys.run [(.cumulative, .cumulative), (.delta, .delta)] [⟨true, .counter⟩]
      [.set 0 1 384, .col 0, .col 1, .set 0 1 1024, .ovl 0 1 0, .set 0 1 2624, .col 0, .col 1]
    s.recs.map (fun rc => (rc.2.1, rc.2.2.map fun st => st.2.2)) =
      [(0, [[(1, 384)]]), (1, [[(1, 384)]]), (1, [[(1, 640)]]), (0, [[(1, 1024)]]), (0, [[(1, 2624)]]), (1, [[(1, 1600)]])] := by
  decide

end Otel.C02
