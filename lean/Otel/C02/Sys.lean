/-
C02 — the sequential MeterProvider model used by the driver: readers (manual / periodic) × instruments
(counter / up-down counter), one `Sum` aggregator per (reader pipeline, instrument), as in
pipeline.go (`inserter.cachedAggregator` creates one aggregate per pipeline and instrument;
`int64Inst.aggregate` fans a measurement out to `measures` in pipeline order; `pipeline.produce` runs every
compute function and drops metrics with 0 points).
-/
import Otel.C02.Model
namespace Otel.C02

/-- what the reader's AggregationSelector (or its exporter's `Aggregation`) answers for the two sum kinds:
`rejUpdown`/`rejCounter`/`rejBoth` = `AggregationLastValue{}` for that kind, which `isAggregatorCompatible`
(pipeline.go:531-577) rejects with an error at instrument creation; `dropUpdown` = `AggregationDrop{}` for up-down
counters (no error, no aggregate function). -/
inductive Rej where
  | none | rejUpdown | rejCounter | rejBoth | dropUpdown
deriving Repr, BEq, DecidableEq

structure ReaderCfg where
  periodic : Bool
  tc : Temporality
  tu : Temporality
  rej : Rej := .none
deriving Repr

structure InstCfg where
  float : Bool
  updown : Bool
deriving Repr

/-- `reader.temporality(kind)` as configured by the harness' selector -/
def tempFor (r : ReaderCfg) (i : InstCfg) : Temporality := if i.updown then r.tu else r.tc

/-- no aggregate function exists for (reader, instrument): `inserter.Instrument` returned an error (incompatible
aggregation) or the drop aggregation for this reader.  `resolver.Aggregators` (pipeline.go:637-649) joins the error
and CONTINUES with the remaining readers, so every other reader still gets its aggregate function; the instrument
constructor returns the error together with a usable instrument. -/
def absent (r : ReaderCfg) (i : InstCfg) : Bool :=
  match r.rej with
  | .none => false
  | .rejUpdown => i.updown
  | .rejCounter => !i.updown
  | .rejBoth => true
  | .dropUpdown => i.updown

structure Reader where
  cfg : ReaderCfg
  /-- one entry per instrument; `none` = stream absent for this reader -/
  aggs : List (Option Sum)
  down : Bool := false
deriving Repr

/-- one collection as seen at the API: op index (or collector id), reader, status, streams -/
structure Rec where
  op : Nat
  reader : Nat
  ok : Bool
  /-- (instrument index, temporality, monotonic, points) — only streams with ≥ 1 point -/
  streams : List (Nat × Temporality × Bool × List (Attr × Int))
deriving Repr

structure Sys where
  insts : List InstCfg
  readers : List Reader
  /-- an observable instrument with a callback is registered: `pipeline.produce` consults `ctx.Err()` after each
  callback (pipeline.go:128-153) — and nowhere else -/
  hasCb : Bool := false
  clock : Nat := 1
  shut : Bool := false
  recs : List Rec := []
deriving Repr

inductive Op where
  | add (j : Nat) (a : Attr) (v : Int)
  | col (r : Nat)
  | tick (r : Nat)
  | flush
  | shut
  | rshut (r : Nat)
  /-- Collect whose context is cancelled while instrument `k` is being aggregated -/
  | colx (r k : Nat)
  /-- Collect with an already-cancelled context -/
  | colc (r : Nat)
  /-- Collect whose context is cancelled by the observable callback -/
  | colb (r : Nat)
  /-- interval export / ForceFlush whose timeout expires while instrument `k` is being aggregated -/
  | tickx (r k : Nat)
  | flushx (k : Nat)
deriving Repr

def Sys.init (rs : List ReaderCfg) (is : List InstCfg) (hasCb : Bool := false) : Sys :=
  { insts := is
    hasCb := hasCb
    readers := rs.map fun rc =>
      { cfg := rc
        aggs := is.map fun i => if absent rc i then none else some ({ monotonic := !i.updown } : Sum) } }

/-- `pipeline.produce` restricted to sums: run every compute function, keep metrics with ≥ 1 point -/
def collectAggs (rc : ReaderCfg) (t : Nat) : List InstCfg → List (Option Sum) → Nat →
    List (Option Sum) × List (Nat × Temporality × Bool × List (Attr × Int))
  | i :: is, some s :: ss, j =>
    let tp := tempFor rc i
    let (s', pts) := s.collect tp t
    let (ss', out) := collectAggs rc t is ss (j + 1)
    let stream := (j, tp, s.monotonic, sortByAttr (pts.map fun p => (p.attr, p.val.n)))
    (some s' :: ss', if pts.isEmpty then out else stream :: out)
  | _ :: is, none :: ss, j =>
    let (ss', out) := collectAggs rc t is ss (j + 1)
    (none :: ss', out)
  | _, ss, _ => (ss, [])

/-- Collect of reader `r` (which must be alive), recorded under stamp `i` -/
def Sys.collectAt (s : Sys) (i r : Nat) : Sys :=
  match s.readers[r]? with
  | none => s
  | some rd =>
    let (aggs', streams) := collectAggs rd.cfg s.clock s.insts rd.aggs 0
    { s with readers := s.readers.set r { rd with aggs := aggs' }
             clock := s.clock + 1
             recs := s.recs ++ [{ op := i, reader := r, ok := true, streams := streams }] }

def Sys.setDown (s : Sys) (r : Nat) : Sys :=
  { s with readers := s.readers.modify r fun rd => { rd with down := true } }

/-- Reader.Shutdown: once; a periodic reader performs its final collect + export (periodic_reader.go:308-350) -/
def Sys.readerShutdown (s : Sys) (i r : Nat) : Sys :=
  match s.readers[r]? with
  | none => s
  | some rd =>
    if rd.down then s
    else if rd.cfg.periodic then (s.collectAt i r).setDown r
    else s.setDown r

/-- Reader.Collect with a context that stays usable until aggregation starts -/
def Sys.collectOp (s : Sys) (i r : Nat) : Sys :=
  match s.readers[r]? with
  | none => s
  | some rd =>
    if rd.down then { s with recs := s.recs ++ [{ op := i, reader := r, ok := false, streams := [] }] }
    else s.collectAt i r

/-- Reader.Collect whose context is already done when the callback loop consults it: with a callback registered
`produce` erases `rm` and returns the context error BEFORE any compute function ran — an error, no data, and no
aggregator is touched; without callbacks the context is never consulted and the collection is an ordinary one. -/
def Sys.collectAbandoned (s : Sys) (i r : Nat) : Sys :=
  match s.readers[r]? with
  | none => s
  | some rd =>
    if rd.down || s.hasCb then { s with recs := s.recs ++ [{ op := i, reader := r, ok := false, streams := [] }] }
    else s.collectAt i r

def Sys.tickOp (s : Sys) (i r : Nat) : Sys :=
  match s.readers[r]? with
  | none => s
  | some rd => if rd.cfg.periodic && !rd.down then s.collectAt i r else s

def Sys.flushOp (s : Sys) (i : Nat) : Sys :=
  (List.range s.readers.length).foldl (fun s r =>
    match s.readers[r]? with
    | some rd => if rd.cfg.periodic && !rd.down then s.collectAt i r else s
    | none => s) s

def Sys.step (s : Sys) (i : Nat) : Op → Sys
  | .add j a v =>
    { s with readers := s.readers.map fun rd =>
        { rd with aggs := rd.aggs.modify j fun g => g.map fun g => g.measure a v i } }
  | .col r => s.collectOp i r
  -- the context is consulted only in the callback loops: once aggregation has started its cancellation or
  -- expiry changes nothing — the collection completes, returns all its data and a nil error
  | .colx r _ => s.collectOp i r
  | .colc r => s.collectAbandoned i r
  | .colb r => s.collectAbandoned i r
  | .tick r => s.tickOp i r
  | .tickx r _ => s.tickOp i r
  | .flush => s.flushOp i
  | .flushx _ => s.flushOp i
  | .shut =>
    if s.shut then s
    else { (List.range s.readers.length).foldl (fun s r => s.readerShutdown i r) s with shut := true }
  | .rshut r => s.readerShutdown i r

/-! ### instrument objects vs streams (duplicate registration)

A stream of one reader is identified by (name, description, unit, kind, number type) — `instID`, the key of the
inserter's aggregator cache (pipeline.go:237-292, 350-419; the int64 and float64 inserters have separate caches) and
of the meter's instrument cache (meter.go `int64Insts.Lookup(instID…)`).  Creating an instrument AGAIN with the same
identity returns the cached instrument: both objects feed ONE stream.  Creating an instrument with the same name but a
different kind or number type only logs a warning: it gets its own aggregate function, `addSync` appends its own compute
function, and every collection reports two Metrics entries with equal names.  `names[j]` = index of the instrument
whose name instrument `j` uses (itself if it has its own). -/

/-- the instrument object that owns the stream instrument `j` feeds: the first instrument with the same name, kind
and number type -/
def ownerOf (is : List InstCfg) (names : List Nat) (j : Nat) : Nat :=
  match is[j]?, names[j]? with
  | some ij, some nj =>
    ((List.range j).find? fun k =>
      match is[k]?, names[k]? with
      | some ik, some nk => nk == nj && ik.float == ij.float && ik.updown == ij.updown
      | _, _ => false).getD j
  | _, _ => j

/-- `Add` on an instrument object is `Add` on the stream's owner -/
def Op.resolve (is : List InstCfg) (names : List Nat) : Op → Op
  | .add j a v => .add (ownerOf is names j) a v
  | op => op

def Sys.runFrom (s : Sys) (i : Nat) : List Op → Sys
  | [] => s
  | op :: ops => (s.step i op).runFrom (i + 1) ops

def Sys.run (rs : List ReaderCfg) (is : List InstCfg) (ops : List Op) (hasCb : Bool := false) : Sys :=
  (Sys.init rs is hasCb).runFrom 0 ops

end Otel.C02
