/-
C02 — the sequential MeterProvider model used by the driver: readers (manual / periodic) × instruments
(counter / up-down counter), one `Sum` aggregator per (reader pipeline, instrument), as in
pipeline.go (`inserter.cachedAggregator` creates one aggregate per pipeline and instrument;
`int64Inst.aggregate` fans a measurement out to `measures` in pipeline order; `pipeline.produce` runs every
compute function and drops metrics with 0 points).
-/
import Otel.C02.Model
namespace Otel.C02

structure ReaderCfg where
  periodic : Bool
  tc : Temporality
  tu : Temporality
deriving Repr

structure InstCfg where
  float : Bool
  updown : Bool
deriving Repr

/-- `reader.temporality(kind)` as configured by the harness' selector -/
def tempFor (r : ReaderCfg) (i : InstCfg) : Temporality := if i.updown then r.tu else r.tc

structure Reader where
  cfg : ReaderCfg
  aggs : List Sum
  down : Bool := false
deriving Repr

/-- one collection as seen at the API: op index (or collector id), reader, status, streams -/
structure Rec where
  op : Nat
  reader : Nat
  ok : Bool
  /-- (instrument index, temporality, monotonic, points) — only streams with ≥ 1 point -/
  streams : List (Nat × Temporality × Bool × List (Attr × Int))
deriving Repr

structure Sys where
  insts : List InstCfg
  readers : List Reader
  clock : Nat := 1
  shut : Bool := false
  recs : List Rec := []
deriving Repr

inductive Op where
  | add (j : Nat) (a : Attr) (v : Int)
  | col (r : Nat)
  | tick (r : Nat)
  | flush
  | shut
  | rshut (r : Nat)
deriving Repr

def Sys.init (rs : List ReaderCfg) (is : List InstCfg) : Sys :=
  { insts := is
    readers := rs.map fun rc => { cfg := rc, aggs := is.map fun i => ({ monotonic := !i.updown } : Sum) } }

/-- `pipeline.produce` restricted to sums: run every compute function, keep metrics with ≥ 1 point -/
def collectAggs (rc : ReaderCfg) (t : Nat) : List InstCfg → List Sum → Nat →
    List Sum × List (Nat × Temporality × Bool × List (Attr × Int))
  | i :: is, s :: ss, j =>
    let tp := tempFor rc i
    let (s', pts) := s.collect tp t
    let (ss', out) := collectAggs rc t is ss (j + 1)
    let stream := (j, tp, s.monotonic, sortByAttr (pts.map fun p => (p.attr, p.val.n)))
    (s' :: ss', if pts.isEmpty then out else stream :: out)
  | _, ss, _ => (ss, [])

/-- Collect of reader `r` (which must be alive), recorded under stamp `i` -/
def Sys.collectAt (s : Sys) (i r : Nat) : Sys :=
  match s.readers[r]? with
  | none => s
  | some rd =>
    let (aggs', streams) := collectAggs rd.cfg s.clock s.insts rd.aggs 0
    { s with readers := s.readers.set r { rd with aggs := aggs' }
             clock := s.clock + 1
             recs := s.recs ++ [{ op := i, reader := r, ok := true, streams := streams }] }

def Sys.setDown (s : Sys) (r : Nat) : Sys :=
  { s with readers := s.readers.modify r fun rd => { rd with down := true } }

/-- Reader.Shutdown: once; a periodic reader performs its final collect + export (periodic_reader.go:308-350) -/
def Sys.readerShutdown (s : Sys) (i r : Nat) : Sys :=
  match s.readers[r]? with
  | none => s
  | some rd =>
    if rd.down then s
    else if rd.cfg.periodic then (s.collectAt i r).setDown r
    else s.setDown r

def Sys.step (s : Sys) (i : Nat) : Op → Sys
  | .add j a v =>
    { s with readers := s.readers.map fun rd => { rd with aggs := rd.aggs.modify j fun g => g.measure a v i } }
  | .col r =>
    match s.readers[r]? with
    | none => s
    | some rd =>
      if rd.down then { s with recs := s.recs ++ [{ op := i, reader := r, ok := false, streams := [] }] }
      else s.collectAt i r
  | .tick r =>
    match s.readers[r]? with
    | none => s
    | some rd => if rd.cfg.periodic && !rd.down then s.collectAt i r else s
  | .flush =>
    (List.range s.readers.length).foldl (fun s r =>
      match s.readers[r]? with
      | some rd => if rd.cfg.periodic && !rd.down then s.collectAt i r else s
      | none => s) s
  | .shut =>
    if s.shut then s
    else { (List.range s.readers.length).foldl (fun s r => s.readerShutdown i r) s with shut := true }
  | .rshut r => s.readerShutdown i r

def Sys.runFrom (s : Sys) (i : Nat) : List Op → Sys
  | [] => s
  | op :: ops => (s.step i op).runFrom (i + 1) ops

def Sys.run (rs : List ReaderCfg) (is : List InstCfg) (ops : List Op) : Sys :=
  (Sys.init rs is).runFrom 0 ops

end Otel.C02
