/-
C02 — theorems about the fine-grained PeriodicReader LTS (ReaderLts.lean): for EVERY finite sequence of labels
(= every interleaving of the run loop, any number of ForceFlush / Collect / Shutdown callers and measuring goroutines)

* `reader_one_export_at_a_time`        — at most one `exporter.Export` call is in flight;
* `reader_no_export_after_shutdown`    — once `Shutdown` has returned no export is started and nothing more is exported;
* `reader_shutdown_final_collect`      — Shutdown's final collect + export, split into its steps and interleaved with
  anything: what the exporter got adds up to everything measured before the final collect (delta exporter, accepting
  exporter, no direct Collect callers);
* `reader_flush_served_by_loop`        — a ForceFlush request is served by the run loop's own collect + export.
-/
import Otel.C02.ReaderLts
import Otel.C02.Lemmas
namespace Otel.C02
open Spec

theorem rrun_cons (s : RSt) (x : RLabel) (l : List RLabel) : s.run (x :: l) = (s.step x).run l := rfl
theorem rrun_append (s : RSt) (l₁ l₂ : List RLabel) : s.run (l₁ ++ l₂) = (s.run l₁).run l₂ := by
  simp [RSt.run, List.foldl_append]

private theorem rrun_induction_on (P : RSt → Prop) (Q : RLabel → Prop) (s : RSt) (h0 : P s)
    (hstep : ∀ s x, Q x → P s → P (s.step x)) (ls : List RLabel) (hq : ∀ x ∈ ls, Q x) : P (s.run ls) := by
  induction ls generalizing s with
  | nil => exact h0
  | cons x l ih => exact ih _ (hstep s x (hq x (by simp)) h0) (fun y hy => hq y (by simp [hy]))

private theorem rrun_induction (P : RSt → Prop) (s : RSt) (h0 : P s)
    (hstep : ∀ s x, P s → P (s.step x)) (ls : List RLabel) : P (s.run ls) :=
  rrun_induction_on P (fun _ => True) s h0 (fun s x _ h => hstep s x h) ls (fun _ _ => trivial)

/-- program-counter invariant: Shutdown gets past `<-r.done` only after the run loop has exited, and the ghost counters
agree with the program counters -/
def RInv (s : RSt) : Prop :=
  (s.shut.isSwapped = true → s.loop = .exited) ∧ s.begun = s.ended + s.inFlight

private theorem rinv_step (s : RSt) (x : RLabel) (h : RInv s) : RInv (s.step x) := by
  obtain ⟨h1, h2⟩ := h
  cases x <;> simp only [RSt.step]
  case measure a v id => exact ⟨h1, h2⟩
  case loopTick t =>
    split
    · rename_i hl
      refine ⟨fun hs => ?_, ?_⟩
      · have := h1 (by simpa [RSt.loopCollect] using hs); simp [hl] at this
      · simp [RSt.loopCollect, RSt.inFlight, LoopPc.inExport, hl] at h2 ⊢; exact h2
    · exact ⟨h1, h2⟩
  case loopRecvFlush t =>
    split
    · rename_i hl
      split
      · refine ⟨fun hs => ?_, ?_⟩
        · have := h1 (by simpa [RSt.loopCollect] using hs); simp [hl] at this
        · simp [RSt.loopCollect, RSt.inFlight, LoopPc.inExport, hl] at h2 ⊢; exact h2
      · exact ⟨h1, h2⟩
    · exact ⟨h1, h2⟩
  case loopExportBegin =>
    split
    · rename_i f p hl
      refine ⟨fun hs => ?_, ?_⟩
      · have := h1 hs; simp [hl] at this
      · simp [RSt.inFlight, LoopPc.inExport, hl] at h2 ⊢; omega
    · exact ⟨h1, h2⟩
  case loopExportEnd ok =>
    split
    · rename_i f p hl
      refine ⟨fun hs => ?_, ?_⟩
      · have := h1 (by cases ok <;> simpa [RSt.finish] using hs); simp [hl] at this
      · cases ok <;> simp [RSt.finish, RSt.inFlight, LoopPc.inExport, hl] at h2 ⊢ <;> omega
    · exact ⟨h1, h2⟩
  case loopExit =>
    split
    · rename_i hl
      split
      · exact ⟨fun _ => rfl, by simp [RSt.inFlight, LoopPc.inExport, hl] at h2 ⊢; exact h2⟩
      · exact ⟨h1, h2⟩
    · exact ⟨h1, h2⟩
  case flushCall => exact ⟨h1, h2⟩
  case flushGiveUp => exact ⟨h1, h2⟩
  case userCollect t =>
    split
    · exact ⟨h1, h2⟩
    · exact ⟨h1, h2⟩
  case shutdownCall =>
    split
    · rename_i hsh
      exact ⟨fun hs => by simp [ShutPc.isSwapped] at hs, by simp [RSt.inFlight, ShutPc.inExport, hsh] at h2 ⊢; exact h2⟩
    · exact ⟨h1, h2⟩
  case shutSwap =>
    split
    · rename_i hsh hl
      exact ⟨fun _ => hl, by simp [RSt.inFlight, ShutPc.inExport, hsh] at h2 ⊢; exact h2⟩
    · exact ⟨h1, h2⟩
  case shutCollect t =>
    split
    · rename_i hsh
      exact ⟨fun _ => h1 (by simp [hsh, ShutPc.isSwapped]), by simp [RSt.inFlight, ShutPc.inExport, hsh] at h2 ⊢; exact h2⟩
    · exact ⟨h1, h2⟩
  case shutCollectFail =>
    split
    · rename_i hsh
      exact ⟨fun _ => h1 (by simp [hsh, ShutPc.isSwapped]), by simp [RSt.inFlight, ShutPc.inExport, hsh] at h2 ⊢; exact h2⟩
    · exact ⟨h1, h2⟩
  case shutExportBegin =>
    split
    · rename_i p hsh
      exact ⟨fun _ => h1 (by simp [hsh, ShutPc.isSwapped]), by simp [RSt.inFlight, ShutPc.inExport, hsh] at h2 ⊢; omega⟩
    · exact ⟨h1, h2⟩
  case shutExportEnd ok =>
    split
    · rename_i p hsh
      refine ⟨fun _ => ?_, ?_⟩
      · have := h1 (by simp [hsh, ShutPc.isSwapped]); cases ok <;> simpa [RSt.finish] using this
      · cases ok <;> simp [RSt.finish, RSt.inFlight, ShutPc.inExport, hsh] at h2 ⊢ <;> omega
    · exact ⟨h1, h2⟩
  case shutExporterDown =>
    split
    · rename_i ok hsh
      exact ⟨fun _ => h1 (by simp [hsh, ShutPc.isSwapped]), by simp [RSt.inFlight, ShutPc.inExport, hsh] at h2 ⊢; exact h2⟩
    · exact ⟨h1, h2⟩

private theorem rinv_run (tp : Temporality) (ls : List RLabel) : RInv ((RSt.fresh tp).run ls) :=
  rrun_induction RInv _ ⟨fun h => by simp [RSt.fresh, ShutPc.isSwapped] at h, by simp [RSt.fresh, RSt.inFlight, LoopPc.inExport, ShutPc.inExport]⟩
    rinv_step ls

/-- **One export at a time.**  After ANY label sequence at most one call of `exporter.Export` is in flight: the run
loop's and Shutdown's exports never overlap (Shutdown waits for `done`), ForceFlush never exports itself. In ghost
counters: `begun ≤ ended + 1`. -/
theorem reader_one_export_at_a_time (tp : Temporality) (ls : List RLabel) :
    ((RSt.fresh tp).run ls).inFlight ≤ 1 ∧ ((RSt.fresh tp).run ls).begun ≤ ((RSt.fresh tp).run ls).ended + 1 := by
  have ⟨h1, h2⟩ := rinv_run tp ls
  have : ((RSt.fresh tp).run ls).inFlight ≤ 1 := by
    unfold RSt.inFlight
    by_cases hs : ((RSt.fresh tp).run ls).shut.inExport = true
    · have hsw : ((RSt.fresh tp).run ls).shut.isSwapped = true := by
        revert hs; cases ((RSt.fresh tp).run ls).shut <;> simp [ShutPc.inExport, ShutPc.isSwapped]
      simp [h1 hsw, LoopPc.inExport]
      split <;> omega
    · simp [hs]; split <;> omega
  exact ⟨this, by omega⟩

/-- what no step can change once Shutdown has returned (and therefore the loop has exited) -/
private theorem returned_step (s : RSt) (x : RLabel) (hr : s.isReturned = true) (hl : s.loop = .exited) :
    (s.step x).isReturned = true ∧ (s.step x).loop = .exited ∧ (s.step x).begun = s.begun ∧
    (s.step x).exported = s.exported ∧ (s.step x).lost = s.lost ∧ (s.step x).st.reports = s.st.reports := by
  have hsh : ∃ ok, s.shut = .returned ok := by
    revert hr; unfold RSt.isReturned; cases s.shut <;> simp
  obtain ⟨ok, hsh⟩ := hsh
  cases x <;> simp [RSt.step, hsh, hl, RSt.isReturned, ShutPc.isSwapped, St.step]

/-- **No export after Shutdown returned.**  If `Shutdown` has returned after `pre`, then whatever happens afterwards
(`post`: ticks of a stale ticker, ForceFlush, Collect, further Shutdown calls, measurements) no `exporter.Export` call is
started, nothing is added to what the exporter got and no collection takes anything out of the aggregator. -/
theorem reader_no_export_after_shutdown (tp : Temporality) (pre post : List RLabel)
    (hr : ((RSt.fresh tp).run pre).isReturned = true) :
    let s := (RSt.fresh tp).run pre
    let s' := (RSt.fresh tp).run (pre ++ post)
    s'.begun = s.begun ∧ s'.exported = s.exported ∧ s'.lost = s.lost ∧ s'.inFlight = 0 ∧ s'.st.reports = s.st.reports := by
  intro s s'
  have hl : s.loop = .exited := (rinv_run tp pre).1 (by
    revert hr; unfold RSt.isReturned; cases ((RSt.fresh tp).run pre).shut <;> simp [ShutPc.isSwapped])
  have key : ∀ (post : List RLabel) (u : RSt), u.isReturned = true → u.loop = .exited →
      (u.run post).isReturned = true ∧ (u.run post).loop = .exited ∧ (u.run post).begun = u.begun ∧
      (u.run post).exported = u.exported ∧ (u.run post).lost = u.lost ∧ (u.run post).st.reports = u.st.reports := by
    intro post
    induction post with
    | nil => intro u h1 h2; exact ⟨h1, h2, rfl, rfl, rfl, rfl⟩
    | cons x l ih =>
      intro u h1 h2
      have hs := returned_step u x h1 h2
      have := ih (u.step x) hs.1 hs.2.1
      rw [rrun_cons]
      exact ⟨this.1, this.2.1, by rw [this.2.2.1, hs.2.2.1], by rw [this.2.2.2.1, hs.2.2.2.1],
        by rw [this.2.2.2.2.1, hs.2.2.2.2.1], by rw [this.2.2.2.2.2, hs.2.2.2.2.2]⟩
  have h := key post s hr hl
  have hs' : s' = s.run post := rrun_append _ pre post
  rw [hs']
  refine ⟨h.2.2.1, h.2.2.2.1, h.2.2.2.2.1, ?_, h.2.2.2.2.2⟩
  have hret : ∃ ok, (s.run post).shut = .returned ok := by
    have := h.1; revert this; unfold RSt.isReturned; cases (s.run post).shut <;> simp
  obtain ⟨ok, hret⟩ := hret
  simp [RSt.inFlight, h.2.1, hret, LoopPc.inExport, ShutPc.inExport]

/-- … and the reader is quiescent: every export that was started has returned (the counters the harness reads off its
recording exporter after Shutdown: `Spec.readerObsOK`) and a late direct `Collect` is refused (changes nothing) -/
theorem reader_quiescent_after_shutdown (tp : Temporality) (ls : List RLabel) (t : Nat)
    (hr : ((RSt.fresh tp).run ls).isReturned = true) :
    let s := (RSt.fresh tp).run ls
    Spec.readerObsOK s.inFlight 0 s.begun s.ended (decide ((s.step (.userCollect t)).st.reports = s.st.reports ∧
      (s.step (.userCollect t)).direct = s.direct)) = true := by
  intro s
  have hinv := rinv_run tp ls
  have h0 := (reader_no_export_after_shutdown tp ls [] hr).2.2.2.1
  simp only [List.append_nil] at h0
  have hsh : ∃ ok, s.shut = .returned ok := by
    revert hr; unfold RSt.isReturned; cases ((RSt.fresh tp).run ls).shut <;> simp
  obtain ⟨ok, hsh⟩ := hsh
  have hb : s.begun = s.ended := by have := hinv.2; rw [h0] at this; simpa using this
  simp [Spec.readerObsOK, show s.inFlight = 0 from h0, hb, RSt.step, hsh, ShutPc.isSwapped]

/-! ### conservation through the split final collect -/

/-- every report taken out of the aggregator is in exactly one place: accepted by the exporter, rejected by it, handed
to a direct caller of Collect, or still held by the run loop / by Shutdown between their collect and the end of their export -/
def FSplit (s : RSt) : Prop :=
  ∀ a, totalAll s.st.reportsPairs a =
    totalAll (PSt.pairs s.exported) a + totalAll (PSt.pairs s.lost) a + totalAll (PSt.pairs s.direct) a +
    totalAll (PSt.pairs s.loop.held) a + totalAll (PSt.pairs s.shut.held) a

private theorem fsplit_step (s : RSt) (x : RLabel) (h : FSplit s) : FSplit (s.step x) := by
  intro a
  have h := h a
  cases x <;> simp only [RSt.step]
  case measure b v id => exact h
  case loopTick t =>
    split
    · rename_i hl
      simp only [RSt.loopCollect, reportsPairs_collect, hl, LoopPc.held, PSt.pairs, List.map_append, List.map_cons,
        List.map_nil, totalAll_append, totalAll] at h ⊢
      omega
    · exact h
  case loopRecvFlush t =>
    split
    · rename_i hl
      split
      · simp only [RSt.loopCollect, reportsPairs_collect, hl, LoopPc.held, PSt.pairs, List.map_append, List.map_cons,
          List.map_nil, totalAll_append, totalAll] at h ⊢
        omega
      · exact h
    · exact h
  case loopExportBegin =>
    split
    · rename_i f p hl
      simpa only [hl, LoopPc.held] using h
    · exact h
  case loopExportEnd ok =>
    split
    · rename_i f p hl
      cases ok <;>
        simp only [RSt.finish, hl, LoopPc.held, PSt.pairs, List.map_append, List.map_cons, List.map_nil,
          totalAll_append, totalAll, if_true, if_false, Bool.false_eq_true] at h ⊢ <;> omega
    · exact h
  case loopExit =>
    split
    · rename_i hl
      split
      · simpa only [hl, LoopPc.held] using h
      · exact h
    · exact h
  case flushCall => exact h
  case flushGiveUp => exact h
  case userCollect t =>
    split
    · exact h
    · simp only [reportsPairs_collect, PSt.pairs, List.map_append, List.map_cons, List.map_nil, totalAll_append,
        totalAll] at h ⊢
      omega
  case shutdownCall =>
    split
    · rename_i hsh; simpa only [hsh, ShutPc.held] using h
    · exact h
  case shutSwap =>
    split
    · rename_i hsh hl; simpa only [hsh, ShutPc.held] using h
    · exact h
  case shutCollect t =>
    split
    · rename_i hsh
      simp only [reportsPairs_collect, hsh, ShutPc.held, PSt.pairs, List.map_append, List.map_cons, List.map_nil,
        totalAll_append, totalAll] at h ⊢
      omega
    · exact h
  case shutCollectFail =>
    split
    · rename_i hsh; simpa only [hsh, ShutPc.held] using h
    · exact h
  case shutExportBegin =>
    split
    · rename_i p hsh; simpa only [hsh, ShutPc.held] using h
    · exact h
  case shutExportEnd ok =>
    split
    · rename_i p hsh
      cases ok <;>
        simp only [RSt.finish, hsh, ShutPc.held, PSt.pairs, List.map_append, List.map_cons, List.map_nil,
          totalAll_append, totalAll, if_true, if_false, Bool.false_eq_true] at h ⊢ <;> omega
    · exact h
  case shutExporterDown =>
    split
    · rename_i ok hsh; simpa only [hsh, ShutPc.held] using h
    · exact h

/-- the stream component of a reader step is zero or one stream steps -/
private theorem rstep_st (s : RSt) (x : RLabel) : (s.step x).st = s.st ∨ ∃ y, (s.step x).st = s.st.step y := by
  cases x <;> simp only [RSt.step]
  case measure a v id => exact Or.inr ⟨.measure a v id, rfl⟩
  case loopTick t => split; exact Or.inr ⟨.collect t, rfl⟩; exact Or.inl rfl
  case loopRecvFlush t =>
    split
    · split; exact Or.inr ⟨.collect t, rfl⟩; exact Or.inl rfl
    · exact Or.inl rfl
  case loopExportBegin => split <;> exact Or.inl rfl
  case loopExportEnd ok => split; (cases ok <;> exact Or.inl rfl); exact Or.inl rfl
  case loopExit => split; (split <;> exact Or.inl rfl); exact Or.inl rfl
  case flushCall => exact Or.inl trivial
  case flushGiveUp => exact Or.inl trivial
  case userCollect t => split; exact Or.inl rfl; exact Or.inr ⟨.collect t, rfl⟩
  case shutdownCall => split <;> exact Or.inl rfl
  case shutSwap => split <;> exact Or.inl rfl
  case shutCollect t => split; exact Or.inr ⟨.collect t, rfl⟩; exact Or.inl rfl
  case shutCollectFail => split <;> exact Or.inl rfl
  case shutExportBegin => split <;> exact Or.inl rfl
  case shutExportEnd ok => split; (cases ok <;> exact Or.inl rfl); exact Or.inl rfl
  case shutExporterDown => split <;> exact Or.inl rfl

/-- accepting exporter, no direct callers: nothing lost, nothing diverted -/
def RClean (s : RSt) : Prop := s.lost = [] ∧ s.direct = []

private theorem rclean_step (s : RSt) (x : RLabel) (hx : x.exportOk = true ∧ x.isDirect = false) (h : RClean s) :
    RClean (s.step x) := by
  obtain ⟨h1, h2⟩ := h
  cases x <;> simp only [RSt.step] <;> simp only [RLabel.exportOk, RLabel.isDirect] at hx
  case measure a v id => exact ⟨h1, h2⟩
  case loopTick t => split <;> exact ⟨h1, h2⟩
  case loopRecvFlush t => split; (split <;> exact ⟨h1, h2⟩); exact ⟨h1, h2⟩
  case loopExportBegin => split <;> exact ⟨h1, h2⟩
  case loopExportEnd ok => split; (simp only [hx.1, RSt.finish, if_true]; exact ⟨h1, h2⟩); exact ⟨h1, h2⟩
  case loopExit => split; (split <;> exact ⟨h1, h2⟩); exact ⟨h1, h2⟩
  case flushCall => exact ⟨h1, h2⟩
  case flushGiveUp => exact ⟨h1, h2⟩
  case userCollect t => simp at hx
  case shutdownCall => split <;> exact ⟨h1, h2⟩
  case shutSwap => split <;> exact ⟨h1, h2⟩
  case shutCollect t => split <;> exact ⟨h1, h2⟩
  case shutCollectFail => simp at hx
  case shutExportBegin => split <;> exact ⟨h1, h2⟩
  case shutExportEnd ok => split; (simp only [hx.1, RSt.finish, if_true]; exact ⟨h1, h2⟩); exact ⟨h1, h2⟩
  case shutExporterDown => split <;> exact ⟨h1, h2⟩

/-- once the producer is swapped and the loop has exited, no step takes anything out of the aggregator -/
private theorem swapped_reports_step (s : RSt) (x : RLabel) (hs : s.shut.isSwapped = true) (hl : s.loop = .exited)
    (hne : ∀ t, x ≠ .shutCollect t) :
    (s.step x).shut.isSwapped = true ∧ (s.step x).loop = .exited ∧ (s.step x).st.reports = s.st.reports := by
  cases x <;> simp only [RSt.step]
  case shutCollect t => exact absurd rfl (hne t)
  all_goals (try split) <;> (try split) <;>
    (try simp_all [ShutPc.isSwapped, RSt.finish, St.step])
  all_goals (try split) <;> (try simp_all)

/-- a `shutCollect` label is disabled once Shutdown has collected -/
private theorem shutCollect_disabled (s : RSt) (t : Nat) (h : s.shut ≠ .swapped) : s.step (.shutCollect t) = s := by
  cases hsh : s.shut <;> simp_all [RSt.step]

/-- **Final collect on Shutdown, step by step.**  Take any label sequence `pre ++ [shutCollect t] ++ post` in which the
final collect is enabled (Shutdown has cancelled the loop, waited for it and swapped the producer), the exporter accepts
every payload, nobody drains the reader through a direct Collect, and Shutdown has returned at the end.  Then what the
exporter received — through interval exports, ForceFlush-triggered exports and the final export, whatever measurements,
stale ticks and further calls were interleaved between the collect and export steps — adds up, for every attribute
set, to ALL measurements made before the final collect. -/
theorem reader_shutdown_final_collect (pre post : List RLabel) (t : Nat) (a : Attr)
    (hok : ∀ l ∈ pre ++ [.shutCollect t] ++ post, l.exportOk = true ∧ l.isDirect = false)
    (hen : ((RSt.fresh .delta).run pre).shut = .swapped)
    (hret : ((RSt.fresh .delta).run (pre ++ [.shutCollect t] ++ post)).isReturned = true) :
    deltaBalance ((RSt.fresh .delta).run pre).st.measuredPairs
      (PSt.pairs ((RSt.fresh .delta).run (pre ++ [.shutCollect t] ++ post)).exported) 0 a = true := by
  -- invariants at the end
  have hinv : (FSplit ((RSt.fresh .delta).run (pre ++ [.shutCollect t] ++ post)) ∧
      RClean ((RSt.fresh .delta).run (pre ++ [.shutCollect t] ++ post))) := by
    apply rrun_induction_on (fun s => FSplit s ∧ RClean s) (fun l => l.exportOk = true ∧ l.isDirect = false)
    · exact ⟨fun a => by simp [RSt.fresh, St.fresh, St.reportsPairs, PSt.pairs, totalAll, LoopPc.held, ShutPc.held], rfl, rfl⟩
    · intro s x hx ⟨h1, h2⟩; exact ⟨fsplit_step s x h1, rclean_step s x hx h2⟩
    · exact hok
  -- the stream after `pre`
  have hd : DeltaInv ((RSt.fresh .delta).run pre).st ∧ ((RSt.fresh .delta).run pre).st.tp = .delta := by
    apply rrun_induction (fun s => DeltaInv s.st ∧ s.st.tp = .delta)
    · exact ⟨fun a => by simp [RSt.fresh, St.fresh, St.reportsPairs, St.pending, St.measuredPairs, totalAll, total, cells], rfl⟩
    · intro s x ⟨h3, h4⟩
      rcases rstep_st s x with h | ⟨y, h⟩
      · rw [h]; exact ⟨h3, h4⟩
      · rw [h]; exact ⟨deltaInv_step _ y h4 h3, by cases y <;> exact h4⟩
  have hloop : ((RSt.fresh .delta).run pre).loop = .exited :=
    (rinv_run .delta pre).1 (by rw [hen]; rfl)
  generalize hs0 : (RSt.fresh .delta).run pre = s0 at *
  -- the collect step
  have hs1 : s0.step (.shutCollect t) =
      { s0 with st := s0.st.step (.collect t), shut := .collected (s0.st.agg.collect s0.st.tp t).2 } := by
    simp [RSt.step, hen]
  -- afterwards the reports are frozen
  have hfrozen : ∀ (post : List RLabel) (u : RSt), u.shut.isSwapped = true → u.loop = .exited → u.shut ≠ .swapped →
      (u.run post).st.reports = u.st.reports ∧ (u.run post).loop = .exited := by
    intro post
    induction post with
    | nil => intro u _ h2 _; exact ⟨rfl, h2⟩
    | cons x l ih =>
      intro u h1 h2 h3
      rw [rrun_cons]
      by_cases hx : ∃ t', x = .shutCollect t'
      · obtain ⟨t', rfl⟩ := hx
        rw [shutCollect_disabled u t' h3]
        exact ih u h1 h2 h3
      · have hs := swapped_reports_step u x h1 h2 (fun t' he => hx ⟨t', he⟩)
        have hne : (u.step x).shut ≠ .swapped := by
          intro he
          cases x <;> simp only [RSt.step] at he <;> (try split at he) <;> simp_all [ShutPc.isSwapped, RSt.finish]
          all_goals (try split at he) <;> simp_all [RSt.finish]
        have := ih (u.step x) hs.1 hs.2.1 hne
        exact ⟨by rw [this.1, hs.2.2], this.2⟩
  have hend : (RSt.fresh .delta).run (pre ++ [.shutCollect t] ++ post) = (s0.step (.shutCollect t)).run post := by
    rw [rrun_append, rrun_append, hs0]; rfl
  rw [hend] at hinv hret ⊢
  have hfr := hfrozen post (s0.step (.shutCollect t)) (by rw [hs1]; rfl) (by rw [hs1]; exact hloop) (by rw [hs1]; simp)
  generalize hse : (s0.step (.shutCollect t)).run post = se at *
  obtain ⟨hsplit, hcl1, hcl2⟩ := hinv
  have hretsh : ∃ ok, se.shut = .returned ok := by
    revert hret; unfold RSt.isReturned; cases se.shut <;> simp
  obtain ⟨ok, hretsh⟩ := hretsh
  have hsp := hsplit a
  have hrep : se.st.reportsPairs = (s0.st.step (.collect t)).reportsPairs := by
    unfold St.reportsPairs; rw [hfr.1, hs1]
  have hd1 := deltaInv_step s0.st (.collect t) hd.2 hd.1 a
  have hp0 : (s0.st.step (.collect t)).pending a = 0 := pending_after_delta_collect s0.st hd.2 t a
  have hm : (s0.st.step (.collect t)).measuredPairs = s0.st.measuredPairs := rfl
  simp only [hcl1, hcl2, hfr.2, hretsh, LoopPc.held, ShutPc.held, PSt.pairs, List.map_nil, totalAll, hrep] at hsp
  simp only [deltaBalance, beq_iff_eq, PSt.pairs]
  rw [hp0, hm] at hd1
  omega

/-- **ForceFlush is served by the run loop.**  The number of ForceFlush requests served never exceeds the number of
export calls that have returned: every served request had its own complete collect + export by the run loop. -/
theorem reader_flush_served_by_loop (tp : Temporality) (ls : List RLabel) :
    ((RSt.fresh tp).run ls).flushServed ≤ ((RSt.fresh tp).run ls).ended := by
  apply rrun_induction (fun s => s.flushServed ≤ s.ended)
  · simp [RSt.fresh]
  · intro s x h
    cases x <;> simp only [RSt.step] <;> (try split) <;> (try split) <;>
      simp_all [RSt.finish, RSt.loopCollect] <;> (try split) <;> simp_all <;> omega

/-! non-vacuity: an interval export, a ForceFlush served by the loop with a measurement between its collect and its
export, Shutdown racing with a stale tick, measurements between the final collect and the final export -/
example :
    let pre := [RLabel.measure 1 5 0, .loopTick 1, .measure 1 7 1, .loopExportBegin, .loopExportEnd true,
      .flushCall, .loopRecvFlush 2, .measure 2 (-3) 2, .loopExportBegin, .loopExportEnd true,
      .shutdownCall, .loopTick 3, .loopExportBegin, .measure 1 1 3, .loopExportEnd true, .loopExit, .shutSwap]
    let post := [RLabel.measure 1 100 4, .shutExportBegin, .loopTick 9, .flushCall, .shutExportEnd true, .shutExporterDown,
      .loopTick 10, .shutdownCall]
    let s := (RSt.fresh .delta).run (pre ++ [.shutCollect 4] ++ post)
    ((RSt.fresh .delta).run pre).shut = .swapped ∧ s.isReturned = true ∧ s.exported.length = 4 ∧ s.begun = 4 ∧
      s.ended = 4 ∧ s.flushServed = 1 ∧
      totalAll (PSt.pairs s.exported) 1 = 13 ∧ totalAll (PSt.pairs s.exported) 2 = -3 ∧ s.st.pending 1 = 100 := by
  decide

end Otel.C02
