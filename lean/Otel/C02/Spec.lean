/-
C02 — specification predicates (independent of the aggregator model's internals).
They are the conclusions of the theorems in Props.lean AND the oracle the driver evaluates on what the
implementation reported.  A *report* is the list of (attribute id, value) points of one collection of one
stream; *measurements* are (attribute id, value) pairs.
-/
namespace Otel.C02.Spec

/-- Σ of the values carried for attribute `a` (an absent attribute counts as 0) -/
def total : List (Nat × Int) → Nat → Int
  | [], _ => 0
  | (k, v) :: l, a => (if k = a then v else 0) + total l a

/-- Σ over several reports -/
def totalAll : List (List (Nat × Int)) → Nat → Int
  | [], _ => 0
  | r :: rs, a => total r a + totalAll rs a

/-- delta conservation for attribute `a`: everything reported so far + what is still pending = everything measured -/
def deltaBalance (measured : List (Nat × Int)) (reports : List (List (Nat × Int))) (pending : Int) (a : Nat) : Bool :=
  totalAll reports a + pending == total measured a

/-- cumulative: the report carries the running total of `a` -/
def cumulativeTotal (measured : List (Nat × Int)) (report : List (Nat × Int)) (a : Nat) : Bool :=
  total report a == total measured a

/-- a report mentions an attribute set at most once -/
def nodupAttrs (report : List (Nat × Int)) : Bool :=
  (report.map (·.1)).eraseDups.length == report.length

/-- a report only mentions attribute sets that were measured -/
def onlyMeasured (measured report : List (Nat × Int)) : Bool :=
  report.all fun p => measured.any fun m => m.1 == p.1

/-- every value of the report is ≥ 0 -/
def nonneg (report : List (Nat × Int)) : Bool := report.all fun p => decide (0 ≤ p.2)

/-- `later` is point-wise ≥ `earlier` on every attribute `earlier` mentions (which must still be present) -/
def monotoneStep (earlier later : List (Nat × Int)) : Bool :=
  earlier.all fun p => later.any (fun q => q.1 == p.1) && decide (total earlier p.1 ≤ total later p.1)

/-! exactly-once, observed black-box through base-`b` digits: goroutine `g` adds `b^g` at most `b-1` times, so
digit `g` of a reported total is the number of `g`'s additions it contains. -/

/-- base-`b` digits (least significant first) of a natural number, `fuel` digits -/
def digits (b : Nat) : Nat → Nat → List Nat
  | 0, _ => []
  | fuel + 1, n => (n % b) :: digits b fuel (n / b)

def addDigits : List Nat → List Nat → List Nat
  | [], ys => ys
  | xs, [] => xs
  | x :: xs, y :: ys => (x + y) :: addDigits xs ys

/-- the reports of one delta stream/attribute partition the additions: digit-wise they add up (WITHOUT carries)
to `rep` in each of the `g` digit positions; all values are non-negative -/
def digitsPartition (b g rep : Nat) (values : List Int) : Bool :=
  values.all (fun v => decide (0 ≤ v)) &&
  (values.foldl (fun acc v => addDigits acc (digits b (g + 2) v.toNat)) []) ==
    (if values.isEmpty then [] else List.replicate g rep ++ [0, 0])

/-- cumulative sequence of one collector: every digit is non-decreasing from one collection to the next -/
def digitsMonotone (b g : Nat) : List Int → Bool
  | x :: y :: l =>
    decide (0 ≤ x) && ((digits b (g + 2) x.toNat).zip (digits b (g + 2) y.toNat)).all (fun p => decide (p.1 ≤ p.2)) &&
      digitsMonotone b g (y :: l)
  | _ => true

end Otel.C02.Spec
