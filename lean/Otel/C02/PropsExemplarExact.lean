/-
C02 — the exemplar hand-off, collection by collection: the oracle's clause `Spec.exemplarsExact` (keep-all reservoir) is a
theorem about the model.  Every point of every collection — delta or cumulative, any filter, any cardinality limit —
carries exactly the exemplars let through for its attribute set since the previous collection, in the order of the
measurements, and every attribute set with such an exemplar has a point.
-/
import Otel.C02.PropsExemplar
import Otel.C08.History
namespace Otel.C02
open Spec Otel.C08

/-- what the reservoir of attribute set `a` holds -/
private def resOf (m : AMap (ECell (List Ex))) (a : Attr) : List Ex := ((m.get? a).map (·.res)).getD []

private def HInv (s : ESt (List Ex)) : Prop :=
  s.agg.values.keys.Nodup ∧ ∀ a, resOf s.agg.values a = pendingFor s.since a

private theorem pendingFor_snoc (since : List (Attr × Ex)) (b : Attr) (e : Ex) (a : Attr) :
    pendingFor (since ++ [(b, e)]) a = pendingFor since a ++ (if b = a then [e] else []) := by
  unfold pendingFor
  by_cases h : b = a <;> simp [List.filter_append, h]

private theorem hinv_step (f : Filt) (s : ESt (List Ex)) (x : EStep) (h : HInv s) : HInv (s.step keepAll f x) := by
  obtain ⟨hn, hr⟩ := h
  cases x with
  | measure a v sampled tag =>
    refine ⟨keys_upd_nodup _ _ _ hn, fun b => ?_⟩
    simp only [ESt.step, ESum.measure, resOf, get?_upd]
    have hb := hr b
    have ha := hr (limitAttr s.agg.limit s.agg.values a)
    simp only [resOf] at hb ha
    by_cases hab : limitAttr s.agg.limit s.agg.values a = b
    · subst hab
      cases hp : f.pass sampled
      · simp only [if_true, Option.map_some, Option.getD_some, ecell, Bool.false_eq_true, if_false]
        rw [← ha]
        cases s.agg.values.get? (limitAttr s.agg.limit s.agg.values a) <;> simp [keepAll]
      · simp only [if_true, Option.map_some, Option.getD_some, ecell, pendingFor_snoc]
        rw [← ha]
        cases s.agg.values.get? (limitAttr s.agg.limit s.agg.values a) <;> simp [keepAll]
    · cases hp : f.pass sampled
      · simp only [hab, if_false, Bool.false_eq_true]; exact hb
      · simp only [hab, if_false, if_true, pendingFor_snoc, List.append_nil]; exact hb
  | collect t =>
    cases htp : s.tp
    · refine ⟨by simp [ESt.step, htp, ESum.collect, ESum.delta, AMap.keys], fun b => ?_⟩
      simp [ESt.step, htp, ESum.collect, ESum.delta, resOf, AMap.get?, pendingFor]
    · refine ⟨by simpa [ESt.step, htp, ESum.collect, ESum.cumulative, AMap.keys, List.map_map, Function.comp_def] using hn,
        fun b => ?_⟩
      simp only [ESt.step, htp, ESum.collect, ESum.cumulative, resOf, keepAll, pendingFor, List.filter_nil, List.map_nil]
      have hm := get?_map s.agg.values (fun c : ECell (List Ex) => ({ n := c.n, res := [] } : ECell (List Ex))) b
      rw [hm]
      cases s.agg.values.get? b <;> rfl

private theorem hinv_run (f : Filt) (steps : List EStep) : ∀ (s : ESt (List Ex)), HInv s → HInv (s.run keepAll f steps) := by
  induction steps with
  | nil => intro s h; exact h
  | cons x l ih => intro s h; exact ih _ (hinv_step f s x h)

/-- **Exactness of every collection's exemplars** (the oracle's clause, as a theorem).  After any step sequence, the points
a collection would report now satisfy `Spec.exemplarsExact` with respect to the offers let through since the previous
collection: keep-all reservoir, every filter, both temporalities, any limit; `prev` (the previous collection's points) is
irrelevant for this reservoir. -/
theorem exemplar_collection_exact (f : Filt) (tp : Temporality) (limit : Nat) (mono : Bool) (start : Nat)
    (steps : List EStep) (t : Nat) (prev : List (Attr × EVal)) :
    let s := (ESt.fresh tp limit mono start : ESt (List Ex)).run keepAll f steps
    exemplarsExact none (tp == .cumulative) prev s.since
      ((s.agg.collect keepAll s.tp t).2.map fun p => (p.attr, p.val)) = true := by
  intro s
  have hinv : HInv s := hinv_run f steps _ ⟨by simp [ESt.fresh, AMap.keys], fun a => by simp [ESt.fresh, resOf, AMap.get?, pendingFor]⟩
  obtain ⟨hn, hr⟩ := hinv
  have hpts : (s.agg.collect keepAll s.tp t).2.map (fun p => (p.attr, p.val)) =
      s.agg.values.map fun kv => (kv.1, (⟨kv.2.n, kv.2.res⟩ : EVal)) := by
    cases s.tp <;> simp [ESum.collect, ESum.delta, ESum.cumulative, mkPoints, keepAll, Function.comp_def]
  rw [hpts]
  simp only [exemplarsExact, expectedEx, Bool.and_eq_true, List.all_eq_true, List.mem_map, beq_iff_eq, List.any_eq_true]
  constructor
  · rintro p ⟨kv, hkv, rfl⟩
    have hg := get?_of_mem s.agg.values kv.1 kv.2 hn hkv
    have := hr kv.1
    simp only [resOf, hg, Option.map_some, Option.getD_some] at this
    exact this
  · intro o ho
    have hne : pendingFor s.since o.1 ≠ [] := by
      intro he
      have : o.2 ∈ pendingFor s.since o.1 := by
        simp only [pendingFor, List.mem_map, List.mem_filter]
        exact ⟨o, ⟨ho, by simp⟩, rfl⟩
      rw [he] at this; cases this
    have hsome : (s.agg.values.get? o.1).isSome = true := by
      have := hr o.1
      simp only [resOf] at this
      cases hg : s.agg.values.get? o.1 with
      | none => rw [hg] at this; simp at this; exact absurd this hne
      | some c => rfl
    obtain ⟨c, hc⟩ := Option.isSome_iff_exists.1 hsome
    exact ⟨(o.1, ⟨c.n, c.res⟩), ⟨(o.1, c), get?_some_mem _ _ _ hc, rfl⟩, by simp⟩

/-! non-vacuity -/
example :
    let s := (ESt.fresh .cumulative : ESt (List Ex)).run keepAll .traceBased
      [.measure 1 5 true 1, .collect 1, .measure 1 7 true 3, .measure 2 1 false 4, .measure 1 2 true 5]
    s.since = [(1, ⟨7, 3⟩), (1, ⟨2, 5⟩)] ∧
    ((s.agg.collect keepAll s.tp 9).2.map fun p => (p.attr, p.val.n, p.val.exs.map (·.tag))) = [(1, 14, [3, 5]), (2, 1, [])] := by
  decide

end Otel.C02
