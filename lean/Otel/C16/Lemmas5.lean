import Otel.C16.Lemmas3
/-
C16 — invariants of the callback wrapper (`unwrapCallback` / `unwrapObs`, internal/global/meter.go): every invocation
of a forwarded callback owns its wrapper, so what the user function observes goes to the Observer of the collection
the invocation belongs to; and a callback can only be invoked once the instruments of its meter have delegates.
-/
namespace Otel.C16

/-- wrapper invariant (both Unregister variants) -/
structure CbInv (s : St) : Prop where
  notShared : s.sharedWrap = false
  /-- an invocation in flight forwards to the observer it was invoked with; the SDK holds that callback -/
  own : ∀ t r o w, s.frame t = .cbRun r o w → w = o ∧ r < s.nR ∧ 1 ≤ s.sdkReg r
  /-- every observation made so far was delivered to the observer of the collection it was made for -/
  log : ∀ e, e ∈ s.obsLog → e.target = e.coll

theorem cbInv_init : CbInv St.init := by
  constructor <;> simp [St.init]

set_option maxHeartbeats 1600000 in
theorem cbInv_step {old : Bool} {s s' : St} {t : Nat} {a : Act}
    (I : CbInv s) (h : step old s t a = some s') : CbInv s' := by
  obtain ⟨i1, i2, i3⟩ := I
  cases a <;> lts_step h []

theorem cbInv_reachable {old : Bool} {s : St} (h : Reachable old s) : CbInv s := by
  induction h with
  | init => exact cbInv_init
  | step t a _ hs ih => exact cbInv_step ih hs

/-- current code: a registration the SDK knows belongs to a meter whose delegate is set and whose placeholder
instruments have all been given their delegates (`meter.setDelegate` walks `m.instruments` BEFORE `m.registry`, and
RegisterCallback on a delegated meter waits for `m.mtx`) -/
structure CbDelInv (s : St) : Prop where
  delLocked : ∀ m, s.mDel m = true → s.mDone m = false → s.mOwner m ≠ none
  regLockedEmpty : ∀ t m r, s.frame t = .iRegLocked m r → s.pend m = []
  sdkDel : ∀ r, r < s.nR → 1 ≤ s.sdkReg r → s.mDel (s.rMeter r) = true ∧ s.pend (s.rMeter r) = []

theorem cbDelInv_init : CbDelInv St.init := by
  constructor <;> simp [St.init]

set_option maxHeartbeats 6400000 in
theorem cbDelInv_step {s s' : St} {t : Nat} {a : Act}
    (L : LockInv s) (D : DelInv s) (R : RegInv s) (I : CbDelInv s) (h : step false s t a = some s') :
    CbDelInv s' := by
  have u2 : ∀ t m r, s.frame t = .iRegLocked m r → s.mOwner m = some t ∧ s.mDel m = true ∧ s.rMeter r = m ∧ r < s.nR := by
    intro t m r hf
    have hm := R.member m r (R.lockedIn t m r hf)
    exact ⟨L.hMeter m t (by simp [hf, meterFrame]), D.frameDel t m (by simp [hf, delFrame]), hm.2.1, hm.2.2⟩
  have u3 : ∀ t m, s.frame t = .iInsts m → s.mOwner m = some t := by
    intro t m hf; exact L.hMeter m t (by simp [hf, meterFrame])
  have u4 : ∀ t m, s.frame t = .iMeterLocked m → s.mOwner m = some t := by
    intro t m hf; exact L.hMeter m t (by simp [hf, meterFrame])
  have u5 : ∀ m, s.mDone m = true → s.pend m = [] := fun m hm => (D.doneEmpty m hm).1
  have u6 : ∀ r, r < s.nR → s.rMeter r < s.nM := R.regMeter
  obtain ⟨i1, i2, i3⟩ := I
  cases a <;> lts_step h []

/-- a registration the SDK rejects is never live in the SDK -/
structure BadInv (s : St) : Prop where
  zero : ∀ r, s.rBad r = true → s.sdkReg r = 0 ∧ s.rUnreg r ≠ .sdk
  lt : ∀ r, s.rBad r = true → r < s.nR

theorem badInv_step {old : Bool} {s s' : St} {t : Nat} {a : Act}
    (I : BadInv s) (h : step old s t a = some s') : BadInv s' := by
  obtain ⟨i1, i2⟩ := I
  cases a <;> lts_step h []

theorem badInv_reachable {old : Bool} {s : St} (h : Reachable old s) : BadInv s := by
  induction h with
  | init => exact ⟨by simp [St.init], by simp [St.init]⟩
  | step t a _ hs ih => exact badInv_step ih hs

theorem cbDelInv_reachable {s : St} (h : Reachable false s) : CbDelInv s := by
  induction h with
  | init => exact cbDelInv_init
  | step t a hr hs ih =>
    exact cbDelInv_step (lockInv_reachable hr) (delInv_reachable hr) (regInv_reachable hr) ih hs

end Otel.C16
