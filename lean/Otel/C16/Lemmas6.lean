import Otel.C16.Lemmas
/-
C16 — fresh indices: no label touches a meter / instrument / registration index that has not been handed out yet,
so `meterNew` (which only increments `nM`), `mk` and `reg` really create entities whose fields have their initial
values (formerly an assumption of the model).
-/
namespace Otel.C16

structure FreshInv (s : St) : Prop where
  mOwner : ∀ m, s.nM ≤ m → s.mOwner m = none
  mDel : ∀ m, s.nM ≤ m → s.mDel m = false
  mDone : ∀ m, s.nM ≤ m → s.mDone m = false
  pend : ∀ m, s.nM ≤ m → s.pend m = []
  registry : ∀ m, s.nM ≤ m → s.registry m = []
  iDel : ∀ i, s.nI ≤ i → s.iDel i = false
  rOwner : ∀ r, s.nR ≤ r → s.rOwner r = none
  rUnreg : ∀ r, s.nR ≤ r → s.rUnreg r = .none
  sdkReg : ∀ r, s.nR ≤ r → s.sdkReg r = 0
  /-- frames only mention entities that exist -/
  fLocked : ∀ t m, s.frame t = .iMeterLocked m → m < s.nM
  fInsts : ∀ t m, s.frame t = .iInsts m → m < s.nM
  fReg : ∀ t m r, s.frame t = .iRegLocked m r → m < s.nM ∧ r < s.nR
  fTaken : ∀ t r u, s.frame t = .unregTaken r u → r < s.nR
  fHeld : ∀ t r, s.frame t = .oUnregHeld r → r < s.nR
  fCb : ∀ t r o w, s.frame t = .cbRun r o w → r < s.nR
  /-- what the maps contain exists -/
  pendLt : ∀ m i, i ∈ s.pend m → i < s.nI
  regLt : ∀ m r, r ∈ s.registry m → r < s.nR

theorem freshInv_init : FreshInv St.init := by
  constructor <;> simp [St.init]

set_option maxHeartbeats 6400000 in
theorem freshInv_step {old : Bool} {s s' : St} {t : Nat} {a : Act}
    (I : FreshInv s) (h : step old s t a = some s') : FreshInv s' := by
  have e1 : ∀ (l : List Nat) (x y : Nat), x ∈ l.erase y → x ∈ l := fun l x y hx => List.mem_of_mem_erase hx
  have e2 : ∀ m r tl, s.registry m = r :: tl → r < s.nR := by
    intro m r tl hm; exact I.regLt m r (by simp [hm])
  obtain ⟨i1, i2, i3, i4, i5, i6, i7, i8, i9, i10, i11, i12, i13, i14, i15, i16, i17⟩ := I
  cases a <;> lts_step h []

theorem freshInv_reachable {old : Bool} {s : St} (h : Reachable old s) : FreshInv s := by
  induction h with
  | init => exact freshInv_init
  | step t a _ hs ih => exact freshInv_step ih hs

end Otel.C16
