import Otel.C16.Lemmas4
import Otel.C16.Witness
/-
C16 — property theorems. `Reachable false` = the current code (after fix 0adb2b2), every number of goroutines,
every program of API calls, every interleaving of the atomic sections. `Reachable true` = the original
`Registration.Unregister`.
-/
namespace Otel.C16

/-! ### deadlock freedom (clause "any interleaving … completes without deadlock") -/

inductive Lock where
  | once | prov | meter (m : Nat) | reg (r : Nat)

/-- providerMtx (and the Once in front of it) < meterMtx < unregMu; the SDK's own locks are above all of them
(they are only taken inside labels, never held across one) -/
def rank : Lock → Nat
  | .once => 0 | .prov => 1 | .meter _ => 2 | .reg _ => 3

def holds (s : St) (t : Nat) : Lock → Prop
  | .once => s.onceOwner = some t
  | .prov => s.provOwner = some t
  | .meter m => s.mOwner m = some t
  | .reg r => s.rOwner r = some t

/-- the lock that label `a` of thread `t` acquires in state `s` -/
def wants (s : St) (t : Nat) : Act → Option Lock
  | .meterNew | .meterGet => some .prov
  | .mk m _ | .reg m | .regBad m | .regPartial m => some (.meter m)
  | .unregTake r | .oUnregLock r => some (.reg r)
  | .unregCall => match s.frame t with
    | .unregTaken r .closure => some (.meter (s.rMeter r))
    | _ => none
  | .oUnregCall => match s.frame t with
    | .oUnregHeld r => if s.rUnreg r = .closure then some (.meter (s.rMeter r)) else none
    | _ => none
  | .instBegin => if s.onceDone then none else some .once
  | .instLockProv => some .prov
  | .instLockMeter m => some (.meter m)
  | .instRegLock => match s.frame t with
    | .iInsts m => match s.registry m with
      | r :: _ => some (.reg r)
      | [] => none
    | _ => none
  | _ => none

set_option maxHeartbeats 1600000 in
/-- **Lock-rank lemma** (current code): whenever a thread acquires a lock, every lock it already holds has a
strictly smaller rank (providerMtx < meterMtx < unregMu). -/
theorem lock_rank {s s' : St} {t : Nat} {a : Act} {l l' : Lock} (hr : Reachable false s)
    (hs : step false s t a = some s') (hw : wants s t a = some l) (hh : holds s t l') : rank l' < rank l := by
  have L := lockInv_reachable hr
  have O := noOld_reachable hr
  obtain ⟨l1, l2, l3, l4, _, _, _, _⟩ := L
  obtain ⟨o1⟩ := O
  cases l' <;> simp only [holds] at hh
  · have := l1 t hh
    cases a <;> simp only [step] at hs <;> (repeat' split at hs) <;>
      (first | (simp at hs; done) | (simp_all [wants, onceFrame] <;> (try split at hw) <;> (try simp_all) <;> (try (subst hw; simp [rank]))))
  · have := l2 t hh
    cases a <;> simp only [step] at hs <;> (repeat' split at hs) <;>
      (first | (simp at hs; done) | (simp_all [wants, provFrame] <;> (try split at hw) <;> (try simp_all) <;> (try (subst hw; simp [rank]))))
  · have := l3 _ t hh
    cases a <;> simp only [step] at hs <;> (repeat' split at hs) <;>
      (first | (simp at hs; done) | (simp_all [wants, meterFrame] <;> (try split at hw) <;> (try simp_all) <;> (try (subst hw; simp [rank]))))
  · have := l4 _ t hh
    cases a <;> simp only [step] at hs <;> (repeat' split at hs) <;>
      (first | (simp at hs; done) | (simp_all [wants, regFrame] <;> (try split at hw) <;> (try simp_all) <;> (try (subst hw; simp [rank]))))

/-- **No deadlock** (current code): in every reachable state in which some call is in progress, some thread that
is inside a call can take its next step (the lock-rank argument: the holder of the highest-ranked contended lock
is never blocked). Together with `locks_free_when_idle` no call can be blocked for ever by other calls. -/
theorem global_deadlock_free {s : St} (hr : Reachable false s) (h : ∃ t, s.frame t ≠ .idle) :
    ∃ t a, s.frame t ≠ .idle ∧ (step false s t a).isSome = true := by
  obtain ⟨t, ht⟩ := h
  exact progress_any (lockInv_reachable hr) (noOld_reachable hr) ht

/-- when no call is in progress no lock is held (so every call can start) -/
theorem locks_free_when_idle {old : Bool} {s : St} (hr : Reachable old s) (h : ∀ t, s.frame t = .idle) :
    s.onceOwner = none ∧ s.provOwner = none ∧ (∀ m, s.mOwner m = none) ∧ (∀ r, s.rOwner r = none) := by
  have L := lockInv_reachable hr
  refine ⟨?_, ?_, ?_, ?_⟩
  · cases ho : s.onceOwner with
    | none => rfl
    | some t => have := L.once t ho; simp [h t, onceFrame] at this
  · cases ho : s.provOwner with
    | none => rfl
    | some t => have := L.prov t ho; simp [h t, provFrame] at this
  · intro m
    cases ho : s.mOwner m with
    | none => rfl
    | some t => have := L.meter m t ho; simp [h t, meterFrame] at this
  · intro r
    cases ho : s.rOwner r with
    | none => rfl
    | some t => have := L.reg r t ho; simp [h t, regFrame] at this

/-- **F15 witness** (original Unregister): a reachable state in which the installer (thread 0, holding meter.mtx)
waits for unregMu and the unregistering thread (thread 1, holding unregMu) waits for meter.mtx — neither has an
enabled label, and whatever any thread does afterwards both stay where they are, for ever. -/
theorem global_deadlock_witness :
    ∃ w, Reachable true w ∧ w.frame 0 = .iInsts 0 ∧ w.frame 1 = .oUnregHeld 0 ∧
      holds w 0 (.meter 0) ∧ holds w 1 (.reg 0) ∧
      (∀ a, step true w 0 a = none) ∧ (∀ a, step true w 1 a = none) ∧
      ∀ l s', runLabels true w l = some s' → s'.frame 0 = .iInsts 0 ∧ s'.frame 1 = .oUnregHeld 0 := by
  have S := stuck_wState
  refine ⟨wState, reachable_runLabels _ Reachable.init wState_run, S.f0, S.f1, S.m0, S.r0, ?_, ?_, ?_⟩
  · intro a
    cases h : step true wState 0 a with
    | none => rfl
    | some s' =>
      have S' := stuck_step S h
      obtain ⟨i1, i2, i3, i4, i5, i6, i7, i8, i9, i10, i11, i12, i13, i14⟩ := S
      exfalso
      cases a <;> simp only [step] at h <;> (repeat' split at h) <;> simp_all
  · intro a
    cases h : step true wState 1 a with
    | none => rfl
    | some s' =>
      obtain ⟨i1, i2, i3, i4, i5, i6, i7, i8, i9, i10, i11, i12, i13, i14⟩ := S
      exfalso
      cases a <;> simp only [step] at h <;> (repeat' split at h) <;> simp_all
  · intro l s' h
    have S' := stuck_forever l S h
    exact ⟨S'.f0, S'.f1⟩

/-- the original Unregister violates the lock order: it acquires meter.mtx (rank 2) while holding unregMu (rank 3) -/
theorem lock_rank_violated_by_original_unregister :
    ∃ s t a l l', Reachable true s ∧ wants s t a = some l ∧ holds s t l' ∧ rank l < rank l' := by
  refine ⟨wState, 1, .oUnregCall, .meter 0, .reg 0, reachable_runLabels _ Reachable.init wState_run, ?_, ?_, by decide⟩
  · have S := stuck_wState
    simp [wants, S.f1, S.un0, S.rm0]
  · exact stuck_wState.r0

/-! ### forwarding (clauses "start forwarding as soon as installation returns", "instruments created while
installation is in progress are never left permanently unconnected") -/

/-- A handed-out instrument that has no delegate yet is in its meter's `instruments` map and that meter has not
been completed by `setDelegate` — it *will* be visited: nothing created before or during the installation is
left behind (created under meter.mtx ⇒ either still pending, or created after `m.delegate` was set and direct). -/
theorem no_instrument_left_behind {old : Bool} {s : St} (hr : Reachable old s) {i : Nat}
    (hi : i < s.nI) (hd : s.iDel i = false) :
    i ∈ s.pend (s.iMeter i) ∧ s.mDone (s.iMeter i) = false := by
  have D := delInv_reachable hr
  have hp := D.pending i hi hd
  refine ⟨hp, ?_⟩
  cases hm : s.mDone (s.iMeter i) with
  | false => rfl
  | true => have := (D.doneEmpty _ hm).1; rw [this] at hp; simp at hp

/-- **Forwarding after installation**: once `SetMeterProvider`'s once-body has completed (a fortiori once the
call has returned) every instrument ever handed out has a delegate … -/
theorem forwarding_after_install {old : Bool} {s : St} (hr : Reachable old s) (hd : s.onceDone = true)
    {i : Nat} (hi : i < s.nI) : s.iDel i = true := by
  have D := delInv_reachable hr
  cases h : s.iDel i with
  | true => rfl
  | false =>
    have hp := D.pending i hi h
    have hm := D.onceAll hd _ (D.instMeter i hi)
    rw [(D.doneEmpty _ hm).1] at hp
    simp at hp

/-- … hence every measurement (span) started afterwards loads a non-nil delegate and reaches the SDK recorder. -/
theorem measurement_after_install_reaches_sdk {old : Bool} {s s1 : St} {t i v c : Nat} (hr : Reachable old s)
    (hd : s.onceDone = true) (h1 : step old s t (.addLoad i v c) = some s1) :
    s1.frame t = .addLoaded i v c true ∧
    ∀ s2 s3, s2.frame t = .addLoaded i v c true → step old s2 t .addFwd = some s3 →
      s3.recorded = (i, v) :: s2.recorded := by
  simp only [step] at h1
  split at h1
  · next hc =>
    simp only [Option.some.injEq] at h1
    subst h1
    refine ⟨by simp [forwarding_after_install hr hd hc.2], ?_⟩
    intro s2 s3 hf h2
    simp [step, hf] at h2
    subst h2
    rfl
  · simp at h1

/-- a loaded delegate is always forwarded to: the window between `delegate.Load()` and the call loses nothing -/
theorem loaded_delegate_is_used {old : Bool} {s : St} {t i v c : Nat} (hf : s.frame t = .addLoaded i v c true) :
    ∃ s', step old s t .addFwd = some s' ∧ s'.recorded = (i, v) :: s.recorded := by
  refine ⟨{ s with frame := upd s.frame t .idle, recorded := (i, v) :: s.recorded }, ?_, rfl⟩
  simp [step, hf]

/-- **Forwarding does not depend on the instrument kind**: the kind the placeholder was created with (`iKind`,
one of the 14 constructors) is never read by the load / forward labels — replacing the kind table by any other
one commutes with both labels … -/
theorem add_labels_ignore_kind {old : Bool} {s : St} {t : Nat} (f : Nat → Nat) (a : Act)
    (ha : a = .addFwd ∨ ∃ i v c, a = .addLoad i v c) :
    step old { s with iKind := f } t a = (step old s t a).map (fun x => { x with iKind := f }) := by
  rcases ha with rfl | ⟨i, v, c, rfl⟩
  · simp only [step]
    cases s.frame t <;> simp
    split <;> simp
  · simp only [step]
    split <;> simp

/-- … and the forwarding theorem holds for an instrument of every kind `k` -/
theorem forwarding_kind_independent {old : Bool} {s : St} (hr : Reachable old s) (hd : s.onceDone = true)
    {i : Nat} (hi : i < s.nI) (k : Nat) (_hk : s.iKind i = k) : s.iDel i = true :=
  forwarding_after_install hr hd hi

/-- **Span forwarding is independent of the context**: whatever the caller's context carries (nothing, a
placeholder span handed out before the installation — by this tracer or another one —, a real SDK span), `Start`
takes the same decision and leaves the same state: the context tag `c` is not read by any label. (The SDK decides
parentage from the span context in `ctx`; the global layer must not.) -/
theorem span_forwarding_independent_of_context {old : Bool} {s s1 s1' s2 s2' : St} {t i v c c' : Nat}
    (h1 : step old s t (.addLoad i v c) = some s1) (h1' : step old s t (.addLoad i v c') = some s1')
    (h2 : step old s1 t .addFwd = some s2) (h2' : step old s1' t .addFwd = some s2') : s2 = s2' := by
  simp only [step] at h1 h1'
  split at h1
  · next hc =>
    simp only [hc, and_self, if_true, Option.some.injEq] at h1 h1'
    subst h1; subst h1'
    simp only [step, upd_same] at h2 h2'
    cases hd : s.iDel i <;> simp [hd] at h2 h2' <;> rw [← h2, ← h2'] <;> simp <;>
      (funext x; simp only [upd]; split <;> rfl)
  · simp at h1

/-- … and `Start` is enabled for every context alike -/
theorem span_start_enabled_for_every_context {old : Bool} {s s1 : St} {t i v c : Nat} (c' : Nat)
    (h1 : step old s t (.addLoad i v c) = some s1) : (step old s t (.addLoad i v c')).isSome = true := by
  simp only [step] at h1 ⊢
  split at h1
  · next hc => simp [hc]
  · simp at h1

/-! ### self-set (`SetMeterProvider(GetMeterProvider())` / `SetTracerProvider(GetTracerProvider())` while the
placeholder is still the global value — a save/restore helper): documented no-op, must not use up the once -/

/-- a self-set changes nothing: not the once, not the stored provider, no delegate, no frame -/
theorem self_set_is_noop {old : Bool} {s s' : St} {t : Nat} (h : step old s t .selfSet = some s') : s' = s := by
  simp only [step] at h
  split at h
  · exact (Option.some.inj h).symm
  · simp at h

/-- it never blocks: enabled for every idle thread as long as the placeholder is the global value -/
theorem self_set_enabled {old : Bool} {s : St} {t : Nat} (hf : s.frame t = .idle) (hs : s.stored = false) :
    step old s t .selfSet = some s := by
  simp [step, hf, hs]

/-- any number of self-sets by any threads, at any moment (before, during, after the installation) -/
theorem self_sets_are_noop {old : Bool} {s s' : St} (ts : List Nat)
    (h : runLabels old s (ts.map fun t => (t, Act.selfSet)) = some s') : s' = s := by
  induction ts generalizing s with
  | nil => simp [runLabels] at h; exact h.symm
  | cons t r ih =>
    simp only [List.map_cons, runLabels] at h
    split at h
    · next s1 h1 => rw [self_set_is_noop h1] at h; exact ih h
    · simp at h

/-- in particular the once is still available after self-sets: the real installation that follows runs
`setDelegate` (it enters the once instead of taking the fast path). `Reachable` contains every schedule with
self-sets, so `forwarding_after_install`, `no_instrument_left_behind`, `callback_registered_once` hold for them. -/
theorem install_after_self_sets_enters_once {s s1 s2 : St} (ts : List Nat) {t : Nat}
    (h0 : s.onceDone = false) (h1 : runLabels false s (ts.map fun t => (t, Act.selfSet)) = some s1)
    (h2 : step false s1 t .instBegin = some s2) : s2.frame t = .iOnce ∧ s2.onceOwner = some t := by
  have := self_sets_are_noop ts h1
  subst this
  simp only [step] at h2
  split at h2
  · simp only [h0] at h2
    split at h2
    · next hc => exact absurd hc (by simp)
    · split at h2
      · simp only [Option.some.injEq] at h2; subst h2; simp
      · simp at h2
  · simp at h2

/-! ### callbacks (clause "each previously registered callback is registered with the SDK exactly once unless it
had been unregistered") -/

/-- never twice -/
theorem callback_never_registered_twice {s : St} (hr : Reachable false s) (r : Nat) : s.sdkReg r ≤ 1 :=
  (regInv_reachable hr).once r

/-- exactly once after the installation unless Unregister was called (or the SDK rejected the registration — `rBad`,
see `rejected_callback_does_not_stop_the_others` in PropsCb.lean): registered once, not unregistered -/
theorem callback_registered_once {s : St} (hr : Reachable false s) (hd : s.onceDone = true) {r : Nat}
    (hlt : r < s.nR) (hu : s.unregCalled r = false) (hb : s.rBad r = false) : s.sdkReg r = 1 ∧ s.sdkUnreg r = 0 := by
  have R := regInv_reachable hr
  have D := delInv_reachable hr
  have hnn : s.rUnreg r ≠ .none := by
    intro h; have := (R.called r hlt).mp h; simp [hu] at this
  have hnc : s.rUnreg r ≠ .closure := by
    intro h
    have hin := R.closureIn r h hb
    have hm := D.onceAll hd _ (R.regMeter r hlt)
    rw [(D.doneEmpty _ hm).2] at hin
    simp at hin
  have hs : s.rUnreg r = .sdk := by
    cases h : s.rUnreg r <;> simp_all
  have hb := R.balance r
  have ho := R.once r
  simp [hs] at hb
  omega

/-- an Unregister — before, during or after the installation — keeps the callback out of the SDK: once the call
has been made and no Unregister call still holds the SDK handle, the SDK has no live registration for it
(in particular an Unregister before the installation is honoured, one after it unregisters from the SDK) -/
theorem callback_unregistered_not_live {s : St} (hr : Reachable false s) {r : Nat} (hlt : r < s.nR)
    (hu : s.unregCalled r = true) (ht : s.tok r = false) : s.sdkReg r = s.sdkUnreg r := by
  have R := regInv_reachable hr
  have hn := (R.called r hlt).mpr hu
  have hb := R.balance r
  simp [hn, ht] at hb
  exact hb

/-- a thread that holds the SDK handle of `r` (took it in `Unregister`) is the only one -/
theorem unregister_handle_taken_once {s : St} (hr : Reachable false s) {t t' r : Nat}
    (h1 : s.frame t = .unregTaken r .sdk) (h2 : s.frame t' = .unregTaken r .sdk) : t = t' :=
  (regInv_reachable hr).tokUnique t t' r h1 h2

/-! ### non-vacuity: concrete runs -/

/-- instrument created before, measurement dropped before, installation, measurement forwarded after;
callback registered before is registered with the SDK once -/
def demoLabels : List (Nat × Act) :=
  [(0, .meterNew), (0, .mk 0 1), (0, .reg 0), (1, .addLoad 0 5 0), (1, .addFwd),
   (4, .selfSet),                    -- save/restore helper before any SDK exists
   (2, .instBegin), (2, .instLockProv), (2, .instLockMeter 0), (2, .instSetDel),
   (3, .mk 0 3),                     -- blocked in reality; here: must not be enabled
   (2, .instInst 0), (2, .instRegLock), (2, .instRegBody), (2, .instMeterDone), (2, .instProvUnlock),
   (2, .instOnceDone), (2, .instStore), (1, .addLoad 0 7 3), (1, .addFwd)]

example : (runLabels false St.init demoLabels).isNone = true := by decide   -- `mk 0` under the installer's lock is disabled
example :
    ((runLabels false St.init (demoLabels.eraseIdx 10)).map
      fun s => (s.onceDone, s.recorded, s.dropped, s.sdkReg 0, s.iDel 0)) = some (true, [(0, 7)], [(0, 5)], 1, true) := by
  decide
example : (step false wState 0 .instRegLock) = none := by decide

end Otel.C16
