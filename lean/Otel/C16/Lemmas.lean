import Otel.C16.Model
/-
C16 — inductive invariants of the LTS (helper lemmas for Props.lean).
-/
namespace Otel.C16

@[simp] theorem upd_same {α : Type} (f : Nat → α) (k : Nat) (v : α) : upd f k v k = v := by simp [upd]
theorem upd_apply {α : Type} (f : Nat → α) (k : Nat) (v : α) (x : Nat) :
    upd f k v x = if x = k then v else f x := rfl

def onceFrame : Frame → Prop
  | .iOnce | .iProv | .iMeterLocked _ | .iInsts _ | .iRegLocked _ _ | .iUnlocked => True
  | _ => False
def provFrame : Frame → Prop
  | .iProv | .iMeterLocked _ | .iInsts _ | .iRegLocked _ _ => True
  | _ => False
def meterFrame (m : Nat) : Frame → Prop
  | .iMeterLocked m' | .iInsts m' | .iRegLocked m' _ => m' = m
  | _ => False
def regFrame (r : Nat) : Frame → Prop
  | .iRegLocked _ r' | .oUnregHeld r' => r' = r
  | _ => False

/-- every held lock is held by a thread whose frame says so, and conversely -/
structure LockInv (s : St) : Prop where
  once : ∀ t, s.onceOwner = some t → onceFrame (s.frame t)
  prov : ∀ t, s.provOwner = some t → provFrame (s.frame t)
  meter : ∀ m t, s.mOwner m = some t → meterFrame m (s.frame t)
  reg : ∀ r t, s.rOwner r = some t → regFrame r (s.frame t)
  hOnce : ∀ t, onceFrame (s.frame t) → s.onceOwner = some t
  hProv : ∀ t, provFrame (s.frame t) → s.provOwner = some t
  hMeter : ∀ m t, meterFrame m (s.frame t) → s.mOwner m = some t
  hReg : ∀ r t, regFrame r (s.frame t) → s.rOwner r = some t

theorem lockInv_init : LockInv St.init := by
  constructor <;> simp [St.init, onceFrame, provFrame, meterFrame, regFrame]

/-- the work-horse: split `step` into its enabled branches, substitute the successor state, and close every
field of the invariant structure with `grind` (the hypotheses in scope are the fields of the invariant in `s`) -/
syntax "lts_step " ident " [" Lean.Parser.Tactic.grindParam,* "]" : tactic
macro_rules
  | `(tactic| lts_step $h:ident [$ls,*]) => `(tactic|
      (simp only [step] at $h:ident <;> (repeat' split at $h:ident) <;>
        (first | (simp at $h:ident; done)
               | (simp only [Option.some.injEq] at $h:ident; subst $h:ident; constructor <;>
                   (try simp only [upd_apply]) <;> grind [$ls,*]))))

set_option maxHeartbeats 1600000 in
theorem lockInv_step {old : Bool} {s s' : St} {t : Nat} {a : Act}
    (I : LockInv s) (h : step old s t a = some s') : LockInv s' := by
  obtain ⟨i1, i2, i3, i4, i5, i6, i7, i8⟩ := I
  cases a <;> lts_step h [onceFrame, provFrame, meterFrame, regFrame]

theorem lockInv_reachable {old : Bool} {s : St} (h : Reachable old s) : LockInv s := by
  induction h with
  | init => exact lockInv_init
  | step t a _ hs ih => exact lockInv_step ih hs

/-- current code: the original Unregister's frame never occurs -/
structure NoOld (s : St) : Prop where
  no : ∀ t r, s.frame t ≠ .oUnregHeld r

theorem noOld_step {s s' : St} {t : Nat} {a : Act}
    (I : NoOld s) (h : step false s t a = some s') : NoOld s' := by
  obtain ⟨i1⟩ := I
  cases a <;> lts_step h []

theorem noOld_reachable {s : St} (h : Reachable false s) : NoOld s := by
  induction h with
  | init => exact ⟨by simp [St.init]⟩
  | step t a _ hs ih => exact noOld_step ih hs

end Otel.C16
